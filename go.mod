module verif

go 1.23

require (
	github.com/dappledger/AnnChain v0.0.0
	github.com/ethereum/go-ethereum v1.8.27
	github.com/spf13/viper v0.0.0-20171207042631-1a0c4a370c3e
	go.uber.org/zap v0.0.0-20170802171341-e68420e36ce8
	golang.org/x/crypto v0.0.0-20190426145343-a29dc8fdc734
	pgregory.net/rapid v1.3.0
)

require (
	github.com/BurntSushi/toml v0.3.1 // indirect
	github.com/allegro/bigcache v1.2.0 // indirect
	github.com/aristanetworks/goarista v0.0.0-20180424004133-70dca2f27708 // indirect
	github.com/armon/go-metrics v0.0.0-20190430140413-ec5e00d3c878 // indirect
	github.com/boltdb/bolt v1.3.1 // indirect
	github.com/btcsuite/btcd v0.0.0-20190427004231-96897255fd17 // indirect
	github.com/fsnotify/fsnotify v1.4.7 // indirect
	github.com/go-stack/stack v1.8.0 // indirect
	github.com/golang/snappy v0.0.0-20180518054509-2e65f85255db // indirect
	github.com/gorilla/websocket v0.0.0-20170718202341-a69d9f6de432 // indirect
	github.com/hashicorp/go-hclog v0.9.1 // indirect
	github.com/hashicorp/go-immutable-radix v1.0.0 // indirect
	github.com/hashicorp/go-msgpack v0.5.5 // indirect
	github.com/hashicorp/golang-lru v0.5.0 // indirect
	github.com/hashicorp/hcl v1.0.0 // indirect
	github.com/hashicorp/raft v1.1.1 // indirect
	github.com/hashicorp/raft-boltdb v0.0.0-20190605210249-ef2e128ed477 // indirect
	github.com/magiconair/properties v1.8.0 // indirect
	github.com/mitchellh/go-homedir v0.0.0-20161203194507-b8bc1bf76747 // indirect
	github.com/mitchellh/mapstructure v1.1.2 // indirect
	github.com/patrickmn/go-cache v2.1.0+incompatible // indirect
	github.com/pelletier/go-toml v1.2.0 // indirect
	github.com/pkg/errors v0.8.1 // indirect
	github.com/spf13/afero v1.1.2 // indirect
	github.com/spf13/cast v1.3.0 // indirect
	github.com/spf13/jwalterweatherman v0.0.0-20170901151539-12bd96e66386 // indirect
	github.com/spf13/pflag v1.0.1 // indirect
	github.com/syndtr/goleveldb v0.0.0-20170725064836-b89cc31ef797 // indirect
	go.uber.org/atomic v0.0.0-20170719224650-70bd1261d36b // indirect
	go.uber.org/multierr v1.1.0 // indirect
	golang.org/x/sys v0.0.0-20190602015325-4c4f7f33c9ed // indirect
	golang.org/x/text v0.3.1-0.20181227161524-e6919f6577db // indirect
	gopkg.in/natefinch/lumberjack.v2 v2.0.0-20170531160350-a96e63847dc3 // indirect
	gopkg.in/yaml.v2 v2.2.2 // indirect
)

replace github.com/dappledger/AnnChain => /repo
