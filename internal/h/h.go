// Package h is the shared harness of every check: it runs a generated-case property under
// rapid, records evidence (cases, non-trivial distinct cases, label distribution, samples),
// classifies violations by root-cause signature against /verif/known_findings.json, and
// saves the shrunk failing case as a JSON replay file that can be re-executed without rapid.
package h

import (
	"encoding/hex"
	"encoding/json"
	"fmt"
	"hash/fnv"
	"os"
	"path/filepath"
	"runtime"
	"sort"
	"strings"
	"sync"
	"testing"

	"pgregory.net/rapid"
)

// Ctx is handed to a property for one case.
type Ctx struct {
	labels     []string
	nontrivial bool
	fp         string
	viol       *Violation
	known      []Violation
	prop       string
	Replaying  bool
}

type Violation struct {
	Sig string `json:"sig"`
	Msg string `json:"msg"`
}

// Label counts the case under a class (distribution is part of the evidence).
func (x *Ctx) Label(l string) { x.labels = append(x.labels, l) }

// Labelf is Label with formatting.
func (x *Ctx) Labelf(f string, a ...any) { x.labels = append(x.labels, fmt.Sprintf(f, a...)) }

// NonTrivial marks the case non-trivial by the leg's stated rule; fp (optional) is the
// fingerprint used for distinctness; the default is the JSON of the whole case.
func (x *Ctx) NonTrivial(fp ...string) {
	x.nontrivial = true
	if len(fp) > 0 {
		x.fp = strings.Join(fp, "|")
	}
}

// Fail reports a violation with a root-cause signature. It returns true when the caller
// must stop (a new violation); false when the signature is a listed known finding (counted,
// search continues).
func (x *Ctx) Fail(sig string, f string, a ...any) bool {
	v := Violation{Sig: sig, Msg: fmt.Sprintf(f, a...)}
	if isKnown(x.prop, sig) {
		x.known = append(x.known, v)
		return false
	}
	if x.viol == nil {
		x.viol = &v
	}
	return true
}

// Failed tells whether a (non-known) violation was already reported for this case.
func (x *Ctx) Failed() bool { return x.viol != nil }

// IsKnown tells whether sig is a listed open finding (generators use this to exclude the
// triggering shape by construction and count it under label excluded:<sig>).
func (x *Ctx) IsKnown(sig string) bool { return isKnown(x.prop, sig) }

// IsKnownFor is IsKnown outside a case (generators).
func IsKnownFor(prop, sig string) bool { return isKnown(prop, sig) }

// ---------------------------------------------------------------------------------------

type Spec[C any] struct {
	Prop string // property id, e.g. "C17"
	Leg  string // leg name, unique within the property
	Gen  func(t *rapid.T) C
	Run  func(c C, x *Ctx)
	// Render optionally turns a case into the sample written to evidence / replay
	// (default: the case itself).
	Render func(c C) any
}

type knownEntry struct {
	Property string `json:"property"`
	Key      string `json:"key"`
	What     string `json:"what"`
	Status   string `json:"status"` // "open" or "fixed"
	Commit   string `json:"commit,omitempty"`
	Replay   string `json:"replay,omitempty"`
}

var (
	knownOnce sync.Once
	knownSet  map[string]bool
)

func verifDir() string {
	if d := os.Getenv("VERIF_DIR"); d != "" {
		return d
	}
	return "/verif"
}

func isKnown(prop, sig string) bool {
	knownOnce.Do(func() {
		knownSet = map[string]bool{}
		files := []string{filepath.Join(verifDir(), "known_findings.json")}
		more, _ := filepath.Glob(filepath.Join(verifDir(), "known_findings.d", "*.json"))
		files = append(files, more...)
		for _, fn := range files {
			b, err := os.ReadFile(fn)
			if err != nil {
				continue
			}
			var f struct {
				Findings []knownEntry `json:"findings"`
			}
			if json.Unmarshal(b, &f) != nil {
				continue
			}
			for _, e := range f.Findings {
				if e.Status == "open" {
					knownSet[e.Property+":"+e.Key] = true
				}
			}
		}
	})
	return knownSet[prop+":"+sig]
}

// ---------------------------------------------------------------------------------------
// evidence recorder (per process)

type legRec struct {
	Prop        string            `json:"property"`
	Leg         string            `json:"leg"`
	Evaluations int               `json:"evaluations"`
	Nontrivial  int               `json:"nontrivial"`
	Hashes      []uint64          `json:"hashes"` // distinct non-trivial fingerprints
	Labels      map[string]int    `json:"labels"`
	Samples     []any             `json:"samples"`
	Known       map[string]int    `json:"known"`
	KnownMsg    map[string]string `json:"known_msg"`
	Violation   *savedViolation   `json:"violation,omitempty"`
	Exhaustive  bool              `json:"exhaustive,omitempty"`
	Notes       []string          `json:"notes,omitempty"`
	hashSet     map[uint64]struct{}
	frozen      bool
}

type savedViolation struct {
	Violation
	Replay string `json:"replay"`
}

var (
	recMu sync.Mutex
	recs  = map[string]*legRec{}
)

func rec(prop, leg string) *legRec {
	k := prop + "/" + leg
	r := recs[k]
	if r == nil {
		r = &legRec{Prop: prop, Leg: leg, Labels: map[string]int{}, Known: map[string]int{}, KnownMsg: map[string]string{}, hashSet: map[uint64]struct{}{}}
		recs[k] = r
	}
	return r
}

const maxSamples = 4

func hash64(s string) uint64 {
	hh := fnv.New64a()
	hh.Write([]byte(s))
	return hh.Sum64()
}

func (r *legRec) commit(x *Ctx, render func() any) {
	recMu.Lock()
	defer recMu.Unlock()
	if r.frozen {
		return
	}
	r.Evaluations++
	for _, l := range x.labels {
		r.Labels[l]++
	}
	for _, k := range x.known {
		r.Known[k.Sig]++
		if _, ok := r.KnownMsg[k.Sig]; !ok {
			r.KnownMsg[k.Sig] = trunc(k.Msg, 600)
		}
	}
	if x.nontrivial {
		r.Nontrivial++
		fp := x.fp
		var rendered any
		if fp == "" {
			rendered = render()
			b, _ := json.Marshal(rendered)
			fp = string(b)
		}
		hv := hash64(fp)
		if _, dup := r.hashSet[hv]; !dup {
			r.hashSet[hv] = struct{}{}
			// deterministic sample choice: first, then sparse later ones
			n := len(r.hashSet)
			if len(r.Samples) < maxSamples && (n == 1 || n == 7 || n == 53 || n == 401) {
				if rendered == nil {
					rendered = render()
				}
				r.Samples = append(r.Samples, shrinkSample(rendered))
			}
		}
	}
}

func trunc(s string, n int) string {
	if len(s) > n {
		return s[:n] + fmt.Sprintf("…(+%d bytes)", len(s)-n)
	}
	return s
}

// shrinkSample bounds the size of a rendered sample (long strings are truncated).
func shrinkSample(v any) any {
	b, err := json.Marshal(v)
	if err != nil {
		return fmt.Sprintf("%v", v)
	}
	if len(b) <= 3000 {
		var out any
		json.Unmarshal(b, &out)
		return out
	}
	var out any
	json.Unmarshal(b, &out)
	return truncTree(out, 160)
}

func truncTree(v any, n int) any {
	switch t := v.(type) {
	case string:
		return trunc(t, n)
	case []any:
		if len(t) > 24 {
			head := make([]any, 0, 25)
			for _, e := range t[:24] {
				head = append(head, truncTree(e, n))
			}
			return append(head, fmt.Sprintf("…(+%d items)", len(t)-24))
		}
		for i := range t {
			t[i] = truncTree(t[i], n)
		}
		return t
	case map[string]any:
		for k := range t {
			t[k] = truncTree(t[k], n)
		}
		return t
	}
	return v
}

// Note attaches a free-text note to the leg's evidence.
func Note(prop, leg, f string, a ...any) {
	recMu.Lock()
	defer recMu.Unlock()
	r := rec(prop, leg)
	if len(r.Notes) < 20 {
		r.Notes = append(r.Notes, fmt.Sprintf(f, a...))
	}
}

// SetExhaustive marks the leg as having enumerated its finite space completely.
func SetExhaustive(prop, leg string) {
	recMu.Lock()
	defer recMu.Unlock()
	rec(prop, leg).Exhaustive = true
}

var atExit []func()

// AtExit registers a function that Main runs after the tests (scratch clean-up).
func AtExit(f func()) {
	recMu.Lock()
	atExit = append(atExit, f)
	recMu.Unlock()
}

// Main must be called from TestMain of every check package.
func Main(m *testing.M) {
	code := m.Run()
	flush()
	for _, f := range atExit {
		f()
	}
	os.Exit(code)
}

func flush() {
	out := os.Getenv("VERIF_EV_OUT")
	if out == "" {
		return
	}
	recMu.Lock()
	defer recMu.Unlock()
	var all []*legRec
	keys := make([]string, 0, len(recs))
	for k := range recs {
		keys = append(keys, k)
	}
	sort.Strings(keys)
	for _, k := range keys {
		r := recs[k]
		r.Hashes = r.Hashes[:0]
		for hv := range r.hashSet {
			r.Hashes = append(r.Hashes, hv)
		}
		sort.Slice(r.Hashes, func(i, j int) bool { return r.Hashes[i] < r.Hashes[j] })
		all = append(all, r)
	}
	b, _ := json.Marshal(all)
	os.WriteFile(out, b, 0o644)
}

// ---------------------------------------------------------------------------------------

type replayFile struct {
	Property  string          `json:"property"`
	Leg       string          `json:"leg"`
	Test      string          `json:"test"`
	Violation Violation       `json:"violation"`
	Seed      string          `json:"seed,omitempty"`
	Case      json.RawMessage `json:"case"`
	Rendered  any             `json:"rendered,omitempty"`
}

func runCase[C any](s Spec[C], c C, x *Ctx) {
	defer func() {
		if p := recover(); p != nil {
			// Run draws nothing from rapid, so every panic here comes from the code under test
			// (or the harness), never from rapid's own control flow.
			buf := make([]byte, 16<<10)
			buf = buf[:runtime.Stack(buf, false)]
			x.Fail("panic:"+panicSite(buf), "panic: %v\n%s", p, trunc(string(buf), 6000))
		}
	}()
	s.Run(c, x)
}

// PanicSite is panicSite for checks that recover panics themselves (call it with debug.Stack()
// taken inside the deferred function).
func PanicSite(stack []byte) string { return panicSite(stack) }

// panicSite extracts the innermost non-runtime function of a stack dump as signature.
func panicSite(stack []byte) string {
	lines := strings.Split(string(stack), "\n")
	seenPanic := false
	for _, l := range lines {
		if strings.HasPrefix(l, "panic(") {
			seenPanic = true
			continue
		}
		if !seenPanic || strings.HasPrefix(l, "\t") || l == "" {
			continue
		}
		if strings.HasPrefix(l, "runtime.") || strings.HasPrefix(l, "runtime/") {
			continue
		}
		if i := strings.LastIndex(l, "("); i > 0 {
			l = l[:i]
		}
		if i := strings.LastIndex(l, "/"); i >= 0 {
			l = l[i+1:]
		}
		return l
	}
	return "unknown"
}

// Check runs the leg: replay mode when VERIF_REPLAY names a file for this leg, otherwise a
// rapid search (case count / seed come from -rapid.checks / -rapid.seed set by the driver).
func Check[C any](t *testing.T, s Spec[C]) {
	render := func(c C) any {
		if s.Render != nil {
			return s.Render(c)
		}
		return c
	}
	if rp := os.Getenv("VERIF_REPLAY"); rp != "" {
		b, err := os.ReadFile(rp)
		if err != nil {
			t.Fatalf("replay: %v", err)
		}
		var rf replayFile
		if err := json.Unmarshal(b, &rf); err != nil {
			t.Fatalf("replay: %v", err)
		}
		if rf.Property != s.Prop || rf.Leg != s.Leg {
			t.Skip("replay file is for another leg")
		}
		var c C
		if err := json.Unmarshal(rf.Case, &c); err != nil {
			t.Fatalf("replay: case does not decode: %v", err)
		}
		x := &Ctx{prop: s.Prop, Replaying: true}
		runCase(s, c, x)
		r := rec(s.Prop, s.Leg)
		r.commit(x, func() any { return render(c) })
		for _, k := range x.known {
			fmt.Printf("REPLAY-KNOWN sig=%s msg=%s\n", k.Sig, oneLine(k.Msg))
		}
		if x.viol != nil {
			fmt.Printf("REPLAY-VIOLATION sig=%s msg=%s\n", x.viol.Sig, oneLine(x.viol.Msg))
			t.Fatalf("replayed case violates %s: [%s] %s", s.Prop, x.viol.Sig, x.viol.Msg)
		}
		return
	}

	r := rec(s.Prop, s.Leg)
	var last *replayFile
	defer func() {
		if last != nil && t.Failed() {
			recMu.Lock()
			r.frozen = true
			dir := os.Getenv("VERIF_REPLAY_OUT")
			if dir == "" {
				dir = filepath.Join(verifDir(), "replay")
			}
			os.MkdirAll(dir, 0o755)
			b, _ := json.MarshalIndent(last, "", " ")
			name := fmt.Sprintf("%s-%s-%016x.json", s.Prop, s.Leg, hash64(string(last.Case)))
			p := filepath.Join(dir, name)
			os.WriteFile(p, b, 0o644)
			r.Violation = &savedViolation{Violation: last.Violation, Replay: p}
			recMu.Unlock()
			fmt.Printf("VIOLATION-FOUND property=%s leg=%s sig=%s replay=%s\n", s.Prop, s.Leg, last.Violation.Sig, p)
		}
	}()
	curFile := ""
	if os.Getenv("VERIF_TRACK_CASE") != "" && os.Getenv("VERIF_EV_OUT") != "" {
		curFile = os.Getenv("VERIF_EV_OUT") + ".cur"
	}
	rapid.Check(t, func(rt *rapid.T) {
		c := s.Gen(rt)
		x := &Ctx{prop: s.Prop}
		if curFile != "" {
			// the case in flight, for the driver: if the process dies (fatal runtime error, a panic on
			// a goroutine the harness cannot guard) this file becomes the replay
			cb, _ := json.Marshal(c)
			rf := &replayFile{Property: s.Prop, Leg: s.Leg, Test: t.Name(), Violation: Violation{Sig: "process-dies", Msg: "the test process died while this case was running"}, Case: cb}
			b, _ := json.Marshal(rf)
			os.WriteFile(curFile, b, 0o644)
		}
		runCase(s, c, x)
		r.commit(x, func() any { return render(c) })
		if x.viol != nil {
			cb, _ := json.Marshal(c)
			last = &replayFile{Property: s.Prop, Leg: s.Leg, Test: t.Name(), Violation: *x.viol, Case: cb}
			if s.Render != nil {
				last.Rendered = shrinkSample(s.Render(c))
			}
			rt.Fatalf("[%s] %s", x.viol.Sig, x.viol.Msg)
		}
	})
}

func oneLine(s string) string {
	s = strings.ReplaceAll(s, "\n", " | ")
	return trunc(s, 500)
}

// Plain is the recorder for legs that are not rapid searches (enumerations, process-kill
// runs): call Case once per explored case.
type Plain struct {
	Prop, Leg string
	t         *testing.T
	failed    bool
}

func NewPlain(t *testing.T, prop, leg string) *Plain { return &Plain{Prop: prop, Leg: leg, t: t} }

// Case runs one enumerated case. It returns false when a new violation was found (already
// saved as replay file and reported through t.Errorf).
func (p *Plain) Case(c any, run func(x *Ctx)) bool {
	x := &Ctx{prop: p.Prop}
	func() {
		defer func() {
			if pv := recover(); pv != nil {
				buf := make([]byte, 16<<10)
				buf = buf[:runtime.Stack(buf, false)]
				x.Fail("panic:"+panicSite(buf), "panic: %v\n%s", pv, trunc(string(buf), 6000))
			}
		}()
		run(x)
	}()
	r := rec(p.Prop, p.Leg)
	r.commit(x, func() any { return c })
	if Replaying() {
		for _, k := range x.known {
			fmt.Printf("REPLAY-KNOWN sig=%s msg=%s\n", k.Sig, oneLine(k.Msg))
		}
		if x.viol != nil {
			fmt.Printf("REPLAY-VIOLATION sig=%s msg=%s\n", x.viol.Sig, oneLine(x.viol.Msg))
		}
	}
	if x.viol != nil && !p.failed {
		p.failed = true
		cb, _ := json.Marshal(c)
		rf := &replayFile{Property: p.Prop, Leg: p.Leg, Test: p.t.Name(), Violation: *x.viol, Case: cb}
		dir := os.Getenv("VERIF_REPLAY_OUT")
		if dir == "" {
			dir = filepath.Join(verifDir(), "replay")
		}
		b, _ := json.MarshalIndent(rf, "", " ")
		path := filepath.Join(dir, fmt.Sprintf("%s-%s-%016x.json", p.Prop, p.Leg, hash64(string(cb))))
		if rp := os.Getenv("VERIF_REPLAY"); rp != "" {
			path = rp // replaying a saved case: that file is the reproduction, nothing new is written
		} else {
			os.MkdirAll(dir, 0o755)
			os.WriteFile(path, b, 0o644)
		}
		recMu.Lock()
		r.Violation = &savedViolation{Violation: *x.viol, Replay: path}
		recMu.Unlock()
		fmt.Printf("VIOLATION-FOUND property=%s leg=%s sig=%s replay=%s\n", p.Prop, p.Leg, x.viol.Sig, path)
		p.t.Errorf("[%s] %s", x.viol.Sig, x.viol.Msg)
	}
	return x.viol == nil
}

// ReplayCase loads the case of a replay file for a Plain leg (nil,false when VERIF_REPLAY is
// unset or names another leg).
func ReplayCase(prop, leg string, into any) bool {
	rp := os.Getenv("VERIF_REPLAY")
	if rp == "" {
		return false
	}
	b, err := os.ReadFile(rp)
	if err != nil {
		return false
	}
	var rf replayFile
	if json.Unmarshal(b, &rf) != nil || rf.Property != prop || rf.Leg != leg {
		return false
	}
	return json.Unmarshal(rf.Case, into) == nil
}

// Replaying reports whether the process runs in replay mode.
func Replaying() bool { return os.Getenv("VERIF_REPLAY") != "" }

// Tier returns "quick" or "thorough".
func Tier() string {
	if os.Getenv("VERIF_TIER") == "thorough" {
		return "thorough"
	}
	return "quick"
}

// Hex is a byte slice that renders as hex in JSON (readable samples and replay files).
type Hex []byte

func (b Hex) MarshalJSON() ([]byte, error) { return json.Marshal(fmt.Sprintf("%x", []byte(b))) }
func (b *Hex) UnmarshalJSON(d []byte) error {
	var s string
	if err := json.Unmarshal(d, &s); err != nil {
		return err
	}
	out, err := hex.DecodeString(s)
	*b = out
	return err
}
