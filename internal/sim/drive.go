package sim

import (
	"bytes"
	"fmt"

	"github.com/dappledger/AnnChain/gemmill/consensus/pbft"
	"github.com/dappledger/AnnChain/gemmill/types"
)

// Op is one generated scheduling decision. Selectors are reduced modulo the size of the
// set they select from at execution time, so every op list is executable and shrinks well.
type Op struct {
	K string `json:"k"`           // kind
	N int    `json:"n,omitempty"` // node selector
	A int    `json:"a,omitempty"` // first selector / argument
	B int    `json:"b,omitempty"` // second selector / argument
	C int    `json:"c,omitempty"` // third selector / argument
}

// Kinds of Op understood by Apply:
//
//	deliver  A: in-flight index            dup A: deliver but keep a copy in flight
//	drop     A: in-flight index
//	own      N: honest node, A: index into its own-message custody
//	timeout  N: honest node, A: index into its pending timeouts
//	crash    N: honest node                 restart N: crashed honest node (picked among crashed)
//	fair     A: number of fair steps (FIFO own messages, FIFO deliveries, newest timeouts)
//	sync     emulate catch-up gossip between honest nodes (queues messages)
//	byzprop  N: target honest node, A: subset mask for block A, B: subset mask for block B, C: POLRound selector
//	byzvote  N: byzantine validator selector, A: vote type/round selector, B: block selector, C: destination mask
//	split    scripted equivocation attack by a Byzantine proposer (see Split)

// Stats are per-run counters used for evidence labels.
type Stats struct {
	Delivered, Dropped, Dups, Own, Timeouts, Crashes, Restarts int
	ByzProposals, ByzVotes, Equivocations, Splits              int
	MaxRound                                                   int64
	Locked, Unlocked                                           bool
	Reordered                                                  bool
}

// Driver interprets Ops against a Net and keeps the adversary's knowledge.
type Driver struct {
	Net   *Net
	Stats Stats
	// Blocks known to the adversary: every block id seen in a proposal plus its own creations.
	Known    []types.BlockID
	knownSet map[string]bool
	// votes already signed by Byzantine validators: (id,h,r,type) -> block key, to count equivocations
	byzSigned map[string]string
	MaxHeight int64 // stop scheduling own proposals above this height (bounds the run)
	Log       []string
	LogOn     bool
}

func NewDriver(net *Net) *Driver {
	d := &Driver{Net: net, knownSet: map[string]bool{}, byzSigned: map[string]string{}, MaxHeight: 1 << 40}
	prev := net.OnEmit
	net.OnEmit = func(n *Node, m pbft.ConsensusMessage) {
		if pm, ok := m.(*pbft.ProposalMessage); ok {
			_ = pm
		}
		if vm, ok := m.(*pbft.VoteMessage); ok && len(vm.Vote.BlockID.Hash) > 0 {
			d.learn(vm.Vote.BlockID)
		}
		if prev != nil {
			prev(n, m)
		}
	}
	return d
}

func (d *Driver) learn(id types.BlockID) {
	k := id.Key()
	if !d.knownSet[k] {
		d.knownSet[k] = true
		d.Known = append(d.Known, id)
	}
}

func (d *Driver) logf(f string, a ...any) {
	if d.LogOn {
		d.Log = append(d.Log, fmt.Sprintf(f, a...))
	}
}

func (d *Driver) honestAlive() []*Node {
	var out []*Node
	for _, n := range d.Net.Nodes {
		if n.Honest && n.Alive {
			out = append(out, n)
		}
	}
	return out
}

func (d *Driver) byz() []*Node {
	var out []*Node
	for _, n := range d.Net.Nodes {
		if !n.Honest {
			out = append(out, n)
		}
	}
	return out
}

func mod(a, n int) int {
	if n <= 0 {
		return 0
	}
	a %= n
	if a < 0 {
		a += n
	}
	return a
}

func (d *Driver) observe() {
	for _, n := range d.honestAlive() {
		rs := n.RS()
		if rs.Round > d.Stats.MaxRound {
			d.Stats.MaxRound = rs.Round
		}
		if rs.LockedBlock != nil {
			d.Stats.Locked = true
		}
	}
}

// Apply executes one op. It returns false when the op was a no-op in the current state.
func (d *Driver) Apply(op Op) bool {
	net := d.Net
	defer d.observe()
	switch op.K {
	case "deliver", "dup":
		if len(net.InFlight) == 0 {
			return false
		}
		k := mod(op.A, len(net.InFlight))
		if k != 0 {
			d.Stats.Reordered = true
		}
		f := net.InFlight[k]
		d.logf("%s %d->%d %s", op.K, f.From, f.To, Describe(f.Msg))
		if !net.Nodes[f.To].Alive {
			net.Drop(k)
			d.Stats.Dropped++
			return true
		}
		net.Deliver(k, op.K == "dup")
		d.Stats.Delivered++
		if op.K == "dup" {
			d.Stats.Dups++
		}
		return true
	case "drop":
		if len(net.InFlight) == 0 {
			return false
		}
		k := mod(op.A, len(net.InFlight))
		d.logf("drop %d->%d %s", net.InFlight[k].From, net.InFlight[k].To, Describe(net.InFlight[k].Msg))
		net.Drop(k)
		d.Stats.Dropped++
		return true
	case "own":
		hs := d.honestAlive()
		if len(hs) == 0 {
			return false
		}
		// prefer a node that has something queued
		start := mod(op.N, len(hs))
		for i := 0; i < len(hs); i++ {
			n := hs[(start+i)%len(hs)]
			if len(n.Own) > 0 {
				k := mod(op.A, len(n.Own))
				if k != 0 {
					d.Stats.Reordered = true
				}
				d.logf("own n%d %s", n.ID, Describe(n.Own[k]))
				net.OwnStep(n, k)
				d.Stats.Own++
				return true
			}
		}
		return false
	case "timeout":
		hs := d.honestAlive()
		if len(hs) == 0 {
			return false
		}
		start := mod(op.N, len(hs))
		for i := 0; i < len(hs); i++ {
			n := hs[(start+i)%len(hs)]
			p := n.Ctl.Ticker.Pending()
			if len(p) > 0 {
				k := mod(op.A, len(p))
				d.logf("timeout n%d h%d r%d %v", n.ID, p[k].Height, p[k].Round, p[k].Step)
				net.Timeout(n, k)
				d.Stats.Timeouts++
				return true
			}
		}
		return false
	case "crash":
		hs := d.honestAlive()
		if len(hs) <= 1 {
			return false
		}
		n := hs[mod(op.N, len(hs))]
		d.logf("crash n%d", n.ID)
		net.Crash(n)
		d.Stats.Crashes++
		return true
	case "restart":
		var dead []*Node
		for _, n := range net.Nodes {
			if n.Honest && !n.Alive {
				dead = append(dead, n)
			}
		}
		if len(dead) == 0 {
			return false
		}
		n := dead[mod(op.N, len(dead))]
		d.logf("restart n%d", n.ID)
		net.Restart(n)
		d.Stats.Restarts++
		return true
	case "crashrestart":
		hs := d.honestAlive()
		if len(hs) == 0 {
			return false
		}
		n := hs[mod(op.N, len(hs))]
		d.logf("crashrestart n%d", n.ID)
		net.Crash(n)
		net.Restart(n)
		d.Stats.Crashes++
		d.Stats.Restarts++
		return true
	case "fair":
		steps := 1 + mod(op.A, 60)
		for i := 0; i < steps; i++ {
			if !d.FairStep() {
				break
			}
		}
		return true
	case "sync":
		d.Sync()
		return true
	case "byzprop":
		return d.byzProposal(op)
	case "byzvote":
		return d.byzVote(op)
	case "split":
		return d.Split(op)
	}
	return false
}

// FairStep performs one step of benign scheduling: oldest own message of some node, else
// oldest in-flight message, else the newest pending timeout of every node.
func (d *Driver) FairStep() bool {
	net := d.Net
	for _, n := range d.honestAlive() {
		if len(n.Own) > 0 {
			net.OwnStep(n, 0)
			d.Stats.Own++
			d.observe()
			return true
		}
	}
	for len(net.InFlight) > 0 {
		f := net.InFlight[0]
		if !net.Nodes[f.To].Alive {
			net.Drop(0)
			continue
		}
		net.Deliver(0, false)
		d.Stats.Delivered++
		d.observe()
		return true
	}
	fired := false
	for _, n := range d.honestAlive() {
		rs := n.RS()
		if rs.Height > d.MaxHeight {
			continue
		}
		n.Ctl.Ticker.DropStale(rs.Height, rs.Round, rs.Step)
		if p := n.Ctl.Ticker.Pending(); len(p) > 0 {
			net.Timeout(n, len(p)-1)
			d.Stats.Timeouts++
			fired = true
		}
	}
	d.observe()
	return fired
}

// Sync emulates the reactors' catch-up gossip between honest nodes: for every ordered pair
// (a,b) of live honest nodes it queues what a's gossip routines would eventually send b:
// the stored block parts and commit precommits of b's height when b is behind; a's proposal,
// block parts and every vote of every round of the common height otherwise.
func (d *Driver) Sync() {
	net := d.Net
	hs := d.honestAlive()
	for _, a := range hs {
		ars := a.RS()
		for _, b := range hs {
			if a == b {
				continue
			}
			brs := b.RS()
			switch {
			case brs.Height < ars.Height && brs.Height <= a.Store.Height():
				h := brs.Height
				meta := a.Store.LoadBlockMeta(h)
				var commit *types.Commit
				if h == a.Store.Height() {
					commit = a.Store.LoadSeenCommit(h)
				} else {
					commit = a.Store.LoadBlockCommit(h)
				}
				if meta == nil || commit == nil {
					continue
				}
				// queryMaj23Routine / VoteSetMaj23Message: a tells b which block it saw +2/3 for, so that
				// b also accepts a precommit for that block from a validator whose other vote it holds
				// (the reactor calls HeightVoteSet.SetPeerMaj23 directly, outside the message queue)
				if brs.Votes != nil {
					brs.Votes.SetPeerMaj23(commit.Round(), types.VoteTypePrecommit, peerKey(a.ID), commit.BlockID)
				}
				for _, pc := range commit.Precommits {
					if pc != nil {
						net.Send(a.ID, b.ID, &pbft.VoteMessage{Vote: pc})
					}
				}
				round := commit.Round()
				for i := 0; i < meta.PartsHeader.Total; i++ {
					if p := a.Store.LoadBlockPart(h, i); p != nil {
						net.Send(a.ID, b.ID, &pbft.BlockPartMessage{Height: h, Round: round, Part: p})
					}
				}
			case brs.Height == ars.Height:
				// votes of this height that b does not have yet (gossip only sends what the peer lacks)
				for r := int64(0); r <= ars.Votes.Round(); r++ {
					for ti, vs := range []*types.VoteSet{ars.Votes.Prevotes(r), ars.Votes.Precommits(r)} {
						if vs == nil {
							continue
						}
						var bvs *types.VoteSet
						if ti == 0 {
							bvs = brs.Votes.Prevotes(r)
						} else {
							bvs = brs.Votes.Precommits(r)
						}
						if id, ok := vs.TwoThirdsMajority(); ok {
							typ := types.VoteTypePrevote
							if ti == 1 {
								typ = types.VoteTypePrecommit
							}
							brs.Votes.SetPeerMaj23(r, typ, peerKey(a.ID), id)
						}
						for i := 0; i < vs.Size(); i++ {
							v := vs.GetByIndex(i)
							if v == nil {
								continue
							}
							if bvs != nil {
								if have := bvs.GetByIndex(i); have != nil && have.BlockID.Equals(v.BlockID) {
									continue
								}
							}
							net.Send(a.ID, b.ID, &pbft.VoteMessage{Vote: v})
						}
					}
				}
				if ars.Proposal != nil && ars.Round == brs.Round && brs.Proposal == nil {
					net.Send(a.ID, b.ID, &pbft.ProposalMessage{Proposal: ars.Proposal})
				}
				if ars.ProposalBlockParts != nil && (ars.Round == brs.Round || ars.Step >= pbft.RoundStepCommit || brs.Step >= pbft.RoundStepCommit) {
					for i := 0; i < ars.ProposalBlockParts.Total(); i++ {
						p := ars.ProposalBlockParts.GetPart(i)
						if p == nil {
							continue
						}
						if brs.ProposalBlockParts != nil && brs.ProposalBlockParts.HasHeader(ars.ProposalBlockParts.Header()) && brs.ProposalBlockParts.GetPart(i) != nil {
							continue
						}
						net.Send(a.ID, b.ID, &pbft.BlockPartMessage{Height: ars.Height, Round: ars.Round, Part: p})
					}
				}
			}
		}
	}
}

// ---------------------------------------------------------------------------------------
// Byzantine behaviour

func (d *Driver) subset(mask int, nodes []*Node) []*Node {
	var out []*Node
	for i, n := range nodes {
		if mask&(1<<uint(i%30)) != 0 {
			out = append(out, n)
		}
	}
	return out
}

// byzProposal: if the proposer expected by the target node for its current height/round is
// Byzantine, that validator creates up to two different valid-looking blocks and proposes
// block A to subset A and block B to subset B of the honest nodes.
func (d *Driver) byzProposal(op Op) bool {
	hs := d.honestAlive()
	if len(hs) == 0 || len(d.byz()) == 0 {
		return false
	}
	t := hs[mod(op.N, len(hs))]
	rs := t.RS()
	prop := rs.Validators.Proposer()
	var b *Node
	for _, n := range d.byz() {
		if bytes.Equal(n.Addr, prop.Address) {
			b = n
		}
	}
	if b == nil {
		return false
	}
	st := t.CS.GetState()
	var lc *types.Commit
	if rs.Height > 1 {
		if rs.LastCommit == nil || !rs.LastCommit.HasTwoThirdsMajority() {
			return false
		}
		lc = rs.LastCommit.MakeCommit()
	}
	sent := false
	for i, mask := range []int{op.A, op.B} {
		dst := d.subset(mask, hs)
		if len(dst) == 0 {
			continue
		}
		blk, parts := MakeBlock(st, lc, b.ID, []types.Tx{types.Tx(fmt.Sprintf("byz-%d-%d-%d-%d", b.ID, rs.Height, rs.Round, i))}, d.Net.Cfg.PartSize)
		bid := types.BlockID{Hash: blk.Hash(), PartsHeader: parts.Header()}
		d.learn(bid)
		polRound, polID := int64(-1), types.BlockID{}
		if rs.Round > 0 && op.C%3 != 0 {
			polRound = int64(mod(op.C/3, int(rs.Round)))
			if len(d.Known) > 0 {
				polID = d.Known[mod(op.C, len(d.Known))]
			}
		}
		for _, m := range ProposalMsgs(b.ID, rs.Height, rs.Round, parts, polRound, polID) {
			for _, n := range dst {
				d.Net.Send(b.ID, n.ID, m)
			}
		}
		d.logf("byzprop v%d h%d r%d block %x to %d nodes", b.ID, rs.Height, rs.Round, fp(bid.Hash), len(dst))
		sent = true
		if i == 1 {
			d.Stats.Equivocations++
		}
	}
	if sent {
		d.Stats.ByzProposals++
	}
	return sent
}

// byzVote: a Byzantine validator signs a prevote or precommit for a known block, nil or a
// random id, at a round near some honest node's round, and sends it to a subset of the honest nodes.
func (d *Driver) byzVote(op Op) bool {
	bs := d.byz()
	hs := d.honestAlive()
	if len(bs) == 0 || len(hs) == 0 {
		return false
	}
	b := bs[mod(op.N, len(bs))]
	ref := hs[mod(op.A/16, len(hs))]
	rs := ref.RS()
	typ := types.VoteTypePrevote
	if op.A&1 == 1 {
		typ = types.VoteTypePrecommit
	}
	round := rs.Round + int64(mod(op.A/2, 4)) - 1
	if round < 0 {
		round = 0
	}
	var bid types.BlockID
	switch sel := mod(op.B, len(d.Known)+2); {
	case sel < len(d.Known):
		bid = d.Known[sel]
	case sel == len(d.Known):
		// nil
	default:
		bid = types.BlockID{Hash: []byte(fmt.Sprintf("random-block-id-%06d", op.B%1000000)), PartsHeader: types.PartSetHeader{Total: 1, Hash: []byte("random-parts-hash-00")}}
	}
	if _, val := rs.Validators.GetByAddress(b.Addr); val == nil {
		return false
	}
	v := SignVote(b.ID, rs.Validators, rs.Height, round, typ, bid)
	key := fmt.Sprintf("%d/%d/%d/%d", b.ID, rs.Height, round, typ)
	if prev, ok := d.byzSigned[key]; ok && prev != bid.Key() {
		d.Stats.Equivocations++
	}
	d.byzSigned[key] = bid.Key()
	dst := d.subset(op.C|1<<uint(mod(op.C/7, len(hs))), hs)
	for _, n := range dst {
		d.Net.Send(b.ID, n.ID, &pbft.VoteMessage{Vote: v})
	}
	d.logf("byzvote v%d t%d h%d r%d %x to %d nodes", b.ID, typ, rs.Height, round, fp(bid.Hash), len(dst))
	d.Stats.ByzVotes++
	return true
}

// Split scripts the classic equivocation attack when a Byzantine validator is the proposer
// some honest node expects: two blocks A and B; honest nodes are partitioned into two groups
// (by mask); group 1 receives A, group 2 receives B; every Byzantine validator prevotes and
// precommits A towards group 1 and B towards group 2. All messages are queued; the schedule
// decides what arrives.
func (d *Driver) Split(op Op) bool {
	hs := d.honestAlive()
	bs := d.byz()
	if len(hs) < 2 || len(bs) == 0 {
		return false
	}
	t := hs[mod(op.N, len(hs))]
	rs := t.RS()
	prop := rs.Validators.Proposer()
	var b *Node
	for _, n := range bs {
		if bytes.Equal(n.Addr, prop.Address) {
			b = n
		}
	}
	if b == nil {
		return false
	}
	st := t.CS.GetState()
	var lc *types.Commit
	if rs.Height > 1 {
		if rs.LastCommit == nil || !rs.LastCommit.HasTwoThirdsMajority() {
			return false
		}
		lc = rs.LastCommit.MakeCommit()
	}
	mask := op.A
	if mask%(1<<uint(len(hs))) == 0 || (mask+1)%(1<<uint(len(hs))) == 0 {
		mask = 0x5555
	}
	var g [2][]*Node
	for i, n := range hs {
		g[(mask>>uint(i%30))&1] = append(g[(mask>>uint(i%30))&1], n)
	}
	for i := 0; i < 2; i++ {
		blk, parts := MakeBlock(st, lc, b.ID, []types.Tx{types.Tx(fmt.Sprintf("split-%d-%d-%d-%d", b.ID, rs.Height, rs.Round, i))}, d.Net.Cfg.PartSize)
		bid := types.BlockID{Hash: blk.Hash(), PartsHeader: parts.Header()}
		d.learn(bid)
		for _, m := range ProposalMsgs(b.ID, rs.Height, rs.Round, parts, -1, types.BlockID{}) {
			for _, n := range g[i] {
				d.Net.Send(b.ID, n.ID, m)
			}
		}
		for _, bz := range bs {
			if _, val := rs.Validators.GetByAddress(bz.Addr); val == nil {
				continue
			}
			for _, typ := range []byte{types.VoteTypePrevote, types.VoteTypePrecommit} {
				v := SignVote(bz.ID, rs.Validators, rs.Height, rs.Round, typ, bid)
				for _, n := range g[i] {
					d.Net.Send(bz.ID, n.ID, &pbft.VoteMessage{Vote: v})
				}
			}
		}
	}
	d.logf("split by v%d at h%d r%d groups %d/%d", b.ID, rs.Height, rs.Round, len(g[0]), len(g[1]))
	d.Stats.Splits++
	d.Stats.Equivocations++
	return true
}

// RunFair runs benign scheduling (with gossip emulation when nothing else is left) until every
// live honest node has committed height `until` or maxSteps is exhausted. It reports whether the
// target was reached.
func (d *Driver) RunFair(until int64, maxSteps int) bool {
	reached := func() bool {
		for _, n := range d.honestAlive() {
			if n.Store.Height() < until {
				return false
			}
		}
		return true
	}
	saved := d.MaxHeight
	d.MaxHeight = until // nodes that are past the target do not start further rounds
	defer func() { d.MaxHeight = saved }()
	idle := 0
	for i := 0; i < maxSteps; i++ {
		if reached() {
			return true
		}
		if i%40 == 39 && len(d.Net.InFlight) == 0 {
			d.Sync() // the reactors' gossip routines run all the time
		}
		if d.FairStep() {
			idle = 0
			continue
		}
		idle++
		if idle > 3 {
			return reached()
		}
		d.Sync()
	}
	return reached()
}
