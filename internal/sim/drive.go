package sim

import (
	"bytes"
	"fmt"

	"github.com/dappledger/AnnChain/gemmill/consensus/pbft"
	"github.com/dappledger/AnnChain/gemmill/types"
)

// Op is one generated scheduling decision. Selectors are reduced modulo the size of the
// set they select from at execution time, so every op list is executable and shrinks well.
type Op struct {
	K string `json:"k"`           // kind
	N int    `json:"n,omitempty"` // node selector
	A int    `json:"a,omitempty"` // first selector / argument
	B int    `json:"b,omitempty"` // second selector / argument
	C int    `json:"c,omitempty"` // third selector / argument
}

// Kinds of Op understood by Apply:
//
//	deliver  A: in-flight index            dup A: deliver but keep a copy in flight
//	drop     A: in-flight index
//	own      N: honest node, A: index into its own-message custody
//	timeout  N: honest node, A: index into its pending timeouts
//	crash    N: honest node                 restart N: crashed honest node (picked among crashed)
//	fair     A: number of fair steps (FIFO own messages, FIFO deliveries, newest timeouts)
//	sync     emulate catch-up gossip between honest nodes (queues messages)
//	byzprop  N: target honest node, A: subset mask for block A, B: subset mask for block B, C: POLRound selector
//	byzvote  N: byzantine validator selector, A: vote type/round selector, B: block selector (and copies), C: destination mask
//	byzclaim N: target honest node, A: type/round selector, B: block selector: a +2/3 claim by a Byzantine peer
//	split    scripted equivocation attack by a Byzantine proposer (see Split)
//	amnesia / stalepolka   scripted lock attacks (see Amnesia, StalePolka)
//	lateproposal  N: victim; scripted second proposal for a round that is being committed (see LateProposal)

// Stats are per-run counters used for evidence labels.
type Stats struct {
	Delivered, Dropped, Dups, Own, Timeouts, Crashes, Restarts int
	ByzProposals, ByzVotes, Equivocations, Splits, StalePolkas, Stuffed int
	LateProposals, ByzClaims, Starved, NilRounds               int
	MaxRound                                                   int64
	Locked, Unlocked                                           bool
	Reordered                                                  bool
}

// Driver interprets Ops against a Net and keeps the adversary's knowledge.
type Driver struct {
	Net   *Net
	Stats Stats
	// Blocks known to the adversary: every block id seen in a proposal plus its own creations.
	Known    []types.BlockID
	knownSet map[string]bool
	// votes already signed by Byzantine validators: (id,h,r,type) -> block key, to count equivocations
	byzSigned map[string]string
	MaxHeight int64 // stop scheduling own proposals above this height (bounds the run)
	Log       []string
	LogOn     bool
}

func NewDriver(net *Net) *Driver {
	d := &Driver{Net: net, knownSet: map[string]bool{}, byzSigned: map[string]string{}, MaxHeight: 1 << 40}
	prev := net.OnEmit
	net.OnEmit = func(n *Node, m pbft.ConsensusMessage) {
		if pm, ok := m.(*pbft.ProposalMessage); ok {
			_ = pm
		}
		if vm, ok := m.(*pbft.VoteMessage); ok && len(vm.Vote.BlockID.Hash) > 0 {
			d.learn(vm.Vote.BlockID)
		}
		if prev != nil {
			prev(n, m)
		}
	}
	return d
}

func (d *Driver) learn(id types.BlockID) {
	k := id.Key()
	if !d.knownSet[k] {
		d.knownSet[k] = true
		d.Known = append(d.Known, id)
	}
}

func (d *Driver) logf(f string, a ...any) {
	if d.LogOn {
		d.Log = append(d.Log, fmt.Sprintf(f, a...))
	}
}

func (d *Driver) honestAlive() []*Node {
	var out []*Node
	for _, n := range d.Net.Nodes {
		if n.Honest && n.Alive {
			out = append(out, n)
		}
	}
	return out
}

func (d *Driver) byz() []*Node {
	var out []*Node
	for _, n := range d.Net.Nodes {
		if !n.Honest {
			out = append(out, n)
		}
	}
	return out
}

func mod(a, n int) int {
	if n <= 0 {
		return 0
	}
	a %= n
	if a < 0 {
		a += n
	}
	return a
}

func (d *Driver) observe() {
	for _, n := range d.honestAlive() {
		rs := n.RS()
		if rs.Round > d.Stats.MaxRound {
			d.Stats.MaxRound = rs.Round
		}
		if rs.LockedBlock != nil {
			d.Stats.Locked = true
		}
	}
}

// Apply executes one op. It returns false when the op was a no-op in the current state.
func (d *Driver) Apply(op Op) bool {
	net := d.Net
	defer d.observe()
	switch op.K {
	case "deliver", "dup":
		if len(net.InFlight) == 0 {
			return false
		}
		k := mod(op.A, len(net.InFlight))
		if k != 0 {
			d.Stats.Reordered = true
		}
		f := net.InFlight[k]
		d.logf("%s %d->%d %s", op.K, f.From, f.To, Describe(f.Msg))
		if !net.Nodes[f.To].Alive {
			net.Drop(k)
			d.Stats.Dropped++
			return true
		}
		net.Deliver(k, op.K == "dup")
		d.Stats.Delivered++
		if op.K == "dup" {
			d.Stats.Dups++
		}
		return true
	case "drop":
		if len(net.InFlight) == 0 {
			return false
		}
		k := mod(op.A, len(net.InFlight))
		d.logf("drop %d->%d %s", net.InFlight[k].From, net.InFlight[k].To, Describe(net.InFlight[k].Msg))
		net.Drop(k)
		d.Stats.Dropped++
		return true
	case "own":
		hs := d.honestAlive()
		if len(hs) == 0 {
			return false
		}
		// prefer a node that has something queued
		start := mod(op.N, len(hs))
		for i := 0; i < len(hs); i++ {
			n := hs[(start+i)%len(hs)]
			if len(n.Own) > 0 {
				k := mod(op.A, len(n.Own))
				if k != 0 {
					d.Stats.Reordered = true
				}
				d.logf("own n%d %s", n.ID, Describe(n.Own[k]))
				net.OwnStep(n, k)
				d.Stats.Own++
				return true
			}
		}
		return false
	case "timeout":
		hs := d.honestAlive()
		if len(hs) == 0 {
			return false
		}
		start := mod(op.N, len(hs))
		for i := 0; i < len(hs); i++ {
			n := hs[(start+i)%len(hs)]
			p := n.Ctl.Ticker.Pending()
			if len(p) > 0 {
				k := mod(op.A, len(p))
				d.logf("timeout n%d h%d r%d %v", n.ID, p[k].Height, p[k].Round, p[k].Step)
				net.Timeout(n, k)
				d.Stats.Timeouts++
				return true
			}
		}
		return false
	case "crash":
		hs := d.honestAlive()
		if len(hs) <= 1 {
			return false
		}
		n := hs[mod(op.N, len(hs))]
		d.logf("crash n%d", n.ID)
		net.Crash(n)
		d.Stats.Crashes++
		return true
	case "restart":
		var dead []*Node
		for _, n := range net.Nodes {
			if n.Honest && !n.Alive {
				dead = append(dead, n)
			}
		}
		if len(dead) == 0 {
			return false
		}
		n := dead[mod(op.N, len(dead))]
		d.logf("restart n%d", n.ID)
		net.Restart(n)
		d.Stats.Restarts++
		return true
	case "crashrestart":
		hs := d.honestAlive()
		if len(hs) == 0 {
			return false
		}
		n := hs[mod(op.N, len(hs))]
		d.logf("crashrestart n%d", n.ID)
		net.Crash(n)
		net.Restart(n)
		d.Stats.Crashes++
		d.Stats.Restarts++
		return true
	case "fair":
		steps := 1 + mod(op.A, 60)
		for i := 0; i < steps; i++ {
			if !d.FairStep() {
				break
			}
		}
		return true
	case "sync":
		d.Sync()
		return true
	case "byzprop":
		return d.byzProposal(op)
	case "byzvote":
		return d.byzVote(op)
	case "byzclaim":
		return d.byzClaim(op)
	case "nilrounds":
		return d.NilRounds(op)
	case "split":
		return d.Split(op)
	case "amnesia":
		return d.Amnesia(op)
	case "stalepolka":
		return d.StalePolka(op)
	case "lateproposal":
		return d.LateProposal(op)
	}
	return false
}

// FairStep performs one step of benign scheduling: oldest own message of some node, else
// oldest in-flight message, else the newest pending timeout of every node.
func (d *Driver) FairStep() bool {
	net := d.Net
	for _, n := range d.honestAlive() {
		if len(n.Own) > 0 {
			net.OwnStep(n, 0)
			d.Stats.Own++
			d.observe()
			return true
		}
	}
	for len(net.InFlight) > 0 {
		f := net.InFlight[0]
		if !net.Nodes[f.To].Alive {
			net.Drop(0)
			continue
		}
		net.Deliver(0, false)
		d.Stats.Delivered++
		d.observe()
		return true
	}
	fired := false
	for _, n := range d.honestAlive() {
		rs := n.RS()
		if rs.Height > d.MaxHeight {
			continue
		}
		n.Ctl.Ticker.DropStale(rs.Height, rs.Round, rs.Step)
		if p := n.Ctl.Ticker.Pending(); len(p) > 0 {
			net.Timeout(n, len(p)-1)
			d.Stats.Timeouts++
			fired = true
		}
	}
	d.observe()
	return fired
}

// Sync emulates the reactors' catch-up gossip between honest nodes: for every ordered pair
// (a,b) of live honest nodes it queues what a's gossip routines would eventually send b:
// the stored block parts and commit precommits of b's height when b is behind; a's proposal,
// block parts and every vote of every round of the common height otherwise.
func (d *Driver) Sync() {
	net := d.Net
	hs := d.honestAlive()
	for _, a := range hs {
		ars := a.RS()
		for _, b := range hs {
			if a == b {
				continue
			}
			brs := b.RS()
			switch {
			case brs.Height < ars.Height && brs.Height <= a.Store.Height():
				h := brs.Height
				meta := a.Store.LoadBlockMeta(h)
				var commit *types.Commit
				if h == a.Store.Height() {
					commit = a.Store.LoadSeenCommit(h)
				} else {
					commit = a.Store.LoadBlockCommit(h)
				}
				if meta == nil || commit == nil {
					continue
				}
				// queryMaj23Routine / VoteSetMaj23Message: a tells b which block it saw +2/3 for, so that
				// b also accepts a precommit for that block from a validator whose other vote it holds
				// (the reactor calls HeightVoteSet.SetPeerMaj23 directly, outside the message queue)
				if brs.Votes != nil {
					brs.Votes.SetPeerMaj23(commit.Round(), types.VoteTypePrecommit, peerKey(a.ID), commit.BlockID)
				}
				for _, pc := range commit.Precommits {
					if pc != nil {
						net.Send(a.ID, b.ID, &pbft.VoteMessage{Vote: pc})
					}
				}
				round := commit.Round()
				for i := 0; i < meta.PartsHeader.Total; i++ {
					if p := a.Store.LoadBlockPart(h, i); p != nil {
						net.Send(a.ID, b.ID, &pbft.BlockPartMessage{Height: h, Round: round, Part: p})
					}
				}
			case brs.Height == ars.Height:
				// votes of this height that b does not have yet (gossip only sends what the peer lacks)
				for r := int64(0); r <= ars.Votes.Round(); r++ {
					for ti, vs := range []*types.VoteSet{ars.Votes.Prevotes(r), ars.Votes.Precommits(r)} {
						if vs == nil {
							continue
						}
						var bvs *types.VoteSet
						if ti == 0 {
							bvs = brs.Votes.Prevotes(r)
						} else {
							bvs = brs.Votes.Precommits(r)
						}
						if id, ok := vs.TwoThirdsMajority(); ok {
							typ := types.VoteTypePrevote
							if ti == 1 {
								typ = types.VoteTypePrecommit
							}
							brs.Votes.SetPeerMaj23(r, typ, peerKey(a.ID), id)
						}
						for i := 0; i < vs.Size(); i++ {
							v := vs.GetByIndex(i)
							if v == nil {
								continue
							}
							if bvs != nil {
								if have := bvs.GetByIndex(i); have != nil && have.BlockID.Equals(v.BlockID) {
									continue
								}
							}
							net.Send(a.ID, b.ID, &pbft.VoteMessage{Vote: v})
						}
					}
				}
				if ars.Proposal != nil && ars.Round == brs.Round && brs.Proposal == nil {
					net.Send(a.ID, b.ID, &pbft.ProposalMessage{Proposal: ars.Proposal})
				}
				if ars.ProposalBlockParts != nil && (ars.Round == brs.Round || ars.Step >= pbft.RoundStepCommit || brs.Step >= pbft.RoundStepCommit) {
					for i := 0; i < ars.ProposalBlockParts.Total(); i++ {
						p := ars.ProposalBlockParts.GetPart(i)
						if p == nil {
							continue
						}
						if brs.ProposalBlockParts != nil && brs.ProposalBlockParts.HasHeader(ars.ProposalBlockParts.Header()) && brs.ProposalBlockParts.GetPart(i) != nil {
							continue
						}
						net.Send(a.ID, b.ID, &pbft.BlockPartMessage{Height: ars.Height, Round: ars.Round, Part: p})
					}
				}
			}
		}
	}
}

// ---------------------------------------------------------------------------------------
// Byzantine behaviour

func (d *Driver) subset(mask int, nodes []*Node) []*Node {
	var out []*Node
	for i, n := range nodes {
		if mask&(1<<uint(i%30)) != 0 {
			out = append(out, n)
		}
	}
	return out
}

// byzProposal: if the proposer expected by the target node for its current height/round is
// Byzantine, that validator creates up to two different valid-looking blocks and proposes
// block A to subset A and block B to subset B of the honest nodes.
func (d *Driver) byzProposal(op Op) bool {
	hs := d.honestAlive()
	if len(hs) == 0 || len(d.byz()) == 0 {
		return false
	}
	t := hs[mod(op.N, len(hs))]
	rs := t.RS()
	prop := rs.Validators.Proposer()
	var b *Node
	for _, n := range d.byz() {
		if bytes.Equal(n.Addr, prop.Address) {
			b = n
		}
	}
	if b == nil {
		return false
	}
	st := t.CS.GetState()
	var lc *types.Commit
	if rs.Height > 1 {
		if rs.LastCommit == nil || !rs.LastCommit.HasTwoThirdsMajority() {
			return false
		}
		lc = rs.LastCommit.MakeCommit()
	}
	sent := false
	for i, mask := range []int{op.A, op.B} {
		dst := d.subset(mask, hs)
		if len(dst) == 0 {
			continue
		}
		blk, parts := MakeBlock(st, lc, b.ID, []types.Tx{types.Tx(fmt.Sprintf("byz-%d-%d-%d-%d", b.ID, rs.Height, rs.Round, i))}, d.Net.Cfg.PartSize)
		bid := types.BlockID{Hash: blk.Hash(), PartsHeader: parts.Header()}
		d.learn(bid)
		polRound, polID := int64(-1), types.BlockID{}
		if rs.Round > 0 && op.C%3 != 0 {
			polRound = int64(mod(op.C/3, int(rs.Round)))
			if len(d.Known) > 0 {
				polID = d.Known[mod(op.C, len(d.Known))]
			}
		}
		for _, m := range ProposalMsgs(b.ID, rs.Height, rs.Round, parts, polRound, polID) {
			for _, n := range dst {
				d.Net.Send(b.ID, n.ID, m)
			}
		}
		d.logf("byzprop v%d h%d r%d block %x to %d nodes", b.ID, rs.Height, rs.Round, fp(bid.Hash), len(dst))
		sent = true
		if i == 1 {
			d.Stats.Equivocations++
		}
	}
	if sent {
		d.Stats.ByzProposals++
	}
	return sent
}

// byzVote: a Byzantine validator signs a prevote or precommit for a known block, nil or a
// random id, at a round near some honest node's round, and sends it to a subset of the honest nodes.
func (d *Driver) byzVote(op Op) bool {
	bs := d.byz()
	hs := d.honestAlive()
	if len(bs) == 0 || len(hs) == 0 {
		return false
	}
	b := bs[mod(op.N, len(bs))]
	ref := hs[mod(op.A/16, len(hs))]
	rs := ref.RS()
	typ := types.VoteTypePrevote
	if op.A&1 == 1 {
		typ = types.VoteTypePrecommit
	}
	round := rs.Round + int64(mod(op.A/2, 4)) - 1
	if round < 0 {
		round = 0
	}
	var bid types.BlockID
	switch sel := mod(op.B, len(d.Known)+2); {
	case sel < len(d.Known):
		bid = d.Known[sel]
	case sel == len(d.Known):
		// nil
	default:
		bid = types.BlockID{Hash: []byte(fmt.Sprintf("random-block-id-%06d", op.B%1000000)), PartsHeader: types.PartSetHeader{Total: 1, Hash: []byte("random-parts-hash-00")}}
	}
	if _, val := rs.Validators.GetByAddress(b.Addr); val == nil {
		return false
	}
	v := SignVote(b.ID, rs.Validators, rs.Height, round, typ, bid)
	key := fmt.Sprintf("%d/%d/%d/%d", b.ID, rs.Height, round, typ)
	if prev, ok := d.byzSigned[key]; ok && prev != bid.Key() {
		d.Stats.Equivocations++
	}
	d.byzSigned[key] = bid.Key()
	if op.C%11 == 3 && rs.Validators.Size() > 1 {
		// the signed vote presented for another validator's slot (index is not signed)
		w := *v
		w.ValidatorIndex = mod(v.ValidatorIndex+1+mod(op.C/11, rs.Validators.Size()-1), rs.Validators.Size())
		v = &w
		d.Stats.Stuffed++
	}
	dst := d.subset(op.C|1<<uint(mod(op.C/7, len(hs))), hs)
	copies := 1
	if op.B%5 == 4 {
		copies = 2 + mod(op.B/5, 3) // the same signed vote, sent again and again
	}
	for _, n := range dst {
		for i := 0; i < copies; i++ {
			d.Net.Send(b.ID, n.ID, &pbft.VoteMessage{Vote: v})
		}
	}
	d.logf("byzvote v%d t%d h%d r%d %x to %d nodes x%d", b.ID, typ, rs.Height, round, fp(bid.Hash), len(dst), copies)
	d.Stats.ByzVotes++
	return true
}

// NilRounds makes every live honest node go through A%12+1 rounds without a decision: the
// proposals of those rounds are lost (an honest proposer's own proposal is dropped before it is
// processed), everybody runs into the propose timeout, prevotes nil, sees +2/3 nil and precommits
// nil. Long heights: many timeouts, many rounds in the WAL. Needs all honest nodes in one
// height/round at a round's start and the honest nodes alone above two thirds.
func (d *Driver) NilRounds(op Op) bool {
	net := d.Net
	hs := d.honestAlive()
	if len(hs) == 0 {
		return false
	}
	var total, honest int64
	for i, p := range net.Cfg.Powers {
		total += p
		if net.Nodes[i].Honest && net.Nodes[i].Alive {
			honest += p
		}
	}
	if 3*honest <= 2*total {
		return false
	}
	// bring everybody to the start of a height
	if _, ok := d.quiesceAtNewHeight(); !ok {
		return false
	}
	for _, n := range hs {
		d.fireNewest(n) // NewHeight -> round 0
	}
	k := mod(op.A, 12) + 1
	for r := 0; r < k; r++ {
		H, R := hs[0].RS().Height, hs[0].RS().Round
		for _, n := range hs {
			if rs := n.RS(); rs.Height != H || rs.Round != R {
				return r > 0
			}
			// the proposer's own proposal and parts never leave it
			keep := n.Own[:0]
			for _, m := range n.Own {
				switch m.(type) {
				case *pbft.ProposalMessage, *pbft.BlockPartMessage:
					continue
				}
				keep = append(keep, m)
			}
			n.Own = keep
		}
		for _, n := range hs {
			if n.RS().Step == pbft.RoundStepPropose {
				d.fireNewest(n)
			}
			d.ownAll(n) // prevote nil
		}
		d.deliverWhere(func(fl Flight) bool { return isVoteOf(fl, types.VoteTypePrevote) && voteRound(fl) == R })
		for _, n := range hs {
			if n.RS().Step == pbft.RoundStepPrevoteWait {
				d.fireNewest(n)
			}
			d.ownAll(n) // precommit nil
		}
		d.deliverWhere(func(fl Flight) bool { return isVoteOf(fl, types.VoteTypePrecommit) && voteRound(fl) == R })
		for _, n := range hs {
			if n.RS().Step == pbft.RoundStepPrecommitWait {
				d.fireNewest(n)
			}
		}
	}
	d.Stats.NilRounds += k
	d.logf("nilrounds: %d rounds without a decision", k)
	return true
}

// byzClaim: a Byzantine peer tells an honest node that it has seen +2/3 of the votes of a round
// for some block id (VoteSetMaj23Message; the reactor applies the claim to the height vote set
// directly, outside the message queue). Any peer may claim anything: the claim must only make
// the node keep track of conflicting votes for that id, never count anything.
func (d *Driver) byzClaim(op Op) bool {
	bs := d.byz()
	hs := d.honestAlive()
	if len(bs) == 0 || len(hs) == 0 || len(d.Known) == 0 {
		return false
	}
	b := bs[mod(op.C, len(bs))]
	t := hs[mod(op.N, len(hs))]
	rs := t.RS()
	if rs.Votes == nil {
		return false
	}
	typ := byte(types.VoteTypePrevote)
	if op.A&1 == 1 {
		typ = types.VoteTypePrecommit
	}
	round := rs.Round + int64(mod(op.A/2, 3)) - 1
	if round < 0 {
		round = 0
	}
	bid := d.Known[mod(op.B, len(d.Known))]
	rs.Votes.SetPeerMaj23(round, typ, peerKey(b.ID), bid)
	d.logf("byzclaim v%d -> n%d: +2/3 t%d r%d for %x", b.ID, t.ID, typ, round, fp(bid.Hash))
	d.Stats.ByzClaims++
	return true
}

// Split scripts the classic equivocation attack when a Byzantine validator is the proposer
// some honest node expects: two blocks A and B; honest nodes are partitioned into two groups
// (by mask); group 1 receives A, group 2 receives B; every Byzantine validator prevotes and
// precommits A towards group 1 and B towards group 2. All messages are queued; the schedule
// decides what arrives.
func (d *Driver) Split(op Op) bool {
	hs := d.honestAlive()
	bs := d.byz()
	if len(hs) < 2 || len(bs) == 0 {
		return false
	}
	t := hs[mod(op.N, len(hs))]
	rs := t.RS()
	prop := rs.Validators.Proposer()
	var b *Node
	for _, n := range bs {
		if bytes.Equal(n.Addr, prop.Address) {
			b = n
		}
	}
	if b == nil {
		return false
	}
	st := t.CS.GetState()
	var lc *types.Commit
	if rs.Height > 1 {
		if rs.LastCommit == nil || !rs.LastCommit.HasTwoThirdsMajority() {
			return false
		}
		lc = rs.LastCommit.MakeCommit()
	}
	mask := op.A
	if mask%(1<<uint(len(hs))) == 0 || (mask+1)%(1<<uint(len(hs))) == 0 {
		mask = 0x5555
	}
	var g [2][]*Node
	for i, n := range hs {
		g[(mask>>uint(i%30))&1] = append(g[(mask>>uint(i%30))&1], n)
	}
	for i := 0; i < 2; i++ {
		blk, parts := MakeBlock(st, lc, b.ID, []types.Tx{types.Tx(fmt.Sprintf("split-%d-%d-%d-%d", b.ID, rs.Height, rs.Round, i))}, d.Net.Cfg.PartSize)
		bid := types.BlockID{Hash: blk.Hash(), PartsHeader: parts.Header()}
		d.learn(bid)
		for _, m := range ProposalMsgs(b.ID, rs.Height, rs.Round, parts, -1, types.BlockID{}) {
			for _, n := range g[i] {
				d.Net.Send(b.ID, n.ID, m)
			}
		}
		for _, bz := range bs {
			if _, val := rs.Validators.GetByAddress(bz.Addr); val == nil {
				continue
			}
			for _, typ := range []byte{types.VoteTypePrevote, types.VoteTypePrecommit} {
				v := SignVote(bz.ID, rs.Validators, rs.Height, rs.Round, typ, bid)
				for _, n := range g[i] {
					d.Net.Send(bz.ID, n.ID, &pbft.VoteMessage{Vote: v})
				}
				if op.B%3 == 1 {
					// slot stuffing: the same signed vote once more for every other validator's slot
					// (the index is not covered by the signature; the address stays the signer's own)
					for idx := 0; idx < rs.Validators.Size(); idx++ {
						if idx == v.ValidatorIndex {
							continue
						}
						w := *v
						w.ValidatorIndex = idx
						for _, n := range g[i] {
							d.Net.Send(bz.ID, n.ID, &pbft.VoteMessage{Vote: &w})
						}
					}
					d.Stats.Stuffed++
				}
			}
		}
	}
	d.logf("split by v%d at h%d r%d groups %d/%d", b.ID, rs.Height, rs.Round, len(g[0]), len(g[1]))
	d.Stats.Splits++
	d.Stats.Equivocations++
	return true
}

// RunFair runs benign scheduling (with gossip emulation when nothing else is left) until every
// live honest node has committed height `until` or maxSteps is exhausted. It reports whether the
// target was reached.
func (d *Driver) RunFair(until int64, maxSteps int) bool {
	reached := func() bool {
		for _, n := range d.honestAlive() {
			if n.Store.Height() < until {
				return false
			}
		}
		return true
	}
	saved := d.MaxHeight
	d.MaxHeight = until // nodes that are past the target do not start further rounds
	defer func() { d.MaxHeight = saved }()
	idle := 0
	for i := 0; i < maxSteps; i++ {
		if reached() {
			return true
		}
		if i%40 == 39 && len(d.Net.InFlight) == 0 {
			d.Sync() // the reactors' gossip routines run all the time
		}
		if d.FairStep() {
			idle = 0
			continue
		}
		idle++
		if idle > 3 {
			return reached()
		}
		d.Sync()
	}
	return reached()
}

// ---------------------------------------------------------------------------------------
// scripted attack: "amnesia" (lock violation across rounds)

func (d *Driver) deliverWhere(keep func(f Flight) bool) int {
	n := 0
	for {
		found := -1
		for i, f := range d.Net.InFlight {
			if keep(f) && d.Net.Nodes[f.To].Alive {
				found = i
				break
			}
		}
		if found < 0 {
			return n
		}
		d.Net.Deliver(found, false)
		d.Stats.Delivered++
		n++
	}
}

func (d *Driver) ownAll(n *Node) {
	for len(n.Own) > 0 && n.Alive {
		d.Net.OwnStep(n, 0)
		d.Stats.Own++
	}
}

func (d *Driver) fireNewest(n *Node) bool {
	rs := n.RS()
	n.Ctl.Ticker.DropStale(rs.Height, rs.Round, rs.Step)
	p := n.Ctl.Ticker.Pending()
	if len(p) == 0 {
		return false
	}
	d.Stats.Timeouts++
	return d.Net.Timeout(n, len(p)-1)
}

func isVoteOf(f Flight, typ byte) bool {
	vm, ok := f.Msg.(*pbft.VoteMessage)
	return ok && vm.Vote.Type == typ
}

func in(n *Node, set []*Node) bool {
	for _, m := range set {
		if m == n {
			return true
		}
	}
	return false
}

// Amnesia scripts the attack that a validator forgetting its lock enables: at round 0 a group of
// "lockers" sees a polka for block X (with the Byzantine prevotes) and precommits it, one of them
// (B) also receives the Byzantine precommits and commits X; the other honest nodes see +2/3-any
// without a majority and move to round 1, where a fresh block Y is proposed and the Byzantine
// validators vote for Y. With correct locking Y cannot gather a polka (the lockers prevote X);
// if a locker prevotes Y, Y is committed by the others: a fork. Equal voting powers only.
func (d *Driver) Amnesia(op Op) bool {
	net := d.Net
	hs := d.honestAlive()
	bs := d.byz()
	N := len(net.Nodes)
	f := len(bs)
	for _, p := range net.Cfg.Powers {
		if p != net.Cfg.Powers[0] {
			return false
		}
	}
	if f == 0 || len(hs) != N-f || len(hs) < 3 {
		return false
	}
	// quiesce: everybody at the start of the same height
	var top int64
	for _, n := range hs {
		if hh := n.RS().Height; hh > top {
			top = hh
		}
	}
	if top > 1 {
		d.RunFair(top-1, 3000)
	}
	for i := 0; i < 400 && (len(net.InFlight) > 0 || func() bool {
		for _, n := range hs {
			if len(n.Own) > 0 {
				return true
			}
		}
		return false
	}()); i++ {
		d.FairStep()
	}
	H := hs[0].RS().Height
	for _, n := range hs {
		rs := n.RS()
		if rs.Height != H || rs.Step != pbft.RoundStepNewHeight {
			return false
		}
	}
	q := N*2/3 + 1
	L := q - f
	if L < 1 || L >= len(hs) {
		return false
	}
	rot := mod(op.A, len(hs))
	order := append(append([]*Node{}, hs[rot:]...), hs[:rot]...)
	lockers, others := order[:L], order[L:]
	B := lockers[0]
	vals := hs[0].RS().Validators
	// ---- round 0
	for _, n := range hs {
		d.fireNewest(n)
	}
	pid := -1
	for _, n := range net.Nodes {
		if bytes.Equal(n.Addr, vals.Proposer().Address) {
			pid = n.ID
		}
	}
	var X types.BlockID
	if pid >= 0 && net.Nodes[pid].Honest {
		d.ownAll(net.Nodes[pid])
		rs := net.Nodes[pid].RS()
		if rs.ProposalBlock == nil {
			return false
		}
		X = types.BlockID{Hash: rs.ProposalBlock.Hash(), PartsHeader: rs.ProposalBlockParts.Header()}
	} else {
		st := hs[0].CS.GetState()
		var lc *types.Commit
		if H > 1 {
			lc = hs[0].RS().LastCommit.MakeCommit()
		}
		blk, parts := MakeBlock(st, lc, pid, []types.Tx{types.Tx(fmt.Sprintf("amnesia-x-%d", H))}, net.Cfg.PartSize)
		X = types.BlockID{Hash: blk.Hash(), PartsHeader: parts.Header()}
		for _, m := range ProposalMsgs(pid, H, 0, parts, -1, types.BlockID{}) {
			net.Broadcast(pid, m)
		}
	}
	d.learn(X)
	isData := func(fl Flight) bool {
		switch fl.Msg.(type) {
		case *pbft.ProposalMessage, *pbft.BlockPartMessage:
			return true
		}
		return false
	}
	d.deliverWhere(isData)
	for _, n := range hs {
		d.ownAll(n) // prevotes for X
	}
	// lockers: every honest prevote + the Byzantine prevotes for X -> polka
	d.deliverWhere(func(fl Flight) bool { return isVoteOf(fl, types.VoteTypePrevote) && in(net.Nodes[fl.To], lockers) })
	for _, b := range bs {
		v := SignVote(b.ID, vals, H, 0, types.VoteTypePrevote, X)
		for _, n := range lockers {
			net.Inject(n.ID, b.ID, &pbft.VoteMessage{Vote: v})
		}
	}
	// the others: X prevotes up to q-1 (own included), then Byzantine nil prevotes: +2/3 any, no polka
	for _, n := range others {
		have := 1
		for {
			idx := -1
			for i, fl := range net.InFlight {
				if fl.To == n.ID && isVoteOf(fl, types.VoteTypePrevote) {
					idx = i
					break
				}
			}
			if idx < 0 || have >= q-1 {
				break
			}
			net.Deliver(idx, false)
			have++
		}
		for _, b := range bs {
			net.Inject(n.ID, b.ID, &pbft.VoteMessage{Vote: SignVote(b.ID, vals, H, 0, types.VoteTypePrevote, types.BlockID{})})
		}
		if n.RS().Step == pbft.RoundStepPrevoteWait {
			d.fireNewest(n) // prevote-wait timeout -> precommit nil
		}
	}
	// drop the remaining prevotes addressed to the others (they never arrive)
	for i := 0; i < len(net.InFlight); {
		if fl := net.InFlight[i]; isVoteOf(fl, types.VoteTypePrevote) && in(net.Nodes[fl.To], others) {
			net.Drop(i)
			continue
		}
		i++
	}
	for _, n := range hs {
		d.ownAll(n) // precommits: X from the lockers, nil from the others
	}
	for _, n := range lockers {
		if n.RS().LockedBlock == nil {
			return false // script derailed
		}
	}
	d.Stats.Locked = true
	// B gets the lockers' precommits and the Byzantine precommits for X: commits X
	d.deliverWhere(func(fl Flight) bool {
		return fl.To == B.ID && isVoteOf(fl, types.VoteTypePrecommit) && in(net.Nodes[fl.From], lockers)
	})
	for _, b := range bs {
		net.Inject(B.ID, b.ID, &pbft.VoteMessage{Vote: SignVote(b.ID, vals, H, 0, types.VoteTypePrecommit, X)})
	}
	// everybody else gets all honest precommits (no majority), waits, moves to round 1
	rest := append(append([]*Node{}, lockers[1:]...), others...)
	d.deliverWhere(func(fl Flight) bool { return isVoteOf(fl, types.VoteTypePrecommit) && in(net.Nodes[fl.To], rest) })
	for _, n := range rest {
		if n.RS().Step == pbft.RoundStepPrecommitWait {
			d.fireNewest(n)
		}
	}
	for _, n := range rest {
		if n.RS().Height != H || n.RS().Round != 1 {
			return false
		}
	}
	// ---- round 1: a fresh block Y from an unlocked honest proposer or from a Byzantine one
	v1 := rest[0].RS().Validators
	p1 := -1
	for _, n := range net.Nodes {
		if bytes.Equal(n.Addr, v1.Proposer().Address) {
			p1 = n.ID
		}
	}
	if p1 < 0 || p1 == B.ID || (!net.Nodes[p1].Honest && op.C%2 == 1) {
		// nobody proposes in round 1 (the proposer has left the height, or is Byzantine and stays
		// silent): a locked node has to prevote its locked block, so that the nil prevotes of the
		// others and of the Byzantine validators cannot add up to +2/3 and release the locks
		return d.amnesiaStarved(H, rest, lockers, bs, B, X)
	}
	if in(net.Nodes[p1], lockers) {
		d.Stats.Splits++
		return true // the round-1 proposer is a locker (it re-proposes X): the attack ends here
	}
	var Y types.BlockID
	if net.Nodes[p1].Honest {
		d.ownAll(net.Nodes[p1])
		rs := net.Nodes[p1].RS()
		if rs.ProposalBlock == nil {
			return true
		}
		Y = types.BlockID{Hash: rs.ProposalBlock.Hash(), PartsHeader: rs.ProposalBlockParts.Header()}
	} else {
		st := rest[0].CS.GetState()
		var lc *types.Commit
		if H > 1 {
			lc = rest[0].RS().LastCommit.MakeCommit()
		}
		blk, parts := MakeBlock(st, lc, p1, []types.Tx{types.Tx(fmt.Sprintf("amnesia-y-%d", H))}, net.Cfg.PartSize)
		Y = types.BlockID{Hash: blk.Hash(), PartsHeader: parts.Header()}
		for _, m := range ProposalMsgs(p1, H, 1, parts, -1, types.BlockID{}) {
			for _, n := range rest {
				net.Send(p1, n.ID, m)
			}
		}
	}
	d.learn(Y)
	d.deliverWhere(func(fl Flight) bool { return isData(fl) && in(net.Nodes[fl.To], rest) })
	for _, n := range rest {
		d.ownAll(n) // prevotes of round 1
	}
	d.deliverWhere(func(fl Flight) bool { return isVoteOf(fl, types.VoteTypePrevote) && in(net.Nodes[fl.To], rest) })
	for _, b := range bs {
		for _, typ := range []byte{types.VoteTypePrevote, types.VoteTypePrecommit} {
			v := SignVote(b.ID, v1, H, 1, typ, Y)
			for _, n := range rest {
				net.Send(b.ID, n.ID, &pbft.VoteMessage{Vote: v})
			}
		}
	}
	d.deliverWhere(func(fl Flight) bool { return isVoteOf(fl, types.VoteTypePrevote) && in(net.Nodes[fl.To], rest) })
	for _, n := range rest {
		if n.RS().Step == pbft.RoundStepPrevoteWait {
			d.fireNewest(n)
		}
		d.ownAll(n)
	}
	d.deliverWhere(func(fl Flight) bool { return isVoteOf(fl, types.VoteTypePrecommit) && in(net.Nodes[fl.To], rest) })
	d.Stats.Splits++
	d.Stats.Equivocations++
	d.logf("amnesia at h%d: lockers %d, B=n%d, X=%x Y=%x", H, len(lockers), B.ID, fp(X.Hash), fp(Y.Hash))
	return true
}

// amnesiaStarved continues the amnesia script when round 1 has no proposal: everybody runs into
// the propose timeout, the Byzantine validators prevote and precommit nil, and in round 2 they
// support whatever an honest proposer puts on the table (or propose a fresh block themselves).
func (d *Driver) amnesiaStarved(H int64, rest, lockers, bs []*Node, B *Node, X types.BlockID) bool {
	net := d.Net
	vals := rest[0].RS().Validators
	for _, n := range rest {
		if n.RS().Step == pbft.RoundStepPropose {
			d.fireNewest(n) // propose timeout
		}
		d.ownAll(n) // prevotes of round 1
	}
	for _, b := range bs {
		v := SignVote(b.ID, vals, H, 1, types.VoteTypePrevote, types.BlockID{})
		for _, n := range rest {
			net.Send(b.ID, n.ID, &pbft.VoteMessage{Vote: v})
		}
	}
	d.deliverWhere(func(fl Flight) bool {
		return isVoteOf(fl, types.VoteTypePrevote) && voteRound(fl) == 1 && in(net.Nodes[fl.To], rest)
	})
	for _, n := range rest {
		if n.RS().Step == pbft.RoundStepPrevoteWait {
			d.fireNewest(n)
		}
		d.ownAll(n) // precommits of round 1
	}
	for _, b := range bs {
		v := SignVote(b.ID, vals, H, 1, types.VoteTypePrecommit, types.BlockID{})
		for _, n := range rest {
			net.Send(b.ID, n.ID, &pbft.VoteMessage{Vote: v})
		}
	}
	d.deliverWhere(func(fl Flight) bool {
		return isVoteOf(fl, types.VoteTypePrecommit) && voteRound(fl) == 1 && in(net.Nodes[fl.To], rest)
	})
	for _, n := range rest {
		if n.RS().Step == pbft.RoundStepPrecommitWait {
			d.fireNewest(n)
		}
	}
	for _, n := range rest {
		if rs := n.RS(); rs.Height != H || rs.Round != 2 {
			d.Stats.Splits++
			return true // the script ends here (somebody moved differently); nothing is asserted by it
		}
	}
	// ---- round 2
	v2 := rest[0].RS().Validators
	p2 := d.nodeOfAddr(v2.Proposer().Address)
	if p2 < 0 || p2 == B.ID {
		d.Stats.Splits++
		return true
	}
	var P types.BlockID
	if net.Nodes[p2].Honest {
		net.Nodes[p2].Pool.Push(types.Tx(fmt.Sprintf("amnesia-z-%d", H)))
		d.ownAll(net.Nodes[p2])
		rs := net.Nodes[p2].RS()
		if rs.ProposalBlock == nil || rs.ProposalBlockParts == nil {
			d.Stats.Splits++
			return true
		}
		P = types.BlockID{Hash: rs.ProposalBlock.Hash(), PartsHeader: rs.ProposalBlockParts.Header()}
	} else {
		st := rest[0].CS.GetState()
		var lc *types.Commit
		if H > 1 {
			lc = rest[0].RS().LastCommit.MakeCommit()
		}
		blk, parts := MakeBlock(st, lc, p2, []types.Tx{types.Tx(fmt.Sprintf("amnesia-z-%d", H))}, net.Cfg.PartSize)
		P = types.BlockID{Hash: blk.Hash(), PartsHeader: parts.Header()}
		for _, m := range ProposalMsgs(p2, H, 2, parts, -1, types.BlockID{}) {
			for _, n := range rest {
				net.Send(p2, n.ID, m)
			}
		}
	}
	d.learn(P)
	d.deliverWhere(func(fl Flight) bool {
		switch fl.Msg.(type) {
		case *pbft.ProposalMessage, *pbft.BlockPartMessage:
			return in(net.Nodes[fl.To], rest)
		}
		return false
	})
	for _, n := range rest {
		d.ownAll(n)
	}
	for _, b := range bs {
		for _, typ := range []byte{types.VoteTypePrevote, types.VoteTypePrecommit} {
			v := SignVote(b.ID, v2, H, 2, typ, P)
			for _, n := range rest {
				net.Send(b.ID, n.ID, &pbft.VoteMessage{Vote: v})
			}
		}
	}
	d.deliverWhere(func(fl Flight) bool {
		return isVoteOf(fl, types.VoteTypePrevote) && voteRound(fl) == 2 && in(net.Nodes[fl.To], rest)
	})
	for _, n := range rest {
		if n.RS().Step == pbft.RoundStepPrevoteWait {
			d.fireNewest(n)
		}
		d.ownAll(n)
	}
	d.deliverWhere(func(fl Flight) bool {
		return isVoteOf(fl, types.VoteTypePrecommit) && voteRound(fl) == 2 && in(net.Nodes[fl.To], rest)
	})
	d.Stats.Splits++
	d.Stats.Starved++
	d.logf("amnesia (no proposal in round 1) at h%d: lockers %d, B=n%d, X=%x round-2 proposal %x by n%d", H, len(lockers), B.ID, fp(X.Hash), fp(P.Hash), p2)
	return true
}

// ---------------------------------------------------------------------------------------
// scripted attack: "stalepolka" (a lock released by the polka of an OLDER round)

func voteRound(f Flight) int64 {
	if vm, ok := f.Msg.(*pbft.VoteMessage); ok {
		return vm.Vote.Round
	}
	return -1
}

// deliverUpTo delivers votes of (typ, round) addressed to n until it holds `want` of them (its own
// included, counted from `have`); returns the number it holds afterwards.
func (d *Driver) deliverUpTo(n *Node, typ byte, round int64, have, want int) int {
	for have < want {
		idx := -1
		for i, fl := range d.Net.InFlight {
			if fl.To == n.ID && isVoteOf(fl, typ) && voteRound(fl) == round && d.Net.Nodes[fl.From].Honest {
				idx = i
				break
			}
		}
		if idx < 0 {
			break
		}
		d.Net.Deliver(idx, false)
		d.Stats.Delivered++
		have++
	}
	return have
}

func (d *Driver) nodeOfAddr(addr []byte) int {
	for _, n := range d.Net.Nodes {
		if bytes.Equal(n.Addr, addr) {
			return n.ID
		}
	}
	return -1
}

// StalePolka scripts the attack that a lock released by an older round's polka enables. Round 0:
// every honest node prevotes block A but sees only q-1 of those prevotes (plus the Byzantine nil
// prevotes) in time, so nobody locks and everybody precommits nil; one A prevote per node stays in
// flight. Round 1: a fresh block B gets a polka, every honest node locks B and precommits it; one
// node (the committer) receives all precommits and commits B, the others (the victims) see +2/3 of
// anything without a majority and move to round 2, still locked on B. Only then the delayed round-0
// prevotes arrive and complete the polka for A at the victims. A correct node keeps its lock (the
// polka is older than the lock); in round 2 the Byzantine validators support whatever is proposed.
// If a victim gave up its lock, a block other than B is committed at this height: a fork.
// Equal voting powers only; the honest nodes alone must hold more than two thirds.
func (d *Driver) StalePolka(op Op) bool {
	net := d.Net
	hs := d.honestAlive()
	bs := d.byz()
	N := len(net.Nodes)
	f := len(bs)
	for _, p := range net.Cfg.Powers {
		if p != net.Cfg.Powers[0] {
			return false
		}
	}
	q := N*2/3 + 1
	if f == 0 || len(hs) != N-f || len(hs) < q || len(hs) < 3 || len(hs)-1+f < q {
		return false
	}
	var top int64
	for _, n := range hs {
		if hh := n.RS().Height; hh > top {
			top = hh
		}
	}
	if top > 1 {
		d.RunFair(top-1, 3000)
	}
	for i := 0; i < 400 && (len(net.InFlight) > 0 || func() bool {
		for _, n := range hs {
			if len(n.Own) > 0 {
				return true
			}
		}
		return false
	}()); i++ {
		d.FairStep()
	}
	H := hs[0].RS().Height
	for _, n := range hs {
		rs := n.RS()
		if rs.Height != H || rs.Step != pbft.RoundStepNewHeight {
			return false
		}
	}
	vals := hs[0].RS().Validators
	proposerAt := func(r int) int {
		c := vals.Copy()
		if r > 0 {
			c.IncrementAccum(int64(r))
		}
		return d.nodeOfAddr(c.Proposer().Address)
	}
	p0, p1, p2 := proposerAt(0), proposerAt(1), proposerAt(2)
	if p0 < 0 || p1 < 0 || p2 < 0 {
		return false
	}
	// the committer must not be the proposer of round 2 (it will have left the height)
	rot := mod(op.A, len(hs))
	order := append(append([]*Node{}, hs[rot:]...), hs[:rot]...)
	var C *Node
	for _, n := range order {
		if n.ID != p2 {
			C = n
			break
		}
	}
	var victims []*Node
	for _, n := range hs {
		if n != C {
			victims = append(victims, n)
		}
	}
	isData := func(fl Flight) bool {
		switch fl.Msg.(type) {
		case *pbft.ProposalMessage, *pbft.BlockPartMessage:
			return true
		}
		return false
	}
	// propose lets the proposer of a round make its proposal; returns the id and the parts
	propose := func(pid int, round int64, tag string, to []*Node, ref *Node) (types.BlockID, *types.PartSet, bool) {
		if net.Nodes[pid].Honest {
			net.Nodes[pid].Pool.Push(types.Tx(fmt.Sprintf("stalepolka-%s-%d", tag, H)))
			d.ownAll(net.Nodes[pid])
			rs := net.Nodes[pid].RS()
			if rs.ProposalBlock == nil || rs.ProposalBlockParts == nil || rs.Round != round {
				return types.BlockID{}, nil, false
			}
			return types.BlockID{Hash: rs.ProposalBlock.Hash(), PartsHeader: rs.ProposalBlockParts.Header()}, rs.ProposalBlockParts, true
		}
		st := ref.CS.GetState()
		var lc *types.Commit
		if H > 1 {
			lc = ref.RS().LastCommit.MakeCommit()
		}
		blk, parts := MakeBlock(st, lc, pid, []types.Tx{types.Tx(fmt.Sprintf("stalepolka-%s-%d", tag, H))}, net.Cfg.PartSize)
		for _, m := range ProposalMsgs(pid, H, round, parts, -1, types.BlockID{}) {
			for _, n := range to {
				net.Send(pid, n.ID, m)
			}
		}
		return types.BlockID{Hash: blk.Hash(), PartsHeader: parts.Header()}, parts, true
	}
	// ---- round 0: A, no lock anywhere, one A prevote per node held back
	for _, n := range hs {
		d.fireNewest(n)
	}
	A, partsA, ok := propose(p0, 0, "a", hs, hs[0])
	if !ok {
		return false
	}
	d.learn(A)
	d.deliverWhere(isData)
	for _, n := range hs {
		d.ownAll(n)
	}
	for _, n := range hs {
		d.deliverUpTo(n, types.VoteTypePrevote, 0, 1, q-1)
		for _, b := range bs {
			net.Inject(n.ID, b.ID, &pbft.VoteMessage{Vote: SignVote(b.ID, vals, H, 0, types.VoteTypePrevote, types.BlockID{})})
		}
		if n.RS().Step == pbft.RoundStepPrevoteWait {
			d.fireNewest(n)
		}
	}
	for _, n := range hs {
		d.ownAll(n) // precommit nil
		if n.RS().LockedBlock != nil {
			return false
		}
	}
	d.deliverWhere(func(fl Flight) bool { return isVoteOf(fl, types.VoteTypePrecommit) && voteRound(fl) == 0 })
	for _, n := range hs {
		if rs := n.RS(); rs.Height != H || rs.Round != 1 {
			return false // script derailed
		}
	}
	// ---- round 1: B, everybody locks; the committer commits, the victims move on
	B, _, ok := propose(p1, 1, "b", hs, hs[0])
	if !ok || bytes.Equal(B.Hash, A.Hash) {
		return false
	}
	d.learn(B)
	d.deliverWhere(isData)
	for _, n := range hs {
		d.ownAll(n)
	}
	d.deliverWhere(func(fl Flight) bool { return isVoteOf(fl, types.VoteTypePrevote) && voteRound(fl) == 1 })
	for _, n := range hs {
		d.ownAll(n)
		if rs := n.RS(); rs.LockedBlock == nil || !rs.LockedBlock.HashesTo(B.Hash) {
			return false
		}
	}
	d.Stats.Locked = true
	d.deliverWhere(func(fl Flight) bool {
		return fl.To == C.ID && isVoteOf(fl, types.VoteTypePrecommit) && voteRound(fl) == 1
	})
	for _, n := range victims {
		d.deliverUpTo(n, types.VoteTypePrecommit, 1, 1, q-1)
		for _, b := range bs {
			net.Inject(n.ID, b.ID, &pbft.VoteMessage{Vote: SignVote(b.ID, vals, H, 1, types.VoteTypePrecommit, types.BlockID{})})
		}
		if n.RS().Step == pbft.RoundStepPrecommitWait {
			d.fireNewest(n)
		}
	}
	for i := 0; i < len(net.InFlight); {
		if fl := net.InFlight[i]; isVoteOf(fl, types.VoteTypePrecommit) && voteRound(fl) == 1 && in(net.Nodes[fl.To], victims) {
			net.Drop(i)
			continue
		}
		i++
	}
	for _, n := range victims {
		if rs := n.RS(); rs.Height != H || rs.Round != 2 || rs.LockedBlock == nil {
			return false
		}
	}
	// ---- the delayed round-0 prevotes reach (some of) the victims
	late := victims
	if op.B%4 == 3 {
		late = victims[:1+mod(op.B/4, len(victims))]
	}
	d.deliverWhere(func(fl Flight) bool {
		return isVoteOf(fl, types.VoteTypePrevote) && voteRound(fl) == 0 && in(net.Nodes[fl.To], late)
	})
	d.Stats.Reordered = true
	// ---- round 2: the Byzantine validators support whatever is on the table
	var P types.BlockID
	if net.Nodes[p2].Honest {
		P, _, ok = propose(p2, 2, "c", victims, victims[0])
		if !ok {
			d.Stats.Splits++
			return true
		}
	} else if op.C%2 == 0 {
		// the old block A again, claiming its round-0 polka
		for _, m := range ProposalMsgs(p2, H, 2, partsA, 0, A) {
			for _, n := range victims {
				net.Send(p2, n.ID, m)
			}
		}
		P = A
	} else {
		P, _, _ = propose(p2, 2, "c", victims, victims[0])
	}
	d.learn(P)
	d.deliverWhere(func(fl Flight) bool { return isData(fl) && in(net.Nodes[fl.To], victims) })
	for _, n := range victims {
		d.ownAll(n)
	}
	v2 := victims[0].RS().Validators
	for _, b := range bs {
		for _, typ := range []byte{types.VoteTypePrevote, types.VoteTypePrecommit} {
			v := SignVote(b.ID, v2, H, 2, typ, P)
			for _, n := range victims {
				net.Send(b.ID, n.ID, &pbft.VoteMessage{Vote: v})
			}
		}
	}
	d.deliverWhere(func(fl Flight) bool {
		return isVoteOf(fl, types.VoteTypePrevote) && voteRound(fl) == 2 && in(net.Nodes[fl.To], victims)
	})
	for _, n := range victims {
		if n.RS().Step == pbft.RoundStepPrevoteWait {
			d.fireNewest(n)
		}
		d.ownAll(n)
	}
	d.deliverWhere(func(fl Flight) bool {
		return isVoteOf(fl, types.VoteTypePrecommit) && voteRound(fl) == 2 && in(net.Nodes[fl.To], victims)
	})
	d.Stats.Splits++
	d.Stats.StalePolkas++
	d.logf("stalepolka at h%d: committer n%d, A=%x B=%x round-2 proposal %x by n%d", H, C.ID, fp(A.Hash), fp(B.Hash), fp(P.Hash), p2)
	return true
}

// ---------------------------------------------------------------------------------------
// scripted attack: "lateproposal" (a second proposal for the round a node is committing)

// quiesceAtNewHeight brings every live honest node to the NewHeight step of one height with
// nothing in flight; returns that height.
func (d *Driver) quiesceAtNewHeight() (int64, bool) {
	net := d.Net
	hs := d.honestAlive()
	if len(hs) == 0 {
		return 0, false
	}
	var top int64
	for _, n := range hs {
		if hh := n.RS().Height; hh > top {
			top = hh
		}
	}
	if top > 1 {
		d.RunFair(top-1, 3000)
	}
	for i := 0; i < 400 && (len(net.InFlight) > 0 || func() bool {
		for _, n := range hs {
			if len(n.Own) > 0 {
				return true
			}
		}
		return false
	}()); i++ {
		d.FairStep()
	}
	H := hs[0].RS().Height
	for _, n := range hs {
		rs := n.RS()
		if rs.Height != H || rs.Step != pbft.RoundStepNewHeight {
			return 0, false
		}
	}
	return H, true
}

// LateProposal scripts a Byzantine proposer that shows its block X to everybody except one honest
// node (the victim). The victim sees the polka and the +2/3 precommits for X without ever having
// seen a proposal: it enters the commit step of that round with an empty part set for X and waits
// for the parts. Only then the proposer sends the victim a second, validly signed proposal for the
// same height and round naming another block Y (and, optionally, Y's parts). A node in the commit
// step must not care; catch-up gossip then brings X's parts and the victim commits X.
// N selects the victim, A%2 == 1 also sends Y's parts, A/2%2 == 1 sends the proposal twice,
// A/4%2 == 1 is the wrong-part-count variant described in the code.
func (d *Driver) LateProposal(op Op) bool {
	net := d.Net
	bs := d.byz()
	N := len(net.Nodes)
	for _, p := range net.Cfg.Powers {
		if p != net.Cfg.Powers[0] {
			return false
		}
	}
	if len(bs) == 0 || N < 4 || len(d.honestAlive()) != N-len(bs) {
		return false
	}
	// find a height whose round-0 proposer is Byzantine
	var H int64
	pid := -1
	for try := 0; try <= N+1; try++ {
		hh, ok := d.quiesceAtNewHeight()
		if !ok || hh > d.MaxHeight {
			return false
		}
		p := d.nodeOfAddr(d.honestAlive()[0].RS().Validators.Proposer().Address)
		if p >= 0 && !net.Nodes[p].Honest {
			H, pid = hh, p
			break
		}
		if !d.RunFair(hh, 4000) {
			return false
		}
	}
	if pid < 0 {
		return false
	}
	hs := d.honestAlive()
	V := hs[mod(op.N, len(hs))]
	var others []*Node
	for _, n := range hs {
		if n != V {
			others = append(others, n)
		}
	}
	vals := V.RS().Validators
	st := others[0].CS.GetState()
	var lc *types.Commit
	if H > 1 {
		lc = others[0].RS().LastCommit.MakeCommit()
	}
	blkX, partsX := MakeBlock(st, lc, pid, []types.Tx{types.Tx(fmt.Sprintf("lateproposal-x-%d", H))}, net.Cfg.PartSize)
	X := types.BlockID{Hash: blkX.Hash(), PartsHeader: partsX.Header()}
	blkY, partsY := MakeBlock(st, lc, pid, []types.Tx{types.Tx(fmt.Sprintf("lateproposal-y-%d", H))}, net.Cfg.PartSize)
	Y := types.BlockID{Hash: blkY.Hash(), PartsHeader: partsY.Header()}
	d.learn(X)
	d.learn(Y)
	for _, n := range hs {
		d.fireNewest(n) // NewHeight -> Propose
	}
	for _, m := range ProposalMsgs(pid, H, 0, partsX, -1, types.BlockID{}) {
		for _, n := range others {
			net.Send(pid, n.ID, m)
		}
	}
	d.deliverWhere(func(fl Flight) bool {
		switch fl.Msg.(type) {
		case *pbft.ProposalMessage, *pbft.BlockPartMessage:
			return true
		}
		return false
	})
	wrongTotal := (op.A/4)%2 == 1
	if wrongTotal {
		// variant: the victim does get a proposal for X, signed by the proposer, whose parts header
		// names X's Merkle root but one part too many; none of X's parts fits that header
		hdr := partsX.Header()
		hdr.Total++
		net.Inject(V.ID, pid, &pbft.ProposalMessage{Proposal: SignProposal(pid, H, 0, hdr, -1, types.BlockID{})})
	}
	if V.RS().Step == pbft.RoundStepPropose {
		d.fireNewest(V) // propose timeout: prevote nil
	}
	for _, n := range hs {
		d.ownAll(n)
	}
	for _, b := range bs {
		v := SignVote(b.ID, vals, H, 0, types.VoteTypePrevote, X)
		for _, n := range hs {
			net.Send(b.ID, n.ID, &pbft.VoteMessage{Vote: v})
		}
	}
	d.deliverWhere(func(fl Flight) bool { return isVoteOf(fl, types.VoteTypePrevote) && voteRound(fl) == 0 })
	for _, n := range hs {
		if n.RS().Step == pbft.RoundStepPrevoteWait {
			d.fireNewest(n)
		}
		d.ownAll(n)
	}
	for _, b := range bs {
		v := SignVote(b.ID, vals, H, 0, types.VoteTypePrecommit, X)
		for _, n := range hs {
			net.Send(b.ID, n.ID, &pbft.VoteMessage{Vote: v})
		}
	}
	// the victim first
	d.deliverWhere(func(fl Flight) bool {
		return fl.To == V.ID && isVoteOf(fl, types.VoteTypePrecommit) && voteRound(fl) == 0
	})
	rs := V.RS()
	if rs.Height != H || rs.Step != pbft.RoundStepCommit || (rs.Proposal != nil) != wrongTotal || rs.ProposalBlock != nil {
		return false // script derailed (the victim is not waiting for X's parts)
	}
	// ---- the second proposal
	msgs := ProposalMsgs(pid, H, 0, partsY, -1, types.BlockID{})
	times := 1 + (op.A/2)%2
	for i := 0; i < times; i++ {
		net.Inject(V.ID, pid, msgs[0])
	}
	if op.A%2 == 1 {
		for _, m := range msgs[1:] {
			net.Inject(V.ID, pid, m)
		}
	}
	d.Stats.LateProposals++
	d.Stats.ByzProposals++
	d.logf("lateproposal at h%d: victim n%d, proposer n%d, X=%x Y=%x", H, V.ID, pid, fp(X.Hash), fp(Y.Hash))
	return true
}
