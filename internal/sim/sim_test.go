package sim

import (
	"bytes"
	"os"
	"testing"
)

// FIFO smoke run: 4 honest validators commit 3 heights with identical blocks.
func TestSmoke(t *testing.T) {
	dir, _ := os.MkdirTemp("", "simsmoke")
	defer os.RemoveAll(dir)
	net := New(Config{Powers: []int64{1, 1, 1, 1}, Dir: dir})
	defer net.Close()
	for step := 0; step < 5000; step++ {
		progressed := false
		for _, n := range net.Honest() {
			for len(n.Own) > 0 {
				net.OwnStep(n, 0)
				progressed = true
			}
		}
		for len(net.InFlight) > 0 {
			net.Deliver(0, false)
			progressed = true
		}
		if !progressed {
			for _, n := range net.Honest() {
				if p := n.Ctl.Ticker.Pending(); len(p) > 0 {
					net.Timeout(n, len(p)-1)
				}
			}
		}
		done := true
		for _, n := range net.Honest() {
			if n.Store.Height() < 3 {
				done = false
			}
		}
		if done {
			break
		}
	}
	for _, n := range net.Honest() {
		if n.Store.Height() < 3 {
			t.Fatalf("node %d at height %d", n.ID, n.Store.Height())
		}
		for h := int64(1); h <= 3; h++ {
			if !bytes.Equal(n.Store.LoadBlockMeta(h).Hash, net.Nodes[0].Store.LoadBlockMeta(h).Hash) {
				t.Fatalf("fork at %d", h)
			}
		}
	}
	t.Logf("steps=%d", net.Steps)
}

// The stale-polka script must complete (reach its round 2) for most placements, and on a correct
// tree it must leave every honest node agreeing.
func TestStalePolkaScript(t *testing.T) {
	done, total, forks := 0, 0, 0
	for _, cfg := range []struct {
		n   int
		byz []int
	}{{4, []int{0}}, {4, []int{1}}, {4, []int{2}}, {4, []int{3}}, {7, []int{0, 3}}, {7, []int{5, 6}}} {
		for a := 0; a < 3; a++ {
			for c := 0; c < 2; c++ {
				dir, _ := os.MkdirTemp("", "simsp")
				ps := make([]int64, cfg.n)
				bz := make([]bool, cfg.n)
				for i := range ps {
					ps[i] = 1
				}
				for _, b := range cfg.byz {
					bz[b] = true
				}
				net := New(Config{Powers: ps, Byz: bz, Dir: dir})
				d := NewDriver(net)
				seen := map[int64][]byte{}
				net.OnCommit = func(n *Node, cm Committed) {
					if prev, ok := seen[cm.Height]; ok && !bytes.Equal(prev, cm.Hash) {
						forks++
					}
					seen[cm.Height] = cm.Hash
				}
				total++
				ok := d.Apply(Op{K: "stalepolka", A: a, B: 0, C: c})
				if ok && d.Stats.StalePolkas > 0 {
					done++
				}
				t.Logf("n=%d byz=%v a=%d c=%d: ok=%v completed=%d commits=%d", cfg.n, cfg.byz, a, c, ok, d.Stats.StalePolkas, len(seen))
				net.Close()
				os.RemoveAll(dir)
			}
		}
	}
	t.Logf("completed %d of %d, forks %d", done, total, forks)
	if done*2 < total {
		t.Fatalf("script completes too rarely: %d of %d", done, total)
	}
	if os.Getenv("SIM_EXPECT_FORK") != "" {
		if forks == 0 {
			t.Fatalf("expected a fork on the mutated tree")
		}
	} else if forks > 0 {
		t.Fatalf("%d forks", forks)
	}
}

// The late-proposal script must complete for most placements; afterwards fair delivery must let
// every honest node commit the height (on a correct tree).
func TestLateProposalScript(t *testing.T) {
	done, total, wedged := 0, 0, 0
	for _, cfg := range []struct {
		n   int
		byz []int
	}{{4, []int{0}}, {4, []int{2}}, {5, []int{1}}, {7, []int{0, 3}}, {7, []int{6}}} {
		for a := 0; a < 8; a++ {
			dir, _ := os.MkdirTemp("", "simlp")
			ps := make([]int64, cfg.n)
			bz := make([]bool, cfg.n)
			for i := range ps {
				ps[i] = 1
			}
			for _, b := range cfg.byz {
				bz[b] = true
			}
			net := New(Config{Powers: ps, Byz: bz, Dir: dir})
			d := NewDriver(net)
			total++
			ok := d.Apply(Op{K: "lateproposal", N: a, A: a})
			if ok && d.Stats.LateProposals > 0 {
				done++
				var target int64
				for _, n := range net.Honest() {
					if hh := n.RS().Height; hh > target {
						target = hh
					}
				}
				if !d.RunFair(target, 6000) {
					wedged++
					t.Logf("n=%d byz=%v a=%d: WEDGED", cfg.n, cfg.byz, a)
				}
			}
			t.Logf("n=%d byz=%v a=%d: ok=%v completed=%d", cfg.n, cfg.byz, a, ok, d.Stats.LateProposals)
			net.Close()
			os.RemoveAll(dir)
		}
	}
	t.Logf("completed %d of %d, wedged %d", done, total, wedged)
	if done*2 < total {
		t.Fatalf("script completes too rarely: %d of %d", done, total)
	}
	if os.Getenv("SIM_EXPECT_WEDGE") != "" {
		if wedged == 0 {
			t.Fatalf("expected a wedged node on the mutated tree")
		}
	} else if wedged > 0 {
		t.Fatalf("%d wedged", wedged)
	}
}

// The amnesia script (both continuations) must leave every honest node agreeing on a correct tree.
func TestAmnesiaScript(t *testing.T) {
	total, starved, forks := 0, 0, 0
	for _, cfg := range []struct {
		n   int
		byz []int
	}{{4, []int{0}}, {4, []int{1}}, {4, []int{2}}, {4, []int{3}}, {7, []int{0, 3}}, {7, []int{5, 6}}} {
		for a := 0; a < 4; a++ {
			for c := 0; c < 2; c++ {
				dir, _ := os.MkdirTemp("", "simam")
				ps := make([]int64, cfg.n)
				bz := make([]bool, cfg.n)
				for i := range ps {
					ps[i] = 1
				}
				for _, b := range cfg.byz {
					bz[b] = true
				}
				net := New(Config{Powers: ps, Byz: bz, Dir: dir})
				d := NewDriver(net)
				seen := map[int64][]byte{}
				net.OnCommit = func(n *Node, cm Committed) {
					if prev, ok := seen[cm.Height]; ok && !bytes.Equal(prev, cm.Hash) {
						forks++
					}
					seen[cm.Height] = cm.Hash
				}
				total++
				ok := d.Apply(Op{K: "amnesia", A: a, C: c})
				starved += d.Stats.Starved
				t.Logf("n=%d byz=%v a=%d c=%d: ok=%v starved=%d commits=%d", cfg.n, cfg.byz, a, c, ok, d.Stats.Starved, len(seen))
				net.Close()
				os.RemoveAll(dir)
			}
		}
	}
	t.Logf("total %d, no-proposal continuation completed %d, forks %d", total, starved, forks)
	if starved == 0 {
		t.Fatalf("the no-proposal continuation never completes")
	}
	if os.Getenv("SIM_EXPECT_FORK") != "" {
		if forks == 0 {
			t.Fatalf("expected a fork on the mutated tree")
		}
	} else if forks > 0 {
		t.Fatalf("%d forks", forks)
	}
}
