package sim

import (
	"bytes"
	"os"
	"testing"
)

// FIFO smoke run: 4 honest validators commit 3 heights with identical blocks.
func TestSmoke(t *testing.T) {
	dir, _ := os.MkdirTemp("", "simsmoke")
	defer os.RemoveAll(dir)
	net := New(Config{Powers: []int64{1, 1, 1, 1}, Dir: dir})
	defer net.Close()
	for step := 0; step < 5000; step++ {
		progressed := false
		for _, n := range net.Honest() {
			for len(n.Own) > 0 {
				net.OwnStep(n, 0)
				progressed = true
			}
		}
		for len(net.InFlight) > 0 {
			net.Deliver(0, false)
			progressed = true
		}
		if !progressed {
			for _, n := range net.Honest() {
				if p := n.Ctl.Ticker.Pending(); len(p) > 0 {
					net.Timeout(n, len(p)-1)
				}
			}
		}
		done := true
		for _, n := range net.Honest() {
			if n.Store.Height() < 3 {
				done = false
			}
		}
		if done {
			break
		}
	}
	for _, n := range net.Honest() {
		if n.Store.Height() < 3 {
			t.Fatalf("node %d at height %d", n.ID, n.Store.Height())
		}
		for h := int64(1); h <= 3; h++ {
			if !bytes.Equal(n.Store.LoadBlockMeta(h).Hash, net.Nodes[0].Store.LoadBlockMeta(h).Hash) {
				t.Fatalf("fork at %d", h)
			}
		}
	}
	t.Logf("steps=%d", net.Steps)
}
