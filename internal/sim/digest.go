package sim

import (
	"fmt"
	"strings"

	"github.com/dappledger/AnnChain/gemmill/consensus/pbft"
)

// Digest renders everything of a RoundState that the property "resumes with the votes it had
// received, the lock it held and the step it had reached" speaks about. Wall-clock fields
// (StartTime, CommitTime) are left out.
func Digest(rs *pbft.RoundState) string {
	var b strings.Builder
	fmt.Fprintf(&b, "H%d R%d S%v", rs.Height, rs.Round, rs.Step)
	fmt.Fprintf(&b, " lockR%d", rs.LockedRound)
	if rs.LockedBlock != nil {
		fmt.Fprintf(&b, " lock=%x", rs.LockedBlock.Hash())
	}
	if rs.Proposal != nil {
		fmt.Fprintf(&b, " prop={r%d pol%d %d:%x}", rs.Proposal.Round, rs.Proposal.POLRound, rs.Proposal.BlockPartsHeader.Total, rs.Proposal.BlockPartsHeader.Hash)
	}
	if rs.ProposalBlock != nil {
		fmt.Fprintf(&b, " pblock=%x", rs.ProposalBlock.Hash())
	}
	if rs.ProposalBlockParts != nil {
		fmt.Fprintf(&b, " parts=%v/%x", rs.ProposalBlockParts.BitArray(), rs.ProposalBlockParts.Hash())
	}
	fmt.Fprintf(&b, " commitR%d", rs.CommitRound)
	if rs.Votes != nil {
		for r := int64(0); r <= rs.Votes.Round(); r++ {
			if pv := rs.Votes.Prevotes(r); pv != nil {
				id, ok := pv.TwoThirdsMajority()
				fmt.Fprintf(&b, " pv%d=%v", r, pv.BitArray())
				if ok {
					fmt.Fprintf(&b, "maj(%x)", id.Hash)
				}
			}
			if pc := rs.Votes.Precommits(r); pc != nil {
				id, ok := pc.TwoThirdsMajority()
				fmt.Fprintf(&b, " pc%d=%v", r, pc.BitArray())
				if ok {
					fmt.Fprintf(&b, "maj(%x)", id.Hash)
				}
			}
		}
	}
	if rs.LastCommit != nil {
		fmt.Fprintf(&b, " lastcommit=%v", rs.LastCommit.BitArray())
	}
	return b.String()
}
