package sim

import (
	"os"
	"sync"

	"verif/internal/h"
)

// Scratch directories of finished cases are removed with a delay of a few cases: a goroutine of
// the code under test (the WAL group's 5-second ticker) may be in the middle of reading the
// directory when the case ends, and would panic on a directory that has just disappeared.
var (
	tmpMu    sync.Mutex
	tmpQueue []string
	tmpOnce  sync.Once
)

// TempDir creates a scratch directory; call the returned function when the case is over.
func TempDir(prefix string) (string, func()) {
	dir, err := os.MkdirTemp("", prefix)
	if err != nil {
		panic(err)
	}
	tmpOnce.Do(func() {
		h.AtExit(func() {
			tmpMu.Lock()
			defer tmpMu.Unlock()
			for _, d := range tmpQueue {
				os.RemoveAll(d)
			}
			tmpQueue = nil
		})
	})
	return dir, func() {
		tmpMu.Lock()
		defer tmpMu.Unlock()
		tmpQueue = append(tmpQueue, dir)
		for len(tmpQueue) > 12 {
			os.RemoveAll(tmpQueue[0])
			tmpQueue = tmpQueue[1:]
		}
	}
}
