// Package sim runs N real pbft.ConsensusState instances synchronously under harness control
// (hook H2), together with Byzantine puppets that hold real validator keys, an in-memory
// network whose every delivery is an explicit step, and a ledger of everything that was
// broadcast and committed. It is the engine behind the C01 C02 C04 C07 C08 C12 checks.
package sim

import (
	"bytes"
	"crypto/sha256"
	"fmt"
	"os"
	"path/filepath"
	"sync"
	"time"

	"github.com/spf13/viper"
	"go.uber.org/zap"

	bc "github.com/dappledger/AnnChain/gemmill/blockchain"
	"github.com/dappledger/AnnChain/gemmill/consensus/pbft"
	crypto "github.com/dappledger/AnnChain/gemmill/go-crypto"
	clist "github.com/dappledger/AnnChain/gemmill/modules/go-clist"
	dbm "github.com/dappledger/AnnChain/gemmill/modules/go-db"
	events "github.com/dappledger/AnnChain/gemmill/modules/go-events"
	glog "github.com/dappledger/AnnChain/gemmill/modules/go-log"
	"github.com/dappledger/AnnChain/gemmill/p2p"
	sm "github.com/dappledger/AnnChain/gemmill/state"
	"github.com/dappledger/AnnChain/gemmill/types"
)

const ChainID = "verif-chain"

var initOnce sync.Once

func initGlobals() {
	initOnce.Do(func() {
		glog.SetLog(zap.NewNop())
		crypto.NodeInit(crypto.CryptoTypeZhongAn)
	})
}

// Key returns the deterministic private key of validator id.
func Key(id int) crypto.PrivKeyEd25519 {
	return crypto.GenPrivKeyEd25519FromSecret([]byte(fmt.Sprintf("verif-validator-%d", id)))
}

type Config struct {
	Powers   []int64 // voting power per validator id
	Byz      []bool  // Byzantine (puppet) validators; nil = none
	Dir      string  // scratch directory (WALs, signer files)
	WalLight bool
	PartSize int
	// RepairProposer: after a restart, restore the validator set's cached proposer (hook H3
	// VerifSetProposer) to what the pre-crash object had. Used only to keep searching behind the
	// recorded finding "proposer cache lost on reload"; Net.Repairs counts the uses.
	RepairProposer bool
	// Reactor: give every honest node a real ConsensusReactor (bound to an unstarted p2p.Switch
	// without peers) so that peer bytes can be fed through the real Receive.
	Reactor bool
	// ViaSwitch: every (re)start enters consensus the way a node with fast_sync enabled does once it
	// has caught up: the reactor is started in fast-sync mode and ConsensusReactor.SwitchToConsensus
	// is called with the node's state object (the one the ConsensusState was built on, as angine does).
	ViaSwitch bool
}

type Flight struct {
	From int
	To   int
	Msg  pbft.ConsensusMessage
}

type Committed struct {
	Height int64
	Hash   []byte
	Round  int64
}

type Node struct {
	ID       int
	Addr     []byte
	Priv     crypto.PrivKeyEd25519
	Honest   bool
	Alive    bool
	PVFile   string
	PV       *types.PrivValidator
	StateDB  dbm.DB
	BlockDB  dbm.DB
	ArchDB   dbm.DB
	Store    *bc.BlockStore
	CS       *pbft.ConsensusState
	Ctl      *pbft.VerifCtl
	ConR     *pbft.ConsensusReactor
	Evsw     types.EventSwitch
	Pool     *Mempool
	WalDir   string
	Own      []pbft.ConsensusMessage // own messages in harness custody (not yet processed/broadcast)
	Commits  []Committed             // blocks this node committed, in order (survives restarts)
	Emitted  []pbft.ConsensusMessage // every own message that was processed and broadcast
	Restarts int
	net      *Net

	savedProposer []byte // round-0 proposer of the current height as the pre-crash object knew it
	savedHeight   int64
}

type Net struct {
	Cfg      Config
	Nodes    []*Node
	Genesis  *types.GenesisDoc
	InFlight []Flight
	Dropped  []Flight
	Steps    int
	Repairs  int
	// OnEmit, when set, observes every message an honest node broadcasts (after it has
	// processed it itself).
	OnEmit func(n *Node, m pbft.ConsensusMessage)
	// OnCommit observes every commit of an honest node.
	OnCommit func(n *Node, c Committed)
	// OnQueued observes the messages a node has just signed and queued for itself during the
	// step that ended (they are in custody, not yet processed or broadcast).
	OnQueued func(n *Node, ms []pbft.ConsensusMessage)
	// OnStep observes the end of every processed input of a node (before OnQueued/OnCommit).
	OnStep func(n *Node)
}

// ---------------------------------------------------------------------------------------
// application + plugin stubs

type execStub struct{ n *Node }

func (e execStub) BeginBlock(*types.Block, events.Fireable, *types.PartSetHeader) error { return nil }
func (e execStub) ExecBlock(*types.Block, events.Fireable, *types.ExecuteResult) error  { return nil }
func (e execStub) EndBlock(b *types.Block, _ events.Fireable, _ *types.PartSetHeader, _ []*types.ValidatorAttr, next *types.ValidatorSet) error {
	// stub governance plugin: ExTxs of the form AdminTag+"valchange:<id>:<power>" change the
	// next validator set (power 0 removes). Used to produce validator-set histories.
	for _, tx := range b.Data.ExTxs {
		var id int
		var power int64
		body := bytes.TrimPrefix(tx, types.AdminTag)
		if _, err := fmt.Sscanf(string(body), "valchange:%d:%d", &id, &power); err != nil {
			continue
		}
		pub := Key(id).PubKey()
		addr := pub.Address()
		if power <= 0 {
			if next.Size() > 1 {
				next.Remove(addr)
			}
			continue
		}
		v := &types.Validator{Address: addr, PubKey: pub, VotingPower: power}
		if next.HasAddress(addr) {
			next.Update(v)
		} else {
			next.Add(v)
		}
	}
	return nil
}

// AppHashOf is the deterministic toy application: hash chain over block data.
func AppHashOf(prev []byte, b *types.Block) []byte {
	h := sha256.New()
	h.Write(prev)
	h.Write(b.Data.Hash())
	return h.Sum(nil)[:20]
}

func (n *Node) wireApp() {
	ev := types.NewEventSwitch()
	ev.Start()
	n.Evsw = ev
	types.AddListenerForEvent(ev, "sim", types.EventStringHookNewRound(), func(ed types.TMEventData) {
		ed.(types.EventDataHookNewRound).ResCh <- types.NewRoundResult{}
	})
	types.AddListenerForEvent(ev, "sim", types.EventStringHookExecute(), func(ed types.TMEventData) {
		d := ed.(types.EventDataHookExecute)
		d.ResCh <- types.ExecuteResult{ValidTxs: d.Block.Data.Txs}
	})
	types.AddListenerForEvent(ev, "sim", types.EventStringHookCommit(), func(ed types.TMEventData) {
		d := ed.(types.EventDataHookCommit)
		// the header's AppHash is the application state after the previous block (validated
		// against the node's state before a block can be committed)
		d.ResCh <- types.CommitResult{AppHash: AppHashOf(d.Block.AppHash, d.Block), ReceiptsHash: d.Block.Data.Hash()}
	})
}

// Mempool is a scripted tx source.
type Mempool struct {
	mu   sync.Mutex
	Next []types.Tx
}

func (m *Mempool) Lock()   {}
func (m *Mempool) Unlock() {}
func (m *Mempool) Reap(int) []types.Tx {
	m.mu.Lock()
	defer m.mu.Unlock()
	out := m.Next
	m.Next = nil
	return out
}
func (m *Mempool) ReceiveTx(types.Tx) error                  { return nil }
func (m *Mempool) Update(int64, []types.Tx)                  {}
func (m *Mempool) Size() int                                 { return 0 }
func (m *Mempool) TxsFrontWait() *clist.CElement             { return nil }
func (m *Mempool) Flush()                                    {}
func (m *Mempool) RegisterFilter(types.IFilter)              {}
func (m *Mempool) GetPendingMaxNonce([]byte) (uint64, error) { return 0, nil }
func (m *Mempool) Push(tx types.Tx)                          { m.mu.Lock(); m.Next = append(m.Next, tx); m.mu.Unlock() }

// ---------------------------------------------------------------------------------------

func New(cfg Config) *Net {
	initGlobals()
	if cfg.PartSize == 0 {
		cfg.PartSize = 512
	}
	net := &Net{Cfg: cfg}
	gen := &types.GenesisDoc{ChainID: ChainID, GenesisTime: time.Unix(1500000000, 0), AppHash: []byte{}}
	for i, p := range cfg.Powers {
		if p <= 0 {
			continue // not in the genesis set (may be added later by a valchange)
		}
		gen.Validators = append(gen.Validators, types.GenesisValidator{PubKey: Key(i).PubKey(), Amount: p, Name: fmt.Sprintf("v%d", i)})
	}
	net.Genesis = gen
	for i := range cfg.Powers {
		k := Key(i)
		n := &Node{ID: i, Priv: k, Addr: k.PubKey().Address(), Honest: !(cfg.Byz != nil && cfg.Byz[i]), net: net}
		net.Nodes = append(net.Nodes, n)
		if !n.Honest {
			continue
		}
		n.StateDB, n.BlockDB, n.ArchDB = dbm.NewMemDB(), dbm.NewMemDB(), dbm.NewMemDB()
		n.WalDir = filepath.Join(cfg.Dir, fmt.Sprintf("n%d", i), "cs.wal")
		os.MkdirAll(n.WalDir, 0o700)
		n.PVFile = filepath.Join(cfg.Dir, fmt.Sprintf("n%d", i), "priv_validator.json")
		pv, err := types.GenPrivValidator(crypto.CryptoTypeZhongAn, k)
		if err != nil {
			panic(err)
		}
		pv.SetFile(n.PVFile)
		if err := pv.Save(); err != nil {
			panic(err)
		}
		n.Pool = &Mempool{}
		// like a production node's first start: the genesis state object is saved and then used
		// directly (not re-loaded from the database)
		st := sm.MakeGenesisState(n.StateDB, cloneGenesis(gen))
		st.Save()
		n.boot(st)
	}
	return net
}

func cloneGenesis(g *types.GenesisDoc) *types.GenesisDoc {
	c := *g
	c.Validators = append([]types.GenesisValidator(nil), g.Validators...)
	return &c
}

func (n *Node) conf() *viper.Viper {
	c := viper.New()
	c.Set("chain_id", ChainID)
	c.Set("cs_wal_dir", n.WalDir)
	c.Set("cs_wal_light", n.net.Cfg.WalLight)
	c.Set("block_size", 100)
	c.Set("block_part_size", n.net.Cfg.PartSize)
	c.Set("timeout_propose", 3000)
	c.Set("timeout_propose_delta", 500)
	c.Set("timeout_prevote", 1000)
	c.Set("timeout_prevote_delta", 500)
	c.Set("timeout_precommit", 1000)
	c.Set("timeout_precommit_delta", 500)
	c.Set("timeout_commit", 1000)
	c.Set("skip_timeout_commit", false)
	return c
}

// boot builds the node's objects from its persistent stores and starts consensus through
// the real OnStart (WAL height marker, catchupReplay, receive routine spawn, scheduleRound0).
func (n *Node) boot(st *sm.State) {
	pv, err := types.LoadPrivValidator(n.PVFile)
	if err != nil {
		panic(fmt.Sprintf("sim: signer file of node %d unreadable: %v", n.ID, err))
	}
	n.PV = pv
	n.Store = bc.NewBlockStore(n.BlockDB, n.ArchDB)
	if st == nil {
		st = sm.LoadState(n.StateDB)
		if st == nil {
			panic("sim: no state")
		}
		if n.net.Cfg.RepairProposer && n.savedProposer != nil && st.LastBlockHeight == n.savedHeight {
			// neutralise the recorded finding "proposer cache lost on reload" (counted)
			if types.VerifSetProposer(st.Validators, n.savedProposer) {
				n.net.Repairs++
			}
		}
	}
	st.SetBlockExecutable(execStub{n})
	n.wireApp()
	cs := pbft.NewConsensusState(n.conf(), st, n.Store, n.Pool)
	if cs == nil {
		panic("sim: NewConsensusState returned nil")
	}
	cs.SetPrivValidator(pv)
	cs.SetEventSwitch(n.Evsw)
	st.SetBlockVerifier(cs)
	n.CS = cs
	n.Ctl = pbft.VerifAttach(cs)
	n.Alive = true
	if n.net.Cfg.Reactor || n.net.Cfg.ViaSwitch {
		pc := viper.New()
		sw := p2p.NewSwitch(pc)
		conR := pbft.NewConsensusReactor(cs, n.net.Cfg.ViaSwitch)
		conR.SetSwitch(sw)
		conR.SetEventSwitch(n.Evsw)
		cs.BindReactor(conR)
		n.ConR = conR
		if _, err := conR.Start(); err != nil { // starts the consensus state as production does
			panic(fmt.Sprintf("sim: reactor start: %v", err))
		}
		if n.net.Cfg.ViaSwitch {
			conR.SwitchToConsensus(st)
		}
	} else if _, err := cs.Start(); err != nil {
		panic(fmt.Sprintf("sim: start: %v", err))
	}
	n.Ctl.WaitParked(1)
	if n.Ctl.Ticker.Overflowed() {
		// more timeouts were scheduled before the ticker was started than its request channel holds:
		// the real node would sit in OnStart for ever (the harness's ticker never blocks)
		panic(fmt.Sprintf("sim: node %d: start-up scheduled more timeouts than the ticker's request buffer holds before the ticker was started: the real node blocks in OnStart for ever", n.ID))
	}
	n.after()
}

// after is run after every step of the node: own messages go into custody, commits are noted.
func (n *Node) after() {
	if n.net.OnStep != nil {
		n.net.OnStep(n)
	}
	fresh := n.Ctl.DrainInternal()
	n.Own = append(n.Own, fresh...)
	if len(fresh) > 0 && n.net.OnQueued != nil {
		n.net.OnQueued(n, fresh)
	}
	for h := n.lastCommitted() + 1; h <= n.Store.Height(); h++ {
		meta := n.Store.LoadBlockMeta(h)
		c := Committed{Height: h, Hash: meta.Hash}
		if sc := n.Store.LoadSeenCommit(h); sc != nil && len(sc.Precommits) > 0 {
			c.Round = sc.Round()
		}
		n.Commits = append(n.Commits, c)
		if n.net.OnCommit != nil {
			n.net.OnCommit(n, c)
		}
	}
}

func (n *Node) lastCommitted() int64 {
	if len(n.Commits) == 0 {
		return 0
	}
	return n.Commits[len(n.Commits)-1].Height
}

// RS returns the node's current round state.
func (n *Node) RS() *pbft.RoundState { return n.Ctl.RoundState() }

// Honest returns the honest nodes.
func (net *Net) Honest() []*Node {
	var out []*Node
	for _, n := range net.Nodes {
		if n.Honest {
			out = append(out, n)
		}
	}
	return out
}

func peerKey(from int) string { return fmt.Sprintf("peer-%d", from) }

// Deliver delivers in-flight message k to its destination (keep=true leaves a duplicate in
// flight). Returns false if k is out of range.
func (net *Net) Deliver(k int, keep bool) bool {
	if k < 0 || k >= len(net.InFlight) {
		return false
	}
	f := net.InFlight[k]
	if !keep {
		net.InFlight = append(net.InFlight[:k], net.InFlight[k+1:]...)
	}
	n := net.Nodes[f.To]
	if !n.Honest || !n.Alive {
		return true
	}
	net.Steps++
	n.Ctl.StepPeer(f.Msg, peerKey(f.From))
	n.after()
	return true
}

// Drop removes in-flight message k (remembered so that a fair suffix can re-deliver it).
func (net *Net) Drop(k int) bool {
	if k < 0 || k >= len(net.InFlight) {
		return false
	}
	net.Dropped = append(net.Dropped, net.InFlight[k])
	net.InFlight = append(net.InFlight[:k], net.InFlight[k+1:]...)
	return true
}

// Inject hands a (possibly forged) message straight to a node, as from peer `from`.
func (net *Net) Inject(to, from int, m pbft.ConsensusMessage) {
	n := net.Nodes[to]
	if !n.Honest || !n.Alive {
		return
	}
	net.Steps++
	n.Ctl.StepPeer(m, peerKey(from))
	n.after()
}

// OwnStep lets the node process own message k from custody and then broadcasts it.
func (net *Net) OwnStep(n *Node, k int) bool {
	if !n.Honest || !n.Alive || k < 0 || k >= len(n.Own) {
		return false
	}
	m := n.Own[k]
	n.Own = append(n.Own[:k], n.Own[k+1:]...)
	net.Steps++
	n.Ctl.StepInternal(m)
	n.Emitted = append(n.Emitted, m)
	if net.OnEmit != nil {
		net.OnEmit(n, m)
	}
	net.Broadcast(n.ID, m)
	n.after()
	return true
}

// Broadcast queues m from `from` to every other honest node.
func (net *Net) Broadcast(from int, m pbft.ConsensusMessage) {
	for _, o := range net.Nodes {
		if o.ID != from && o.Honest {
			net.InFlight = append(net.InFlight, Flight{From: from, To: o.ID, Msg: m})
		}
	}
}

// Send queues m from `from` to one node.
func (net *Net) Send(from, to int, m pbft.ConsensusMessage) {
	if net.Nodes[to].Honest {
		net.InFlight = append(net.InFlight, Flight{From: from, To: to, Msg: m})
	}
}

// StepQueued lets the node process one message that its reactor's Receive has queued.
func (net *Net) StepQueued(n *Node) bool {
	if !n.Honest || !n.Alive || !n.Ctl.StepQueued() {
		return false
	}
	net.Steps++
	n.after()
	return true
}

// Timeout fires pending timeout k of the node.
func (net *Net) Timeout(n *Node, k int) bool {
	if !n.Honest || !n.Alive {
		return false
	}
	if !n.Ctl.StepTimeout(k) {
		return false
	}
	net.Steps++
	n.after()
	return true
}

// Crash models process death between two processed inputs: the object is abandoned, own
// messages that were queued but not yet processed are lost, in-memory state is gone.
func (net *Net) Crash(n *Node) {
	if !n.Honest || !n.Alive {
		return
	}
	cst := n.CS.GetState()
	n.savedProposer = cst.Validators.Proposer().Address
	n.savedHeight = cst.LastBlockHeight
	n.Ctl.Abandon()
	n.Evsw.Stop()
	n.Alive = false
	n.Own = nil
	n.CS = nil
	n.Ctl = nil
}

// Restart rebuilds a crashed node from WAL + stores + signer file via the real OnStart.
func (net *Net) Restart(n *Node) {
	if !n.Honest || n.Alive {
		return
	}
	n.Restarts++
	n.boot(nil)
}

// Close releases the file handles of all nodes.
func (net *Net) Close() {
	for _, n := range net.Nodes {
		if n.Honest && n.Alive {
			n.Ctl.Abandon()
			n.Evsw.Stop()
			n.Alive = false
		}
	}
}

// ---------------------------------------------------------------------------------------
// message construction with real keys (Byzantine puppets, and honest-looking traffic for
// single-node harnesses)

// SignVote builds and signs a vote of validator id against the validator set vals.
func SignVote(id int, vals *types.ValidatorSet, height, round int64, typ byte, bid types.BlockID) *types.Vote {
	k := Key(id)
	addr := k.PubKey().Address()
	idx, _ := vals.GetByAddress(addr)
	v := &types.Vote{ValidatorAddress: addr, ValidatorIndex: idx, Height: height, Round: round, Type: typ, BlockID: bid}
	v.Signature = k.Sign(types.SignBytes(ChainID, v))
	return v
}

// SignProposal builds and signs a proposal by validator id.
func SignProposal(id int, height, round int64, psh types.PartSetHeader, polRound int64, polID types.BlockID) *types.Proposal {
	p := types.NewProposal(height, round, psh, polRound, polID)
	p.Signature = Key(id).Sign(types.SignBytes(ChainID, p))
	return p
}

// MakeBlock builds a block that is valid on top of the given state (as seen by some honest
// node), proposed by validator id, with the given txs; lastCommit may be nil for height 1.
func MakeBlock(st *sm.State, lastCommit *types.Commit, proposer int, txs []types.Tx, partSize int) (*types.Block, *types.PartSet) {
	if lastCommit == nil {
		lastCommit = &types.Commit{}
	}
	var ex, plain []types.Tx
	for _, tx := range txs {
		if types.IsAdminOP(tx) {
			ex = append(ex, tx)
		} else {
			plain = append(plain, tx)
		}
	}
	return types.MakeBlock(st.LastBlockHeight+1, st.ChainID, plain, ex, lastCommit, Key(proposer).PubKey().Address(),
		st.LastBlockID, st.Validators.Hash(), st.AppHash, st.ReceiptsHash, partSize)
}

// ProposalMsgs returns the proposal message and the block part messages for a block.
func ProposalMsgs(proposer int, height, round int64, parts *types.PartSet, polRound int64, polID types.BlockID) []pbft.ConsensusMessage {
	p := SignProposal(proposer, height, round, parts.Header(), polRound, polID)
	out := []pbft.ConsensusMessage{&pbft.ProposalMessage{Proposal: p}}
	for i := 0; i < parts.Total(); i++ {
		out = append(out, &pbft.BlockPartMessage{Height: height, Round: round, Part: parts.GetPart(i)})
	}
	return out
}

// Describe renders a message briefly (for histories and samples).
func Describe(m pbft.ConsensusMessage) string {
	switch v := m.(type) {
	case *pbft.ProposalMessage:
		return fmt.Sprintf("Proposal{h%d r%d pol%d parts%d:%x}", v.Proposal.Height, v.Proposal.Round, v.Proposal.POLRound, v.Proposal.BlockPartsHeader.Total, fp(v.Proposal.BlockPartsHeader.Hash))
	case *pbft.BlockPartMessage:
		return fmt.Sprintf("Part{h%d r%d #%d}", v.Height, v.Round, v.Part.Index)
	case *pbft.VoteMessage:
		t := "prevote"
		if v.Vote.Type == types.VoteTypePrecommit {
			t = "precommit"
		}
		return fmt.Sprintf("Vote{%s h%d r%d val%d %x}", t, v.Vote.Height, v.Vote.Round, v.Vote.ValidatorIndex, fp(v.Vote.BlockID.Hash))
	}
	return fmt.Sprintf("%T", m)
}

func fp(b []byte) []byte {
	if len(b) > 4 {
		return b[:4]
	}
	return b
}
