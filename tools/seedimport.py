#!/usr/bin/env python3
"""seedimport.py <src-dir> <name> <dest-pkg-dir> <run-regex> <checks,comma> [tags]
Copies a seeded change (patch.diff, meta.json, demo *_test.go) into /verif/seeded/<name>/ with a plan.json."""
import sys, os, glob, shutil, json
src, name, dest, run, checks = sys.argv[1:6]
tags = sys.argv[6] if len(sys.argv) > 6 else ''
d = '/verif/seeded/' + name
os.makedirs(d, exist_ok=True)
for f in glob.glob(src + '/*'):
    if os.path.isfile(f): shutil.copy(f, d)
demos = sorted(os.path.basename(f) for f in glob.glob(src + '/*.go'))
pl = {'run': run, 'checks': checks.split(','), 'vetoff': True, 'demos': [{'file': f, 'dest': dest} for f in demos]}
if tags: pl['tags'] = tags
json.dump(pl, open(d + '/plan.json', 'w'), indent=1)
print(name, demos, json.load(open(d + '/meta.json'))['title'][:110])
