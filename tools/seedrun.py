#!/usr/bin/env python3
"""seedrun.py <seeded-name> [...]   (env SEED_WT=/tmp/wt-xxx, SEED_CHECKS=C01,C02 to override)
Confirms one seeded change of /verif/seeded/<name>/ in a scratch worktree of /repo's HEAD and runs
the quick tier of the checks named in plan.json against it (VERIF_REPO, /repo itself untouched):
  1. the demonstration passes on the unchanged tree and fails with patch.diff applied;
  2. the patched tree builds and the tests of the touched packages still pass;
  3. which checks report a violation, with which root-cause signature, after how many seconds.
The outcome is written to /verif/seeded/<name>/confirmed.json."""
import json, os, subprocess, sys, shutil, time
env = dict(os.environ, GOFLAGS='-mod=mod', GOPROXY='off', GOSUMDB='off', GOTOOLCHAIN='local')
WT = os.environ.get('SEED_WT', '/tmp/wt-seedrun')
def sh(cmd, cwd=None, **kw):
    return subprocess.run(cmd, cwd=cwd or WT, env=env, stdout=subprocess.PIPE, stderr=subprocess.STDOUT, text=True, errors='replace', shell=isinstance(cmd, str), **kw)
def one(name):
    sd = '/verif/seeded/' + name
    plan = json.load(open(sd + '/plan.json'))
    checks = os.environ.get('SEED_CHECKS', '').split(',') if os.environ.get('SEED_CHECKS') else plan['checks']
    sh(['git', '-C', '/repo', 'worktree', 'remove', '--force', WT], cwd='/')
    shutil.rmtree(WT, ignore_errors=True)
    r = sh(['git', '-C', '/repo', 'worktree', 'add', '--detach', WT, 'HEAD', '-f'], cwd='/')
    assert r.returncode == 0, r.stdout
    out = {'repo_head': sh(['git', 'rev-parse', '--short', 'HEAD']).stdout.strip()}
    try:
        pkgs = []
        for d in plan['demos']:
            os.makedirs(os.path.join(WT, d['dest']), exist_ok=True)
            shutil.copy(os.path.join(sd, d['file']), os.path.join(WT, d['dest'], d['file']))
            if './' + d['dest'] not in pkgs: pkgs.append('./' + d['dest'])
        gt = ['go', 'test', '-count=1', '-run', plan['run']] + (['-tags', plan['tags']] if plan.get('tags') else []) + (['-vet=off'] if plan.get('vetoff') else [])
        r0 = sh(gt + pkgs)
        out['demo_without_patch'] = 'PASS' if r0.returncode == 0 else 'FAIL: ' + r0.stdout[-400:]
        r = sh(['git', 'apply', os.path.join(sd, 'patch.diff')])
        if r.returncode != 0:
            out['apply'] = 'FAILED: ' + r.stdout[-300:]
            return out
        r1 = sh(gt + pkgs)
        out['demo_with_patch'] = 'FAIL (as intended): ' + ' | '.join(l.strip() for l in r1.stdout.splitlines() if '--- FAIL' in l or 'Error' in l or '_test.go:' in l)[:400] if r1.returncode != 0 else 'PASS (demonstration does not detect the change!)'
        for d in plan['demos']:
            os.remove(os.path.join(WT, d['dest'], d['file']))
        rb = sh('go build ./... 2>&1 | grep -v "sqlite\\|^ *[0-9]* |\\|~~~\\|\\^\\|standin\\|pNew\\|^#" | head -5')
        out['build'] = rb.stdout.strip() or 'ok'
        touched = sorted(set('./' + os.path.dirname(l[6:].strip()) for l in open(os.path.join(sd, 'patch.diff')) if l.startswith('+++ b/')))
        tr = sh(['go', 'test', '-count=1'] + touched)
        out['existing_tests_of_touched_packages'] = {'packages': touched, 'result': 'pass' if tr.returncode == 0 else tr.stdout[-600:]}
        out['checks'] = {}
        for c in checks:
            t0 = time.time()
            rc = subprocess.run(['./vcheck', c], cwd='/verif', env=dict(env, VERIF_REPO=WT, VERIF_OUT='/tmp/seedrun-out-' + os.path.basename(WT)), stdout=subprocess.PIPE, stderr=subprocess.STDOUT, text=True, errors='replace')
            sig = [l for l in rc.stdout.splitlines() if l.startswith('VIOLATION')]
            out['checks'][c] = {'command': 'VERIF_REPO=<patched worktree> ./vcheck ' + c, 'exit': rc.returncode, 'seconds': round(time.time() - t0), 'violations': sorted(set(l.split('sig=')[-1] for l in sig))[:6]}
            if rc.returncode not in (0, 1): out['checks'][c]['tail'] = rc.stdout[-300:]
            for l in sig:
                for w in l.split():
                    pass
        out['caught_by'] = [c for c, v in out['checks'].items() if v['exit'] == 1]
        out['missed_by'] = [c for c, v in out['checks'].items() if v['exit'] == 0]
    finally:
        sh(['git', '-C', '/repo', 'worktree', 'remove', '--force', WT], cwd='/')
        shutil.rmtree(WT, ignore_errors=True)
        shutil.rmtree('/tmp/seedrun-out-' + os.path.basename(WT), ignore_errors=True)
    return out
for name in sys.argv[1:]:
    try:
        o = one(name)
    except Exception as e:
        o = {'error': repr(e)}
    prev = {}
    p = '/verif/seeded/' + name + '/confirmed.json'
    if os.environ.get('SEED_CHECKS') and os.path.exists(p):
        prev = json.load(open(p))
        prev.setdefault('checks', {}).update(o.get('checks', {}))
        prev['caught_by'] = [c for c, v in prev['checks'].items() if v['exit'] == 1]
        prev['missed_by'] = [c for c, v in prev['checks'].items() if v['exit'] == 0]
        o = prev
    json.dump(o, open(p, 'w'), indent=1)
    print(name, json.dumps({k: o.get(k) for k in ('demo_without_patch', 'demo_with_patch', 'build', 'caught_by', 'missed_by', 'error', 'apply')})[:600], flush=True)
