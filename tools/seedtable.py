#!/usr/bin/env python3
"""Regenerates the table of DESIGN.md section 8.5 (between the SEEDED-TABLE markers) from
seeded/*/meta.json + confirmed.json."""
import json, glob, os, re
rows = []
for d in sorted(glob.glob('/verif/seeded/C*-*')):
    name = os.path.basename(d)
    try:
        m = json.load(open(d + '/meta.json'))
    except Exception:
        continue
    c = json.load(open(d + '/confirmed.json')) if os.path.exists(d + '/confirmed.json') else {}
    caught = []
    for k, v in sorted(c.get('checks', {}).items()):
        if v['exit'] == 1:
            caught.append('%s (%s, %ds)' % (k, ', '.join(s.split(':')[0][:48] for s in v['violations'][:2]), v['seconds']))
    missed = [k for k, v in sorted(c.get('checks', {}).items()) if v['exit'] == 0]
    other = [k for k, v in sorted(c.get('checks', {}).items()) if v['exit'] not in (0, 1)]
    title = m.get('title', '').replace('|', '/')
    if len(title) > 150: title = title[:147] + '...'
    rows.append('| %s | %s | %s | %s |' % (name, title, '; '.join(caught) or '—', ', '.join(missed) + (' inconclusive: ' + ', '.join(other) if other else '') or '—'))
table = '| seeded change | what it breaks | quick tier reports it (signature, wall s) | quick tier silent |\n|---|---|---|---|\n' + '\n'.join(rows)
p = '/verif/DESIGN.md'
s = open(p).read()
a, b = '<!-- SEEDED-TABLE-BEGIN -->', '<!-- SEEDED-TABLE-END -->'
if a in s:
    s = s[:s.index(a) + len(a)] + '\n' + table + '\n' + s[s.index(b):]
    open(p, 'w').write(s)
print(table)
