#!/usr/bin/env python3
"""Sensitivity self-test: apply each listed mutation to a scratch worktree, run the quick tier of
the named checks against it (VERIF_REPO), expect exit 1. Usage: sens.py <mutations.json> [name-filter]
mutations.json: [{"name","checks":["C01"],"file","old","new"}]"""
import json, subprocess, sys, os, time
WT = os.environ.get('SENS_WT', '/tmp/wt-sens')
muts = json.load(open(sys.argv[1]))
flt = sys.argv[2] if len(sys.argv) > 2 else ''
subprocess.run(['git', '-C', '/repo', 'worktree', 'remove', '--force', WT], capture_output=True)
subprocess.run(['git', '-C', '/repo', 'worktree', 'add', '--detach', WT, 'HEAD', '-f'], check=True, capture_output=True)
results = []
try:
    for m in muts:
        if flt and flt not in m['name'] and flt not in m['checks']:
            continue
        p = os.path.join(WT, m['file'])
        s = open(p).read()
        if s.count(m['old']) != 1:
            print('SKIP', m['name'], 'pattern count', s.count(m['old'])); continue
        open(p, 'w').write(s.replace(m['old'], m['new']))
        for c in m['checks']:
            t0 = time.time()
            env = dict(os.environ, VERIF_REPO=WT, VERIF_DIR='/verif')
            r = subprocess.run(['./vcheck', c], cwd='/verif', env=env, capture_output=True, text=True, errors='replace')
            sig = [l for l in r.stdout.splitlines() if l.startswith('VIOLATION')]
            print('%-40s %s exit=%d %.0fs %s' % (m['name'], c, r.returncode, time.time() - t0, sig[:2] if sig else r.stdout[-300:].replace('\n', ' | ')), flush=True)
            results.append({'mutation': m['name'], 'file': m['file'], 'check': c, 'exit': r.returncode, 'seconds': round(time.time() - t0), 'signatures': sorted(set(l.split('sig=')[-1] for l in sig))[:4], 'note': m.get('note', '')})
            for l in sig:
                rp = [f[7:] for f in l.split() if f.startswith('replay=')]
                for f in rp:
                    if f.startswith('/verif/replay/C') and os.path.exists(f) and '/known/' not in f and '/regress/' not in f:
                        os.remove(f)
        open(p, 'w').write(s)
finally:
    subprocess.run(['git', '-C', '/repo', 'worktree', 'remove', '--force', WT], capture_output=True)
if not flt:
    json.dump(results, open('/verif/tools/sens-results.json', 'w'), indent=1)
