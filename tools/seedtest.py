#!/usr/bin/env python3
"""seedtest.py <seed-dir> <demo-dest-dir-in-repo> <Cxx>[,Cyy] [go-test-run-regex]
Confirm a seeded change in a scratch worktree (demo fails with patch, passes without; touched
packages' tests pass) and run the named checks' quick tier against it (VERIF_REPO)."""
import json, os, subprocess, sys, glob, shutil, time
sd, dest, checks = sys.argv[1], sys.argv[2], sys.argv[3].split(',')
runre = sys.argv[4] if len(sys.argv) > 4 else 'Seed'
WT = os.environ.get('SEED_WT', '/tmp/wt-seedtest')
env = dict(os.environ, GOFLAGS='-mod=mod', GOPROXY='off', GOSUMDB='off', GOTOOLCHAIN='local')
def sh(cmd, cwd=WT, **kw): return subprocess.run(cmd, cwd=cwd, env=env, capture_output=True, text=True, shell=isinstance(cmd, str), **kw)
sh(['git', '-C', '/repo', 'worktree', 'remove', '--force', WT], cwd='/')
r = sh(['git', '-C', '/repo', 'worktree', 'add', '--detach', WT, 'HEAD', '-f'], cwd='/')
assert r.returncode == 0, r.stderr
out = {}
try:
    demos = [f for f in glob.glob(os.path.join(sd, '*')) if f.endswith('_test.go') or f.endswith('.go')]
    for f in demos: shutil.copy(f, os.path.join(WT, dest, os.path.basename(f)))
    pkg = './' + dest
    r0 = sh(['go', 'test', '-count=1', '-run', runre, pkg]); out['demo_without_patch'] = 'PASS' if r0.returncode == 0 else 'FAIL: ' + r0.stdout[-300:]
    r = sh(['git', 'apply', os.path.join(sd, 'patch.diff')]); assert r.returncode == 0, r.stderr
    r1 = sh(['go', 'test', '-count=1', '-run', runre, pkg]); out['demo_with_patch'] = 'FAIL (as intended)' if r1.returncode != 0 else 'PASS (demo does not detect!)'
    for f in demos: os.remove(os.path.join(WT, dest, os.path.basename(f)))
    rb = sh('go build ./... 2>&1 | grep -v "sqlite\\|^ *[0-9]* |\\|~~~\\|\\^\\|standin\\|pNew" | head -5'); out['build'] = rb.stdout.strip() or 'ok'
    touched = set(os.path.dirname(l[6:]) for l in open(os.path.join(sd, 'patch.diff')) if l.startswith('+++ b/'))
    tr = sh(['go', 'test', '-count=1'] + ['./' + t for t in touched]); out['tests_touched'] = 'ok' if tr.returncode == 0 else tr.stdout[-400:]
    for c in checks:
        t0 = time.time()
        rc = subprocess.run(['./vcheck', c], cwd='/verif', env=dict(env, VERIF_REPO=WT), capture_output=True, text=True)
        sig = [l for l in rc.stdout.splitlines() if l.startswith('VIOLATION')]
        out['check_' + c] = {'exit': rc.returncode, 'seconds': round(time.time() - t0), 'violations': [l.split('sig=')[-1] for l in sig][:4], 'tail': rc.stdout[-200:] if rc.returncode != 1 else ''}
        for l in sig:
            for w in l.split():
                if w.startswith('replay=/verif/replay/C') and os.path.exists(w[7:]) and '/known/' not in w and '/regress/' not in w: os.remove(w[7:])
finally:
    sh(['git', '-C', '/repo', 'worktree', 'remove', '--force', WT], cwd='/')
print(json.dumps(out, indent=1))
