#!/usr/bin/env python3
"""markfixed.py <Cxx> <key> <commit>: move a finding (from known_findings.d/Cxx.json or the main file) to
status=fixed in known_findings.json, and its replay from replay/known to replay/regress."""
import json, os, sys, shutil
V='/verif'
prop,key,commit=sys.argv[1:4]
main=os.path.join(V,'known_findings.json')
d=json.load(open(main))
entry=None
dp=os.path.join(V,'known_findings.d',prop+'.json')
if os.path.exists(dp):
    dd=json.load(open(dp))
    for f in dd['findings']:
        if f['key']==key and f['property']==prop: entry=f
    dd['findings']=[f for f in dd['findings'] if f is not entry]
    if dd['findings']: json.dump(dd,open(dp,'w'),indent=1)
    else: os.remove(dp)
if entry is None:
    for f in d['findings']:
        if f['key']==key and f['property']==prop: entry=f
    d['findings']=[f for f in d['findings'] if f is not entry]
if entry is None: sys.exit('no such finding')
entry['status']='fixed'; entry['commit']=commit
w=entry.get('what','')
if not w.startswith('fixed:'): entry['what']='fixed: property=%s %s %s'%(prop,commit,w)
rp=entry.get('replay')
if rp and rp.startswith('replay/known/'):
    new=rp.replace('replay/known/','replay/regress/')
    if os.path.exists(os.path.join(V,rp)): shutil.move(os.path.join(V,rp),os.path.join(V,new))
    entry['replay']=new
d['findings'].append(entry)
json.dump(d,open(main,'w'),indent=1)
print('fixed',prop,key,commit,entry.get('replay'))
