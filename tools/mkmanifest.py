#!/usr/bin/env python3
"""Assemble /verif/MANIFEST.json from checks/cXX/legs.json + checks/cXX/claim.json."""
import json, os, glob, subprocess
V = os.path.dirname(os.path.dirname(os.path.abspath(__file__)))
props = [json.loads(l) for l in open(os.path.join(V, 'properties.jsonl'))]
checks, na = [], []
pending = json.load(open(os.path.join(V, 'tools', 'not_applicable.json')))
for p in props:
    pid = p['id']
    d = os.path.join(V, 'checks', pid.lower())
    if os.path.exists(os.path.join(d, 'legs.json')) and os.path.exists(os.path.join(d, 'claim.json')):
        legs = json.load(open(os.path.join(d, 'legs.json')))
        claim = json.load(open(os.path.join(d, 'claim.json')))
        checks.append({
            "property_id": pid,
            "quick_cmd": "./vcheck %s --tier quick" % pid,
            "thorough_cmd": "./vcheck %s --tier thorough" % pid,
            "evidence_file": "/verif/evidence/%s.json" % pid,
            "replay_cmd_template": "./vcheck %s --replay {path}" % pid,
            "engine": "vcheck",
            "level_claimed": {"category": legs.get("level", "exploration"), "text": claim["text"], "design_ref": claim.get("design_ref", "DESIGN.md §4 " + pid)},
            "level_note": claim["note"],
            "technique": claim["technique"],
        })
    else:
        na.append({"property_id": pid, "reason": pending.get(pid, "no check is built for this property yet; nothing is claimed for it")})
hooks = json.load(open(os.path.join(V, 'tools', 'hooks.json')))
m = {
    "version": 1,
    "setup_cmd": "cd /verif && GOFLAGS=-mod=mod GOPROXY=off GOSUMDB=off GOTOOLCHAIN=local ./vcheck build-all",
    "hooks": hooks,
    "engines": [{"name": "vcheck", "path": "/verif/cmd/vcheck", "serves_properties": [c["property_id"] for c in checks],
                 "kind_free_text": "driver: rebuilds the check's Go test binary from /repo's working tree with -tags verif, runs rapid (pgregory.net/rapid v1.3.0) property legs in up to 16 seeded shards, plain enumeration legs and (thorough only) native go fuzz legs; merges evidence; classifies violations by root-cause signature against known_findings.json"}],
    "checks": checks,
    "not_applicable": na,
    "notes": "All checks are property-based tests / fuzzing over generated inputs, histories, schedules or injected faults with explicit oracles (see DESIGN.md). VERIF_SEED selects the rapid seeds (seed<<44 + shard<<36 + 1, shards far apart because rapid advances its seed per case); exit 2 = inconclusive (build failure, budget hit), never a violation.",
}
json.dump(m, open(os.path.join(V, 'MANIFEST.json'), 'w'), indent=1)
print("checks:", [c["property_id"] for c in checks], "not_applicable:", len(na))
