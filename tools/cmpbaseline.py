#!/usr/bin/env python3
import json,sys
base=json.load(open('/root/.vp/BASELINE.json'))
want=set(base['stable_pass'])
res={}
for l in open(sys.argv[1]):
    try: e=json.loads(l)
    except: continue
    if e.get('Test') and e.get('Action') in ('pass','fail','skip'):
        res[e['Package']+'::'+e['Test']]=e['Action']
missing=[t for t in want if res.get(t)!='pass']
print('baseline tests',len(want),'passed now',sum(1 for t in want if res.get(t)=='pass'),'not passing',len(missing))
for t in sorted(missing)[:30]: print('  ',t,res.get(t))
