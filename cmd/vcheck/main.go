// vcheck is the driver behind every MANIFEST command:
//
//	vcheck <Cxx> [--tier quick|thorough] [--replay <file>] [--leg <name>]
//
// It rebuilds the check's test binary from /repo's current working tree (tag verif), runs
// the known-finding / regression replays, runs every leg of the property in shards, merges
// the shard evidence into /verif/evidence/<Cxx>.json and maps the outcome to the exit code:
// 0 held, 1 violation (VIOLATION line printed), 2 inconclusive (build failure, budget hit,
// worker death that is not a judged violation).
package main

import (
	"bytes"
	"context"
	"encoding/json"
	"fmt"
	"os"
	"os/exec"
	"path/filepath"
	"sort"
	"strconv"
	"strings"
	"sync"
	"time"
)

type tierCfg struct {
	Checks   int `json:"checks"`    // rapid: total cases over all shards; plain: passed as VERIF_CASES
	Shards   int `json:"shards"`    // number of OS processes
	TimeoutS int `json:"timeout_s"` // wall budget per process
	FuzzS    int `json:"fuzz_s"`    // fuzz legs: -fuzztime seconds
	Skip     bool `json:"skip"`
}

type legCfg struct {
	Name     string   `json:"name"`
	Test     string   `json:"test"`
	Kind     string   `json:"kind"` // rapid | plain | fuzz
	Quick    tierCfg  `json:"quick"`
	Thorough tierCfg  `json:"thorough"`
	Race     bool     `json:"race"`
	// DeathIsViolation: a worker that dies abnormally (not on the time budget) while a case is in
	// flight is a violation of the property (nodes must not die), the case in flight is the replay.
	DeathIsViolation bool `json:"death_is_violation"`
	Rule     string   `json:"rule"`
	Env      []string `json:"env"`
}

type checkCfg struct {
	Property      string   `json:"property"`
	Level         string   `json:"level"`
	LinkReference bool     `json:"link_reference"`
	Rule          string   `json:"rule"`
	Assumptions   []string `json:"assumptions"`
	Legs          []legCfg `json:"legs"`
}

type violation struct {
	Sig    string `json:"sig"`
	Msg    string `json:"msg"`
	Replay string `json:"replay"`
}

type legRec struct {
	Prop        string            `json:"property"`
	Leg         string            `json:"leg"`
	Evaluations int               `json:"evaluations"`
	Nontrivial  int               `json:"nontrivial"`
	Hashes      []uint64          `json:"hashes"`
	Labels      map[string]int    `json:"labels"`
	Samples     []any             `json:"samples"`
	Known       map[string]int    `json:"known"`
	KnownMsg    map[string]string `json:"known_msg"`
	Violation   *violation        `json:"violation,omitempty"`
	Exhaustive  bool              `json:"exhaustive,omitempty"`
	Notes       []string          `json:"notes,omitempty"`
}

type knownEntry struct {
	Property string `json:"property"`
	Key      string `json:"key"`
	What     string `json:"what"`
	Status   string `json:"status"`
	Commit   string `json:"commit,omitempty"`
	Replay   string `json:"replay,omitempty"`
}

var verifDir = "/verif"

// outDir receives evidence, shard files and new replay files: verifDir, except for development
// runs against a scratch worktree (VERIF_REPO), which must never overwrite the evidence of /repo
var outDir = ""


func die2(f string, a ...any) {
	fmt.Printf("INCONCLUSIVE: "+f+"\n", a...)
	os.Exit(2)
}

func goEnv() []string {
	env := os.Environ()
	env = append(env, "GOFLAGS=-mod=mod", "GOPROXY=off", "GOSUMDB=off", "GOTOOLCHAIN=local", "VERIF_DIR="+verifDir)
	return env
}

func main() {
	if d := os.Getenv("VERIF_DIR"); d != "" {
		verifDir = d
	}
	outDir = verifDir
	if o := os.Getenv("VERIF_OUT"); o != "" {
		outDir = o
	} else if alt := os.Getenv("VERIF_REPO"); alt != "" && alt != "/repo" {
		outDir = filepath.Join(os.TempDir(), fmt.Sprintf("verif-out-%x", fnv64(alt)))
	}
	args := os.Args[1:]
	if len(args) == 0 {
		fmt.Println("usage: vcheck <Cxx> [--tier quick|thorough] [--replay file] [--leg name]")
		os.Exit(2)
	}
	if args[0] == "build-all" {
		buildAll()
		return
	}
	id := args[0]
	tier := os.Getenv("VERIF_TIER")
	replay := ""
	onlyLeg := ""
	for i := 1; i < len(args); i++ {
		switch args[i] {
		case "--tier":
			i++
			tier = args[i]
		case "--replay":
			i++
			replay = args[i]
		case "--leg":
			i++
			onlyLeg = args[i]
		}
	}
	if tier != "thorough" {
		tier = "quick"
	}
	seed := int64(1)
	if s := os.Getenv("VERIF_SEED"); s != "" {
		if v, err := strconv.ParseInt(s, 10, 64); err == nil {
			seed = v
		}
	}
	if seed <= 0 {
		seed = 1 - seed // rapid treats 0 as "random": remap 0 -> 1, negatives to positives
	}
	start := time.Now()
	cfg := loadCfg(id)
	bin := build(id, cfg, false)

	if replay != "" {
		os.Exit(doReplay(id, cfg, bin, replay))
	}

	known := loadKnown(id)
	var violations []violation
	var knownLines []string
	seenSig := map[string]bool{}
	addViolation := func(v violation) {
		if seenSig[v.Sig] {
			return
		}
		seenSig[v.Sig] = true
		violations = append(violations, v)
	}

	// 1. replay tier: known findings (must still show their listed signature), fixed findings
	// and saved regressions (must pass).
	regress, _ := filepath.Glob(filepath.Join(verifDir, "replay", "regress", id+"-*.json"))
	sort.Strings(regress)
	replayed := 0
	listed := map[string]bool{}
	type rjob struct {
		path string
		k    *knownEntry
		vs   []violation
		ks   []string
	}
	var rjobs []*rjob
	for i := range known {
		k := known[i]
		if k.Replay == "" {
			continue
		}
		p := k.Replay
		if !filepath.IsAbs(p) {
			p = filepath.Join(verifDir, p)
		}
		if listed[p] {
			continue
		}
		listed[p] = true
		rjobs = append(rjobs, &rjob{path: p, k: &k})
	}
	for _, p := range regress {
		if !listed[p] {
			listed[p] = true
			rjobs = append(rjobs, &rjob{path: p})
		}
	}
	{
		// the replay tier runs in parallel (each replay is its own process)
		var rwg sync.WaitGroup
		rsem := make(chan struct{}, 8)
		for _, j := range rjobs {
			rwg.Add(1)
			go func(j *rjob) {
				defer rwg.Done()
				rsem <- struct{}{}
				defer func() { <-rsem }()
				_, j.vs, j.ks = runReplay(id, cfg, bin, j.path)
			}(j)
		}
		rwg.Wait()
	}
	for _, j := range rjobs {
		replayed++
		if j.k != nil && j.k.Status == "open" {
			found := false
			for _, kk := range j.ks {
				if kk == j.k.Key {
					found = true
				}
			}
			if found {
				knownLines = append(knownLines, fmt.Sprintf("KNOWN-FINDING: property=%s key=%s %s (replay %s still fails as listed)", id, j.k.Key, j.k.What, j.k.Replay))
			} else if len(j.vs) == 0 {
				fmt.Printf("NOTE: listed finding %s no longer reproduces from %s\n", j.k.Key, j.k.Replay)
			}
		}
		for _, v := range j.vs {
			v.Replay = j.path
			addViolation(v)
		}
	}

	// 2. search legs
	type job struct {
		leg   legCfg
		tc    tierCfg
		shard int
		bin   string
	}
	var jobs []job
	requested := map[string]int{}
	for _, leg := range cfg.Legs {
		if onlyLeg != "" && leg.Name != onlyLeg {
			continue
		}
		tc := leg.Quick
		if tier == "thorough" {
			tc = leg.Thorough
			if tc.Checks == 0 && tc.Shards == 0 && tc.FuzzS == 0 && !tc.Skip {
				tc = leg.Quick
			}
		}
		if tc.Skip || (leg.Kind == "fuzz" && tier == "quick") {
			continue
		}
		if tc.Shards <= 0 {
			tc.Shards = 1
		}
		if tc.TimeoutS <= 0 {
			tc.TimeoutS = 600
		}
		b := bin
		if leg.Race {
			b = build(id, cfg, true)
		}
		if leg.Kind == "fuzz" {
			b = buildVariant(id, cfg, false, true)
		}
		if leg.Kind == "rapid" {
			requested[leg.Name] = (tc.Checks / tc.Shards) * tc.Shards
		}
		for s := 0; s < tc.Shards; s++ {
			jobs = append(jobs, job{leg, tc, s, b})
		}
	}
	shardDir := filepath.Join(outDir, "evidence", ".shards")
	os.MkdirAll(shardDir, 0o755)
	old, _ := filepath.Glob(filepath.Join(shardDir, id+"-*.json"))
	for _, f := range old {
		os.Remove(f)
	}
	os.MkdirAll(filepath.Join(outDir, "replay"), 0o755)

	par := 16
	if p := os.Getenv("VERIF_PAR"); p != "" {
		if v, err := strconv.Atoi(p); err == nil && v > 0 {
			par = v
		}
	}
	sem := make(chan struct{}, par)
	var wg sync.WaitGroup
	var mu sync.Mutex
	inconclusive := []string{}
	for _, j := range jobs {
		wg.Add(1)
		go func(j job) {
			defer wg.Done()
			sem <- struct{}{}
			defer func() { <-sem }()
			evOut := filepath.Join(shardDir, fmt.Sprintf("%s-%s-%d.json", id, j.leg.Name, j.shard))
			a := []string{"-test.run", "^" + j.leg.Test + "$", "-test.timeout", fmt.Sprintf("%ds", j.tc.TimeoutS+30), "-test.count=1"}
			switch j.leg.Kind {
			case "rapid":
				a = append(a, "-rapid.checks", strconv.Itoa(j.tc.Checks/j.tc.Shards), "-rapid.seed", strconv.FormatUint(rapidSeed(seed, j.shard), 10), "-rapid.nofailfile", "-rapid.shrinktime", "20s")
			case "fuzz":
				a = []string{"-test.run", "^$", "-test.fuzz", "^" + j.leg.Test + "$", "-test.fuzztime", fmt.Sprintf("%ds", j.tc.FuzzS), "-test.fuzzcachedir", filepath.Join(verifDir, ".build", "fuzzcache", id), "-test.timeout", fmt.Sprintf("%ds", j.tc.TimeoutS+30)}
			}
			ctx, cancel := context.WithTimeout(context.Background(), time.Duration(j.tc.TimeoutS)*time.Second)
			defer cancel()
			cmd := exec.CommandContext(ctx, j.bin, a...)
			cmd.Dir = filepath.Join(verifDir, "checks", strings.ToLower(id))
			cmd.Env = append(goEnv(), "VERIF_EV_OUT="+evOut, "VERIF_TIER="+tier, "VERIF_SEED="+strconv.FormatInt(seed, 10),
				fmt.Sprintf("VERIF_SHARD=%d", j.shard), fmt.Sprintf("VERIF_SHARDS=%d", j.tc.Shards), fmt.Sprintf("VERIF_CASES=%d", j.tc.Checks),
				"VERIF_REPLAY_OUT="+filepath.Join(outDir, "replay"), "VERIF_REPLAY=")
			cmd.Env = append(cmd.Env, j.leg.Env...)
			// every worker gets its own temporary directory, removed when it has ended: the code
			// under test leaves files behind (an empty priv_validator_* per generated signer, WAL
			// directories of abandoned nodes)
			if td, terr := os.MkdirTemp("", fmt.Sprintf("vcheck-%s-%s-%d-", id, j.leg.Name, j.shard)); terr == nil {
				cmd.Env = append(cmd.Env, "TMPDIR="+td)
				defer os.RemoveAll(td)
			}
			if j.leg.DeathIsViolation {
				cmd.Env = append(cmd.Env, "VERIF_TRACK_CASE=1")
				os.Remove(evOut + ".cur")
			}
			var out bytes.Buffer
			cmd.Stdout = &out
			cmd.Stderr = &out
			cmd.WaitDelay = 5 * time.Second
			err := cmd.Run()
			mu.Lock()
			defer mu.Unlock()
			if err != nil && j.leg.DeathIsViolation && ctx.Err() == nil && !strings.Contains(out.String(), "VIOLATION-FOUND ") && !strings.Contains(out.String(), "test timed out") && !strings.Contains(out.String(), "--- FAIL") {
				if cur, rerr := os.ReadFile(evOut + ".cur"); rerr == nil {
					dst := filepath.Join(outDir, "replay", fmt.Sprintf("%s-%s-died-%x.json", id, j.leg.Name, fnv64(string(cur))))
					os.WriteFile(dst, cur, 0o644)
					logp := filepath.Join(shardDir, fmt.Sprintf("%s-%s-%d.log", id, j.leg.Name, j.shard))
					os.WriteFile(logp, out.Bytes(), 0o644)
					why := "process-dies"
					for _, l := range strings.Split(out.String(), "\n") {
						if strings.HasPrefix(l, "fatal error:") || strings.HasPrefix(l, "panic:") {
							why = "process-dies:" + strings.ReplaceAll(strings.TrimSpace(l), " ", "-")
							break
						}
					}
					addViolation(violation{Sig: why, Replay: dst})
					return
				}
			}
			os.Remove(evOut + ".cur")
			found := false
			for _, line := range strings.Split(out.String(), "\n") {
				if strings.HasPrefix(line, "VIOLATION-FOUND ") {
					found = true
					v := violation{}
					for _, f := range strings.Fields(line) {
						if strings.HasPrefix(f, "sig=") {
							v.Sig = f[4:]
						}
						if strings.HasPrefix(f, "replay=") {
							v.Replay = f[7:]
						}
					}
					addViolation(v)
				}
			}
			if err != nil && !found {
				logp := filepath.Join(shardDir, fmt.Sprintf("%s-%s-%d.log", id, j.leg.Name, j.shard))
				os.WriteFile(logp, out.Bytes(), 0o644)
				why := "worker failed without a judged violation"
				if ctx.Err() != nil || strings.Contains(out.String(), "test timed out") {
					why = "wall-clock budget hit"
				}
				inconclusive = append(inconclusive, fmt.Sprintf("leg %s shard %d: %s (%v); log %s; tail: %s", j.leg.Name, j.shard, why, err, logp, tail(out.String(), 1200)))
			}
		}(j)
	}
	wg.Wait()

	// 3. merge evidence
	merged := map[string]*legRec{}
	hashSets := map[string]map[uint64]struct{}{}
	files, _ := filepath.Glob(filepath.Join(shardDir, id+"-*.json"))
	sort.Strings(files)
	for _, f := range files {
		b, err := os.ReadFile(f)
		if err != nil {
			continue
		}
		var rs []*legRec
		if json.Unmarshal(b, &rs) != nil {
			continue
		}
		for _, r := range rs {
			m := merged[r.Leg]
			if m == nil {
				m = &legRec{Prop: r.Prop, Leg: r.Leg, Labels: map[string]int{}, Known: map[string]int{}, KnownMsg: map[string]string{}, Exhaustive: true}
				merged[r.Leg] = m
				hashSets[r.Leg] = map[uint64]struct{}{}
			}
			m.Evaluations += r.Evaluations
			m.Nontrivial += r.Nontrivial
			for _, hv := range r.Hashes {
				hashSets[r.Leg][hv] = struct{}{}
			}
			for k, v := range r.Labels {
				m.Labels[k] += v
			}
			for k, v := range r.Known {
				m.Known[k] += v
				if _, ok := m.KnownMsg[k]; !ok {
					m.KnownMsg[k] = r.KnownMsg[k]
				}
			}
			if len(m.Samples) < 4 {
				for _, s := range r.Samples {
					if len(m.Samples) < 4 {
						m.Samples = append(m.Samples, s)
					}
				}
			}
			m.Exhaustive = m.Exhaustive && r.Exhaustive
			m.Notes = append(m.Notes, r.Notes...)
		}
		os.Remove(f)
	}
	totalEval, totalDistinct := 0, 0
	var samples []any
	legsOut := []map[string]any{}
	allExh := len(merged) > 0
	knownSeen := map[string]int{}
	knownMsg := map[string]string{}
	legNames := make([]string, 0, len(merged))
	for n := range merged {
		legNames = append(legNames, n)
	}
	sort.Strings(legNames)
	rules := []string{}
	if cfg.Rule != "" {
		rules = append(rules, cfg.Rule)
	}
	for _, leg := range cfg.Legs {
		if leg.Rule != "" {
			rules = append(rules, "["+leg.Name+"] "+leg.Rule)
		}
	}
	for _, n := range legNames {
		m := merged[n]
		d := len(hashSets[n])
		totalEval += m.Evaluations
		totalDistinct += d
		for i, s := range m.Samples {
			if i < 2 {
				samples = append(samples, map[string]any{"leg": n, "case": s})
			}
		}
		allExh = allExh && m.Exhaustive
		for k, v := range m.Known {
			knownSeen[k] += v
			if _, ok := knownMsg[k]; !ok {
				knownMsg[k] = m.KnownMsg[k]
			}
		}
		notes := dedup(m.Notes)
		lo := map[string]any{"leg": n, "evaluations": m.Evaluations, "nontrivial": m.Nontrivial, "distinct_nontrivial": d, "labels": m.Labels, "exhaustive": m.Exhaustive}
		if len(notes) > 0 {
			lo["notes"] = notes
		}
		if rq, ok := requested[n]; ok {
			lo["requested"] = rq
			if m.Evaluations < rq && len(violations) == 0 {
				inconclusive = append(inconclusive, fmt.Sprintf("leg %s ran %d of %d requested cases", n, m.Evaluations, rq))
			}
		}
		legsOut = append(legsOut, lo)
	}
	for _, leg := range cfg.Legs {
		if _, ok := merged[leg.Name]; !ok && onlyLeg == "" {
			for _, j := range jobs {
				if j.leg.Name == leg.Name {
					inconclusive = append(inconclusive, "leg "+leg.Name+" wrote no evidence")
					break
				}
			}
		}
	}

	// known findings observed by the search legs
	for _, k := range known {
		if k.Status != "open" {
			continue
		}
		if n := knownSeen[k.Key]; n > 0 {
			already := false
			for _, l := range knownLines {
				if strings.Contains(l, "key="+k.Key+" ") {
					already = true
				}
			}
			if !already {
				knownLines = append(knownLines, fmt.Sprintf("KNOWN-FINDING: property=%s key=%s %s (hit by %d generated cases, e.g. %s)", id, k.Key, k.What, n, oneLine(knownMsg[k.Key], 200)))
			}
		}
	}
	sort.Strings(knownLines)
	for _, l := range knownLines {
		fmt.Println(l)
	}

	level := cfg.Level
	if level == "" {
		level = "exploration"
	}
	if len(samples) == 0 {
		samples = append(samples, "no case was recorded")
	}
	ev := map[string]any{
		"property_id": id,
		"tier":        tier,
		"seed":        seed,
		"level":       level,
		"coverage": map[string]any{
			"evaluations":         totalEval,
			"distinct_nontrivial": totalDistinct,
			"rule":                strings.Join(rules, " || "),
			"samples":             samples,
			"exhaustive":          allExh,
			"legs":                legsOut,
			"replayed_regressions": replayed,
			"known_findings_hit":  knownSeen,
		},
		"assumptions": cfg.Assumptions,
		"wall_s":      time.Since(start).Seconds(),
		"violations":  len(violations),
	}
	os.MkdirAll(filepath.Join(outDir, "evidence"), 0o755)
	b, _ := json.MarshalIndent(ev, "", " ")
	os.WriteFile(filepath.Join(outDir, "evidence", id+".json"), append(b, '\n'), 0o644)

	fmt.Printf("%s tier=%s seed=%d evaluations=%d distinct_nontrivial=%d legs=%d wall=%.1fs\n", id, tier, seed, totalEval, totalDistinct, len(merged), time.Since(start).Seconds())
	if len(violations) > 0 {
		for _, v := range violations {
			fmt.Printf("VIOLATION property=%s replay=%s sig=%s\n", id, v.Replay, v.Sig)
		}
		os.Exit(1)
	}
	if len(inconclusive) > 0 {
		for _, s := range inconclusive {
			fmt.Println("INCONCLUSIVE:", s)
		}
		os.Exit(2)
	}
	os.Exit(0)
}

// rapidSeed spaces the shards' seed ranges far apart: rapid advances its seed by the iteration
// number per case (seed, seed+1, seed+3, seed+6, ...), so adjacent start values would make
// shards re-run each other's cases. n(n+1)/2 stays below 2^36 for 370k cases per shard.
func rapidSeed(seed int64, shard int) uint64 {
	return uint64(seed)<<44 + uint64(shard)<<36 + 1
}

func fnv64(s string) uint64 {
	var h uint64 = 14695981039346656037
	for i := 0; i < len(s); i++ {
		h ^= uint64(s[i])
		h *= 1099511628211
	}
	return h
}

func dedup(in []string) []string {
	seen := map[string]bool{}
	var out []string
	for _, s := range in {
		if !seen[s] {
			seen[s] = true
			out = append(out, s)
		}
	}
	return out
}

func tail(s string, n int) string {
	if len(s) > n {
		s = s[len(s)-n:]
	}
	return strings.ReplaceAll(s, "\n", " | ")
}

func oneLine(s string, n int) string {
	s = strings.ReplaceAll(s, "\n", " | ")
	if len(s) > n {
		s = s[:n] + "…"
	}
	return s
}

func loadCfg(id string) checkCfg {
	p := filepath.Join(verifDir, "checks", strings.ToLower(id), "legs.json")
	b, err := os.ReadFile(p)
	if err != nil {
		die2("no such check %s: %v", id, err)
	}
	var c checkCfg
	if err := json.Unmarshal(b, &c); err != nil {
		die2("bad %s: %v", p, err)
	}
	return c
}

func loadKnown(id string) []knownEntry {
	files := []string{filepath.Join(verifDir, "known_findings.json")}
	more, _ := filepath.Glob(filepath.Join(verifDir, "known_findings.d", "*.json"))
	sort.Strings(more)
	files = append(files, more...)
	var out []knownEntry
	for _, fn := range files {
		b, err := os.ReadFile(fn)
		if err != nil {
			continue
		}
		var f struct {
			Findings []knownEntry `json:"findings"`
		}
		if json.Unmarshal(b, &f) != nil {
			continue
		}
		for _, e := range f.Findings {
			if e.Property == id {
				out = append(out, e)
			}
		}
	}
	return out
}

func build(id string, cfg checkCfg, race bool) string { return buildVariant(id, cfg, race, false) }

// buildVariant: fuzz=true builds a second binary with coverage instrumentation (go test -c -fuzz)
// for the native fuzz legs; without it the fuzzing engine mutates blindly.
func buildVariant(id string, cfg checkCfg, race, fuzz bool) string {
	os.MkdirAll(filepath.Join(verifDir, ".build"), 0o755)
	name := strings.ToLower(id) + ".test"
	if race {
		name = strings.ToLower(id) + ".race.test"
	}
	if fuzz {
		name = strings.ToLower(id) + ".fuzz.test"
	}
	out := filepath.Join(verifDir, ".build", name)
	a := []string{"test", "-c", "-tags", "verif", "-vet=off", "-o", out}
	if alt := os.Getenv("VERIF_REPO"); alt != "" && alt != "/repo" {
		// development aid: build against a scratch worktree instead of /repo
		mod, _ := os.ReadFile(filepath.Join(verifDir, "go.mod"))
		sum, _ := os.ReadFile(filepath.Join(verifDir, "go.sum"))
		tag := fmt.Sprintf("%x", fnv64(alt))
		mf := filepath.Join(verifDir, ".build", "go."+tag+".mod")
		os.WriteFile(mf, bytes.ReplaceAll(mod, []byte("=> /repo"), []byte("=> "+alt)), 0o644)
		os.WriteFile(filepath.Join(verifDir, ".build", "go."+tag+".sum"), sum, 0o644)
		a = append(a, "-modfile="+mf)
		out = filepath.Join(verifDir, ".build", tag+"-"+name)
		a[6] = out
	}
	if race {
		// -race switches on checkptr, which aborts inside the old x/crypto sha3 (unaligned xor) that
		// the repository pins: a tooling artefact, not a data race
		a = append(a, "-race", "-gcflags=all=-d=checkptr=0")
	}
	if fuzz {
		a = append(a, "-fuzz=^Fuzz")
	}
	if cfg.LinkReference {
		a = append(a, `-ldflags=-extldflags "-Wl,--allow-multiple-definition"`)
	}
	a = append(a, "./checks/"+strings.ToLower(id))
	cmd := exec.Command("go", a...)
	cmd.Dir = verifDir
	cmd.Env = goEnv()
	var buf bytes.Buffer
	cmd.Stdout = &buf
	cmd.Stderr = &buf
	if err := cmd.Run(); err != nil {
		die2("build of check %s against /repo's working tree failed: %v\n%s", id, err, buf.String())
	}
	return out
}

func buildAll() {
	ents, _ := os.ReadDir(filepath.Join(verifDir, "checks"))
	var wg sync.WaitGroup
	sem := make(chan struct{}, 4)
	for _, e := range ents {
		if !e.IsDir() {
			continue
		}
		if _, err := os.Stat(filepath.Join(verifDir, "checks", e.Name(), "legs.json")); err != nil {
			continue
		}
		wg.Add(1)
		go func(n string) {
			defer wg.Done()
			sem <- struct{}{}
			defer func() { <-sem }()
			id := strings.ToUpper(n)
			cfg := loadCfg(id)
			build(id, cfg, false)
			fmt.Println("built", id)
		}(e.Name())
	}
	wg.Wait()
}

func legByName(cfg checkCfg, name string) *legCfg {
	for i := range cfg.Legs {
		if cfg.Legs[i].Name == name {
			return &cfg.Legs[i]
		}
	}
	return nil
}

// runReplay executes one replay file; returns output, violations and known signatures seen.
func runReplay(id string, cfg checkCfg, bin, path string) (string, []violation, []string) {
	b, err := os.ReadFile(path)
	if err != nil {
		die2("replay file %s: %v", path, err)
	}
	var rf struct {
		Property string `json:"property"`
		Leg      string `json:"leg"`
	}
	if err := json.Unmarshal(b, &rf); err != nil {
		die2("replay file %s: %v", path, err)
	}
	leg := legByName(cfg, rf.Leg)
	if leg == nil || rf.Property != id {
		die2("replay file %s is for %s/%s", path, rf.Property, rf.Leg)
	}
	ctx, cancel := context.WithTimeout(context.Background(), 300*time.Second)
	defer cancel()
	cmd := exec.CommandContext(ctx, bin, "-test.run", "^"+leg.Test+"$", "-test.count=1", "-test.timeout", "280s")
	cmd.Dir = filepath.Join(verifDir, "checks", strings.ToLower(id))
	cmd.Env = append(goEnv(), "VERIF_REPLAY="+path, "VERIF_EV_OUT=", "VERIF_TIER=quick")
	if td, terr := os.MkdirTemp("", "vcheck-"+id+"-replay-"); terr == nil {
		cmd.Env = append(cmd.Env, "TMPDIR="+td)
		defer os.RemoveAll(td)
	}
	cmd.Env = append(cmd.Env, leg.Env...)
	var out bytes.Buffer
	cmd.Stdout = &out
	cmd.Stderr = &out
	cmd.WaitDelay = 5 * time.Second
	runErr := cmd.Run()
	var vs []violation
	var ks []string
	for _, line := range strings.Split(out.String(), "\n") {
		if strings.HasPrefix(line, "REPLAY-VIOLATION ") {
			v := violation{Replay: path}
			rest := strings.TrimPrefix(line, "REPLAY-VIOLATION ")
			if strings.HasPrefix(rest, "sig=") {
				f := strings.SplitN(rest[4:], " ", 2)
				v.Sig = f[0]
				if len(f) > 1 {
					v.Msg = f[1]
				}
			}
			vs = append(vs, v)
		}
		if strings.HasPrefix(line, "REPLAY-KNOWN ") {
			rest := strings.TrimPrefix(line, "REPLAY-KNOWN sig=")
			ks = append(ks, strings.SplitN(rest, " ", 2)[0])
		}
	}
	if runErr != nil && len(vs) == 0 {
		if leg.DeathIsViolation && ctx.Err() == nil && !strings.Contains(out.String(), "--- FAIL") {
			vs = append(vs, violation{Sig: "process-dies", Msg: "the process died while replaying the case: " + tail(out.String(), 300), Replay: path})
		} else {
			fmt.Printf("NOTE: replay of %s ended abnormally without a judged violation: %v; tail: %s\n", path, runErr, tail(out.String(), 600))
		}
	}
	return out.String(), vs, ks
}

func doReplay(id string, cfg checkCfg, bin, path string) int {
	if ap, err := filepath.Abs(path); err == nil {
		path = ap
	}
	out, vs, ks := runReplay(id, cfg, bin, path)
	for _, k := range ks {
		fmt.Printf("KNOWN-FINDING: property=%s key=%s (replay %s)\n", id, k, path)
	}
	if len(vs) > 0 {
		for _, v := range vs {
			fmt.Printf("%s\n", v.Msg)
			fmt.Printf("VIOLATION property=%s replay=%s sig=%s\n", id, path, v.Sig)
		}
		return 1
	}
	if os.Getenv("VERIF_VERBOSE") != "" {
		fmt.Println(out)
	}
	fmt.Printf("%s replay %s: no violation\n", id, path)
	return 0
}
