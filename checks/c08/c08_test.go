// C08: no peer input can crash or wedge an honest node.
package c08

import (
	"bytes"
	"fmt"
	"math"
	"runtime/debug"
	"testing"

	"pgregory.net/rapid"

	"github.com/dappledger/AnnChain/gemmill/consensus/pbft"
	"github.com/dappledger/AnnChain/gemmill/go-wire"
	gcmn "github.com/dappledger/AnnChain/gemmill/modules/go-common"
	merkle "github.com/dappledger/AnnChain/gemmill/modules/go-merkle"
	"github.com/dappledger/AnnChain/gemmill/p2p"
	"github.com/dappledger/AnnChain/gemmill/types"

	"verif/internal/h"
	"verif/internal/sim"
)

func TestMain(m *testing.M) { h.Main(m) }

// Msg is one generated peer input. Kind "raw" sends Raw as it is; every other kind builds the
// named message from the victim's current round state and the selectors in F, then encodes it.
type Msg struct {
	Kind string `json:"kind"`
	Ch   int    `json:"ch"` // 0: the channel the type belongs to; 1..4: force 0x20..0x23; 5: unknown channel
	F    []int  `json:"f"`  // field selectors
	Raw  h.Hex  `json:"raw,omitempty"`
	Pre  int    `json:"pre"` // fair steps run before this message (moves the receiver to another step)
}

type Case struct {
	N      int   `json:"n"`
	Byz    []int `json:"byz"` // validators whose keys the attacker holds: never the victim, < 1/3 of the (equal) power
	Victim int   `json:"victim"`
	Warm   int   `json:"warm"` // fair steps before the first message
	Msgs   []Msg `json:"msgs"`
}

var kinds = []string{"vote", "vote", "vote", "proposal", "proposal", "part", "part", "newroundstep", "syncstep", "commitstep", "commitstep", "proposalpol", "hasvote", "maj23", "votesetbits", "raw", "nilfields", "repeat", "repeat", "conflictmaj", "conflictmaj", "lateproposal", "roundflood"}

func genCase(t *rapid.T) Case {
	c := Case{N: rapid.IntRange(1, 7).Draw(t, "n"), Warm: rapid.IntRange(0, 90).Draw(t, "warm")}
	c.Victim = rapid.IntRange(0, c.N-1).Draw(t, "victim")
	// the attacker is a peer that may hold the keys of Byzantine validators with < 1/3 of the power
	nb := (c.N - 1) / 3
	if nb > 0 {
		nb = rapid.IntRange(0, nb).Draw(t, "nbyz")
	}
	for i := 0; len(c.Byz) < nb && i < c.N; i++ {
		cand := (c.Victim + 1 + i) % c.N
		if cand != c.Victim {
			c.Byz = append(c.Byz, cand)
		}
	}
	c.Msgs = rapid.SliceOfN(rapid.Custom(func(t *rapid.T) Msg {
		m := Msg{Kind: rapid.SampledFrom(kinds).Draw(t, "kind"), Pre: rapid.SampledFrom([]int{0, 0, 0, 1, 3, 9}).Draw(t, "pre")}
		m.Ch = rapid.SampledFrom([]int{0, 0, 0, 0, 0, 0, 1, 2, 3, 4, 5}).Draw(t, "ch")
		m.F = rapid.SliceOfN(rapid.IntRange(0, 23), 8, 8).Draw(t, "f")
		if m.Kind == "raw" {
			m.Raw = rapid.SliceOfN(rapid.Byte(), 0, 64).Draw(t, "raw")
		}
		return m
	}), 1, 8).Draw(t, "msgs")
	if rapid.IntRange(0, 3).Draw(t, "syncFirst") > 0 {
		// most attackers first tell the victim, truthfully, where "they" are: the peer-state
		// messages that follow are only applied when heights/rounds match
		c.Msgs = append([]Msg{{Kind: "syncstep", F: []int{0, 0, 0, 0, 0, 0, 0, 0}}}, c.Msgs...)
	}
	return c
}

// pick maps a selector to an adversarial or plausible integer around base (size = relevant bound).
func pick(sel int, base int64, size int64) int64 {
	switch sel % 24 {
	case 0, 1, 2, 3, 4, 5, 6, 7:
		return base
	case 8:
		return 0
	case 9:
		return -1
	case 10:
		return base + 1
	case 11:
		return base - 1
	case 12:
		return size
	case 13:
		return size + 1
	case 14:
		return math.MaxInt64
	case 15:
		return math.MinInt64
	case 16:
		return 1 << 31
	case 17:
		return -(1 << 31)
	case 18:
		return size - 1
	case 19:
		return base + 2
	case 20:
		return 1 << 40
	case 21:
		return 63
	case 22:
		return 64
	}
	return 65
}

func bitArray(sel int, n int) *gcmn.BitArray {
	if n < 0 || n > 4096 {
		n = 4096 // the size is derived from peer-chosen fields; keep the builder itself total
	}
	switch sel % 12 {
	case 0, 1, 2:
		return gcmn.NewBitArray(n)
	case 3:
		return nil
	case 4: // Bits larger than Elems can hold
		return &gcmn.BitArray{Bits: n + 200, Elems: make([]uint64, 1)}
	case 5: // Bits smaller than Elems
		return &gcmn.BitArray{Bits: 1, Elems: make([]uint64, 5)}
	case 6:
		return &gcmn.BitArray{Bits: -1, Elems: make([]uint64, 1)}
	case 7:
		return &gcmn.BitArray{Bits: math.MaxInt32, Elems: nil}
	case 8:
		b := gcmn.NewBitArray(n + 1)
		for i := 0; i < n+1; i++ {
			b.SetIndex(i, true)
		}
		return b
	case 9:
		if n > 0 {
			return &gcmn.BitArray{Bits: n, Elems: make([]uint64, (n+63)/64-1)} // right size, one word short
		}
		return &gcmn.BitArray{Bits: 0, Elems: []uint64{^uint64(0)}}
	case 10:
		return &gcmn.BitArray{Bits: n, Elems: nil} // right size, no words
	}
	b := gcmn.NewBitArray(n)
	b.SetIndex(0, true)
	return b
}

type built struct {
	ch      byte
	bz      []byte
	desc    string
	invalid bool // invalid by construction: must leave the consensus state untouched
	stateCh bool // belongs to the state/vote-bits channels: only peer bookkeeping may change
}

func chanOf(kind string) byte {
	switch kind {
	case "vote":
		return pbft.VoteChannel
	case "proposal", "part", "proposalpol":
		return pbft.DataChannel
	case "votesetbits":
		return pbft.VoteSetBitsChannel
	}
	return pbft.StateChannel
}

func enc(m pbft.ConsensusMessage) []byte {
	return wire.BinaryBytes(struct{ pbft.ConsensusMessage }{m})
}

func build(m Msg, net *sim.Net, v *sim.Node, byz []int, known []types.BlockID, parts map[string]*types.PartSet) built {
	rs := v.RS()
	isByz := func(id int) bool {
		for _, b := range byz {
			if b == id {
				return true
			}
		}
		return false
	}
	n := int64(rs.Validators.Size())
	f := func(i int) int { return m.F[i%len(m.F)] }
	b := built{ch: chanOf(m.Kind)}
	switch m.Ch {
	case 1, 2, 3, 4:
		b.ch = byte(0x20 + m.Ch - 1)
	case 5:
		b.ch = 0x7f
	}
	var bid types.BlockID
	if len(known) > 0 && f(7)%3 != 0 {
		bid = known[f(7)%len(known)]
	} else if f(7)%2 == 1 {
		bid = types.BlockID{Hash: []byte("no-such-block-hash-0"), PartsHeader: types.PartSetHeader{Total: int(pick(f(6), 1, 1)), Hash: []byte("x")}}
	}
	switch m.Kind {
	case "raw":
		b.bz = m.Raw
		b.desc = fmt.Sprintf("raw %x", []byte(m.Raw))
		b.invalid = false
	case "vote":
		// the attacker signs with a Byzantine key it holds; with any other key the signature is a
		// forgery (a signature by a key that is not the named validator's)
		signer := f(0) % len(net.Nodes)
		forged := false
		if !isByz(signer) {
			forged = true
		}
		typ := types.VoteTypePrevote
		if f(1)%2 == 1 {
			typ = types.VoteTypePrecommit
		}
		height := pick(f(2), rs.Height, rs.Height)
		round := pick(f(3), rs.Round, rs.Round+1)
		vote := sim.SignVote(signer, rs.Validators, height, round, typ, bid)
		if forged {
			vote.Signature = sim.Key(1000 + signer).Sign(types.SignBytes(sim.ChainID, vote))
			b.invalid = true
		}
		idx := pick(f(4), int64(vote.ValidatorIndex), n)
		if idx != int64(vote.ValidatorIndex) {
			vote.ValidatorIndex = int(idx)
			b.invalid = true
		}
		switch f(5) % 8 {
		case 1: // signature by a key outside the validator set
			vote.Signature = sim.Key(2000 + signer).Sign(types.SignBytes(sim.ChainID, vote))
			b.invalid = true
		case 2:
			vote.ValidatorAddress = nil
			b.invalid = true
		case 3:
			vote.Type = byte(pick(f(6), 3, 255))
			if vote.Type != typ {
				b.invalid = true // unknown type, or the other type with a signature made for this one
			}
		case 4:
			vote.Signature = nil
			b.invalid = true
		case 5:
			vote.ValidatorAddress = []byte("not-a-validator-addr")
			b.invalid = true
		}
		if height != rs.Height && height != rs.Height-1 {
			b.invalid = true
		}
		if round < 0 {
			b.invalid = true
		}
		b.bz = enc(&pbft.VoteMessage{Vote: vote})
		b.desc = fmt.Sprintf("vote{signer %d idx %d h%d r%d t%d block %x} invalid=%v", signer, vote.ValidatorIndex, height, round, vote.Type, bid.Hash, b.invalid)
	case "proposal":
		prop := rs.Validators.Proposer()
		pid := 0
		for _, nn := range net.Nodes {
			if bytes.Equal(nn.Addr, prop.Address) {
				pid = nn.ID
			}
		}
		height := pick(f(0), rs.Height, rs.Height)
		round := pick(f(1), rs.Round, rs.Round+1)
		psh := bid.PartsHeader
		psh.Total = int(pick(f(2), int64(psh.Total), int64(psh.Total)))
		p := sim.SignProposal(pid, height, round, psh, pick(f(3), -1, round), bid)
		if !isByz(pid) {
			// the expected proposer is honest: the attacker can only forge
			p.Signature = sim.Key(1000 + pid).Sign(types.SignBytes(sim.ChainID, p))
			b.invalid = true
		}
		if height != rs.Height || round != rs.Round {
			b.invalid = true
		}
		switch f(4) % 6 {
		case 1:
			p.Signature = nil
			b.invalid = true
		case 2:
			p.Signature = sim.Key(2000 + pid).Sign(types.SignBytes(sim.ChainID, p))
			b.invalid = true
		}
		if p.POLRound != -1 && (p.POLRound < 0 || p.POLRound >= round) {
			b.invalid = true
		}
		b.bz = enc(&pbft.ProposalMessage{Proposal: p})
		b.desc = fmt.Sprintf("proposal{h%d r%d pol%d parts %d:%x} invalid=%v", height, round, p.POLRound, psh.Total, psh.Hash, b.invalid)
	case "part":
		var part *types.Part
		if ps := parts[bid.Key()]; ps != nil && ps.Total() > 0 {
			g := ps.GetPart(f(0) % ps.Total())
			part = &types.Part{Index: g.Index, Bytes: append([]byte{}, g.Bytes...), Proof: merkle.SimpleProof{Aunts: g.Proof.Aunts}}
		} else {
			part = &types.Part{Index: 0, Bytes: []byte("some bytes")}
			b.invalid = true
		}
		idx := pick(f(1), int64(part.Index), int64(bid.PartsHeader.Total))
		if idx != int64(part.Index) {
			part.Index = int(idx)
			b.invalid = true
		}
		if f(2)%5 == 1 && len(part.Bytes) > 0 {
			part.Bytes[0] ^= 1
			b.invalid = true
		}
		height := pick(f(3), rs.Height, rs.Height)
		round := pick(f(4), rs.Round, rs.Round+1)
		if height != rs.Height {
			b.invalid = true
		}
		b.bz = enc(&pbft.BlockPartMessage{Height: height, Round: round, Part: part})
		b.desc = fmt.Sprintf("part{h%d r%d index %d of %x} invalid=%v", height, round, part.Index, bid.PartsHeader.Hash, b.invalid)
	case "syncstep":
		b.stateCh = true
		b.ch = pbft.StateChannel
		msg := &pbft.NewRoundStepMessage{Height: rs.Height, Round: rs.Round, Step: rs.Step, SecondsSinceStartTime: 1, LastCommitRound: 0}
		b.bz = enc(msg)
		b.desc = fmt.Sprintf("syncstep{h%d r%d s%d}", msg.Height, msg.Round, msg.Step)
	case "newroundstep":
		b.stateCh = true
		msg := &pbft.NewRoundStepMessage{Height: pick(f(0), rs.Height, rs.Height), Round: pick(f(1), rs.Round, rs.Round+1), Step: pbft.RoundStepType(pick(f(2), int64(rs.Step), 9)),
			SecondsSinceStartTime: int(pick(f(3), 1, 1)), LastCommitRound: pick(f(4), 0, rs.Round)}
		b.bz = enc(msg)
		b.desc = fmt.Sprintf("newroundstep{h%d r%d s%d lcr%d}", msg.Height, msg.Round, msg.Step, msg.LastCommitRound)
	case "commitstep":
		b.stateCh = true
		psh := bid.PartsHeader
		if rs.ProposalBlockParts != nil && f(5)%2 == 0 {
			psh = rs.ProposalBlockParts.Header()
		}
		msg := &pbft.CommitStepMessage{Height: pick(f(0), rs.Height, rs.Height), BlockPartsHeader: psh, BlockParts: bitArray(f(1), psh.Total)}
		b.bz = enc(msg)
		b.desc = fmt.Sprintf("commitstep{h%d parts %d:%x bits %v}", msg.Height, psh.Total, psh.Hash, msg.BlockParts)
	case "proposalpol":
		b.stateCh = true
		msg := &pbft.ProposalPOLMessage{Height: pick(f(0), rs.Height, rs.Height), ProposalPOLRound: pick(f(1), rs.Round, rs.Round+1), ProposalPOL: bitArray(f(2), int(n))}
		b.bz = enc(msg)
		b.desc = fmt.Sprintf("proposalpol{h%d r%d bits %v}", msg.Height, msg.ProposalPOLRound, msg.ProposalPOL)
	case "hasvote":
		b.stateCh = true
		msg := &pbft.HasVoteMessage{Height: pick(f(0), rs.Height, rs.Height), Round: pick(f(1), rs.Round, rs.Round+1), Type: byte(pick(f(2), 1, 255)), Index: int(pick(f(3), 0, n))}
		b.bz = enc(msg)
		b.desc = fmt.Sprintf("hasvote{h%d r%d t%d idx %d}", msg.Height, msg.Round, msg.Type, msg.Index)
	case "maj23":
		b.stateCh = true
		msg := &pbft.VoteSetMaj23Message{Height: pick(f(0), rs.Height, rs.Height), Round: pick(f(1), rs.Round, rs.Round+1), Type: byte(pick(f(2), 1, 255)), BlockID: bid}
		b.bz = enc(msg)
		b.desc = fmt.Sprintf("maj23{h%d r%d t%d}", msg.Height, msg.Round, msg.Type)
	case "votesetbits":
		b.stateCh = true
		msg := &pbft.VoteSetBitsMessage{Height: pick(f(0), rs.Height, rs.Height), Round: pick(f(1), rs.Round, rs.Round+1), Type: byte(pick(f(2), 1, 255)), BlockID: bid, Votes: bitArray(f(3), int(n))}
		b.bz = enc(msg)
		b.desc = fmt.Sprintf("votesetbits{h%d r%d t%d bits %v}", msg.Height, msg.Round, msg.Type, msg.Votes)
	case "nilfields":
		b.invalid = true
		switch f(0) % 4 {
		case 0:
			b.ch = pbft.VoteChannel
			b.bz = enc(&pbft.VoteMessage{})
		case 1:
			b.ch = pbft.DataChannel
			b.bz = enc(&pbft.ProposalMessage{})
		case 2:
			b.ch = pbft.DataChannel
			b.bz = enc(&pbft.BlockPartMessage{Height: rs.Height, Round: rs.Round})
		default:
			b.ch = pbft.DataChannel
			b.bz = enc(&pbft.BlockPartMessage{Height: rs.Height, Round: rs.Round, Part: &types.Part{Index: 0}})
		}
		b.desc = fmt.Sprintf("nilfields variant %d", f(0)%4)
	}
	return b
}

func runCase(c Case, x *h.Ctx) {
	dir, doneDir := sim.TempDir("c08-")
	defer doneDir()
	ps := make([]int64, c.N)
	for i := range ps {
		ps[i] = 1
	}
	byzMask := make([]bool, c.N)
	for _, i := range c.Byz {
		byzMask[i] = true
	}
	net := sim.New(sim.Config{Powers: ps, Byz: byzMask, Dir: dir, Reactor: true})
	defer net.Close()
	d := sim.NewDriver(net)
	v := net.Nodes[c.Victim%c.N]

	// the adversary knows every block that is proposed
	var known []types.BlockID
	parts := map[string]*types.PartSet{}
	prevEmit := net.OnEmit
	net.OnEmit = func(n *sim.Node, m pbft.ConsensusMessage) {
		if prevEmit != nil {
			prevEmit(n, m)
		}
		if pm, ok := m.(*pbft.ProposalMessage); ok {
			rs := n.RS()
			if rs.ProposalBlockParts != nil && rs.ProposalBlockParts.HasHeader(pm.Proposal.BlockPartsHeader) && rs.ProposalBlock != nil {
				bid := types.BlockID{Hash: rs.ProposalBlock.Hash(), PartsHeader: pm.Proposal.BlockPartsHeader}
				if parts[bid.Key()] == nil {
					known = append(known, bid)
					parts[bid.Key()] = rs.ProposalBlockParts
				}
			}
		}
	}
	for i := 0; i < c.Warm; i++ {
		if !d.FairStep() {
			break
		}
	}
	peer := &p2p.Peer{Key: "attacker", Data: gcmn.NewCMap()}
	peer.Data.Set(types.PeerStateKey, pbft.NewPeerState(peer))
	pstate := peer.Data.Get(types.PeerStateKey).(*pbft.PeerState)

	guard := func(f func()) (site string, pv any) {
		defer func() {
			if p := recover(); p != nil {
				pv = p
				site = h.PanicSite(debug.Stack())
			}
		}()
		f()
		return
	}
	delivered, recovered, queued := 0, 0, 0
	var sent []built
	for _, m := range c.Msgs {
		for i := 0; i < m.Pre; i++ {
			d.FairStep()
		}
		if !v.Alive {
			break
		}
		var b built
		if m.Kind == "lateproposal" {
			// scripted attack shape (sim.LateProposal): a Byzantine proposer lets the victim reach the
			// commit step of a round without a proposal and then sends it a second proposal for that round
			idx := 0
			for i, n := range net.Honest() {
				if n == v {
					idx = i
				}
			}
			var done bool
			site, pv := guard(func() { done = d.Apply(sim.Op{K: "lateproposal", N: idx, A: m.F[0]}) })
			if pv != nil {
				x.Fail("consensus-goroutine-panics:"+site, "late-proposal script: the receive routine panicked: %v", pv)
				return
			}
			if done {
				x.Label("second-proposal-sent-to-node-in-commit-step")
				delivered++
				queued++
			}
			continue
		}
		if m.Kind == "roundflood" {
			// scripted attack shape: ONE peer streams votes that cannot be accepted (signed by a key
			// that is not the named validator's) for many different rounds the node does not track.
			// The node may open vote sets for at most two catch-up rounds per peer (anchor "bounded
			// catch-up rounds per peer", height_vote_set.go AddVote); everything beyond that is memory
			// a single peer can take without limit.
			rs := v.RS()
			hgt := rs.Height
			signer := m.F[0] % c.N
			k := 3 + m.F[1]%6
			base := rs.Round + 2 + int64(m.F[2]%3)
			typ := types.VoteTypePrevote
			if m.F[3]%2 == 1 {
				typ = types.VoteTypePrecommit
			}
			tracked := func() int {
				cnt := 0
				hv := v.RS().Votes
				for i := 0; i < k; i++ {
					if hv.Prevotes(base+int64(i)) != nil {
						cnt++
					}
				}
				return cnt
			}
			pre := tracked()
			for i := 0; i < k && v.Alive; i++ {
				vote := sim.SignVote(signer, rs.Validators, hgt, base+int64(i), typ, types.BlockID{})
				vote.Signature = sim.Key(3000 + signer).Sign(types.SignBytes(sim.ChainID, vote))
				bz := enc(&pbft.VoteMessage{Vote: vote})
				guard(func() { v.ConR.Receive(pbft.VoteChannel, peer, bz) })
				for {
					var stepped bool
					site, pv := guard(func() { stepped = net.StepQueued(v) })
					if pv != nil {
						x.Fail("consensus-goroutine-panics:"+site, "round-flood script (h%d r%d): the receive routine panicked: %v", hgt, base+int64(i), pv)
						return
					}
					if !stepped {
						break
					}
					queued++
				}
			}
			delivered++
			if v.Alive && v.RS().Height == hgt {
				x.Label("unacceptable-votes-for-many-untracked-rounds-from-one-peer")
				if created := tracked() - pre; created > 2 {
					if x.Fail("rejected-votes-open-rounds-without-bound", "one peer sent %d votes with forged signatures for rounds %d..%d of height %d (the node is in round %d): the node now tracks %d more rounds than before; a peer may open at most 2 catch-up rounds", k, base, base+int64(k)-1, hgt, rs.Round, created) {
						return
					}
				}
			}
			continue
		}
		if m.Kind == "conflictmaj" {
			// scripted attack shape: a Byzantine validator first votes for some other id, the honest
			// votes then form a majority for a block, the same validator now also votes for that block
			// (a conflicting vote for the majority block) and re-sends that vote
			if len(c.Byz) == 0 {
				continue
			}
			signer := c.Byz[m.F[0]%len(c.Byz)]
			typ := types.VoteTypePrevote
			if m.F[1]%2 == 1 {
				typ = types.VoteTypePrecommit
			}
			rs := v.RS()
			hgt, rnd := rs.Height, rs.Round
			other := types.BlockID{Hash: []byte("some-other-block-id-0"), PartsHeader: types.PartSetHeader{Total: 1, Hash: []byte("some-other-parts-hash")}}
			first := enc(&pbft.VoteMessage{Vote: sim.SignVote(signer, rs.Validators, hgt, rnd, typ, other)})
			guard(func() { v.ConR.Receive(pbft.VoteChannel, peer, first) })
			drain := func() bool {
				for {
					var stepped bool
					site, pv := guard(func() { stepped = net.StepQueued(v) })
					if pv != nil {
						x.Fail("consensus-goroutine-panics:"+site, "conflicting-vote script (validator %d, type %d, h%d r%d): the receive routine panicked: %v", signer, typ, hgt, rnd, pv)
						return false
					}
					if !stepped {
						return true
					}
					queued++
				}
			}
			if !drain() {
				return
			}
			for i := 0; i < 60 && v.Alive; i++ {
				rs = v.RS()
				if rs.Height != hgt {
					break
				}
				vs := rs.Votes.Prevotes(rnd)
				if typ == types.VoteTypePrecommit {
					vs = rs.Votes.Precommits(rnd)
				}
				if vs != nil {
					if maj, ok := vs.TwoThirdsMajority(); ok && len(maj.Hash) > 0 {
						second := enc(&pbft.VoteMessage{Vote: sim.SignVote(signer, rs.Validators, hgt, rnd, typ, maj)})
						for rep := 0; rep < 3; rep++ {
							guard(func() { v.ConR.Receive(pbft.VoteChannel, peer, second) })
							if !drain() {
								return
							}
						}
						x.Label("conflicting-vote-for-majority-block-resent")
						break
					}
				}
				if !d.FairStep() {
					break
				}
			}
			delivered++
			continue
		}
		if m.Kind == "repeat" {
			// a message sent earlier, byte for byte (re-delivery / retransmission by the attacker)
			if len(sent) == 0 {
				continue
			}
			b = sent[m.F[0]%len(sent)]
			b.desc = "repeat of [" + b.desc + "]"
			b.invalid, b.stateCh = false, false // a repeated vote may legitimately be counted if the first copy was not
		} else {
			b = build(m, net, v, c.Byz, known, parts)
			if len(b.bz) == 0 && m.Kind != "raw" {
				continue
			}
			sent = append(sent, b)
		}
		before := sim.Digest(v.RS())
		x.Labelf("msg:%s", m.Kind)
		x.Labelf("step:%v", v.RS().Step)
		x.Labelf("byzkeys:%d", len(c.Byz))
		// 1. the reactor's Receive runs under MConnection's recover: a panic there costs the sender
		// its connection and is acceptable
		site, pv := guard(func() { v.ConR.Receive(b.ch, peer, b.bz) })
		delivered++
		if pv != nil {
			recovered++
			x.Labelf("receive-panic-recovered:%s", site)
		}
		// 2. what Receive queued is handled on the consensus goroutine, which has no recover
		for {
			var stepped bool
			site, pv = guard(func() { stepped = net.StepQueued(v) })
			if pv != nil {
				x.Fail("consensus-goroutine-panics:"+site, "after peer input [%s] on channel %#x the receive routine panicked: %v (receiver was at %s)", b.desc, b.ch, pv, before)
				return
			}
			if !stepped {
				break
			}
			queued++
		}
		after := sim.Digest(v.RS())
		if (b.invalid || b.stateCh) && before != after {
			kind := "invalid-message"
			if b.stateCh {
				kind = "peer-state-message"
			}
			if x.Fail("consensus-state-changed-by-"+kind+":"+m.Kind, "peer input [%s] changed the consensus state\n before: %s\n after:  %s", b.desc, before, after) {
				return
			}
		}
		// 3. one iteration of what the per-peer gossip routines evaluate for this peer (they run
		// without recover): the exported PeerState functions they call, with the node's vote sets
		site, pv = guard(func() { gossipIteration(v, pstate) })
		if pv != nil {
			x.Fail("gossip-routine-panics:"+site, "after peer input [%s] one iteration of the gossip logic for that peer panicked: %v", b.desc, pv)
			return
		}
	}
	// 4. the node must still make progress with honest traffic
	var target int64
	for _, n := range net.Honest() {
		if hh := n.RS().Height; hh > target {
			target = hh
		}
	}
	var ok bool
	site, pv := guard(func() { ok = d.RunFair(target, 6000) })
	if pv != nil {
		x.Fail("consensus-goroutine-panics:"+site, "after the peer inputs, honest traffic made a node panic: %v", pv)
		return
	}
	if !ok {
		x.Fail("node-wedged-after-peer-input", "after the peer inputs the network does not commit height %d under fair delivery; victim: %s", target, sim.Digest(v.RS()))
		return
	}
	if recovered > 0 {
		x.Label("some-receive-panic-recovered")
	}
	if queued > 0 {
		x.Label("reached-consensus-queue")
	}
	if delivered > 0 && (queued > 0 || recovered > 0) {
		x.NonTrivial()
	}
}

// gossipIteration evaluates, for the attacker's PeerState, the expressions the three per-peer
// gossip routines evaluate in one loop iteration (reactor.go gossipDataRoutine,
// gossipVotesRoutine, queryMaj23Routine). Sends are no-ops because the peer is not running.
func gossipIteration(v *sim.Node, ps *pbft.PeerState) {
	rs := v.RS()
	prs := ps.GetRoundState()
	// gossipDataRoutine
	if rs.ProposalBlockParts.HasHeader(prs.ProposalBlockPartsHeader) {
		if index, ok := rs.ProposalBlockParts.BitArray().Sub(prs.ProposalBlockParts.Copy()).PickRandom(); ok {
			_ = rs.ProposalBlockParts.GetPart(index)
			ps.SetHasProposalBlockPart(prs.Height, prs.Round, index)
		}
	}
	if 0 < prs.Height && prs.Height < rs.Height {
		if index, ok := prs.ProposalBlockParts.Not().PickRandom(); ok {
			if meta := v.Store.LoadBlockMeta(prs.Height); meta != nil && meta.PartsHeader.Equals(prs.ProposalBlockPartsHeader) {
				_ = v.Store.LoadBlockPart(prs.Height, index)
			}
		}
	}
	// gossipVotesRoutine
	if rs.Height == prs.Height {
		if prs.Step == pbft.RoundStepNewHeight {
			ps.PickSendVote(rs.LastCommit)
		}
		if prs.Step <= pbft.RoundStepPrevote && prs.Round != -1 && prs.Round <= rs.Round {
			ps.PickSendVote(rs.Votes.Prevotes(prs.Round))
		}
		if prs.Step <= pbft.RoundStepPrecommit && prs.Round != -1 && prs.Round <= rs.Round {
			ps.PickSendVote(rs.Votes.Precommits(prs.Round))
		}
		if prs.ProposalPOLRound != -1 {
			if polPrevotes := rs.Votes.Prevotes(prs.ProposalPOLRound); polPrevotes != nil {
				ps.PickSendVote(polPrevotes)
			}
		}
	}
	if prs.Height != 0 && rs.Height == prs.Height+1 {
		ps.PickSendVote(rs.LastCommit)
	}
	if prs.Height != 0 && rs.Height >= prs.Height+2 {
		if commit := v.Store.LoadBlockCommit(prs.Height); commit != nil {
			ps.PickSendVote(commit)
		}
	}
}

func TestReactorInputs(t *testing.T) {
	h.Check(t, h.Spec[Case]{Prop: "C08", Leg: "reactor", Gen: genCase, Run: runCase})
}
