package c05

import (
	"os"
	"path/filepath"
	"runtime"
	"testing"
	"time"

	"github.com/dappledger/AnnChain/chain/app/evm"
)

func TestZZStress(t *testing.T) {
	if os.Getenv("C05_STRESS") == "" {
		t.Skip()
	}
	c := Case{}
	var blk []TxSpec
	for i := 0; i < 12; i++ {
		k := TxSpec{K: "badsig", From: i % 4, A: []int{0, 1, 4, 2}[i%4]}
		if i%3 == 2 {
			k = TxSpec{K: "garbage", D: []byte{1, 2, 3}}
		}
		blk = append(blk, k)
	}
	c.Blocks = [][]TxSpec{blk}
	txs, _ := expand(c)
	base, _ := os.MkdirTemp(tmpBase(), "c05-stress-")
	defer os.RemoveAll(base)
	params := make([]blockParam, 1)
	p := blockParam{height: 1}
	for _, bt := range txs[0] {
		p.txs = append(p.txs, bt.raw)
	}
	params[0] = p
	A := &replica{name: "A", dir: filepath.Join(base, "a"), core: &fakeCore{params: params}}
	if err := A.open(); err != nil {
		t.Fatal(err)
	}
	defer A.close()
	start := time.Now()
	bad, nilBytes, n := 0, 0, 0
	for _, procs := range []int{16, 2, 1, 4} {
		runtime.GOMAXPROCS(procs)
		for _, w := range []int{16, 2, 8} {
			evm.VerifSetValidateRoutineCount(w)
			for it := 0; it < 4000 && time.Since(start) < 100*time.Second; it++ {
				blkk := mkBlock(p)
				res, _ := A.app.OnExecute(1, 0, blkk)
				er := res.(interface{})
				_ = er
				o := resToObs(res)
				n++
				if len(o.valid) != 0 {
					bad++
					if bad < 4 {
						t.Logf("procs=%d workers=%d it=%d: %s", procs, w, it, describeClass(txs[0], o))
					}
				}
				for _, b := range o.invalid {
					if len(b) == 0 {
						nilBytes++
						if nilBytes < 4 {
							t.Logf("procs=%d workers=%d it=%d: invalid entry with nil bytes: %s", procs, w, it, describeClass(txs[0], o))
						}
						break
					}
				}
			}
		}
	}
	t.Logf("iterations=%d misclassified-as-valid=%d blocks-with-nil-bytes=%d in %v", n, bad, nilBytes, time.Since(start))
}
