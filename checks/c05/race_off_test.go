//go:build !race

package c05

const raceEnabled = false
