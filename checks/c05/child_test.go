// The race leg: every generated case is executed in a child process of this same test binary
// (built with -race by the driver). The child runs the ordinary differential runner and prints
// its findings as records; the race detector's reports arrive on the child's stderr. The parent
// never executes code under test, so a data race that is a listed known finding does not make
// the parent's test binary fail ("race detected during execution of test") and the search goes
// on behind it.
package c05

import (
	"bufio"
	"bytes"
	"encoding/json"
	"fmt"
	"os"
	"os/exec"
	"sort"
	"strings"
	"testing"
	"time"

	"pgregory.net/rapid"

	"verif/internal/h"
)

const recPrefix = "C05REC "

type childRec struct {
	T   string `json:"t"` // fail | label | nontrivial | done
	Sig string `json:"sig,omitempty"`
	Msg string `json:"msg,omitempty"`
}

// recorder implements reporter in the child.
type recorder struct{ w *bufio.Writer }

func (r *recorder) emit(c childRec) {
	b, _ := json.Marshal(c)
	r.w.WriteString(recPrefix)
	r.w.Write(b)
	r.w.WriteString("\n")
	r.w.Flush()
}
func (r *recorder) Fail(sig string, f string, a ...any) bool {
	r.emit(childRec{T: "fail", Sig: sig, Msg: fmt.Sprintf(f, a...)})
	return !h.IsKnownFor("C05", sig)
}
func (r *recorder) Label(l string)          { r.emit(childRec{T: "label", Msg: l}) }
func (r *recorder) NonTrivial(fp ...string) { r.emit(childRec{T: "nontrivial"}) }

// TestRaceChild is the child side; it only runs when the parent names a case file.
func TestRaceChild(t *testing.T) {
	fn := os.Getenv("C05_CHILD_CASE")
	if fn == "" {
		t.Skip("child side of the race leg")
	}
	b, err := os.ReadFile(fn)
	if err != nil {
		t.Fatal(err)
	}
	var c Case
	if err := json.Unmarshal(b, &c); err != nil {
		t.Fatal(err)
	}
	r := &recorder{w: bufio.NewWriter(os.Stdout)}
	func() {
		defer func() {
			if p := recover(); p != nil {
				r.emit(childRec{T: "fail", Sig: "panic-in-child", Msg: fmt.Sprint(p)})
			}
		}()
		runCase(c, r)
	}()
	// give late reports of leaked verifier goroutines a moment to be printed
	time.Sleep(5 * time.Millisecond)
	r.emit(childRec{T: "done"})
}

type raceReport struct {
	sig  string
	text string
}

func shortFunc(line string) string {
	f := strings.TrimSpace(line)
	if i := strings.LastIndex(f, "("); i > 0 {
		f = f[:i]
	}
	if i := strings.LastIndex(f, "/"); i >= 0 {
		f = f[i+1:]
	}
	return f
}

// parseRaces extracts the data race reports of the Go race detector from process output.
func parseRaces(out string) []raceReport {
	var reps []raceReport
	blocks := strings.Split(out, "==================")
	for _, blk := range blocks {
		if !strings.Contains(blk, "WARNING: DATA RACE") {
			continue
		}
		lines := strings.Split(blk, "\n")
		var tops []string
		synthetic := false
		for i, l := range lines {
			tl := strings.TrimSpace(l)
			if (strings.HasPrefix(tl, "Write at") || strings.HasPrefix(tl, "Read at") || strings.HasPrefix(tl, "Previous write at") || strings.HasPrefix(tl, "Previous read at") ||
				strings.HasPrefix(tl, "Atomic write at") || strings.HasPrefix(tl, "Atomic read at") || strings.HasPrefix(tl, "Previous atomic")) && i+1 < len(lines) {
				// innermost frame that is not in the runtime / sync packages
				for j := i + 1; j < len(lines); j += 2 {
					fl := strings.TrimSpace(lines[j])
					if fl == "" {
						break
					}
					if j == i+1 && (strings.HasPrefix(fl, "runtime.racewrite(") || strings.HasPrefix(fl, "runtime.raceread(")) {
						// explicit race.Read/race.Write annotation inside a sync primitive
						// (WaitGroup.Add concurrent with Wait): usage check, not a memory access
						synthetic = true
					}
					if strings.HasPrefix(fl, "runtime.") || strings.HasPrefix(fl, "sync.") || strings.HasPrefix(fl, "sync/atomic.") || strings.HasPrefix(fl, "internal/") {
						continue
					}
					tops = append(tops, shortFunc(fl))
					break
				}
			}
		}
		sort.Strings(tops)
		kind := "data-race:"
		if synthetic {
			kind = "sync-primitive-misuse:"
		}
		reps = append(reps, raceReport{sig: kind + strings.Join(tops, "~"), text: strings.TrimSpace(blk)})
	}
	return reps
}

// feedsResult tells whether a reported race is on the path that produces the replicated
// results (block execution, commit, receipts, queries of the EVM application and the EVM /
// state packages below it). Races elsewhere (tx pool timers, logging) are recorded as labels
// and notes, not as violations of this property.
func feedsResult(r raceReport) bool {
	if !strings.HasPrefix(r.sig, "data-race:") {
		return false
	}
	for _, pkg := range []string{"evm.exeWithCPUParallelVeirfy", "evm.tryValidate", "evm.validateRoutine", "evm.txQueue", "evm.initTxQueue",
		"evm.(*EVMApp).OnExecute", "evm.(*EVMApp).OnCommit", "evm.(*EVMApp).SaveReceipts", "evm.(*EVMApp).genExecFun", "evm.(*EVMApp).execute",
		"evm.(*EVMApp).query", "evm.(*EVMApp).Query", "evm.(*KeyValueHistoryManager)", "evm.(*kvBatch)",
		"state.", "vm.", "core.", "trie.", "types."} {
		if strings.Contains(r.sig, pkg) {
			return true
		}
	}
	return false
}

func runInChild(c Case, x *h.Ctx) {
	dir, err := os.MkdirTemp(tmpBase(), "c05-child-")
	if err != nil {
		panic(err)
	}
	defer os.RemoveAll(dir)
	cb, _ := json.Marshal(c)
	fn := dir + "/case.json"
	if err := os.WriteFile(fn, cb, 0o644); err != nil {
		panic(err)
	}
	cmd := exec.Command(os.Args[0], "-test.run", "^TestRaceChild$", "-test.count=1", "-test.timeout", "120s")
	env := []string{}
	for _, e := range os.Environ() {
		if strings.HasPrefix(e, "VERIF_EV_OUT=") || strings.HasPrefix(e, "VERIF_REPLAY=") || strings.HasPrefix(e, "GORACE=") || strings.HasPrefix(e, "C05_TMP=") {
			continue
		}
		env = append(env, e)
	}
	cmd.Env = append(env, "C05_CHILD_CASE="+fn, "C05_TMP="+dir, "VERIF_EV_OUT=", "VERIF_REPLAY=", "GORACE=halt_on_error=0")
	var stdout, stderr bytes.Buffer
	cmd.Stdout, cmd.Stderr = &stdout, &stderr
	runErr := cmd.Run()

	done := false
	stopped := false
	sigFailures := false
	for _, line := range strings.Split(stdout.String(), "\n") {
		if !strings.HasPrefix(line, recPrefix) {
			continue
		}
		var r childRec
		if json.Unmarshal([]byte(line[len(recPrefix):]), &r) != nil {
			continue
		}
		switch r.T {
		case "fail":
			if !stopped && x.Fail(r.Sig, "%s", r.Msg) {
				stopped = true
			}
		case "label":
			x.Label(r.Msg)
			if r.Msg == "sig-failures>0" {
				sigFailures = true
			}
		case "done":
			done = true
		}
	}
	all := stderr.String() + "\n" + stdout.String()
	races := parseRaces(all)
	seen := map[string]bool{}
	for _, r := range races {
		if seen[r.sig] {
			continue
		}
		seen[r.sig] = true
		if feedsResult(r) {
			if !stopped && x.Fail(r.sig, "the race detector reports a data race on the execution path (the value read depends on the goroutine schedule):\n%s", trunc(r.text, 3500)) {
				stopped = true
			}
		} else {
			x.Label("race-off-path:" + r.sig)
			h.Note("C05", "race", "data race outside the execution path (not judged): %s", r.sig)
		}
	}
	if !done && !stopped && strings.Contains(all, "fatal error: checkptr:") {
		// -race switches on checkptr, and the old golang.org/x/crypto sha3 (xorInUnaligned, behind
		// every Keccak of >= 136 bytes) trips it: an artifact of the instrumented build, not an
		// observation about the property. The case is not judged.
		x.Label("child-aborted:checkptr-artifact")
		h.Note("C05", "race", "some children were aborted by checkptr (x/crypto sha3 xorInUnaligned) and not judged; build the race binary with -gcflags=all=-d=checkptr=0 to run them")
		return
	}
	if !done && !stopped {
		// the child died before finishing the case: a Go runtime fatal error (e.g. concurrent map
		// writes) in the code under test is itself a schedule-dependence witness
		first := ""
		for _, l := range strings.Split(all, "\n") {
			if strings.HasPrefix(l, "fatal error:") || strings.HasPrefix(l, "panic:") {
				first = l
				break
			}
		}
		x.Fail("child-process-died", "child exited abnormally (%v) %s\n%s", runErr, first, trunc(all, 3000))
		return
	}
	if raceEnabled {
		x.Label("race-detector:on")
	} else {
		x.Label("race-detector:off")
	}
	if len(races) > 0 {
		x.Label("cases-with-race-report")
	}
	if sigFailures && c.B.Workers >= 2 {
		x.NonTrivial()
	}
}

// genRaceCase biases the grammar towards what the parallel verifier decides: many txs with
// broken signatures between valid ones, several workers, few restarts.
func genRaceCase(t *rapid.T) Case {
	nb := rapid.IntRange(1, 3).Draw(t, "blocks")
	c := Case{WorkersA: rapid.SampledFrom([]int{8, 16}).Draw(t, "workersA")}
	for i := 0; i < nb; i++ {
		n := rapid.IntRange(1, 12).Draw(t, "ntx")
		var blk []TxSpec
		for j := 0; j < n; j++ {
			var s TxSpec
			if rapid.IntRange(0, 9).Draw(t, "badsig") >= 5 {
				s = TxSpec{K: "badsig", From: rapid.IntRange(0, nAcct-1).Draw(t, "from"), A: rapid.IntRange(0, 4).Draw(t, "variant")}
			} else {
				s = genTx(t)
			}
			blk = append(blk, s)
		}
		c.Blocks = append(c.Blocks, blk)
	}
	c.B.RestartAfter = []int{}
	if nb > 1 && rapid.IntRange(0, 3).Draw(t, "restart") == 3 {
		c.B.RestartAfter = append(c.B.RestartAfter, rapid.IntRange(1, nb-1).Draw(t, "at"))
	}
	c.B.Workers = rapid.SampledFrom([]int{2, 8, 16}).Draw(t, "workersB")
	c.B.Procs = rapid.SampledFrom([]int{0, 2, 16}).Draw(t, "procsB")
	c.WorkersC = rapid.SampledFrom(workerChoices).Draw(t, "workersC")
	c.QueryEvery = rapid.Bool().Draw(t, "queryEvery")
	c.Repeat = rapid.IntRange(1, 3).Draw(t, "repeat")
	return c
}

// TestHistoriesRace is the -race leg.
func TestHistoriesRace(t *testing.T) {
	h.Check(t, h.Spec[Case]{Prop: "C05", Leg: "race", Gen: genRaceCase, Run: runInChild})
}
