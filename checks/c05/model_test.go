// C05: replicated execution is deterministic — hashes, receipts and query results depend only
// on the chain, not on the process history, the verifier's parallelism or the schedule.
//
// This file: the case type (block sequence from a tx grammar + history), the generator and
// the pure expansion of a case into raw transaction bytes (with a small nonce model that only
// steers the generator towards valid transactions; it is never used as an oracle).
package c05

import (
	"crypto/ecdsa"
	"crypto/sha256"
	"encoding/binary"
	"math/big"

	rtypes "github.com/dappledger/AnnChain/chain/types"
	"github.com/dappledger/AnnChain/eth/common"
	etypes "github.com/dappledger/AnnChain/eth/core/types"
	"github.com/dappledger/AnnChain/eth/crypto"
	"github.com/dappledger/AnnChain/eth/rlp"
	gtypes "github.com/dappledger/AnnChain/gemmill/types"
	"pgregory.net/rapid"

	"verif/internal/h"
)

const nAcct = 4

var (
	keys   [nAcct]*ecdsa.PrivateKey
	addrs  [nAcct]common.Address
	signer = etypes.HomesteadSigner{}
	// addresses without a key (receivers only)
	plainAddr = [2]common.Address{
		common.HexToAddress("0x00000000000000000000000000000000000c05aa"),
		common.HexToAddress("0x00000000000000000000000000000000000c05bb"),
	}
	secpN, _ = new(big.Int).SetString("fffffffffffffffffffffffffffffffebaaedce6af48a03bbfd25e8cd0364141", 16)
)

func init() {
	for i := range keys {
		s := sha256.Sum256([]byte{'c', '0', '5', '-', 'k', 'e', 'y', byte('0' + i)})
		k, err := crypto.ToECDSA(s[:])
		if err != nil {
			panic(err)
		}
		keys[i] = k
		addrs[i] = crypto.PubkeyToAddress(k.PublicKey)
	}
}

// TxSpec is one abstract transaction of the grammar. Kinds:
//
//	xfer    signed transfer of value 0 from account F to receiver A (valid)
//	value   transfer of value B>0 (no account is funded: insufficient balance, invalid)
//	create  contract creation; D = runtime code, A = constructor flags
//	call    call of the A-th contract created so far (or a plain address), argument word B
//	kv      key-value tx ("kvTx-" + rlp{Key,Value}); Key, D = value
//	kvbig   key-value tx beyond the CheckTx limits (A: 0 key 257 B, 1 value 4097 B, 2 both)
//	kvbad   "kvTx-" followed by the bytes D (malformed RLP unless D happens to decode)
//	badsig  transfer with a broken signature (A: 0 r=0, 1 s=0, 2 high s, 3 flipped r, 4 v=29)
//	nonce   transfer with nonce off by A-1 (A=0) or +A (A=1,2)
//	lowgas  transfer with gas limit below the intrinsic gas
//	garbage the raw bytes D
//	trunc   a valid transfer with the last A bytes cut off
//	trail   a valid transfer with one extra byte A appended
//	dup     byte-identical copy of the tx built A+1 positions earlier (any block)
type TxSpec struct {
	K    string `json:"k"`
	From int    `json:"f,omitempty"`
	A    int    `json:"a,omitempty"`
	B    int    `json:"b,omitempty"`
	D    h.Hex  `json:"d,omitempty"`
	Key  h.Hex  `json:"key,omitempty"`
}

// History is how one replica lives through the block sequence.
type History struct {
	// RestartAfter lists heights (1-based, ascending) after whose commit the process is
	// stopped and a new EVMApp is opened on the same data directory.
	RestartAfter []int `json:"restart_after"`
	Workers      int   `json:"workers"` // goroutines of the parallel signature verifier
	Procs        int   `json:"procs"`   // GOMAXPROCS while this replica runs (0: unchanged)
}

type Case struct {
	Blocks   [][]TxSpec `json:"blocks"`
	WorkersA int        `json:"workers_a"` // replica A: one lifetime
	B        History    `json:"b"`         // replica B: generated history
	WorkersC int        `json:"workers_c"` // replica C: catches up later, one lifetime
	// QueryEvery: replica B is also queried between blocks (after every commit and after
	// every restart); otherwise only right after restarts and at the end.
	QueryEvery bool `json:"query_every"`
	// Repeat > 1: the block sequence is the list Blocks taken Repeat times (fresh nonces each
	// time); SkipC: no third replica (schedule leg: many blocks, two replicas).
	Repeat int  `json:"repeat,omitempty"`
	SkipC  bool `json:"skip_c,omitempty"`
	// TimeOff: seconds added to the header time of block i (default spacing 3 s): proposers'
	// clocks differ, block times may stand still or go back between consecutive blocks
	TimeOff []int `json:"time_off,omitempty"`
}

// ---------------------------------------------------------------------------------------
// generator

var kindTable = []string{
	"xfer", "xfer", "xfer",
	"create", "create", "create",
	"call", "call", "call", "call",
	"kv", "kv", "kv", "kv", "kv",
	"kvbig", "kvbad",
	"badsig", "badsig", "badsig",
	"nonce", "nonce",
	"lowgas", "value", "garbage", "trunc", "trail",
	"dup", "dup",
}

var kvKeys = [][]byte{[]byte("k0"), []byte("k1"), []byte("k2"), {}, []byte("a/b"), {0xff, 0x00, 0x01}, []byte("k")}

func genCode(t *rapid.T) []byte {
	n := rapid.IntRange(0, 5).Draw(t, "nsnip")
	var code []byte
	for i := 0; i < n; i++ {
		k := byte(rapid.IntRange(0, 3).Draw(t, "slot"))
		v := byte(rapid.IntRange(0, 255).Draw(t, "val"))
		switch rapid.IntRange(0, 9).Draw(t, "snip") {
		case 0: // SSTORE(k, v)
			code = append(code, 0x60, v, 0x60, k, 0x55)
		case 1: // SSTORE(k, calldata[0:32])
			code = append(code, 0x60, 0x00, 0x35, 0x60, k, 0x55)
		case 2: // SSTORE(k, SLOAD(k)+1)
			code = append(code, 0x60, k, 0x54, 0x60, 0x01, 0x01, 0x60, k, 0x55)
		case 3: // SSTORE(k, NUMBER)
			code = append(code, 0x43, 0x60, k, 0x55)
		case 4: // SSTORE(k, TIMESTAMP)
			code = append(code, 0x42, 0x60, k, 0x55)
		case 5: // SSTORE(k, CALLER)
			code = append(code, 0x33, 0x60, k, 0x55)
		case 6: // MSTORE(0,v); LOG1(0,32,k)
			code = append(code, 0x60, v, 0x60, 0x00, 0x52, 0x60, k, 0x60, 0x20, 0x60, 0x00, 0xa1)
		case 7: // MSTORE(0,calldata); LOG0(0,32)
			code = append(code, 0x60, 0x00, 0x35, 0x60, 0x00, 0x52, 0x60, 0x20, 0x60, 0x00, 0xa0)
		case 8: // LOG2(0,32,k,NUMBER)
			code = append(code, 0x43, 0x60, k, 0x60, 0x20, 0x60, 0x00, 0xa2)
		case 9: // SSTORE(k, BLOCKHASH(NUMBER-1))
			code = append(code, 0x60, 0x01, 0x43, 0x03, 0x40, 0x60, k, 0x55)
		}
	}
	switch rapid.IntRange(0, 7).Draw(t, "tail") {
	case 0, 1, 2: // return SLOAD(0)
		code = append(code, 0x60, 0x00, 0x54, 0x60, 0x00, 0x52, 0x60, 0x20, 0x60, 0x00, 0xf3)
	case 3: // STOP
		code = append(code, 0x00)
	case 4: // REVERT(0,0)
		code = append(code, 0x60, 0x00, 0x60, 0x00, 0xfd)
	case 5: // INVALID
		code = append(code, 0xfe)
	case 6: // SELFDESTRUCT(CALLER)
		code = append(code, 0x33, 0xff)
	case 7: // SSTORE(0,0) (refund path) then return SLOAD(1)
		code = append(code, 0x60, 0x00, 0x60, 0x00, 0x55, 0x60, 0x01, 0x54, 0x60, 0x00, 0x52, 0x60, 0x20, 0x60, 0x00, 0xf3)
	}
	return code
}

func genTx(t *rapid.T) TxSpec {
	s := TxSpec{K: rapid.SampledFrom(kindTable).Draw(t, "kind")}
	from := func() { s.From = rapid.IntRange(0, nAcct-1).Draw(t, "from") }
	switch s.K {
	case "xfer":
		from()
		s.A = rapid.IntRange(0, nAcct+1).Draw(t, "to")
	case "value":
		from()
		s.A = rapid.IntRange(0, nAcct+1).Draw(t, "to")
		s.B = rapid.IntRange(1, 3).Draw(t, "value")
	case "create":
		from()
		s.D = genCode(t)
		s.A = rapid.IntRange(0, 7).Draw(t, "ctor")
	case "call":
		from()
		s.A = rapid.IntRange(0, 7).Draw(t, "contract")
		s.B = rapid.IntRange(0, 5).Draw(t, "word")
	case "kv":
		from()
		s.Key = rapid.SampledFrom(kvKeys).Draw(t, "key")
		s.D = rapid.SliceOfN(rapid.Byte(), 0, 6).Draw(t, "value")
	case "kvbig":
		from()
		s.A = rapid.IntRange(0, 2).Draw(t, "which")
		s.B = rapid.IntRange(0, 3).Draw(t, "fill")
	case "kvbad":
		from()
		s.D = rapid.SliceOfN(rapid.Byte(), 0, 8).Draw(t, "tail")
	case "badsig":
		from()
		s.A = rapid.IntRange(0, 4).Draw(t, "variant")
	case "nonce":
		from()
		s.A = rapid.IntRange(0, 2).Draw(t, "delta")
	case "lowgas":
		from()
	case "garbage":
		s.D = rapid.SliceOfN(rapid.Byte(), 1, 40).Draw(t, "bytes")
	case "trunc":
		from()
		s.A = rapid.IntRange(1, 5).Draw(t, "cut")
	case "trail":
		from()
		s.A = rapid.IntRange(0, 255).Draw(t, "extra")
	case "dup":
		s.A = rapid.IntRange(0, 15).Draw(t, "back")
	}
	return s
}

var workerChoices = []int{1, 2, 8, 16}

func genCase(t *rapid.T) Case {
	nb := rapid.IntRange(1, 8).Draw(t, "blocks")
	c := Case{}
	for i := 0; i < nb; i++ {
		n := 0
		switch rapid.IntRange(0, 9).Draw(t, "shape") {
		case 0: // empty block
		case 1, 2, 3:
			n = rapid.IntRange(1, 3).Draw(t, "ntx")
		default:
			n = rapid.IntRange(0, 12).Draw(t, "ntx")
		}
		blk := make([]TxSpec, 0, n)
		for j := 0; j < n; j++ {
			blk = append(blk, genTx(t))
		}
		c.Blocks = append(c.Blocks, blk)
	}
	if rapid.IntRange(0, 2).Draw(t, "clockSkew") == 0 {
		for i := 0; i < nb; i++ {
			c.TimeOff = append(c.TimeOff, rapid.SampledFrom([]int{0, 0, 0, -3, -7, -100, 5, 60}).Draw(t, "timeOff"))
		}
	}
	c.WorkersA = 8
	if rapid.IntRange(0, 3).Draw(t, "workersA-alt") == 3 {
		c.WorkersA = rapid.SampledFrom(workerChoices).Draw(t, "workersA")
	}
	c.B.RestartAfter = []int{}
	for hgt := 1; hgt <= nb; hgt++ {
		// >= 62 so that shrinking (towards 0) removes restarts
		if rapid.IntRange(0, 99).Draw(t, "restart") >= 62 {
			c.B.RestartAfter = append(c.B.RestartAfter, hgt)
		}
	}
	c.B.Workers = rapid.SampledFrom(workerChoices).Draw(t, "workersB")
	c.B.Procs = rapid.SampledFrom([]int{0, 1, 2, 4, 16}).Draw(t, "procsB")
	c.WorkersC = rapid.SampledFrom(workerChoices).Draw(t, "workersC")
	c.QueryEvery = rapid.IntRange(0, 2).Draw(t, "queryEvery") > 0
	return c
}

// ---------------------------------------------------------------------------------------
// expansion of specs into raw transactions

type builtTx struct {
	kind     string
	raw      []byte
	hash     []byte // gtypes.Tx(raw).Hash(): the key under which the receipt is stored
	from     int    // -1: unknown / irrelevant
	nonce    uint64
	okButNon bool // valid if the nonce matches (model only)
	isKV     bool
	creates  bool
	kv       *rtypes.KV // decoded key-value payload when isKV
	code     []byte     // runtime code of a creation
	modelOK  bool       // model's prediction (steering + label only)
}

type model struct {
	nonce     [nAcct]uint64
	contracts []common.Address
	codes     [][]byte
	all       []builtTx
}

const txGas = 1000000

func signTx(tx *etypes.Transaction, k *ecdsa.PrivateKey) (*etypes.Transaction, []byte) {
	sig, err := crypto.Sign(signer.Hash(tx).Bytes(), k)
	if err != nil {
		panic(err)
	}
	stx, err := tx.WithSignature(signer, sig)
	if err != nil {
		panic(err)
	}
	return stx, sig
}

func encTx(tx *etypes.Transaction) []byte {
	b, err := rlp.EncodeToBytes(tx)
	if err != nil {
		panic(err)
	}
	return b
}

func receiver(i int) common.Address {
	if i < nAcct {
		return addrs[i]
	}
	return plainAddr[(i-nAcct)%2]
}

func word(v int) []byte {
	w := make([]byte, 32)
	binary.BigEndian.PutUint64(w[24:], uint64(v))
	return w
}

func fill(n, seed int) []byte {
	out := make([]byte, n)
	for i := range out {
		out[i] = byte('a' + (i*7+seed*13)%26)
	}
	return out
}

// initCode wraps runtime code into creation code; flags add constructor side effects.
func initCode(runtime []byte, flags int) []byte {
	var c []byte
	if flags&1 != 0 { // SSTORE(7, 42)
		c = append(c, 0x60, 0x2a, 0x60, 0x07, 0x55)
	}
	if flags&2 != 0 { // LOG0(0,32)
		c = append(c, 0x60, 0x20, 0x60, 0x00, 0xa0)
	}
	if flags&4 != 0 && flags&1 != 0 { // constructor fails after its side effects
		c = append(c, 0xfe)
	}
	// PUSH1 len DUP1 PUSH1 off PUSH1 0 CODECOPY PUSH1 0 RETURN
	off := len(c) + 11
	c = append(c, 0x60, byte(len(runtime)), 0x80, 0x60, byte(off), 0x60, 0x00, 0x39, 0x60, 0x00, 0xf3)
	return append(c, runtime...)
}

func kvPayload(key, val []byte) []byte {
	b, err := rlp.EncodeToBytes(&rtypes.KV{Key: key, Value: val})
	if err != nil {
		panic(err)
	}
	return append(append([]byte{}, rtypes.KVTxType...), b...)
}

func (m *model) build(s TxSpec) builtTx {
	f := s.From
	if f < 0 || f >= nAcct {
		f = 0
	}
	n := m.nonce[f]
	zero := big.NewInt(0)
	bt := builtTx{kind: s.K, from: f, nonce: n}
	plain := func(nonce uint64, to common.Address, value int64, gas uint64, data []byte) *etypes.Transaction {
		return etypes.NewTransaction(nonce, to, big.NewInt(value), gas, zero, data)
	}
	switch s.K {
	case "xfer":
		tx, _ := signTx(plain(n, receiver(s.A), 0, txGas, nil), keys[f])
		bt.raw, bt.okButNon = encTx(tx), true
	case "value":
		tx, _ := signTx(plain(n, receiver(s.A), int64(s.B), txGas, nil), keys[f])
		bt.raw = encTx(tx)
	case "create":
		code := []byte(s.D)
		if len(code) > 200 {
			code = code[:200]
		}
		tx, _ := signTx(etypes.NewContractCreation(n, zero, txGas, zero, initCode(code, s.A)), keys[f])
		bt.raw, bt.okButNon, bt.creates, bt.code = encTx(tx), true, true, code
	case "call":
		to := plainAddr[0]
		if len(m.contracts) > 0 {
			to = m.contracts[s.A%len(m.contracts)]
		}
		tx, _ := signTx(plain(n, to, 0, txGas, word(s.B)), keys[f])
		bt.raw, bt.okButNon = encTx(tx), true
	case "kv", "kvbig", "kvbad":
		var data []byte
		switch s.K {
		case "kv":
			data = kvPayload(s.Key, s.D)
		case "kvbig":
			key, val := []byte("big"), []byte("v")
			if s.A == 0 || s.A == 2 {
				key = fill(257, s.B)
			}
			if s.A == 1 || s.A == 2 {
				val = fill(4097, s.B)
			}
			data = kvPayload(key, val)
		case "kvbad":
			data = append(append([]byte{}, rtypes.KVTxType...), s.D...)
		}
		tx, _ := signTx(plain(n, common.Address{}, 0, txGas, data), keys[f])
		bt.raw, bt.isKV = encTx(tx), true
		kv := &rtypes.KV{}
		if rlp.DecodeBytes(data[len(rtypes.KVTxType):], kv) == nil {
			bt.okButNon, bt.kv = true, kv
		}
	case "badsig":
		tx := plain(n, receiver(1), 0, txGas, nil)
		_, sig := signTx(tx, keys[f])
		sig = append([]byte{}, sig...)
		switch s.A {
		case 0:
			for i := 0; i < 32; i++ {
				sig[i] = 0
			}
		case 1:
			for i := 32; i < 64; i++ {
				sig[i] = 0
			}
		case 2: // s' = N - s is the high-s twin (rejected under homestead rules)
			sv := new(big.Int).SetBytes(sig[32:64])
			hs := new(big.Int).Sub(secpN, sv).Bytes()
			for i := 32; i < 64; i++ {
				sig[i] = 0
			}
			copy(sig[64-len(hs):64], hs)
			sig[64] ^= 1
		case 3: // another r: recovers an unrelated sender or fails recovery
			sig[5] ^= 0x40
			bt.from = -1
		case 4:
			sig[64] = 2
		}
		stx, err := tx.WithSignature(signer, sig)
		if err != nil {
			panic(err)
		}
		bt.raw = encTx(stx)
	case "nonce":
		nn := n + uint64(s.A)
		if s.A == 0 {
			if n > 0 {
				nn = n - 1
			} else {
				nn = n + 1
			}
		}
		tx, _ := signTx(plain(nn, receiver(2), 0, txGas, nil), keys[f])
		bt.raw, bt.okButNon, bt.nonce = encTx(tx), true, nn
	case "lowgas":
		tx, _ := signTx(plain(n, receiver(3), 0, 20000, nil), keys[f])
		bt.raw = encTx(tx)
	case "garbage":
		bt.raw, bt.from = append([]byte{}, s.D...), -1
		if len(bt.raw) == 0 {
			bt.raw = []byte{0xc0}
		}
	case "trunc":
		tx, _ := signTx(plain(n, receiver(0), 0, txGas, nil), keys[f])
		raw := encTx(tx)
		cut := s.A
		if cut < 1 {
			cut = 1
		}
		if cut >= len(raw) {
			cut = len(raw) - 1
		}
		bt.raw, bt.from = raw[:len(raw)-cut], -1
	case "trail":
		tx, _ := signTx(plain(n, receiver(0), 0, txGas, nil), keys[f])
		bt.raw, bt.from = append(encTx(tx), byte(s.A)), -1
	case "dup":
		if len(m.all) == 0 {
			return m.build(TxSpec{K: "xfer", From: 0, A: 1})
		}
		src := m.all[len(m.all)-1-s.A%len(m.all)]
		bt = src
		bt.kind = "dup"
		bt.raw = append([]byte{}, src.raw...)
	default:
		return m.build(TxSpec{K: "xfer", From: 0, A: 1})
	}
	bt.hash = gtypes.Tx(bt.raw).Hash()
	return bt
}

// apply updates the steering model with its prediction for bt.
func (m *model) apply(bt *builtTx) {
	if bt.from >= 0 {
		bt.modelOK = bt.okButNon && (bt.isKV || bt.nonce == m.nonce[bt.from])
		if bt.modelOK {
			if bt.creates {
				m.contracts = append(m.contracts, crypto.CreateAddress(addrs[bt.from], bt.nonce))
				m.codes = append(m.codes, bt.code)
			}
			m.nonce[bt.from]++
		}
	}
	m.all = append(m.all, *bt)
}

// expand turns the abstract blocks into raw transactions (pure function of the case).
func expand(c Case) ([][]builtTx, *model) {
	m := &model{}
	rep := c.Repeat
	if rep < 1 {
		rep = 1
	}
	if rep > 400 {
		rep = 400
	}
	out := make([][]builtTx, 0, len(c.Blocks)*rep)
	for r := 0; r < rep; r++ {
		for _, blk := range c.Blocks {
			if len(blk) > 12 {
				blk = blk[:12]
			}
			built := []builtTx{}
			for _, s := range blk {
				bt := m.build(s)
				m.apply(&bt)
				built = append(built, bt)
			}
			out = append(out, built)
		}
	}
	return out, m
}
