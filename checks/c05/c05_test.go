package c05

import (
	"testing"

	"pgregory.net/rapid"

	"verif/internal/h"
)

func TestMain(m *testing.M) { h.Main(m) }

// TestHistories: replica A (one lifetime) vs replica B (generated history: restarts, worker
// count, GOMAXPROCS) vs replica C (catches up later) on a generated block sequence.
func TestHistories(t *testing.T) {
	h.Check(t, h.Spec[Case]{Prop: "C05", Leg: "histories", Gen: genCase, Run: func(c Case, x *h.Ctx) { runCase(c, x) }})
}

// legRule lets a leg apply its own non-triviality rule to the shared runner.
type legRule struct {
	*h.Ctx
	labels map[string]bool
}

func (l *legRule) Label(s string)          { l.labels[s] = true; l.Ctx.Label(s) }
func (l *legRule) NonTrivial(fp ...string) {}

// genScheduleCase: a long chain made of the same few blocks, dominated by transactions the
// parallel verifier must reject (broken signatures, undecodable bytes) between valid ones;
// two replicas with different worker counts / GOMAXPROCS. Every block execution is one more
// sample of the verifier's goroutine schedule.
func genScheduleCase(t *rapid.T) Case {
	c := Case{SkipC: true}
	nb := rapid.IntRange(1, 2).Draw(t, "blocks")
	for i := 0; i < nb; i++ {
		n := rapid.IntRange(4, 12).Draw(t, "ntx")
		var blk []TxSpec
		for j := 0; j < n; j++ {
			var s TxSpec
			switch d := rapid.IntRange(0, 19).Draw(t, "class"); {
			case d >= 8:
				s = TxSpec{K: "badsig", From: rapid.IntRange(0, nAcct-1).Draw(t, "from"), A: rapid.IntRange(0, 4).Draw(t, "variant")}
			case d >= 5:
				s = TxSpec{K: "garbage", D: rapid.SliceOfN(rapid.Byte(), 1, 12).Draw(t, "bytes")}
			default:
				s = genTx(t)
			}
			blk = append(blk, s)
		}
		c.Blocks = append(c.Blocks, blk)
	}
	c.Repeat = rapid.IntRange(10, 60).Draw(t, "repeat")
	n := nb * c.Repeat
	c.B.RestartAfter = []int{}
	if rapid.IntRange(0, 2).Draw(t, "restart") == 2 {
		c.B.RestartAfter = append(c.B.RestartAfter, rapid.IntRange(1, n-1).Draw(t, "at"))
	}
	c.WorkersA = rapid.SampledFrom([]int{2, 8, 16}).Draw(t, "workersA")
	c.B.Workers = rapid.SampledFrom([]int{2, 8, 16}).Draw(t, "workersB")
	c.B.Procs = rapid.SampledFrom([]int{0, 1, 2, 16}).Draw(t, "procsB")
	c.WorkersC = 8
	return c
}

// TestSchedule: many block executions per case (two replicas, long chain of reject-heavy
// blocks): samples goroutine schedules of the parallel verifier without the race detector.
func TestSchedule(t *testing.T) {
	h.Check(t, h.Spec[Case]{Prop: "C05", Leg: "schedule", Gen: genScheduleCase, Run: func(c Case, x *h.Ctx) {
		l := &legRule{Ctx: x, labels: map[string]bool{}}
		runCase(c, l)
		n := len(c.Blocks) * c.Repeat
		if !x.Failed() && n >= 10 && l.labels["sig-failures>0"] && c.WorkersA >= 2 && c.B.Workers >= 2 {
			x.NonTrivial()
		}
	}})
}
