package c05

import (
	"testing"

	"verif/internal/h"
)

func TestMain(m *testing.M) { h.Main(m) }

// TestHistories: replica A (one lifetime) vs replica B (generated history: restarts, worker
// count, GOMAXPROCS) vs replica C (catches up later) on a generated block sequence.
func TestHistories(t *testing.T) {
	h.Check(t, h.Spec[Case]{Prop: "C05", Leg: "histories", Gen: genCase, Run: func(c Case, x *h.Ctx) { runCase(c, x) }})
}
