// C05 runner: drives the real EVMApp (chain/app/evm) through OnExecute/OnCommit/Query on
// LevelDB directories, once per replica, and compares the replicas.
package c05

import (
	"bytes"
	"encoding/binary"
	"errors"
	"fmt"
	"math/big"
	"os"
	"path/filepath"
	"runtime"
	"strings"
	"time"

	"github.com/spf13/viper"
	"go.uber.org/zap"

	"github.com/dappledger/AnnChain/chain/app/evm"
	rtypes "github.com/dappledger/AnnChain/chain/types"
	"github.com/dappledger/AnnChain/eth/common"
	etypes "github.com/dappledger/AnnChain/eth/core/types"
	"github.com/dappledger/AnnChain/eth/crypto"
	"github.com/dappledger/AnnChain/eth/rlp"
	glog "github.com/dappledger/AnnChain/gemmill/modules/go-log"
	merkle "github.com/dappledger/AnnChain/gemmill/modules/go-merkle"
	gtypes "github.com/dappledger/AnnChain/gemmill/types"
)

func init() { glog.SetLog(zap.NewNop()) }

// reporter is the part of *h.Ctx the runner needs (the race leg runs the runner in a child
// process with a recording implementation).
type reporter interface {
	Fail(sig string, f string, a ...any) bool
	Label(l string)
	NonTrivial(fp ...string)
}

func tmpBase() string {
	if d := os.Getenv("C05_TMP"); d != "" {
		return d
	}
	if st, err := os.Stat("/dev/shm"); err == nil && st.IsDir() {
		return "/dev/shm"
	}
	return os.TempDir()
}

// ---------------------------------------------------------------------------------------
// the chain

type blockParam struct {
	height   int64
	txs      [][]byte
	appHash  []byte // result of block height-1 (as every honest proposer would put it)
	rcptHash []byte
	lastID   gtypes.BlockID
	timeOff  int64 // seconds added to the regular header time
}

func mkBlock(p blockParam) *gtypes.Block {
	txs := make(gtypes.Txs, len(p.txs))
	for i := range p.txs {
		txs[i] = append(gtypes.Tx{}, p.txs[i]...)
	}
	return &gtypes.Block{
		Header: &gtypes.Header{
			ChainID:         "c05",
			Height:          p.height,
			Time:            time.Unix(1600000000+3*p.height+p.timeOff, 0).UTC(),
			NumTxs:          int64(len(txs)),
			LastBlockID:     p.lastID,
			ValidatorsHash:  []byte("c05-validators-hash-"),
			AppHash:         append([]byte{}, p.appHash...),
			ReceiptsHash:    append([]byte{}, p.rcptHash...),
			ProposerAddress: []byte("c05-proposer-address"),
		},
		Data:       &gtypes.Data{Txs: txs},
		LastCommit: &gtypes.Commit{},
	}
}

// fakeCore is what the node gives the application: block metas of the blocks this replica
// already has (used by the "contract call at height" query).
type fakeCore struct {
	params []blockParam
	upto   int
}

func (f *fakeCore) Query(byte, []byte) (interface{}, error) {
	return nil, errors.New("not available in the harness")
}

func (f *fakeCore) GetBlockMeta(height int64) (*gtypes.BlockMeta, error) {
	if height < 1 || int(height) > f.upto {
		return nil, fmt.Errorf("no block at height %d", height)
	}
	b := mkBlock(f.params[height-1])
	return &gtypes.BlockMeta{Hash: b.Hash(), Header: b.Header}, nil
}

// ---------------------------------------------------------------------------------------
// one replica

type replica struct {
	name          string
	dir           string
	app           *evm.EVMApp
	core          *fakeCore
	lifetimeStart int  // height after which the current process lifetime began
	execInLife    int  // blocks executed in the current lifetime
	hung          bool // a block never came back: the application object is abandoned
}

// errHang: OnExecute / OnCommit of a block did not return. A block normally takes milliseconds;
// the replica is given two periods of stepPatience, and a replica that is merely slow returns in
// the second one at the latest.
var errHang = errors.New("the call never returned")

const stepPatience = 90 * time.Second

func (r *replica) open() error {
	conf := viper.New()
	conf.Set("db_dir", r.dir)
	conf.Set("block_size", 5000)
	app, err := evm.NewEVMApp(conf)
	if err != nil {
		return err
	}
	app.SetCore(r.core)
	if err := app.Start(); err != nil {
		return err
	}
	r.app = app
	r.execInLife = 0
	return nil
}

func (r *replica) close() {
	if r.app != nil && !r.hung {
		r.app.Stop()
	}
	r.app = nil
}

type blockObs struct {
	app, rcpt  []byte
	valid      [][]byte
	invalid    [][]byte
	invalidErr []string
	tornErr    string
}

func (r *replica) step(p blockParam) (blockObs, error) {
	type out struct {
		o   blockObs
		err error
	}
	ch := make(chan out, 1)
	go func() {
		o, err := r.stepBlocking(p)
		ch <- out{o, err}
	}()
	for i := 0; i < 2; i++ {
		select {
		case res := <-ch:
			return res.o, res.err
		case <-time.After(stepPatience):
		}
	}
	r.hung = true
	return blockObs{}, fmt.Errorf("block %d on replica %s: %w (waited %v)", p.height, r.name, errHang, 2*stepPatience)
}

func (r *replica) stepBlocking(p blockParam) (blockObs, error) {
	var o blockObs
	blk := mkBlock(p)
	r.core.upto = int(p.height)
	res, err := r.app.OnExecute(p.height, 0, blk)
	if err != nil {
		return o, fmt.Errorf("OnExecute(%d): %v", p.height, err)
	}
	if _, ok := res.(gtypes.ExecuteResult); !ok {
		return o, fmt.Errorf("OnExecute(%d) returned %T", p.height, res)
	}
	o = resToObs(res)
	cres, err := r.app.OnCommit(p.height, 0, blk)
	if err != nil {
		return o, fmt.Errorf("OnCommit(%d): %v", p.height, err)
	}
	cr, ok := cres.(gtypes.CommitResult)
	if !ok {
		return o, fmt.Errorf("OnCommit(%d) returned %T", p.height, cres)
	}
	o.app = append([]byte{}, cr.AppHash...)
	o.rcpt = append([]byte{}, cr.ReceiptsHash...)
	r.execInLife++
	return o, nil
}

// ---------------------------------------------------------------------------------------
// queries

type namedQuery struct {
	name    string
	kind    string
	payload []byte
}

type qres struct {
	name, kind, res string
}

func safeQuery(app *evm.EVMApp, payload []byte) (s string) {
	defer func() {
		if p := recover(); p != nil {
			s = fmt.Sprintf("PANIC %v", p)
		}
	}()
	res := app.Query(payload)
	return fmt.Sprintf("code=%d data=%x log=%q", res.Code, res.Data, res.Log)
}

func (r *replica) ask(qs []namedQuery) []qres {
	out := make([]qres, len(qs))
	for i, q := range qs {
		out[i] = qres{q.name, q.kind, safeQuery(r.app, q.payload)}
	}
	return out
}

func callTx(to common.Address, arg int) []byte {
	tx := etypes.NewTransaction(0, to, big.NewInt(0), txGas, big.NewInt(0), word(arg))
	stx, _ := signTx(tx, keys[0])
	return encTx(stx)
}

// buildQueries lists the queries asked at height cur: a pure function of the case.
func buildQueries(cur int, txs [][]builtTx, m *model, contractsUpTo []int) []namedQuery {
	var qs []namedQuery
	add := func(kind, name string, typ byte, load []byte) {
		qs = append(qs, namedQuery{name: name, kind: kind, payload: append([]byte{typ}, load...)})
	}
	for i := 0; i < nAcct; i++ {
		add("nonce", fmt.Sprintf("nonce(acct%d)", i), rtypes.QueryType_Nonce, addrs[i].Bytes())
	}
	add("nonce", "nonce(plain)", rtypes.QueryType_Nonce, plainAddr[0].Bytes())
	keys := map[string]bool{"absent": true}
	seenHash := map[string]bool{}
	for hgt := 1; hgt <= cur; hgt++ {
		for j, bt := range txs[hgt-1] {
			if !seenHash[string(bt.hash)] {
				seenHash[string(bt.hash)] = true
				add("receipt", fmt.Sprintf("receipt(h%d#%d %s)", hgt, j, bt.kind), rtypes.QueryType_Receipt, bt.hash)
			}
			if bt.kv != nil {
				keys[string(bt.kv.Key)] = true
			}
		}
	}
	// keys of the whole case (also the ones written later: must be absent everywhere)
	for _, blk := range txs {
		for _, bt := range blk {
			if bt.kv != nil {
				keys[string(bt.kv.Key)] = true
			}
		}
	}
	klist := make([]string, 0, len(keys))
	for k := range keys {
		klist = append(klist, k)
	}
	sortStrings(klist)
	for _, k := range klist {
		nm := k
		if len(nm) > 12 {
			nm = fmt.Sprintf("%s..(%d)", nm[:8], len(nm))
		}
		add("key", fmt.Sprintf("key(%q)", nm), rtypes.QueryType_Key, []byte(k))
		page := make([]byte, 8)
		binary.BigEndian.PutUint32(page[:4], 1)
		binary.BigEndian.PutUint32(page[4:], 20)
		if len(k) > 0 { // the history query needs a non-empty key (length check in Query)
			add("keyhistory", fmt.Sprintf("keyhistory(%q)", nm), rtypes.QueryType_Key_Update_History, append(page, []byte(k)...))
		}
	}
	for _, pfx := range []string{"", "k"} {
		load, _ := rlp.EncodeToBytes(&struct {
			Prefix  []byte
			LastKey []byte
			Limit   uint32
		}{[]byte(pfx), nil, 100})
		add("keyprefix", fmt.Sprintf("keyprefix(%q)", pfx), rtypes.QueryType_Key_Prefix, load)
	}
	nc := contractsUpTo[cur-1]
	for i := 0; i < nc && i < 6; i++ {
		to := m.contracts[i]
		add("call", fmt.Sprintf("call(contract%d)", i), rtypes.QueryType_Contract, callTx(to, 3))
		ex := etypes.NewTransaction(0, to, big.NewInt(0), txGas, big.NewInt(0), crypto.Keccak256(m.codes[i]))
		add("existence", fmt.Sprintf("existence(contract%d)", i), rtypes.QueryType_Existence, encTx(ex))
		for _, at := range []int{1, cur - 1} {
			if at >= 1 && at < cur {
				hb := make([]byte, 8)
				binary.BigEndian.PutUint64(hb, uint64(at))
				add("callat", fmt.Sprintf("callat(contract%d@%d)", i, at), rtypes.QueryTypeContractByHeight, append(callTx(to, 3), hb...))
			}
		}
	}
	return qs
}

func sortStrings(s []string) {
	for i := 1; i < len(s); i++ {
		for j := i; j > 0 && s[j] < s[j-1]; j-- {
			s[j], s[j-1] = s[j-1], s[j]
		}
	}
}

// ---------------------------------------------------------------------------------------
// the property

func short(b []byte) string {
	if len(b) > 10 {
		return fmt.Sprintf("%x..", b[:10])
	}
	return fmt.Sprintf("%x", b)
}

func sameList(a, b [][]byte) bool {
	if len(a) != len(b) {
		return false
	}
	for i := range a {
		if !bytes.Equal(a[i], b[i]) {
			return false
		}
	}
	return true
}

func describeClass(txs []builtTx, o blockObs) string {
	var sb strings.Builder
	fmt.Fprintf(&sb, "valid=%d invalid=%d [", len(o.valid), len(o.invalid))
	for _, bt := range txs {
		st := "?"
		for _, v := range o.valid {
			if bytes.Equal(v, bt.raw) {
				st = "V"
			}
		}
		for i, v := range o.invalid {
			if bytes.Equal(v, bt.raw) {
				if st == "V" {
					st = "V+I"
				} else {
					st = "I(" + o.invalidErr[i] + ")"
				}
			}
		}
		fmt.Fprintf(&sb, "%s:%s ", bt.kind, st)
	}
	sb.WriteString("]")
	return sb.String()
}

// positions attributes the valid/invalid lists of a block to tx positions (valid first when
// both list heads carry the same bytes; see the comment in runCase).
func positions(txs []builtTx, o blockObs) []bool {
	out := make([]bool, len(txs))
	vi, ii := 0, 0
	for j, bt := range txs {
		switch {
		case vi < len(o.valid) && bytes.Equal(o.valid[vi], bt.raw):
			out[j] = true
			vi++
		case ii < len(o.invalid) && bytes.Equal(o.invalid[ii], bt.raw):
			ii++
		}
	}
	return out
}

func rcptHashOf(rc, kvs [][]byte) []byte {
	all := make([][]byte, 0, len(rc)+len(kvs))
	for _, b := range rc {
		all = append(all, append([]byte{}, b...))
	}
	for _, b := range kvs {
		all = append(all, append([]byte{}, b...))
	}
	return merkle.SimpleHashFromHashes(all)
}

type hctx struct {
	restarted bool // the replica was restarted at least once before this point
	catchup   bool
}

func (c hctx) String() string {
	switch {
	case c.catchup:
		return "catch-up"
	case c.restarted:
		return "after-restart"
	}
	return "same-lifetime-shape"
}

const sigKvsNotReset = "receiptshash-carries-kv-records-of-earlier-blocks-of-the-process-lifetime"
const sigBadSigValid = "tx-with-invalid-signature-classified-valid"
const sigNoBytes = "execute-result-entry-without-tx-bytes"
const sigCallAfterRestart = "contract-call-query-panics-on-restarted-replica-before-its-next-block"

func runCase(c Case, x reporter) {
	txs, m := expand(c)
	n := len(txs)
	if n == 0 {
		x.Label("no-blocks")
		return
	}
	base, err := os.MkdirTemp(tmpBase(), "c05-")
	if err != nil {
		panic(err)
	}
	defer os.RemoveAll(base)
	defer evm.VerifSetValidateRoutineCount(evm.VerifSetValidateRoutineCount(8))

	restartAfter := map[int]bool{}
	inside := 0
	for _, r := range c.B.RestartAfter {
		if r >= 1 && r <= n && !restartAfter[r] {
			restartAfter[r] = true
			if r < n {
				inside++
			}
		}
	}

	// number of model contracts existing after each height (queries are a function of the case)
	contractsUpTo := make([]int, n)
	{
		cnt := 0
		for i := range txs {
			for _, bt := range txs[i] {
				if bt.creates && bt.modelOK {
					cnt++
				}
			}
			contractsUpTo[i] = cnt
		}
	}

	// heights (index) at which some replica is compared with A's query answers
	needQ := make([]bool, n)
	for i := 0; i < n; i++ {
		needQ[i] = c.QueryEvery || i == n-1 || restartAfter[i+1]
	}

	// anomalies judges one block observation on its own (no second replica needed): shapes
	// that are wrong on any replica and whose root causes are schedule-dependent. It returns
	// flagged=true when the classification lists of this observation are unusable for the
	// list comparison, stop=true when a new violation was reported.
	anomalies := func(R string, i int, o blockObs) (flagged, stop bool) {
		for _, v := range o.valid {
			if len(v) > 0 && sigInvalid(v) {
				flagged = true
				if x.Fail(sigBadSigValid, "height %d replica %s: a transaction whose signature is invalid (Sender fails on its bytes) was reported in ExecuteResult.ValidTxs: %s", i+1, R, describeClass(txs[i], o)) {
					return flagged, true
				}
				break
			}
		}
		if o.tornErr != "" {
			flagged = true
			if x.Fail(sigBadSigValid, "height %d replica %s: ExecuteResult.InvalidTxs carries an error value that was read while the verifier goroutine was still writing it (%s); Error() on it panics (the node calls it in execBlockOnApp)", i+1, R, o.tornErr) {
				return flagged, true
			}
		}
		for _, l := range [][][]byte{o.valid, o.invalid} {
			for _, v := range l {
				if len(v) == 0 {
					flagged = true
					if x.Fail(sigNoBytes, "height %d replica %s: ExecuteResult has an entry with no tx bytes although every tx of the block is non-empty: %s", i+1, R, describeClass(txs[i], o)) {
						return flagged, true
					}
					return flagged, false
				}
			}
		}
		return flagged, false
	}

	// ---- replica A: one lifetime; its results define the headers of the chain --------------
	params := make([]blockParam, n)
	obsA := make([]blockObs, n)
	flagA := make([]bool, n)
	receipted := map[string]bool{}
	qsAt := make([][]namedQuery, n)
	qA := make([][]qres, n)
	rcptBytes := make([][][]byte, n) // stored receipts of the valid non-KV txs of block i, in order
	kvBytes := make([][][]byte, n)   // rlp(KV) of the valid KV txs of block i, in order
	totalValid, totalLogs, failedStatus, modelMismatch, kvBlocks, rcptBlocks, sigFailures := 0, 0, 0, 0, 0, 0, 0
	{
		A := &replica{name: "A", dir: filepath.Join(base, "a"), core: &fakeCore{params: params}}
		evm.VerifSetValidateRoutineCount(c.WorkersA)
		if err := A.open(); err != nil {
			panic(fmt.Sprintf("replica A open: %v", err))
		}
		defer A.close()
		var prevApp, prevRcpt []byte
		var lastID gtypes.BlockID
		for i := 0; i < n; i++ {
			p := blockParam{height: int64(i + 1), appHash: prevApp, rcptHash: prevRcpt, lastID: lastID}
			if len(c.TimeOff) > 0 {
				p.timeOff = int64(c.TimeOff[i%len(c.TimeOff)])
				if i > 0 && 3*p.height+p.timeOff <= 3*params[i-1].height+params[i-1].timeOff {
					x.Label("block-time-not-after-previous-block")
				}
			}
			for _, bt := range txs[i] {
				p.txs = append(p.txs, bt.raw)
			}
			params[i] = p
			o, err := A.step(p)
			if err != nil {
				if errors.Is(err, errHang) {
					x.Fail("replica-hangs-in-block-execution", "replica A (%d signature workers): %v", c.WorkersA, err)
					return
				}
				if x.Fail("execute-or-commit-fails", "replica A: %v", err) {
					return
				}
				return
			}
			obsA[i] = o
			if f, stop := anomalies("A", i, o); stop {
				return
			} else if f {
				flagA[i] = true
			}
			if len(o.valid)+len(o.invalid) != len(txs[i]) {
				if x.Fail("tx-neither-valid-nor-invalid", "height %d: %d txs but %s", i+1, len(txs[i]), describeClass(txs[i], o)) {
					return
				}
			}
			for _, e := range o.invalidErr {
				if strings.Contains(e, "invalid transaction v, r, s values") || strings.Contains(e, "recovery failed") || strings.Contains(e, "invalid signature recovery id") {
					sigFailures++
				}
			}
			if needQ[i] {
				qsAt[i] = buildQueries(i+1, txs, m, contractsUpTo)
				qA[i] = A.ask(qsAt[i])
			}
			// per-block receipt / kv material (for attributing the kvs-not-reset finding and for
			// labels): which txs were executed, by position. Normally read off the classification
			// lists; when those are damaged by the known verifier races (flagA) the steering model
			// decides (a kv tx is executed iff its payload decodes; for txs of unknown sender: iff
			// a receipt for the hash exists now and did not before).
			pos := positions(txs[i], o)
			for j, bt := range txs[i] {
				executed := pos[j]
				if flagA[i] {
					switch {
					case bt.isKV:
						executed = bt.kv != nil
					case bt.from >= 0:
						executed = bt.modelOK
					default:
						executed = !receipted[string(bt.hash)]
					}
				} else if pos[j] != bt.modelOK && bt.from >= 0 {
					modelMismatch++
				}
				if !executed {
					continue
				}
				totalValid++
				if bt.isKV {
					if bt.kv != nil {
						b, _ := rlp.EncodeToBytes(bt.kv)
						kvBytes[i] = append(kvBytes[i], b)
					}
					continue
				}
				res := A.app.Query(append([]byte{rtypes.QueryType_Receipt}, bt.hash...))
				if res.Code == gtypes.CodeType_OK {
					receipted[string(bt.hash)] = true
					rcptBytes[i] = append(rcptBytes[i], append([]byte{}, res.Data...))
					var rs etypes.ReceiptForStorage
					if rlp.DecodeBytes(res.Data, &rs) == nil {
						totalLogs += len(rs.Logs)
						if rs.Status == 0 {
							failedStatus++
						}
					}
				}
			}
			if len(kvBytes[i]) > 0 {
				kvBlocks++
			}
			if len(rcptBytes[i]) > 0 {
				rcptBlocks++
			}
			prevApp, prevRcpt = o.app, o.rcpt
			blk := mkBlock(p)
			lastID = gtypes.BlockID{Hash: blk.Hash()}
		}
		A.close()
	}

	// expected receipts hash of a replica whose current lifetime began after height `start`,
	// under the observed accumulation behaviour (equals the per-block hash when start == h-1
	// or when no kv tx was valid in between)
	accum := func(start, h int) []byte {
		var kvs [][]byte
		for i := start; i < h; i++ {
			kvs = append(kvs, kvBytes[i]...)
		}
		return rcptHashOf(rcptBytes[h-1], kvs)
	}
	staleKV := func(start, h int) int {
		k := 0
		for i := start; i < h-1; i++ {
			k += len(kvBytes[i])
		}
		return k
	}

	// compare one block observation of replica R (lifetime began after `start`) with A's
	compareBlock := func(R string, i int, o blockObs, start int, hc hctx) bool {
		a := obsA[i]
		hgt := i + 1
		if !bytes.Equal(a.app, o.app) {
			if x.Fail("apphash-differs:"+hc.String(), "height %d: AppHash A=%x %s=%x (%s, lifetime of %s began after height %d)", hgt, a.app, R, o.app, hc, R, start) {
				return false
			}
		}
		f, stop := anomalies(R, i, o)
		if stop {
			return false
		}
		if !f && !flagA[i] && (!sameList(a.valid, o.valid) || !sameList(a.invalid, o.invalid)) {
			if x.Fail("tx-classification-differs:"+hc.String(), "height %d: A %s | %s %s", hgt, describeClass(txs[i], a), R, describeClass(txs[i], o)) {
				return false
			}
		}
		if !bytes.Equal(a.rcpt, o.rcpt) {
			// attribution of the known root cause: both replicas report exactly the Merkle root
			// over this block's receipts followed by ALL kv records since their own process
			// start, and those record sets differ.
			if staleKV(0, hgt) != staleKV(start, hgt) && bytes.Equal(a.rcpt, accum(0, hgt)) && bytes.Equal(o.rcpt, accum(start, hgt)) {
				if x.Fail(sigKvsNotReset, "height %d: ReceiptsHash A=%x (one lifetime, carries %d kv records of earlier blocks) but %s=%x (lifetime began after height %d, carries %d); block %d itself has %d receipts and %d kv records; the next proposed block (header ReceiptsHash=%x) is rejected by %s",
					hgt, a.rcpt, staleKV(0, hgt), R, o.rcpt, start, staleKV(start, hgt), hgt, len(rcptBytes[i]), len(kvBytes[i]), a.rcpt, R) {
					return false
				}
			} else if x.Fail("receiptshash-differs:"+hc.String(), "height %d: ReceiptsHash A=%x %s=%x (%s; per-block expectation %x)", hgt, a.rcpt, R, o.rcpt, hc, accum(hgt-1, hgt)) {
				return false
			}
		}
		return true
	}
	compareQueries := func(R string, i int, got []qres, hc hctx, freshLifetime bool) bool {
		want := qA[i]
		for k := range want {
			if want[k].res == got[k].res {
				continue
			}
			if freshLifetime && (got[k].kind == "call") && strings.HasPrefix(got[k].res, "PANIC") && strings.Contains(got[k].res, "nil pointer") {
				if x.Fail(sigCallAfterRestart, "at height %d %s: A answers %s but %s (restarted after height %d, no block executed yet in this lifetime) answers %s", i+1, want[k].name, want[k].res, R, i+1, got[k].res) {
					return false
				}
				continue
			}
			if x.Fail("query-"+got[k].kind+"-differs:"+hc.String(), "at height %d %s: A=%s %s=%s (%s)", i+1, want[k].name, trunc(want[k].res, 300), R, trunc(got[k].res, 300), hc) {
				return false
			}
		}
		return true
	}

	// ---- replica B: the generated history ---------------------------------------------------
	ok := func() bool {
		if c.B.Procs > 0 {
			defer runtime.GOMAXPROCS(runtime.GOMAXPROCS(c.B.Procs))
		}
		evm.VerifSetValidateRoutineCount(c.B.Workers)
		B := &replica{name: "B", dir: filepath.Join(base, "b"), core: &fakeCore{params: params}}
		if err := B.open(); err != nil {
			panic(fmt.Sprintf("replica B open: %v", err))
		}
		defer B.close()
		restarted := false
		for i := 0; i < n; i++ {
			o, err := B.step(params[i])
			if err != nil {
				if errors.Is(err, errHang) {
					x.Fail("replica-hangs-in-block-execution", "replica B (%d signature workers) hangs where replica A (%d workers) executed the same block: %v", c.B.Workers, c.WorkersA, err)
					return false
				}
				x.Fail("execute-or-commit-fails:"+hctx{restarted: restarted}.String(), "replica B: %v", err)
				return false
			}
			hc := hctx{restarted: restarted}
			if !compareBlock("B", i, o, B.lifetimeStart, hc) {
				return false
			}
			if c.QueryEvery || i == n-1 {
				if !compareQueries("B", i, B.ask(qsAt[i]), hc, false) {
					return false
				}
			}
			if restartAfter[i+1] {
				B.close()
				if err := B.open(); err != nil {
					x.Fail("reopen-fails", "replica B cannot reopen its data directory after height %d: %v", i+1, err)
					return false
				}
				B.core.upto = i + 1
				B.lifetimeStart = i + 1
				restarted = true
				if !compareQueries("B", i, B.ask(qsAt[i]), hctx{restarted: true}, true) {
					return false
				}
			}
		}
		return true
	}()
	if !ok {
		return
	}

	// ---- replica C: catches up later, from genesis, queried only at the end -------------------
	if !c.SkipC {
		evm.VerifSetValidateRoutineCount(c.WorkersC)
		C := &replica{name: "C", dir: filepath.Join(base, "c"), core: &fakeCore{params: params}}
		if err := C.open(); err != nil {
			panic(fmt.Sprintf("replica C open: %v", err))
		}
		defer C.close()
		hc := hctx{catchup: true}
		for i := 0; i < n; i++ {
			o, err := C.step(params[i])
			if err != nil {
				if errors.Is(err, errHang) {
					x.Fail("replica-hangs-in-block-execution", "replica C (%d signature workers) hangs where replica A (%d workers) executed the same block: %v", c.WorkersC, c.WorkersA, err)
					return
				}
				x.Fail("execute-or-commit-fails:catch-up", "replica C: %v", err)
				return
			}
			if !compareBlock("C", i, o, 0, hc) {
				return
			}
		}
		if !compareQueries("C", n-1, C.ask(qsAt[n-1]), hc, false) {
			return
		}
	}

	// ---- evidence ---------------------------------------------------------------------------
	x.Label("blocks:" + bucketBlocks(n))
	x.Label(fmt.Sprintf("restarts-inside:%d", min(inside, 3)))
	if restartAfter[n] {
		x.Label("restart-after-last-block")
	}
	x.Label(fmt.Sprintf("workersB:%d", c.B.Workers))
	x.Label(fmt.Sprintf("procsB:%d", c.B.Procs))
	kinds := map[string]bool{}
	ntx := 0
	emptyBlocks := 0
	for i := range txs {
		if len(txs[i]) == 0 {
			emptyBlocks++
		}
		for _, bt := range txs[i] {
			kinds[bt.kind] = true
			ntx++
		}
	}
	kl := make([]string, 0, len(kinds))
	for k := range kinds {
		kl = append(kl, k)
	}
	sortStrings(kl)
	for _, k := range kl {
		x.Label("kind:" + k)
	}
	if emptyBlocks > 0 {
		x.Label("has-empty-block")
	}
	x.Label("txs:" + bucket(ntx))
	x.Label("valid-txs:" + bucket(totalValid))
	if kvBlocks > 0 {
		x.Label("blocks-with-valid-kv>0")
	}
	if rcptBlocks > 0 {
		x.Label("blocks-with-receipts>0")
	}
	if totalLogs > 0 {
		x.Label("receipts-with-logs>0")
	}
	if failedStatus > 0 {
		x.Label("receipts-with-failed-status>0")
	}
	if contractsUpTo[n-1] > 0 {
		x.Label("contract-queries>0")
	}
	if sigFailures > 0 {
		x.Label("sig-failures>0")
	}
	if modelMismatch > 0 {
		x.Label("steering-model-mismatch")
	}
	shapeS3 := false
	for r := range restartAfter {
		for hgt := r + 1; hgt <= n; hgt++ {
			if staleKV(0, hgt) != staleKV(r, hgt) {
				shapeS3 = true
			}
		}
	}
	if shapeS3 {
		x.Label("restart-between-kv-block-and-later-block")
	}
	if n >= 2 && inside >= 1 && (kvBlocks > 0 || rcptBlocks > 0) {
		x.NonTrivial()
	}
}

func bucketBlocks(n int) string {
	switch {
	case n <= 8:
		return fmt.Sprint(n)
	case n <= 40:
		return "9-40"
	case n <= 150:
		return "41-150"
	}
	return "151+"
}

func bucket(n int) string {
	switch {
	case n == 0:
		return "0"
	case n <= 5:
		return "1-5"
	case n <= 20:
		return "6-20"
	}
	return "21+"
}

func trunc(s string, n int) string {
	if len(s) > n {
		return s[:n] + "…"
	}
	return s
}

func resToObs(res interface{}) blockObs {
	var o blockObs
	er, ok := res.(gtypes.ExecuteResult)
	if !ok {
		return o
	}
	for _, v := range er.ValidTxs {
		o.valid = append(o.valid, append([]byte{}, v...))
	}
	for _, iv := range er.InvalidTxs {
		o.invalid = append(o.invalid, append([]byte{}, iv.Bytes...))
		msg, torn := errText(iv.Error)
		if torn {
			o.tornErr = msg
		}
		o.invalidErr = append(o.invalidErr, msg)
	}
	return o
}

// errText renders an error; an error interface that was read while another goroutine was
// writing it (type word set, data word not yet) panics in Error(): reported, not propagated.
func errText(e error) (msg string, torn bool) {
	if e == nil {
		return "<nil>", false
	}
	defer func() {
		if p := recover(); p != nil {
			msg, torn = fmt.Sprintf("<error value unusable: %v>", p), true
		}
	}()
	return e.Error(), false
}

// sigInvalid tells whether raw decodes as a transaction whose signature is invalid under the
// application's signer (a pure function of the bytes).
func sigInvalid(raw []byte) bool {
	tx := new(etypes.Transaction)
	if rlp.DecodeBytes(raw, tx) != nil {
		return false
	}
	_, err := etypes.Sender(signer, tx)
	return err != nil
}
