//go:build verif

package c09

import "github.com/dappledger/AnnChain/chain/app/evm"

// setVerifierRoutines sets the number of signature-checking goroutines of the parallel
// verifier (hook H3, build tag verif; the driver always builds with it).
func setVerifierRoutines(n int) { evm.VerifSetValidateRoutineCount(n) }
