package c09

// Execution engine of C09 (runs inside the worker child process): builds the transaction
// bytes of a case, drives two real EVMApp instances (A: the blocks as generated, B: the same
// blocks with every transaction that A reported invalid removed) and evaluates the oracles.

import (
	"bytes"
	"crypto/ecdsa"
	"encoding/binary"
	"encoding/json"
	"fmt"
	"math/big"
	"os"
	"path/filepath"
	"runtime"
	"sort"
	"strings"
	"time"
	"unsafe"

	"github.com/spf13/viper"
	"go.uber.org/zap"

	"github.com/dappledger/AnnChain/chain/app/evm"
	rtypes "github.com/dappledger/AnnChain/chain/types"
	"github.com/dappledger/AnnChain/eth/common"
	ecore "github.com/dappledger/AnnChain/eth/core"
	etypes "github.com/dappledger/AnnChain/eth/core/types"
	"github.com/dappledger/AnnChain/eth/core/vm"
	ecrypto "github.com/dappledger/AnnChain/eth/crypto"
	"github.com/dappledger/AnnChain/eth/rlp"
	gcrypto "github.com/dappledger/AnnChain/gemmill/go-crypto"
	glog "github.com/dappledger/AnnChain/gemmill/modules/go-log"
	"github.com/dappledger/AnnChain/gemmill/plugin"
	gtypes "github.com/dappledger/AnnChain/gemmill/types"

	"verif/internal/h"
)

// ---- signatures (root causes) ----

const (
	sigEmptyTx      = "empty-tx-nil-transaction-deref"          // S5
	sigAdminSlice   = "adminop-run-slices-input-unchecked"      // S6
	sigGasPool      = "onexecute-panics@core.(*GasPool).AddGas" // value-carrying calls hand out unpaid gas
	sigKVNonce      = "kv-tx-applied-without-nonce-check"       // S4
	sigNonce        = "tx-applied-with-wrong-nonce"             // (iv)
	sigNonceStep    = "nonce-not-raised-by-exactly-one"         // (iv)
	sigPartition    = "tx-not-in-exactly-one-of-valid-invalid"  // (iii)
	sigAtomicity    = "apphash-changed-by-invalid-tx"           // (ii)
	sigAtomicityRcp = "receiptshash-changed-by-invalid-tx"      // (ii), receipts side
	sigFlip         = "valid-tx-invalid-once-invalid-txs-removed"
	sigUndecodable  = "undecodable-or-unsigned-tx-reported-valid"
	sigNoReceipt    = "valid-tx-without-receipt"   // (v)
	sigNoKVRecord   = "valid-kv-tx-without-record" // (v)
	sigGhostReceipt = "invalid-tx-left-a-receipt"
	sigGhostKV      = "invalid-kv-tx-left-a-record"
	sigVerdictRace  = "verifier-publishes-status-before-data-race" // verifycpuparallel.go: oribys / err stored after the status
	sigExecErr      = "onexecute-returns-error"
	sigCommitErr    = "oncommit-fails"
)

// ---- case ----

type TxSpec struct {
	Kind  string `json:"k"`               // raw | eth | rep
	Raw   h.Hex  `json:"raw,omitempty"`   // raw: the literal transaction bytes
	Ref   int    `json:"ref,omitempty"`   // rep: index (mod count) into the earlier transactions of the history
	Key   int    `json:"key,omitempty"`   // eth: sender key 0..3
	Nonce uint64 `json:"nonce,omitempty"` // eth: absolute nonce
	To    h.Hex  `json:"to,omitempty"`    // eth: empty = contract creation, else the recipient bytes
	Value uint64 `json:"value,omitempty"`
	Gas   uint64 `json:"gas,omitempty"`
	Price uint64 `json:"price,omitempty"`
	Data  h.Hex  `json:"data,omitempty"`
	Sig   string `json:"sig,omitempty"` // ok none badv zero-r zero-s high-s big-r big-s eip155 tamper trunc extra
	Arg   int    `json:"arg,omitempty"`
	Note  string `json:"note,omitempty"` // generator's description of the target (labels only)
}

type Case struct {
	Routines int        `json:"routines"` // signature-check goroutines (0 = default)
	Blocks   [][]TxSpec `json:"blocks"`
	// Excluded names the listed open findings whose triggering shape the generator replaced in
	// this case (evidence label only).
	Excluded []string `json:"excluded,omitempty"`
	// Stress, when set, replaces the blocks: Iters executions of one block of Txs undecodable
	// transactions on one application, checking only the valid/invalid partition (leg verdictrace).
	Stress *StressSpec `json:"stress,omitempty"`
}

type StressSpec struct {
	Kind  string `json:"kind"` // undecodable | unsigned
	Txs   int    `json:"txs"`
	Iters int    `json:"iters"`
}

type Fail struct {
	Sig string `json:"sig"`
	Msg string `json:"msg"`
}

type Result struct {
	Fails      []Fail   `json:"fails,omitempty"`
	Labels     []string `json:"labels,omitempty"`
	NonTrivial bool     `json:"nontrivial,omitempty"`
	Harness    string   `json:"harness,omitempty"` // harness-side problem (not a verdict)
}

// ---- deterministic keys ----

var (
	keys     [4]*ecdsa.PrivateKey
	addrs    [4]common.Address
	valPriv  gcrypto.PrivKeyEd25519 // the single validator of the admin plugin's validator set
	newPriv  gcrypto.PrivKeyEd25519 // a node key that is not a validator
	adminTo  = ecore.AdminTo
	hsSigner = etypes.HomesteadSigner{}
	secpN, _ = new(big.Int).SetString("fffffffffffffffffffffffffffffffebaaedce6af48a03bbfd25e8cd0364141", 16)
	fixedNow = time.Unix(1600000000, 0).UTC()
)

func init() {
	gcrypto.NodeInit(gcrypto.CryptoTypeZhongAn)
	for i := range keys {
		k, err := ecrypto.ToECDSA(ecrypto.Keccak256([]byte(fmt.Sprintf("c09-account-%d", i))))
		if err != nil {
			panic(err)
		}
		keys[i] = k
		addrs[i] = ecrypto.PubkeyToAddress(k.PublicKey)
	}
	valPriv = gcrypto.GenPrivKeyEd25519FromSecret([]byte("c09-validator"))
	newPriv = gcrypto.GenPrivKeyEd25519FromSecret([]byte("c09-new-node"))
}

// ---- building transaction bytes ----

func encodeFields(nonce uint64, price *big.Int, gas uint64, to []byte, value *big.Int, data []byte, v, r, s *big.Int, extra bool) []byte {
	fields := []interface{}{nonce, price, gas, to, value, data, v, r, s}
	if extra {
		fields = append(fields, []byte{1})
	}
	b, err := rlp.EncodeToBytes(fields)
	if err != nil {
		panic(err)
	}
	return b
}

func buildEth(s TxSpec) []byte {
	price := new(big.Int).SetUint64(s.Price)
	value := new(big.Int).SetUint64(s.Value)
	key := keys[((s.Key%4)+4)%4]
	var tx *etypes.Transaction
	toBytes := []byte(s.To)
	if len(toBytes) == 0 {
		tx = etypes.NewContractCreation(s.Nonce, value, s.Gas, price, []byte(s.Data))
	} else {
		tx = etypes.NewTransaction(s.Nonce, common.BytesToAddress(toBytes), value, s.Gas, price, []byte(s.Data))
		toBytes = common.BytesToAddress(toBytes).Bytes()
	}
	enc := func(t *etypes.Transaction) []byte {
		b, err := rlp.EncodeToBytes(t)
		if err != nil {
			panic(err)
		}
		return b
	}
	if s.Sig == "none" {
		return enc(tx)
	}
	var signer etypes.Signer = hsSigner
	if s.Sig == "eip155" {
		signer = etypes.NewEIP155Signer(big.NewInt(1))
	}
	signed, err := etypes.SignTx(tx, signer, key)
	if err != nil {
		panic(err)
	}
	v, r, sv := signed.RawSignatureValues()
	data := []byte(s.Data)
	switch s.Sig {
	case "ok", "eip155", "":
		return enc(signed)
	case "badv":
		vs := []*big.Int{big.NewInt(0), big.NewInt(1), big.NewInt(26), big.NewInt(29), big.NewInt(37), big.NewInt(255), new(big.Int).Lsh(big.NewInt(1), 70)}
		v = vs[((s.Arg%len(vs))+len(vs))%len(vs)]
	case "zero-r":
		r = new(big.Int)
	case "zero-s":
		sv = new(big.Int)
	case "high-s": // the other valid signature of the same message: accepted by Frontier rules only
		sv = new(big.Int).Sub(secpN, sv)
		v = big.NewInt(55 - v.Int64()) // 27 <-> 28
	case "big-r", "big-s": // signature values at and beyond the group order and the 32-byte word
		two256 := new(big.Int).Lsh(big.NewInt(1), 256)
		vals := []*big.Int{
			new(big.Int).Set(secpN), new(big.Int).Add(secpN, big.NewInt(1)), new(big.Int).Sub(two256, big.NewInt(1)),
			two256, new(big.Int).Add(two256, big.NewInt(5)), new(big.Int).Add(new(big.Int).Lsh(big.NewInt(1), 264), big.NewInt(1)),
			new(big.Int).Add(two256, r), new(big.Int).Lsh(big.NewInt(1), 520),
		}
		pick := vals[((s.Arg%len(vals))+len(vals))%len(vals)]
		if s.Sig == "big-r" {
			r = pick
			if s.Arg&0x80 != 0 {
				sv = big.NewInt(1) // passes every bound on s
			}
		} else {
			sv = pick
		}
	case "tamper": // signature of another payload: recovers to some unrelated address
		data = append(append([]byte{}, data...), byte(s.Arg))
	case "trunc":
		b := enc(signed)
		cut := 1 + ((s.Arg%len(b))+len(b))%len(b)
		if cut >= len(b) {
			cut = len(b) - 1
		}
		return b[:len(b)-cut]
	case "extra":
		return encodeFields(s.Nonce, price, s.Gas, toBytes, value, data, v, r, sv, true)
	case "to19": // recipient of 19 bytes
		if len(toBytes) == 20 {
			toBytes = toBytes[1:]
		} else {
			toBytes = []byte{1}
		}
	}
	return encodeFields(s.Nonce, price, s.Gas, toBytes, value, data, v, r, sv, false)
}

// buildRaw returns the transaction bytes of s; flat are the bytes of all earlier
// transactions of the history (for repetitions).
func buildRaw(s TxSpec, flat [][]byte) []byte {
	switch s.Kind {
	case "raw":
		return append([]byte{}, s.Raw...)
	case "rep":
		if len(flat) == 0 {
			return []byte{0xc0}
		}
		return append([]byte{}, flat[((s.Ref%len(flat))+len(flat))%len(flat)]...)
	default:
		return buildEth(s)
	}
}

// ---- reference reading of a transaction (what the bytes say) ----

type txInfo struct {
	raw       []byte
	decodable bool
	signed    bool // sender recoverable under the application's (Homestead) signer
	sender    common.Address
	nonce     uint64
	hash      []byte
	isKV      bool
	kvOK      bool
	kvKey     []byte
	kvVal     []byte
	to        *common.Address
	dataLen   int
}

func readTx(raw []byte) txInfo {
	ti := txInfo{raw: raw}
	if len(raw) == 0 {
		return ti
	}
	tx := new(etypes.Transaction)
	if err := rlp.DecodeBytes(raw, tx); err != nil {
		return ti
	}
	ti.decodable = true
	ti.nonce = tx.Nonce()
	ti.to = tx.To()
	re, _ := rlp.EncodeToBytes(tx)
	ti.hash = gtypes.Tx(re).Hash()
	data := tx.Data()
	ti.dataLen = len(data)
	if from, err := etypes.Sender(hsSigner, tx); err == nil {
		ti.signed = true
		ti.sender = from
	}
	if bytes.HasPrefix(data, rtypes.KVTxType) {
		ti.isKV = true
		kv := &rtypes.KV{}
		if err := rlp.DecodeBytes(data[len(rtypes.KVTxType):], kv); err == nil {
			ti.kvOK = true
			ti.kvKey, ti.kvVal = kv.Key, kv.Value
		}
	}
	return ti
}

// ---- the application under test ----

var adminPlugin *plugin.AdminOp
var adminVals *gtypes.ValidatorSet

func setupProcess() {
	glog.SetLog(zap.NewNop())
	glog.SetAuditLog(zap.NewNop())
	// The governance precompile 0xfe calls back into the node (chain/core/node.go wires
	// vm.DefaultAdminContract to Angine.ExecAdminTx -> plugin.AdminOp.ExecTX). Without a node
	// the same plugin code is wired directly, over a one-validator set.
	adminVals = gtypes.NewValidatorSet([]*gtypes.Validator{gtypes.NewValidator(valPriv.PubKey(), 10, true)})
	adminPlugin = &plugin.AdminOp{}
	adminPlugin.Init(&plugin.InitParams{Validators: &adminVals})
	vm.DefaultAdminContract.SetCallback(func(app *vm.AdminDBApp, data []byte) error {
		return adminPlugin.ExecTX(app, data)
	})
}

func scratchRoot() string {
	if d := os.Getenv("C09_SCRATCH"); d != "" {
		return d
	}
	if st, err := os.Stat("/dev/shm"); err == nil && st.IsDir() {
		return "/dev/shm"
	}
	return os.TempDir()
}

func newApp(dir string) (*evm.EVMApp, error) {
	conf := viper.New()
	conf.Set("db_dir", dir)
	conf.Set("block_size", 5000)
	app, err := evm.NewEVMApp(conf)
	if err != nil {
		return nil, err
	}
	if err := app.Start(); err != nil {
		return nil, err
	}
	return app, nil
}

func mkBlock(height int64, txs [][]byte) *gtypes.Block {
	gt := make(gtypes.Txs, len(txs))
	for i := range txs {
		gt[i] = gtypes.Tx(txs[i])
	}
	var hb [8]byte
	binary.BigEndian.PutUint64(hb[:], uint64(height))
	return &gtypes.Block{
		Header: &gtypes.Header{
			ChainID:         "c09",
			Height:          height,
			Time:            fixedNow.Add(time.Duration(height) * 3 * time.Second),
			NumTxs:          int64(len(txs)),
			LastBlockID:     gtypes.BlockID{Hash: ecrypto.Keccak256([]byte("c09-parent"), hb[:])[:20]},
			ValidatorsHash:  []byte("c09-validators-hash!"),
			ProposerAddress: valPriv.PubKey().Address(),
		},
		Data:       &gtypes.Data{Txs: gt},
		LastCommit: &gtypes.Commit{},
	}
}

type panicInfo struct {
	val   string
	stack string
	site  string
}

// stackSite names the innermost function of the repository in a stack dump (frames of the
// runtime, of the panic machinery and of this harness are skipped).
func stackSite(stack string) string {
	lines := strings.Split(stack, "\n")
	seenPanic := false
	for _, l := range lines {
		if strings.HasPrefix(l, "panic(") {
			seenPanic = true
			continue
		}
		if !seenPanic || strings.HasPrefix(l, "\t") || l == "" || strings.HasPrefix(l, "goroutine ") {
			continue
		}
		if strings.HasPrefix(l, "runtime.") || strings.HasPrefix(l, "runtime/") {
			continue
		}
		if i := strings.LastIndex(l, "("); i > 0 {
			l = l[:i]
		}
		if i := strings.LastIndex(l, "/"); i >= 0 {
			l = l[i+1:]
		}
		return l
	}
	return "unknown"
}

func guarded(f func()) (pi *panicInfo) {
	defer func() {
		if p := recover(); p != nil {
			buf := make([]byte, 32<<10)
			buf = buf[:runtime.Stack(buf, false)]
			pi = &panicInfo{val: fmt.Sprint(p), stack: string(buf), site: stackSite(string(buf))}
		}
	}()
	f()
	return nil
}

func queryNonce(app *evm.EVMApp, a common.Address) (uint64, error) {
	res := app.Query(append([]byte{rtypes.QueryType_Nonce}, a.Bytes()...))
	if !res.IsOK() {
		return 0, fmt.Errorf("nonce query: code %v %s", res.Code, res.Log)
	}
	var n uint64
	if err := rlp.DecodeBytes(res.Data, &n); err != nil {
		return 0, err
	}
	return n, nil
}

func queryReceipt(app *evm.EVMApp, hash []byte) (*etypes.Receipt, bool) {
	res := app.Query(append([]byte{rtypes.QueryType_Receipt}, hash...))
	if !res.IsOK() {
		return nil, false
	}
	rc := new(etypes.ReceiptForStorage)
	if err := rlp.DecodeBytes(res.Data, rc); err != nil {
		return nil, false
	}
	return (*etypes.Receipt)(rc), true
}

func queryKey(app *evm.EVMApp, key []byte) ([]byte, bool) {
	res := app.Query(append([]byte{rtypes.QueryType_Key}, key...))
	if !res.IsOK() {
		return nil, false
	}
	return res.Data, true
}

// ---- verdict assignment ----

// assignments enumerates the ways the block's transactions can be split into the reported
// valid / invalid lists when both lists keep block order (they are appended in execution
// order). More than one exists only when identical bytes occur in both lists.
func assignments(txs [][]byte, valid [][]byte, invalid [][]byte, limit int) [][]bool {
	var out [][]bool
	cur := make([]bool, len(txs))
	var rec func(i, vi, ii int)
	rec = func(i, vi, ii int) {
		if len(out) >= limit {
			return
		}
		if i == len(txs) {
			if vi == len(valid) && ii == len(invalid) {
				out = append(out, append([]bool{}, cur...))
			}
			return
		}
		if vi < len(valid) && bytes.Equal(valid[vi], txs[i]) {
			cur[i] = true
			rec(i+1, vi+1, ii)
		}
		if ii < len(invalid) && bytes.Equal(invalid[ii], txs[i]) {
			cur[i] = false
			rec(i+1, vi, ii+1)
		}
	}
	rec(0, 0, 0)
	return out
}

func errClass(err error) string {
	if err == nil {
		return "nil"
	}
	s := err.Error()
	for _, k := range []string{"nonce too low", "nonce too high", "insufficient balance", "intrinsic gas too low", "out of gas", "invalid transaction v, r, s", "rlp:", "gas limit reached", "insufficient funds"} {
		if strings.Contains(s, k) {
			return strings.ReplaceAll(strings.TrimSuffix(k, ":"), " ", "-")
		}
	}
	if len(s) > 24 {
		s = s[:24]
	}
	return "other:" + strings.ReplaceAll(s, " ", "-")
}

// ---- one case ----

type evaluator struct {
	res    Result
	labels map[string]bool
	stop   bool
}

func (e *evaluator) label(f string, a ...any) { e.labels[fmt.Sprintf(f, a...)] = true }

// fail records a violation; it returns true when the evaluation must stop (a finding that is
// not a listed open one).
func (e *evaluator) fail(sig, f string, a ...any) bool {
	e.res.Fails = append(e.res.Fails, Fail{Sig: sig, Msg: fmt.Sprintf(f, a...)})
	if !h.IsKnownFor("C09", sig) {
		e.stop = true
	}
	return e.stop
}

func (e *evaluator) finish() Result {
	for l := range e.labels {
		e.res.Labels = append(e.res.Labels, l)
	}
	sort.Strings(e.res.Labels)
	return e.res
}

func hx(b []byte) string {
	if len(b) > 48 {
		return fmt.Sprintf("%x…(%d bytes)", b[:48], len(b))
	}
	return fmt.Sprintf("%x", b)
}

// execCase evaluates the case; a verdict for an unsigned/undecodable transaction that an
// immediate second evaluation of the same history does not reproduce depends on goroutine
// timing and is attributed to the verifier's publication race (tryValidate stores the failed
// status before the error, so the executing loop can read a nil error).
func execCase(c Case) Result {
	r := execCaseOnce(c)
	for i, f := range r.Fails {
		if f.Sig != sigUndecodable {
			continue
		}
		again := false
		for _, f2 := range execCaseOnce(c).Fails {
			if f2.Sig == sigUndecodable {
				again = true
			}
		}
		if !again {
			r.Fails[i].Sig = sigVerdictRace
			r.Fails[i].Msg += " -- not reproduced by an immediate second execution of the same history: the verdict depends on goroutine timing"
		}
		break
	}
	return r
}

func execCaseOnce(c Case) Result {
	e := &evaluator{labels: map[string]bool{}}
	root, err := os.MkdirTemp(scratchRoot(), "case-")
	if err != nil {
		e.res.Harness = "mkdir: " + err.Error()
		return e.finish()
	}
	defer os.RemoveAll(root)
	if c.Stress != nil {
		return execStress(c, e, root)
	}
	if c.Routines > 0 {
		setVerifierRoutines(c.Routines)
	} else {
		setVerifierRoutines(runtime.NumCPU())
	}
	appA, err := newApp(filepath.Join(root, "a"))
	if err != nil {
		e.res.Harness = "app A: " + err.Error()
		return e.finish()
	}
	defer func() { guarded(appA.Stop) }()
	appB, err := newApp(filepath.Join(root, "b"))
	if err != nil {
		e.res.Harness = "app B: " + err.Error()
		return e.finish()
	}
	defer func() { guarded(appB.Stop) }()

	model := map[common.Address]uint64{}   // account -> nonce (reference)
	kvModel := map[string][]byte{}         // key -> value written by the last valid KV tx
	everValid := map[string]bool{}         // tx hashes that were reported valid at least once
	ghostCandidates := map[string][]byte{} // tx hashes only ever reported invalid
	kvGhost := map[string]bool{}           // keys named only by invalid KV txs
	seenRaw := map[string]int{}            // raw bytes -> block index of first occurrence
	var flat [][]byte
	watch := map[common.Address]bool{}
	for _, a := range addrs {
		watch[a] = true
	}
	nontrivial := false
	totalTxs := 0

	e.label("blocks:%d", len(c.Blocks))
	e.label("routines:%d", c.Routines)

	for bi, specs := range c.Blocks {
		height := int64(bi + 1)
		txs := make([][]byte, len(specs))
		infos := make([]txInfo, len(specs))
		hasEmpty := false
		for i, s := range specs {
			txs[i] = buildRaw(s, flat)
			infos[i] = readTx(txs[i])
			flat = append(flat, txs[i])
			totalTxs++
			labelTx(e, s, infos[i])
			if len(txs[i]) == 0 {
				hasEmpty = true
			}
			if first, ok := seenRaw[string(txs[i])]; ok && infos[i].signed {
				if first == bi {
					e.label("repeat:within-block")
				} else {
					e.label("repeat:across-blocks")
				}
				nontrivial = true
			} else if !ok {
				seenRaw[string(txs[i])] = bi
			}
			if infos[i].signed {
				watch[infos[i].sender] = true
				if t := infos[i].to; t != nil && isPrecompile(*t) {
					nontrivial = true
				}
			}
		}

		// (i) execution must not panic (the production caller, Hook.Sync, runs OnExecute in a
		// goroutine without recover: a panic here is the death of the node).
		var execRes gtypes.ExecuteResult
		var execErr error
		blockA := mkBlock(height, txs)
		if pi := guarded(func() {
			r, err := appA.OnExecute(height, 0, blockA)
			execErr = err
			if rr, ok := r.(gtypes.ExecuteResult); ok {
				execRes = rr
			}
		}); pi != nil {
			sig := "onexecute-panics@" + pi.site
			switch {
			case strings.Contains(pi.stack, "vm.(*AdminOP).Run"):
				sig = sigAdminSlice
			case hasEmpty && (strings.Contains(pi.stack, "genExecFun") || strings.Contains(pi.stack, "exeWithCPUParallelVeirfy")) && strings.Contains(pi.val, "nil pointer"):
				sig = sigEmptyTx
			}
			e.fail(sig, "OnExecute(height %d) panicked: %s; block txs: %s\n%s", height, pi.val, describeTxs(txs), clip(pi.stack, 3000))
			e.label("panic-in-onexecute")
			return e.finish() // the application object is unusable after a panic
		}
		if execErr != nil {
			if e.fail(sigExecErr, "OnExecute(height %d) returned error %v", height, execErr) {
				return e.finish()
			}
		}

		// (iii) every tx in exactly one of ValidTxs / InvalidTxs
		valid := make([][]byte, len(execRes.ValidTxs))
		for i, v := range execRes.ValidTxs {
			valid[i] = []byte(v)
		}
		invalid := make([][]byte, len(execRes.InvalidTxs))
		for i, v := range execRes.InvalidTxs {
			invalid[i] = v.Bytes
			e.label("invalid-because:%s", errClass(v.Error))
		}
		if sig, msg := checkPartition(height, txs, valid, invalid); sig != "" {
			e.fail(sig, "%s", msg)
			return e.finish()
		}
		asg := assignments(txs, valid, invalid, 300)
		if len(asg) == 0 {
			// lists are a partition as multisets but not in block order: take the verdicts by
			// multiset (valid first); order is not part of the property.
			e.label("verdict-order-fallback")
			left := map[string]int{}
			for _, t := range valid {
				left[string(t)]++
			}
			a := make([]bool, len(txs))
			for i, t := range txs {
				if left[string(t)] > 0 {
					a[i] = true
					left[string(t)]--
				}
			}
			asg = [][]bool{a}
		}
		if len(asg) > 1 {
			e.label("verdicts-ambiguous")
		}

		// (iv) nonce model: a tx may be reported valid only if it is a signed transaction whose
		// nonce equals the model nonce of its sender; it then raises that nonce by one.
		type nv struct {
			sig, msg string
		}
		check := func(a []bool) (viol []nv, m map[common.Address]uint64) {
			m = map[common.Address]uint64{}
			get := func(ad common.Address) uint64 {
				if v, ok := m[ad]; ok {
					return v
				}
				return model[ad]
			}
			for i, ok := range a {
				if !ok {
					continue
				}
				ti := infos[i]
				if !ti.decodable || !ti.signed {
					viol = append(viol, nv{sigUndecodable, fmt.Sprintf("height %d tx #%d %s is reported valid but is not a decodable signed transaction", height, i, hx(ti.raw))})
					continue
				}
				if want := get(ti.sender); ti.nonce != want {
					s := sigNonce
					kind := "transaction"
					if ti.isKV {
						s, kind = sigKVNonce, "key-value transaction"
					}
					viol = append(viol, nv{s, fmt.Sprintf("height %d tx #%d: %s of %x with nonce %d reported valid while the sender's nonce is %d (tx %s)", height, i, kind, ti.sender, ti.nonce, want, hx(ti.raw))})
				}
				m[ti.sender] = get(ti.sender) + 1
			}
			return
		}
		var chosen []bool
		var chosenModel map[common.Address]uint64
		var firstViol []nv
		for k, a := range asg {
			v, m := check(a)
			if k == 0 {
				firstViol, chosen, chosenModel = v, a, m
			}
			if len(v) == 0 {
				firstViol, chosen, chosenModel = nil, a, m
				break
			}
		}
		for _, v := range firstViol {
			if e.fail(v.sig, "%s", v.msg) {
				return e.finish()
			}
		}
		for ad, n := range chosenModel {
			model[ad] = n // the model follows the application past a listed finding
		}
		nValid, nInvalid := 0, 0
		var validNow []txInfo
		for i, ok := range chosen {
			ti := infos[i]
			if ok {
				nValid++
				validNow = append(validNow, ti)
				if ti.decodable {
					everValid[string(ti.hash)] = true
					delete(ghostCandidates, string(ti.hash))
					if ti.isKV && ti.kvOK {
						kvModel[string(ti.kvKey)] = ti.kvVal
						delete(kvGhost, string(ti.kvKey))
					}
				}
			} else {
				nInvalid++
				if ti.decodable && !everValid[string(ti.hash)] {
					ghostCandidates[string(ti.hash)] = ti.raw
				}
				if ti.isKV && ti.kvOK {
					if _, written := kvModel[string(ti.kvKey)]; !written {
						kvGhost[string(ti.kvKey)] = true
					}
				}
			}
		}
		if nValid > 0 {
			e.label("block-has-valid")
		}
		if nInvalid > 0 {
			e.label("block-has-invalid")
		}
		if nValid > 0 && nInvalid > 0 {
			e.label("block-mixes-valid-and-invalid")
			nontrivial = true
		}

		// commit A
		var cmA gtypes.CommitResult
		var cmErr error
		if pi := guarded(func() {
			r, err := appA.OnCommit(height, 0, blockA)
			cmErr = err
			if rr, ok := r.(gtypes.CommitResult); ok {
				cmA = rr
			}
		}); pi != nil {
			e.fail("oncommit-panics@"+pi.site, "OnCommit(height %d) panicked: %s\n%s", height, pi.val, clip(pi.stack, 3000))
			return e.finish()
		}
		if cmErr != nil {
			e.fail(sigCommitErr, "OnCommit(height %d): %v", height, cmErr)
			return e.finish()
		}

		// (ii) atomicity: the same block without the transactions reported invalid
		var resB gtypes.ExecuteResult
		var cmB gtypes.CommitResult
		blockB := mkBlock(height, valid)
		if pi := guarded(func() {
			r, _ := appB.OnExecute(height, 0, blockB)
			if rr, ok := r.(gtypes.ExecuteResult); ok {
				resB = rr
			}
			r2, err := appB.OnCommit(height, 0, blockB)
			cmErr = err
			if rr, ok := r2.(gtypes.CommitResult); ok {
				cmB = rr
			}
		}); pi != nil {
			e.fail("onexecute-panics@"+pi.site, "executing the block of height %d reduced to its valid txs panicked: %s\n%s", height, pi.val, clip(pi.stack, 3000))
			return e.finish()
		}
		if cmErr != nil {
			e.fail(sigCommitErr, "OnCommit(height %d) of the reduced block: %v", height, cmErr)
			return e.finish()
		}
		if len(resB.InvalidTxs) != 0 || len(resB.ValidTxs) != len(valid) {
			why := ""
			if len(resB.InvalidTxs) > 0 {
				why = fmt.Sprintf("; first: %s: %v", hx(resB.InvalidTxs[0].Bytes), resB.InvalidTxs[0].Error)
			}
			if e.fail(sigFlip, "height %d: of the %d txs reported valid, %d are reported invalid when the %d invalid txs are removed from the block%s; block: %s", height, len(valid), len(resB.InvalidTxs), nInvalid, why, describeTxs(txs)) {
				return e.finish()
			}
		}
		if !bytes.Equal(cmA.AppHash, cmB.AppHash) {
			if e.fail(sigAtomicity, "height %d: AppHash %x with the block as given, %x with its %d invalid txs removed; invalid: %s; block: %s", height, cmA.AppHash, cmB.AppHash, nInvalid, describeInvalid(execRes.InvalidTxs), describeTxs(txs)) {
				return e.finish()
			}
		}

		// (iv) the account nonces as the application reports them
		was := make([]common.Address, 0, len(watch))
		for a := range watch {
			was = append(was, a)
		}
		sort.Slice(was, func(i, j int) bool { return bytes.Compare(was[i][:], was[j][:]) < 0 })
		for _, a := range was {
			got, err := queryNonce(appA, a)
			if err != nil {
				e.res.Harness = err.Error()
				return e.finish()
			}
			if got != model[a] {
				if e.fail(sigNonceStep, "after height %d: account %x has nonce %d, the model (one per valid tx) says %d; block: %s", height, a, got, model[a], describeTxs(txs)) {
					return e.finish()
				}
				model[a] = got
			}
		}

		// (v) every valid tx has a receipt or a key-value record; invalid ones left none
		anyLogs := false
		for _, ti := range validNow {
			if !ti.decodable {
				continue
			}
			if ti.isKV {
				continue // checked below through the key-value model
			}
			rc, ok := queryReceipt(appA, ti.hash)
			if !ok || !bytes.Equal(rc.TxHash.Bytes(), ti.hash) {
				if e.fail(sigNoReceipt, "height %d: valid tx %x (%s) has no receipt", height, ti.hash, hx(ti.raw)) {
					return e.finish()
				}
				continue
			}
			if rc.Status == etypes.ReceiptStatusFailed {
				e.label("receipt:failed")
			} else {
				e.label("receipt:success")
			}
			if len(rc.Logs) > 0 {
				anyLogs = true
				e.label("receipt:with-logs")
			}
			if ti.to == nil && rc.ContractAddress != (common.Address{}) {
				e.label("receipt:contract-created")
			}
		}
		for _, ti := range validNow {
			if ti.decodable && ti.isKV && !ti.kvOK {
				if e.fail(sigNoKVRecord, "height %d: key-value tx %s reported valid but its payload is not a key-value record", height, hx(ti.raw)) {
					return e.finish()
				}
			}
		}
		kks := make([]string, 0, len(kvModel))
		for k := range kvModel {
			kks = append(kks, k)
		}
		sort.Strings(kks)
		for _, k := range kks {
			got, ok := queryKey(appA, []byte(k))
			if !ok || !bytes.Equal(got, kvModel[k]) {
				if e.fail(sigNoKVRecord, "after height %d: key %x holds %x (found=%v), the last valid key-value tx wrote %x", height, k, got, ok, kvModel[k]) {
					return e.finish()
				}
			}
			e.label("kv-record-checked")
		}
		for hsh, raw := range ghostCandidates {
			if _, ok := queryReceipt(appA, []byte(hsh)); ok {
				if e.fail(sigGhostReceipt, "after height %d: tx %s was only ever reported invalid but has a receipt", height, hx(raw)) {
					return e.finish()
				}
			}
		}
		for k := range kvGhost {
			if v, ok := queryKey(appA, []byte(k)); ok {
				if e.fail(sigGhostKV, "after height %d: key %x = %x exists although every key-value tx naming it was reported invalid", height, k, v) {
					return e.finish()
				}
			}
		}
		if !anyLogs && !bytes.Equal(cmA.ReceiptsHash, cmB.ReceiptsHash) {
			// receipts carry no position-dependent data unless they have logs
			if e.fail(sigAtomicityRcp, "height %d: ReceiptsHash %x with the block as given, %x with its %d invalid txs removed (no receipt has logs); block: %s", height, cmA.ReceiptsHash, cmB.ReceiptsHash, nInvalid, describeTxs(txs)) {
				return e.finish()
			}
		}
	}
	e.label("txs:%s", bucket(totalTxs))
	e.res.NonTrivial = nontrivial
	return e.finish()
}

// checkPartition decides oracle (iii): the block's transactions are, as a multiset, exactly
// ValidTxs + InvalidTxs. A list entry that is nil/empty (or a torn slice header) although the
// block has no such transaction is the mark of the data race in verifycpuparallel.go
// (txQueue publishes the status before it stores oribys, the main loop reads oribys).
func checkPartition(height int64, txs, valid, invalid [][]byte) (sig, msg string) {
	emptyInBlock := 0
	for _, t := range txs {
		if len(t) == 0 {
			emptyInBlock++
		}
	}
	emptyInLists := 0
	for _, l := range [][][]byte{valid, invalid} {
		for _, t := range l {
			if len(t) > 0 && unsafe.SliceData(t) == nil {
				return sigVerdictRace, fmt.Sprintf("height %d: a ValidTxs/InvalidTxs entry is a torn slice (nil data, length %d)", height, len(t))
			}
			if len(t) == 0 {
				emptyInLists++
			}
		}
	}
	cnt := map[string]int{}
	for _, t := range txs {
		cnt[string(t)]++
	}
	for _, t := range valid {
		cnt[string(t)]--
	}
	for _, t := range invalid {
		cnt[string(t)]--
	}
	keys := make([]string, 0, len(cnt))
	for k := range cnt {
		keys = append(keys, k)
	}
	sort.Strings(keys)
	for _, k := range keys {
		if v := cnt[k]; v != 0 {
			if emptyInLists > emptyInBlock && len(txs) == len(valid)+len(invalid) {
				for _, k2 := range keys {
					if cnt[k2] > 0 {
						k = k2
						break
					}
				}
				return sigVerdictRace, fmt.Sprintf("height %d: %d entr(y/ies) of ValidTxs+InvalidTxs carry no bytes although the block has %d empty txs; tx %s is reported in neither list (block %d txs, valid %d, invalid %d)", height, emptyInLists, emptyInBlock, hx([]byte(k)), len(txs), len(valid), len(invalid))
			}
			return sigPartition, fmt.Sprintf("height %d: tx %s occurs %d time(s) more in the block than in ValidTxs+InvalidTxs (block %d txs, valid %d, invalid %d)", height, hx([]byte(k)), v, len(txs), len(valid), len(invalid))
		}
	}
	return "", ""
}

// execStress is the leg verdictrace: many executions of a block of undecodable transactions
// (the cheapest path through the parallel verifier) looking only at oracle (iii).
func execStress(c Case, e *evaluator, root string) Result {
	setVerifierRoutines(c.Routines)
	if c.Routines <= 0 {
		setVerifierRoutines(runtime.NumCPU())
	}
	app, err := newApp(filepath.Join(root, "s"))
	if err != nil {
		e.res.Harness = "app: " + err.Error()
		return e.finish()
	}
	defer func() { guarded(app.Stop) }()
	txs := make([][]byte, c.Stress.Txs)
	for i := range txs {
		if c.Stress.Kind == "unsigned" { // decodable, but the signature values are all zero
			txs[i] = buildEth(TxSpec{Kind: "eth", Nonce: uint64(i), To: addrs[1].Bytes(), Gas: 21000, Sig: "none"})
		} else {
			txs[i] = []byte{0x01, byte(i), byte(i >> 8), 0x55} // not RLP of a transaction
		}
	}
	e.label("stress:%s", c.Stress.Kind)
	e.label("routines:%d", c.Routines)
	for it := 0; it < c.Stress.Iters; it++ {
		var res gtypes.ExecuteResult
		blk := mkBlock(1, txs)
		if pi := guarded(func() {
			r, _ := app.OnExecute(1, 0, blk)
			if rr, ok := r.(gtypes.ExecuteResult); ok {
				res = rr
			}
		}); pi != nil {
			e.fail("onexecute-panics@"+pi.site, "OnExecute panicked on a block of %d undecodable txs: %s\n%s", len(txs), pi.val, clip(pi.stack, 3000))
			return e.finish()
		}
		valid := make([][]byte, len(res.ValidTxs))
		for i, v := range res.ValidTxs {
			valid[i] = []byte(v)
		}
		invalid := make([][]byte, len(res.InvalidTxs))
		for i, v := range res.InvalidTxs {
			invalid[i] = v.Bytes
		}
		if sig, msg := checkPartition(1, txs, valid, invalid); sig != "" {
			e.fail(sig, "execution %d of the block: %s", it, msg)
			return e.finish()
		}
		if len(valid) != 0 {
			sig, note := sigUndecodable, ""
			for retry := 0; retry < 3; retry++ {
				r2, _ := app.OnExecute(1, 0, mkBlock(1, txs))
				if rr, ok := r2.(gtypes.ExecuteResult); ok && len(rr.ValidTxs) == 0 {
					sig, note = sigVerdictRace, " -- an immediate re-execution of the same block reports all of them invalid: the verdict depends on goroutine timing (tryValidate stores the failed status before the error)"
					break
				}
			}
			e.fail(sig, "execution %d: %d of %d %s txs reported valid (first: %s)%s", it, len(valid), len(txs), c.Stress.Kind, hx(valid[0]), note)
			return e.finish()
		}
	}
	e.res.NonTrivial = true
	return e.finish()
}

func isPrecompile(a common.Address) bool {
	for i := 0; i < 19; i++ {
		if a[i] != 0 {
			return false
		}
	}
	return (a[19] >= 1 && a[19] <= 8) || a[19] == 0xfe
}

func labelTx(e *evaluator, s TxSpec, ti txInfo) {
	switch s.Kind {
	case "raw":
		switch {
		case len(s.Raw) == 0:
			e.label("tx:empty-bytes")
		case ti.decodable:
			e.label("tx:raw-decodable")
		default:
			e.label("tx:raw-undecodable")
		}
		return
	case "rep":
		e.label("tx:repetition")
		return
	}
	e.label("sig:%s", s.Sig)
	if s.Note != "" {
		e.label("target:%s", s.Note)
	}
	if ti.decodable && ti.to != nil && isPrecompile(*ti.to) {
		e.label("precompile:%02x", (*ti.to)[19])
		e.label("precompile-payload:%s", bucket(ti.dataLen))
	}
	if ti.isKV {
		if ti.kvOK {
			e.label("kv:well-formed")
		} else {
			e.label("kv:malformed")
		}
	}
	switch {
	case s.Gas == 0:
		e.label("gas:0")
	case s.Gas >= 1<<62:
		e.label("gas:huge")
	case s.Gas < 21000:
		e.label("gas:<21000")
	}
	if s.Price > 0 {
		e.label("gasprice>0")
	}
	if s.Value > 0 {
		e.label("value>0")
	}
}

func bucket(n int) string {
	switch {
	case n == 0:
		return "0"
	case n <= 3:
		return "1-3"
	case n <= 10:
		return "4-10"
	case n <= 31:
		return "11-31"
	case n <= 51:
		return "32-51"
	case n <= 100:
		return "52-100"
	}
	return ">100"
}

func clip(s string, n int) string {
	if len(s) > n {
		return s[:n] + "…"
	}
	return s
}

func describeTxs(txs [][]byte) string {
	parts := make([]string, len(txs))
	for i, t := range txs {
		ti := readTx(t)
		switch {
		case len(t) == 0:
			parts[i] = "<empty>"
		case !ti.decodable:
			parts[i] = "undecodable:" + hx(t)
		default:
			to := "create"
			if ti.to != nil {
				to = fmt.Sprintf("%x", ti.to.Bytes())
			}
			from := "unsigned"
			if ti.signed {
				from = fmt.Sprintf("%x", ti.sender.Bytes()[:4])
			}
			kv := ""
			if ti.isKV {
				kv = " kv"
			}
			parts[i] = fmt.Sprintf("{from %s nonce %d to %s data %dB%s}", from, ti.nonce, to, ti.dataLen, kv)
		}
	}
	return "[" + strings.Join(parts, " ") + "]"
}

func describeInvalid(inv []gtypes.ExecuteInvalidTx) string {
	parts := make([]string, len(inv))
	for i, v := range inv {
		parts[i] = fmt.Sprintf("%s: %v", hx(v.Bytes), v.Error)
	}
	return "[" + strings.Join(parts, "; ") + "]"
}

func mustJSON(v any) []byte {
	b, err := json.Marshal(v)
	if err != nil {
		panic(err)
	}
	return b
}
