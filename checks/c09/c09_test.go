// C09: transaction execution is total, atomic and replay-protected.
//
// Property-based test over the real EVM application (chain/app/evm): generated histories of
// 1..3 blocks of 0..10 transactions (arbitrary bytes, garbled RLP, signed transactions to
// every precompile / generated contracts / the governance contract, key-value transactions,
// repetitions) are executed by OnExecute/OnCommit. Every case runs in a worker child process
// (this test binary re-executed with C09_WORKER=1): the production path starts goroutines
// (parallel signature verifier) in which a panic cannot be recovered, so the death of the
// worker is observed by the parent and judged as a violation with the case as replay.
package c09

import (
	"bufio"
	"bytes"
	"encoding/binary"
	"encoding/json"
	"fmt"
	"io"
	"math"
	"os"
	"os/exec"
	"strconv"
	"strings"
	"sync"
	"testing"
	"time"

	"pgregory.net/rapid"

	rtypes "github.com/dappledger/AnnChain/chain/types"
	"github.com/dappledger/AnnChain/eth/common"
	ecrypto "github.com/dappledger/AnnChain/eth/crypto"
	"github.com/dappledger/AnnChain/eth/rlp"
	gcrypto "github.com/dappledger/AnnChain/gemmill/go-crypto"
	gtypes "github.com/dappledger/AnnChain/gemmill/types"

	"verif/internal/h"
)

func TestMain(m *testing.M) {
	if os.Getenv("C09_WORKER") == "1" {
		workerMain()
		return
	}
	if f := os.Getenv("C09_CASE_FILE"); f != "" { // debugging aid: run one case in this process
		setupProcess()
		b, err := os.ReadFile(f)
		if err != nil {
			fmt.Println(err)
			os.Exit(2)
		}
		var c Case
		var rf struct {
			Case json.RawMessage `json:"case"`
		}
		if json.Unmarshal(b, &rf) == nil && len(rf.Case) > 0 {
			b = rf.Case
		}
		if err := json.Unmarshal(b, &c); err != nil {
			fmt.Println(err)
			os.Exit(2)
		}
		out, _ := json.MarshalIndent(execCase(c), "", " ")
		fmt.Println(string(out))
		os.Exit(0)
	}
	// The worker child ends by itself (and removes its scratch directory) when this process
	// exits and its stdin reaches EOF.
	h.Main(m)
}

// ---------------------------------------------------------------------------------------
// worker child

func workerMain() {
	setupProcess()
	in := bufio.NewReaderSize(os.Stdin, 1<<20)
	out := os.NewFile(3, "results")
	if out == nil {
		os.Exit(3)
	}
	for {
		line, err := in.ReadBytes('\n')
		if len(bytes.TrimSpace(line)) > 0 {
			var c Case
			var res Result
			if jerr := json.Unmarshal(line, &c); jerr != nil {
				res.Harness = "case does not decode: " + jerr.Error()
			} else {
				res = execCase(c)
			}
			if _, werr := out.Write(append(mustJSON(res), '\n')); werr != nil {
				os.Exit(0)
			}
		}
		if err != nil {
			if d := os.Getenv("C09_SCRATCH"); d != "" {
				os.RemoveAll(d)
			}
			os.Exit(0)
		}
	}
}

// ---------------------------------------------------------------------------------------
// parent side of the worker

type tailBuf struct {
	mu sync.Mutex
	b  []byte
}

func (t *tailBuf) Write(p []byte) (int, error) {
	t.mu.Lock()
	defer t.mu.Unlock()
	t.b = append(t.b, p...)
	if len(t.b) > 4<<20 {
		t.b = append([]byte{}, t.b[len(t.b)-(2<<20):]...)
	}
	return len(p), nil
}

func (t *tailBuf) String() string {
	t.mu.Lock()
	defer t.mu.Unlock()
	return string(t.b)
}

type worker struct {
	cmd     *exec.Cmd
	stdin   io.WriteCloser
	results *bufio.Reader
	resFile *os.File
	out     *tailBuf
	scratch string
	served  int
}

var (
	curWorker *worker
	workerMu  sync.Mutex
)

const (
	recycleAfter = 250 // cases per worker (each case leaks the tx pool's ticker goroutine)
	caseTimeout  = 240 * time.Second
)

func startWorker() (*worker, error) {
	base := "/dev/shm"
	if st, err := os.Stat(base); err != nil || !st.IsDir() {
		base = os.TempDir()
	}
	scratch, err := os.MkdirTemp(base, "c09-")
	if err != nil {
		return nil, err
	}
	pr, pw, err := os.Pipe()
	if err != nil {
		return nil, err
	}
	cmd := exec.Command(os.Args[0], "-test.run", "^$")
	// The verifier under test spin-waits in every one of its goroutines; a few OS threads give
	// real parallelism without 16 spinning threads per shard on a 16-core machine.
	procs := "4"
	if h.Tier() == "thorough" {
		procs = "8"
	}
	if v := os.Getenv("C09_WORKER_PROCS"); v != "" {
		procs = v
	}
	cmd.Env = append(os.Environ(), "C09_WORKER=1", "C09_SCRATCH="+scratch, "GOTRACEBACK=single", "VERIF_EV_OUT=", "VERIF_REPLAY=", "GOMAXPROCS="+procs)
	cmd.ExtraFiles = []*os.File{pw}
	w := &worker{cmd: cmd, out: &tailBuf{}, scratch: scratch, resFile: pr}
	cmd.Stdout = w.out
	cmd.Stderr = w.out
	if w.stdin, err = cmd.StdinPipe(); err != nil {
		return nil, err
	}
	if err := cmd.Start(); err != nil {
		return nil, err
	}
	pw.Close()
	w.results = bufio.NewReaderSize(pr, 1<<20)
	return w, nil
}

func (w *worker) stop() {
	if w == nil {
		return
	}
	w.stdin.Close()
	done := make(chan struct{})
	go func() { w.cmd.Wait(); close(done) }()
	select {
	case <-done:
	case <-time.After(3 * time.Second):
		w.cmd.Process.Kill()
		<-done
	}
	w.resFile.Close()
	os.RemoveAll(w.scratch)
}

func stopWorker() {
	workerMu.Lock()
	defer workerMu.Unlock()
	curWorker.stop()
	curWorker = nil
}

type death struct {
	sig string
	msg string
}

// dumpSite extracts the crash reason and the innermost repository function from the
// output of a Go process that died.
func dumpSite(out string) (reason, site string) {
	idx := strings.LastIndex(out, "\npanic: ")
	if j := strings.LastIndex(out, "\nfatal error: "); j > idx {
		idx = j
	}
	if strings.HasPrefix(out, "panic: ") || strings.HasPrefix(out, "fatal error: ") {
		if idx < 0 {
			idx = 0
		}
	}
	if idx < 0 {
		return "", "unknown"
	}
	dump := strings.TrimPrefix(out[idx:], "\n")
	lines := strings.Split(dump, "\n")
	reason = lines[0]
	inG := false
	for _, l := range lines[1:] {
		if strings.HasPrefix(l, "goroutine ") {
			if inG {
				break
			}
			inG = true
			continue
		}
		if !inG || l == "" || strings.HasPrefix(l, "\t") || strings.HasPrefix(l, "[signal") {
			continue
		}
		if strings.HasPrefix(l, "panic(") || strings.HasPrefix(l, "runtime.") || strings.HasPrefix(l, "runtime/") || strings.HasPrefix(l, "created by ") {
			continue
		}
		if i := strings.LastIndex(l, "("); i > 0 {
			l = l[:i]
		}
		if i := strings.LastIndex(l, "/"); i >= 0 {
			l = l[i+1:]
		}
		return reason, l
	}
	return reason, "unknown"
}

// runInWorker executes the case in the worker; when the worker dies or hangs the death is
// returned instead of a result.
func runInWorker(c Case) (Result, *death, error) {
	workerMu.Lock()
	defer workerMu.Unlock()
	if curWorker != nil && curWorker.served >= recycleAfter {
		curWorker.stop()
		curWorker = nil
	}
	if curWorker == nil {
		w, err := startWorker()
		if err != nil {
			return Result{}, nil, err
		}
		curWorker = w
	}
	w := curWorker
	w.served++
	line := append(mustJSON(c), '\n')
	type rd struct {
		b   []byte
		err error
	}
	ch := make(chan rd, 1)
	go func() {
		b, err := w.results.ReadBytes('\n')
		ch <- rd{b, err}
	}()
	_, werr := w.stdin.Write(line)
	var got rd
	timedOut := false
	select {
	case got = <-ch:
	case <-time.After(caseTimeout):
		timedOut = true
		w.cmd.Process.Kill()
		got = <-ch
	}
	if got.err == nil && !timedOut {
		var res Result
		if err := json.Unmarshal(got.b, &res); err != nil {
			return Result{}, nil, fmt.Errorf("worker result does not decode: %v", err)
		}
		return res, nil, nil
	}
	// the worker is gone
	w.stop()
	curWorker = nil
	out := w.out.String()
	if timedOut {
		return Result{}, &death{sig: "block-execution-hangs", msg: fmt.Sprintf("the worker executing the case did not answer within %v and was killed; output tail: %s", caseTimeout, clip(tailStr(out, 1500), 1500))}, nil
	}
	reason, site := dumpSite(out)
	if reason == "" {
		return Result{}, nil, fmt.Errorf("worker ended without a Go crash dump (write error %v, exit %v); output tail: %s", werr, w.cmd.ProcessState, tailStr(out, 1500))
	}
	idx := strings.LastIndex(out, reason)
	return Result{}, &death{sig: "process-dies@" + site, msg: fmt.Sprintf("the process executing the block died (a panic outside the reach of any recover): %s\n%s", reason, clip(out[idx:], 4000))}, nil
}

func tailStr(s string, n int) string {
	if len(s) > n {
		return s[len(s)-n:]
	}
	return s
}

// harnessFatal ends the test process without a verdict (the driver reports the shard as
// inconclusive): the infrastructure failed, nothing was learnt about the property.
func harnessFatal(msg string) {
	fmt.Println("HARNESS-ERROR:", msg)
	os.Exit(3)
}

func runCase(c Case, x *h.Ctx) {
	t0 := time.Now()
	res, d, err := runInWorker(c)
	if os.Getenv("C09_TIMING") != "" {
		n := 0
		for _, b := range c.Blocks {
			n += len(b)
		}
		fmt.Printf("C09-TIMING %v blocks=%d txs=%d\n", time.Since(t0), len(c.Blocks), n)
	}
	if err != nil {
		harnessFatal(err.Error())
	}
	for _, sig := range c.Excluded {
		x.Label("excluded:" + sig)
	}
	if d != nil {
		x.Fail(d.sig, "%s", d.msg)
		x.Label("worker-died")
		return
	}
	if res.Harness != "" {
		harnessFatal(res.Harness)
	}
	for _, l := range res.Labels {
		x.Label(l)
	}
	for _, f := range res.Fails {
		if x.Fail(f.Sig, "%s", f.Msg) {
			return
		}
	}
	if res.NonTrivial {
		x.NonTrivial()
	}
}

// ---------------------------------------------------------------------------------------
// generator

type genState struct {
	nonce      [4]uint64
	contracts  []common.Address
	count      int
	avoidEmpty bool // the empty-tx crash is a listed finding: leave the shape out
	avoidAdmin bool // the 0xfe slicing crash is a listed finding: leave panicking inputs out
	avoidLeak  bool // the gas-pool crash is a listed finding: keep the number of value-carrying calls per transaction small
	kvAnyNonce bool // the key-value nonce finding is listed: predict nonces the way the code behaves
	excluded   map[string]bool
}

func pick(t *rapid.T, label string, weights ...int) int {
	total := 0
	for _, w := range weights {
		total += w
	}
	r := rapid.IntRange(0, total-1).Draw(t, label)
	for i, w := range weights {
		if r < w {
			return i
		}
		r -= w
	}
	return len(weights) - 1
}

func genBytes(t *rapid.T, label string, lo, hi int) []byte {
	n := rapid.IntRange(lo, hi).Draw(t, label+"Len")
	switch pick(t, label+"Fill", 3, 1, 1) {
	case 0:
		return rapid.SliceOfN(rapid.Byte(), n, n).Draw(t, label)
	case 1:
		return make([]byte, n)
	default:
		return bytes.Repeat([]byte{0xff}, n)
	}
}

func word(v uint64) []byte {
	w := make([]byte, 32)
	binary.BigEndian.PutUint64(w[24:], v)
	return w
}

// adminCmd builds the JSON governance command the client sends (cmd/client/commands/admin_op.go).
func adminCmd(cmd gtypes.ValidatorCmd, target gcrypto.PrivKeyEd25519, power int64, nonce uint64, from []byte, signed, selfSigned bool, cmdType string) []byte {
	attr := &gtypes.ValidatorAttr{PubKey: gcrypto.GetNodePubkeyBytes(target.PubKey()), Cmd: cmd, Power: power, Nonce: nonce, Addr: from}
	vdata, _ := json.Marshal(attr)
	sc := &gtypes.AdminOPCmd{CmdType: cmdType, Time: fixedNow, Msg: vdata}
	if signed {
		sc.SInfos = append(sc.SInfos, gtypes.SigInfo{PubKey: gcrypto.GetNodePubkeyBytes(valPriv.PubKey()), Signature: gcrypto.GetNodeSigBytes(valPriv.Sign(vdata))})
	}
	if selfSigned {
		sc.SelfSign = gcrypto.GetNodeSigBytes(target.Sign(vdata))
	}
	b, _ := json.Marshal(sc)
	return gtypes.TagAdminOPTx(b)
}

func genAdminTxData(t *rapid.T, from common.Address, nonce uint64) []byte {
	cmdType := gtypes.AdminOpChangeValidator
	if pick(t, "adminCmdType", 9, 1) == 1 {
		cmdType = "other"
	}
	signed := pick(t, "adminSigned", 4, 1) == 0
	fromB := from.Bytes()
	if pick(t, "adminFrom", 6, 1) == 1 {
		fromB = addrs[3].Bytes()
	}
	n := nonce
	if pick(t, "adminNonce", 5, 1) == 1 {
		n = nonce + 1
	}
	switch pick(t, "adminKind", 3, 2, 2, 2, 1, 1) {
	case 0: // add the new node as peer (self-signed)
		return adminCmd(gtypes.ValidatorCmdAddPeer, newPriv, 0, n, fromB, signed, pick(t, "adminSelf", 4, 1) == 0, cmdType)
	case 1: // add a node that is already in the set
		return adminCmd(gtypes.ValidatorCmdAddPeer, valPriv, 0, n, fromB, signed, true, cmdType)
	case 2: // change the validator's power
		return adminCmd(gtypes.ValidatorCmdUpdateNode, valPriv, int64(rapid.IntRange(0, 20).Draw(t, "adminPower")), n, fromB, signed, false, cmdType)
	case 3: // update a node that was never added
		return adminCmd(gtypes.ValidatorCmdUpdateNode, newPriv, 5, n, fromB, signed, false, cmdType)
	case 4: // remove a node that is not a validator (removing the validator needs the p2p switch)
		return adminCmd(gtypes.ValidatorCmdRemoveNode, newPriv, 0, n, fromB, signed, false, cmdType)
	default: // not JSON
		return gtypes.TagAdminOPTx(genBytes(t, "adminJunk", 0, 40))
	}
}

// abiChangenode encodes changenode(bytes) of the genesis governance contract.
func abiChangenode(txdata []byte) []byte {
	out := []byte{0xba, 0x9c, 0x71, 0x6e}
	out = append(out, word(32)...)
	out = append(out, word(uint64(len(txdata)))...)
	out = append(out, txdata...)
	if pad := (32 - len(txdata)%32) % 32; pad > 0 {
		out = append(out, make([]byte, pad)...)
	}
	return out
}

var fragKinds = []string{"sstore", "inc", "calldata", "log", "revert", "invalid", "stop", "ret", "loop", "burn", "callpre", "selfdestruct", "raw", "callvalue"}

func genFrag(t *rapid.T, st *genState, inInit bool) Frag {
	k := pick(t, "frag", 5, 4, 2, 4, 2, 2, 1, 1, 3, 1, 3, 1, 1, 2)
	f := Frag{Kind: fragKinds[k]}
	switch f.Kind {
	case "sstore":
		f.A = rapid.IntRange(0, 3).Draw(t, "slot")
		f.B = rapid.IntRange(0, 2).Draw(t, "val")
	case "inc", "calldata", "burn":
		f.A = rapid.IntRange(0, 3).Draw(t, "slot")
	case "log":
		f.A = rapid.IntRange(0, 4).Draw(t, "topics")
		f.B = rapid.SampledFrom([]int{0, 1, 32, 33}).Draw(t, "logSize")
	case "loop":
		f.A = rapid.IntRange(1, 40).Draw(t, "iters")
		f.B = rapid.IntRange(0, 3).Draw(t, "slot")
	case "callpre":
		f.A = rapid.SampledFrom([]int{1, 2, 3, 4, 5, 6, 7, 8, 0xfe}).Draw(t, "pre")
		f.B = rapid.OneOf(rapid.IntRange(0, 200), rapid.SampledFrom([]int{0, 31, 32, 51, 52, 53, 64, 96, 128, 192})).Draw(t, "preIn")
		f.W = word(rapid.OneOf(rapid.Uint64Range(0, 260), rapid.SampledFrom([]uint64{0, 19, 20, 21, 1 << 62, 1 << 63, math.MaxUint64, math.MaxUint64 - 31, math.MaxUint64 - 11})).Draw(t, "preWord"))
		if f.A == 0xfe && st.avoidAdmin {
			in := make([]byte, f.B)
			copy(in, f.W)
			if adminInputPanics(in) {
				st.excluded[sigAdminSlice] = true
				if f.B < 52 {
					f.B = 52 + f.B
				}
				f.W = word(uint64(20 + (f.B-52)/2))
			}
		}
	case "raw":
		f.W = rapid.SliceOfN(rapid.Byte(), 1, 6).Draw(t, "rawOps")
	case "callvalue":
		// A times CALL(gas B, address 0x99, value 1): the accounts of this chain hold no balance,
		// so the transfer cannot be afforded and the call fails
		f.A = rapid.SampledFrom([]int{1, 2, 3, 9, 10, 11, 30, 60}).Draw(t, "ncalls")
		f.B = rapid.SampledFrom([]int{0, 0, 1, 200}).Draw(t, "callGas")
		if st.avoidLeak && f.A > 2 {
			// every failed value transfer hands the caller 2300 gas it never paid; once that exceeds
			// the transaction's intrinsic gas the block gas pool overflows and execution panics
			st.excluded[sigGasPool] = true
			f.A = 1
		}
	}
	if inInit && f.Kind == "burn" {
		f.Kind = "inc"
	}
	return f
}

func intrinsic(data []byte) uint64 {
	g := uint64(21000)
	for _, b := range data {
		if b == 0 {
			g += 4
		} else {
			g += 68
		}
	}
	return g
}

func genEthTx(t *rapid.T, st *genState) TxSpec {
	s := TxSpec{Kind: "eth"}
	s.Key = rapid.IntRange(0, 3).Draw(t, "key")
	from := addrs[s.Key]
	pred := st.nonce[s.Key]

	// nonce relative to the sender's predicted nonce
	switch pick(t, "nonceMode", 70, 8, 8, 3, 4, 2, 3) {
	case 0:
		s.Nonce = pred
	case 1:
		if pred > 0 {
			s.Nonce = pred - 1
		} else {
			s.Nonce = pred + 1
		}
	case 2:
		s.Nonce = pred + 1
	case 3:
		s.Nonce = pred + uint64(rapid.IntRange(2, 9).Draw(t, "nonceAhead"))
	case 4:
		s.Nonce = 0
	case 5:
		s.Nonce = math.MaxUint64
	default:
		s.Nonce = rapid.Uint64().Draw(t, "nonceAny")
	}

	createsContract := false
	// (rapid favours the ends of a range: the first and the last alternative get extra weight)
	order := []int{2, 0, 5, 3, 4, 6, 1}
	target := order[pick(t, "target", 30, 16, 16, 5, 7, 10, 16)]
	if target == 2 && len(st.contracts) == 0 {
		target = 0
	}
	switch target {
	case 0: // contract creation
		s.Note = "create"
		if pick(t, "createMode", 6, 1) == 1 {
			s.Data = genBytes(t, "initJunk", 0, 40)
			s.Note = "create-junk"
		} else {
			var initF, runF []Frag
			for i, n := 0, pick(t, "nInit", 6, 3, 1); i < n; i++ {
				initF = append(initF, genFrag(t, st, true))
			}
			for i, n := 0, rapid.IntRange(1, 5).Draw(t, "nRun"); i < n; i++ {
				runF = append(runF, genFrag(t, st, false))
			}
			s.Data = deployer(assemble(initF), assemble(runF))
			createsContract = true
			for _, f := range initF {
				if f.Kind == "revert" || f.Kind == "invalid" || f.Kind == "stop" || f.Kind == "ret" || f.Kind == "selfdestruct" || f.Kind == "raw" {
					createsContract = false
				}
			}
		}
	case 1: // precompiled contracts, raw payload of every length
		p := rapid.SampledFrom([]byte{1, 2, 3, 4, 5, 6, 7, 8, 0xfe}).Draw(t, "precompile")
		s.To = common.BytesToAddress([]byte{p}).Bytes()
		s.Note = "precompile"
		s.Data = genBytes(t, "prePayload", 0, 200)
		if p == 1 && pick(t, "ecrecoverShape", 2, 1) == 1 {
			// a well-formed ecrecover request (hash, v = 27/28 right-aligned, r, s in range), as a
			// contract or wallet would send it, followed by 0..40 further bytes
			d := make([]byte, 128)
			copy(d, genBytes(t, "ecHash", 32, 32))
			d[63] = byte(27 + rapid.IntRange(0, 1).Draw(t, "ecV"))
			copy(d[64:], genBytes(t, "ecR", 32, 32))
			copy(d[96:], genBytes(t, "ecS", 32, 32))
			d[64], d[96] = d[64]&0x7f|1, d[96]&0x3f|1 // non-zero, below the curve order (s in the lower half)
			s.Data = append(d, genBytes(t, "ecTail", 0, 40)...)
			s.Note = "precompile-ecrecover-wellformed"
		}
		if p == 5 && pick(t, "modexpShape", 1, 1) == 1 {
			// modexp reads three 32-byte lengths (base, exponent, modulus) before its operands: zero,
			// tiny, word-sized and absurd lengths in every position, operands short or missing
			lens := []uint64{0, 0, 1, 2, 31, 32, 33, 64, 200, 1 << 31, 1 << 32, 1 << 62, 1<<63 - 1, 1 << 63, math.MaxUint64}
			// one case in three: the combination that costs no gas whatever the exponent length
			// says (base and modulus empty)
			freeShape := pick(t, "modexpFree", 2, 1) == 1
			var d []byte
			for i := 0; i < 3; i++ {
				w := make([]byte, 32)
				v := rapid.SampledFrom(lens).Draw(t, "modexpLen")
				if freeShape {
					if i == 1 {
						v = rapid.SampledFrom([]uint64{1 << 31, 1 << 40, 1 << 62, 1<<63 - 1, 1 << 63, math.MaxUint64, 33}).Draw(t, "modexpFreeExp")
					} else {
						v = 0
					}
				}
				for k := 0; k < 8; k++ {
					w[31-k] = byte(v >> (8 * uint(k)))
				}
				if pick(t, "modexpHighBits", 9, 1) == 1 {
					w[rapid.IntRange(0, 23).Draw(t, "modexpHighByte")] = 1
				}
				d = append(d, w...)
			}
			s.Data = append(d, genBytes(t, "modexpOperands", 0, 100)...)
			s.Note = "precompile-modexp-lengths"
		}
		if p == 0xfe {
			if len(s.Data) >= 32 && pick(t, "feWord", 1, 2) == 1 {
				copy(s.Data, word(rapid.OneOf(rapid.Uint64Range(0, 220), rapid.SampledFrom([]uint64{0, 19, 20, 1 << 63, math.MaxUint64, math.MaxUint64 - 31, math.MaxUint64 - 11})).Draw(t, "feDlen")))
			}
			if st.avoidAdmin && adminInputPanics(s.Data) {
				st.excluded[sigAdminSlice] = true
				d := append(word(0), from.Bytes()...)
				d = append(d, s.Data...)
				copy(d, word(uint64(20+len(s.Data))))
				s.Data = d
			}
		}
	case 2: // a contract deployed earlier in the history
		s.To = st.contracts[rapid.IntRange(0, len(st.contracts)-1).Draw(t, "contract")].Bytes()
		s.Note = "contract"
		s.Data = genBytes(t, "calldata", 0, 36)
	case 3: // the genesis governance contract (calls 0xfe with sender || txdata)
		s.To = adminTo.Bytes()
		s.Note = "governance-contract"
		if pick(t, "govMode", 5, 1) == 0 {
			s.Data = abiChangenode(genAdminTxData(t, from, s.Nonce))
		} else {
			s.Data = genBytes(t, "govJunk", 0, 80)
		}
	case 4: // plain account
		s.Note = "account"
		if rapid.Bool().Draw(t, "toKnown") {
			s.To = addrs[rapid.IntRange(0, 3).Draw(t, "toKey")].Bytes()
		} else {
			s.To = rapid.SliceOfN(rapid.Byte(), 20, 20).Draw(t, "toAddr")
		}
		s.Data = genBytes(t, "accData", 0, 12)
	case 5: // key-value transaction
		s.To = common.Address{}.Bytes()
		s.Note = "kv"
		key := rapid.SampledFrom([][]byte{[]byte("a"), []byte("b"), []byte("key-3"), {}, bytes.Repeat([]byte("k"), 300)}).Draw(t, "kvKey")
		val := genBytes(t, "kvVal", 0, 12)
		enc, _ := rlp.EncodeToBytes(&rtypes.KV{Key: key, Value: val})
		switch pick(t, "kvShape", 12, 1, 1, 1, 1, 1, 1) {
		case 0:
			s.Data = append(append([]byte{}, rtypes.KVTxType...), enc...)
		case 1:
			s.Data = append([]byte{}, rtypes.KVTxType...) // prefix only
			s.Note = "kv-malformed"
		case 2:
			s.Data = append(append([]byte{}, rtypes.KVTxType...), enc[:len(enc)-1]...) // truncated
			s.Note = "kv-malformed"
		case 3:
			s.Data = append(append(append([]byte{}, rtypes.KVTxType...), enc...), 0x01) // trailing byte
			s.Note = "kv-malformed"
		case 4:
			s.Data = append(append([]byte{}, rtypes.KVTxType...), genBytes(t, "kvJunk", 1, 20)...)
			s.Note = "kv-malformed"
		case 5:
			three, _ := rlp.EncodeToBytes([]interface{}{key, val, []byte("x")})
			s.Data = append(append([]byte{}, rtypes.KVTxType...), three...)
			s.Note = "kv-malformed"
		default:
			s.Data = append([]byte("kvTx"), enc...) // not the prefix: an ordinary transaction
			s.Note = "kv-near-prefix"
		}
		if rapid.Bool().Draw(t, "kvToOther") {
			s.To = addrs[1].Bytes()
		}
	default: // 0xfe directly, structured the way the governance contract does
		s.To = common.BytesToAddress([]byte{0xfe}).Bytes()
		s.Note = "precompile-structured"
		txdata := genAdminTxData(t, from, s.Nonce)
		body := append(append([]byte{}, from.Bytes()...), txdata...)
		dlen := uint64(len(body))
		switch pick(t, "feLen", 8, 1, 1, 1, 1, 1) {
		case 1:
			dlen += 1000 // longer than the input: clamped by the code
		case 2:
			dlen = uint64(rapid.IntRange(0, 19).Draw(t, "feShort")) // ends before the data starts
		case 3:
			dlen = math.MaxUint64 - uint64(rapid.IntRange(0, 40).Draw(t, "feWrap")) // wraps around
		case 4:
			dlen = 1 << 63
		case 5:
			dlen = uint64(rapid.IntRange(20, len(body)).Draw(t, "fePart"))
		}
		s.Data = append(word(dlen), body...)
		if st.avoidAdmin && adminInputPanics(s.Data) {
			st.excluded[sigAdminSlice] = true
			copy(s.Data, word(uint64(len(body))))
		}
	}

	// gas fields and value
	need := intrinsic(s.Data) + 32000
	switch pick(t, "gasMode", 52, 10, 8, 3, 6, 4, 6, 5, 6) {
	case 0:
		s.Gas = 1000000 + need
	case 1:
		s.Gas = 10000000
	case 2:
		s.Gas = math.MaxUint64
	case 3:
		s.Gas = 1 << 63
	case 4:
		s.Gas = 0
	case 5:
		s.Gas = 20999
	case 6:
		s.Gas = 21000
	case 7:
		s.Gas = intrinsic(s.Data)
	default:
		s.Gas = intrinsic(s.Data) - 1
	}
	switch pick(t, "priceMode", 88, 8, 4) {
	case 1:
		s.Price = 1
	case 2:
		s.Price = math.MaxUint64
	}
	switch pick(t, "valueMode", 84, 12, 4) {
	case 1:
		s.Value = 1
	case 2:
		s.Value = math.MaxUint64
	}

	// signature
	sigs := []string{"ok", "none", "badv", "zero-r", "zero-s", "high-s", "eip155", "tamper", "trunc", "extra", "to19", "big-r", "big-s"}
	s.Sig = sigs[pick(t, "sig", 84, 3, 2, 1, 1, 2, 2, 2, 1, 1, 1, 2, 1)]
	if s.Sig != "ok" {
		s.Arg = rapid.IntRange(0, 255).Draw(t, "sigArg")
	}
	if s.Sig == "tamper" && rapid.Bool().Draw(t, "tamperNonce0") {
		s.Nonce = 0 // the recovered (unrelated) account has nonce 0
	}

	// prediction of the sender's next nonce (only shapes the distribution)
	isKV := bytes.HasPrefix(s.Data, rtypes.KVTxType)
	okSig := s.Sig == "ok"
	applies := false
	if isKV {
		kvOK := rlp.DecodeBytes(s.Data[len(rtypes.KVTxType):], &rtypes.KV{}) == nil
		applies = okSig && kvOK && (st.kvAnyNonce || s.Nonce == pred)
	} else {
		applies = okSig && s.Nonce == pred && s.Value == 0 && (s.Price == 0 || s.Gas == 0) && s.Gas >= intrinsic(s.Data)
	}
	if applies {
		if createsContract && len(s.To) == 0 && s.Gas >= need+uint64(200*len(s.Data)) {
			st.contracts = append(st.contracts, ecrypto.CreateAddress(from, s.Nonce))
		}
		st.nonce[s.Key]++
	}
	return s
}

func genTx(t *rapid.T, st *genState) TxSpec {
	w := []int{6, 4, 16, 74}
	if st.count == 0 {
		w[2] = 0
	}
	var s TxSpec
	switch pick(t, "txKind", w...) {
	case 0: // arbitrary bytes, the empty string included
		s = TxSpec{Kind: "raw"}
		if pick(t, "rawEmpty", 1, 2) == 0 {
			if st.avoidEmpty {
				st.excluded[sigEmptyTx] = true
				s.Raw = []byte{0x80}
			}
		} else {
			s.Raw = genBytes(t, "rawBytes", 1, 40)
		}
	case 1: // well-formed RLP that is not a signed transaction
		s = TxSpec{Kind: "raw"}
		n := rapid.SampledFrom([]int{0, 1, 3, 8, 9, 9, 9, 10, 12}).Draw(t, "rlpItems")
		items := make([]interface{}, n)
		for i := range items {
			if i == 3 && rapid.Bool().Draw(t, "rlpTo20") {
				items[i] = rapid.SliceOfN(rapid.Byte(), 20, 20).Draw(t, "rlpTo")
			} else {
				items[i] = rapid.SliceOfN(rapid.Byte(), 0, 8).Draw(t, "rlpItem")
			}
		}
		s.Raw, _ = rlp.EncodeToBytes(items)
	case 2: // the same bytes as an earlier transaction of the history
		s = TxSpec{Kind: "rep", Ref: rapid.IntRange(0, st.count-1).Draw(t, "ref")}
		if pick(t, "refRecent", 1, 1) == 0 {
			s.Ref = st.count - 1 - rapid.IntRange(0, min(3, st.count-1)).Draw(t, "refBack")
		}
	default:
		s = genEthTx(t, st)
	}
	st.count++
	return s
}

func genCase(t *rapid.T) Case {
	var c Case
	c.Routines = rapid.SampledFrom([]int{1, 2, 3, 4, 8, 16, 0}).Draw(t, "routines")
	st := &genState{excluded: map[string]bool{}}
	// shapes behind listed open findings are left out of 9 cases in 10 so that the search goes
	// on behind them; the tenth keeps hitting the finding.
	keepKnown := rapid.IntRange(0, 9).Draw(t, "keepKnownShapes") == 0
	st.avoidEmpty = !keepKnown && h.IsKnownFor("C09", sigEmptyTx)
	st.avoidAdmin = !keepKnown && h.IsKnownFor("C09", sigAdminSlice)
	st.avoidLeak = !keepKnown && h.IsKnownFor("C09", sigGasPool)
	st.kvAnyNonce = h.IsKnownFor("C09", sigKVNonce)
	nb := rapid.IntRange(1, 3).Draw(t, "blocks")
	for b := 0; b < nb; b++ {
		n := rapid.IntRange(0, 10).Draw(t, "txs")
		blk := make([]TxSpec, 0, n)
		for i := 0; i < n; i++ {
			blk = append(blk, genTx(t, st))
		}
		c.Blocks = append(c.Blocks, blk)
	}
	for _, sig := range []string{sigAdminSlice, sigEmptyTx, sigGasPool} {
		if st.excluded[sig] {
			c.Excluded = append(c.Excluded, sig)
		}
	}
	return c
}

func TestExecute(t *testing.T) {
	h.Check(t, h.Spec[Case]{Prop: "C09", Leg: "execute", Gen: genCase, Run: runCase})
}

// ---------------------------------------------------------------------------------------
// leg 2: every precompiled address x every payload length 0..200 (enumeration)

var sweepSkipped int

func sweepCases() []Case {
	sweepSkipped = 0
	pres := []byte{1, 2, 3, 4, 5, 6, 7, 8, 0xfe}
	fills := []byte{0x00, 0xff, 0x01}
	var cases []Case
	avoid := h.IsKnownFor("C09", sigAdminSlice)
	for _, p := range pres {
		var blk []TxSpec
		nonce := uint64(0)
		flush := func() {
			if len(blk) > 0 {
				cases = append(cases, Case{Blocks: [][]TxSpec{blk}})
				blk = nil
				nonce = 0
			}
		}
		kept := 0
		for n := 0; n <= 200; n++ {
			for _, f := range fills {
				data := bytes.Repeat([]byte{f}, n)
				if f == 0x01 && n >= 32 { // a length word that matches the input
					copy(data, word(uint64(n-32)))
				}
				s := TxSpec{Kind: "eth", Key: 0, Nonce: nonce, To: common.BytesToAddress([]byte{p}).Bytes(), Gas: 5000000, Data: data, Sig: "ok", Note: "precompile-sweep"}
				if p == 0xfe && adminInputPanics(data) {
					if avoid && kept >= 3 {
						sweepSkipped++
						continue // listed finding: three representatives are enough
					}
					kept++
					s.Nonce = 0
					cases = append(cases, Case{Blocks: [][]TxSpec{{s}}})
					continue
				}
				blk = append(blk, s)
				nonce++
				if len(blk) == 10 {
					flush()
				}
			}
		}
		flush()
	}
	return cases
}

func TestPrecompileSweep(t *testing.T) {
	defer stopWorker()
	p := h.NewPlain(t, "C09", "presweep")
	var rc Case
	if h.ReplayCase("C09", "presweep", &rc) {
		replayPlain(t, rc)
		return
	}
	if h.Replaying() {
		t.Skip("replay file is for another leg")
	}
	shard, _ := strconv.Atoi(os.Getenv("VERIF_SHARD"))
	shards, _ := strconv.Atoi(os.Getenv("VERIF_SHARDS"))
	if shards <= 0 {
		shards = 1
	}
	cases := sweepCases()
	if sweepSkipped > 0 {
		h.Note("C09", "presweep", "excluded:%s: %d inputs of 0xfe that trigger the listed finding are left out (3 representatives kept)", sigAdminSlice, sweepSkipped)
	}
	for i, c := range cases {
		if i%shards != shard {
			continue
		}
		c := c
		if !p.Case(c, func(x *h.Ctx) {
			runCase(c, x)
			if !x.Failed() {
				x.NonTrivial()
			}
		}) {
			return
		}
	}
	h.SetExhaustive("C09", "presweep")
}

// ---------------------------------------------------------------------------------------
// leg 3: repeated execution of blocks of undecodable transactions (oracle iii under load)

func TestVerdictRace(t *testing.T) {
	defer stopWorker()
	var rc Case
	if h.ReplayCase("C09", "verdictrace", &rc) {
		replayPlain(t, rc)
		return
	}
	if h.Replaying() {
		t.Skip("replay file is for another leg")
	}
	shard, _ := strconv.Atoi(os.Getenv("VERIF_SHARD"))
	iters := 150
	if h.Tier() == "thorough" {
		iters = 4000
	}
	p := h.NewPlain(t, "C09", "verdictrace")
	routines := []int{16, 8, 2, 1}
	for k := 0; k < 2; k++ {
		c := Case{Routines: routines[(shard+2*k)%len(routines)], Stress: &StressSpec{Kind: []string{"undecodable", "unsigned"}[k], Txs: 300, Iters: iters}}
		if !p.Case(c, func(x *h.Ctx) { runCase(c, x) }) {
			return
		}
	}
}

// replayPlain replays one case of an enumeration leg with the output protocol of h.Check's
// replay mode (the driver parses REPLAY-KNOWN / REPLAY-VIOLATION lines).
func replayPlain(t *testing.T, rc Case) {
	res, d, err := runInWorker(rc)
	if err != nil {
		harnessFatal(err.Error())
	}
	if d != nil {
		res.Fails = []Fail{{Sig: d.sig, Msg: d.msg}}
	}
	for _, f := range res.Fails {
		msg := strings.ReplaceAll(f.Msg, "\n", " | ")
		if h.IsKnownFor("C09", f.Sig) {
			fmt.Printf("REPLAY-KNOWN sig=%s msg=%s\n", f.Sig, clip(msg, 500))
			continue
		}
		fmt.Printf("REPLAY-VIOLATION sig=%s msg=%s\n", f.Sig, clip(msg, 500))
		t.Fatalf("replayed case violates C09: [%s] %s", f.Sig, f.Msg)
	}
}
