package c09

// Tiny EVM assembler for the generated contracts of C09: storage writes, LOG, REVERT,
// INVALID, bounded and gas-exhausting loops, calls to precompiles. Pure functions used by
// the generator only (the case stores the assembled bytes).

import "encoding/binary"

const (
	opSTOP         = 0x00
	opADD          = 0x01
	opSUB          = 0x03
	opCALLDATALOAD = 0x35
	opCODECOPY     = 0x39
	opPOP          = 0x50
	opMSTORE       = 0x52
	opSLOAD        = 0x54
	opSSTORE       = 0x55
	opJUMP         = 0x56
	opJUMPI        = 0x57
	opGAS          = 0x5a
	opJUMPDEST     = 0x5b
	opPUSH1        = 0x60
	opPUSH2        = 0x61
	opPUSH32       = 0x7f
	opDUP1         = 0x80
	opSWAP1        = 0x90
	opLOG0         = 0xa0
	opCALL         = 0xf1
	opRETURN       = 0xf3
	opREVERT       = 0xfd
	opINVALID      = 0xfe
	opSELFDESTRUCT = 0xff
)

// Frag is one program fragment; it is part of the generator's vocabulary only.
type Frag struct {
	Kind string // sstore inc calldata log revert invalid stop ret loop burn callpre selfdestruct raw
	A, B int
	W    []byte // callpre: first memory word (32 bytes); raw: literal bytes
}

func push1(v int) []byte { return []byte{opPUSH1, byte(v)} }
func push2(v int) []byte {
	var b [2]byte
	binary.BigEndian.PutUint16(b[:], uint16(v))
	return []byte{opPUSH2, b[0], b[1]}
}

// assemble concatenates the fragments; jump targets are absolute offsets from base 0 (the
// code runs at offset 0 both as init code and as deployed runtime code).
func assemble(frags []Frag) []byte {
	var out []byte
	emit := func(b ...byte) { out = append(out, b...) }
	for _, f := range frags {
		switch f.Kind {
		case "sstore": // storage[A] = B
			emit(push1(f.B)...)
			emit(push1(f.A)...)
			emit(opSSTORE)
		case "inc": // storage[A]++
			emit(push1(f.A)...)
			emit(opSLOAD)
			emit(push1(1)...)
			emit(opADD)
			emit(push1(f.A)...)
			emit(opSSTORE)
		case "calldata": // storage[A] = calldata[0:32]
			emit(push1(0)...)
			emit(opCALLDATALOAD)
			emit(push1(f.A)...)
			emit(opSSTORE)
		case "log": // LOG<A> with B bytes of data
			emit(push1(0xab)...)
			emit(push1(0)...)
			emit(opMSTORE)
			for i := 0; i < f.A; i++ {
				emit(push1(0x10 + i)...)
			}
			emit(push1(f.B)...)
			emit(push1(0)...)
			emit(byte(opLOG0 + f.A))
		case "revert":
			emit(push1(0)...)
			emit(push1(0)...)
			emit(opREVERT)
		case "invalid":
			emit(opINVALID)
		case "stop":
			emit(opSTOP)
		case "ret":
			emit(push1(32)...)
			emit(push1(0)...)
			emit(opRETURN)
		case "loop": // A iterations of storage[B]++
			emit(push1(f.A)...)
			l := len(out)
			emit(opJUMPDEST)
			emit(push1(f.B)...)
			emit(opSLOAD)
			emit(push1(1)...)
			emit(opADD)
			emit(push1(f.B)...)
			emit(opSSTORE)
			emit(push1(1)...)
			emit(opSWAP1)
			emit(opSUB)
			emit(opDUP1)
			emit(push2(l)...)
			emit(opJUMPI)
			emit(opPOP)
		case "burn": // endless loop whose body costs an SSTORE: ends by running out of gas
			l := len(out)
			emit(opJUMPDEST)
			emit(push1(1)...)
			emit(push1(f.A)...)
			emit(opSSTORE)
			emit(push2(l)...)
			emit(opJUMP)
		case "callpre": // CALL(gas, address A, 0, mem[0:B]) with mem[0:32] = W
			w := make([]byte, 32)
			copy(w, f.W)
			emit(opPUSH32)
			emit(w...)
			emit(push1(0)...)
			emit(opMSTORE)
			emit(push1(0)...)   // out size
			emit(push1(0)...)   // out offset
			emit(push2(f.B)...) // in size
			emit(push1(0)...)   // in offset
			emit(push1(0)...)   // value
			emit(push1(f.A)...) // address
			emit(opGAS)
			emit(opCALL)
			emit(opPOP)
		case "callvalue": // A times CALL(gas B, address 0x99, value 1, no data)
			for i := 0; i < f.A; i++ {
				emit(push1(0)...)    // out size
				emit(push1(0)...)    // out offset
				emit(push1(0)...)    // in size
				emit(push1(0)...)    // in offset
				emit(push1(1)...)    // value
				emit(push1(0x99)...) // address
				emit(push1(f.B)...)  // gas
				emit(opCALL)
				emit(opPOP)
			}
		case "selfdestruct":
			emit(push1(0)...)
			emit(opSELFDESTRUCT)
		case "raw":
			emit(f.W...)
		}
	}
	return out
}

// deployer returns init code that first runs initFrags and then deploys runtime.
func deployer(initCode, runtime []byte) []byte {
	const stub = 13
	out := append([]byte{}, initCode...)
	off := len(initCode) + stub
	out = append(out, push2(len(runtime))...)
	out = append(out, opDUP1)
	out = append(out, push2(off)...)
	out = append(out, push1(0)...)
	out = append(out, opCODECOPY)
	out = append(out, push1(0)...)
	out = append(out, opRETURN)
	return append(out, runtime...)
}

// adminInputPanics mirrors the slicing of vm.AdminOP.Run: input[:32], input[32:52],
// input[52:offset] with offset = min(uint64(be(input[:32])) + 32, len(input)) computed as the
// code does (64-bit wrap-around, signed comparison). Inputs are exact-capacity copies.
func adminInputPanics(in []byte) bool {
	if len(in) < 52 {
		return true
	}
	dlen := binary.BigEndian.Uint64(in[24:32])
	offset := dlen + 32
	if int(offset) > len(in) {
		offset = uint64(len(in))
	}
	return offset < 52 || offset > uint64(len(in))
}
