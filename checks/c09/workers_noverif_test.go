//go:build !verif

package c09

// Without the verif tag the parallel verifier keeps its default runtime.NumCPU() routines.
func setVerifierRoutines(n int) {}
