package c19

import (
	"bytes"
	"runtime"
	"strconv"
	"strings"
	"sync"
	"sync/atomic"
	"testing"
	"time"

	"pgregory.net/rapid"

	"github.com/dappledger/AnnChain/chain/app/evm"

	"verif/internal/h"
)

// Leg "lockorder": the concurrent case language of conc_test.go, but the harness owns the schedule at
// the granularity the pool itself synchronises on: every goroutine calls a gate immediately before it
// asks for the pool mutex (hook evm.VerifSetPoolLockGate, build tag verif). Submitter goroutines and
// the commit path (Reap, Update, OnCommit -> updateToState) are threads of a cooperative scheduler:
// exactly one of them runs at a time, from one request for the pool lock to its next one, and the
// generated schedule says who goes next. Every interleaving of lock acquisitions between submitters
// and the commit path can be expressed, is deterministic, shrinks and replays. The oracles are those
// of the concurrent leg (blocks built from Reap are valid; an accepted transaction at an account's
// state nonce is offered once the pool is drained; duplicates; admin transactions).

type LockOrderCase struct {
	ConcCase
	Sched []int `json:"sched"`
}

func genLockOrder(t *rapid.T) LockOrderCase {
	c := LockOrderCase{ConcCase: genConc(t)}
	c.Query = false
	// runs of the same choice keep one thread going (or waiting) for several lock acquisitions
	n := rapid.IntRange(8, 96).Draw(t, "schedLen")
	for len(c.Sched) < n {
		v := rapid.IntRange(0, 4).Draw(t, "pick")
		run := rapid.IntRange(1, 6).Draw(t, "run")
		for i := 0; i < run; i++ {
			c.Sched = append(c.Sched, v)
		}
	}
	return c
}

type parkMsg struct {
	rel    chan struct{}
	caller string
}

type gThread struct {
	name   string
	parked chan parkMsg
	done   chan struct{}
	rel    chan struct{} // non-nil: waiting at the gate
	at     string
	fin    bool
}

type gateSched struct {
	mu          sync.Mutex
	byGo        map[int64]*gThread
	threads     []*gThread
	sched       []int
	off         int32
	interleaved int
	trace       []string
}

func goid() int64 {
	var b [64]byte
	n := runtime.Stack(b[:], false)
	f := bytes.Fields(b[:n])
	if len(f) < 2 {
		return -1
	}
	id, _ := strconv.ParseInt(string(f[1]), 10, 64)
	return id
}

func newGateSched(sched []int) *gateSched {
	if len(sched) == 0 {
		sched = []int{0}
	}
	gs := &gateSched{byGo: map[int64]*gThread{}, sched: sched}
	evm.VerifSetPoolLockGate(gs.gate)
	return gs
}

func (gs *gateSched) thread(name string) *gThread {
	t := &gThread{name: name, parked: make(chan parkMsg, 1), done: make(chan struct{})}
	gs.threads = append(gs.threads, t)
	return t
}

// enter is called by the thread's goroutine before anything else: it registers the goroutine and
// waits for its first turn (so that also the code before the first lock request runs alone).
func (gs *gateSched) enter(t *gThread) {
	gs.mu.Lock()
	gs.byGo[goid()] = t
	gs.mu.Unlock()
	gs.gate("start")
}

func (gs *gateSched) leave(t *gThread) {
	gs.mu.Lock()
	delete(gs.byGo, goid())
	gs.mu.Unlock()
	close(t.done)
}

func (gs *gateSched) gate(caller string) {
	if atomic.LoadInt32(&gs.off) != 0 {
		return
	}
	gs.mu.Lock()
	t := gs.byGo[goid()]
	gs.mu.Unlock()
	if t == nil {
		return // not one of the scheduled threads (the harness's own drain, the app's goroutines)
	}
	m := parkMsg{rel: make(chan struct{}), caller: caller}
	t.parked <- m
	<-m.rel
}

func (gs *gateSched) wait(t *gThread) bool {
	select {
	case m := <-t.parked:
		t.rel, t.at = m.rel, m.caller
		return true
	case <-t.done:
		t.rel, t.fin = nil, true
		return true
	case <-time.After(60 * time.Second):
		return false
	}
}

// run drives the threads to completion; false = a thread neither came back to the gate nor
// finished within a minute (inconclusive; everything is released).
func (gs *gateSched) run() bool {
	for _, t := range gs.threads {
		if !gs.wait(t) {
			gs.abandon()
			return false
		}
	}
	for step := 0; ; step++ {
		var parked []*gThread
		for _, t := range gs.threads {
			if t.rel != nil {
				parked = append(parked, t)
			}
		}
		if len(parked) == 0 {
			return true
		}
		v := gs.sched[step%len(gs.sched)]
		if v < 0 {
			v = -v
		}
		pick := parked[v%len(parked)]
		if pick.name == "K" && strings.HasSuffix(pick.at, "updateToState") && len(parked) > 1 {
			// a submitter is waiting for the pool lock while the pool is brought up to the new state
			for _, t := range parked {
				if t != pick && t.at != "start" {
					gs.interleaved++
					break
				}
			}
		}
		r := pick.rel
		pick.rel = nil
		close(r)
		if !gs.wait(pick) {
			gs.abandon()
			return false
		}
	}
}

// abandon switches the gate off and lets every waiting thread go.
func (gs *gateSched) abandon() {
	atomic.StoreInt32(&gs.off, 1)
	evm.VerifSetPoolLockGate(nil)
	for _, t := range gs.threads {
		if t.rel != nil {
			close(t.rel)
			t.rel = nil
		}
		select {
		case m := <-t.parked:
			close(m.rel)
		default:
		}
	}
}

func runLockOrder(c LockOrderCase, x *h.Ctx) {
	cc := c.ConcCase
	cc.Query = false
	sched := c.Sched
	if len(sched) == 0 {
		sched = []int{0}
	}
	runConcMode(cc, x, false, sched)
}

func TestLockOrder(t *testing.T) {
	h.Check(t, h.Spec[LockOrderCase]{Prop: "C19", Leg: "lockorder", Gen: genLockOrder, Run: runLockOrder})
}
