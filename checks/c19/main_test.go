// C19: transaction pools — per-account nonce order, no duplicates, no loss, bounded.
//
//   - leg "apppool": model-based stateful test of the EVM application's nonce-aware pool
//     (chain/app/evm/tx_pool.go, tx_sort.go) driven through the real EVMApp
//     (OnExecute -> pool.Update -> OnCommit, the order of gemmill/state/execution.go);
//   - leg "mempool": the same op language against the plain FIFO gemmill/mempool;
//   - legs "concurrent" and "concurrent_race" (thorough): submitters vs. the commit path on
//     the app pool, functional oracle resp. race detector.
//
// Not driven: the app pool's time-based eviction (1-minute ticker, 10-minute waiting life time);
// the gossip queue (broadcastQueue / TxsFrontWait) is not observed.
package c19

import (
	"testing"

	"verif/internal/h"
)

func TestMain(m *testing.M) { h.Main(m) }
