package c19

import (
	"crypto/sha256"
	"encoding/binary"
	"fmt"
	"sync"
	"sync/atomic"
	"testing"
	"time"

	"github.com/spf13/viper"
	"go.uber.org/zap"
	"pgregory.net/rapid"

	"github.com/dappledger/AnnChain/gemmill/mempool"
	glog "github.com/dappledger/AnnChain/gemmill/modules/go-log"
	gtypes "github.com/dappledger/AnnChain/gemmill/types"

	"verif/internal/h"
)

// Leg "mempool_dup_race" (quick): byte-identical txs submitted by several goroutines AT THE SAME
// TIME to gemmill/mempool. ReceiveTx takes no pool-wide lock: the duplicate test on entry
// (cache.Exists) and the insert (cache.Push) are separate steps with the registered filters in
// between. The interleaving is forced, not hoped for: the registered filter (RegisterFilter, the
// hook plugins use) holds every submitter of a group inside CheckTx until all submitters of that
// group are inside (or a guard timeout passes — a pool that serialises ReceiveTx is fine too), so
// all of them have passed the entry test before any of them inserts.
// Oracle (property text: "rejects exact duplicates", "never offers two transactions ..."): of the
// submissions of one byte string exactly one is accepted, Size() == number of distinct strings,
// Reap offers every distinct string exactly once.

type RaceGroup struct {
	Seed uint64 `json:"seed"` // tx bytes are derived from the seed
	Len  int    `json:"len"`  // tx length 0..40
	K    int    `json:"k"`    // submitters of these very bytes (1 = control: no duplicate)
}

type MemRaceCase struct {
	Groups []RaceGroup `json:"groups"` // all submitters of all groups run concurrently
	Limits bool        `json:"limits"`
}

func genMemRace(t *rapid.T) MemRaceCase {
	var c MemRaceCase
	g := rapid.Custom(func(t *rapid.T) RaceGroup {
		return RaceGroup{
			Seed: rapid.Uint64().Draw(t, "seed"),
			Len:  rapid.IntRange(0, 40).Draw(t, "len"),
			K:    rapid.SampledFrom([]int{2, 2, 2, 3, 4, 1}).Draw(t, "k"),
		}
	})
	c.Groups = rapid.SliceOfN(g, 1, 3).Draw(t, "groups")
	c.Limits = rapid.Bool().Draw(t, "limits")
	return c
}

// barrierFilter holds the submitters of one byte string until `want` of them are inside.
type barrierFilter struct {
	mu     sync.Mutex
	armed  bool
	want   map[string]int
	inside map[string]int
	gate   map[string]chan struct{}
	met    int32 // groups whose barrier was reached by all submitters
}

func (f *barrierFilter) arm(want map[string]int) {
	f.mu.Lock()
	defer f.mu.Unlock()
	f.armed = true
	f.want = want
	f.inside = map[string]int{}
	f.gate = map[string]chan struct{}{}
	for k := range want {
		f.gate[k] = make(chan struct{})
	}
	atomic.StoreInt32(&f.met, 0)
}

func (f *barrierFilter) disarm() {
	f.mu.Lock()
	f.armed = false
	f.mu.Unlock()
}

func (f *barrierFilter) CheckTx(tx gtypes.Tx) (bool, error) {
	f.mu.Lock()
	if !f.armed {
		f.mu.Unlock()
		return true, nil
	}
	k := string(tx)
	gate := f.gate[k]
	if gate == nil {
		f.mu.Unlock()
		return true, nil
	}
	f.inside[k]++
	if f.inside[k] == f.want[k] {
		close(gate)
		atomic.AddInt32(&f.met, 1)
	}
	f.mu.Unlock()
	select {
	case <-gate:
	case <-time.After(300 * time.Millisecond): // guard only: a pool that serialises ReceiveTx never fills the barrier
	}
	return true, nil
}

type memRaceEnv struct {
	mem *mempool.Mempool
	flt *barrierFilter
}

var memRaceEnvs = map[bool]*memRaceEnv{}

func raceTx(g RaceGroup) []byte {
	n := g.Len
	if n < 0 {
		n = 0
	}
	if n > 64 {
		n = 64
	}
	var b [8]byte
	binary.BigEndian.PutUint64(b[:], g.Seed)
	out := []byte{}
	for ctr := byte(0); len(out) < n; ctr++ {
		s := sha256.Sum256(append(b[:], ctr))
		out = append(out, s[:]...)
	}
	return out[:n]
}

func runMemRace(c MemRaceCase, x *h.Ctx) {
	env := memRaceEnvs[c.Limits]
	if env == nil {
		glog.SetLog(zap.NewNop())
		conf := viper.New()
		conf.Set("block_size", 50) // txLimit 100: never reached here
		conf.Set("mempool_enable_txs_limits", c.Limits)
		conf.Set("mempool_wal_dir", "")
		env = &memRaceEnv{mem: mempool.NewMempool(conf), flt: &barrierFilter{}}
		env.mem.RegisterFilter(env.flt)
		memRaceEnvs[c.Limits] = env
	}
	mem, flt := env.mem, env.flt
	flt.disarm()
	if mem.Size() != 0 {
		mem.Flush()
	}
	// distinct byte strings; groups with equal bytes are merged
	want := map[string]int{}
	var order []string
	for _, g := range c.Groups {
		k := g.K
		if k < 1 {
			k = 1
		}
		if k > 6 {
			k = 6
		}
		tx := string(raceTx(g))
		if want[tx] == 0 {
			order = append(order, tx)
		}
		want[tx] += k
	}
	flt.arm(want)
	type res struct {
		tx  string
		err error
	}
	var wg sync.WaitGroup
	var mu sync.Mutex
	var results []res
	start := make(chan struct{})
	for _, tx := range order {
		for i := 0; i < want[tx]; i++ {
			wg.Add(1)
			go func(tx string) {
				defer wg.Done()
				<-start
				err := mem.ReceiveTx(gtypes.Tx(tx))
				mu.Lock()
				results = append(results, res{tx, err})
				mu.Unlock()
			}(tx)
		}
	}
	close(start)
	wg.Wait()
	flt.disarm()

	accepted := map[string]int{}
	for _, r := range results {
		if r.err == nil {
			accepted[r.tx]++
		}
	}
	maxK := 0
	for _, tx := range order {
		if want[tx] > maxK {
			maxK = want[tx]
		}
		switch n := accepted[tx]; {
		case n > 1:
			if x.Fail("concurrent-exact-duplicates-accepted", "%d concurrent submissions of the byte-identical tx %x: %d were accepted (ReceiveTx returned nil)", want[tx], tx, n) {
				return
			}
		case n == 0:
			if x.Fail("concurrent-submission-of-fresh-tx-all-rejected", "%d concurrent submissions of tx %x: none accepted", want[tx], tx) {
				return
			}
		}
	}
	if sz := mem.Size(); sz != len(order) {
		if x.Fail("size-differs-from-held-count:concurrent", "Size()=%d after concurrent submission of %d distinct txs", sz, len(order)) {
			return
		}
	}
	out := mem.Reap(-1)
	seen := map[string]int{}
	for _, raw := range out {
		seen[string(raw)]++
	}
	for _, tx := range order {
		if seen[tx] != 1 {
			if x.Fail("reap-offers-same-tx-twice:concurrent", "Reap(-1) offers tx %x %d times after %d concurrent submissions (%d txs offered, %d distinct submitted)", tx, seen[tx], want[tx], len(out), len(order)) {
				return
			}
		}
	}
	if len(out) != len(order) {
		if x.Fail("reap-offers-same-tx-twice:concurrent", "Reap(-1) offers %d txs, %d distinct were submitted", len(out), len(order)) {
			return
		}
	}
	// leave the pool empty (committing removes the txs from the list and the duplicate cache)
	mem.Update(1, out)
	if sz := mem.Size(); sz != 0 {
		if x.Fail("committed-tx-still-held", "Size()=%d after committing everything Reap offered", sz) {
			return
		}
		mem.Flush()
	}
	dupGroups := 0
	for _, tx := range order {
		if want[tx] > 1 {
			dupGroups++
		}
	}
	x.Labelf("max-submitters-of-one-tx:%d", maxK)
	x.Labelf("distinct-txs:%d", len(order))
	if int(atomic.LoadInt32(&flt.met)) == len(order) {
		x.Label("interleaving-forced:all-submitters-were-past-the-entry-test-together")
	} else {
		x.Label("interleaving-not-forced(barrier-timeout)")
	}
	if dupGroups > 0 && int(atomic.LoadInt32(&flt.met)) == len(order) {
		x.NonTrivial(fmt.Sprintf("%v", c))
	}
}

func TestMempoolDupRace(t *testing.T) {
	h.Note("C19", "mempool_dup_race", "interleaving forced by a registered filter that holds all submitters of one byte string between the entry duplicate test and the insert")
	h.Check(t, h.Spec[MemRaceCase]{Prop: "C19", Leg: "mempool_dup_race", Gen: genMemRace, Run: runMemRace})
}
