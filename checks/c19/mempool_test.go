package c19

import (
	"errors"
	"fmt"
	"testing"

	"github.com/spf13/viper"
	"go.uber.org/zap"
	"pgregory.net/rapid"

	"github.com/dappledger/AnnChain/gemmill/mempool"
	glog "github.com/dappledger/AnnChain/gemmill/modules/go-log"
	gtypes "github.com/dappledger/AnnChain/gemmill/types"

	"verif/internal/h"
)

// Leg 2: gemmill/mempool, the plain FIFO pool (no account model). Byte-string txs from a small
// alphabet so that repeats, duplicates and resubmissions are frequent.

var memAlphabet = [][]byte{
	[]byte("tx-0"), []byte("tx-1"), []byte("tx-2"), []byte("tx-3"), []byte("tx-4"), []byte("tx-5"),
	[]byte("t"), []byte("tx-"), // prefixes of the others
	[]byte("zaop-admin-looking"), // carries the admin tag: the mempool does not treat it specially
	{0x00}, {0x00, 0x00},
	[]byte("tx-6"), []byte("tx-7"), []byte("tx-8"),
}

type MemOp struct {
	K    string `json:"k"`              // sub | reap | commit | flush | ban | unban
	T    int    `json:"t,omitempty"`    // sub/ban/unban: index into the alphabet
	N    int    `json:"n,omitempty"`    // reap: limit; commit: limit of the reap done first when none happened since the last commit
	Mask uint64 `json:"mask,omitempty"` // commit: which txs of the last reap result are in the block
}

type MemCase struct {
	BlockSize int     `json:"block_size"` // txLimit = 2*block_size
	Limits    bool    `json:"limits"`     // mempool_enable_txs_limits
	Ops       []MemOp `json:"ops"`
}

func genMem(t *rapid.T) MemCase {
	var c MemCase
	c.BlockSize = rapid.IntRange(1, 3).Draw(t, "blockSize")
	c.Limits = rapid.Bool().Draw(t, "limits")
	op := rapid.Custom(func(t *rapid.T) MemOp {
		var o MemOp
		w := rapid.IntRange(0, 99).Draw(t, "kind")
		switch {
		case w < 48:
			o.K = "sub"
			o.T = rapid.IntRange(0, len(memAlphabet)-1).Draw(t, "t")
		case w < 68:
			o.K = "reap"
			o.N = rapid.SampledFrom([]int{0, 1, 3, -1, bigReap, 2}).Draw(t, "n")
		case w < 90:
			o.K = "commit"
			o.N = rapid.SampledFrom([]int{-1, 1, 3, bigReap, 2, 5}).Draw(t, "n")
			if rapid.IntRange(0, 2).Draw(t, "all") == 0 {
				o.Mask = ^uint64(0)
			} else {
				o.Mask = rapid.Uint64Range(0, 1<<8-1).Draw(t, "mask")
			}
		case w < 91:
			o.K = "flush"
		case w < 96:
			o.K = "ban"
			o.T = rapid.IntRange(0, len(memAlphabet)-1).Draw(t, "t")
		default:
			o.K = "unban"
			o.T = rapid.IntRange(0, len(memAlphabet)-1).Draw(t, "t")
		}
		return o
	})
	n := rapid.IntRange(2, 50).Draw(t, "nops")
	c.Ops = rapid.SliceOfN(op, n, n).Draw(t, "ops")
	return c
}

// banFilter is a plugin-style IFilter (what angine registers for its plugins): rejects banned txs.
type banFilter struct{ banned map[string]bool }

func (f *banFilter) CheckTx(tx gtypes.Tx) (bool, error) {
	if f.banned[string(tx)] {
		return false, errors.New("banned")
	}
	return true, nil
}

// memEnv: one Mempool per (block size, limits) configuration and process. NewMempool and Flush
// each allocate a 100000-entry duplicate cache, so a pool is reused while cases leave it empty
// (every case ends by committing everything it holds) and is flushed only after a case that did not.
type memEnv struct {
	mem   *mempool.Mempool
	flt   *banFilter
	dirty bool
}

var memEnvs = map[string]*memEnv{}

func getMemEnv(bs int, limits bool) *memEnv {
	k := fmt.Sprintf("%d/%v", bs, limits)
	if e := memEnvs[k]; e != nil {
		return e
	}
	glog.SetLog(zap.NewNop())
	conf := viper.New()
	conf.Set("block_size", bs)
	conf.Set("mempool_enable_txs_limits", limits)
	conf.Set("mempool_wal_dir", "")
	e := &memEnv{mem: mempool.NewMempool(conf), flt: &banFilter{banned: map[string]bool{}}}
	e.mem.RegisterFilter(e.flt)
	memEnvs[k] = e
	return e
}

func runMem(c MemCase, x *h.Ctx) {
	bs := c.BlockSize
	if bs < 1 || bs > 3 {
		bs = 1
	}
	env := getMemEnv(bs, c.Limits)
	mem, flt := env.mem, env.flt
	flt.banned = map[string]bool{}
	if env.dirty || mem.Size() != 0 {
		mem.Flush()
	}
	env.dirty = true // cleared at the clean end of the case
	limit := 2 * bs

	labels := map[string]bool{}
	nt := false
	var fifo []int              // held txs, submission order
	held := map[int]bool{}      // alphabet index -> held
	committed := map[int]bool{} // contained in a committed block and not resubmitted since
	var lastReap []int
	height := int64(0)
	step := 0
	desc := ""
	stop := false
	fail := func(sig, f string, a ...any) bool {
		if x.Fail(sig, "step %d (%s): %s", step, desc, fmt.Sprintf(f, a...)) {
			stop = true
			return true
		}
		labels["known:"+sig] = true
		return false
	}
	idx := map[string]int{}
	for i, b := range memAlphabet {
		idx[string(b)] = i
	}
	remove := func(t int) {
		for i, q := range fifo {
			if q == t {
				fifo = append(fifo[:i:i], fifo[i+1:]...)
				break
			}
		}
		delete(held, t)
	}
	checkSize := func() {
		sz := mem.Size()
		if sz != len(fifo) {
			fail("size-differs-from-held-count", "Size()=%d, %d txs are held (%v)", sz, len(fifo), fifo)
			return
		}
		if c.Limits {
			if sz > limit+1 {
				fail("size-exceeds-configured-bound", "Size()=%d with txLimit %d (limits enabled)", sz, limit)
			} else if sz == limit+1 {
				labels["obs:size=txLimit+1(admission-test-is-Len>txLimit)"] = true
			}
		}
	}
	checkReap := func(out []gtypes.Tx, n int) []int {
		want := len(fifo)
		if n == 0 {
			want = 0
		} else if n > 0 && n < want {
			want = n
			labels["reap:truncated-by-limit"] = true
		}
		var got []int
		seen := map[int]bool{}
		for _, raw := range out {
			t, ok := idx[string(raw)]
			if !ok {
				fail("reap-offers-unknown-bytes", "Reap(%d) offered %x", n, []byte(raw))
				return nil
			}
			if seen[t] {
				if fail("reap-offers-same-tx-twice", "Reap(%d) offered tx %d twice: %v", n, t, out) {
					return nil
				}
			}
			seen[t] = true
			if !held[t] {
				sig := "reap-offers-unheld-tx"
				if committed[t] {
					sig = "reap-reoffers-committed-tx"
				}
				if fail(sig, "Reap(%d) offered tx %d (%q) which is not held (committed and not resubmitted: %v)", n, t, memAlphabet[t], committed[t]) {
					return nil
				}
			}
			got = append(got, t)
		}
		if len(got) < want {
			if fail("held-tx-not-offered", "Reap(%d) offered %v, held (FIFO) %v", n, got, fifo) {
				return nil
			}
		} else if len(got) > want {
			if fail("reap-exceeds-limit", "Reap(%d) offered %d txs %v, held %v", n, len(got), got, fifo) {
				return nil
			}
		} else {
			for i := range got {
				if got[i] != fifo[i] {
					if fail("reap-order-not-fifo", "Reap(%d) offered %v, held in submission order %v", n, got, fifo) {
						return nil
					}
					break
				}
			}
		}
		return got
	}

	for i, o := range c.Ops {
		step = i
		desc = o.K
		switch o.K {
		case "sub":
			t := o.T % len(memAlphabet)
			desc = fmt.Sprintf("sub tx %d %q", t, memAlphabet[t])
			err := mem.ReceiveTx(gtypes.Tx(memAlphabet[t]))
			switch {
			case held[t]:
				nt = true
				if err == nil {
					if fail("duplicate-accepted-while-held", "tx %d is held and was accepted again", t) {
						return
					}
					fifo = append(fifo, t)
				} else {
					labels["dup-while-held:rejected"] = true
				}
			case flt.banned[string(memAlphabet[t])]:
				if err == nil {
					if fail("filtered-tx-accepted", "tx %d is refused by the registered filter but was accepted", t) {
						return
					}
					fifo = append(fifo, t)
					held[t] = true
				} else {
					labels["sub:refused-by-filter"] = true
				}
			default:
				wasCommitted := committed[t]
				if wasCommitted {
					nt = true
				}
				full := c.Limits && len(fifo) >= limit
				switch {
				case err == nil:
					fifo = append(fifo, t)
					held[t] = true
					delete(committed, t)
					if wasCommitted {
						// not settled by the property text: observation, not judged
						labels["obs:resubmitted-committed-tx:accepted"] = true
					}
					labels["sub:accepted"] = true
				case wasCommitted:
					labels["obs:resubmitted-committed-tx:rejected"] = true
				case full:
					labels["sub:rejected-at-capacity"] = true
				default:
					if fail("fresh-tx-rejected-below-capacity", "tx %d rejected (%v) with %d held, limits=%v txLimit=%d", t, err, len(fifo), c.Limits, limit) {
						return
					}
				}
			}
		case "reap":
			desc = fmt.Sprintf("reap %d", o.N)
			out := mem.Reap(o.N)
			lastReap = checkReap(out, o.N)
			labels[fmt.Sprintf("reap:n=%d", o.N)] = true
		case "commit":
			if lastReap == nil {
				// no reap since the last commit: the proposer reaps now
				desc = fmt.Sprintf("reap %d before commit", o.N)
				lastReap = checkReap(mem.Reap(o.N), o.N)
				if stop {
					return
				}
			}
			var blk []gtypes.Tx
			var sel []int
			for j, t := range lastReap {
				if j < 64 && o.Mask&(1<<uint(j)) != 0 {
					blk = append(blk, gtypes.Tx(memAlphabet[t]))
					sel = append(sel, t)
				}
			}
			desc = fmt.Sprintf("commit %v of last reap %v", sel, lastReap)
			switch {
			case len(sel) == 0:
				labels["commit:empty-block"] = true
			case len(sel) < len(lastReap):
				labels["nt:commit-of-strict-subset"] = true
				nt = true
			default:
				labels["commit:whole-reap"] = true
			}
			height++
			mem.Update(height, blk)
			for _, t := range sel {
				if held[t] {
					remove(t)
					committed[t] = true
				} else {
					labels["commit:of-tx-no-longer-held"] = true
				}
			}
			// eviction: Update re-runs the filters over what is left
			for _, t := range append([]int{}, fifo...) {
				if flt.banned[string(memAlphabet[t])] {
					remove(t)
					labels["evicted-by-filter-at-update"] = true
				}
			}
			lastReap = nil
		case "flush":
			mem.Flush()
			fifo = nil
			held = map[int]bool{}
			labels["flush"] = true
		case "ban":
			flt.banned[string(memAlphabet[o.T%len(memAlphabet)])] = true
		case "unban":
			delete(flt.banned, string(memAlphabet[o.T%len(memAlphabet)]))
		}
		if stop {
			return
		}
		checkSize()
		if stop {
			return
		}
	}
	// final: everything held is offered in order, then committed away
	step, desc = len(c.Ops), "final reap"
	out := mem.Reap(-1)
	got := checkReap(out, -1)
	if stop {
		return
	}
	var blk []gtypes.Tx
	for _, t := range got {
		blk = append(blk, gtypes.Tx(memAlphabet[t]))
	}
	mem.Update(height+1, blk)
	for _, t := range got {
		remove(t)
	}
	for _, t := range append([]int{}, fifo...) {
		if flt.banned[string(memAlphabet[t])] {
			remove(t)
		}
	}
	desc = "after committing everything"
	if out := mem.Reap(-1); len(out) != len(fifo) {
		fail("committed-tx-still-held", "after committing every offered tx Reap(-1) still offers %d txs, model holds %v", len(out), fifo)
		return
	}
	checkSize()
	if !stop && len(fifo) == 0 && len(labels) >= 0 {
		clean := true
		for l := range labels {
			if len(l) > 6 && l[:6] == "known:" {
				clean = false
			}
		}
		env.dirty = !clean
	}
	x.Labelf("limits:%v", c.Limits)
	for l := range labels {
		x.Label(l)
	}
	if nt {
		x.NonTrivial()
	}
}

func TestMempool(t *testing.T) {
	h.Note("C19", "mempool", "whether a re-submitted already-committed tx must be refused is not settled by the property text: recorded as obs:resubmitted-committed-tx:* labels, not judged; cache size 100000 is not reached")
	h.Check(t, h.Spec[MemCase]{Prop: "C19", Leg: "mempool", Gen: genMem, Run: runMem})
}
