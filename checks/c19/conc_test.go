package c19

import (
	"crypto/ecdsa"
	"fmt"
	"math/big"
	"os"
	"path/filepath"
	"regexp"
	"runtime"
	"sort"
	"strings"
	"sync"
	"sync/atomic"
	"testing"

	"pgregory.net/rapid"

	rtypes "github.com/dappledger/AnnChain/chain/types"
	etypes "github.com/dappledger/AnnChain/eth/core/types"
	ecrypto "github.com/dappledger/AnnChain/eth/crypto"
	"github.com/dappledger/AnnChain/eth/rlp"
	gtypes "github.com/dappledger/AnnChain/gemmill/types"

	"verif/internal/h"
)

// Legs 3 and 4 (thorough): concurrent submitters against the commit path of the app pool — the
// situation of a running node (RPC / gossip goroutines call ReceiveTx while consensus reaps,
// executes and commits). Two modes of the same case language:
//   - "concurrent": the commit path executes the reaped txs through the real app, so state nonces
//     advance while submitters run (functional oracle below; normal build).
//   - "concurrent_race": built with -race. The block executor (verifycpuparallel.go) has data
//     races of its own that belong to the execution properties (C05/C09) and would be reported
//     for every block with a tx, so in this mode the commit path commits only the reaped admin
//     txs (removed by Update without execution) and empty blocks: Reap / Update / updateToState /
//     OnCommit's state swap run against ReceiveTx, Size and GetPendingMaxNonce under the detector.
// The outcome depends on the schedule; the oracle does not:
//   - every block built from a Reap executes without an invalid tx (per account consecutive from
//     the state nonce, nothing committed before, no account+nonce twice);
//   - after the submitters finished and the pool was drained, no accepted tx sits exactly at an
//     account's state nonce (it would be an executable tx that was never offered: lost);
//   - a byte-identical tx is accepted at most once;
//   - a committed admin tx is offered again only if it was submitted again;
//   - the race detector stays silent (race mode; its log is read after every case).
// The pool stays far below its limits (block_size 5: limits 50, at most 48 txs per case).

const concAcc = 3

type ConcSub struct {
	A int `json:"a"` // account 0..2; 3 = admin tx with payload N
	N int `json:"n"` // nonce (accounts are fresh: state nonce starts at 0)
	V int `json:"v"` // variant
}

type ConcCase struct {
	Workers [][]ConcSub `json:"workers"`
	ReapN   []int       `json:"reap_n"` // reap limits used round-robin by the commit path
	Query   bool        `json:"query"`  // a reader goroutine polls Size / GetPendingMaxNonce
}

func genConc(t *rapid.T) ConcCase {
	var c ConcCase
	nw := rapid.IntRange(2, 4).Draw(t, "workers")
	sub := rapid.Custom(func(t *rapid.T) ConcSub {
		s := ConcSub{A: rapid.IntRange(0, concAcc).Draw(t, "a"), N: rapid.IntRange(0, 7).Draw(t, "n")}
		if s.A == concAcc {
			s.N %= 4
			return s
		}
		if rapid.IntRange(0, 4).Draw(t, "variant") == 0 {
			s.V = 1
		}
		return s
	})
	for w := 0; w < nw; w++ {
		n := rapid.IntRange(3, 12).Draw(t, "len")
		c.Workers = append(c.Workers, rapid.SliceOfN(sub, n, n).Draw(t, "subs"))
	}
	c.ReapN = rapid.SliceOfN(rapid.SampledFrom([]int{1, 2, 3, 5, -1, bigReap}), 1, 4).Draw(t, "reapN")
	c.Query = rapid.Bool().Draw(t, "query")
	return c
}

var bigZero = new(big.Int)

type ecdsaKey = ecdsa.PrivateKey

var raceLogPrefix = os.Getenv("C19_RACE_LOG")
var raceSeen int64

var raceFrame = regexp.MustCompile(`(?m)^  (\S+)\(\)$`)

// raceReport returns a signature + text when the race detector wrote something new.
func raceReport() (string, string) {
	if raceLogPrefix == "" {
		return "", ""
	}
	// the detector writes to <prefix>.<pid>: only this process's file
	all, _ := os.ReadFile(fmt.Sprintf("%s.%d", raceLogPrefix, os.Getpid()))
	if int64(len(all)) <= raceSeen {
		return "", ""
	}
	txt := string(all[raceSeen:])
	raceSeen = int64(len(all))
	// signature: for each side of the first report, the innermost frame outside the Go runtime
	var fr []string
	for _, blk := range strings.Split(txt, "\n\n") {
		for _, m := range raceFrame.FindAllStringSubmatch(blk, -1) {
			f := m[1]
			if i := strings.LastIndex(f, "/"); i >= 0 {
				f = f[i+1:]
			}
			if strings.HasPrefix(f, "runtime.") || strings.HasPrefix(f, "sync.") || strings.HasPrefix(f, "sync/atomic.") {
				continue
			}
			fr = append(fr, f)
			break
		}
		if len(fr) == 2 {
			break
		}
	}
	sort.Strings(fr)
	if len(txt) > 5000 {
		txt = txt[:5000]
	}
	return "data-race:" + strings.Join(fr, "<->"), txt
}

func runConc(c ConcCase, x *h.Ctx) { runConcMode(c, x, false, nil) }

func runConcRace(c ConcCase, x *h.Ctx) { runConcMode(c, x, true, nil) }

// raceMode: never execute eth txs (see the comment at the top of the file).
// sched != nil: the harness owns the order in which the submitters and the commit path acquire the
// pool lock (leg "lockorder", lockorder_test.go).
func runConcMode(c ConcCase, x *h.Ctx, raceMode bool, sched []int) {
	envUse.Lock()
	defer envUse.Unlock()
	e := getEnv(5)
	e.epoch++
	pool := e.pool
	pool.Flush()
	defer func() {
		func() {
			defer func() { recover() }()
			pool.Flush()
		}()
	}()

	type subm struct {
		raw   []byte
		admin bool
		a, n  int
		key   string
		slot  int // admin: index into the counters
	}
	var addrs [concAcc][]byte
	var keys [concAcc]*ecdsaKey
	for a := 0; a < concAcc; a++ {
		k := caseKey(e.epoch, a)
		keys[a] = k
		addr := ecrypto.PubkeyToAddress(k.PublicKey)
		addrs[a] = addr[:]
	}
	rawInfo := map[string]subm{}
	work := make([][]subm, len(c.Workers))
	total := 0
	for w, l := range c.Workers {
		for _, s := range l {
			var sm subm
			n := s.N
			if n < 0 {
				n = 0
			}
			if s.A%(concAcc+1) == concAcc || s.A < 0 {
				n %= 4
				raw := gtypes.TagAdminOPTx([]byte(fmt.Sprintf("c19-conc-admin-%d-%d", e.epoch, n)))
				sm = subm{raw: raw, admin: true, n: n, slot: n, key: fmt.Sprintf("admin#%d", n)}
			} else {
				a := s.A % (concAcc + 1)
				tx := etypes.NewTransaction(uint64(n), toAddr, bigZero, 21000+uint64(s.V&3), bigZero, nil)
				stx, err := etypes.SignTx(tx, signer, keys[a])
				if err != nil {
					panic(err)
				}
				raw, _ := rlp.EncodeToBytes(stx)
				sm = subm{raw: raw, a: a, n: n, key: fmt.Sprintf("acct%d/nonce%d/v%d", a, n, s.V&3)}
			}
			rawInfo[string(sm.raw)] = sm
			work[w] = append(work[w], sm)
			total++
		}
	}
	if total > 48 {
		x.Label("skipped:too-many-txs")
		return
	}

	results := make([][]error, len(work))
	var admStarted [4]int64 // submissions of admin payload i that have begun
	var wg sync.WaitGroup
	var done int32
	start := make(chan struct{})
	var gs *gateSched
	if sched != nil {
		gs = newGateSched(sched)
		defer gs.abandon()
	}
	for w := range work {
		results[w] = make([]error, len(work[w]))
		wg.Add(1)
		var th *gThread
		if gs != nil {
			th = gs.thread(fmt.Sprintf("S%d", w))
		}
		go func(w int) {
			defer wg.Done()
			if th != nil {
				gs.enter(th)
				defer gs.leave(th)
			}
			<-start
			for i, s := range work[w] {
				if s.admin {
					atomic.AddInt64(&admStarted[s.slot], 1)
				}
				results[w][i] = pool.ReceiveTx(gtypes.Tx(s.raw))
				if i%3 == 2 {
					runtime.Gosched()
				}
			}
		}(w)
	}
	var qwg sync.WaitGroup
	if c.Query && gs == nil {
		qwg.Add(1)
		go func() {
			defer qwg.Done()
			<-start
			for atomic.LoadInt32(&done) == 0 {
				pool.Size()
				for a := 0; a < concAcc; a++ {
					pool.GetPendingMaxNonce(addrs[a])
				}
				runtime.Gosched()
			}
		}()
	}

	var s [concAcc]uint64
	committed := map[string]bool{}
	var admCommitted [4]int64
	rounds, blocksWithTxs := 0, 0
	stop := false
	// one commit-path step: reap, judge, execute+commit
	stepOnce := func(n int) int {
		out := pool.Reap(n)
		next := s
		seen := map[string]bool{}
		var txs, extxs []gtypes.Tx
		for _, raw := range out {
			sm, ok := rawInfo[string(raw)]
			if !ok {
				stop = x.Fail("reap-offers-unknown-bytes:concurrent", "Reap(%d) offered bytes never submitted", n)
				return 0
			}
			switch {
			case seen[string(raw)]:
				stop = x.Fail("reap-offers-same-tx-twice:concurrent", "Reap(%d) offered %s twice", n, sm.key)
			case sm.admin:
				if admCommitted[sm.slot] >= atomic.LoadInt64(&admStarted[sm.slot]) {
					stop = x.Fail("reap-reoffers-committed-admin-tx:concurrent", "Reap(%d) offered %s: committed %d times, submitted %d times", n, sm.key, admCommitted[sm.slot], atomic.LoadInt64(&admStarted[sm.slot]))
				}
			case committed[string(raw)]:
				stop = x.Fail("reap-reoffers-committed-tx:concurrent", "Reap(%d) offered %s again after it was committed", n, sm.key)
			case uint64(sm.n) < s[sm.a]:
				stop = x.Fail("reap-offers-stale-nonce:concurrent", "Reap(%d) offered %s, state nonce %d", n, sm.key, s[sm.a])
			case uint64(sm.n) < next[sm.a]:
				stop = x.Fail("reap-offers-same-account-nonce-twice:concurrent", "Reap(%d) offered a second tx for account %d nonce %d", n, sm.a, sm.n)
			case uint64(sm.n) > next[sm.a]:
				stop = x.Fail("reap-offers-nonconsecutive-nonce:concurrent", "Reap(%d) offered %s, next consecutive nonce %d (state nonce %d)", n, sm.key, next[sm.a], s[sm.a])
			}
			if stop {
				return 0
			}
			seen[string(raw)] = true
			if sm.admin {
				extxs = append(extxs, raw)
				continue
			}
			if uint64(sm.n) >= next[sm.a] {
				next[sm.a] = uint64(sm.n) + 1
			}
			if !raceMode {
				txs = append(txs, raw)
			}
		}
		res := e.applyBlock(txs, extxs)
		rounds++
		if len(txs)+len(extxs) > 0 {
			blocksWithTxs++
		}
		if len(res.InvalidTxs) > 0 {
			stop = x.Fail("reaped-block-has-invalid-tx:concurrent", "a block built from Reap(%d) had %d invalid txs (first: %v)", n, len(res.InvalidTxs), res.InvalidTxs[0].Error)
			if stop {
				return 0
			}
		}
		for _, raw := range extxs {
			admCommitted[rawInfo[string(raw)].slot]++
		}
		for _, raw := range res.ValidTxs {
			sm := rawInfo[string(raw)]
			committed[string(raw)] = true
			s[sm.a]++
		}
		for a := 0; a < concAcc; a++ {
			q := e.app.Query(append([]byte{byte(rtypes.QueryType_Nonce)}, addrs[a]...))
			var got uint64
			if err := rlp.DecodeBytes(q.Data, &got); err != nil || got != s[a] {
				stop = x.Fail("harness:state-nonce-differs-from-model", "account %d: app %d model %d", a, got, s[a])
				return 0
			}
		}
		return len(txs) + len(extxs)
	}

	close(start)
	workersDone := make(chan struct{})
	go func() { wg.Wait(); close(workersDone) }()
	commitPath := func(maxSteps int) {
		running := true
		for i := 0; running && !stop && i < maxSteps; i++ {
			select {
			case <-workersDone:
				running = false
			default:
			}
			stepOnce(c.ReapN[i%len(c.ReapN)])
		}
	}
	if gs == nil {
		commitPath(10000)
	} else {
		k := gs.thread("K") // last: a schedule of zeros lets the submitters go first
		go func() {
			gs.enter(k)
			defer gs.leave(k)
			commitPath(200)
		}()
		if !gs.run() {
			// everything has been released and runs free now: let it finish before the next case
			// uses the pool (a genuine deadlock ends in the leg's time-out: no verdict)
			wg.Wait()
			<-k.done
			x.Label("inconclusive:a-thread-neither-reached-the-pool-lock-nor-finished")
			return
		}
		x.Label("lock-order-owned")
		x.Labelf("submitter-parked-across-a-commit:%s", bucket(gs.interleaved))
	}
	wg.Wait()
	atomic.StoreInt32(&done, 1)
	qwg.Wait()
	if sig, txt := raceReport(); sig != "" {
		if x.Fail(sig, "race detector report:\n%s", txt) {
			return
		}
	}
	if stop {
		return
	}
	// drain
	for i := 0; i < 64 && !stop; i++ {
		if stepOnce(bigReap) == 0 {
			break
		}
	}
	if stop {
		return
	}
	accepts := map[string]int{}
	acceptedAt := [concAcc]map[int]bool{}
	for a := range acceptedAt {
		acceptedAt[a] = map[int]bool{}
	}
	nAccepted := 0
	var admAccepted [4]int64
	for w := range work {
		for i, sm := range work[w] {
			if results[w][i] == nil {
				nAccepted++
				if sm.admin {
					admAccepted[sm.slot]++
					continue
				}
				accepts[string(sm.raw)]++
				acceptedAt[sm.a][sm.n] = true
			}
		}
	}
	// distinct txs submitted per account+nonce: a tx that shares its nonce with a different tx may be
	// accepted (nil) and dropped at once because pending already holds the other one; it is then not
	// held and its byte-identical resubmission is not a duplicate of anything in the pool.
	variantsAt := map[string]map[string]bool{}
	for w := range work {
		for _, sm := range work[w] {
			if sm.admin {
				continue
			}
			k := fmt.Sprintf("%d/%d", sm.a, sm.n)
			if variantsAt[k] == nil {
				variantsAt[k] = map[string]bool{}
			}
			variantsAt[k][string(sm.raw)] = true
		}
	}
	for raw, k := range accepts {
		if sm := rawInfo[raw]; len(variantsAt[fmt.Sprintf("%d/%d", sm.a, sm.n)]) > 1 {
			if k > 1 {
				x.Label("obs:resubmission-of-dropped-same-nonce-variant-accepted-again")
			}
			continue
		}
		if k > 1 {
			if x.Fail("exact-duplicate-accepted:concurrent", "tx %s was accepted %d times", rawInfo[raw].key, k) {
				return
			}
		}
	}
	for i := range admAccepted {
		// every accepted admin tx is committed exactly once: not lost, not offered twice
		if admAccepted[i] != admCommitted[i] {
			if x.Fail("admin-tx-accepted-and-committed-counts-differ:concurrent", "admin#%d: accepted %d times, committed %d times after the drain", i, admAccepted[i], admCommitted[i]) {
				return
			}
		}
	}
	if !raceMode {
		for a := 0; a < concAcc; a++ {
			if acceptedAt[a][int(s[a])] {
				if x.Fail("executable-tx-lost:concurrent", "account %d: a tx with nonce %d was accepted, the state nonce stopped at %d and the drained pool offers nothing", a, s[a], s[a]) {
					return
				}
			}
		}
	}
	if sig, txt := raceReport(); sig != "" {
		if x.Fail(sig, "race detector report:\n%s", txt) {
			return
		}
	}
	x.Labelf("workers:%d", len(work))
	x.Labelf("commit-rounds-while-submitting:%s", bucket(rounds))
	if blocksWithTxs > 1 {
		x.Label("more-than-one-non-empty-block")
	}
	if nAccepted < total {
		x.Label("some-submission-rejected")
	}
	if raceLogPrefix != "" {
		x.Label("race-detector:on")
	} else {
		x.Label("race-detector:off")
	}
	if gs != nil {
		// non-trivial: some submitter waited for the pool lock while the commit path brought the pool
		// up to a new state, and a block with transactions was committed
		if gs.interleaved >= 1 && blocksWithTxs >= 1 {
			x.NonTrivial()
		}
	} else if blocksWithTxs > 1 && len(work) >= 2 {
		x.NonTrivial()
	}
}

func bucket(n int) string {
	switch {
	case n <= 1:
		return "0-1"
	case n <= 3:
		return "2-3"
	case n <= 10:
		return "4-10"
	}
	return ">10"
}

func TestConcurrent(t *testing.T) {
	t.Cleanup(closeEnvs)
	h.Note("C19", "concurrent", "schedule-dependent outcomes, schedule-independent oracle; a replay of a failing case may need several runs")
	h.Check(t, h.Spec[ConcCase]{Prop: "C19", Leg: "concurrent", Gen: genConc, Run: runConc})
}

func TestConcurrentRace(t *testing.T) {
	t.Cleanup(closeEnvs)
	if raceLogPrefix != "" {
		os.MkdirAll(filepath.Dir(raceLogPrefix), 0o755)
		os.Remove(fmt.Sprintf("%s.%d", raceLogPrefix, os.Getpid())) // stale file of an earlier process with this pid
	} else {
		h.Note("C19", "concurrent_race", "C19_RACE_LOG is not set: race detector reports are not read")
	}
	h.Note("C19", "concurrent_race", "eth txs are never executed in this leg (the block executor has data races of its own, see C05/C09): the commit path commits reaped admin txs and empty blocks")
	h.Check(t, h.Spec[ConcCase]{Prop: "C19", Leg: "concurrent_race", Gen: genConc, Run: runConcRace})
}
