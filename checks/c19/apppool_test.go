package c19

import (
	"crypto/ecdsa"
	"crypto/sha256"
	"encoding/binary"
	"fmt"
	"math/big"
	"os"
	"sort"
	"sync"
	"testing"
	"time"

	"github.com/spf13/viper"
	"go.uber.org/zap"
	"pgregory.net/rapid"

	"github.com/dappledger/AnnChain/chain/app/evm"
	rtypes "github.com/dappledger/AnnChain/chain/types"
	"github.com/dappledger/AnnChain/eth/common"
	etypes "github.com/dappledger/AnnChain/eth/core/types"
	ecrypto "github.com/dappledger/AnnChain/eth/crypto"
	"github.com/dappledger/AnnChain/eth/rlp"
	glog "github.com/dappledger/AnnChain/gemmill/modules/go-log"
	gtypes "github.com/dappledger/AnnChain/gemmill/types"

	"verif/internal/h"
)

const nAcc = 4

// bigReap is the "big" reap limit: larger than anything the pools can hold in these runs
// (the app pool allocates a slice of that capacity, so it is kept moderate).
const bigReap = 1000

// obsReap is the limit of the harness's own "show me the whole pending queue" reaps: above
// anything the pool can hold (pending <= 30, admin <= 30) with room to see an overrun, and small
// because Reap allocates a slice of that capacity on every call.
const obsReap = 128

// ---------------------------------------------------------------------------------------
// case

// Op is one step of a history. All numbers are relative to the model state at the time the
// op runs (nonces are "state nonce + d"), so every sub-sequence of a history is a history.
type Op struct {
	K    string `json:"k"`              // sub | ext | rev | dup | adm | reap | commit | fcommit | flush
	A    int    `json:"a,omitempty"`    // account 0..3
	D    int    `json:"d,omitempty"`    // sub: nonce = state nonce + d, d in [-2,5]; ext: nonce = first unheld nonce + d, d in [0,1]
	V    int    `json:"v,omitempty"`    // variant: same account+nonce, different gas limit => different tx hash
	R    int    `json:"r,omitempty"`    // sub: r further variants v+1..v+r of the same account+nonce follow (repeats); ext: r further consecutive nonces follow, in order; rev: the r+1 nonces from the first unheld one on, highest first (the lowest arrives last and makes the whole run executable at once)
	I    int    `json:"i,omitempty"`    // dup: index (mod count) of an earlier submission sent again byte-identically; adm: payload id
	N    int    `json:"n,omitempty"`    // reap: limit
	Take []int  `json:"take,omitempty"` // commit: per account how many of its offered txs (nonce order) go in the block; fcommit: per account how many nonces a block from another proposer (txs this pool never saw) consumes
	Adm  int    `json:"adm,omitempty"`  // commit: how many of the offered admin txs go in the block
	Hole int    `json:"hole,omitempty"` // commit: 0 none; else one tx (index hole-1 mod (take-1)) of account HoleA is left out of its run
	HA   int    `json:"ha,omitempty"`   // commit: the hole applies to the first account from HA on (cyclically) with >= 2 selected txs
}

type PoolCase struct {
	BlockSize int  `json:"block_size"` // 1..3; pool limits are 10*block_size (waiting), 10*block_size (pending), 10*block_size (admin)
	Ops       []Op `json:"ops"`
}

func genOp(variants bool) *rapid.Generator[Op] {
	return rapid.Custom(func(t *rapid.T) Op {
		var o Op
		w := rapid.IntRange(0, 199).Draw(t, "kind") / 2
		switch {
		case w == 50: // an interior value: rapid favours the ends of an integer range
			o.K = "flush"
		case w >= 70 && w < 76:
			o.K = "fcommit"
			o.Take = make([]int, nAcc)
			for a := 0; a < nAcc; a++ {
				o.Take[a] = rapid.SampledFrom([]int{0, 0, 1, 1, 2}).Draw(t, "ftake")
			}
		case w >= 76 && w < 80:
			// a run submitted highest nonce first: everything waits until the lowest arrives, then the
			// whole run is promoted together (the way to a long PENDING run without a commit in between)
			o.K = "rev"
			o.A = rapid.IntRange(0, nAcc-1).Draw(t, "a")
			o.R = rapid.SampledFrom([]int{1, 2, 3, 5, 7}).Draw(t, "run")
		case w < 24:
			o.K = "sub"
			o.A = rapid.IntRange(0, nAcc-1).Draw(t, "a")
			o.D = rapid.IntRange(-2, 5).Draw(t, "d")
			if variants {
				o.V = rapid.IntRange(0, 2).Draw(t, "v")
				if rapid.IntRange(0, 5).Draw(t, "burst") == 0 {
					o.R = rapid.IntRange(1, 6).Draw(t, "r")
				}
			}
		case w < 50:
			o.K = "ext"
			o.A = rapid.IntRange(0, nAcc-1).Draw(t, "a")
			o.D = rapid.IntRange(0, 1).Draw(t, "d")
			if o.D == 1 && rapid.IntRange(0, 1).Draw(t, "d0") == 0 {
				o.D = 0
			}
			o.R = rapid.SampledFrom([]int{0, 0, 1, 2, 4}).Draw(t, "run")
		case w < 57:
			o.K = "dup"
			o.I = rapid.IntRange(0, 63).Draw(t, "i")
		case w < 63:
			o.K = "adm"
			o.I = rapid.IntRange(0, 5).Draw(t, "payload")
		case w < 70:
			o.K = "reap"
			o.N = rapid.SampledFrom([]int{0, 1, 3, -1, bigReap, 2, 5}).Draw(t, "n")
		default:
			o.K = "commit"
			o.Take = make([]int, nAcc)
			mode := rapid.IntRange(0, 3).Draw(t, "mode")
			for a := 0; a < nAcc; a++ {
				switch mode {
				case 0: // everything offered
					o.Take[a] = 99
				default:
					o.Take[a] = rapid.SampledFrom([]int{0, 0, 1, 1, 2, 3, 99}).Draw(t, "take")
				}
			}
			o.Adm = rapid.SampledFrom([]int{0, 1, 99, 99}).Draw(t, "adm")
			if rapid.IntRange(0, 4).Draw(t, "holeP") == 0 {
				o.Hole = rapid.IntRange(1, 4).Draw(t, "hole")
				o.HA = rapid.IntRange(0, nAcc-1).Draw(t, "ha")
			}
		}
		return o
	})
}

func genPool(t *rapid.T) PoolCase {
	var c PoolCase
	c.BlockSize = rapid.SampledFrom([]int{1, 1, 1, 2, 3}).Draw(t, "blockSize")
	variants := rapid.IntRange(0, 2).Draw(t, "variants") > 0
	// rapid's own slice lengths are strongly biased to short slices: draw the length explicitly
	n := rapid.IntRange(3, 60).Draw(t, "nops")
	limit := 10 * c.BlockSize
	switch rapid.IntRange(0, 7).Draw(t, "scenario") {
	case 0, 1:
		// Scenario prefix "pool nearly full, several accounts parked behind a gap": one account fills
		// the pending queue up to a few free slots, 2..3 other accounts queue nonces above their
		// state nonce, then a block from another proposer consumes the missing nonces of all of them
		// at once. Everything after the prefix is the usual random history.
		filler := rapid.IntRange(0, nAcc-1).Draw(t, "filler")
		fill := limit - rapid.IntRange(0, 4).Draw(t, "room")
		if rapid.IntRange(0, 3).Draw(t, "fillInOrder") == 0 {
			// in nonce order: the pool promotes only the head, the rest fills the WAITING queue
			for fill > 0 {
				k := fill
				if k > 5 {
					k = 5
				}
				c.Ops = append(c.Ops, Op{K: "ext", A: filler, R: k - 1})
				fill -= k
			}
		} else {
			// nonces fill-1..1 first, nonce 0 last: one promotion moves the whole run into the
			// PENDING queue (the waiting queue holds the limit-1 others until the head arrives)
			for d := fill - 1; d >= 0; d-- {
				c.Ops = append(c.Ops, Op{K: "sub", A: filler, D: d})
			}
		}
		parked := rapid.IntRange(2, 3).Draw(t, "parkedAccounts")
		fc := Op{K: "fcommit", Take: make([]int, nAcc)}
		for j := 1; j <= parked; j++ {
			a := (filler + j) % nAcc
			gap := rapid.IntRange(1, 2).Draw(t, "gap")
			run := rapid.IntRange(1, 3).Draw(t, "parkedRun")
			for d := gap; d < gap+run; d++ {
				c.Ops = append(c.Ops, Op{K: "sub", A: a, D: d})
			}
			fc.Take[a] = gap
		}
		c.Ops = append(c.Ops, fc)
		n = rapid.IntRange(0, 25).Draw(t, "nopsAfterPrefix")
	case 2, 3:
		// Scenario prefix "two queues, each below its own bound, together at or above one bound":
		// one (or two) accounts hold a long PENDING run that leaves 1..5 free pending slots, one or two
		// other accounts have a few txs WAITING behind a gap, so that pending + waiting is around
		// waitingLimit while the waiting queue alone is far below it. Then the probes: an account
		// without anything in the pool submits its executable tx (must be taken: neither queue is
		// full), an account with waiting txs submits the missing lower nonce (nothing it queued
		// before may be displaced). Everything after that is the usual random history.
		filler := rapid.IntRange(0, nAcc-1).Draw(t, "filler")
		room := rapid.IntRange(1, 5).Draw(t, "room")
		pend := limit - room
		nWait := 1 + rapid.IntRange(0, 1).Draw(t, "waitingAccounts") // a fresh account always remains
		if rapid.IntRange(0, 3).Draw(t, "splitPending") == 0 && pend >= 4 {
			// the pending run is split over two accounts, one account waits, one stays fresh
			nWait = 1
			k := rapid.IntRange(1, pend/2).Draw(t, "pendingShare")
			c.Ops = append(c.Ops, Op{K: "rev", A: (filler + 2) % nAcc, R: k - 1})
			pend -= k
		}
		c.Ops = append(c.Ops, Op{K: "rev", A: filler, R: pend - 1})
		// waiting txs: pending + waiting = limit + delta
		wTotal := room + rapid.IntRange(-2, 3).Draw(t, "delta")
		if wTotal < nWait {
			wTotal = nWait
		}
		if wTotal > limit-1 {
			wTotal = limit - 1
		}
		var gaps [nAcc]int
		for j := 0; j < nWait; j++ {
			a := (filler + 1 + 2*j) % nAcc // filler+1, filler+3; filler+2 is fresh or the second pending account
			run := wTotal
			if j == 0 && nWait == 2 {
				run = rapid.IntRange(1, wTotal-1).Draw(t, "waitingShare")
			}
			wTotal -= run
			gaps[a] = rapid.SampledFrom([]int{1, 1, 2}).Draw(t, "gap")
			if rapid.IntRange(0, 2).Draw(t, "waitInOrder") > 0 {
				for d := gaps[a]; d < gaps[a]+run; d++ {
					c.Ops = append(c.Ops, Op{K: "sub", A: a, D: d})
				}
			} else {
				for d := gaps[a] + run - 1; d >= gaps[a]; d-- {
					c.Ops = append(c.Ops, Op{K: "sub", A: a, D: d})
				}
			}
		}
		fresh := (filler + 2) % nAcc // nothing of this account is in the pool
		if nWait == 1 {
			fresh = (filler + 3) % nAcc // filler+2 may be the second pending account
		}
		for k, np := 0, rapid.IntRange(1, 3).Draw(t, "probes"); k < np; k++ {
			w := (filler + 1 + 2*rapid.IntRange(0, nWait-1).Draw(t, "probeWaitingAccount")) % nAcc
			switch rapid.IntRange(0, 4).Draw(t, "probe") {
			case 0, 1: // executable tx of an account that has nothing in the pool (or of the second pending account)
				c.Ops = append(c.Ops, Op{K: "ext", A: fresh, R: rapid.SampledFrom([]int{0, 0, 1}).Draw(t, "freshRun")})
			case 2, 3: // the missing head of an account with waiting txs
				c.Ops = append(c.Ops, Op{K: "sub", A: w, D: 0})
			default: // a lower, still gapped nonce of an account with waiting txs (if its gap is 2), else its head
				c.Ops = append(c.Ops, Op{K: "sub", A: w, D: gaps[w] - 1})
			}
		}
		n = rapid.IntRange(0, 25).Draw(t, "nopsAfterPrefix")
	}
	c.Ops = append(c.Ops, rapid.SliceOfN(genOp(variants), n, n).Draw(t, "ops")...)
	return c
}

// ---------------------------------------------------------------------------------------
// environment: one real EVMApp per block size and process, reused by all cases. Every case
// uses accounts that were never used before (fresh keys per case), so state nonces start at 0
// and the behaviour is a function of the case alone (up to the address values, which only
// influence map iteration order — the oracle does not depend on it).

type appEnv struct {
	app    *evm.EVMApp
	pool   gtypes.TxPool
	limit  int
	height int64
	dir    string
	epoch  uint64
}

var (
	envMu  sync.Mutex
	envUse sync.Mutex
	envs   = map[int]*appEnv{}
)

func getEnv(bs int) *appEnv {
	envMu.Lock()
	defer envMu.Unlock()
	if e := envs[bs]; e != nil {
		return e
	}
	glog.SetLog(zap.NewNop())
	base := ""
	if st, err := os.Stat("/dev/shm"); err == nil && st.IsDir() {
		base = "/dev/shm"
	}
	dir, err := os.MkdirTemp(base, "c19-app-")
	if err != nil {
		panic(err)
	}
	conf := viper.New()
	conf.Set("db_dir", dir)
	conf.Set("block_size", bs)
	app, err := evm.NewEVMApp(conf)
	if err != nil {
		panic(fmt.Sprintf("harness: NewEVMApp: %v", err))
	}
	if err := app.Start(); err != nil {
		panic(fmt.Sprintf("harness: app.Start: %v", err))
	}
	e := &appEnv{app: app, pool: app.GetTxPool(), limit: bs * 10, dir: dir}
	envs[bs] = e
	return e
}

func closeEnvs() {
	envMu.Lock()
	defer envMu.Unlock()
	for k, e := range envs {
		func() {
			defer func() { recover() }()
			e.app.Stop()
		}()
		os.RemoveAll(e.dir)
		delete(envs, k)
	}
}

// applyBlock executes and commits one block the way gemmill/state/execution.go does: OnExecute
// hook, pool.Update(height, txs+extxs), OnCommit hook (which makes the pool run updateToState).
func (e *appEnv) applyBlock(txs, extxs []gtypes.Tx) gtypes.ExecuteResult {
	e.height++
	blk := &gtypes.Block{
		Header: &gtypes.Header{
			ChainID:        "c19",
			Height:         e.height,
			Time:           time.Unix(1500000000+e.height, 0),
			NumTxs:         int64(len(txs) + len(extxs)),
			ValidatorsHash: valHash,
		},
		Data:       &gtypes.Data{Txs: txs, ExTxs: extxs},
		LastCommit: &gtypes.Commit{},
	}
	resI, err := e.app.OnExecute(e.height, 0, blk)
	if err != nil {
		panic(fmt.Sprintf("harness: OnExecute: %v", err))
	}
	res := resI.(gtypes.ExecuteResult)
	e.pool.Update(e.height, append(append([]gtypes.Tx{}, txs...), extxs...))
	if _, err := e.app.OnCommit(e.height, 0, blk); err != nil {
		panic(fmt.Sprintf("harness: OnCommit: %v", err))
	}
	return res
}

func caseKey(epoch uint64, i int) *ecdsa.PrivateKey {
	var b [24]byte
	copy(b[:], "c19-acct")
	binary.BigEndian.PutUint64(b[8:], epoch)
	binary.BigEndian.PutUint64(b[16:], uint64(i))
	for ctr := byte(0); ; ctr++ {
		s := sha256.Sum256(append(b[:], ctr))
		if k, err := ecrypto.ToECDSA(s[:]); err == nil {
			return k
		}
	}
}

var (
	toAddr  = common.HexToAddress("0x00000000000000000000000000000000000c1900")
	signer  = etypes.HomesteadSigner{}
	valHash = []byte("c19-validators-hash-")
)

// ---------------------------------------------------------------------------------------
// reference model

type rec struct {
	id             int
	admin          bool
	acct           int
	nonce          uint64
	variant        int
	raw            []byte
	held           bool // accepted by the pool and not since committed / gone stale / flushed: the pool MAY hold it
	committed      bool // contained in a committed block and executed (eth) / contained in a committed block (admin)
	invalidInBlock bool // contained in a committed block but rejected by execution (nonce in the future)
}

// The pool has TWO bounds besides the admin one: pendingLimit (executable txs, what Reap offers)
// and waitingLimit (everything else it holds), both 10*block_size. Every submission enters the
// waiting queue first, so the pool may refuse or displace only while THAT queue is full; a full
// pending queue only delays promotion. The pending queue is observable (an unlimited Reap), the
// waiting queue is bounded from above by "everything the pool may hold minus what it offers".
type model struct {
	limit   int // pendingLimit == waitingLimit == admin limit
	s       [nAcc]uint64
	may     [nAcc]map[uint64][]*rec // upper set: everything the pool may hold, by nonce (all variants)
	must    [nAcc]map[uint64]bool   // lower set: nonces for which the pool is obliged to hold one tx
	adm     []*rec                  // admin txs the pool may hold, acceptance order
	admMust map[*rec]bool
	// leakBudget: number of accepted txs since the last flush that the pool may legitimately have
	// displaced from its queues while accepting them or later (same account+nonce variants, and txs
	// accepted at capacity): the only txs the known `all`-index leak can be explained by.
	leakBudget    int
	staleAccepted int
	// linger: txs that went stale at a commit after which the PENDING queue was full. The pool
	// cleans its waiting queue lazily (promoteExecutables stops as soon as pending is full), so
	// these may stay in the waiting queue (and in Size) until a commit leaves pending below its bound.
	linger int
}

func newModel(limit int) *model {
	m := &model{limit: limit, admMust: map[*rec]bool{}}
	for a := 0; a < nAcc; a++ {
		m.may[a] = map[uint64][]*rec{}
		m.must[a] = map[uint64]bool{}
	}
	return m
}

func (m *model) ethCount() int {
	n := 0
	for a := 0; a < nAcc; a++ {
		for _, l := range m.may[a] {
			n += len(l)
		}
	}
	return n
}

// firstUnheld: state nonce + length of the contiguous run of may-held nonces.
func (m *model) firstUnheld(a int) uint64 {
	n := m.s[a]
	for len(m.may[a][n]) > 0 {
		n++
	}
	return n
}

// mustRun: length of the contiguous run of obliged nonces starting at the state nonce.
func (m *model) mustRun(a int) int {
	k := 0
	for m.must[a][m.s[a]+uint64(k)] {
		k++
	}
	return k
}

func (m *model) capacityEvent() {
	for a := 0; a < nAcc; a++ {
		m.must[a] = map[uint64]bool{}
	}
}

func (m *model) exact(a int) bool { // no uncertainty about which nonces the pool holds for a
	if len(m.may[a]) != len(m.must[a]) {
		return false
	}
	for n := range m.may[a] {
		if !m.must[a][n] {
			return false
		}
	}
	return true
}

func (m *model) flush() {
	for a := 0; a < nAcc; a++ {
		for _, l := range m.may[a] {
			for _, rc := range l {
				rc.held = false
			}
		}
		m.may[a] = map[uint64][]*rec{}
		m.must[a] = map[uint64]bool{}
	}
	for _, rc := range m.adm {
		rc.held = false
	}
	m.adm = nil
	m.admMust = map[*rec]bool{}
	m.leakBudget = 0
	m.staleAccepted = 0
	m.linger = 0
}

// waitingUpper: upper bound of the number of txs in the pool's waiting queue, given how many of
// the txs the model may hold are offered right now (= are in the pending queue).
func (m *model) waitingUpper(heldOffered int) int {
	return m.ethCount() + m.linger + m.staleAccepted - heldOffered
}

// dropStale removes everything below the state nonce from the model (after a commit).
// pendingBelowBound: the pending queue observed after the commit is below pendingLimit, i.e. the
// pool's promotion pass visited every account and no stale tx is left in the waiting queue.
func (m *model) dropStale(pendingBelowBound bool) {
	dropped := 0
	defer func() {
		if pendingBelowBound {
			m.linger = 0
		} else {
			m.linger += dropped
		}
	}()
	for a := 0; a < nAcc; a++ {
		for n, l := range m.may[a] {
			if n < m.s[a] {
				for _, rc := range l {
					rc.held = false
					if !rc.committed {
						dropped++
					}
				}
				delete(m.may[a], n)
			}
		}
		for n := range m.must[a] {
			if n < m.s[a] {
				delete(m.must[a], n)
			}
		}
	}
}

// ---------------------------------------------------------------------------------------
// runner

type runner struct {
	e      *appEnv
	pool   gtypes.TxPool
	x      *h.Ctx
	m      *model
	keys   [nAcc]*ecdsa.PrivateKey
	addrs  [nAcc]common.Address
	byKey  map[string]*rec
	byRaw  map[string]*rec
	order  []*rec // submissions in order of first submission
	labels map[string]bool
	nt     bool
	stop   bool
	step   int
	opDesc string
}

func newRunner(e *appEnv, x *h.Ctx) *runner {
	e.epoch++
	r := &runner{e: e, pool: e.pool, x: x, m: newModel(e.limit), byKey: map[string]*rec{}, byRaw: map[string]*rec{}, labels: map[string]bool{}}
	for i := 0; i < nAcc; i++ {
		r.keys[i] = caseKey(e.epoch, i)
		r.addrs[i] = ecrypto.PubkeyToAddress(r.keys[i].PublicKey)
	}
	return r
}

func (r *runner) label(l string) { r.labels[l] = true }

// obs is what the pool shows of its queues: the pending queue is what an unlimited Reap offers
// besides admin txs.
type obs struct {
	pending     int                   // non-admin txs offered
	adm         int                   // admin txs offered
	heldOffered int                   // offered txs that the model counts as held (subset of pending)
	off         [nAcc]map[uint64]bool // offered nonces per account
}

func (r *runner) observe() obs {
	var o obs
	for _, raw := range r.pool.Reap(obsReap) {
		if gtypes.IsAdminOP(raw) {
			o.adm++
			continue
		}
		o.pending++
		rc := r.byRaw[string(raw)]
		if rc == nil || rc.admin {
			continue
		}
		if o.off[rc.acct] == nil {
			o.off[rc.acct] = map[uint64]bool{}
		}
		o.off[rc.acct][rc.nonce] = true
		if rc.held && rc.nonce >= r.m.s[rc.acct] {
			o.heldOffered++
		}
	}
	return o
}

var traceOn = os.Getenv("C19_TRACE") != ""

// trace prints the model and the pool's view after a step (replay debugging aid, C19_TRACE=1).
func (r *runner) trace() {
	if !traceOn {
		return
	}
	m := r.m
	fmt.Printf("TRACE step %d %-28s size=%d |", r.step, r.opDesc, r.pool.Size())
	for a := 0; a < nAcc; a++ {
		pn, _ := r.pool.GetPendingMaxNonce(r.addrs[a][:])
		must := []uint64{}
		for n := range m.must[a] {
			must = append(must, n)
		}
		sort.Slice(must, func(i, j int) bool { return must[i] < must[j] })
		fmt.Printf(" a%d s=%d may=%v must=%v pmn=%d |", a, m.s[a], heldNonces(m, a), must, pn)
	}
	var off []string
	for _, raw := range r.pool.Reap(obsReap) {
		if rc := r.byRaw[string(raw)]; rc != nil {
			off = append(off, rc.String())
		}
	}
	fmt.Printf(" offered=%v\n", off)
}

// fail reports a violation; it returns true when the run must stop.
func (r *runner) fail(sig, f string, a ...any) bool {
	msg := fmt.Sprintf(f, a...)
	if r.x.Fail(sig, "step %d (%s): %s", r.step, r.opDesc, msg) {
		r.stop = true
		return true
	}
	r.label("known:" + sig)
	return false
}

func (r *runner) ethRec(a int, nonce uint64, v int) *rec {
	k := fmt.Sprintf("e/%d/%d/%d", a, nonce, v)
	if rc := r.byKey[k]; rc != nil {
		return rc
	}
	tx := etypes.NewTransaction(nonce, toAddr, big.NewInt(0), 21000+uint64(v), big.NewInt(0), nil)
	stx, err := etypes.SignTx(tx, signer, r.keys[a])
	if err != nil {
		panic("harness: sign: " + err.Error())
	}
	raw, err := rlp.EncodeToBytes(stx)
	if err != nil {
		panic("harness: rlp: " + err.Error())
	}
	rc := &rec{id: len(r.order), acct: a, nonce: nonce, variant: v, raw: raw}
	r.byKey[k] = rc
	r.byRaw[string(raw)] = rc
	r.order = append(r.order, rc)
	return rc
}

func (r *runner) admRec(payload int) *rec {
	k := fmt.Sprintf("a/%d", payload)
	if rc := r.byKey[k]; rc != nil {
		return rc
	}
	raw := gtypes.TagAdminOPTx([]byte(fmt.Sprintf("c19-admin-payload-%d", payload)))
	rc := &rec{id: len(r.order), admin: true, variant: payload, raw: raw}
	r.byKey[k] = rc
	r.byRaw[string(raw)] = rc
	r.order = append(r.order, rc)
	return rc
}

func (rc *rec) String() string {
	if rc.admin {
		return fmt.Sprintf("admin#%d", rc.variant)
	}
	return fmt.Sprintf("acct%d/nonce%d/v%d", rc.acct, rc.nonce, rc.variant)
}

// ---- submissions ----

func (r *runner) accept(rc *rec) {
	m := r.m
	a := rc.acct
	if len(m.may[a][rc.nonce]) == 0 {
		higher := false
		for n := range m.may[a] {
			if n > rc.nonce {
				higher = true
			}
		}
		if higher && rc.nonce >= m.s[a] {
			r.label("nt:gap-later-filled")
			r.nt = true
		}
	}
	rc.held = true
	m.may[a][rc.nonce] = append(m.may[a][rc.nonce], rc)
	m.must[a][rc.nonce] = true
}

func (r *runner) submitEth(rc *rec) {
	m := r.m
	a := rc.acct
	total := m.ethCount()
	ob := r.observe()
	wUp := m.waitingUpper(ob.heldOffered)
	// atCap: the waiting queue, which every submission enters first, may be full: the pool may
	// refuse the tx or displace another one for it. (A full PENDING queue never entitles the pool to
	// refuse or drop: the tx just waits.)
	atCap := wUp >= m.limit
	wasHeld := rc.held
	stale := rc.nonce < m.s[a]
	if !stale && !wasHeld && !atCap && total >= m.limit {
		// the region where the two bounds must not be mixed up: pending + waiting has reached the
		// bound of one queue, but the waiting queue itself is below its bound
		reg := "region:pending+waiting>=waitingLimit,waiting<waitingLimit"
		r.label(reg)
		r.nt = true
		queuedAbove, any := false, len(m.may[a]) > 0
		for n := range m.may[a] {
			if n > rc.nonce && !ob.off[a][n] {
				queuedAbove = true
			}
		}
		switch {
		case !any && rc.nonce == m.s[a]:
			r.label(reg + ":executable-tx-of-account-with-nothing-in-the-pool")
		case queuedAbove && rc.nonce == m.s[a]:
			r.label(reg + ":missing-head-of-account-with-waiting-txs")
		case queuedAbove:
			r.label(reg + ":lower-gapped-nonce-of-account-with-waiting-txs")
		default:
			r.label(reg + ":other")
		}
		if ob.pending >= m.limit {
			r.label(reg + ":pending-queue-full")
		}
	}
	err := r.pool.ReceiveTx(rc.raw)
	switch {
	case stale:
		r.label("sub:stale")
		if rc.committed {
			r.label("nt:stale-resubmission-of-committed-tx")
			r.nt = true
		}
		if err == nil {
			// accepting is not judged by itself: the tx must just never be offered (reap checks).
			r.label("sub:stale-accepted")
			m.staleAccepted++
		}
	case wasHeld:
		if atCap {
			m.capacityEvent()
			r.label("capacity-event")
		}
		if !atCap && len(m.may[a][rc.nonce]) == 1 && m.must[a][rc.nonce] {
			if err == nil {
				if r.fail("exact-duplicate-accepted", "byte-identical resubmission of held tx %v was accepted (ReceiveTx returned nil): the pool takes exact duplicates, or it had silently dropped the tx it accepted before (at most %d txs waiting, bound %d)", rc, wUp, m.limit) {
					return
				}
			} else {
				r.label("dup:rejected")
			}
		} else {
			r.label("dup:unjudged(capacity-or-variants)")
		}
	default:
		if err == nil {
			// "rejects exact duplicates": the pool has just said that it took this transaction; the
			// same bytes offered again at once (what a peer does that received the announcement) must be
			// refused, whatever else the pool holds
			if err2 := r.pool.ReceiveTx(rc.raw); err2 == nil {
				if r.fail("accepted-tx-accepted-again-immediately", "tx %v was accepted (ReceiveTx returned nil) and the byte-identical resubmission right after it was accepted again: the pool reports as taken what it does not hold, and every node that receives the announcement will announce it again", rc) {
					return
				}
			} else {
				r.label("dup:immediate-resubmission-rejected")
			}
		}
		others := len(m.may[a][rc.nonce])
		switch {
		case atCap:
			m.capacityEvent()
			r.label("capacity-event")
			if err == nil {
				r.accept(rc)
				m.leakBudget++
				r.label("sub:accepted-at-capacity")
			} else {
				r.label("sub:rejected-at-capacity")
				if rc.nonce == m.s[a] && ob.pending < m.limit {
					// not judged: every submission passes through the waiting queue, and that one may be full
					r.label("obs:executable-tx-refused-while-the-waiting-queue-may-be-full(pending-has-room)")
				}
			}
		case others > 0:
			if err == nil {
				r.accept(rc)
				m.leakBudget++
				r.label("variant:accepted")
			} else {
				r.label("variant:rejected")
			}
		default:
			if err != nil {
				if r.fail("fresh-tx-rejected-below-capacity", "tx %v (state nonce %d) rejected: %v; the pool holds at most %d live txs of which it offers %d (pending queue, bound %d), so at most %d are in the waiting queue (bound %d): the queue the tx enters is not full", rc, m.s[a], err, total+m.linger, ob.pending, m.limit, wUp, m.limit) {
					return
				}
			} else {
				if rc.nonce > m.firstUnheld(a) {
					r.label("sub:gapped")
				}
				r.accept(rc)
			}
		}
	}
}

func (r *runner) submitAdm(rc *rec) {
	m := r.m
	atCap := len(m.adm) >= m.limit
	wasHeld := rc.held
	err := r.pool.ReceiveTx(rc.raw)
	switch {
	case wasHeld:
		if m.admMust[rc] {
			if err == nil {
				if r.fail("exact-duplicate-accepted:admin", "byte-identical resubmission of held admin tx %v accepted", rc) {
					return
				}
			} else {
				r.label("adm:dup-rejected")
			}
		} else {
			r.label("adm:dup-unjudged")
		}
	default:
		if atCap {
			m.admMust = map[*rec]bool{}
			r.label("adm:capacity-event")
		}
		if rc.committed {
			// not settled by the property text: observation only
			if err == nil {
				r.label("obs:adm-resubmit-after-commit:accepted")
			} else {
				r.label("obs:adm-resubmit-after-commit:rejected")
			}
		} else if err != nil && !atCap {
			if r.fail("fresh-tx-rejected-below-capacity:admin", "admin tx %v rejected: %v", rc, err) {
				return
			}
		}
		if err == nil {
			rc.held = true
			m.adm = append(m.adm, rc)
			m.admMust[rc] = true
			r.label("adm:accepted")
		}
	}
}

// ---- reap oracle ----

// checkReap judges one Reap(n) result. strong: the pool just ran its own promotion (commit)
// so the whole executable run is demanded, not only the head.
func (r *runner) checkReap(out []gtypes.Tx, n int, strong bool) (eth [nAcc][]*rec, adm []*rec) {
	m := r.m
	if n == 0 && len(out) != 0 {
		if r.fail("reap-exceeds-limit", "Reap(0) returned %d txs", len(out)) {
			return
		}
	}
	if n > 0 && len(out) > n {
		if r.fail("reap-exceeds-limit", "Reap(%d) returned %d txs", n, len(out)) {
			return
		}
	}
	seen := map[*rec]bool{}
	next := m.s
	for _, raw := range out {
		rc := r.byRaw[string(raw)]
		if rc == nil {
			if r.fail("reap-offers-unknown-bytes", "Reap(%d) offered bytes never submitted: %x", n, []byte(raw)) {
				return
			}
			continue
		}
		if seen[rc] {
			if r.fail("reap-offers-same-tx-twice", "Reap(%d) offered %v twice", n, rc) {
				return
			}
			continue
		}
		seen[rc] = true
		if rc.admin {
			if !rc.held {
				sig := "reap-offers-unheld-tx:admin"
				if rc.committed {
					sig = "reap-reoffers-committed-admin-tx"
				}
				if r.fail(sig, "Reap(%d) offered %v (committed=%v, not resubmitted since)", n, rc, rc.committed) {
					return
				}
			}
			adm = append(adm, rc)
			continue
		}
		a := rc.acct
		switch {
		case rc.nonce < m.s[a]:
			sig := "reap-offers-stale-nonce"
			if rc.committed {
				sig = "reap-reoffers-committed-tx"
			}
			if r.fail(sig, "Reap(%d) offered %v but the account's state nonce is %d (committed=%v)", n, rc, m.s[a], rc.committed) {
				return
			}
			continue
		case rc.nonce < next[a]:
			if r.fail("reap-offers-same-account-nonce-twice", "Reap(%d) offered a second tx for account %d nonce %d: %v", n, a, rc.nonce, rc) {
				return
			}
			continue
		case rc.nonce > next[a]:
			if r.fail("reap-offers-nonconsecutive-nonce", "Reap(%d) offered %v but the next consecutive nonce of the account is %d (state nonce %d)", n, rc, next[a], m.s[a]) {
				return
			}
		}
		if !rc.held {
			if r.fail("reap-offers-unheld-tx", "Reap(%d) offered %v which was flushed / never accepted", n, rc) {
				return
			}
		}
		if rc.invalidInBlock {
			r.label("obs:reoffer-of-tx-that-was-invalid-in-a-committed-block")
		}
		next[a] = rc.nonce + 1
		eth[a] = append(eth[a], rc)
	}

	nEth := 0
	for a := 0; a < nAcc; a++ {
		nEth += len(eth[a])
	}
	if nEth > m.limit || len(adm) > m.limit {
		if r.fail("pending-exceeds-configured-limit", "Reap(%d) offered %d executable and %d admin txs, the pending limit is %d (block_size*10)", n, nEth, len(adm), m.limit) {
			return
		}
	}

	// no-loss, immediate part (only while the pending queue is below its bound: pending shrinks
	// only at a commit, and a commit that leaves it below the bound has promoted every waiting head)
	pNow := nEth
	if n < obsReap {
		pNow = r.observe().pending
	}
	unlimited := n >= obsReap || (n < 0 && pNow+len(m.adm) < m.limit)
	if unlimited && pNow < m.limit {
		for a := 0; a < nAcc; a++ {
			run := m.mustRun(a)
			got := int(next[a] - m.s[a])
			if run > 0 && got == 0 {
				if r.fail("executable-head-not-offered-below-capacity", "account %d: tx with the state nonce %d is held (accepted and never displaceable: the waiting queue was below its bound) and the pool offers %d < pendingLimit %d txs, but Reap(%d) offered nothing for the account", a, m.s[a], pNow, m.limit, n) {
					return
				}
			}
			if got > 0 && got < run {
				// Not a loss: the pool promotes a waiting tx only once the state nonce reaches it (or a
				// tx with the state nonce arrives), so nonce s+1 submitted after s waits for the commit of s.
				if strong {
					r.label("obs:executable-tx-deferred-even-after-a-commit(not-lost)")
				} else {
					r.label("obs:executable-tx-deferred(not-lost)")
				}
			}
		}
	}
	if unlimited {
		for rc := range m.admMust {
			if !seen[rc] {
				if r.fail("held-admin-tx-not-offered", "admin tx %v is held but Reap(%d) did not offer it", rc, n) {
					return
				}
			}
		}
	}
	if n > 0 && n < obsReap && len(out) == n {
		r.label("reap:truncated-by-limit")
	}
	return
}

// ---- per-step invariants ----

func (r *runner) checkSize() {
	m := r.m
	sz := r.pool.Size()
	hard := 3 * m.limit
	allowed := m.ethCount() + m.staleAccepted + len(m.adm) + m.linger
	if sz > allowed {
		excess := sz - allowed
		sig := "size-counts-txs-the-pool-cannot-hold"
		if excess <= m.leakBudget {
			sig = "all-index-keeps-displaced-tx"
		}
		over := ""
		if sz > hard {
			over = "EXCEEDS THE CONFIGURED BOUND: "
			r.label("size:exceeds-configured-bound")
		}
		if r.fail(sig, over+"Size()=%d but only %d txs were accepted and are neither committed, stale nor flushed (eth %d, admin %d); configured bound %d (waiting %d + pending %d + admin %d); displaced-candidate txs since flush: %d", sz, allowed, m.ethCount(), len(m.adm), hard, m.limit, m.limit, m.limit, m.leakBudget) {
			return
		}
	} else if sz > hard {
		// every counted tx was accepted and is still live, yet there are more than the limits allow
		sig := "size-exceeds-configured-bound"
		if sz-hard <= m.leakBudget {
			sig = "all-index-keeps-displaced-tx"
			r.label("size:exceeds-configured-bound")
		}
		if r.fail(sig, "EXCEEDS THE CONFIGURED BOUND: Size()=%d > waiting %d + pending %d + admin %d; accepted same-nonce variants / at-capacity acceptances since flush (txs the pool displaced but may still count): %d", sz, m.limit, m.limit, m.limit, m.leakBudget) {
			return
		}
	}
}

// checkBounds asserts the configured bounds themselves, unconditionally (no obligation of the
// model is needed for them, so they stay on at capacity): the pending queue is what an unlimited
// Reap offers besides admin txs (<= pendingLimit), the admin queue <= pendingLimit, and the
// waiting queue is everything else Size() counts (<= waitingLimit).
func (r *runner) checkBounds() {
	m := r.m
	out := r.pool.Reap(obsReap)
	pending, adm := 0, 0
	for _, raw := range out {
		if gtypes.IsAdminOP(raw) {
			adm++
		} else {
			pending++
		}
	}
	sz := r.pool.Size()
	waiting := sz - pending - adm
	if pending > m.limit {
		if r.fail("pending-exceeds-configured-limit", "the pool offers %d executable txs (Reap(%d) minus admin txs), pendingLimit is %d (block_size*10)", pending, obsReap, m.limit) {
			return
		}
	}
	if adm > m.limit {
		if r.fail("admin-queue-exceeds-configured-limit", "the pool offers %d admin txs, the limit is %d", adm, m.limit) {
			return
		}
	}
	if waiting > m.limit {
		if r.fail("waiting-exceeds-configured-limit", "Size()=%d, pending %d, admin %d: %d txs are queued as non-executable, waitingLimit is %d (block_size*10)", sz, pending, adm, waiting, m.limit) {
			return
		}
	}
	if pending == m.limit {
		r.label("bound:pending-queue-exactly-full")
	}
	if waiting == m.limit {
		r.label("bound:waiting-queue-exactly-full")
	}
	if n := len(r.pool.Reap(-1)); n > m.limit {
		r.fail("reap-exceeds-limit", "Reap(-1) returned %d txs, more than pendingLimit %d", n, m.limit)
	}
}

func (r *runner) checkPendingNonce() {
	m := r.m
	for a := 0; a < nAcc; a++ {
		got, err := r.pool.GetPendingMaxNonce(r.addrs[a][:])
		if err != nil {
			if r.fail("pending-nonce-error", "GetPendingMaxNonce(account %d): %v", a, err) {
				return
			}
			continue
		}
		if !m.exact(a) {
			r.label("pmn:unjudged(capacity)")
			continue
		}
		want := m.firstUnheld(a)
		if m.linger > 0 {
			// while pending is full the pool cleans its waiting queue lazily: stale txs may still sit in
			// front of the queued ones and the query then answers the state nonce: observation only.
			if got != want {
				r.label("obs:pending-nonce-differs-from-first-unheld(at-capacity,stale-leftovers-in-waiting)")
			}
			continue
		}
		gapped := false
		variants := false
		for n, l := range m.may[a] {
			if n > want {
				gapped = true
			}
			if len(l) > 1 {
				variants = true
			}
		}
		if got == want {
			if gapped {
				r.label("pmn:gapped=first-unheld")
			} else {
				r.label("pmn:contiguous-ok")
			}
			continue
		}
		if variants {
			// the queues may hold two different txs for one nonce of this account; what the answer
			// should be then is not derivable from the property: observation only
			r.label("obs:pending-nonce-differs-from-first-unheld(with-same-nonce-variants)")
			continue
		}
		if gapped {
			// The property statement does not say what the pending-nonce query must answer while the
			// account's queue has a gap (the code answers max+1 or the first unheld nonce depending
			// on where the gap is: e.g. {0,1,3} -> 4, {0,3} -> 1). Observation only, not judged.
			r.label("obs:pending-nonce-with-gap-differs-from-first-unheld")
			continue
		}
		sig := "pending-nonce-wrong-for-contiguous-run"
		if r.fail(sig, "GetPendingMaxNonce(account %d)=%d, model: state nonce %d, held nonces %v, first nonce not held %d", a, got, m.s[a], heldNonces(m, a), want) {
			return
		}
	}
}

func heldNonces(m *model, a int) []uint64 {
	var out []uint64
	for n := range m.may[a] {
		out = append(out, n)
	}
	sort.Slice(out, func(i, j int) bool { return out[i] < out[j] })
	return out
}

// ---- commit ----

func (r *runner) stateNonce(a int) (uint64, bool) {
	res := r.e.app.Query(append([]byte{byte(rtypes.QueryType_Nonce)}, r.addrs[a][:]...))
	var n uint64
	if err := rlp.DecodeBytes(res.Data, &n); err != nil {
		return 0, false
	}
	return n, true
}

// commitBlock executes and commits a block the way gemmill/state/execution.go does:
// OnExecute hook, pool.Update(height, txs+extxs), OnCommit hook (which runs updateToState).
func (r *runner) commitBlock(eth [nAcc][]*rec, adm []*rec) {
	m := r.m
	e := r.e
	var txs, extxs []gtypes.Tx
	for a := 0; a < nAcc; a++ {
		for _, rc := range eth[a] {
			txs = append(txs, gtypes.Tx(rc.raw))
		}
	}
	for _, rc := range adm {
		extxs = append(extxs, gtypes.Tx(rc.raw))
	}
	res := e.applyBlock(txs, extxs)
	// model
	valid := 0
	for a := 0; a < nAcc; a++ {
		for _, rc := range eth[a] {
			if rc.nonce == m.s[a] {
				m.s[a]++
				rc.committed = true
				valid++
			} else {
				rc.invalidInBlock = true
			}
		}
	}
	if valid != len(res.ValidTxs) {
		r.fail("harness:execution-differs-from-model", "model expects %d valid txs in the block, the app executed %d valid / %d invalid", valid, len(res.ValidTxs), len(res.InvalidTxs))
		return
	}
	for a := 0; a < nAcc; a++ {
		if got, ok := r.stateNonce(a); !ok || got != m.s[a] {
			r.fail("harness:state-nonce-differs-from-model", "account %d: app state nonce %d (ok=%v), model %d", a, got, ok, m.s[a])
			return
		}
	}
	m.dropStale(r.observe().pending < m.limit)
	for _, rc := range adm {
		rc.committed = true
		rc.held = false
		delete(m.admMust, rc)
		for i, q := range m.adm {
			if q == rc {
				m.adm = append(m.adm[:i:i], m.adm[i+1:]...)
				break
			}
		}
	}
}

func (r *runner) opCommit(o Op) {
	out := r.pool.Reap(obsReap)
	eth, adm := r.checkReap(out, obsReap, false)
	if r.stop {
		return
	}
	var sel [nAcc][]*rec
	offered, chosen := len(adm), 0
	var take [nAcc]int
	for a := 0; a < nAcc; a++ {
		offered += len(eth[a])
		k := 0
		if a < len(o.Take) {
			k = o.Take[a]
		}
		if k > len(eth[a]) {
			k = len(eth[a])
		}
		if k < 0 {
			k = 0
		}
		take[a] = k
	}
	holeAcc := -1
	if o.Hole > 0 {
		for j := 0; j < nAcc; j++ { // first account from HA on with at least two selected txs
			a := (o.HA%nAcc + nAcc + j) % nAcc
			if take[a] >= 2 {
				holeAcc = a
				break
			}
		}
	}
	for a := 0; a < nAcc; a++ {
		k := take[a]
		sel[a] = append(sel[a], eth[a][:k]...)
		if a == holeAcc {
			at := (o.Hole - 1) % (k - 1)
			sel[a] = append(sel[a][:at:at], sel[a][at+1:]...)
			r.label("commit:with-hole(tx-invalid-in-block)")
		}
		chosen += len(sel[a])
	}
	ka := o.Adm
	if ka > len(adm) {
		ka = len(adm)
	}
	if ka < 0 {
		ka = 0
	}
	chosen += ka
	switch {
	case chosen == 0:
		r.label("commit:empty-block")
	case chosen < offered:
		r.label("nt:commit-of-strict-subset")
		r.nt = true
	default:
		r.label("commit:all-offered")
	}
	r.commitBlock(sel, adm[:ka])
	if r.stop {
		return
	}
	out = r.pool.Reap(obsReap)
	r.checkReap(out, obsReap, true)
}

// foreignVariant marks txs that are never submitted to the pool: they reach the chain through a
// block "proposed elsewhere" and only advance the state nonces.
const foreignVariant = 9

// opForeignCommit commits a block of txs this pool never saw (blocks come from other proposers):
// per account the next Take[a] nonces, executed through the real app, then Update + OnCommit.
func (r *runner) opForeignCommit(o Op) {
	out := r.pool.Reap(obsReap)
	r.checkReap(out, obsReap, false)
	if r.stop {
		return
	}
	var sel [nAcc][]*rec
	n := 0
	for a := 0; a < nAcc; a++ {
		k := 0
		if a < len(o.Take) {
			k = o.Take[a]
		}
		if k > 3 {
			k = 3
		}
		for j := 0; j < k; j++ {
			rc := r.ethRec(a, r.m.s[a]+uint64(j), foreignVariant)
			sel[a] = append(sel[a], rc)
			n++
		}
	}
	if n == 0 {
		r.label("fcommit:empty")
	} else {
		r.label("fcommit:state-nonces-advance-from-outside")
		waitingBecomesExecutable := 0
		for a := 0; a < nAcc; a++ {
			if k := len(sel[a]); k > 0 && len(r.m.may[a][r.m.s[a]+uint64(k)]) > 0 && len(r.m.may[a][r.m.s[a]]) == 0 {
				waitingBecomesExecutable++
			}
		}
		if waitingBecomesExecutable >= 2 {
			r.label("fcommit:>=2-accounts-become-executable-in-one-commit")
			if r.m.ethCount() >= r.m.limit-2 {
				r.label("fcommit:>=2-accounts-become-executable-while-pool-nearly-full")
			}
		}
	}
	r.commitBlock(sel, nil)
	if r.stop {
		return
	}
	out = r.pool.Reap(obsReap)
	r.checkReap(out, obsReap, true)
}

// drain: no-loss, eventual part. Reap and commit everything until nothing is offered; every
// obliged executable chain must have been executed by then.
func (r *runner) drain() {
	m := r.m
	r.opDesc = "final drain"
	var want [nAcc]uint64
	for a := 0; a < nAcc; a++ {
		want[a] = m.s[a] + uint64(m.mustRun(a))
	}
	admWant := []*rec{}
	for rc := range m.admMust {
		admWant = append(admWant, rc)
	}
	rounds := 0
	for ; rounds < 64; rounds++ {
		out := r.pool.Reap(obsReap)
		eth, adm := r.checkReap(out, obsReap, rounds > 0)
		if r.stop {
			return
		}
		n := len(adm)
		for a := 0; a < nAcc; a++ {
			n += len(eth[a])
		}
		if n == 0 {
			break
		}
		r.commitBlock(eth, adm)
		r.trace()
		if r.stop {
			return
		}
		r.checkSize()
		if r.stop {
			return
		}
		r.checkBounds()
		if r.stop {
			return
		}
	}
	if rounds > 1 {
		r.label("drain:more-than-one-round")
	}
	for a := 0; a < nAcc; a++ {
		if m.s[a] < want[a] {
			if r.fail("executable-tx-lost", "account %d: nonces up to %d were accepted, executable and never displaced by capacity, but after reaping and committing until the pool offers nothing the state nonce is %d", a, want[a]-1, m.s[a]) {
				return
			}
		}
	}
	for _, rc := range admWant {
		if !rc.committed {
			if r.fail("admin-tx-lost", "admin tx %v was held but never offered through the drain", rc) {
				return
			}
		}
	}
	r.checkPendingNonce()
}

func (r *runner) run(c PoolCase) {
	r.pool.Flush()
	if sz := r.pool.Size(); sz != 0 {
		r.fail("flush-leaves-txs", "Size()=%d right after Flush", sz)
		return
	}
	for i, o := range c.Ops {
		r.step = i
		r.opDesc = o.K
		switch o.K {
		case "sub":
			n := int64(r.m.s[o.A]) + int64(o.D)
			if n < 0 {
				n = 0
			}
			r.opDesc = fmt.Sprintf("sub acct%d nonce%d v%d+%d", o.A, n, o.V, o.R)
			for v := o.V; v <= o.V+o.R && !r.stop; v++ {
				r.submitEth(r.ethRec(o.A, uint64(n), v))
			}
			if o.R > 0 {
				r.label("sub:burst-of-variants")
			}
		case "ext":
			n := r.m.firstUnheld(o.A) + uint64(o.D)
			for k := 0; k <= o.R && !r.stop; k++ {
				r.opDesc = fmt.Sprintf("ext acct%d nonce%d", o.A, n+uint64(k))
				r.submitEth(r.ethRec(o.A, n+uint64(k), 0))
			}
		case "rev":
			n := r.m.firstUnheld(o.A)
			for k := o.R; k >= 0 && !r.stop; k-- {
				r.opDesc = fmt.Sprintf("rev acct%d nonce%d", o.A, n+uint64(k))
				r.submitEth(r.ethRec(o.A, n+uint64(k), 0))
			}
		case "dup":
			if len(r.order) == 0 {
				r.label("dup:nothing-to-repeat")
				continue
			}
			rc := r.order[o.I%len(r.order)]
			r.opDesc = fmt.Sprintf("dup %v", rc)
			if rc.admin {
				r.submitAdm(rc)
			} else {
				r.submitEth(rc)
			}
		case "adm":
			r.opDesc = fmt.Sprintf("adm payload %d", o.I)
			r.submitAdm(r.admRec(o.I))
		case "reap":
			r.opDesc = fmt.Sprintf("reap %d", o.N)
			out := r.pool.Reap(o.N)
			r.checkReap(out, o.N, false)
			r.label(fmt.Sprintf("reap:n=%d", o.N))
		case "commit":
			r.opCommit(o)
		case "fcommit":
			r.opForeignCommit(o)
		case "flush":
			r.pool.Flush()
			r.m.flush()
			r.label("flush")
			if sz := r.pool.Size(); sz != 0 {
				r.fail("flush-leaves-txs", "Size()=%d right after Flush", sz)
			}
		}
		r.trace()
		if r.stop {
			return
		}
		r.checkSize()
		if r.stop {
			return
		}
		r.checkBounds()
		if r.stop {
			return
		}
		r.checkPendingNonce()
		if r.stop {
			return
		}
	}
	r.drain()
}

func runPool(c PoolCase, x *h.Ctx) {
	bs := c.BlockSize
	if bs < 1 || bs > 3 {
		bs = 1
	}
	envUse.Lock() // one case at a time per process (the app is shared)
	defer envUse.Unlock()
	e := getEnv(bs)
	r := newRunner(e, x)
	defer func() {
		// leave a clean pool behind whatever happened
		func() {
			defer func() { recover() }()
			e.pool.Flush()
		}()
	}()
	r.run(c)
	x.Labelf("block_size:%d", bs)
	x.Labelf("ops:%d-%d", len(c.Ops)/20*20, len(c.Ops)/20*20+19)
	for l := range r.labels {
		x.Label(l)
	}
	if r.nt {
		x.NonTrivial()
	}
}

func TestAppPool(t *testing.T) {
	t.Cleanup(closeEnvs)
	h.Note("C19", "apppool", "time-based eviction (1-minute ticker, 10-minute waiting life time) is not driven; gossip queue not observed")
	h.Check(t, h.Spec[PoolCase]{Prop: "C19", Leg: "apppool", Gen: genPool, Run: runPool})
}
