// C04: locking discipline — the votes of one honest validator follow the proof-of-lock rules,
// judged against the harness's own ledger of the valid votes that validator has received.
package c04

import (
	"bytes"
	"fmt"
	"testing"

	"pgregory.net/rapid"

	"github.com/dappledger/AnnChain/gemmill/consensus/pbft"
	"github.com/dappledger/AnnChain/gemmill/types"

	"verif/internal/h"
	"verif/internal/sim"
)

func TestMain(m *testing.M) { h.Main(m) }

type Op struct {
	K string `json:"k"`
	N int    `json:"n,omitempty"`
	A int    `json:"a,omitempty"`
	B int    `json:"b,omitempty"`
	C int    `json:"c,omitempty"`
}

type Case struct {
	Powers  []int64 `json:"powers"` // validator powers; validator Subject is the real node, the others are puppets
	Subject int     `json:"subject"`
	Ops     []Op    `json:"ops"`
}

var kinds = []string{
	"prop", "prop", "reprop",
	"vote", "vote",
	"polka", "polka", "polka", "pcmaj",
	"own", "ownall", "ownall", "ownall",
	"timeout", "timeout", "start", "start", "start",
	"badvote", "parts",
	"lock", "lock", "lock", "lock", "nextround", "nextround", "nextround", "nextround",
	"relock", "relock", "relock", "stalepolka", "stalepolka", "stalepolka",
}

func genCase(t *rapid.T) Case {
	n := rapid.IntRange(2, 6).Draw(t, "n")
	kind := rapid.IntRange(0, 3).Draw(t, "powerKind")
	ps := make([]int64, n)
	for i := range ps {
		switch kind {
		case 0, 1:
			ps[i] = 1
		case 2:
			ps[i] = rapid.Int64Range(1, 5).Draw(t, "p")
		default:
			ps[i] = rapid.Int64Range(1, 1<<40).Draw(t, "p")
		}
	}
	c := Case{Powers: ps, Subject: rapid.IntRange(0, n-1).Draw(t, "subject")}
	c.Ops = rapid.SliceOfN(rapid.Custom(func(t *rapid.T) Op {
		return Op{K: rapid.SampledFrom(kinds).Draw(t, "k"), N: rapid.IntRange(0, 31).Draw(t, "n"), A: rapid.IntRange(0, 255).Draw(t, "a"), B: rapid.IntRange(0, 255).Draw(t, "b"), C: rapid.IntRange(0, 255).Draw(t, "c")}
	}), 5, 160).Draw(t, "ops")
	return c
}

// ledger of valid votes the subject has received (its own included), written by the harness.
type ledger struct {
	total int64
	power map[int]int64 // validator index -> power
	// votes[height][round][type][blockKey] = set of validator indices
	votes map[string]map[int]bool
}

func lk(h, r int64, typ byte, key string) string { return fmt.Sprintf("%d/%d/%d/%s", h, r, typ, key) }

func (l *ledger) add(v *types.Vote) {
	k := lk(v.Height, v.Round, v.Type, v.BlockID.Key())
	if l.votes[k] == nil {
		l.votes[k] = map[int]bool{}
	}
	l.votes[k][v.ValidatorIndex] = true
}

func (l *ledger) sum(h, r int64, typ byte, key string) int64 {
	var s int64
	for idx := range l.votes[lk(h, r, typ, key)] {
		s += l.power[idx]
	}
	return s
}

func (l *ledger) maj(h, r int64, typ byte, key string) bool {
	return 3*l.sum(h, r, typ, key) > 2*l.total
}

// polkaForOther reports whether at some round r' > r0 the ledger shows > 2/3 prevotes for one
// value (a block or nil) different from key.
func (l *ledger) polkaForOther(h, r0 int64, key string) bool {
	for k := range l.votes {
		var hh, rr int64
		var tt byte
		var bk string
		if n, _ := fmt.Sscanf(k, "%d/%d/%d/", &hh, &rr, &tt); n != 3 {
			continue
		}
		bk = k[len(fmt.Sprintf("%d/%d/%d/", hh, rr, tt)):]
		if hh == h && tt == types.VoteTypePrevote && rr > r0 && bk != key && l.maj(hh, rr, tt, bk) {
			return true
		}
	}
	return false
}

func mod(a, n int) int {
	if n <= 0 {
		return 0
	}
	a %= n
	if a < 0 {
		a += n
	}
	return a
}

func runCase(c Case, x *h.Ctx) {
	dir, doneDir := sim.TempDir("c04-")
	defer doneDir()
	byz := make([]bool, len(c.Powers))
	for i := range byz {
		byz[i] = i != c.Subject
	}
	net := sim.New(sim.Config{Powers: c.Powers, Byz: byz, Dir: dir})
	defer net.Close()
	sub := net.Nodes[c.Subject]

	var known []types.BlockID              // blocks the adversary has created
	partsOf := map[string]*types.PartSet{} // block key -> parts
	led := &ledger{power: map[int]int64{}, votes: map[string]map[int]bool{}}
	setVals := func(vs *types.ValidatorSet) {
		led.total = 0 // summed here: the set's own total is a cache of the code under test
		led.power = map[int]int64{}
		for i, v := range vs.Validators {
			led.power[i] = v.VotingPower
			led.total += v.VotingPower
		}
	}
	setVals(sub.RS().Validators)

	// lock bookkeeping from the subject's own emitted precommits
	lockedH, lockedR := int64(0), int64(-1)
	lockedKey := ""
	var lockedPSH types.PartSetHeader
	nLocks, nLaterRounds, nUnlockOK, nProposedLocked := 0, 0, 0, 0
	var violations []string
	report := func(sig, f string, a ...any) { violations = append(violations, sig+"|"+fmt.Sprintf(f, a...)) }

	net.OnQueued = func(n *sim.Node, ms []pbft.ConsensusMessage) {
		for _, m := range ms {
			switch v := m.(type) {
			case *pbft.VoteMessage:
				vt := v.Vote
				key := vt.BlockID.Key()
				isNil := len(vt.BlockID.Hash) == 0
				if vt.Type == types.VoteTypePrecommit {
					if !isNil {
						// (ii) precommit X at r requires > 2/3 prevotes for X at r in the ledger
						if !led.maj(vt.Height, vt.Round, types.VoteTypePrevote, key) {
							report("precommit-without-polka", "subject precommitted %x at h%d r%d but has received prevotes for it from only %d of %d power in that round", vt.BlockID.Hash, vt.Height, vt.Round, led.sum(vt.Height, vt.Round, types.VoteTypePrevote, key), led.total)
						}
						lockedH, lockedR, lockedKey, lockedPSH = vt.Height, vt.Round, key, vt.BlockID.PartsHeader
						nLocks++
					}
				} else if vt.Type == types.VoteTypePrevote {
					if lockedKey != "" && vt.Height == lockedH && vt.Round > lockedR {
						nLaterRounds++
						if key != lockedKey {
							if led.polkaForOther(vt.Height, lockedR, lockedKey) {
								nUnlockOK++
							} else {
								report("prevote-abandons-lock", "subject precommitted block %x at h%d r%d, then prevoted %x at r%d although it has not received > 2/3 prevotes for anything else in a later round", []byte(lockedKey)[:4], lockedH, lockedR, vt.BlockID.Hash, vt.Round)
							}
						}
					}
				}
			case *pbft.ProposalMessage:
				p := v.Proposal
				if lockedKey != "" && p.Height == lockedH && p.Round > lockedR && !led.polkaForOther(p.Height, lockedR, lockedKey) {
					nProposedLocked++
					if !p.BlockPartsHeader.Equals(lockedPSH) {
						report("proposal-abandons-lock", "subject precommitted a block at h%d r%d and, still bound, proposed a different block at r%d", lockedH, lockedR, p.Round)
					}
				}
			}
		}
	}
	commits := 0
	net.OnCommit = func(n *sim.Node, cm sim.Committed) {
		commits++
		// (iii) commit requires > 2/3 precommits for that block in one round of the ledger
		blk := n.Store.LoadBlock(cm.Height)
		sc := n.Store.LoadSeenCommit(cm.Height)
		ok := false
		if blk != nil && sc != nil {
			key := sc.BlockID.Key()
			for r := int64(0); r <= 64; r++ {
				if led.maj(cm.Height, r, types.VoteTypePrecommit, key) {
					ok = true
				}
			}
			if !bytes.Equal(sc.BlockID.Hash, cm.Hash) {
				ok = false
			}
		}
		if !ok {
			report("commit-without-precommit-majority", "subject committed %x at height %d without having received > 2/3 precommits for it in one round", cm.Hash, cm.Height)
		}
		lockedKey = ""
		known = nil // block ids of a finished height are not candidates for the next one
		setVals(n.RS().Validators)
	}

	puppets := []int{}
	for i := range c.Powers {
		if i != c.Subject {
			puppets = append(puppets, i)
		}
	}
	newBlock := func(tag int) (types.BlockID, bool) {
		rs := sub.RS()
		st := sub.CS.GetState()
		var lc *types.Commit
		if rs.Height > 1 {
			if rs.LastCommit == nil || !rs.LastCommit.HasTwoThirdsMajority() {
				return types.BlockID{}, false
			}
			lc = rs.LastCommit.MakeCommit()
		}
		prop := rs.Validators.Proposer()
		pid := -1
		for i := range c.Powers {
			if bytes.Equal(net.Nodes[i].Addr, prop.Address) {
				pid = i
			}
		}
		if pid < 0 {
			pid = puppets[0]
		}
		blk, parts := sim.MakeBlock(st, lc, pid, []types.Tx{types.Tx(fmt.Sprintf("c04-%d-%d-%d", rs.Height, rs.Round, tag))}, 512)
		bid := types.BlockID{Hash: blk.Hash(), PartsHeader: parts.Header()}
		known = append(known, bid)
		partsOf[bid.Key()] = parts
		return bid, true
	}
	pick := func(sel int) (types.BlockID, bool) {
		// selector: the block the subject is locked on (relock scenarios), the newest block of this
		// height, nil, an older block of this height, or an id that is no block at all
		if rs := sub.RS(); rs.LockedBlock != nil && sel%4 == 1 {
			return types.BlockID{Hash: rs.LockedBlock.Hash(), PartsHeader: rs.LockedBlockParts.Header()}, true
		}
		if len(known) > 0 && sel%2 == 0 {
			return known[len(known)-1], true
		}
		switch k := mod(sel/2, len(known)+2); {
		case k < len(known):
			return known[k], true
		case k == len(known):
			return types.BlockID{}, true
		}
		return types.BlockID{Hash: []byte(fmt.Sprintf("no-such-block-%06d", sel)), PartsHeader: types.PartSetHeader{Total: 1, Hash: []byte("no-such-parts-000000")}}, true
	}
	deliverVote := func(v *types.Vote, valid bool) {
		if valid {
			rs := sub.RS()
			if v.Height == rs.Height {
				led.add(v)
			}
		}
		net.Inject(c.Subject, v.ValidatorIndex+100, &pbft.VoteMessage{Vote: v})
	}
	proposerID := func() int {
		prop := sub.RS().Validators.Proposer()
		for i := range c.Powers {
			if bytes.Equal(net.Nodes[i].Addr, prop.Address) {
				return i
			}
		}
		return -1
	}

	ownAll := func() {
		for len(sub.Own) > 0 && sub.Alive {
			if vm, ok := sub.Own[0].(*pbft.VoteMessage); ok && vm.Vote.Height == sub.RS().Height {
				led.add(vm.Vote)
			}
			net.OwnStep(sub, 0)
		}
	}
	for _, op := range c.Ops {
		if !sub.Alive {
			break
		}
		rs := sub.RS()
		switch op.K {
		case "prop", "reprop":
			pid := proposerID()
			if pid < 0 || pid == c.Subject {
				continue
			}
			var bid types.BlockID
			ok := false
			if op.K == "reprop" && len(known) > 0 {
				bid, ok = known[len(known)-1-mod(op.B, len(known))], true
			} else {
				bid, ok = newBlock(op.B)
			}
			if !ok || partsOf[bid.Key()] == nil {
				continue
			}
			polRound := int64(-1)
			polID := types.BlockID{}
			if rs.Round > 0 && op.C%2 == 1 {
				polRound = int64(mod(op.C/2, int(rs.Round)))
				polID = bid
			}
			for _, m := range sim.ProposalMsgs(pid, rs.Height, rs.Round, partsOf[bid.Key()], polRound, polID) {
				net.Inject(c.Subject, pid, m)
			}
		case "parts":
			// block parts alone (the subject may be waiting for a block it saw a polka/commit for)
			if len(known) == 0 {
				continue
			}
			bid := known[len(known)-1-mod(op.B, len(known))]
			ps := partsOf[bid.Key()]
			for i := 0; i < ps.Total(); i++ {
				net.Inject(c.Subject, puppets[0], &pbft.BlockPartMessage{Height: rs.Height, Round: rs.Round, Part: ps.GetPart(i)})
			}
		case "vote", "badvote":
			p := puppets[mod(op.N, len(puppets))]
			typ := types.VoteTypePrevote
			if op.A&1 == 1 {
				typ = types.VoteTypePrecommit
			}
			round := rs.Round + int64(mod(op.A/2, 4)) - 1
			if round < 0 {
				round = 0
			}
			bid, _ := pick(op.B)
			if _, val := rs.Validators.GetByAddress(net.Nodes[p].Addr); val == nil {
				continue
			}
			v := sim.SignVote(p, rs.Validators, rs.Height, round, typ, bid)
			valid := true
			if op.K == "badvote" {
				valid = false
				switch op.C % 4 {
				case 0: // forged signature
					sig := append([]byte{}, v.Signature.Bytes()...)
					sig[len(sig)-3] ^= 0x40
					v2 := sim.SignVote(p, rs.Validators, rs.Height, round, typ, types.BlockID{Hash: []byte("other-block-000000000"), PartsHeader: types.PartSetHeader{Total: 1, Hash: []byte("x")}})
					v.Signature = v2.Signature
				case 1: // wrong index for the address (another validator's slot)
					v.ValidatorIndex = (v.ValidatorIndex + 1) % rs.Validators.Size()
				case 2: // wrong height
					v = sim.SignVote(p, rs.Validators, rs.Height+1, round, typ, bid)
				case 3: // signed by a key that is not the claimed validator
					other := puppets[mod(op.N+1, len(puppets))]
					if other == p {
						valid = true
					} else {
						v2 := sim.SignVote(other, rs.Validators, rs.Height, round, typ, bid)
						v.Signature = v2.Signature
					}
				}
			}
			deliverVote(v, valid)
		case "polka", "pcmaj":
			typ := types.VoteTypePrevote
			if op.K == "pcmaj" {
				typ = types.VoteTypePrecommit
			}
			round := rs.Round + int64(mod(op.A, 3)) - 0
			if mod(op.A, 5) == 4 && rs.Round > 0 {
				round = rs.Round - 1
			}
			bid, _ := pick(op.B)
			mask := op.C | 1
			for i, p := range puppets {
				if op.C%4 != 0 && mask&(1<<uint(i)) == 0 {
					continue
				}
				if _, val := rs.Validators.GetByAddress(net.Nodes[p].Addr); val == nil {
					continue
				}
				deliverVote(sim.SignVote(p, rs.Validators, rs.Height, round, typ, bid), true)
				if !sub.Alive || sub.RS().Height != rs.Height {
					break
				}
			}
		case "start":
			// let the subject move on: fire its newest pending timeout
			if p := sub.Ctl.Ticker.Pending(); len(p) > 0 {
				net.Timeout(sub, len(p)-1)
			}
		case "ownall":
			ownAll()
		case "lock":
			// scripted path to a lock: start the round if needed, make sure there is a proposal
			// (a fresh block from the puppet proposer, or the subject's own), let the subject
			// process its own messages, then deliver a polka for the proposal block.
			if rs.Step == pbft.RoundStepNewHeight {
				if p := sub.Ctl.Ticker.Pending(); len(p) > 0 {
					net.Timeout(sub, len(p)-1)
				}
				rs = sub.RS()
			}
			if rs.Step >= pbft.RoundStepPrecommit {
				continue
			}
			if rs.Proposal == nil {
				if pid := proposerID(); pid >= 0 && pid != c.Subject {
					if bid, ok := newBlock(op.B); ok {
						for _, m := range sim.ProposalMsgs(pid, rs.Height, rs.Round, partsOf[bid.Key()], -1, types.BlockID{}) {
							net.Inject(c.Subject, pid, m)
						}
					}
				}
			}
			ownAll()
			rs = sub.RS()
			if rs.ProposalBlock == nil || rs.ProposalBlockParts == nil || rs.Step >= pbft.RoundStepPrecommit {
				continue
			}
			bid := types.BlockID{Hash: rs.ProposalBlock.Hash(), PartsHeader: rs.ProposalBlockParts.Header()}
			if partsOf[bid.Key()] == nil {
				known = append(known, bid)
				partsOf[bid.Key()] = rs.ProposalBlockParts
			}
			for _, p := range puppets {
				if sub.RS().Height != rs.Height {
					break
				}
				if _, val := rs.Validators.GetByAddress(net.Nodes[p].Addr); val != nil {
					deliverVote(sim.SignVote(p, rs.Validators, rs.Height, rs.Round, types.VoteTypePrevote, bid), true)
				}
			}
			if op.C%2 == 0 {
				ownAll()
			}
		case "relock":
			// the subject is locked on B from an earlier round: give it a polka for B in its current
			// round (it must relock and precommit B again)
			if rs.LockedBlock == nil || rs.Step >= pbft.RoundStepPrecommit {
				continue
			}
			if rs.Step == pbft.RoundStepNewHeight {
				continue
			}
			ownAll()
			lb := types.BlockID{Hash: rs.LockedBlock.Hash(), PartsHeader: rs.LockedBlockParts.Header()}
			for _, p := range puppets {
				if sub.RS().Height != rs.Height || sub.RS().Round != rs.Round {
					break
				}
				if _, val := rs.Validators.GetByAddress(net.Nodes[p].Addr); val != nil {
					deliverVote(sim.SignVote(p, rs.Validators, rs.Height, rs.Round, types.VoteTypePrevote, lb), true)
				}
			}
			ownAll()
		case "stalepolka":
			// scripted attack shape: while the subject is locked, a polka for ANOTHER block at a round
			// not later than the lock round arrives late (stale votes of an old round); afterwards the
			// subject is moved on so that its next prevote shows whether it kept the lock
			if rs.LockedBlock == nil {
				continue
			}
			other, ok := types.BlockID{}, false
			for i := len(known) - 1; i >= 0; i-- {
				if !bytes.Equal(known[i].Hash, rs.LockedBlock.Hash()) {
					other, ok = known[i], true
					break
				}
			}
			if !ok && op.B%2 == 0 {
				other, ok = types.BlockID{Hash: []byte("another-block-id-000"), PartsHeader: types.PartSetHeader{Total: 1, Hash: []byte("another-parts-hash-00")}}, true
			}
			if !ok {
				// nil polka of an old round
				ok = true
			}
			// any round up to the round of the subject's latest precommit of the block (taken from the
			// harness's own record of what the subject signed, not from the implementation's field)
			base := rs.LockedRound
			if lockedKey != "" && lockedH == rs.Height && lockedR > base {
				base = lockedR
			}
			staleRound := base - int64(mod(op.A, int(base)+1))
			if staleRound < 0 {
				staleRound = 0
			}
			for _, p := range puppets {
				if sub.RS().Height != rs.Height {
					break
				}
				if _, val := rs.Validators.GetByAddress(net.Nodes[p].Addr); val != nil {
					deliverVote(sim.SignVote(p, rs.Validators, rs.Height, staleRound, types.VoteTypePrevote, other), true)
				}
			}
		case "nextround":
			// move the subject to the next round: a precommit majority for nil (or mixed) at its round
			ownAll()
			rs = sub.RS()
			for i, p := range puppets {
				if sub.RS().Height != rs.Height || sub.RS().Round != rs.Round {
					break
				}
				if _, val := rs.Validators.GetByAddress(net.Nodes[p].Addr); val == nil {
					continue
				}
				bid := types.BlockID{}
				if op.B%3 == 1 && i%2 == 1 && len(known) > 0 {
					bid = known[len(known)-1]
				}
				deliverVote(sim.SignVote(p, rs.Validators, rs.Height, rs.Round, types.VoteTypePrecommit, bid), true)
			}
			if sub.RS().Round == rs.Round && sub.RS().Height == rs.Height {
				if p := sub.Ctl.Ticker.Pending(); len(p) > 0 {
					net.Timeout(sub, len(p)-1)
				}
			}
		case "own":
			if len(sub.Own) == 0 {
				continue
			}
			k := mod(op.A, len(sub.Own))
			if op.A%3 != 0 {
				k = 0
			}
			if vm, ok := sub.Own[k].(*pbft.VoteMessage); ok && vm.Vote.Height == sub.RS().Height {
				led.add(vm.Vote)
			}
			net.OwnStep(sub, k)
		case "timeout":
			p := sub.Ctl.Ticker.Pending()
			if len(p) == 0 {
				continue
			}
			k := len(p) - 1
			if op.A%4 == 0 {
				k = mod(op.A, len(p))
			}
			net.Timeout(sub, k)
		}
		for _, v := range violations {
			i := bytes.IndexByte([]byte(v), '|')
			if x.Fail(v[:i], "%s", v[i+1:]) {
				return
			}
		}
		violations = violations[:0]
	}
	x.Labelf("validators:%d", len(c.Powers))
	x.Labelf("locks:%s", bucket(nLocks))
	x.Labelf("maxround:%s", bucket(int(sub.RS().Round)))
	if nLaterRounds > 0 {
		x.Label("prevote-after-lock-in-later-round")
	}
	if nUnlockOK > 0 {
		x.Label("justified-unlock")
	}
	if nProposedLocked > 0 {
		x.Label("proposed-while-bound")
	}
	if commits > 0 {
		x.Label("committed")
	}
	if nLocks > 0 && nLaterRounds > 0 {
		x.NonTrivial()
	}
}

func bucket(n int) string {
	switch {
	case n <= 2:
		return fmt.Sprint(n)
	case n <= 5:
		return "3-5"
	}
	return ">5"
}

func TestLocking(t *testing.T) {
	h.Check(t, h.Spec[Case]{Prop: "C04", Leg: "subject", Gen: genCase, Run: runCase})
}
