package c20

import (
	"bytes"
	"errors"
	"fmt"
	"io"
	"testing"
	"time"

	crypto "github.com/dappledger/AnnChain/gemmill/go-crypto"
	"github.com/dappledger/AnnChain/gemmill/p2p"
	"pgregory.net/rapid"

	"verif/internal/h"
)

// Root-cause signature of the confirmed defect S1: the branch of SecretConnection.Read that serves
// bytes left over from the previous frame copies them into the caller's buffer, removes them from its
// own buffer and reports n == 0.
const sigReadDrops = "secretconn-read-reports-zero-for-buffered-bytes"

const hsWatchdog = 60 * time.Second

type hsRes struct {
	sc  *p2p.SecretConnection
	err error
	pan interface{}
}

func startHandshake(conn io.ReadWriteCloser, k crypto.PrivKey) chan hsRes {
	out := make(chan hsRes, 1)
	go func() {
		var r hsRes
		defer func() {
			if p := recover(); p != nil {
				r.pan = p
			}
			out <- r
		}()
		r.sc, r.err = p2p.MakeSecretConnection(conn, k)
	}()
	return out
}

// waitHandshakes waits for the given handshake goroutines. Every byte a side can wait for has been
// (or will unconditionally be) written to an unbounded wire, so a side that is still waiting after
// the watchdog cannot make progress any more; the wire is then closed to release it.
func waitHandshakes(w *duplex, chans ...chan hsRes) (res []hsRes, hung bool) {
	timer := time.NewTimer(hsWatchdog)
	defer timer.Stop()
	res = make([]hsRes, len(chans))
	for i, ch := range chans {
		select {
		case res[i] = <-ch:
		case <-timer.C:
			hung = true
			w.closeAll()
			res[i] = <-ch
		}
	}
	return
}

// ---- case ----

type Step struct {
	Op   string `json:"op"`             // w (write) | r (one Read call) | m (man-in-the-middle edit)
	Lane int    `json:"lane"`           // lane d: endpoint d writes, endpoint 1-d reads
	N    int    `json:"n,omitempty"`    // w: bytes written; r: read buffer size
	Seed uint64 `json:"seed,omitempty"` // w: data seed
	Kind string `json:"kind,omitempty"` // m: flip | swap | replay | drop | truncate | splice | replayd | swapd
	I    int    `json:"i,omitempty"`
	J    int    `json:"j,omitempty"`
	Bit  int    `json:"bit,omitempty"`
	Rep  int    `json:"rep,omitempty"`  // w / r: repeat the step this many times (0 = once)
	Same bool   `json:"same,omitempty"` // w: every repetition writes the same bytes
	Dist int    `json:"dist,omitempty"` // m replayd: the frame sent Dist frames earlier takes the place of (J even) or is put before (J odd) frame I in flight; swapd: frames I and I+Dist in flight change places
}

type StreamCase struct {
	ALo        bool   `json:"a_lo"` // which side has the lexically lower ephemeral key (decides the nonce roles)
	SmallReads bool   `json:"small_reads"`
	Long       bool   `json:"long,omitempty"` // session of several hundred frames per direction
	Steps      []Step `json:"steps"`
	DrainBufs  []int  `json:"drain_bufs"`
}

var mitmKinds = []string{"flip", "swap", "replay", "drop", "truncate", "splice"}

func genStream(t *rapid.T) StreamCase {
	var c StreamCase
	c.ALo = rapid.Bool().Draw(t, "aLo")
	// While the S1 finding is listed as open, most cases avoid its trigger (a read buffer smaller than
	// the pending chunk) so that the search continues behind it; 1 in 8 still exercises it.
	c.SmallReads = true
	if h.IsKnownFor(prop, sigReadDrops) {
		c.SmallReads = rapid.IntRange(0, 7).Draw(t, "smallReadsDespiteKnown") == 0
	}
	bufGen := rapid.OneOf(rapid.SampledFrom([]int{1, 2, 3, 7, 10, 100, 500, 1023, 1024, 1025, 2047, 3000}), rapid.IntRange(1, 3000))
	if !c.SmallReads {
		bufGen = rapid.OneOf(rapid.SampledFrom([]int{1024, 1025, 2048, 3000}), rapid.IntRange(1024, 3000))
	}
	sizeGen := rapid.OneOf(rapid.SampledFrom([]int{0, 1, 2, 100, 1023, 1024, 1025, 2047, 2048, 2049, 3072, 5000}), rapid.IntRange(0, 5000), rapid.IntRange(0, 64))
	if rapid.IntRange(0, 7).Draw(t, "long") == 0 {
		genLongSession(t, &c, bufGen)
		return c
	}
	tamper := rapid.IntRange(0, 2).Draw(t, "tamper") != 0
	oneWay := rapid.IntRange(0, 3).Draw(t, "oneWay") == 0
	n := rapid.IntRange(1, 14).Draw(t, "nsteps")
	// burst shape: a run of writes, then the edits, then anything - so that edits find frames in flight
	burst := tamper && rapid.Bool().Draw(t, "burst")
	nw, nm, burstLane := 0, 0, 0
	if burst {
		if !oneWay {
			burstLane = rapid.IntRange(0, 1).Draw(t, "burstLane")
		}
		nw = rapid.IntRange(1, 4).Draw(t, "burstWrites")
		nm = rapid.IntRange(1, 2).Draw(t, "burstEdits")
		n += nw + nm
	}
	for i := 0; i < n; i++ {
		s := Step{}
		if !oneWay {
			s.Lane = rapid.IntRange(0, 1).Draw(t, "lane")
		}
		k := rapid.IntRange(0, 9).Draw(t, "op")
		if burst && i < nw {
			k, s.Lane = 0, burstLane
		} else if burst && i < nw+nm {
			k, s.Lane = 9, burstLane
		}
		switch {
		case k < 4:
			s.Op = "w"
			s.N = sizeGen.Draw(t, "size")
			s.Seed = rapid.Uint64().Draw(t, "seed")
		case k < 8 || !tamper:
			s.Op = "r"
			s.N = bufGen.Draw(t, "buf")
		default:
			s.Op = "m"
			s.Kind = rapid.SampledFrom(mitmKinds).Draw(t, "kind")
			s.I = rapid.IntRange(0, 15).Draw(t, "i")
			s.J = rapid.IntRange(0, 1<<16).Draw(t, "j")
			s.Bit = rapid.IntRange(0, 7).Draw(t, "bit")
		}
		c.Steps = append(c.Steps, s)
	}
	c.DrainBufs = rapid.SliceOfN(bufGen, 1, 3).Draw(t, "drainBufs")
	return c
}

// Distances at which a nonce sequence with a short period, a lost carry or an off-by-one would make
// an old frame acceptable again.
var editDistances = []int{128, 127, 129, 256, 255, 257, 1, 2}

// genLongSession: several hundred small frames in each direction (so that counters run through
// their low-byte wrap more than once), optionally partly read, then edits that put a frame from a
// generated distance earlier/later in the place of a frame in flight, then more traffic and the drain.
func genLongSession(t *rapid.T, c *StreamCase, bufGen *rapid.Generator[int]) {
	c.Long = true
	size := rapid.SampledFrom([]int{1, 1, 2, 8, 64}).Draw(t, "frameBytes")
	same := rapid.Bool().Draw(t, "samePlaintext")
	var frames [2]int
	for d := 0; d < 2; d++ {
		frames[d] = rapid.IntRange(130, 600).Draw(t, "frames")
		c.Steps = append(c.Steps, Step{Op: "w", Lane: d, N: size, Seed: rapid.Uint64().Draw(t, "seed"), Rep: frames[d], Same: same})
	}
	for d := 0; d < 2; d++ {
		if rapid.Bool().Draw(t, "readSome") {
			c.Steps = append(c.Steps, Step{Op: "r", Lane: d, N: bufGen.Draw(t, "buf"), Rep: rapid.IntRange(1, frames[d]).Draw(t, "readFrames")})
		}
	}
	ne := rapid.IntRange(1, 3).Draw(t, "nedits")
	for i := 0; i < ne; i++ {
		s := Step{Op: "m", Lane: rapid.IntRange(0, 1).Draw(t, "lane")}
		s.Kind = rapid.SampledFrom([]string{"replayd", "replayd", "replayd", "swapd", "swapd", "replay", "swap", "drop", "flip", "splice"}).Draw(t, "kind")
		s.I = rapid.IntRange(0, 1023).Draw(t, "i")
		s.J = rapid.IntRange(0, 1<<16).Draw(t, "j")
		s.Bit = rapid.IntRange(0, 7).Draw(t, "bit")
		s.Dist = rapid.OneOf(rapid.SampledFrom(editDistances), rapid.SampledFrom(editDistances), rapid.SampledFrom(editDistances), rapid.IntRange(1, 600)).Draw(t, "dist")
		c.Steps = append(c.Steps, s)
	}
	if rapid.Bool().Draw(t, "moreTraffic") {
		c.Steps = append(c.Steps, Step{Op: "w", Lane: rapid.IntRange(0, 1).Draw(t, "lane"), N: size, Seed: rapid.Uint64().Draw(t, "seed"), Rep: rapid.IntRange(1, 300).Draw(t, "moreFrames"), Same: same})
	}
	c.DrainBufs = rapid.SliceOfN(bufGen, 1, 3).Draw(t, "drainBufs")
}

type laneModel struct {
	exp, got  []byte
	plens     []int // plaintext length of every data frame written on the lane, in order
	dead      bool  // the reader saw an error (a real caller closes the connection then)
	err       error
	kind      string // kind of the first man-in-the-middle edit that made the delivered stream differ
	pending   string // kind of an edit whose effect shows only once more is written or the lane closes
	zeroRuns  int
	smallRead bool
	reads     int
	// cached result of analyse: reads do not change consumed||inflight, so it only has to be
	// recomputed after an edit, the close, or a write while an edit's effect is still pending
	anValid, anTampered, anFull bool
	anLegit                     int
	editDist                    int
}

// handshake frames of one lane: the ephemeral key, the length frame, the signature frame.
const hsMsgs = 3

// analyse compares what the writer put on lane d with what the reader was / will be given. It
// returns the number of plaintext bytes that precede the first frame at which the two streams
// differ (the bytes the reader may legitimately receive) and whether they differ at all.
func analyse(w *duplex, d int, m *laneModel) (legit int, tampered bool) {
	if !m.anValid {
		m.anLegit, m.anTampered, m.anFull = analyseFull(w, d, m)
		m.anValid = true
	}
	if !m.anTampered {
		return len(m.exp), false
	}
	return m.anLegit, true
}

// afterWrite keeps the cached analysis when a write cannot change it: the new frame is appended to
// both the sent and the delivered stream, so equal streams stay equal and a first difference stays
// where it is.
func (m *laneModel) afterWrite() {
	if !(m.anValid && (m.anTampered || m.anFull)) {
		m.anValid = false
	}
}

func analyseFull(w *duplex, d int, m *laneModel) (legit int, tampered, full bool) {
	l := w.lanes[d]
	S := flat(l.sent)
	D := append(append([]byte{}, l.consumed...), flat(l.inflight)...)
	o := 0
	for o < len(S) && o < len(D) && S[o] == D[o] {
		o++
	}
	if o == len(S) && o == len(D) {
		return len(m.exp), false, true
	}
	if o == len(D) && !l.closed {
		return len(m.exp), false, false // the rest is merely not delivered yet (lane still open)
	}
	// frame (message) of the sent log that contains offset o
	f, cum := 0, 0
	for f < len(l.sent) && cum+len(l.sent[f]) <= o {
		cum += len(l.sent[f])
		f++
	}
	for k := 0; k < f-hsMsgs && k < len(m.plens); k++ {
		legit += m.plens[k]
	}
	return legit, true, false
}

func applyMitm(w *duplex, s Step) bool {
	l, o := w.lanes[s.Lane], w.lanes[1-s.Lane]
	n := len(l.inflight)
	ins := func(at int, f []byte) {
		cp := append([]byte{}, f...)
		l.inflight = append(l.inflight[:at], append([][]byte{cp}, l.inflight[at:]...)...)
	}
	switch s.Kind {
	case "flip":
		if n == 0 || len(l.inflight[s.I%n]) == 0 {
			return false
		}
		f := l.inflight[s.I%n]
		f[s.J%len(f)] ^= 1 << uint(s.Bit%8)
	case "swap":
		if n < 2 {
			return false
		}
		i := s.I % n
		j := (i + 1 + s.J%(n-1)) % n
		l.inflight[i], l.inflight[j] = l.inflight[j], l.inflight[i]
	case "replay":
		ins(s.I%(n+1), l.sent[s.J%len(l.sent)])
	case "splice":
		ins(s.I%(n+1), o.sent[s.J%len(o.sent)])
	case "drop":
		if n == 0 {
			return false
		}
		i := s.I % n
		l.inflight = append(l.inflight[:i], l.inflight[i+1:]...)
	case "truncate":
		if n == 0 || len(l.inflight[s.I%n]) == 0 {
			return false
		}
		i := s.I % n
		l.inflight[i] = l.inflight[i][:s.J%len(l.inflight[i])]
	case "replayd":
		if n == 0 || s.Dist < 1 {
			return false
		}
		base := len(l.sent) - n // sent-log index of in-flight frame 0 (exact while no earlier edit changed the frame count)
		minP := 0
		if s.Dist > base {
			minP = s.Dist - base
		}
		if base < 0 || minP >= n {
			return false
		}
		p := minP + s.I%(n-minP)
		src := base + p - s.Dist
		if src < 0 || src >= len(l.sent) {
			return false
		}
		if s.J%2 == 0 {
			l.inflight[p] = append([]byte{}, l.sent[src]...)
		} else {
			ins(p, l.sent[src])
		}
	case "swapd":
		if n == 0 || s.Dist < 1 {
			return false
		}
		if s.Dist >= n {
			return false
		}
		p := s.I % (n - s.Dist)
		q := p + s.Dist
		l.inflight[p], l.inflight[q] = l.inflight[q], l.inflight[p]
	default:
		return false
	}
	return true
}

func safeRead(sc *p2p.SecretConnection, buf []byte) (n int, err error, pan interface{}) {
	defer func() {
		if p := recover(); p != nil {
			pan = p
		}
	}()
	n, err = sc.Read(buf)
	return
}

func runStream(c StreamCase, x *h.Ctx) {
	kA, kB := key("A"), key("B")
	var w *duplex
	var scs [2]*p2p.SecretConnection
	for try := 0; ; try++ {
		w = newDuplex(true)
		res, hung := waitHandshakes(w, startHandshake(&endpoint{w, 0}, kA), startHandshake(&endpoint{w, 1}, kB))
		if hung {
			x.Fail("secretconn-honest-handshake-stalls", "handshake between two honest ends over an unedited wire did not finish within %v although every message was written", hsWatchdog)
			return
		}
		for i, r := range res {
			if r.pan != nil || r.err != nil || r.sc == nil {
				x.Fail("secretconn-honest-handshake-fails", "honest handshake failed on side %d: err=%v panic=%v", i, r.err, r.pan)
				return
			}
			scs[i] = r.sc
		}
		// the ephemeral keys are drawn from crypto/rand by the code under test; repeat until the side
		// roles are the drawn ones so that a replay takes the same nonce assignment.
		aLo := bytes.Compare(w.lanes[0].sent[0], w.lanes[1].sent[0]) < 0
		if aLo == c.ALo || try >= 40 {
			break
		}
	}
	if !scs[0].RemotePubKey().Equals(kB.PubKey()) || !scs[1].RemotePubKey().Equals(kA.PubKey()) {
		if x.Fail("secretconn-remote-pubkey-wrong", "RemotePubKey after an honest handshake: A sees %v (want %v), B sees %v (want %v)", scs[0].RemotePubKey(), kB.PubKey(), scs[1].RemotePubKey(), kA.PubKey()) {
			return
		}
	}
	for d := 0; d < 2; d++ {
		if len(w.lanes[d].sent) != hsMsgs {
			// not a property: the harness locates data frames after the three handshake messages
			if x.Fail("harness-assumption-handshake-message-count", "lane %d carried %d handshake messages, the frame bookkeeping expects %d", d, len(w.lanes[d].sent), hsMsgs) {
				return
			}
		}
	}
	w.setBlocking(false)

	ms := [2]*laneModel{{}, {}}
	boundaries := [2]map[int]bool{{0: true}, {0: true}}
	sums := [2]int{}

	// doRead performs one Read call on lane d; it returns false when the case must stop.
	doRead := func(d, bufSize int, where string) bool {
		m := ms[d]
		buf := make([]byte, bufSize)
		for i := range buf {
			if p := len(m.got) + i; p < len(m.exp) {
				buf[i] = ^m.exp[p] // sentinel: never equal to the byte expected at this position
			} else {
				buf[i] = 0xA5
			}
		}
		n, err, pan := safeRead(scs[1-d], buf)
		m.reads++
		if pan != nil {
			return !x.Fail("secretconn-read-panics", "%s: Read(buf %d) on lane %d panicked: %v", where, bufSize, d, pan)
		}
		if errors.Is(err, errWouldBlock) && n == 0 {
			x.Label("read-nothing-pending")
			return true
		}
		legit, tampered := analyse(w, d, m)
		if n < 0 || n > len(buf) {
			return !x.Fail("secretconn-read-count-out-of-range", "%s: Read(buf %d) returned n=%d", where, bufSize, n)
		}
		if n > 0 {
			m.zeroRuns = 0
			end := len(m.got) + n
			if tampered && end > legit {
				kind := m.kind
				if kind == "" {
					kind = m.pending
				}
				return !x.Fail("secretconn-accepts-tampered-frame:"+kind, "%s: lane %d was edited (%s) so that only %d plaintext bytes precede the first altered frame, but the reader was handed %d bytes (err=%v)", where, d, kind, legit, end, err)
			}
			if end > len(m.exp) || !bytes.Equal(buf[:n], m.exp[len(m.got):end]) {
				return !x.Fail("secretconn-stream-differs", "%s: lane %d: Read(buf %d) returned %d bytes that are not bytes [%d,%d) of the %d written (tampered=%v)", where, d, bufSize, n, len(m.got), end, len(m.exp), tampered)
			}
			m.got = append(m.got, buf[:n]...)
			if !boundaries[d][len(m.got)] {
				m.smallRead = true
			}
		}
		if n == 0 && err == nil {
			if len(m.got) < len(m.exp) && buf[0] == m.exp[len(m.got)] {
				k := 0
				for k < len(buf) && len(m.got)+k < len(m.exp) && buf[k] == m.exp[len(m.got)+k] {
					k++
				}
				if x.Fail(sigReadDrops, "%s: lane %d: Read(buf %d) copied the next %d stream bytes (offset %d of %d written) into the buffer but returned n=0, err=nil; the bytes are gone from the connection, so the receiver loses them", where, d, bufSize, k, len(m.got), len(m.exp)) {
					return false
				}
				x.Label("known:" + sigReadDrops)
				return false // the stream is damaged from here on; nothing more to learn from this case
			}
			m.zeroRuns++
			if m.zeroRuns > 8 {
				return !x.Fail("secretconn-read-livelock", "%s: lane %d: %d consecutive Read calls returned (0, nil) without delivering or consuming anything (%d of %d bytes delivered)", where, d, m.zeroRuns, len(m.got), len(m.exp))
			}
		}
		if err != nil {
			m.dead, m.err = true, err
			if !tampered && !w.lanes[d].closed {
				return !x.Fail("secretconn-error-on-intact-stream", "%s: lane %d was not edited and is open, Read(buf %d) failed: %v", where, d, bufSize, err)
			}
		}
		return true
	}

	for si, s := range c.Steps {
		d := s.Lane & 1
		m := ms[d]
		where := fmt.Sprintf("step %d", si)
		switch s.Op {
		case "w":
			reps := s.Rep
			if reps < 1 {
				reps = 1
			}
			for r := 0; r < reps; r++ {
				seed := s.Seed
				if !s.Same {
					seed += uint64(r)
				}
				data := expand(seed, s.N)
				before := len(w.lanes[d].sent)
				n, err := scs[d].Write(data)
				if err != nil || n != len(data) {
					if x.Fail("secretconn-write-short", "%s: Write(%d bytes) on open lane %d returned (%d, %v)", where, len(data), d, n, err) {
						return
					}
				}
				m.exp = append(m.exp, data...)
				for rest := len(data); rest > 0; {
					k := rest
					if k > 1024 {
						k = 1024
					}
					m.plens = append(m.plens, k)
					sums[d] += k
					boundaries[d][sums[d]] = true
					rest -= k
				}
				m.afterWrite()
				if got, want := len(w.lanes[d].sent)-before, (len(data)+1023)/1024; got != want {
					// not a property: the bookkeeping maps frames to plaintext by the documented 1024-byte chunking
					if x.Fail("harness-assumption-frame-count", "%s: a write of %d bytes produced %d wire frames, bookkeeping expects %d", where, len(data), got, want) {
						return
					}
				}
			}
		case "r":
			reps := s.Rep
			if reps < 1 {
				reps = 1
			}
			for r := 0; r < reps && !m.dead; r++ {
				if !doRead(d, s.N, where) {
					return
				}
			}
		case "m":
			applied := applyMitm(w, Step{Kind: s.Kind, Lane: d, I: s.I, J: s.J, Bit: s.Bit, Dist: s.Dist})
			m.anValid = false
			if applied && m.kind == "" {
				if _, t := analyse(w, d, m); t {
					m.kind = s.Kind
					m.editDist = s.Dist
				} else if m.pending == "" {
					m.pending = s.Kind
				}
			}
		}
	}

	// end of the connection: close, then read every lane to its end.
	w.closeAll()
	for d := 0; d < 2; d++ {
		m := ms[d]
		m.anValid = false
		budget := len(m.exp) + 2*len(w.lanes[d].inflight) + 64
		for i := 0; !m.dead; i++ {
			if i > budget {
				x.Fail("secretconn-read-livelock", "drain of lane %d: %d Read calls after close without reaching an error or the end (%d of %d bytes delivered)", d, i, len(m.got), len(m.exp))
				return
			}
			if !doRead(d, c.DrainBufs[i%len(c.DrainBufs)], "drain") {
				return
			}
		}
		legit, tampered := analyse(w, d, m)
		if !tampered && !bytes.Equal(m.got, m.exp) {
			if x.Fail("secretconn-bytes-lost", "lane %d was not edited; %d bytes were written, the reader got %d before %v", d, len(m.exp), len(m.got), m.err) {
				return
			}
		}
		if tampered {
			if m.kind == "" {
				m.kind = m.pending // e.g. the last frame in flight was dropped: visible only at the close
			}
			x.Label("tamper:" + m.kind)
			if m.kind == "replayd" || m.kind == "swapd" {
				special := false
				for _, e := range editDistances {
					special = special || e == m.editDist
				}
				if special {
					x.Labelf("edit-distance:%d", m.editDist)
				} else {
					x.Label("edit-distance:other")
				}
			}
			if len(m.got) == legit {
				x.Label("tamper-detected-at-frame")
			} else {
				x.Label("tamper-error-before-frame")
			}
		}
	}
	if !c.SmallReads {
		x.Label("excluded:" + sigReadDrops)
	}
	if ms[0].smallRead || ms[1].smallRead {
		x.Label("read-smaller-than-chunk")
	}
	if c.Long {
		x.Label("long-session")
	}
	if len(ms[0].exp) > 0 && len(ms[1].exp) > 0 {
		x.Label("both-directions")
	}
	if len(ms[0].exp)+len(ms[1].exp) > 1024 {
		x.Label("multi-frame")
	}
	if ms[0].smallRead || ms[1].smallRead || ms[0].kind != "" || ms[1].kind != "" {
		x.NonTrivial()
	}
}

func TestSecretConnStream(t *testing.T) {
	h.Check(t, h.Spec[StreamCase]{Prop: prop, Leg: "secretconn", Gen: genStream, Run: runStream})
}
