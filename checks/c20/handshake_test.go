package c20

import (
	"bytes"
	"crypto/sha256"
	"encoding/binary"
	"fmt"
	"io"
	"testing"

	crypto "github.com/dappledger/AnnChain/gemmill/go-crypto"
	wire "github.com/dappledger/AnnChain/gemmill/go-wire"
	"golang.org/x/crypto/ed25519"
	"golang.org/x/crypto/nacl/box"
	"golang.org/x/crypto/nacl/secretbox"
	"golang.org/x/crypto/ripemd160"
	"pgregory.net/rapid"

	"verif/internal/h"
)

// ---- an independently written peer of the documented protocol (docs: STS with nacl secretbox) ----
//
//  1. exchange 32-byte ephemeral Curve25519 keys in the clear;
//  2. shared = box.Precompute(remoteEph, localEphPriv); lo, hi = sorted ephemeral keys;
//     nonce1 = ripemd160(lo||hi) zero-padded to 24 bytes, nonce2 = nonce1 with the last bit flipped;
//     the side holding `lo` receives with nonce1 and sends with nonce2; challenge = sha256(lo||hi);
//  3. every frame is secretbox(2-byte big-endian length || payload padded to 1024), nonce += 2 per frame;
//  4. each side sends, as two writes, the 4-byte little-endian length and the go-wire encoding of
//     {PubKey, Signature(challenge)} and verifies the other side's.
type refPeer struct {
	conn      io.ReadWriter
	shared    [32]byte
	send      [24]byte
	recv      [24]byte
	challenge [32]byte
	recvBuf   []byte
}

const (
	refChunk  = 1024
	refFrame  = refChunk + 2
	refSealed = refFrame + secretbox.Overhead
)

func incr2(n *[24]byte) {
	for r := 0; r < 2; r++ {
		for i := 23; i >= 0; i-- {
			n[i]++
			if n[i] != 0 {
				break
			}
		}
	}
}

func (p *refPeer) exchange(ephPub, ephPriv *[32]byte) error {
	if _, err := p.conn.Write(ephPub[:]); err != nil {
		return err
	}
	var rem [32]byte
	if _, err := io.ReadFull(p.conn, rem[:]); err != nil {
		return err
	}
	box.Precompute(&p.shared, &rem, ephPriv)
	lo, hi := ephPub[:], rem[:]
	locIsLo := true
	if bytes.Compare(lo, hi) >= 0 {
		lo, hi = hi, lo
		locIsLo = false
	}
	both := append(append([]byte{}, lo...), hi...)
	rh := ripemd160.New()
	rh.Write(both)
	var n1, n2 [24]byte
	copy(n1[:], rh.Sum(nil))
	n2 = n1
	n2[23] ^= 1
	if locIsLo {
		p.recv, p.send = n1, n2
	} else {
		p.recv, p.send = n2, n1
	}
	p.challenge = sha256.Sum256(both)
	return nil
}

func (p *refPeer) writeFrame(chunk []byte) error {
	frame := make([]byte, refFrame)
	binary.BigEndian.PutUint16(frame, uint16(len(chunk)))
	copy(frame[2:], chunk)
	sealed := secretbox.Seal(nil, frame, &p.send, &p.shared)
	incr2(&p.send)
	_, err := p.conn.Write(sealed)
	return err
}

func (p *refPeer) write(data []byte) error {
	for len(data) > 0 {
		k := len(data)
		if k > refChunk {
			k = refChunk
		}
		if err := p.writeFrame(data[:k]); err != nil {
			return err
		}
		data = data[k:]
	}
	return nil
}

func (p *refPeer) readFrame() ([]byte, error) {
	sealed := make([]byte, refSealed)
	if _, err := io.ReadFull(p.conn, sealed); err != nil {
		return nil, err
	}
	frame, ok := secretbox.Open(nil, sealed, &p.recv, &p.shared)
	if !ok {
		return nil, fmt.Errorf("reference peer: frame does not open")
	}
	incr2(&p.recv)
	l := int(binary.BigEndian.Uint16(frame))
	if l > refChunk {
		return nil, fmt.Errorf("reference peer: chunk length %d", l)
	}
	return frame[2 : 2+l], nil
}

func (p *refPeer) readN(n int) ([]byte, error) {
	for len(p.recvBuf) < n {
		ch, err := p.readFrame()
		if err != nil {
			return nil, err
		}
		p.recvBuf = append(p.recvBuf, ch...)
	}
	out := p.recvBuf[:n]
	p.recvBuf = p.recvBuf[n:]
	return out, nil
}

type refAuthMsg struct {
	Key crypto.PubKey
	Sig crypto.Signature
}

// ---- case ----

type HandshakeCase struct {
	Mode string `json:"mode"` // mitm | peer
	// mitm: two real ends; Devs replace delivery items of the three handshake messages of a lane
	Devs []Dev `json:"devs,omitempty"`
	// peer: a real end (key V) against the reference peer announcing key K1
	Sign     string `json:"sign,omitempty"` // own | otherkey | wrongchallenge | garbage
	EphSeed  uint64 `json:"eph_seed,omitempty"`
	ToReal   int    `json:"to_real,omitempty"`   // bytes the reference peer then sends to the real end
	FromReal int    `json:"from_real,omitempty"` // bytes the real end then sends to the reference peer
	ReadBuf  int    `json:"read_buf,omitempty"`
	Seed     uint64 `json:"seed,omitempty"`
}

type Dev struct {
	Lane int    `json:"lane"` // lane whose reader is given something else
	Item int    `json:"item"` // 0 ephemeral key, 1 length frame, 2 signature frame
	Kind string `json:"kind"` // flip | reflect | swap12 | dup
	Byte int    `json:"byte"`
	Bit  int    `json:"bit"`
}

func genHandshake(t *rapid.T) HandshakeCase {
	var c HandshakeCase
	if rapid.IntRange(0, 2).Draw(t, "mode") == 0 {
		c.Mode = "peer"
		c.Sign = rapid.SampledFrom([]string{"own", "own", "otherkey", "otherkey", "wrongchallenge", "garbage"}).Draw(t, "sign")
		c.EphSeed = rapid.Uint64().Draw(t, "ephSeed")
		c.Seed = rapid.Uint64().Draw(t, "seed")
		sz := rapid.OneOf(rapid.SampledFrom([]int{0, 1, 1023, 1024, 1025, 2500}), rapid.IntRange(0, 3000))
		c.ToReal = sz.Draw(t, "toReal")
		c.FromReal = sz.Draw(t, "fromReal")
		c.ReadBuf = rapid.SampledFrom([]int{1024, 1500, 3000}).Draw(t, "readBuf")
		return c
	}
	c.Mode = "mitm"
	n := rapid.SampledFrom([]int{0, 1, 1, 1, 1, 2}).Draw(t, "ndevs")
	for i := 0; i < n; i++ {
		d := Dev{Lane: rapid.IntRange(0, 1).Draw(t, "lane"), Item: rapid.IntRange(0, 2).Draw(t, "item")}
		kinds := []string{"flip", "reflect"}
		if d.Item > 0 {
			kinds = []string{"flip", "flip", "reflect", "swap12", "dup"}
		}
		d.Kind = rapid.SampledFrom(kinds).Draw(t, "kind")
		d.Byte = rapid.IntRange(0, 1041).Draw(t, "byte")
		d.Bit = rapid.IntRange(0, 7).Draw(t, "bit")
		c.Devs = append(c.Devs, d)
	}
	return c
}

func runHandshake(c HandshakeCase, x *h.Ctx) {
	if c.Mode == "peer" {
		runHandshakePeer(c, x)
		return
	}
	kk := [2]crypto.PrivKeyEd25519{key("A"), key("B")}
	w := newDuplex(false)
	for d := 0; d < 2; d++ {
		plan := []planItem{{Lane: d, Idx: 0}, {Lane: d, Idx: 1}, {Lane: d, Idx: 2}}
		for _, dv := range c.Devs {
			if dv.Lane&1 != d {
				continue
			}
			it := dv.Item % 3
			switch dv.Kind {
			case "flip":
				plan[it].Flip, plan[it].Byte, plan[it].Bit = true, dv.Byte, dv.Bit
			case "reflect": // the reader gets back its own message of the same position
				plan[it] = planItem{Lane: 1 - d, Idx: it}
			case "swap12":
				if it > 0 {
					plan[1], plan[2] = plan[2], plan[1]
				}
			case "dup":
				if it > 0 {
					plan[2] = plan[1]
				}
			}
		}
		w.lanes[d].plan = plan
	}
	res, hung := waitHandshakes(w, startHandshake(&endpoint{w, 0}, kk[0]), startHandshake(&endpoint{w, 1}, kk[1]))
	if hung {
		// every delivery item is one of the six handshake messages, which both ends write unconditionally
		// once they have an ephemeral key; an end still waiting cannot be waiting for the wire.
		x.Fail("secretconn-handshake-stalls", "a handshake end did not return within %v although all its input was available", hsWatchdog)
		return
	}
	// what each end was really given, compared with what the other end wrote
	genuine := [2][3]bool{}
	for e := 0; e < 2; e++ { // end e reads lane 1-e
		l := w.lanes[1-e]
		D := append(append([]byte{}, l.consumed...), flat(l.inflight)...)
		off := 0
		for it := 0; it < 3; it++ {
			if it < len(l.sent) {
				s := l.sent[it]
				genuine[e][it] = off+len(s) <= len(D) && bytes.Equal(D[off:off+len(s)], s)
				off += len(s)
			}
		}
	}
	anyDev := false
	for e := 0; e < 2; e++ {
		o := 1 - e
		r := res[e]
		if r.pan != nil {
			if x.Fail("secretconn-handshake-panics", "end %d panicked: %v", e, r.pan) {
				return
			}
			continue
		}
		ok := r.err == nil && r.sc != nil
		mine := genuine[e][0] && genuine[e][1] && genuine[e][2]
		// The other end derives keys and challenge from the ephemeral key it was given: if that was
		// altered, everything it sends is sealed/signed for a different session.
		sameSession := genuine[o][0]
		switch {
		case !mine || !sameSession:
			anyDev = true
			if ok {
				if x.Fail("secretconn-handshake-accepts-altered-messages", "end %d completed the handshake although it was given altered handshake messages (genuine eph/len/sig = %v, other end's view of the ephemeral key genuine = %v); devs=%+v", e, genuine[e], sameSession, c.Devs) {
					return
				}
			}
		default:
			if !ok {
				if x.Fail("secretconn-honest-handshake-fails", "end %d was given exactly what the other end wrote but failed: %v", e, r.err) {
					return
				}
			} else if !r.sc.RemotePubKey().Equals(kk[o].PubKey()) {
				if x.Fail("secretconn-remote-pubkey-wrong", "end %d: RemotePubKey=%v, signer was %v", e, r.sc.RemotePubKey(), kk[o].PubKey()) {
					return
				}
			}
		}
	}
	if anyDev {
		x.Label("mitm:altered")
		for _, d := range c.Devs {
			x.Labelf("mitm:%s@%d", d.Kind, d.Item%3)
		}
		x.NonTrivial()
	} else {
		x.Label("mitm:none-effective")
	}
}

func runHandshakePeer(c HandshakeCase, x *h.Ctx) {
	kV, k1, k2 := key("V"), key("K1"), key("K2")
	w := newDuplex(true)
	real := startHandshake(&endpoint{w, 0}, kV)
	p := &refPeer{conn: &endpoint{w, 1}}
	ephPub, ephPriv, _ := box.GenerateKey(&seedReader{seed: c.EphSeed})
	finish := func() (hsRes, bool) {
		r, hung := waitHandshakes(w, real)
		return r[0], hung
	}
	if err := p.exchange(ephPub, ephPriv); err != nil {
		w.closeAll()
		finish()
		x.Fail("secretconn-handshake-vs-reference", "ephemeral key exchange with the real end failed: %v", err)
		return
	}
	var sig [64]byte
	switch c.Sign {
	case "own":
		copy(sig[:], ed25519.Sign(ed25519.PrivateKey(k1[:]), p.challenge[:]))
	case "otherkey":
		copy(sig[:], ed25519.Sign(ed25519.PrivateKey(k2[:]), p.challenge[:]))
	case "wrongchallenge":
		other := sha256.Sum256(p.challenge[:])
		copy(sig[:], ed25519.Sign(ed25519.PrivateKey(k1[:]), other[:]))
	default:
		copy(sig[:], expand(c.Seed, 64))
	}
	msg := wire.BinaryBytes(refAuthMsg{Key: k1.PubKey(), Sig: crypto.SignatureEd25519(sig)})
	var lenb [4]byte
	binary.LittleEndian.PutUint32(lenb[:], uint32(len(msg)))
	if err := p.write(lenb[:]); err == nil {
		p.write(msg)
	}
	r, hung := finish()
	if hung {
		x.Fail("secretconn-handshake-stalls", "the real end did not return within %v although the reference peer had sent both frames", hsWatchdog)
		return
	}
	// The real end has returned: whatever it sends during the handshake is on the wire now, so the
	// reference peer reads without ever waiting.
	w.setBlocking(false)
	// the real end's own authentication message, checked by the reference peer
	var theirKey crypto.PubKey
	authErr := func() error {
		lb, err := p.readN(4)
		if err != nil {
			return err
		}
		body, err := p.readN(int(binary.LittleEndian.Uint32(lb)))
		if err != nil {
			return err
		}
		var n int
		am := wire.ReadBinary(refAuthMsg{}, bytes.NewReader(body), len(body), &n, &err).(refAuthMsg)
		if err != nil {
			return err
		}
		pk, ok1 := am.Key.(crypto.PubKeyEd25519)
		sg, ok2 := am.Sig.(crypto.SignatureEd25519)
		if !ok1 || !ok2 || !ed25519.Verify(ed25519.PublicKey(pk[:]), p.challenge[:], sg[:]) {
			return fmt.Errorf("signature of the real end does not verify against the reference challenge")
		}
		theirKey = am.Key
		return nil
	}()
	if r.pan != nil {
		x.Fail("secretconn-handshake-panics", "real end panicked: %v", r.pan)
		return
	}
	ok := r.err == nil && r.sc != nil
	x.Label("peer:" + c.Sign)
	if c.Sign != "own" {
		x.NonTrivial()
		if ok {
			x.Fail("secretconn-challenge-signature-not-verified:"+c.Sign, "the peer announced key K1 but the challenge signature was %q; the real end accepted and reports RemotePubKey=%v", c.Sign, r.sc.RemotePubKey())
		}
		return
	}
	if !ok {
		x.Fail("secretconn-handshake-vs-reference", "real end rejected a correct handshake by the reference peer: %v", r.err)
		return
	}
	if authErr != nil || theirKey == nil || !theirKey.Equals(kV.PubKey()) {
		if x.Fail("secretconn-handshake-vs-reference", "authentication message of the real end, as seen by the reference peer: err=%v key=%v want %v", authErr, theirKey, kV.PubKey()) {
			return
		}
	}
	if !r.sc.RemotePubKey().Equals(k1.PubKey()) {
		if x.Fail("secretconn-remote-pubkey-wrong", "RemotePubKey=%v, the key that signed the challenge is %v", r.sc.RemotePubKey(), k1.PubKey()) {
			return
		}
	}
	// data both ways against the independent framing
	toReal, fromReal := expand(c.Seed, c.ToReal), expand(c.Seed+1, c.FromReal)
	if err := p.write(toReal); err != nil {
		x.Fail("harness", "reference write: %v", err)
		return
	}
	var got []byte
	buf := make([]byte, c.ReadBuf)
	for i := 0; len(got) < len(toReal); i++ {
		n, err, pan := safeRead(r.sc, buf)
		if pan != nil || err != nil || i > len(toReal)+8 {
			x.Fail("secretconn-framing-vs-reference", "real end reading %d bytes framed by the reference peer: after %d bytes err=%v panic=%v calls=%d", len(toReal), len(got), err, pan, i)
			return
		}
		got = append(got, buf[:n]...)
	}
	if !bytes.Equal(got, toReal) {
		x.Fail("secretconn-framing-vs-reference", "real end read %d bytes that differ from the %d the reference peer framed", len(got), len(toReal))
		return
	}
	if n, err := r.sc.Write(fromReal); err != nil || n != len(fromReal) {
		x.Fail("secretconn-write-short", "Write(%d) = (%d, %v)", len(fromReal), n, err)
		return
	}
	back, err := p.readN(len(fromReal))
	if err != nil || !bytes.Equal(back, fromReal) {
		x.Fail("secretconn-framing-vs-reference", "reference peer reading %d bytes framed by the real end: err=%v, equal=%v", len(fromReal), err, bytes.Equal(back, fromReal))
		return
	}
	if c.ToReal > 1024 || c.FromReal > 1024 {
		x.Label("peer:multi-frame-data")
		x.NonTrivial()
	}
}

func TestSecretConnHandshake(t *testing.T) {
	h.Check(t, h.Spec[HandshakeCase]{Prop: prop, Leg: "handshake", Gen: genHandshake, Run: runHandshake})
}
