package c20

import (
	"encoding/hex"
	"fmt"
	"net"
	"strings"
	"testing"
	"time"

	"github.com/dappledger/AnnChain/gemmill"
	crypto "github.com/dappledger/AnnChain/gemmill/go-crypto"
	"github.com/dappledger/AnnChain/gemmill/p2p"
	"github.com/dappledger/AnnChain/gemmill/refuse_list"
	"github.com/dappledger/AnnChain/gemmill/types"
	"github.com/spf13/viper"
	"golang.org/x/crypto/ed25519"
	"pgregory.net/rapid"

	"verif/internal/h"
)

// Root-cause signatures of the two admission findings (see known_findings.d/C20.json).
const (
	// authByCA reads *ppValidators once, when the closure is built at start-up, although the state
	// replaces its validator-set object at every block.
	sigStaleValset = "ca-check-uses-startup-validator-set"
	// the bypass condition of authByCA is the negation of its own comment ("validator node must be
	// signed by CA but normal node can bypass auth check if config says so").
	sigValidatorBypass = "ca-check-skipped-for-validator-key"
)

const poolSize = 8

func poolKey(i int) crypto.PrivKeyEd25519 { return key(fmt.Sprintf("p%d", i)) }

func pubBytes(k crypto.PrivKeyEd25519) []byte {
	pk := k.PubKey().(crypto.PubKeyEd25519)
	return pk[:]
}

type ValSpec struct {
	Key int  `json:"key"`
	CA  bool `json:"ca"`
}

type Attempt struct {
	After    bool   `json:"after"`    // made after the validator-set change
	Key      int    `json:"key"`      // key that signs the connection handshake
	Announce int    `json:"announce"` // key announced in NodeInfo
	Signer   int    `json:"signer"`   // -1: SigndPubKey empty
	Over     int    `json:"over"`     // key whose public key the signer signed
	Mangle   string `json:"mangle,omitempty"`
	Dial     bool   `json:"dial,omitempty"` // the node under test is the dialling side (outbound connection)
}

type AdmCase struct {
	AuthByCA  bool      `json:"auth_by_ca"`
	NVNA      bool      `json:"non_validator_node_auth"`
	StartVals []ValSpec `json:"start_vals"` // validator set when the node assembled its state machine
	CurVals   []ValSpec `json:"cur_vals"`   // validator set after the change (== StartVals when Changed is false)
	Changed   bool      `json:"changed"`
	Refuse    []int     `json:"refuse"`
	Attempts  []Attempt `json:"attempts"`
}

func genVals(t *rapid.T) []ValSpec {
	n := rapid.IntRange(1, 4).Draw(t, "nvals")
	perm := rapid.Permutation([]int{0, 1, 2, 3, 4, 5, 6, 7}).Draw(t, "valKeys")
	var out []ValSpec
	for i := 0; i < n; i++ {
		out = append(out, ValSpec{Key: perm[i], CA: rapid.IntRange(0, 2).Draw(t, "isCA") > 0})
	}
	return out
}

func genAdm(t *rapid.T) AdmCase {
	var c AdmCase
	c.AuthByCA = rapid.IntRange(0, 4).Draw(t, "authByCA") > 0
	c.NVNA = rapid.Bool().Draw(t, "nvna")
	c.StartVals = genVals(t)
	c.CurVals = append([]ValSpec{}, c.StartVals...)
	c.Changed = rapid.Bool().Draw(t, "changed")
	if c.Changed {
		nops := rapid.IntRange(1, 2).Draw(t, "nops")
		for i := 0; i < nops; i++ {
			switch rapid.SampledFrom([]string{"remove", "add", "toggle"}).Draw(t, "valop") {
			case "remove":
				if len(c.CurVals) > 1 {
					at := rapid.IntRange(0, len(c.CurVals)-1).Draw(t, "at")
					c.CurVals = append(c.CurVals[:at:at], c.CurVals[at+1:]...)
				}
			case "add":
				k := rapid.IntRange(0, poolSize-1).Draw(t, "addKey")
				dup := false
				for _, v := range c.CurVals {
					dup = dup || v.Key == k
				}
				if !dup {
					c.CurVals = append(c.CurVals, ValSpec{Key: k, CA: rapid.Bool().Draw(t, "addCA")})
				}
			case "toggle":
				at := rapid.IntRange(0, len(c.CurVals)-1).Draw(t, "at")
				c.CurVals[at].CA = !c.CurVals[at].CA
			}
		}
	}
	nr := rapid.SampledFrom([]int{0, 0, 1, 2}).Draw(t, "nrefuse")
	for i := 0; i < nr; i++ {
		c.Refuse = append(c.Refuse, rapid.IntRange(0, poolSize-1).Draw(t, "refuse"))
	}
	na := rapid.IntRange(1, 2).Draw(t, "nattempts")
	for i := 0; i < na; i++ {
		var a Attempt
		a.After = c.Changed && (i > 0 || rapid.Bool().Draw(t, "after"))
		switch rapid.IntRange(0, 5).Draw(t, "who") {
		case 0:
			a.Key = c.StartVals[0].Key
		case 1:
			a.Key = c.CurVals[len(c.CurVals)-1].Key
		case 2:
			if len(c.Refuse) > 0 {
				a.Key = c.Refuse[0]
				break
			}
			fallthrough
		default:
			a.Key = rapid.IntRange(0, poolSize-1).Draw(t, "peerKey")
		}
		a.Announce = a.Key
		if rapid.IntRange(0, 6).Draw(t, "mismatch") == 0 {
			a.Announce = rapid.IntRange(0, poolSize-1).Draw(t, "announce")
		}
		// signer: nobody, an authority of either set, any validator, anybody
		cands := []int{-1}
		for _, v := range c.StartVals {
			cands = append(cands, v.Key)
			if v.CA {
				cands = append(cands, v.Key, v.Key)
			}
		}
		for _, v := range c.CurVals {
			cands = append(cands, v.Key)
			if v.CA {
				cands = append(cands, v.Key, v.Key)
			}
		}
		for _, v := range c.StartVals { // former authorities: CA at start-up, not CA any more
			still := false
			for _, w := range c.CurVals {
				still = still || (w.Key == v.Key && w.CA)
			}
			if v.CA && !still {
				cands = append(cands, v.Key, v.Key, v.Key, v.Key)
			}
		}
		cands = append(cands, rapid.IntRange(0, poolSize-1).Draw(t, "anySigner"))
		a.Signer = rapid.SampledFrom(cands).Draw(t, "signer")
		a.Over = a.Announce
		if rapid.IntRange(0, 7).Draw(t, "overOther") == 0 {
			a.Over = rapid.IntRange(0, poolSize-1).Draw(t, "over")
		}
		a.Mangle = rapid.SampledFrom([]string{"", "", "", "", "", "lower", "flip", "badhex", "odd", "short", "long"}).Draw(t, "mangle")
		a.Dial = rapid.IntRange(0, 2).Draw(t, "dial") == 0
		c.Attempts = append(c.Attempts, a)
	}
	return c
}

func sigString(a Attempt) string {
	if a.Signer < 0 {
		return ""
	}
	sk := poolKey(a.Signer)
	sig := ed25519.Sign(ed25519.PrivateKey(sk[:]), pubBytes(poolKey(a.Over)))
	s := strings.ToUpper(hex.EncodeToString(sig))
	switch a.Mangle {
	case "lower":
		s = strings.ToLower(s)
	case "flip":
		sig[7] ^= 0x10
		s = strings.ToUpper(hex.EncodeToString(sig))
	case "badhex":
		s = s[:10] + "ZZ" + s[12:]
	case "odd":
		s = s[:len(s)-1]
	case "short":
		s = s[:40]
	case "long":
		s = s + "00FF"
	}
	return s
}

// refSigValid: the announced credential is a hex string of an ed25519 signature (64 bytes; shorter
// input is zero-padded, bytes beyond 64 are ignored, as the 64-byte field of the format implies)
// by `signer` over the raw public key of the announced identity.
func refSigValid(signer crypto.PrivKeyEd25519, announced crypto.PrivKeyEd25519, s string) bool {
	b, err := hex.DecodeString(s)
	if err != nil {
		return false
	}
	var sig [64]byte
	copy(sig[:], b)
	return ed25519.Verify(ed25519.PublicKey(pubBytes(signer)), pubBytes(announced), sig[:])
}

type refVerdict struct {
	admit                          bool
	refused, mismatch, dup, caFail bool
}

// refAdmit is the admission predicate written from the property text:
// never admitted if the (handshake) key is on the refuse list, or differs from the announced
// identity, or - when CA admission applies to the peer - it lacks a valid signature by an authority
// (validator with the CA flag) of the given validator set. CA admission is switched on by
// auth_by_ca; per the documented rule ("validator node must be signed by CA but normal node can
// bypass auth check if config says so") it applies to validators always and to other nodes when
// non_validator_node_auth is set. rule "code" is the condition as written in authByCA, used only to
// name the root cause of a disagreement.
func refAdmit(c AdmCase, a Attempt, vals []ValSpec, rule string, admitted map[int]bool) refVerdict {
	var v refVerdict
	for _, k := range c.Refuse {
		v.refused = v.refused || k == a.Key
	}
	v.mismatch = a.Announce != a.Key
	v.dup = admitted[a.Key]
	isVal := false
	for _, vs := range vals {
		isVal = isVal || vs.Key == a.Announce
	}
	applies := c.AuthByCA && (isVal || c.NVNA)
	// rule "code" used to model the inverted bypass condition of authByCA (finding
	// ca-check-skipped-for-validator-key, fixed by /repo 7f85b3e); since the fix the code's rule is the
	// documented one, so attribution no longer distinguishes them.
	_ = rule
	if applies {
		ok := false
		s := sigString(a)
		for _, vs := range vals {
			if vs.CA && refSigValid(poolKey(vs.Key), poolKey(a.Announce), s) {
				ok = true
			}
		}
		v.caFail = !ok
	}
	v.admit = !v.refused && !v.mismatch && !v.dup && !v.caFail
	return v
}

func makeValSet(vs []ValSpec) *types.ValidatorSet {
	var vals []*types.Validator
	for _, v := range vs {
		vals = append(vals, types.NewValidator(poolKey(v.Key).PubKey(), 10, v.CA))
	}
	return types.NewValidatorSet(vals)
}

type addRes struct {
	peer *p2p.Peer
	err  error
	pan  interface{}
}

func addPeer(sw *p2p.Switch, conn net.Conn, outbound bool) chan addRes {
	out := make(chan addRes, 1)
	go func() {
		var r addRes
		defer func() {
			if p := recover(); p != nil {
				r.pan = p
			}
			out <- r
		}()
		r.peer, r.err = sw.AddPeerWithConnection(conn, outbound)
	}()
	return out
}

func runAdm(c AdmCase, x *h.Ctx) {
	if len(c.StartVals) == 0 || len(c.CurVals) == 0 {
		return
	}
	node := key("node")
	conf := viper.New()
	conf.Set("non_validator_node_auth", c.NVNA)
	conf.Set("auth_by_ca", c.AuthByCA)
	conf.Set("handshake_timeout_seconds", 60)
	sw := p2p.NewSwitch(conf)
	sw.SetNodeInfo(&p2p.NodeInfo{PubKey: node.PubKey(), Moniker: "node", Network: "c20", Version: "0.1.0", ListenAddr: "10.0.0.1:46656"})
	sw.SetNodePrivKey(node)
	rl := refuse_list.NewRefuseList("memdb", "")
	defer rl.Stop()
	for _, k := range c.Refuse {
		rl.AddRefuseKey(poolKey(k).PubKey().Bytes()) // the form the admin plugin stores
	}
	sw.SetRefuseListFilter(gemmill.VerifRefuseListFilter(rl))
	// the node's state: a *ValidatorSet field that is replaced by a new object when the set changes
	// (state.SetBlockAndValidators); authByCA is given its address at start-up, as assembleStateMachine does.
	validators := makeValSet(c.StartVals)
	if c.AuthByCA {
		sw.SetAuthByCA(gemmill.VerifAuthByCA(conf, &validators))
	}
	changed := false
	admitted := map[int]bool{}
	deciders := 0
	for ai, a := range c.Attempts {
		vals := c.StartVals
		if a.After && c.Changed {
			if !changed {
				validators = makeValSet(c.CurVals)
				changed = true
			}
		}
		if changed {
			vals = c.CurVals
		}
		pk := poolKey(a.Key)
		pconf := viper.New()
		pconf.Set("handshake_timeout_seconds", 60)
		psw := p2p.NewSwitch(pconf)
		psw.SetNodePrivKey(pk)
		psw.SetNodeInfo(&p2p.NodeInfo{PubKey: poolKey(a.Announce).PubKey(), SigndPubKey: sigString(a), Moniker: "peer", Network: "c20", Version: "0.1.0", ListenAddr: fmt.Sprintf("10.0.1.%d:46656", ai+2)})
		c1, c2 := pipePair()
		// who dialled does not matter for admission: seeds and address-book entries are dialled by
		// the node itself and go through the same handshake and filters
		chNode, chPeer := addPeer(sw, c1, a.Dial), addPeer(psw, c2, !a.Dial)
		if a.Dial {
			x.Label("node-is-the-dialling-side")
		}
		var rn addRes
		timer := time.NewTimer(180 * time.Second)
		select {
		case rn = <-chNode:
		case <-timer.C:
			// both ends run under a 60 s handshake deadline set by AddPeerWithConnection itself
			c1.Close()
			c2.Close()
			x.Fail("admission-attempt-does-not-return", "attempt %d: AddPeerWithConnection did not return within 180 s (handshake deadline 60 s)", ai)
			return
		}
		select {
		case <-chPeer:
		case <-timer.C:
			c1.Close()
			c2.Close()
			<-chPeer
		}
		timer.Stop()
		c1.Close()
		c2.Close()
		if rn.pan != nil {
			x.Fail("admission-panics", "attempt %d %+v: AddPeerWithConnection panicked: %v", ai, a, rn.pan)
			return
		}
		got := rn.err == nil && rn.peer != nil
		if (rn.err == nil) != (rn.peer != nil) {
			if x.Fail("admission-result-inconsistent", "attempt %d: AddPeerWithConnection returned peer=%v err=%v", ai, rn.peer, rn.err) {
				return
			}
		}
		want := refAdmit(c, a, vals, "doc", admitted)
		desc := fmt.Sprintf("attempt %d %+v (auth_by_ca=%v non_validator_node_auth=%v refuse=%v start=%v current=%v changed=%v): admitted=%v err=%v; reference: admit=%v refused=%v mismatch=%v duplicate=%v ca-missing=%v", ai, a, c.AuthByCA, c.NVNA, c.Refuse, c.StartVals, vals, changed, got, rn.err, want.admit, want.refused, want.mismatch, want.dup, want.caFail)
		if got != want.admit {
			e1 := refAdmit(c, a, vals, "code", admitted).admit == got
			e2 := refAdmit(c, a, c.StartVals, "doc", admitted).admit == got
			e3 := refAdmit(c, a, c.StartVals, "code", admitted).admit == got
			var causes []string
			switch {
			case want.refused && got:
				if x.Fail("admitted-key-on-refuse-list", "%s", desc) {
					return
				}
			case want.mismatch && got:
				if x.Fail("admitted-announced-key-differs-from-handshake-key", "%s", desc) {
					return
				}
			case e1:
				// the decision matches the documented rule applied to the current set under the (now
				// identical) code rule: cannot happen when got != want; kept for the regression replay
				causes = []string{sigValidatorBypass}
			case e2, e3:
				causes = []string{sigStaleValset}
			case got:
				if x.Fail("admitted-without-valid-ca-signature", "%s", desc) {
					return
				}
			default:
				if x.Fail("eligible-peer-rejected", "%s", desc) {
					return
				}
			}
			for _, cause := range causes {
				if got {
					// a peer the property says is never admitted was admitted
					if x.Fail(cause, "%s", desc) {
						return
					}
				} else {
					// the other direction (an eligible peer turned away for the same root cause) is not
					// what the property forbids; counted, not failed.
					x.Label("over-rejection:" + cause)
				}
			}
		}
		// Switch.Peers() must agree with the decision
		ks := pk.PubKey().KeyString()
		has := sw.Peers().Has(ks)
		if has != (got || admitted[a.Key]) {
			if x.Fail("peer-set-disagrees-with-decision", "%s; Peers().Has(handshake key)=%v", desc, has) {
				return
			}
		}
		if got {
			admitted[a.Key] = true
			x.Label("admitted")
		} else {
			x.Label("rejected")
		}
		if sw.Peers().Size() != len(admitted) {
			if x.Fail("peer-set-disagrees-with-decision", "%s; Peers().Size()=%d, admitted so far %d", desc, sw.Peers().Size(), len(admitted)) {
				return
			}
		}
		n := 0
		for _, b := range []bool{want.refused, want.mismatch, want.caFail, want.dup} {
			if b {
				n++
			}
		}
		if n == 1 {
			deciders++
			switch {
			case want.refused:
				x.Label("decided-by:refuse-list")
			case want.mismatch:
				x.Label("decided-by:identity-mismatch")
			case want.caFail:
				x.Label("decided-by:ca:" + caClass(c, a, vals))
			case want.dup:
				x.Label("decided-by:duplicate")
			}
		}
		if want.admit && c.AuthByCA {
			x.Label("admitted-under-ca")
		}
	}
	if c.Changed && changed {
		x.Label("validator-set-changed")
	}
	if deciders > 0 {
		x.NonTrivial()
	}
}

// caClass names why the CA rule turned the peer down (label only).
func caClass(c AdmCase, a Attempt, vals []ValSpec) string {
	if a.Signer < 0 {
		return "no-signature"
	}
	if a.Mangle != "" && a.Mangle != "lower" && a.Mangle != "long" {
		return "malformed-or-altered"
	}
	if a.Over != a.Announce {
		return "signature-for-another-key"
	}
	for _, v := range vals {
		if v.Key == a.Signer {
			if v.CA {
				return "other"
			}
			return "signer-validator-not-ca"
		}
	}
	for _, v := range c.StartVals {
		if v.Key == a.Signer && v.CA {
			return "signer-former-authority"
		}
	}
	return "signer-foreign"
}

func TestAdmission(t *testing.T) {
	h.Check(t, h.Spec[AdmCase]{Prop: prop, Leg: "admission", Gen: genAdm, Run: runAdm})
}
