package c20

import (
	"bytes"
	"encoding/binary"
	"fmt"
	"net"
	"sync"
	"testing"
	"time"

	"github.com/dappledger/AnnChain/gemmill/p2p"
	"github.com/spf13/viper"
	"pgregory.net/rapid"

	"verif/internal/h"
)

// MConnection flushes its write buffer through a 100 ms throttle timer, so one case costs about
// 0.1 s of wall time however little it sends; the case counts of this leg are sized for that.

const mconnStall = 60 * time.Second // no receive / error / sender progress at all for this long

type addrConn struct {
	net.Conn
	l, r net.Addr
}

func (c addrConn) LocalAddr() net.Addr  { return c.l }
func (c addrConn) RemoteAddr() net.Addr { return c.r }

func pipePair() (net.Conn, net.Conn) {
	a, b := net.Pipe()
	aa := &net.TCPAddr{IP: net.IPv4(127, 0, 0, 1), Port: 46001}
	ba := &net.TCPAddr{IP: net.IPv4(127, 0, 0, 2), Port: 46002}
	return addrConn{a, aa, ba}, addrConn{b, ba, aa}
}

// go-wire encoding of a byte slice, written from its documentation: a varint (one size byte, then
// that many big-endian bytes; 0 is the single byte 0x00) followed by the bytes.
func refByteSlice(b []byte) []byte {
	l := uint64(len(b))
	var tmp [8]byte
	binary.BigEndian.PutUint64(tmp[:], l)
	size := 0
	for v := l; v > 0; v >>= 8 {
		size++
	}
	out := []byte{byte(size)}
	out = append(out, tmp[8-size:]...)
	return append(out, b...)
}

func wireLen(n int) int {
	switch {
	case n == 0:
		return 1
	case n < 256:
		return n + 2
	case n < 65536:
		return n + 3
	}
	return n + 4
}

// payloadFor returns the largest payload length whose wire length is <= w (w >= 1).
func payloadFor(w int) int {
	n := 0
	for _, c := range []int{w - 2, w - 3, w - 4} {
		if c > n && wireLen(c) <= w {
			n = c
		}
	}
	return n
}

type ChanSpec struct {
	ID       byte `json:"id"`
	Priority int  `json:"priority"`
	QueueCap int  `json:"queue_cap"`
	RecvCap  int  `json:"recv_cap"` // RecvMessageCapacity (wire bytes of one message)
}

type MsgSpec struct {
	Len  int    `json:"len"`
	Seed uint64 `json:"seed"`
}

type MConnCase struct {
	Chans []ChanSpec     `json:"chans"`
	Msgs  [2][][]MsgSpec `json:"msgs"` // [sending side][channel index] -> messages in sending order
}

func genMConn(t *rapid.T) MConnCase {
	var c MConnCase
	nch := rapid.IntRange(1, 3).Draw(t, "nch")
	for i := 0; i < nch; i++ {
		c.Chans = append(c.Chans, ChanSpec{
			ID:       []byte{0x20, 0x21, 0x30}[i],
			Priority: rapid.IntRange(1, 5).Draw(t, "prio"),
			QueueCap: rapid.IntRange(1, 3).Draw(t, "qcap"),
			// (the receive buffer starts at 4096 bytes and grows: messages beyond that matter too)
			RecvCap: rapid.OneOf(rapid.SampledFrom([]int{1, 3, 10, 100, 1023, 1024, 1025, 1027, 2048, 2051, 3000}), rapid.IntRange(1, 4000), rapid.SampledFrom([]int{4095, 4096, 4097, 5000, 8192, 9000, 12000})).Draw(t, "cap"),
		})
	}
	bidir := rapid.Bool().Draw(t, "bidir")
	for s := 0; s < 2; s++ {
		c.Msgs[s] = make([][]MsgSpec, nch)
		if s == 1 && !bidir {
			continue
		}
		for i := 0; i < nch; i++ {
			cp := c.Chans[i].RecvCap
			n := rapid.IntRange(0, 5).Draw(t, "nmsgs")
			for k := 0; k < n; k++ {
				w := rapid.OneOf(rapid.SampledFrom([]int{1, cp, cp, cp - 1, cp - 2, 1024, 1027, 1028, 2051}), rapid.IntRange(1, cp)).Draw(t, "wireLen")
				if w > cp {
					w = cp
				}
				if w < 1 {
					w = 1
				}
				c.Msgs[s][i] = append(c.Msgs[s][i], MsgSpec{Len: payloadFor(w), Seed: rapid.Uint64().Draw(t, "seed")})
			}
		}
	}
	if rapid.IntRange(0, 3).Draw(t, "oversize") == 0 {
		s := 0
		if bidir {
			s = rapid.IntRange(0, 1).Draw(t, "overSide")
		}
		i := rapid.IntRange(0, nch-1).Draw(t, "overChan")
		cp := c.Chans[i].RecvCap
		n := payloadFor(cp) + 1
		for wireLen(n) <= cp {
			n++
		}
		n += rapid.SampledFrom([]int{0, 0, 1, 1024}).Draw(t, "overBy")
		at := rapid.IntRange(0, len(c.Msgs[s][i])).Draw(t, "overAt")
		m := MsgSpec{Len: n, Seed: rapid.Uint64().Draw(t, "seed")}
		l := c.Msgs[s][i]
		c.Msgs[s][i] = append(l[:at:at], append([]MsgSpec{m}, l[at:]...)...)
	}
	return c
}

type mconnState struct {
	mu       sync.Mutex
	done     bool
	next     [2][]int // [receiving side][channel] -> messages delivered so far
	accepted [2][]int // [sending side][channel] -> Send calls that returned true
	finished [2][]bool
	errs     [2]interface{}
	failSig  string
	failMsg  string
	progress chan struct{}
}

func (st *mconnState) fail(sig, f string, a ...interface{}) {
	if st.failSig == "" {
		st.failSig, st.failMsg = sig, fmt.Sprintf(f, a...)
	}
}

func (st *mconnState) tick() {
	select {
	case st.progress <- struct{}{}:
	default:
	}
}

func runMConn(c MConnCase, x *h.Ctx) {
	nch := len(c.Chans)
	if nch == 0 {
		return
	}
	conf := viper.New()
	conf.Set("send_rate", 5120000) // the Switch defaults
	conf.Set("recv_rate", 5120000)
	descs := func() []*p2p.ChannelDescriptor {
		var out []*p2p.ChannelDescriptor
		for _, ch := range c.Chans {
			out = append(out, &p2p.ChannelDescriptor{ID: ch.ID, Priority: ch.Priority, SendQueueCapacity: ch.QueueCap, RecvMessageCapacity: ch.RecvCap})
		}
		return out
	}
	chanIdx := map[byte]int{}
	for i, ch := range c.Chans {
		chanIdx[ch.ID] = i
	}
	// expected wire form of every message, and which of them exceed the receive capacity
	var wires [2][][][]byte
	var payloads [2][][][]byte
	overSide := -1
	total, multiPacket, atCap := 0, false, false
	for s := 0; s < 2; s++ {
		wires[s] = make([][][]byte, nch)
		payloads[s] = make([][][]byte, nch)
		for i := 0; i < nch && i < len(c.Msgs[s]); i++ {
			for _, m := range c.Msgs[s][i] {
				p := expand(m.Seed, m.Len)
				wb := refByteSlice(p)
				payloads[s][i] = append(payloads[s][i], p)
				wires[s][i] = append(wires[s][i], wb)
				total++
				if len(wb) > c.Chans[i].RecvCap {
					overSide = s
				} else {
					multiPacket = multiPacket || len(wb) > 1024
					atCap = atCap || len(wb) == c.Chans[i].RecvCap
				}
			}
		}
	}
	st := &mconnState{progress: make(chan struct{}, 1)}
	for s := 0; s < 2; s++ {
		st.next[s] = make([]int, nch)
		st.accepted[s] = make([]int, nch)
		st.finished[s] = make([]bool, nch)
	}
	onReceive := func(r int) func(byte, []byte) {
		return func(chID byte, msg []byte) {
			st.mu.Lock()
			defer st.mu.Unlock()
			if st.done {
				return
			}
			defer st.tick()
			i, ok := chanIdx[chID]
			if !ok {
				st.fail("mconn-message-on-unknown-channel", "side %d received a message on channel %X", r, chID)
				return
			}
			list := wires[1-r][i]
			k := st.next[r][i]
			st.next[r][i]++
			switch {
			case k >= len(list):
				st.fail("mconn-unsent-message-delivered", "side %d channel %X: message #%d (%d bytes) delivered, only %d were sent", r, chID, k, len(msg), len(list))
			case len(list[k]) > c.Chans[i].RecvCap && bytes.Equal(msg, list[k]):
				st.fail("mconn-oversize-message-delivered", "side %d channel %X: message #%d of %d wire bytes was delivered although the channel's receive capacity is %d", r, chID, k, len(list[k]), c.Chans[i].RecvCap)
			case !bytes.Equal(msg, list[k]):
				for j := range list {
					if j != k && bytes.Equal(msg, list[j]) {
						st.fail("mconn-channel-order-broken", "side %d channel %X: delivery #%d is sent message #%d", r, chID, k, j)
						return
					}
				}
				st.fail("mconn-message-altered", "side %d channel %X: delivery #%d has %d bytes and differs from sent message #%d (%d wire bytes, capacity %d)", r, chID, k, len(msg), k, len(list[k]), c.Chans[i].RecvCap)
			}
		}
	}
	onError := func(r int) func(interface{}) {
		return func(e interface{}) {
			st.mu.Lock()
			defer st.mu.Unlock()
			if st.errs[r] == nil {
				st.errs[r] = e
			}
			st.tick()
		}
	}
	ca, cb := pipePair()
	mcs := [2]*p2p.MConnection{
		p2p.NewMConnection(conf, ca, descs(), onReceive(0), onError(0)),
		p2p.NewMConnection(conf, cb, descs(), onReceive(1), onError(1)),
	}
	mcs[0].Start()
	mcs[1].Start()
	defer func() {
		st.mu.Lock()
		st.done = true
		st.mu.Unlock()
		mcs[0].Stop()
		mcs[1].Stop()
	}()
	for s := 0; s < 2; s++ {
		for i := 0; i < nch; i++ {
			go func(s, i int) {
				for _, p := range payloads[s][i] {
					ok := mcs[s].Send(c.Chans[i].ID, p)
					st.mu.Lock()
					if ok {
						st.accepted[s][i]++
					}
					st.tick()
					st.mu.Unlock()
					if !ok {
						break
					}
				}
				st.mu.Lock()
				st.finished[s][i] = true
				st.tick()
				st.mu.Unlock()
			}(s, i)
		}
	}
	complete := func() bool {
		st.mu.Lock()
		defer st.mu.Unlock()
		if st.failSig != "" {
			return true
		}
		if overSide >= 0 {
			return st.errs[1-overSide] != nil
		}
		if st.errs[0] != nil || st.errs[1] != nil {
			return true
		}
		for s := 0; s < 2; s++ {
			for i := 0; i < nch; i++ {
				if !st.finished[s][i] || st.next[1-s][i] < st.accepted[s][i] {
					return false
				}
			}
		}
		return true
	}
	timer := time.NewTimer(mconnStall)
	defer timer.Stop()
	stalled := false
	for !complete() && !stalled {
		select {
		case <-st.progress:
			if !timer.Stop() {
				select {
				case <-timer.C:
				default:
				}
			}
			timer.Reset(mconnStall)
		case <-timer.C:
			stalled = true
		}
	}
	st.mu.Lock()
	st.done = true
	failSig, failMsg := st.failSig, st.failMsg
	errs := st.errs
	next, accepted := st.next, st.accepted
	st.mu.Unlock()

	if failSig != "" {
		if x.Fail(failSig, "%s", failMsg) {
			return
		}
	}
	delivered := 0
	for s := 0; s < 2; s++ {
		for i := 0; i < nch; i++ {
			delivered += next[s][i]
		}
	}
	if overSide >= 0 {
		x.Label("oversize")
		if stalled {
			x.Fail("mconn-oversize-not-refused", "a message above the receive capacity was sent from side %d; for %v the receiving side neither reported an error nor made progress (delivered=%v accepted=%v)", overSide, mconnStall, next, accepted)
			return
		}
		x.NonTrivial()
		return
	}
	if errs[0] != nil || errs[1] != nil {
		x.Fail("mconn-connection-error-without-cause", "no message exceeded a capacity and the pipe was intact, but a connection reported an error: side0=%v side1=%v", errs[0], errs[1])
		return
	}
	if stalled {
		x.Fail("mconn-accepted-messages-not-delivered", "no progress for %v: accepted per [side][channel]=%v, delivered per [receiving side][channel]=%v", mconnStall, accepted, next)
		return
	}
	refused := false
	for s := 0; s < 2; s++ {
		for i := 0; i < nch; i++ {
			if i < len(payloads[s]) && accepted[s][i] < len(payloads[s][i]) {
				refused = true
			}
		}
	}
	if refused {
		// Send answers false only when the connection is not running or the queue stayed full for 10 s;
		// neither has a cause here.
		x.Fail("mconn-send-refused-without-cause", "Send returned false on a healthy connection: accepted=%v of %d messages", accepted, total)
		return
	}
	x.Labelf("channels:%d", nch)
	if multiPacket {
		x.Label("multi-packet-message")
	}
	if atCap {
		x.Label("message-at-capacity")
	}
	busy := [2]int{}
	for s := 0; s < 2; s++ {
		for i := 0; i < nch; i++ {
			if len(payloads[s][i]) > 0 {
				busy[s]++
			}
		}
	}
	if busy[0] > 0 && busy[1] > 0 {
		x.Label("bidirectional")
	}
	if busy[0] > 1 || busy[1] > 1 {
		x.Label("concurrent-channels")
	}
	if delivered > 0 && (multiPacket || busy[0] > 1 || busy[1] > 1 || atCap) {
		x.NonTrivial()
	}
}

func TestMConnection(t *testing.T) {
	h.Check(t, h.Spec[MConnCase]{Prop: prop, Leg: "mconn", Gen: genMConn, Run: runMConn})
}
