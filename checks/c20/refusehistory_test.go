package c20

// Leg "refusehistory": the refuse list as a stateful object.
//
// The admission leg judges single configurations (the refuse list is filled before the first
// attempt). Here the node lives through a HISTORY: admission attempts, refuse-list additions and
// removals (the way the admin plugin applies them at the end of a block, and by the RefuseList
// methods directly), listings and restarts (leveldb closed and opened again, new Switch, new
// closures) in generated order over a handful of keys. The model is a set of keys.
//
// The objects are the ones a node uses: refuse_list.NewRefuseList over a leveldb directory, the
// refuseListFilter closure (export shim) installed with Switch.SetRefuseListFilter as prepareP2P
// does, Switch.FilterConnByRefuselist / Switch.AddPeerWithConnection as the admission path,
// plugin.AdminOp.EndBlock as the writer.

import (
	"encoding/hex"
	"fmt"
	"net"
	"os"
	"sort"
	"strings"
	"sync"
	"testing"
	"time"

	"github.com/dappledger/AnnChain/gemmill"
	crypto "github.com/dappledger/AnnChain/gemmill/go-crypto"
	"github.com/dappledger/AnnChain/gemmill/p2p"
	"github.com/dappledger/AnnChain/gemmill/plugin"
	"github.com/dappledger/AnnChain/gemmill/refuse_list"
	"github.com/dappledger/AnnChain/gemmill/types"
	"github.com/spf13/viper"
	"pgregory.net/rapid"

	"verif/internal/h"
)

const (
	rlRealKeys = 3 // keys 0..2 have a private key (pool keys 0..2) and can connect
	rlKeys     = 6 // keys 3..5 are public keys only: neighbours of keys 0 and 1
	rlCAKey    = 7 // pool key of the authority (validator with the CA flag, never a peer)
)

// rlPub: key 3 = key 0 with the last byte changed, key 4 = key 0 with the first byte changed,
// key 5 = key 1 with a middle byte changed (lookups must compare whole keys).
func rlPub(i int) crypto.PubKeyEd25519 {
	rlPubOnce.Do(func() {
		for j := range rlPubs {
			rlPubs[j] = rlMakePub(j)
		}
	})
	return rlPubs[i]
}

var (
	rlPubOnce  sync.Once
	rlPubs     [rlKeys]crypto.PubKeyEd25519
	rlPrivs    [poolSize]crypto.PrivKeyEd25519
	rlPrivOnce sync.Once
)

// rlPriv: pool key i (derived once; the derivation is a pure function of i).
func rlPriv(i int) crypto.PrivKeyEd25519 {
	rlPrivOnce.Do(func() {
		for j := range rlPrivs {
			rlPrivs[j] = poolKey(j)
		}
	})
	return rlPrivs[i]
}

func rlMakePub(i int) crypto.PubKeyEd25519 {
	switch i {
	case 3:
		k := rlMakePub(0)
		k[31] ^= 0x01
		return k
	case 4:
		k := rlMakePub(0)
		k[0] ^= 0x80
		return k
	case 5:
		k := rlMakePub(1)
		k[16] ^= 0x01
		return k
	}
	return rlPriv(i).PubKey().(crypto.PubKeyEd25519)
}

// rlSibling: the keys that differ from key i in one byte only.
func rlSiblings(i int) []int {
	switch i {
	case 0:
		return []int{3, 4}
	case 1:
		return []int{5}
	case 3:
		return []int{0, 4}
	case 4:
		return []int{0, 3}
	case 5:
		return []int{1}
	}
	return nil
}

type RLStep struct {
	Op     string `json:"op"`               // filter | query | connect | add | del | list | reopen
	Key    int    `json:"key"`              // 0..5 (connect: 0..2)
	Route  string `json:"route,omitempty"`  // add/del: "direct" (RefuseList method) | "endblock" (AdminOp.EndBlock)
	Signed bool   `json:"signed,omitempty"` // connect: the peer announces a credential by the authority
	Dial   bool   `json:"dial,omitempty"`   // connect: the node under test is the dialling side
}

type RLCase struct {
	AuthByCA bool     `json:"auth_by_ca"`
	NVNA     bool     `json:"non_validator_node_auth"`
	Vals     []int    `json:"vals"` // keys (0..2) that are validators without the CA flag
	Steps    []RLStep `json:"steps"`
}

func genRLLookup(t *rapid.T, k int) RLStep {
	kinds := []string{"filter", "filter", "filter", "query"}
	if k < rlRealKeys {
		kinds = append(kinds, "connect", "connect")
	}
	s := RLStep{Op: rapid.SampledFrom(kinds).Draw(t, "lookup"), Key: k}
	if s.Op == "connect" {
		s.Signed = rapid.IntRange(0, 3).Draw(t, "signed") > 0
		s.Dial = rapid.IntRange(0, 2).Draw(t, "dial") == 0
	}
	return s
}

func genRLMut(t *rapid.T, op string, k int) RLStep {
	return RLStep{Op: op, Key: k, Route: rapid.SampledFrom([]string{"endblock", "endblock", "direct"}).Draw(t, "route")}
}

func genRLRandomOp(t *rapid.T, k int) RLStep {
	switch rapid.IntRange(0, 6).Draw(t, "rop") {
	case 0, 1:
		return genRLMut(t, "add", k)
	case 2, 3:
		return genRLMut(t, "del", k)
	}
	return genRLLookup(t, k)
}

// one key's script; "reopen" steps inside a script are restarts of the node (global).
func genRLThread(t *rapid.T, k int) []RLStep {
	var s []RLStep
	re := RLStep{Op: "reopen"}
	switch rapid.SampledFrom([]string{"qba", "qba", "ada", "ada", "qdel", "reopen", "random", "random"}).Draw(t, "script") {
	case "qba": // looked up while not listed, then listed, then looked up again
		s = append(s, genRLLookup(t, k))
		if rapid.IntRange(0, 3).Draw(t, "more") == 0 {
			s = append(s, genRLLookup(t, k))
		}
		s = append(s, genRLMut(t, "add", k), genRLLookup(t, k))
	case "ada": // listed, removed, listed again
		if rapid.Bool().Draw(t, "first") {
			s = append(s, genRLLookup(t, k))
		}
		s = append(s, genRLMut(t, "add", k))
		if rapid.Bool().Draw(t, "mid1") {
			s = append(s, genRLLookup(t, k))
		}
		s = append(s, genRLMut(t, "del", k))
		if rapid.Bool().Draw(t, "mid2") {
			s = append(s, genRLLookup(t, k))
		}
		s = append(s, genRLMut(t, "add", k), genRLLookup(t, k))
	case "qdel": // listed, looked up, removed, looked up
		s = append(s, genRLMut(t, "add", k), genRLLookup(t, k), genRLMut(t, "del", k), genRLLookup(t, k))
	case "reopen":
		if rapid.Bool().Draw(t, "first") {
			s = append(s, genRLLookup(t, k))
		}
		s = append(s, genRLMut(t, "add", k))
		if rapid.Bool().Draw(t, "mid1") {
			s = append(s, genRLLookup(t, k))
		}
		s = append(s, re, genRLLookup(t, k))
		if rapid.Bool().Draw(t, "tail") {
			s = append(s, genRLMut(t, "del", k))
			if rapid.Bool().Draw(t, "re2") {
				s = append(s, re)
			}
			s = append(s, genRLLookup(t, k))
		}
	default:
		n := rapid.IntRange(2, 6).Draw(t, "nrandom")
		for i := 0; i < n; i++ {
			s = append(s, genRLRandomOp(t, k))
		}
	}
	extra := rapid.SampledFrom([]int{0, 0, 1, 2, 3}).Draw(t, "extra")
	for i := 0; i < extra; i++ {
		s = append(s, genRLRandomOp(t, k))
	}
	return s
}

func genRL(t *rapid.T) RLCase {
	var c RLCase
	c.AuthByCA = rapid.Bool().Draw(t, "authByCA")
	c.NVNA = rapid.Bool().Draw(t, "nvna")
	for k := 0; k < rlRealKeys; k++ {
		if rapid.Bool().Draw(t, "isVal") {
			c.Vals = append(c.Vals, k)
		}
	}
	nthreads := rapid.SampledFrom([]int{1, 2, 2, 3}).Draw(t, "nthreads")
	perm := rapid.Permutation([]int{0, 1, 2, 0, 1, 2, 3, 4, 5}).Draw(t, "keys")
	var keys []int
	for _, k := range perm {
		dup := false
		for _, q := range keys {
			dup = dup || q == k
		}
		if !dup && len(keys) < nthreads {
			keys = append(keys, k)
		}
	}
	if len(keys) >= 2 && rapid.IntRange(0, 2).Draw(t, "sibling") == 0 {
		if sib := rlSiblings(keys[0]); len(sib) > 0 {
			s := rapid.SampledFrom(sib).Draw(t, "siblingKey")
			taken := false
			for _, q := range keys {
				taken = taken || q == s
			}
			if !taken {
				keys[1] = s
			}
		}
	}
	threads := make([][]RLStep, len(keys))
	for i, k := range keys {
		threads[i] = genRLThread(t, k)
	}
	// merge the scripts in a drawn order; listings and extra restarts in between
	for {
		var live []int
		for i := range threads {
			if len(threads[i]) > 0 {
				live = append(live, i)
			}
		}
		if len(live) == 0 {
			break
		}
		i := live[0]
		if len(live) > 1 {
			i = rapid.SampledFrom(live).Draw(t, "turn")
		}
		c.Steps = append(c.Steps, threads[i][0])
		threads[i] = threads[i][1:]
		switch rapid.IntRange(0, 39).Draw(t, "between") {
		case 20: // (rapid favours the ends of a range; the rare steps sit in the middle)
			c.Steps = append(c.Steps, RLStep{Op: "reopen"})
		case 10, 11, 12, 13:
			c.Steps = append(c.Steps, RLStep{Op: "list"})
		}
	}
	return c
}

// the running node
type rlNode struct {
	c     RLCase
	dir   string
	conf  *viper.Viper
	sw    *p2p.Switch
	rl    *refuse_list.RefuseList
	admin *plugin.AdminOp
	vals  *types.ValidatorSet // the state's validator-set field; never replaced in this leg
	conns map[int]*p2p.Peer
	pipes map[int][2]net.Conn
}

// drop: the node ends the connection to peer k (StopPeerGracefully, as AdminOp.EndBlock does).
func (n *rlNode) drop(k int) {
	if p := n.conns[k]; p != nil {
		n.sw.StopPeerGracefully(p)
		delete(n.conns, k)
	}
	n.closePipes(k)
}

func (n *rlNode) closePipes(k int) {
	if pp, ok := n.pipes[k]; ok {
		pp[0].Close()
		pp[1].Close()
		delete(n.pipes, k)
	}
}

func (n *rlNode) boot() {
	node := key("node")
	n.conf = viper.New()
	n.conf.Set("non_validator_node_auth", n.c.NVNA)
	n.conf.Set("auth_by_ca", n.c.AuthByCA)
	n.conf.Set("handshake_timeout_seconds", 60)
	n.rl = refuse_list.NewRefuseList("leveldb", n.dir) // db_backend default of a node
	n.sw = p2p.NewSwitch(n.conf)
	n.sw.SetNodeInfo(&p2p.NodeInfo{PubKey: node.PubKey(), Moniker: "node", Network: "c20", Version: "0.1.0", ListenAddr: "10.0.0.1:46656"})
	n.sw.SetNodePrivKey(node)
	n.sw.SetRefuseListFilter(gemmill.VerifRefuseListFilter(n.rl)) // prepareP2P
	vs := []*types.Validator{types.NewValidator(rlPriv(rlCAKey).PubKey(), 10, true)}
	for _, k := range n.c.Vals {
		vs = append(vs, types.NewValidator(rlPriv(k).PubKey(), 10, false))
	}
	n.vals = types.NewValidatorSet(vs)
	if n.c.AuthByCA {
		n.sw.SetAuthByCA(gemmill.VerifAuthByCA(n.conf, &n.vals)) // assembleStateMachine
	}
	n.admin = &plugin.AdminOp{}
	n.admin.Init(&plugin.InitParams{Switch: n.sw, PrivKey: node, RefuseList: n.rl, Validators: &n.vals}) // InitPlugins
	n.conns = map[int]*p2p.Peer{}
	n.pipes = map[int][2]net.Conn{}
}

func (n *rlNode) shutdown() {
	for k := 0; k < rlRealKeys; k++ {
		n.drop(k)
	}
	n.rl.Stop()
}

func rlModelList(model map[int]bool) []string {
	var out []string
	for k, on := range model {
		if on {
			pk := rlPub(k)
			out = append(out, strings.ToUpper(hex.EncodeToString(pk.Bytes())))
		}
	}
	sort.Strings(out)
	return out
}

func runRL(c RLCase, x *h.Ctx) {
	if len(c.Steps) == 0 {
		return
	}
	for _, s := range c.Steps {
		if s.Key < 0 || s.Key >= rlKeys || (s.Op == "connect" && s.Key >= rlRealKeys) {
			return
		}
	}
	for _, k := range c.Vals {
		if k < 0 || k >= rlRealKeys {
			return
		}
	}
	dir, err := os.MkdirTemp(rlTmpBase(), "c20-rl-")
	if err != nil {
		panic(err)
	}
	defer os.RemoveAll(dir)
	n := &rlNode{c: c, dir: dir}
	n.boot()
	defer func() { n.shutdown() }()

	isVal := map[int]bool{}
	for _, k := range c.Vals {
		isVal[k] = true
	}
	model := map[int]bool{}
	// history bookkeeping (labels, signatures)
	type hist struct {
		absentLookup         bool // looked up while not listed, in this process lifetime
		addAfterAbsent       bool // listed after such a lookup, same lifetime
		presentLookup        bool // looked up while listed, in this lifetime
		delAfterPresent      bool // looked up unlisted, added, looked up, removed: same lifetime
		delAfterListedLookup bool // removed after a lookup while listed, same lifetime
		adds, dels           int  // effective additions / removals in the whole case
		addsLife             int  // effective additions in this lifetime
		delsLife             int
		mutSinceReopen       bool
		everMut              bool
	}
	hs := make([]hist, rlKeys)
	reopens := 0
	shapes := map[string]bool{}
	var order []int // keys in order of use (interleaving)

	where := func(i int) string {
		var b strings.Builder
		for j := 0; j <= i && j < len(c.Steps); j++ {
			s := c.Steps[j]
			switch s.Op {
			case "reopen", "list":
				fmt.Fprintf(&b, " %s", s.Op)
			case "add", "del":
				fmt.Fprintf(&b, " %s(k%d,%s)", s.Op, s.Key, s.Route)
			default:
				fmt.Fprintf(&b, " %s(k%d)", s.Op, s.Key)
			}
		}
		return fmt.Sprintf("step %d of history [%s ]; model of the refuse list %v", i, b.String(), rlModelList(model))
	}
	// qualify names the part of the key's history that precedes a wrong answer (signature suffix)
	qualify := func(k int) string {
		hh := &hs[k]
		switch {
		case hh.everMut && !hh.mutSinceReopen && reopens > 0:
			return "-after-reopen"
		case model[k] && hh.addAfterAbsent:
			return "-looked-up-before-it-was-added"
		case model[k] && hh.addsLife >= 2 && hh.delsLife >= 1:
			return "-added-again-after-delete"
		case !model[k] && hh.delAfterListedLookup:
			return "-looked-up-before-it-was-deleted"
		}
		return ""
	}
	// lookup verdict against the model; returns true when the case must stop
	judge := func(i int, k int, refusedByCode bool, how string) bool {
		suffix := qualify(k)
		if model[k] && !refusedByCode {
			return x.Fail("refuse-list-lookup-misses-listed-key"+suffix, "%s of key k%d (%X) says NOT refused although the key is on the list; %s", how, k, rlPub(k).Bytes(), where(i))
		}
		if !model[k] && refusedByCode {
			return x.Fail("refuse-list-lookup-refuses-unlisted-key"+suffix, "%s of key k%d (%X) says refused although the key is not on the list; %s", how, k, rlPub(k).Bytes(), where(i))
		}
		return false
	}
	noteLookup := func(k int) {
		hh := &hs[k]
		if model[k] {
			if hh.addAfterAbsent {
				shapes["shape:query-before-add"] = true
			}
			if hh.adds >= 2 && hh.dels >= 1 {
				shapes["shape:add-delete-add"] = true
				if hh.addsLife >= 2 && hh.delsLife >= 1 {
					shapes["shape:add-delete-add:one-lifetime"] = true
				}
			}
			if hh.everMut && !hh.mutSinceReopen && reopens > 0 {
				shapes["shape:listed-key-after-reopen"] = true
			}
			if isVal[k] {
				shapes["listed-key-is-validator"] = true
			} else {
				shapes["listed-key-is-not-validator"] = true
			}
			hh.presentLookup = true
		} else {
			if hh.delAfterPresent {
				shapes["shape:query-add-query-delete-query"] = true
			}
			if hh.dels >= 1 {
				shapes["shape:lookup-after-delete"] = true
				if hh.everMut && !hh.mutSinceReopen && reopens > 0 {
					shapes["shape:deleted-key-after-reopen"] = true
				}
			}
			for _, s := range rlSiblings(k) {
				if model[s] {
					shapes["shape:unlisted-key-one-byte-from-listed-key"] = true
				}
			}
			hh.absentLookup = true
		}
		order = append(order, k)
	}
	checkList := func(i int) bool {
		got, pan := func() (l []string, p interface{}) {
			defer func() { p = recover() }()
			return n.rl.ListAllKey(), nil
		}()
		if pan != nil {
			return x.Fail("refuse-list-listing-panics", "ListAllKey panicked: %v; %s", pan, where(i))
		}
		got = append([]string{}, got...)
		sort.Strings(got)
		want := rlModelList(model)
		if strings.Join(got, ",") != strings.Join(want, ",") {
			sig := "refuse-list-listing-differs-from-model"
			if i < len(c.Steps) && c.Steps[i].Op == "reopen" {
				sig = "refuse-list-state-not-kept-over-reopen"
			}
			return x.Fail(sig, "ListAllKey = %v, model %v; %s", got, want, where(i))
		}
		return false
	}

	for i, s := range c.Steps {
		k := s.Key
		switch s.Op {
		case "filter":
			// what AddPeerWithConnection asks once the encrypted connection stands
			err := n.sw.FilterConnByRefuselist(rlPub(k))
			if judge(i, k, err != nil, "Switch.FilterConnByRefuselist") {
				return
			}
			noteLookup(k)
			x.Label("op:filter")
		case "query":
			if judge(i, k, n.rl.QueryRefuseKey(rlPub(k).Bytes()), "QueryRefuseKey") {
				return
			}
			noteLookup(k)
			x.Label("op:query")
		case "connect":
			n.drop(k) // the peer dials again: its old connection is gone
			pk := rlPriv(k)
			cred := ""
			if s.Signed {
				cred = sigString(Attempt{Signer: rlCAKey, Over: k})
			}
			pconf := viper.New()
			pconf.Set("handshake_timeout_seconds", 60)
			psw := p2p.NewSwitch(pconf)
			psw.SetNodePrivKey(pk)
			psw.SetNodeInfo(&p2p.NodeInfo{PubKey: pk.PubKey(), SigndPubKey: cred, Moniker: "peer", Network: "c20", Version: "0.1.0", ListenAddr: fmt.Sprintf("10.0.1.%d:46656", k+2)})
			c1, c2 := pipePair()
			chNode, chPeer := addPeer(n.sw, c1, s.Dial), addPeer(psw, c2, !s.Dial)
			if s.Dial {
				x.Label("node-is-the-dialling-side")
			}
			var rn addRes
			timer := time.NewTimer(180 * time.Second)
			select {
			case rn = <-chNode:
			case <-timer.C:
				c1.Close()
				c2.Close()
				x.Fail("admission-attempt-does-not-return", "AddPeerWithConnection did not return within 180 s (handshake deadline 60 s); %s", where(i))
				return
			}
			select {
			case <-chPeer:
			case <-timer.C:
				c1.Close()
				c2.Close()
				<-chPeer
			}
			timer.Stop()
			if rn.pan != nil {
				c1.Close()
				c2.Close()
				x.Fail("admission-panics", "AddPeerWithConnection panicked: %v; %s", rn.pan, where(i))
				return
			}
			got := rn.err == nil && rn.peer != nil
			applies := c.AuthByCA && (isVal[k] || c.NVNA)
			caFail := applies && !s.Signed
			want := !model[k] && !caFail
			desc := fmt.Sprintf("connection attempt of key k%d (validator=%v credential=%v auth_by_ca=%v non_validator_node_auth=%v): admitted=%v err=%v, reference: admit=%v (on refuse list=%v, CA rule fails=%v); %s", k, isVal[k], s.Signed, c.AuthByCA, c.NVNA, got, rn.err, want, model[k], caFail, where(i))
			if !got {
				c1.Close()
				c2.Close()
			}
			if got != want {
				switch {
				case got && model[k]:
					if x.Fail("admitted-key-on-refuse-list"+qualify(k), "%s", desc) {
						return
					}
				case got:
					if x.Fail("admitted-without-valid-ca-signature", "%s", desc) {
						return
					}
				case !model[k] && !caFail:
					if x.Fail("eligible-peer-rejected", "%s", desc) {
						return
					}
				}
			}
			if has := n.sw.Peers().Has(pk.PubKey().KeyString()); has != got {
				if x.Fail("peer-set-disagrees-with-decision", "%s; Peers().Has=%v", desc, has) {
					return
				}
			}
			if got {
				n.conns[k] = rn.peer
				n.pipes[k] = [2]net.Conn{c1, c2}
				x.Label("connect:admitted")
			} else if model[k] {
				x.Label("connect:refused-by-list")
			} else {
				x.Label("connect:refused-by-ca-rule")
			}
			if n.sw.Peers().Size() != len(n.conns) {
				if x.Fail("peer-set-disagrees-with-decision", "%s; Peers().Size()=%d, connected %d", desc, n.sw.Peers().Size(), len(n.conns)) {
					return
				}
			}
			noteLookup(k)
			x.Label("op:connect")
		case "add", "del":
			pub := rlPub(k)
			hh := &hs[k]
			if s.Route == "endblock" {
				// what ProcessAdminOP queues for a remove_node (add; the peer is disconnected) or an
				// add_peer / update_node (delete) request, applied by EndBlock
				if s.Op == "add" {
					n.admin.AddRefuseKeys = append(n.admin.AddRefuseKeys, pub)
					if p := n.conns[k]; p != nil {
						n.admin.DisconnectedPeers = append(n.admin.DisconnectedPeers, p)
						delete(n.conns, k)
					}
				} else {
					n.admin.DeleteRefuseKeys = append(n.admin.DeleteRefuseKeys, pub)
				}
				if _, err := n.admin.EndBlock(&plugin.EndBlockParams{NextValidatorSet: n.vals}); err != nil {
					x.Fail("adminop-endblock-fails", "AdminOp.EndBlock: %v; %s", err, where(i))
					return
				}
				if n.conns[k] == nil {
					n.closePipes(k)
				}
			} else if s.Op == "add" {
				n.rl.AddRefuseKey(pub.Bytes())
			} else {
				n.rl.DeleteRefuseKey(pub.Bytes()) // an error for a key that is not listed is the documented answer
			}
			if s.Op == "add" {
				if !model[k] {
					hh.adds++
					hh.addsLife++
					if hh.absentLookup {
						hh.addAfterAbsent = true
					}
				} else {
					shapes["shape:add-of-listed-key"] = true
				}
				model[k] = true
			} else {
				if model[k] {
					hh.dels++
					hh.delsLife++
					if hh.presentLookup && hh.addAfterAbsent {
						hh.delAfterPresent = true
					}
					if hh.presentLookup {
						hh.delAfterListedLookup = true
					}
				} else {
					shapes["shape:delete-of-unlisted-key"] = true
				}
				model[k] = false
			}
			hh.mutSinceReopen = true
			hh.everMut = true
			order = append(order, k)
			x.Label("op:" + s.Op + ":" + s.Route)
		case "list":
			x.Label("op:list")
		case "reopen":
			n.shutdown()
			n.boot()
			reopens++
			for j := range hs {
				hs[j].absentLookup, hs[j].addAfterAbsent, hs[j].presentLookup, hs[j].delAfterPresent = false, false, false, false
				hs[j].delAfterListedLookup = false
				hs[j].addsLife, hs[j].delsLife = 0, 0
				hs[j].mutSinceReopen = false
			}
			x.Label("op:reopen")
		default:
			return
		}
		if checkList(i) {
			return
		}
		if sz := n.sw.Peers().Size(); sz != len(n.conns) {
			if x.Fail("peer-set-disagrees-with-decision", "Peers().Size()=%d, connected %d; %s", sz, len(n.conns), where(i)) {
				return
			}
		}
	}
	// final sweep: every key through the filter
	last := len(c.Steps) - 1
	for k := 0; k < rlKeys; k++ {
		if judge(last, k, n.sw.FilterConnByRefuselist(rlPub(k)) != nil, "final sweep: Switch.FilterConnByRefuselist") {
			return
		}
	}
	// interleaving: a key used, another key used, the first one used again
	seen := map[int]int{}
	for i, k := range order {
		if j, ok := seen[k]; ok {
			for _, q := range order[j+1 : i] {
				if q != k {
					shapes["shape:keys-interleaved"] = true
				}
			}
		}
		seen[k] = i
	}
	if len(seen) > 1 {
		shapes["keys:several"] = true
	}
	if reopens > 0 {
		shapes["shape:reopen"] = true
	}
	var names []string
	for s := range shapes {
		names = append(names, s)
	}
	sort.Strings(names)
	for _, s := range names {
		x.Label(s)
	}
	if shapes["shape:query-before-add"] || shapes["shape:add-delete-add"] || shapes["shape:lookup-after-delete"] || shapes["shape:listed-key-after-reopen"] || shapes["shape:deleted-key-after-reopen"] {
		x.NonTrivial()
	}
}

func rlTmpBase() string {
	if st, err := os.Stat("/dev/shm"); err == nil && st.IsDir() {
		return "/dev/shm"
	}
	return os.TempDir()
}

func TestRefuseHistory(t *testing.T) {
	h.Check(t, h.Spec[RLCase]{Prop: prop, Leg: "refusehistory", Gen: genRL, Run: runRL})
}
