// C20: P2P transport is authenticated, ordered and intact; admission rules hold.
//
// Legs (each its own file):
//
//	secretconn  - SecretConnection pair over a wire the test owns: generated write / read-buffer sizes in
//	              both directions and man-in-the-middle edits of in-flight ciphertext frames.
//	handshake   - SecretConnection handshake: man-in-the-middle edits of the handshake messages, and an
//	              independently written protocol peer that signs the challenge with the wrong key.
//	mconn       - MConnection pair: messages up to capacity+1 on 1-3 channels sent concurrently.
//	admission   - Switch.AddPeerWithConnection + authByCA + refuse-list filter against a reference predicate.
//	refusehistory - the refuse list of a running node as a stateful object (lookups, AdminOp.EndBlock
//	              additions/removals, listings, restarts) against a set model.
package c20

import (
	"crypto/sha256"
	"encoding/binary"
	"errors"
	"io"
	"sync"
	"testing"

	crypto "github.com/dappledger/AnnChain/gemmill/go-crypto"
	glog "github.com/dappledger/AnnChain/gemmill/modules/go-log"
	"go.uber.org/zap"

	"verif/internal/h"
)

func TestMain(m *testing.M) {
	glog.SetLog(zap.NewNop())
	glog.SetAuditLog(zap.NewNop())
	crypto.NodeInit(crypto.CryptoTypeZhongAn)
	h.Main(m)
}

const prop = "C20"

// expand derives n pseudo-random bytes from a drawn seed (pure function of the draw).
func expand(seed uint64, n int) []byte {
	out := make([]byte, 0, n+32)
	var ctr uint64
	for len(out) < n {
		var b [16]byte
		binary.BigEndian.PutUint64(b[:8], seed)
		binary.BigEndian.PutUint64(b[8:], ctr)
		s := sha256.Sum256(b[:])
		out = append(out, s[:]...)
		ctr++
	}
	return out[:n]
}

// seedReader is a deterministic io.Reader (ephemeral keys of the reference peer).
type seedReader struct {
	seed uint64
	ctr  uint64
	buf  []byte
}

func (r *seedReader) Read(p []byte) (int, error) {
	for len(r.buf) < len(p) {
		var b [16]byte
		binary.BigEndian.PutUint64(b[:8], r.seed^0x5eed5eed5eed5eed)
		binary.BigEndian.PutUint64(b[8:], r.ctr)
		s := sha256.Sum256(b[:])
		r.buf = append(r.buf, s[:]...)
		r.ctr++
	}
	n := copy(p, r.buf)
	r.buf = r.buf[n:]
	return n, nil
}

func key(name string) crypto.PrivKeyEd25519 {
	return crypto.GenPrivKeyEd25519FromSecret([]byte("c20-" + name))
}

// -----------------------------------------------------------------------------------------------
// The wire: an in-memory duplex pipe whose two lanes are owned by the test. Lane d carries what
// endpoint d writes to endpoint 1-d. Every Write call is recorded as one message (`sent`, never
// edited); what the reader gets comes from `inflight`, which the man in the middle may edit.
// Writes never block (unbounded buffering), so the only thing that can make a reader wait is data
// that has not been written.

var errWouldBlock = errors.New("c20 wire: nothing to read yet")

type planItem struct {
	Lane int  `json:"lane"` // source lane
	Idx  int  `json:"idx"`  // source message index in that lane's sent log
	Flip bool `json:"flip"`
	Byte int  `json:"byte"`
	Bit  int  `json:"bit"`
}

type lane struct {
	sent     [][]byte
	inflight [][]byte
	consumed []byte
	closed   bool
	auto     bool       // Write pushes a copy straight into inflight (identity delivery)
	plan     []planItem // pull mode (auto == false): delivery item n comes from plan[n] (identity beyond the plan)
	pulled   int
}

type duplex struct {
	mu       sync.Mutex
	cond     *sync.Cond
	lanes    [2]*lane
	blocking bool
}

func newDuplex(auto bool) *duplex {
	w := &duplex{blocking: true}
	w.cond = sync.NewCond(&w.mu)
	w.lanes[0] = &lane{auto: auto}
	w.lanes[1] = &lane{auto: auto}
	return w
}

func (w *duplex) write(d int, p []byte) (int, error) {
	w.mu.Lock()
	defer w.mu.Unlock()
	l := w.lanes[d]
	if l.closed {
		return 0, io.ErrClosedPipe
	}
	l.sent = append(l.sent, append([]byte{}, p...))
	if l.auto {
		l.inflight = append(l.inflight, append([]byte{}, p...))
		l.pulled++
	}
	w.cond.Broadcast()
	return len(p), nil
}

func (l *lane) avail() int {
	n := 0
	for _, f := range l.inflight {
		n += len(f)
	}
	return n
}

// tryPull moves the next delivery item of lane d into inflight when its source exists.
func (w *duplex) tryPull(d int) bool {
	l := w.lanes[d]
	it := planItem{Lane: d, Idx: l.pulled}
	if l.pulled < len(l.plan) {
		it = l.plan[l.pulled]
	}
	src := w.lanes[it.Lane]
	if it.Idx >= len(src.sent) {
		return false
	}
	f := append([]byte{}, src.sent[it.Idx]...)
	if it.Flip && len(f) > 0 {
		f[it.Byte%len(f)] ^= 1 << uint(it.Bit%8)
	}
	l.inflight = append(l.inflight, f)
	l.pulled++
	return true
}

func (w *duplex) read(d int, p []byte) (int, error) {
	w.mu.Lock()
	defer w.mu.Unlock()
	l := w.lanes[d]
	if len(p) == 0 {
		return 0, nil
	}
	for {
		for len(l.inflight) > 0 && len(l.inflight[0]) == 0 {
			l.inflight = l.inflight[1:]
		}
		if a := l.avail(); a > 0 {
			if !w.blocking && !l.closed && a < len(p) {
				return 0, errWouldBlock // all or nothing while the lane is open: nothing is consumed
			}
			n := 0
			for n < len(p) && len(l.inflight) > 0 {
				f := l.inflight[0]
				k := copy(p[n:], f)
				n += k
				if k == len(f) {
					l.inflight = l.inflight[1:]
				} else {
					l.inflight[0] = f[k:]
				}
			}
			l.consumed = append(l.consumed, p[:n]...)
			return n, nil
		}
		if !l.auto && w.tryPull(d) {
			continue
		}
		if l.closed {
			return 0, io.EOF
		}
		if !w.blocking {
			return 0, errWouldBlock
		}
		w.cond.Wait()
	}
}

func (w *duplex) closeAll() {
	w.mu.Lock()
	w.lanes[0].closed = true
	w.lanes[1].closed = true
	w.cond.Broadcast()
	w.mu.Unlock()
}

func (w *duplex) setBlocking(b bool) {
	w.mu.Lock()
	w.blocking = b
	w.cond.Broadcast()
	w.mu.Unlock()
}

// endpoint d of the wire (io.ReadWriteCloser): writes lane d, reads lane 1-d.
type endpoint struct {
	w  *duplex
	id int
}

func (e *endpoint) Read(p []byte) (int, error)  { return e.w.read(1-e.id, p) }
func (e *endpoint) Write(p []byte) (int, error) { return e.w.write(e.id, p) }
func (e *endpoint) Close() error                { e.w.closeAll(); return nil }

func flat(fs [][]byte) []byte {
	var out []byte
	for _, f := range fs {
		out = append(out, f...)
	}
	return out
}
