package c20

import (
	"bytes"
	"encoding/binary"
	"testing"

	crypto "github.com/dappledger/AnnChain/gemmill/go-crypto"
	wire "github.com/dappledger/AnnChain/gemmill/go-wire"
	"github.com/dappledger/AnnChain/gemmill/p2p"
	"golang.org/x/crypto/ed25519"
	"golang.org/x/crypto/nacl/box"
	"pgregory.net/rapid"

	"verif/internal/h"
)

// Leg "nonces": the per-direction frame counters over long sessions.
//
//	pair      - two real ends exchange thousands of frames with IDENTICAL plaintext in both directions;
//	            the man in the middle (who sees both lanes) must never see the same ciphertext twice:
//	            with one key and one plaintext, equal ciphertext means a nonce was used twice, and a
//	            frame recorded then can be replayed later. Every frame must also still open on the
//	            other side (sender and receiver counters stay in step).
//	reference - a real end against the independently written protocol peer (own counter arithmetic):
//	            every frame of a long session must open on the other side, in both directions, so the
//	            real counter sequence IS the documented one (+2 per frame, big-endian, with carry).
type NonceCase struct {
	Mode    string `json:"mode"`     // pair | reference
	LowSide bool   `json:"low_side"` // pair: end A holds the lower ephemeral key; reference: the real end does
	Frames  int    `json:"frames"`   // per direction
	Payload h.Hex  `json:"payload"`  // plaintext of every frame
	EphSeed uint64 `json:"eph_seed"`
}

func genNonces(t *rapid.T) NonceCase {
	var c NonceCase
	c.Mode = rapid.SampledFrom([]string{"pair", "reference"}).Draw(t, "mode")
	c.LowSide = rapid.Bool().Draw(t, "lowSide")
	big := 16
	if h.Tier() == "thorough" {
		big = 6
	}
	if rapid.IntRange(0, big-1).Draw(t, "big") == 0 {
		c.Frames = rapid.IntRange(32900, 36000).Draw(t, "framesBig") // beyond the carry out of the second counter byte
	} else {
		c.Frames = rapid.OneOf(rapid.IntRange(130, 3000), rapid.SampledFrom([]int{129, 257, 513, 1025, 2049})).Draw(t, "frames")
	}
	c.Payload = rapid.SliceOfN(rapid.Byte(), 1, 16).Draw(t, "payload")
	c.EphSeed = rapid.Uint64().Draw(t, "ephSeed")
	return c
}

func trimLogs(w *duplex) {
	for d := 0; d < 2; d++ {
		w.lanes[d].sent = w.lanes[d].sent[:0]
		w.lanes[d].consumed = w.lanes[d].consumed[:0]
	}
}

func runNonces(c NonceCase, x *h.Ctx) {
	if len(c.Payload) == 0 || len(c.Payload) > 1024 || c.Frames < 1 {
		return
	}
	x.Label("mode:" + c.Mode)
	if c.Frames > 32768 {
		x.Label("crosses-second-byte-carry")
	}
	if c.Mode == "reference" {
		runNoncesReference(c, x)
	} else {
		runNoncesPair(c, x)
	}
	if !x.Failed() && c.Frames > 128 {
		x.NonTrivial()
	}
}

func runNoncesPair(c NonceCase, x *h.Ctx) {
	kA, kB := key("A"), key("B")
	var w *duplex
	var scs [2]*p2p.SecretConnection
	for try := 0; ; try++ {
		w = newDuplex(true)
		res, hung := waitHandshakes(w, startHandshake(&endpoint{w, 0}, kA), startHandshake(&endpoint{w, 1}, kB))
		if hung {
			x.Fail("secretconn-honest-handshake-stalls", "honest handshake did not finish within %v", hsWatchdog)
			return
		}
		for i, r := range res {
			if r.pan != nil || r.err != nil || r.sc == nil {
				x.Fail("secretconn-honest-handshake-fails", "honest handshake failed on side %d: err=%v panic=%v", i, r.err, r.pan)
				return
			}
			scs[i] = r.sc
		}
		if (bytes.Compare(w.lanes[0].sent[0], w.lanes[1].sent[0]) < 0) == c.LowSide || try >= 40 {
			break
		}
	}
	w.setBlocking(false)
	type where struct{ lane, frame int }
	seen := map[[32]byte]where{}
	fp := func(f []byte) (k [32]byte) { copy(k[:], f); return } // 16-byte authenticator + 16 bytes of ciphertext
	for d := 0; d < 2; d++ {
		for i, f := range w.lanes[d].sent {
			if i > 0 { // the two sealed handshake frames
				seen[fp(f)] = where{d, i - hsMsgs}
			}
		}
	}
	trimLogs(w)
	buf := make([]byte, 1024)
	for i := 0; i < c.Frames; i++ {
		for d := 0; d < 2; d++ {
			n, err := scs[d].Write(c.Payload)
			if err != nil || n != len(c.Payload) {
				x.Fail("secretconn-write-short", "lane %d frame %d: Write = (%d, %v)", d, i, n, err)
				return
			}
			if len(w.lanes[d].sent) != 1 {
				x.Fail("harness-assumption-frame-count", "a write of %d bytes produced %d wire frames", len(c.Payload), len(w.lanes[d].sent))
				return
			}
			k := fp(w.lanes[d].sent[0])
			if prev, dup := seen[k]; dup {
				x.Fail("secretconn-nonce-reused", "lane %d data frame %d has exactly the ciphertext of lane %d data frame %d (same plaintext %x, same key): the two frames were sealed with the same nonce, distance %d frames; a man in the middle can put the old frame in the place of the new one and it opens", d, i, prev.lane, prev.frame, []byte(c.Payload), i-prev.frame)
				return
			}
			seen[k] = where{d, i}
			rn, rerr, pan := safeRead(scs[1-d], buf)
			if pan != nil || rerr != nil || !bytes.Equal(buf[:rn], c.Payload) {
				x.Fail("secretconn-counters-out-of-step", "lane %d data frame %d of an unedited session of identical %d-byte frames: Read = (%d, %v) panic=%v", d, i, len(c.Payload), rn, rerr, pan)
				return
			}
			trimLogs(w)
		}
	}
}

func runNoncesReference(c NonceCase, x *h.Ctx) {
	kV, k1 := key("V"), key("K1")
	var w *duplex
	var p *refPeer
	var real hsRes
	for try := 0; ; try++ {
		w = newDuplex(true)
		ch := startHandshake(&endpoint{w, 0}, kV)
		p = &refPeer{conn: &endpoint{w, 1}}
		ephPub, ephPriv, _ := box.GenerateKey(&seedReader{seed: c.EphSeed + uint64(try)})
		err := p.exchange(ephPub, ephPriv)
		if err == nil {
			var sig [64]byte
			copy(sig[:], ed25519.Sign(ed25519.PrivateKey(k1[:]), p.challenge[:]))
			msg := wire.BinaryBytes(refAuthMsg{Key: k1.PubKey(), Sig: crypto.SignatureEd25519(sig)})
			var lenb [4]byte
			binary.LittleEndian.PutUint32(lenb[:], uint32(len(msg)))
			if err = p.write(lenb[:]); err == nil {
				err = p.write(msg)
			}
		}
		if err != nil {
			w.closeAll()
		}
		res, hung := waitHandshakes(w, ch)
		real = res[0]
		if hung || err != nil || real.pan != nil || real.err != nil || real.sc == nil {
			x.Fail("secretconn-handshake-vs-reference", "handshake of the real end with the reference peer: hung=%v peerErr=%v err=%v panic=%v", hung, err, real.err, real.pan)
			return
		}
		realLow := bytes.Compare(w.lanes[0].sent[0], w.lanes[1].sent[0]) < 0
		if realLow == c.LowSide || try >= 40 {
			break
		}
	}
	w.setBlocking(false)
	// the real end's two handshake frames
	if lb, err := p.readN(4); err != nil {
		x.Fail("secretconn-handshake-vs-reference", "reference peer cannot open the real end's length frame: %v", err)
		return
	} else if _, err := p.readN(int(binary.LittleEndian.Uint32(lb))); err != nil {
		x.Fail("secretconn-handshake-vs-reference", "reference peer cannot open the real end's signature frame: %v", err)
		return
	}
	trimLogs(w)
	buf := make([]byte, 1024)
	for i := 0; i < c.Frames; i++ {
		if err := p.writeFrame(c.Payload); err != nil {
			x.Fail("harness", "reference write: %v", err)
			return
		}
		rn, rerr, pan := safeRead(real.sc, buf)
		if pan != nil || rerr != nil || !bytes.Equal(buf[:rn], c.Payload) {
			x.Fail("secretconn-nonce-sequence-differs-from-reference", "data frame %d sealed by the reference peer with nonce start+2*%d (real end holds the lower ephemeral key: %v): Read = (%d, %v) panic=%v", i, i+2, c.LowSide, rn, rerr, pan)
			return
		}
		if n, err := real.sc.Write(c.Payload); err != nil || n != len(c.Payload) {
			x.Fail("secretconn-write-short", "frame %d: Write = (%d, %v)", i, n, err)
			return
		}
		got, err := p.readFrame()
		if err != nil || !bytes.Equal(got, c.Payload) {
			x.Fail("secretconn-nonce-sequence-differs-from-reference", "data frame %d sealed by the real end (it holds the lower ephemeral key: %v) does not open with nonce start+2*%d of the reference sequence: %v", i, c.LowSide, i+2, err)
			return
		}
		trimLogs(w)
	}
}

func TestSecretConnNonces(t *testing.T) {
	h.Check(t, h.Spec[NonceCase]{Prop: prop, Leg: "nonces", Gen: genNonces, Run: runNonces})
}
