// Leg reactorsched, part 2: a read-only window into the block pool of a BlockchainReactor.
//
// The check package is outside gemmill/blockchain, and the harness must know which peer a
// requester is waiting for (to answer "as that peer", to remove "the peer that served height h")
// and when the asynchronous redo of a requester has finished. It reads the unexported fields
// through reflect/unsafe under the pool's own mutexes; it never writes them. The only thing it
// triggers through such a pointer is a peer's own time-out timer (Reset(0): the timer function
// bpPeer.onTimeout then runs as it would after 15 s of silence).
package c13

import (
	"fmt"
	"reflect"
	"sort"
	"sync"
	"time"
	"unsafe"

	bc "github.com/dappledger/AnnChain/gemmill/blockchain"
	gtypes "github.com/dappledger/AnnChain/gemmill/types"
)

type rsPoolView struct {
	pool  *bc.BlockPool
	mtx   *sync.Mutex
	pe    reflect.Value
	reqs  reflect.Value
	peers reflect.Value
}

type rsReq struct {
	peer string
	blk  *gtypes.Block
}

type rsPeerInfo struct {
	height     int64
	numPending int32
	didTimeout bool
	timer      *time.Timer
}

type rsSnap struct {
	height int64
	reqs   map[int64]rsReq // heights height..upTo that have a requester
	peers  map[string]rsPeerInfo
}

func rsViewOf(bcR *bc.BlockchainReactor) (v *rsPoolView, err error) {
	defer func() {
		if p := recover(); p != nil {
			err = fmt.Errorf("%v", p)
		}
	}()
	pf := reflect.ValueOf(bcR).Elem().FieldByName("pool")
	if !pf.IsValid() || pf.Type() != reflect.TypeOf((*bc.BlockPool)(nil)) {
		return nil, fmt.Errorf("BlockchainReactor has no field pool *BlockPool")
	}
	pool := *(**bc.BlockPool)(unsafe.Pointer(pf.UnsafeAddr()))
	pe := reflect.ValueOf(pool).Elem()
	m := pe.FieldByName("mtx")
	if !m.IsValid() || m.Type() != reflect.TypeOf(sync.Mutex{}) {
		return nil, fmt.Errorf("BlockPool has no field mtx sync.Mutex")
	}
	v = &rsPoolView{pool: pool, pe: pe, mtx: (*sync.Mutex)(unsafe.Pointer(m.UnsafeAddr()))}
	v.reqs = pe.FieldByName("requesters")
	v.peers = pe.FieldByName("peers")
	if !v.reqs.IsValid() || v.reqs.Kind() != reflect.Map || !v.peers.IsValid() || v.peers.Kind() != reflect.Map || !pe.FieldByName("height").IsValid() {
		return nil, fmt.Errorf("BlockPool has no requesters/peers/height")
	}
	v.snap(1) // exercises every field access once
	return v, nil
}

func (v *rsPoolView) snap(upTo int64) rsSnap {
	v.mtx.Lock()
	defer v.mtx.Unlock()
	s := rsSnap{height: v.pe.FieldByName("height").Int(), reqs: map[int64]rsReq{}, peers: map[string]rsPeerInfo{}}
	for g := s.height; g <= upTo; g++ {
		rv := v.reqs.MapIndex(reflect.ValueOf(g))
		if !rv.IsValid() || rv.IsNil() {
			continue
		}
		r := rv.Elem()
		rm := (*sync.Mutex)(unsafe.Pointer(r.FieldByName("mtx").UnsafeAddr()))
		rm.Lock()
		q := rsReq{peer: r.FieldByName("peerID").String()}
		q.blk = *(**gtypes.Block)(unsafe.Pointer(r.FieldByName("block").UnsafeAddr()))
		rm.Unlock()
		s.reqs[g] = q
	}
	it := v.peers.MapRange()
	for it.Next() {
		p := it.Value().Elem()
		s.peers[it.Key().String()] = rsPeerInfo{
			height:     p.FieldByName("height").Int(),
			numPending: int32(p.FieldByName("numPending").Int()),
			didTimeout: p.FieldByName("didTimeout").Bool(),
			timer:      *(**time.Timer)(unsafe.Pointer(p.FieldByName("timeout").UnsafeAddr())),
		}
	}
	return s
}

func (s rsSnap) peerIDs() []string {
	out := make([]string, 0, len(s.peers))
	for id := range s.peers {
		out = append(out, id)
	}
	sort.Strings(out)
	return out
}
