// C13: fast sync applies only blocks justified by +2/3 commits and ends in the same state.
//
// Three kinds of processes take part in one case:
//
//	source   (child, C13_SOURCE)  a real single-validator node (core.NewNode: Angine + EVMApp +
//	         pbft + LevelDB) that produces N blocks with transactions and, in some cases,
//	         validator-set changes committed through real signed admin transactions; it exits
//	         and leaves its directory (genesis.json, data/blockstore.db) behind;
//	syncing  (child, C13_SYNC)    a real node with its own non-validator key, the source's
//	         genesis and fast_sync=true: the block pool, the verify-then-execute loop of the
//	         blockchain reactor and the verifier/executer closures of assembleStateMachine are
//	         the production ones. Being a process of its own, a panic on any goroutine (the
//	         pool routine has no recover) shows as process death;
//	peers    (parent, this test)  1..4 plain p2p.Switch objects with a scripted reactor on the
//	         blockchain channel (c13_peer_test.go) that dial the syncing node and answer its
//	         block requests from the source's block store, honestly or with one tampering per
//	         (peer, height).
//
// Oracle: (a) the syncing process never dies; (b) every block it ever stored is byte-equal
// (block hash and parts-header hash) to the source's block of that height; (c) when it has
// caught up, block store, validator set and application hash equal the source chain's at
// that height (header h+1 of the source carries the application hash after h and the
// validator set of h+1).
package c13

import (
	"bufio"
	"bytes"
	"crypto/ecdsa"
	"encoding/hex"
	"encoding/json"
	"fmt"
	"io"
	"math/big"
	"net"
	"os"
	"os/exec"
	"path/filepath"
	"strconv"
	"strings"
	"sync"
	"testing"
	"time"

	"github.com/spf13/viper"
	"go.uber.org/zap"

	"github.com/dappledger/AnnChain/chain/app/evm"
	"github.com/dappledger/AnnChain/chain/core"
	rtypes "github.com/dappledger/AnnChain/chain/types"
	"github.com/dappledger/AnnChain/eth/accounts/abi"
	"github.com/dappledger/AnnChain/eth/common"
	ecore "github.com/dappledger/AnnChain/eth/core"
	etypes "github.com/dappledger/AnnChain/eth/core/types"
	ecrypto "github.com/dappledger/AnnChain/eth/crypto"
	"github.com/dappledger/AnnChain/eth/rlp"
	gconfig "github.com/dappledger/AnnChain/gemmill/config"
	crypto "github.com/dappledger/AnnChain/gemmill/go-crypto"
	glog "github.com/dappledger/AnnChain/gemmill/modules/go-log"
	gtypes "github.com/dappledger/AnnChain/gemmill/types"

	"verif/internal/h"
)

const chainID = "c13-chain"

func TestMain(m *testing.M) {
	if dir := os.Getenv("C13_SOURCE"); dir != "" {
		runSource(dir)
		return
	}
	if dir := os.Getenv("C13_SYNC"); dir != "" {
		runSync(dir)
		return
	}
	glog.SetLog(zap.NewNop())
	crypto.NodeInit(crypto.CryptoTypeZhongAn)
	h.Main(m)
}

// ---------------------------------------------------------------------------------------
// keys shared by parent and children

var (
	acctKeys [4]*ecdsa.PrivateKey // 0..2 feed transactions, 3 submits the admin transactions
	// the second validator (added / updated / removed by the admin transactions); it never runs
	val2Key = crypto.GenPrivKeyEd25519FromSecret([]byte("c13-validator-2"))
	// a key that is never a validator
	outsiderKey = crypto.GenPrivKeyEd25519FromSecret([]byte("c13-outsider"))
)

func init() {
	for i := range acctKeys {
		k, err := ecrypto.ToECDSA(ecrypto.Keccak256([]byte(fmt.Sprintf("c13-account-%d", i))))
		if err != nil {
			panic(err)
		}
		acctKeys[i] = k
	}
}

func nodeConf(dir string, port int, fastSync bool) *viper.Viper {
	conf := gconfig.DefaultConfig()
	conf.Set("p2p_laddr", fmt.Sprintf("tcp://127.0.0.1:%d", port))
	conf.Set("rpc_laddr", "")
	conf.Set("log_path", filepath.Join(dir, "log"))
	conf.Set("audit_log_path", filepath.Join(dir, "audit.log"))
	conf.Set("environment", "production")
	conf.Set("pex_reactor", false)
	conf.Set("auth_by_ca", false)
	conf.Set("fast_sync", fastSync)
	conf.Set("skip_upnp", true)
	conf.Set("timeout_propose", 60)
	conf.Set("timeout_propose_delta", 10)
	conf.Set("timeout_prevote", 30)
	conf.Set("timeout_prevote_delta", 10)
	conf.Set("timeout_precommit", 30)
	conf.Set("timeout_precommit_delta", 10)
	conf.Set("timeout_commit", 40)
	conf.Set("block_size", 50)
	return conf
}

var procStart = time.Now()

func sayT(phase string) { say("T %s %d ms", phase, time.Since(procStart).Milliseconds()) }

func say(f string, a ...any) {
	fmt.Fprintf(os.Stdout, "C13 "+f+"\n", a...)
}

// ---------------------------------------------------------------------------------------
// child: the source node

// Change is one validator-set change of the source chain: an admin transaction about the
// second validator, submitted when the chain has reached height At-1.
type Change struct {
	At    int64  `json:"at"`
	Op    string `json:"op"` // add_peer | update_node | remove_node
	Power int64  `json:"power"`
}

var (
	adminABI  abi.ABI
	ethSigner = etypes.HomesteadSigner{}
	fixedTime = time.Unix(1500000000, 0).UTC()
)

func init() {
	var err error
	if adminABI, err = abi.JSON(strings.NewReader(ecore.AdminABI)); err != nil {
		panic(err)
	}
}

// adminTx builds what cmd/client builds for a validator change: the command signed by the
// running validator (which holds more than 2/3 of the power throughout), wrapped into a signed
// transaction to the admin contract.
func adminTx(nonce uint64, ch Change, v1 crypto.PrivKey) ([]byte, error) {
	v2pub := val2Key.PubKey().(crypto.PubKeyEd25519)
	adminAddr := ecrypto.PubkeyToAddress(acctKeys[3].PublicKey)
	attr := gtypes.ValidatorAttr{PubKey: v2pub[:], Power: ch.Power, Cmd: gtypes.ValidatorCmd(ch.Op), Addr: adminAddr.Bytes(), Nonce: nonce}
	msg, err := json.Marshal(&attr)
	if err != nil {
		return nil, err
	}
	cmd := gtypes.AdminOPCmd{CmdType: gtypes.AdminOpChangeValidator, Msg: msg, Time: fixedTime}
	v1pub := v1.PubKey().(crypto.PubKeyEd25519)
	sig := v1.Sign(msg).(crypto.SignatureEd25519)
	cmd.SInfos = []gtypes.SigInfo{{PubKey: append([]byte{}, v1pub[:]...), Signature: append([]byte{}, sig[:]...)}}
	if ch.Op == string(gtypes.ValidatorCmdAddPeer) {
		self := val2Key.Sign(msg).(crypto.SignatureEd25519)
		cmd.SelfSign = append([]byte{}, self[:]...)
	}
	js, err := json.Marshal(&cmd)
	if err != nil {
		return nil, err
	}
	data, err := adminABI.Pack(ecore.AdminMethod, gtypes.TagAdminOPTx(js))
	if err != nil {
		return nil, err
	}
	tx := etypes.NewTransaction(nonce, ecore.AdminTo, big.NewInt(0), 50000000, big.NewInt(0), data)
	signed, err := etypes.SignTx(tx, ethSigner, acctKeys[3])
	if err != nil {
		return nil, err
	}
	return rlp.EncodeToBytes(signed)
}

func nonceOf(app *evm.EVMApp, k *ecdsa.PrivateKey) (uint64, bool) {
	addr := ecrypto.PubkeyToAddress(k.PublicKey)
	res := app.Query(append([]byte{byte(rtypes.QueryType_Nonce)}, addr[:]...))
	var nonce uint64
	if err := rlp.DecodeBytes(res.Data, &nonce); err != nil {
		return 0, false
	}
	return nonce, true
}

// runSource is the source child's main: run the chain up to C13_BLOCKS blocks, feeding
// transactions of the scenario's kind at every height and submitting the validator changes,
// then exit 0.
func runSource(dir string) {
	evm.VerifSetValidateRoutineCount(1)
	kind := os.Getenv("C13_KIND")
	stop, _ := strconv.ParseInt(os.Getenv("C13_BLOCKS"), 10, 64)
	port, _ := strconv.Atoi(os.Getenv("C13_PORT"))
	var changes []Change
	json.Unmarshal([]byte(os.Getenv("C13_CHANGES")), &changes)
	conf := nodeConf(dir, port, false)
	if err := gconfig.InitRuntime(dir, chainID, conf); err != nil {
		say("FATAL init %v", err)
		os.Exit(3)
	}
	sayT("init")
	node, err := core.NewNode(conf, dir, "evm")
	if err != nil {
		say("FATAL newnode %v", err)
		os.Exit(3)
	}
	sayT("newnode")
	if err := node.Start(); err != nil {
		say("FATAL start %v", err)
		os.Exit(3)
	}
	sayT("started")
	app := node.Application.(*evm.EVMApp)
	v1 := node.Angine.PrivValidator().GetPrivKey()
	lastFed := int64(-1)
	feed := func(height int64) {
		if height <= lastFed || kind == "empty" {
			return
		}
		lastFed = height
		for ai, k := range acctKeys[:3] {
			nonce, ok := nonceOf(app, k)
			if !ok {
				continue
			}
			for j := uint64(0); j < 2; j++ {
				var tx *etypes.Transaction
				n := nonce + j
				switch {
				case kind == "kv" || (kind == "mixed" && ai == 2):
					enc, _ := rlp.EncodeToBytes(&rtypes.KV{Key: []byte(fmt.Sprintf("k-%d-%d", ai, n)), Value: []byte(fmt.Sprintf("v-%d", height))})
					tx = etypes.NewTransaction(n, common.Address{}, big.NewInt(0), 100000, big.NewInt(0), append(append([]byte{}, rtypes.KVTxType...), enc...))
				case n%3 == 0:
					// a contract whose constructor stores its creation nonce and returns tiny code
					code := []byte{0x60, byte(n), 0x60, 0x00, 0x55, 0x60, 0x01, 0x60, 0x00, 0xf3}
					tx = etypes.NewContractCreation(n, big.NewInt(0), 3000000, big.NewInt(0), code)
				default:
					tx = etypes.NewTransaction(n, common.BytesToAddress([]byte{0xaa, byte(ai)}), big.NewInt(0), 100000, big.NewInt(0), []byte{byte(height)})
				}
				signed, err := etypes.SignTx(tx, ethSigner, k)
				if err != nil {
					continue
				}
				raw, _ := rlp.EncodeToBytes(signed)
				node.Angine.BroadcastTx(raw)
			}
		}
	}
	// validator changes: the i-th is submitted once the chain is at height At-1 and the previous
	// one was executed (the admin account's nonce has advanced)
	nextChange := 0
	var sentNonce uint64
	sentAt := int64(-1)
	admin := func(height int64) {
		if nextChange >= len(changes) {
			return
		}
		nonce, ok := nonceOf(app, acctKeys[3])
		if !ok {
			return
		}
		if sentAt >= 0 {
			if nonce <= sentNonce && height < sentAt+4 {
				return // not executed yet
			}
			if nonce <= sentNonce {
				say("CHANGE-LOST %d", nextChange)
			} else {
				say("CHANGE-EXECUTED %d by height %d", nextChange, height)
			}
			nextChange++
			sentAt = -1
			if nextChange >= len(changes) {
				return
			}
		}
		ch := changes[nextChange]
		if height < ch.At-1 {
			return
		}
		raw, err := adminTx(nonce, ch, v1)
		if err != nil {
			say("FATAL admintx %v", err)
			os.Exit(3)
		}
		node.Angine.BroadcastTx(raw)
		sentNonce, sentAt = nonce, height
	}
	deadline := time.Now().Add(60 * time.Second)
	valsAt := int64(-1)
	begin := time.Now()
	for time.Now().Before(deadline) {
		// the validator set in force after each block (height of the state, members and powers)
		if vh, vs := node.Angine.GetValidators(); vh > valsAt && vs != nil {
			valsAt = vh
			var ds []string
			for _, v := range vs.Validators {
				ds = append(ds, fmt.Sprintf("%X:%d", v.Address[:4], v.VotingPower))
			}
			say("VALS %d %s", vh, strings.Join(ds, ","))
		}
		hgt := node.Angine.Height()
		if hgt >= stop {
			say("ELAPSED %d ms", time.Since(begin).Milliseconds())
			_, vs := node.Angine.GetValidators()
			say("DONE %d validators=%d", hgt, vs.Size())
			os.Exit(0)
		}
		admin(hgt)
		feed(hgt)
		time.Sleep(5 * time.Millisecond)
	}
	say("STALLED at %d", node.Angine.Height())
	os.Exit(4)
}

// ---------------------------------------------------------------------------------------
// child: the syncing node

type syncBlock struct {
	Height    int64  `json:"height"`
	Hash      string `json:"hash"`
	PartsHash string `json:"parts_hash"`
	Parts     int    `json:"parts"`
}

type syncReport struct {
	StoreHeight int64       `json:"store_height"`
	Blocks      []syncBlock `json:"blocks"`
	ValHeight   int64       `json:"val_height"`
	ValHash     string      `json:"val_hash"`
	ValSize     int         `json:"val_size"`
	AppHeight   int64       `json:"app_height"`
	AppHash     string      `json:"app_hash"`
	Reached     bool        `json:"reached"`
	ElapsedMs   int64       `json:"elapsed_ms"`
	// Switched: the pool routine announced the switch to consensus (its log line) before the report
	Switched   bool  `json:"switched"`
	SwitchWait int64 `json:"switch_wait_ms"` // how long after REACHED the child kept looking for it
}

// runSync is the syncing child's main: a fresh node directory with its own key and the
// source's genesis, fast sync on. It prints one line per block that becomes visible in its
// store and, when it has reached C13_TARGET and lingered C13_LINGER_MS (so that the switch to
// consensus happens while it is watched) or when C13_BUDGET_MS is over, a report.
func runSync(dir string) {
	evm.VerifSetValidateRoutineCount(1)
	port, _ := strconv.Atoi(os.Getenv("C13_PORT"))
	target, _ := strconv.ParseInt(os.Getenv("C13_TARGET"), 10, 64)
	budget, _ := strconv.Atoi(os.Getenv("C13_BUDGET_MS"))
	linger, _ := strconv.Atoi(os.Getenv("C13_LINGER_MS"))
	conf := nodeConf(dir, port, true)
	if err := gconfig.InitRuntime(dir, chainID, conf); err != nil {
		say("FATAL init %v", err)
		os.Exit(3)
	}
	gen, err := os.ReadFile(os.Getenv("C13_GENESIS"))
	if err != nil {
		say("FATAL genesis %v", err)
		os.Exit(3)
	}
	if err := os.WriteFile(filepath.Join(dir, "genesis.json"), gen, 0o600); err != nil {
		say("FATAL genesis %v", err)
		os.Exit(3)
	}
	sayT("init")
	node, err := core.NewNode(conf, dir, "evm")
	if err != nil {
		say("FATAL newnode %v", err)
		os.Exit(3)
	}
	sayT("newnode")
	if err := node.Start(); err != nil {
		say("FATAL start %v", err)
		os.Exit(3)
	}
	sayT("started")
	app := node.Application.(*evm.EVMApp)
	say("LISTENING %d", port)
	start := time.Now()
	printed := int64(0)
	var blocks []syncBlock
	printBlocks := func() {
		hgt := node.Angine.Height()
		for printed < hgt {
			meta, err := node.Angine.GetBlockMeta(printed + 1)
			if err != nil || meta == nil {
				return
			}
			printed++
			b := syncBlock{Height: printed, Hash: hex.EncodeToString(meta.Hash), PartsHash: hex.EncodeToString(meta.PartsHeader.Hash), Parts: meta.PartsHeader.Total}
			blocks = append(blocks, b)
			say("BLOCK %d %s %s %d", b.Height, b.Hash, b.PartsHash, b.Parts)
		}
	}
	var reachedAt time.Time
	switched := func() bool {
		lb, _ := os.ReadFile(filepath.Join(dir, "log"))
		return bytes.Contains(lb, []byte("Time to switch to consensus"))
	}
	report := func(reached bool) {
		// the reactor stores a block and then executes it: for a moment the store is one block ahead
		// of state and application. The report is taken (within 3 s) at a moment when the three
		// agree, read twice with the same result; otherwise as they are.
		var sh, vh, ah int64
		var vhash, ahash string
		var vsize int
		for i := 0; i < 300; i++ {
			sh = node.Angine.Height()
			h1, vs := node.Angine.GetValidators()
			info := app.Info()
			vh, vhash, vsize = h1, hex.EncodeToString(vs.Hash()), vs.Size()
			ah, ahash = info.LastBlockHeight, hex.EncodeToString(info.LastBlockAppHash)
			if vh == sh && ah == sh && node.Angine.Height() == sh {
				break
			}
			time.Sleep(10 * time.Millisecond)
		}
		printBlocks()
		rep := syncReport{StoreHeight: sh, Blocks: blocks, Reached: reached, ElapsedMs: time.Since(start).Milliseconds(), Switched: switched()}
		if !reachedAt.IsZero() {
			rep.SwitchWait = time.Since(reachedAt).Milliseconds()
		}
		rep.ValHeight, rep.ValHash, rep.ValSize = vh, vhash, vsize
		rep.AppHeight, rep.AppHash = ah, ahash
		bz, _ := json.Marshal(rep)
		say("REPORT %s", bz)
	}
	for {
		printBlocks()
		if reachedAt.IsZero() && printed >= target {
			reachedAt = time.Now()
			say("REACHED %d after %d ms", printed, time.Since(start).Milliseconds())
		}
		if !reachedAt.IsZero() && time.Since(reachedAt) >= time.Duration(linger)*time.Millisecond {
			// C13_WAIT_SWITCH_MS: keep watching that long for the pool routine's announcement (it
			// asks itself once a second; a loaded machine may need a few seconds more)
			waitMs, _ := strconv.Atoi(os.Getenv("C13_WAIT_SWITCH_MS"))
			if switched() || time.Since(reachedAt) >= time.Duration(linger+waitMs)*time.Millisecond {
				report(true)
				os.Exit(0)
			}
		}
		if time.Since(start) >= time.Duration(budget)*time.Millisecond {
			report(!reachedAt.IsZero())
			os.Exit(0)
		}
		time.Sleep(5 * time.Millisecond)
	}
}

// ---------------------------------------------------------------------------------------
// parent: child process plumbing

type childProc struct {
	cmd   *exec.Cmd
	mu    sync.Mutex
	lines []string
	done  chan struct{}
	ready chan struct{} // closed when the child printed LISTENING
}

func freePort() int {
	l, err := net.Listen("tcp", "127.0.0.1:0")
	if err != nil {
		return 46999
	}
	defer l.Close()
	return l.Addr().(*net.TCPAddr).Port
}

func startChild(env ...string) (*childProc, error) {
	cmd := exec.Command(os.Args[0], "-test.run", "^$")
	cmd.Env = append(os.Environ(), env...)
	// a node has dozens of busy goroutines; 16 shards x 2 nodes must not fight over the cores
	cmd.Env = append(cmd.Env, "VERIF_EV_OUT=", "VERIF_REPLAY=", "GOMAXPROCS=4")
	pr, pw := io.Pipe()
	cmd.Stdout = pw
	cmd.Stderr = pw
	cp := &childProc{cmd: cmd, done: make(chan struct{}), ready: make(chan struct{})}
	if err := cmd.Start(); err != nil {
		return nil, err
	}
	go func() {
		sc := bufio.NewScanner(pr)
		sc.Buffer(make([]byte, 1<<20), 1<<24)
		readied := false
		for sc.Scan() {
			l := sc.Text()
			cp.mu.Lock()
			if len(cp.lines) < 20000 {
				cp.lines = append(cp.lines, l)
			}
			cp.mu.Unlock()
			if !readied && strings.HasPrefix(l, "C13 LISTENING") {
				readied = true
				close(cp.ready)
			}
		}
	}()
	go func() {
		cmd.Wait()
		pw.Close()
		close(cp.done)
	}()
	return cp, nil
}

func (cp *childProc) output() []string {
	cp.mu.Lock()
	defer cp.mu.Unlock()
	return append([]string{}, cp.lines...)
}

// wait returns false when the child had to be killed after d.
func (cp *childProc) wait(d time.Duration) bool {
	select {
	case <-cp.done:
		time.Sleep(20 * time.Millisecond) // let the scanner drain
		return true
	case <-time.After(d):
		cp.cmd.Process.Kill()
		<-cp.done
		return false
	}
}

func (cp *childProc) exitCode() int {
	if cp.cmd.ProcessState == nil {
		return -1
	}
	return cp.cmd.ProcessState.ExitCode()
}

// deathOf extracts the panic line and the innermost non-runtime frame of the panicking
// goroutine from a dead child's output.
func deathOf(lines []string) (msg, site string) {
	for i, l := range lines {
		if strings.HasPrefix(l, "panic:") || strings.HasPrefix(l, "fatal error:") {
			msg = strings.TrimSpace(l)
			for j := i + 1; j < len(lines); j++ {
				if strings.HasPrefix(lines[j], "goroutine ") && strings.Contains(lines[j], "[running]") {
					for k := j + 1; k < len(lines); k++ {
						f := lines[k]
						if f == "" {
							break
						}
						if strings.HasPrefix(f, "\t") || strings.HasPrefix(f, "panic(") || strings.HasPrefix(f, "runtime.") || strings.HasPrefix(f, "runtime/") ||
							strings.Contains(f, "go-common.Panic") || strings.Contains(f, "created by") {
							continue
						}
						if p := strings.LastIndex(f, "("); p > 0 {
							f = f[:p]
						}
						if p := strings.LastIndex(f, "/"); p >= 0 {
							f = f[p+1:]
						}
						return msg, f
					}
					break
				}
			}
			return msg, "unknown"
		}
	}
	return "", ""
}

func tailLines(lines []string, n int) string {
	if len(lines) > n {
		lines = lines[len(lines)-n:]
	}
	return strings.Join(lines, "\n")
}
