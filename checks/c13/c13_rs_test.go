// Leg reactorsched of C13: the real BlockchainReactor.poolRoutine + BlockPool + BlockStore +
// state.State.ApplyBlock in ONE process, with the schedule owned by the harness.
//
// The two closures the reactor is given (SetBlockVerifier / SetBlockExecuter, the same
// expressions as in angine.assembleStateMachine) are the scheduling points: the pool routine is
// inside one of them, and therefore standing still, whenever the harness lets anything happen
// (a peer is removed, times out, stops being asked, another peer answers with a genuine or an
// altered block, a status message arrives). A third point is the stall: when the pool routine
// cannot go on because one of the two lowest blocks is missing, the main goroutine acts.
// Every action ends by waiting until the pool's asynchronous reaction (requester redo, lazy
// removal of a timed-out peer) has finished, so a case is a deterministic history.
//
// Which peer is asked for which height is made deterministic by the harness keeping at most one
// peer eligible (claimed height >= chain height) at any time: older peers keep the requests they
// have and the blocks they delivered, but claim height 0 through a status message when a newer
// peer appears. Peers talk to the reactor through its real Receive / RemovePeer.
package c13

import (
	"bytes"
	"errors"
	"fmt"
	"runtime"
	"runtime/debug"
	"sort"
	"sync"
	"testing"
	"time"

	"github.com/spf13/viper"
	"go.uber.org/zap"
	"pgregory.net/rapid"

	"github.com/dappledger/AnnChain/gemmill/archive"
	bc "github.com/dappledger/AnnChain/gemmill/blockchain"
	"github.com/dappledger/AnnChain/gemmill/go-wire"
	glog "github.com/dappledger/AnnChain/gemmill/modules/go-log"
	"github.com/dappledger/AnnChain/gemmill/p2p"
	gtypes "github.com/dappledger/AnnChain/gemmill/types"

	"verif/internal/h"
)

// ---- the case ---------------------------------------------------------------------------

// RSAct is one thing the environment does.
//
//	op       deliver  the peer asked for height base+d ("asked"), another peer of the pool
//	                  ("other") or an unknown peer ("stranger") sends the block <kind> of that height
//	         remove   the peer that holds the request for height base+d (or served it) is removed
//	         timeout  the same peer's time-out timer fires (only if it owes an answer)
//	         late     the peer that owes the answer for base+d is removed while its (genuine) answer
//	                  is on the way
//	         switch   a new peer appears and is the one asked from now on; nobody is removed
//	         status   from=eligible: the asked peer re-announces its height (arg odd: two more than
//	                  the chain has); from=lower: it announces a height below the pool's (it is
//	                  not asked any more); from=other: another peer announces a low height
//	         flush    every open request is answered with the genuine block
//	         nop
//	base     the height under verification / execution (windows), the pool's height (stalls),
//	         0 (initial feed: d is the height itself)
type RSAct struct {
	Op   string `json:"op"`
	D    int    `json:"d,omitempty"`
	Kind string `json:"kind,omitempty"`
	From string `json:"from,omitempty"`
	Arg  int    `json:"arg,omitempty"`
}

// RSWindow is what happens around the i-th verification the reactor asks for.
type RSWindow struct {
	During []RSAct `json:"during,omitempty"` // while the reactor is inside the verifier
	Exec   []RSAct `json:"exec,omitempty"`   // after a successful verification, before the block is applied
}

type RSCase struct {
	Powers      []int64       `json:"powers"` // genesis validators 0..len-1
	N           int           `json:"n"`      // source chain height; blocks 1..n-1 can be synced
	TxSeed      uint64        `json:"tx_seed"`
	Changes     []RSValChange `json:"changes,omitempty"`
	Attackers   []int         `json:"attackers,omitempty"` // validator ids whose keys the peers hold (trimmed to <= 2/3 of the power)
	Bystanders  int           `json:"bystanders,omitempty"`
	Spare       bool          `json:"spare"` // a new peer is there before the asked one goes
	Init        []RSAct       `json:"init"`  // before the pool routine starts
	Windows     []RSWindow    `json:"windows,omitempty"`
	Stalls      [][]RSAct     `json:"stalls,omitempty"`
	GiveUpAfter int           `json:"give_up_after,omitempty"` // all peers leave at that stall (0: never)
}

const (
	rsAwait            = 4 * time.Second // bound of one wait for the pool's asynchronous reaction
	rsBudget           = 12 * time.Second
	rsMaxVerifications = 80
	rsMaxStalls        = 24
	rsStranger         = "zz-stranger"
)

var rsOnce sync.Once

// ---- generator ----------------------------------------------------------------------------

func rsGenKind(t *rapid.T, genuinePct int, label string) string {
	if rapid.IntRange(0, 99).Draw(t, label+"-g") < genuinePct {
		return "genuine"
	}
	return rsKinds[rapid.IntRange(1, len(rsKinds)-1).Draw(t, label)]
}

var (
	rsOps   = []string{"deliver", "deliver", "deliver", "deliver", "remove", "remove", "remove", "switch", "status", "timeout", "late", "flush", "flush", "nop", "nilblock"}
	rsFroms = []string{"asked", "asked", "asked", "asked", "asked", "other", "stranger"}
	rsWho   = []string{"eligible", "other", "lower"}
)

func rsGenAct(t *rapid.T, label string) RSAct {
	a := RSAct{Op: rapid.SampledFrom(rsOps).Draw(t, label+"-op")}
	switch a.Op {
	case "deliver":
		a.D = rapid.IntRange(0, 2).Draw(t, label+"-d")
		a.Kind = rsGenKind(t, 30, label+"-kind")
		a.From = rapid.SampledFrom(rsFroms).Draw(t, label+"-from")
		a.Arg = rapid.IntRange(0, 7).Draw(t, label+"-arg")
	case "remove", "timeout", "late":
		a.D = rapid.IntRange(0, 2).Draw(t, label+"-d")
	case "status":
		a.From = rapid.SampledFrom(rsWho).Draw(t, label+"-who")
		a.Arg = rapid.IntRange(0, 3).Draw(t, label+"-arg")
	}
	return a
}

func genRS(t *rapid.T) RSCase {
	c := RSCase{}
	if shape := rapid.IntRange(0, 9).Draw(t, "valshape"); shape < 4 {
		c.Powers = []int64{1, 1, 1, 1}
	} else if shape == 4 {
		c.Powers = []int64{1, 1, 1, 1, 1} // total power 2 mod 3: 2/3 of it is not a whole number
	} else {
		n := rapid.IntRange(1, 5).Draw(t, "nvals")
		for i := 0; i < n; i++ {
			c.Powers = append(c.Powers, int64(rapid.IntRange(1, 5).Draw(t, "power")))
		}
	}
	c.N = rapid.IntRange(4, 8).Draw(t, "n")
	c.TxSeed = rapid.Uint64().Draw(t, "txseed")
	for i, k := 0, rapid.SampledFrom([]int{0, 0, 0, 1, 1, 2}).Draw(t, "nchanges"); i < k; i++ {
		c.Changes = append(c.Changes, RSValChange{
			At:    rapid.IntRange(1, c.N-2).Draw(t, "change-at"),
			ID:    rapid.IntRange(0, rsMaxValID).Draw(t, "change-id"),
			Power: int64(rapid.IntRange(0, 5).Draw(t, "change-power")),
		})
	}
	c.Attackers = rapid.SliceOfNDistinct(rapid.IntRange(0, rsMaxValID), 0, 3, func(i int) int { return i }).Draw(t, "attackers")
	c.Bystanders = rapid.IntRange(0, 2).Draw(t, "bystanders")
	c.Spare = rapid.IntRange(0, 9).Draw(t, "spare") < 9

	// initial feed: the first answers in any order, some altered, some missing, some repeated or
	// sent by peers that were not asked
	heights := make([]int, c.N)
	for i := range heights {
		heights[i] = i + 1
	}
	perm := rapid.Permutation(heights).Draw(t, "order")
	kinds := map[int]string{}
	args := map[int]int{}
	for _, g := range perm {
		kinds[g] = rsGenKind(t, 72, "init-kind")
		args[g] = rapid.IntRange(0, 7).Draw(t, "init-arg")
	}
	if rapid.IntRange(0, 99).Draw(t, "thin-commit") < 12 {
		// a successor whose LastCommit was thinned out to just not more than 2/3 of the power
		kinds[rapid.IntRange(2, c.N).Draw(t, "thin-at")] = "lastcommit-thin"
	}
	if rapid.IntRange(0, 99).Draw(t, "forged-pair") < 30 {
		// a forged block together with a successor that names it and carries the attackers' precommits
		g := rapid.IntRange(1, c.N-1).Draw(t, "forged-at")
		kinds[g] = "txs"
		kinds[g+1] = rapid.SampledFrom([]string{"on-forged", "on-forged-repeat", "on-forged-repeat", "on-genuine-repeat", "on-forged-prevotes", "on-forged-prevotes", "on-forged-relabel", "on-forged-relabel"}).Draw(t, "forged-next")
		if kinds[g+1] == "on-genuine-repeat" {
			kinds[g] = "genuine"
		}
	}
	for _, g := range perm {
		r := rapid.IntRange(0, 99).Draw(t, "init-shape")
		if r < 7 {
			continue // no answer yet
		}
		c.Init = append(c.Init, RSAct{Op: "deliver", D: g, Kind: kinds[g], From: "asked", Arg: args[g]})
		switch {
		case r < 15: // a second answer
			c.Init = append(c.Init, RSAct{Op: "deliver", D: g, Kind: rsGenKind(t, 40, "dup-kind"), From: "asked", Arg: args[g]})
		case r < 22: // an answer nobody asked this peer for
			c.Init = append(c.Init, RSAct{Op: "deliver", D: rapid.IntRange(1, c.N).Draw(t, "unasked-h"), Kind: rsGenKind(t, 30, "unasked-kind"),
				From: rapid.SampledFrom([]string{"other", "stranger"}).Draw(t, "unasked-from"), Arg: args[g]})
		case r < 27:
			c.Init = append(c.Init, RSAct{Op: rapid.SampledFrom([]string{"remove", "switch", "status"}).Draw(t, "init-op"), D: g, From: "eligible", Arg: 1})
		}
	}

	nw := c.N + 3
	for i := 0; i < nw; i++ {
		w := RSWindow{}
		switch shape := rapid.IntRange(0, 9).Draw(t, "window-shape"); {
		case shape < 3:
		case shape < 6:
			// the request under (or next to) verification is taken away and answered again
			d := rapid.IntRange(0, 1).Draw(t, "refill-d")
			op := rapid.SampledFrom([]string{"remove", "remove", "remove", "timeout"}).Draw(t, "refill-op")
			w.During = []RSAct{{Op: op, D: d}, {Op: "deliver", D: d, Kind: rsGenKind(t, 25, "refill-kind"), From: "asked", Arg: rapid.IntRange(0, 7).Draw(t, "refill-arg")}}
			if shape == 5 {
				w.During = append([]RSAct{{Op: "switch"}}, w.During...)
			}
		default:
			for j, k := 0, rapid.IntRange(1, 3).Draw(t, "nduring"); j < k; j++ {
				w.During = append(w.During, rsGenAct(t, "during"))
			}
		}
		if rapid.IntRange(0, 9).Draw(t, "exec-shape") < 2 {
			for j, k := 0, rapid.IntRange(1, 2).Draw(t, "nexec"); j < k; j++ {
				w.Exec = append(w.Exec, rsGenAct(t, "exec"))
			}
		}
		c.Windows = append(c.Windows, w)
	}
	for i, k := 0, rapid.IntRange(0, 3).Draw(t, "nstalls"); i < k; i++ {
		var l []RSAct
		for j, m := 0, rapid.IntRange(0, 2).Draw(t, "nstall-acts"); j < m; j++ {
			l = append(l, rsGenAct(t, "stall"))
		}
		c.Stalls = append(c.Stalls, l)
	}
	if rapid.IntRange(0, 9).Draw(t, "giveup") == 0 {
		c.GiveUpAfter = rapid.IntRange(1, 3).Draw(t, "giveup-after")
	}
	return c
}

// ---- the world ------------------------------------------------------------------------------

type rsVerified struct {
	h   int64
	id  gtypes.BlockID
	lc  *gtypes.Commit
	raw []byte
}

type rsWorld struct {
	c     RSCase
	x     *h.Ctx
	chain *rsChain
	node  *rsNode
	bcR   *bc.BlockchainReactor
	pv    *rsPoolView
	n     int64

	mu   sync.Mutex // everything below; held by whoever acts (closure or main)
	done chan struct{}

	peerObjs map[string]*p2p.Peer
	seq      int
	eligible string
	served   map[int64]string // who delivered the block that sits (sat) in the requester of a height

	vcalls       int
	vfailed      int
	last         *rsVerified
	awaitExec    bool   // a verification succeeded: the pool routine is on its way to the executer
	awaitRedo    string // a verification failed: the pool routine is on its way to remove this peer (RedoRequest)
	awaitSince   time.Time
	poolDead     bool // the pool's mutex is held for ever: hands off
	applied      int64
	stalls       int
	halted       bool // a violation was recorded, everything stands still
	ended        bool
	gaveUp       bool
	inconclusive string

	windowEffects int  // actions with an effect inside a verification window
	wentOn        bool // a block was applied after such an action
	refills       int
	alteredRefill int
	labels        map[string]bool
}

func (w *rsWorld) label(f string, a ...any) { w.labels[fmt.Sprintf(f, a...)] = true }

// fail records a violation; true = the case must stand still now.
func (w *rsWorld) fail(sig, f string, a ...any) bool {
	w.x.Fail(sig, f, a...)
	w.halted = true
	return true
}

func (w *rsWorld) peer(id string) *p2p.Peer {
	p := w.peerObjs[id]
	if p == nil {
		p = &p2p.Peer{Key: id, NodeInfo: &p2p.NodeInfo{RemoteAddr: id, Moniker: id}}
		w.peerObjs[id] = p
	}
	return p
}

// snap: the pool as it is now. Once the pool is locked up (its mutex is held for ever) nothing
// of the harness may touch it again.
func (w *rsWorld) snap() rsSnap {
	if w.poolDead {
		return rsSnap{reqs: map[int64]rsReq{}, peers: map[string]rsPeerInfo{}}
	}
	return w.pv.snap(w.n + 3)
}

func (w *rsWorld) dropPeer(id string, reason interface{}) {
	if !w.poolDead {
		w.bcR.RemovePeer(w.peer(id), reason)
	}
}

// pairReady: the pool routine has two blocks to work on.
func (w *rsWorld) pairReady() bool {
	if w.poolDead {
		return false
	}
	f, s := w.pv.pool.PeekTwoBlocks()
	return f != nil && s != nil
}

// sigLate: BlockPool.AddBlock assumes that the sender of an accepted block is still in pool.peers and
// that the requester is listening on gotBlockCh; neither holds while the asynchronous redo of a
// just-removed peer's requesters is under way.
const sigLate = "pool-addblock-races-with-redo-of-removed-peer"

// receive hands message bytes of a peer to the reactor the way the peer's connection does: a
// panic in Receive is caught by MConnection._recover on the receive routine, the connection is
// stopped with that error and the switch removes the peer from every reactor. The node lives on,
// but a peer was dropped because of a defect of the node: reported.
func (w *rsWorld) receive(from string, msg []byte) {
	defer func() {
		if p := recover(); p != nil {
			site := h.PanicSite(debug.Stack())
			sig := "receive-panics:" + site
			if site == "blockchain.(*bpPeer).decrPending" {
				sig = sigLate
			}
			w.label("receive-panics-connection-dropped:" + site)
			if w.x.Fail(sig, "Receive of a message from peer %s panicked (in production MConnection._recover drops the connection): %v", from, p) {
				w.halted = true
				return
			}
			if from == w.eligible {
				w.eligible = ""
			}
			// (the switch removes the peer from the reactors; not repeated here when the pool has
			// dropped it already: a second removePeer would redo its requesters a second time)
			if _, in := w.snap().peers[from]; in {
				w.dropPeer(from, fmt.Errorf("%v", p))
			}
		}
	}()
	w.bcR.Receive(bcChannel, w.peer(from), msg)
}

// nilBlockFrom delivers a block response without a block. A panic inside Receive is what
// MConnection._recover is for (the sender loses its connection); what must not happen is that the
// panic leaves the pool's mutex locked.
func (w *rsWorld) nilBlockFrom(from string) {
	msg := wire.BinaryBytes(struct{ C13Message }{&blockResponseMsg{Block: nil}})
	panicked := false
	func() {
		defer func() {
			if p := recover(); p != nil {
				panicked = true
			}
		}()
		w.bcR.Receive(bcChannel, w.peer(from), msg)
	}()
	if panicked {
		w.label("nil-block-answer:receive-panics-connection-dropped")
	} else {
		w.label("nil-block-answer:ignored")
	}
	free := false
	for i := 0; i < 200 && !free; i++ {
		if w.pv.mtx.TryLock() {
			w.pv.mtx.Unlock()
			free = true
		} else {
			time.Sleep(10 * time.Millisecond)
		}
	}
	if !free {
		w.poolDead = true
		w.halted = true
		w.label("pool-locked-up")
		w.x.Fail("pool-mutex-left-locked-by-failed-receive", "a block response without a block from peer %s made Receive fail (panicked=%v) and the pool's mutex is still held 2 s later: RemovePeer, every status response, PeekTwoBlocks and IsCaughtUp hang from now on, the node can neither sync nor switch to consensus", from, panicked)
		return
	}
	if panicked {
		if from == w.eligible {
			w.eligible = ""
		}
		if _, in := w.snap().peers[from]; in {
			w.dropPeer(from, fmt.Errorf("panic in Receive"))
		}
	}
}

func (w *rsWorld) sendBlock(from string, b *gtypes.Block) {
	if w.poolDead {
		return
	}
	w.sendBlockGuarded(from, b)
}

// sendBlockGuarded delivers a block response and notices when the pool locks up: AddBlock blocks
// on the requester's gotBlockCh while holding the pool's mutex, and the requester, which took a
// redo first, waits for that mutex.
func (w *rsWorld) sendBlockGuarded(from string, b *gtypes.Block) {
	msg := wire.BinaryBytes(struct{ C13Message }{&blockResponseMsg{Block: b}})
	done := make(chan struct{})
	go func() {
		defer close(done)
		w.receive(from, msg)
	}()
	deadline := time.Now().Add(10 * time.Second)
	for {
		select {
		case <-done:
			return
		case <-time.After(3 * time.Second):
		}
		if w.pv.mtx.TryLock() {
			w.pv.mtx.Unlock() // slow, not locked up
			if time.Now().Before(deadline) {
				continue
			}
			w.inconclusive = "late-answer-slow"
			w.poolDead = true
			return
		}
		if time.Now().After(deadline) {
			break
		}
	}
	w.poolDead = true
	w.halted = true
	w.label("pool-locked-up")
	w.x.Fail(sigLate, "the answer of peer %s never returns from BlockPool.AddBlock: it holds the pool's mutex and waits for the requester, which took a redo and waits for the mutex; the pool (PeekTwoBlocks, every Receive) stands still for ever", from)
}

func (w *rsWorld) sendStatus(from string, height int64) {
	if w.poolDead {
		return
	}
	w.receive(from, wire.BinaryBytes(struct{ C13Message }{&statusResponseMsg{Height: height}}))
}

func (w *rsWorld) await(what string, cond func(s rsSnap) bool) bool {
	if w.inconclusive != "" || w.poolDead {
		return false
	}
	deadline := time.Now().Add(rsAwait)
	for i := 0; ; i++ {
		if cond(w.snap()) {
			return true
		}
		if time.Now().After(deadline) {
			w.inconclusive = "await-" + what
			return false
		}
		if i < 20 {
			runtime.Gosched()
		} else {
			time.Sleep(150 * time.Microsecond)
		}
	}
}

func rsCanServe(p rsPeerInfo, g int64) bool { return !p.didTimeout && p.height >= g }

// quiescent: no requester of the chain's heights is between two peers.
func (w *rsWorld) quiescent(s rsSnap) bool {
	for g := s.height; g <= w.n; g++ {
		r, ok := s.reqs[g]
		if !ok {
			return false // requester not made yet
		}
		if r.peer != "" {
			if _, in := s.peers[r.peer]; !in {
				return false // its peer is gone, the redo is on its way
			}
			continue
		}
		for _, p := range s.peers {
			if rsCanServe(p, g) {
				return false // it is about to pick that peer
			}
		}
	}
	return true
}

func (w *rsWorld) settle() bool { return w.await("quiescence", w.quiescent) }

// newEligible: a new peer announces the chain's height; every other peer that could be asked
// announces height 0 (it keeps what it has). Nobody is picking a peer at this moment.
func (w *rsWorld) newEligible() {
	id := fmt.Sprintf("p%d", w.seq)
	w.seq++
	s := w.snap()
	w.sendStatus(id, w.n)
	for _, o := range s.peerIDs() {
		if s.peers[o].height >= s.height {
			w.sendStatus(o, 0)
		}
	}
	w.eligible = id
	w.settle()
}

func (w *rsWorld) eligibleOK(s rsSnap) bool {
	p, ok := s.peers[w.eligible]
	return w.eligible != "" && ok && rsCanServe(p, w.n)
}

func (w *rsWorld) ensureEligible() {
	if !w.eligibleOK(w.snap()) {
		w.newEligible()
	}
}

func (w *rsWorld) removePeer(id string) {
	if id == w.eligible {
		if w.c.Spare {
			w.newEligible()
		} else {
			w.eligible = ""
		}
	}
	w.dropPeer(id, "reactorsched")
	w.settle()
}

func (w *rsWorld) targetPeer(s rsSnap, g int64) string {
	if r, ok := s.reqs[g]; ok && r.peer != "" {
		if _, in := s.peers[r.peer]; in {
			return r.peer
		}
		return ""
	}
	if id := w.served[g]; id != "" {
		if _, in := s.peers[id]; in {
			return id
		}
	}
	return ""
}

func (w *rsWorld) isGenuine(b *gtypes.Block) bool {
	if b == nil || b.Header == nil {
		return false
	}
	return bytes.Equal(wire.BinaryBytes(b), w.chain.raw[b.Height])
}

// act performs one action; effect = something in the pool changed.
func (w *rsWorld) act(a RSAct, base int64, where string) (effect bool) {
	if w.inconclusive != "" || w.halted {
		return false
	}
	g := base + int64(a.D)
	s := w.snap()
	switch a.Op {
	case "nop":
	case "nilblock":
		// a block response that carries no block: Receive may fail (the connection's recover then
		// drops the sender), but the pool must stay usable for everybody else
		if w.eligibleOK(s) && !w.poolDead {
			w.nilBlockFrom(w.eligible)
			effect = true
		}
	case "flush":
		effect = w.flush() > 0
	case "switch":
		w.newEligible()
		effect = true
	case "status":
		switch a.From {
		case "eligible":
			if w.eligibleOK(s) {
				w.sendStatus(w.eligible, w.n+int64(a.Arg%2)*2)
				effect = true
			}
		case "lower":
			if w.eligibleOK(s) {
				w.sendStatus(w.eligible, s.height-1)
				w.eligible = ""
				effect = true
			}
		default:
			var others []string
			for _, id := range s.peerIDs() {
				if id != w.eligible {
					others = append(others, id)
				}
			}
			if len(others) > 0 {
				low := int64(0)
				if a.Arg%2 == 1 && s.height > 1 {
					low = s.height - 1
				}
				w.sendStatus(others[a.Arg%len(others)], low)
				effect = true
			}
		}
		w.settle()
	case "remove":
		if id := w.targetPeer(s, g); id != "" {
			w.removePeer(id)
			effect = true
		}
	case "late":
		r, ok := s.reqs[g]
		if _, in := s.peers[r.peer]; !ok || !in || r.blk != nil || w.chain.blocks[g] == nil {
			w.label("%s:late:no-open-request", where)
			return false
		}
		id := r.peer
		if id == w.eligible {
			if w.c.Spare {
				w.newEligible()
			} else {
				w.eligible = ""
			}
		}
		// the peer is removed while its answer is on the way: the answer reaches the pool before
		// or after the requester has noticed (not the harness's choice; the state after is the same)
		w.dropPeer(id, "reactorsched")
		w.sendBlock(id, rsCopyBlock(w.chain.blocks[g]))
		if w.poolDead || w.halted {
			return false
		}
		w.settle()
		effect = true
	case "timeout":
		id := w.targetPeer(s, g)
		p := s.peers[id]
		if id == "" || p.numPending <= 0 || p.timer == nil || p.didTimeout {
			w.label("%s:timeout:not-armed", where)
			return false
		}
		if id == w.eligible {
			if w.c.Spare {
				w.newEligible()
			} else {
				w.eligible = ""
			}
		}
		p.timer.Reset(0) // bpPeer.onTimeout runs on the timer's goroutine, as after 15 s of silence
		// the pool drops the peer when the next requester looks for a peer
		if !w.await("timeout-removal", func(s rsSnap) bool { _, in := s.peers[id]; return !in }) {
			return false
		}
		w.settle()
		effect = true
	case "deliver":
		blk := w.chain.variant(a.Kind, g, a.Arg, w.c.Attackers)
		if blk == nil {
			w.label("%s:deliver:%s:not-applicable", where, a.Kind)
			return false
		}
		asked := s.reqs[g].peer
		sender := ""
		switch a.From {
		case "asked":
			sender = asked
		case "other":
			for _, id := range s.peerIDs() {
				if id != asked {
					sender = id
					break
				}
			}
			if sender == "" {
				sender = rsStranger
			}
		default:
			sender = rsStranger
		}
		if sender == "" {
			w.label("%s:deliver:nobody-asked", where)
			return false
		}
		bh := g
		if blk.Header != nil {
			bh = blk.Height
		}
		before := s.reqs[bh]
		w.sendBlock(sender, blk)
		after := w.snap().reqs[bh]
		if before.blk == nil && after.blk != nil {
			effect = true
			w.served[bh] = sender
			if sender != after.peer {
				w.label("pool-took-block-from-peer-not-asked")
			}
		}
	}
	if effect {
		w.label("%s:%s", where, a.Op)
		if a.Op == "deliver" {
			w.label("%s:deliver:%s", where, a.Kind)
			if a.From != "asked" {
				w.label("%s:deliver-from:%s", where, a.From)
			}
		}
	}
	return effect
}

// flush: every open request of the chain's heights is answered with the genuine block by the
// peer that was asked.
func (w *rsWorld) flush() int {
	if w.poolDead || w.halted {
		return 0
	}
	w.ensureEligible()
	if !w.settle() {
		return 0
	}
	s := w.snap()
	k := 0
	// highest first: the pair the pool routine is waiting for is completed by the last answers
	for g := w.n; g >= s.height; g-- {
		r := s.reqs[g]
		if r.peer == "" || r.blk != nil {
			continue
		}
		if _, in := s.peers[r.peer]; !in {
			continue
		}
		w.sendBlock(r.peer, rsCopyBlock(w.chain.blocks[g]))
		w.served[g] = r.peer
		k++
	}
	return k
}

// heal: the peers whose altered blocks sit in the pool go away, then flush.
func (w *rsWorld) heal() {
	for round := 0; round < 12 && !w.poolDead && !w.halted; round++ {
		s := w.snap()
		bad := ""
		for g := s.height; g <= w.n && bad == ""; g++ {
			if r := s.reqs[g]; r.blk != nil && !w.isGenuine(r.blk) {
				if _, in := s.peers[r.peer]; in {
					bad = r.peer
				}
			}
		}
		if bad == "" {
			break
		}
		w.removePeer(bad)
	}
	w.flush()
}

var errRSStopped = errors.New("reactorsched: case is over")

// verifier is the SetBlockVerifier closure of angine.assembleStateMachine plus the window.
func (w *rsWorld) verifier(bID gtypes.BlockID, hgt int64, lc *gtypes.Commit) error {
	err, freeze := w.verifierLocked(bID, hgt, lc)
	if freeze {
		<-w.done
		return errRSStopped
	}
	return err
}

func (w *rsWorld) verifierLocked(bID gtypes.BlockID, hgt int64, lc *gtypes.Commit) (err error, freeze bool) {
	w.mu.Lock()
	defer w.mu.Unlock()
	if w.ended {
		return errRSStopped, false
	}
	if w.halted || w.inconclusive != "" {
		return nil, true
	}
	w.awaitExec = false
	w.awaitRedo = ""
	w.last = nil
	i := w.vcalls
	w.vcalls++
	if w.vcalls > rsMaxVerifications {
		w.inconclusive = "too-many-verifications"
		return nil, true
	}
	func() {
		defer func() {
			if p := recover(); p != nil {
				err = fmt.Errorf("panic: %v", p)
				w.fail("commit-verification-panics:"+h.PanicSite(debug.Stack()), "VerifyCommit(height %d) panicked: %v", hgt, p)
			}
		}()
		st := w.node.st
		err = st.Validators.VerifyCommit(st.ChainID, bID, hgt, lc)
	}()
	if w.halted {
		return nil, true
	}
	if err == nil {
		switch {
		case hgt != w.applied+1:
			w.fail("verification-out-of-order", "height %d verified while %d blocks are applied", hgt, w.applied)
		case !bID.Equals(w.chain.ids[hgt]):
			w.fail("commit-verification-accepts-block-nobody-committed", "height %d: block %v accepted as committed; the chain's block is %v; commit: %v", hgt, bID, w.chain.ids[hgt], lc)
		case !rsJustifies(w.chain.valsAt[hgt], bID, hgt, lc):
			w.fail("commit-verification-accepts-insufficient-commit", "height %d: commit accepted that does not carry +2/3 of the set in force for %v: %v", hgt, bID, lc)
		}
		if w.halted {
			return nil, true
		}
	} else {
		w.vfailed++
	}
	// the window
	before := w.snap()
	if i < len(w.c.Windows) {
		for _, a := range w.c.Windows[i].During {
			if w.act(a, hgt, "during") {
				w.windowEffects++
			}
		}
	}
	if w.inconclusive != "" || w.halted || w.poolDead {
		return nil, true
	}
	after := w.snap()
	for _, g := range []int64{hgt, hgt + 1} {
		b, a := before.reqs[g].blk, after.reqs[g].blk
		if a != nil && a != b {
			w.refills++
			w.label("refill-in-window:d%d", g-hgt)
			if !w.isGenuine(a) && err == nil {
				w.alteredRefill++
				w.label("altered-refill-in-window-of-successful-verification:d%d", g-hgt)
			}
		}
	}
	if err == nil {
		w.last = &rsVerified{h: hgt, id: bID, lc: lc}
		w.awaitExec = true
		w.awaitSince = time.Now()
	} else if r := after.reqs[hgt]; r.blk != nil && r.peer != "" {
		// RedoRequest is about to remove the peer that holds the first block: nothing else happens
		// until it has done so (the main goroutine waits for the peer to disappear)
		if _, in := after.peers[r.peer]; in {
			if w.c.Spare && r.peer == w.eligible {
				w.newEligible() // a new peer is around
			}
			w.awaitRedo = r.peer
			w.awaitSince = time.Now()
		}
	}
	return err, false
}

// executer is the SetBlockExecuter closure of angine.assembleStateMachine plus oracle and window.
func (w *rsWorld) executer(blk *gtypes.Block, pst *gtypes.PartSet, c *gtypes.Commit) error {
	if w.executerLocked(blk, pst, c) {
		<-w.done
	}
	return nil
}

func (w *rsWorld) executerLocked(blk *gtypes.Block, pst *gtypes.PartSet, c *gtypes.Commit) (freeze bool) {
	w.mu.Lock()
	defer w.mu.Unlock()
	if w.ended {
		return false
	}
	if w.halted || w.inconclusive != "" {
		return true
	}
	w.awaitExec = false
	v := w.last
	w.last = nil
	switch {
	case blk == nil || blk.Header == nil:
		return w.fail("executer-called-without-block", "executer called with %v", blk)
	case blk.Height != w.applied+1:
		return w.fail("executed-out-of-order", "block of height %d handed to the executer after %d applied blocks", blk.Height, w.applied)
	case v == nil || v.h != blk.Height:
		return w.fail("executed-without-verification", "height %d handed to the executer; the last successful verification: %+v", blk.Height, v)
	}
	hgt := blk.Height
	raw := wire.BinaryBytes(blk)
	id := gtypes.BlockID{Hash: blk.Hash(), PartsHeader: gtypes.NewPartSetFromData(raw, rsPartSize).Header()}
	genuine := bytes.Equal(raw, w.chain.raw[hgt])
	switch {
	case !id.Equals(v.id):
		return w.fail("executed-block-is-not-the-verified-one", "height %d: the commit was verified for %v, the executer got %v with txs %q (genuine: %v)", hgt, v.id, id, rsTxs(blk), genuine)
	case !genuine:
		return w.fail("executed-block-differs-from-source", "height %d: executer got block %v with txs %q; the chain has %v", hgt, id, rsTxs(blk), w.chain.ids[hgt])
	case pst == nil || !pst.IsComplete() || !pst.Header().Equals(v.id.PartsHeader):
		return w.fail("parts-do-not-belong-to-verified-block", "height %d: part set %v, verified %v", hgt, pst, v.id)
	case !rsJustifies(w.chain.valsAt[hgt], w.chain.ids[hgt], hgt, c):
		return w.fail("seen-commit-does-not-justify-block", "height %d: the commit stored with the block does not carry +2/3 for it: %v", hgt, c)
	}
	if i := w.vcalls - 1; i >= 0 && i < len(w.c.Windows) {
		for _, a := range w.c.Windows[i].Exec {
			w.act(a, hgt, "exec")
		}
	}
	if w.inconclusive != "" || w.halted || w.poolDead {
		return true
	}
	var err error
	func() {
		defer func() {
			if p := recover(); p != nil {
				err = fmt.Errorf("panic: %v", p)
				w.fail("apply-panics:"+h.PanicSite(debug.Stack()), "applying the verified genuine block %d panicked: %v", hgt, p)
			}
		}()
		err = w.node.apply(blk, pst, c)
	}()
	if w.halted {
		return true
	}
	if err != nil {
		return w.fail("apply-of-verified-genuine-block-fails", "height %d: %v", hgt, err)
	}
	if !bytes.Equal(w.node.st.Bytes(), w.chain.stateAt[hgt]) {
		return w.fail("state-differs-from-live-node", "after block %d the state differs from the live node's (app hash %X vs %X, validators %X vs %X)",
			hgt, w.node.st.AppHash, w.chain.appAt[hgt], w.node.st.Validators.Hash(), w.chain.vhAt[hgt])
	}
	w.applied = hgt
	if w.windowEffects > 0 {
		w.wentOn = true
	}
	return false
}

func rsTxs(b *gtypes.Block) []string {
	out := []string{}
	if b != nil && b.Data != nil {
		for _, tx := range b.Data.Txs {
			s := string(tx)
			if len(s) > 24 {
				s = s[:24] + "…"
			}
			out = append(out, s)
		}
	}
	return out
}

// onStall: the pool routine has nothing to verify. Called by the main goroutine with w.mu held.
func (w *rsWorld) onStall(s rsSnap) {
	k := w.stalls
	w.stalls++
	if k >= rsMaxStalls {
		w.inconclusive = "too-many-stalls"
		return
	}
	if w.c.GiveUpAfter > 0 && k >= w.c.GiveUpAfter {
		for _, id := range s.peerIDs() {
			w.dropPeer(id, "reactorsched: everybody leaves")
		}
		w.eligible = ""
		w.gaveUp = true
		return
	}
	if k < len(w.c.Stalls) {
		for _, a := range w.c.Stalls[k] {
			if w.halted || w.poolDead {
				return
			}
			if w.pairReady() {
				// the pool routine can go on (and may be on its way into the verifier already):
				// what is left of this list would no longer happen at a defined moment
				w.label("stall:rest-of-list-dropped")
				break
			}
			w.act(a, s.height, "stall")
		}
		w.flush()
		return
	}
	w.heal()
}

func runRS(c RSCase, x *h.Ctx) {
	rsOnce.Do(func() { glog.SetAuditLog(zap.NewNop()) })
	if c.N < 3 || c.N > 12 || len(c.Powers) == 0 || len(c.Powers) > rsMaxValID+1 {
		x.Label("malformed-case")
		return
	}
	for _, ch := range c.Changes {
		if ch.ID < 0 || ch.ID > rsMaxValID || ch.At < 1 {
			x.Label("malformed-case")
			return
		}
	}
	chain, err := rsBuildChain(c.Powers, c.N, c.TxSeed, c.Changes)
	if err != nil {
		// the live node follows the same ApplyBlock; a chain it cannot build is not a sync matter
		x.Fail("live-node-cannot-build-the-source-chain", "%v", err)
		return
	}
	defer chain.live.close()

	w := &rsWorld{c: c, x: x, chain: chain, n: chain.n, done: make(chan struct{}), peerObjs: map[string]*p2p.Peer{}, served: map[int64]string{}, labels: map[string]bool{}}
	w.node = rsNewNode(chain.genDoc)
	defer w.node.close()
	conf := viper.New()
	conf.Set("block_part_size", rsPartSize)
	conf.Set("chain_id", chain.genDoc.ChainID)
	w.bcR = bc.NewBlockchainReactor(conf, 0, w.node.store, true, &archive.Archive{})
	w.bcR.SetSwitch(p2p.NewSwitch(viper.New()))
	w.bcR.SetEventSwitch(w.node.evsw)
	w.bcR.SetBlockVerifier(w.verifier)
	w.bcR.SetBlockExecuter(w.executer)
	if w.pv, err = rsViewOf(w.bcR); err != nil {
		x.Fail("harness-cannot-see-the-pool", "%v", err)
		return
	}

	w.mu.Lock()
	// peers announce themselves (AddPeer's status exchange), then the pool starts making requests
	w.eligible = "p0"
	w.seq = 1
	w.sendStatus("p0", w.n)
	for i := 0; i < c.Bystanders; i++ {
		w.sendStatus(fmt.Sprintf("q%d", i), 0)
	}
	if _, err := w.pv.pool.Start(); err != nil {
		w.mu.Unlock()
		x.Fail("harness-cannot-start-the-pool", "%v", err)
		return
	}
	stopped := false
	stop := func() {
		if stopped {
			return
		}
		stopped = true
		w.ended = true
		close(w.done)
		w.mu.Unlock()
		w.bcR.Stop()
		w.pv.pool.Stop()
		w.mu.Lock()
	}
	defer func() {
		stop()
		w.mu.Unlock()
	}()
	if !w.settle() {
		x.Label("inconclusive:" + w.inconclusive)
		return
	}
	for _, a := range c.Init {
		w.act(a, 0, "init")
	}
	if w.inconclusive != "" {
		x.Label("inconclusive:" + w.inconclusive)
		return
	}
	if w.halted {
		x.Label("outcome:halted-on-finding")
		return
	}
	if _, err := w.bcR.Start(); err != nil {
		x.Fail("harness-cannot-start-the-reactor", "%v", err)
		return
	}
	w.mu.Unlock()

	start := time.Now()
	outcome := ""
	for outcome == "" {
		w.mu.Lock()
		switch {
		case w.halted:
			outcome = "halted-on-finding"
		case w.inconclusive != "":
			outcome = "inconclusive:" + w.inconclusive
		case w.applied >= w.n-1:
			outcome = "synced"
		case w.gaveUp:
			outcome = "stopped:no-peers"
		case !w.pv.pool.IsRunning():
			outcome = "stopped:switched-to-consensus"
		case time.Since(start) > rsBudget:
			outcome = "inconclusive:budget"
		case (w.awaitExec || w.awaitRedo != "") && time.Since(w.awaitSince) < 800*time.Millisecond:
			// the pool routine is between a closure and its next own step (pop + executer, or
			// RedoRequest): the main goroutine keeps out of its way
			if w.awaitRedo != "" {
				if _, in := w.snap().peers[w.awaitRedo]; !in {
					w.awaitRedo = ""
				}
			}
		default:
			if w.awaitExec || w.awaitRedo != "" {
				w.label("pool-routine-did-not-take-its-next-step")
				w.awaitExec, w.awaitRedo = false, ""
			}
			if !w.pairReady() {
				w.onStall(w.snap())
			}
		}
		if outcome != "" {
			break // w.mu stays held
		}
		w.mu.Unlock()
		time.Sleep(time.Millisecond)
	}
	stop()

	// ---- end of the history: what is in the store and in the state -------------------------
	x.Label("outcome:" + outcome)
	lbls := make([]string, 0, len(w.labels))
	for l := range w.labels {
		lbls = append(lbls, l)
	}
	sort.Strings(lbls)
	for _, l := range lbls {
		x.Label(l)
	}
	x.Labelf("verifications-failed:%s", rsBucket(w.vfailed))
	x.Labelf("stalls:%s", rsBucket(w.stalls))
	x.Labelf("window-effects:%s", rsBucket(w.windowEffects))
	if len(c.Changes) > 0 {
		x.Label("validator-set-changes")
	}
	if w.halted {
		return
	}
	store := w.node.store
	if store.Height() != w.applied {
		if x.Fail("store-height-differs-from-applied", "store height %d, %d blocks applied", store.Height(), w.applied) {
			return
		}
	}
	for g := int64(1); g <= w.applied; g++ {
		got := store.LoadBlock(g)
		meta := store.LoadBlockMeta(g)
		if got == nil || meta == nil || !bytes.Equal(wire.BinaryBytes(got), chain.raw[g]) {
			if x.Fail("stored-block-differs-from-source", "height %d: the stored block differs from the chain's", g) {
				return
			}
			continue
		}
		if !bytes.Equal(meta.Hash, chain.ids[g].Hash) || !meta.PartsHeader.Equals(chain.ids[g].PartsHeader) || !bytes.Equal(meta.Header.Hash(), chain.ids[g].Hash) {
			if x.Fail("stored-block-meta-differs-from-source", "height %d: meta %X / %v, chain %v", g, meta.Hash, meta.PartsHeader, chain.ids[g]) {
				return
			}
		}
		if sc := store.LoadSeenCommit(g); !rsJustifies(chain.valsAt[g], chain.ids[g], g, sc) {
			if x.Fail("seen-commit-does-not-justify-block", "height %d: stored seen commit %v", g, sc) {
				return
			}
		} else if !sc.BlockID.Equals(chain.ids[g]) {
			x.Label("seen-commit-names-another-block-id")
		}
	}
	if w.applied > 0 {
		st := w.node.st
		if !bytes.Equal(st.Bytes(), chain.stateAt[w.applied]) || !bytes.Equal(st.AppHash, chain.appAt[w.applied]) || !bytes.Equal(st.Validators.Hash(), chain.vhAt[w.applied]) {
			if x.Fail("state-differs-from-live-node", "after %d blocks: app hash %X vs %X, validators %X vs %X", w.applied, st.AppHash, chain.appAt[w.applied], st.Validators.Hash(), chain.vhAt[w.applied]) {
				return
			}
		}
	}
	if w.windowEffects > 0 && w.wentOn {
		x.NonTrivial()
	}
}

func rsBucket(n int) string {
	switch {
	case n == 0:
		return "0"
	case n <= 2:
		return "1-2"
	case n <= 5:
		return "3-5"
	}
	return "6+"
}

func TestReactorSched(t *testing.T) {
	h.Check(t, h.Spec[RSCase]{Prop: "C13", Leg: "reactorsched", Gen: genRS, Run: runRS})
}
