// Leg reactorsched, part 1: the source chain, the toy state machine (wired like
// gemmill/angine.go assembleStateMachine: real state.State, real BlockStore, ApplyBlock) and the
// block variants a peer can serve.
package c13

import (
	"bytes"
	"crypto/sha256"
	"errors"
	"fmt"
	"time"

	bc "github.com/dappledger/AnnChain/gemmill/blockchain"
	"github.com/dappledger/AnnChain/gemmill/go-wire"
	dbm "github.com/dappledger/AnnChain/gemmill/modules/go-db"
	events "github.com/dappledger/AnnChain/gemmill/modules/go-events"
	"github.com/dappledger/AnnChain/gemmill/state"
	gtypes "github.com/dappledger/AnnChain/gemmill/types"

	"verif/internal/sim"
)

const (
	rsPartSize = 512 // small parts: most blocks have several parts
	rsMaxValID = 4   // validator ids 0..4 (keys sim.Key(id))
)

// ---- application + state machine ---------------------------------------------------------

// rsExec is the governance plugin stub: extended transactions AdminTag+"valchange:<id>:<power>"
// change the next validator set (power 0 removes), as sim's execStub does.
type rsExec struct{}

func (rsExec) BeginBlock(*gtypes.Block, events.Fireable, *gtypes.PartSetHeader) error { return nil }
func (rsExec) ExecBlock(*gtypes.Block, events.Fireable, *gtypes.ExecuteResult) error  { return nil }
func (rsExec) EndBlock(b *gtypes.Block, _ events.Fireable, _ *gtypes.PartSetHeader, _ []*gtypes.ValidatorAttr, next *gtypes.ValidatorSet) error {
	for _, tx := range b.Data.ExTxs {
		var id int
		var power int64
		body := bytes.TrimPrefix(tx, gtypes.AdminTag)
		if _, err := fmt.Sscanf(string(body), "valchange:%d:%d", &id, &power); err != nil {
			continue
		}
		pub := sim.Key(id).PubKey()
		addr := pub.Address()
		if power <= 0 {
			if next.Size() > 1 {
				next.Remove(addr)
			}
			continue
		}
		v := &gtypes.Validator{Address: addr, PubKey: pub, VotingPower: power}
		if next.HasAddress(addr) {
			next.Update(v)
		} else {
			next.Add(v)
		}
	}
	return nil
}

type rsMempool struct{}

func (rsMempool) Lock()                     {}
func (rsMempool) Unlock()                   {}
func (rsMempool) Update(int64, []gtypes.Tx) {}

// rsBlockVerifier performs the checks of pbft.ConsensusState.ValidateBlock (the object angine
// registers with State.SetBlockVerifier); a ConsensusState cannot be built without a WAL group
// and its goroutine, so the 30 lines are repeated here (assumption of the leg).
type rsBlockVerifier struct{ s *state.State }

func (v rsBlockVerifier) ValidateBlock(block *gtypes.Block) error {
	s := v.s
	if err := block.ValidateBasic(s.ChainID, s.LastBlockHeight, s.LastBlockID, s.LastBlockTime, s.AppHash, s.ReceiptsHash); err != nil {
		return err
	}
	if err := block.ValidateCommit(); err != nil {
		return err
	}
	if !bytes.Equal(block.ValidatorsHash, s.Validators.Hash()) {
		return fmt.Errorf("wrong ValidatorsHash")
	}
	if !s.Validators.HasAddress(block.ProposerAddress) {
		return fmt.Errorf("proposer is not a validator")
	}
	if block.Height == 1 {
		if len(block.LastCommit.Precommits) != 0 {
			return errors.New("block 1 must have no LastCommit precommits")
		}
		return nil
	}
	if len(block.LastCommit.Precommits) != s.LastValidators.Size() {
		return errors.New("invalid block commit size")
	}
	return s.LastValidators.VerifyCommit(s.ChainID, s.LastBlockID, block.Height-1, block.LastCommit)
}

type rsNode struct {
	st    *state.State
	evsw  gtypes.EventSwitch
	store *bc.BlockStore
}

func rsNewNode(genDoc *gtypes.GenesisDoc) *rsNode {
	n := &rsNode{}
	gd := *genDoc
	gd.Validators = append([]gtypes.GenesisValidator(nil), genDoc.Validators...)
	n.st = state.MakeGenesisState(dbm.NewMemDB(), &gd)
	n.st.SetBlockExecutable(rsExec{})
	n.st.SetBlockVerifier(rsBlockVerifier{n.st})
	n.evsw = gtypes.NewEventSwitch()
	n.evsw.Start()
	n.store = bc.NewBlockStore(dbm.NewMemDB(), dbm.NewMemDB())
	gtypes.AddListenerForEvent(n.evsw, "rs", gtypes.EventStringHookExecute(), func(ed gtypes.TMEventData) {
		d := ed.(gtypes.EventDataHookExecute)
		d.ResCh <- gtypes.ExecuteResult{ValidTxs: d.Block.Data.Txs}
	})
	gtypes.AddListenerForEvent(n.evsw, "rs", gtypes.EventStringHookCommit(), func(ed gtypes.TMEventData) {
		d := ed.(gtypes.EventDataHookCommit)
		// toy application: hash chain over everything that was executed
		hh := sha256.New()
		hh.Write(d.Block.AppHash)
		for _, tx := range d.Block.Data.Txs {
			hh.Write([]byte{byte(len(tx))})
			hh.Write(tx)
		}
		for _, tx := range d.Block.Data.ExTxs {
			hh.Write([]byte{0xff, byte(len(tx))})
			hh.Write(tx)
		}
		d.ResCh <- gtypes.CommitResult{AppHash: hh.Sum(nil)[:20], ReceiptsHash: d.Block.Data.Hash()}
	})
	return n
}

func (n *rsNode) close() { n.evsw.Stop() }

// apply is the SetBlockExecuter closure of angine.assembleStateMachine.
func (n *rsNode) apply(blk *gtypes.Block, pst *gtypes.PartSet, c *gtypes.Commit) error {
	n.store.SaveBlock(blk, pst, c)
	if err := n.st.ApplyBlock(n.evsw, blk, pst.Header(), rsMempool{}, -1); err != nil {
		return err
	}
	n.st.Save()
	return nil
}

// ---- the source chain -------------------------------------------------------------------

type RSValChange struct {
	At    int   `json:"at"`    // height of the block that carries the change
	ID    int   `json:"id"`    // validator id 0..4
	Power int64 `json:"power"` // 0 removes
}

type rsChain struct {
	n       int64
	genDoc  *gtypes.GenesisDoc
	blocks  map[int64]*gtypes.Block
	raw     map[int64][]byte
	ids     map[int64]gtypes.BlockID
	valsAt  map[int64]*gtypes.ValidatorSet // set in force at height h (signs block h)
	stateAt map[int64][]byte               // live node's state after block h
	appAt   map[int64][]byte
	vhAt    map[int64][]byte // validator-set hash after block h
	live    *rsNode
}

func rsCopyBlock(b *gtypes.Block) *gtypes.Block {
	var n int
	var err error
	cp := wire.ReadBinary(&gtypes.Block{}, bytes.NewReader(wire.BinaryBytes(b)), 0, &n, &err).(*gtypes.Block)
	if err != nil {
		panic(err)
	}
	return cp
}

func rsBlockID(b *gtypes.Block) gtypes.BlockID {
	return gtypes.BlockID{Hash: b.Hash(), PartsHeader: b.MakePartSet(rsPartSize).Header()}
}

func rsPowerOf(vals *gtypes.ValidatorSet, id int) (int, int64) {
	idx, v := vals.GetByAddress(sim.Key(id).PubKey().Address())
	if v == nil {
		return -1, 0
	}
	return idx, v.VotingPower
}

// rsCommit builds a commit for (height, id) with the precommits of the given validator ids in
// their own slots.
func rsCommit(vals *gtypes.ValidatorSet, height int64, id gtypes.BlockID, signers []int) *gtypes.Commit {
	pcs := make([]*gtypes.Vote, vals.Size())
	for _, s := range signers {
		idx, _ := rsPowerOf(vals, s)
		if idx < 0 {
			continue
		}
		pcs[idx] = sim.SignVote(s, vals, height, 0, gtypes.VoteTypePrecommit, id)
	}
	return &gtypes.Commit{BlockID: id, Precommits: pcs}
}

func rsBuildChain(powers []int64, n int, txSeed uint64, changes []RSValChange) (*rsChain, error) {
	c := &rsChain{n: int64(n), blocks: map[int64]*gtypes.Block{}, raw: map[int64][]byte{}, ids: map[int64]gtypes.BlockID{},
		valsAt: map[int64]*gtypes.ValidatorSet{}, stateAt: map[int64][]byte{}, appAt: map[int64][]byte{}, vhAt: map[int64][]byte{}}
	gvs := []gtypes.GenesisValidator{}
	for i, p := range powers {
		gvs = append(gvs, gtypes.GenesisValidator{PubKey: sim.Key(i).PubKey(), Amount: p, Name: fmt.Sprintf("v%d", i), IsCA: true})
	}
	c.genDoc = &gtypes.GenesisDoc{GenesisTime: time.Unix(1600000000, 0).UTC(), ChainID: sim.ChainID, Validators: gvs}
	c.live = rsNewNode(c.genDoc)
	st := c.live.st
	lastCommit := &gtypes.Commit{}
	rnd := txSeed
	next := func() uint64 { rnd = mix64(rnd + 0x1234567); return rnd }
	for h := int64(1); h <= c.n; h++ {
		var txs, extxs []gtypes.Tx
		for i, k := 0, int(next()%4); i < k; i++ {
			sz := 8 + int(next()%300)
			tx := []byte(fmt.Sprintf("tx-%d-%d-", h, i))
			for len(tx) < sz {
				tx = append(tx, byte('a'+next()%26))
			}
			txs = append(txs, tx)
		}
		for _, ch := range changes {
			if int64(ch.At) == h {
				extxs = append(extxs, append(append([]byte{}, gtypes.AdminTag...), []byte(fmt.Sprintf("valchange:%d:%d", ch.ID, ch.Power))...))
			}
		}
		_, proposer := st.Validators.GetByIndex(int(next() % uint64(st.Validators.Size())))
		b := &gtypes.Block{
			Header: &gtypes.Header{
				ChainID:         st.ChainID,
				Height:          h,
				Time:            time.Unix(1600000000+h, 0).UTC(),
				NumTxs:          int64(len(txs) + len(extxs)),
				LastBlockID:     st.LastBlockID,
				ValidatorsHash:  st.Validators.Hash(),
				AppHash:         st.AppHash,
				ReceiptsHash:    st.ReceiptsHash,
				ProposerAddress: proposer.Address,
			},
			Data:       &gtypes.Data{Txs: txs, ExTxs: extxs},
			LastCommit: lastCommit,
		}
		b.FillHeader()
		parts := b.MakePartSet(rsPartSize)
		id := gtypes.BlockID{Hash: b.Hash(), PartsHeader: parts.Header()}
		vals := st.Validators.Copy()
		c.valsAt[h] = vals
		// the commit the chain records: every validator signs, then some are left out as long as
		// more than two thirds of the power remain
		total := vals.TotalVotingPower()
		signers := []int{}
		have := int64(0)
		for vid := 0; vid <= rsMaxValID; vid++ {
			if idx, p := rsPowerOf(vals, vid); idx >= 0 {
				signers = append(signers, vid)
				have += p
			}
		}
		for tries := 0; tries < 3 && len(signers) > 1; tries++ {
			k := int(next() % uint64(len(signers)+2))
			if k >= len(signers) {
				continue
			}
			_, p := rsPowerOf(vals, signers[k])
			if (have-p)*3 > total*2 {
				have -= p
				signers = append(signers[:k], signers[k+1:]...)
			}
		}
		seen := rsCommit(vals, h, id, signers)
		c.blocks[h] = rsCopyBlock(b)
		c.raw[h] = wire.BinaryBytes(c.blocks[h])
		c.ids[h] = id
		if err := c.live.apply(b, parts, seen); err != nil {
			return nil, fmt.Errorf("live node, block %d: %v", h, err)
		}
		c.stateAt[h] = c.live.st.Bytes()
		c.appAt[h] = append([]byte{}, c.live.st.AppHash...)
		c.vhAt[h] = append([]byte{}, c.live.st.Validators.Hash()...)
		lastCommit = seen
	}
	return c, nil
}

// rsJustifies is the reference reading of "carries precommits for exactly that block from more
// than two thirds of the voting power of the set in force": slot i counts once, with the power
// of validator i, if it holds a precommit for (height, id) that validator i's key signed.
func rsJustifies(vals *gtypes.ValidatorSet, id gtypes.BlockID, height int64, c *gtypes.Commit) bool {
	if c == nil || vals == nil || len(c.Precommits) != vals.Size() {
		return false
	}
	sum := int64(0)
	for idx, pc := range c.Precommits {
		if pc == nil || pc.Height != height || pc.Type != gtypes.VoteTypePrecommit || !pc.BlockID.Equals(id) {
			continue
		}
		_, val := vals.GetByIndex(idx)
		if val == nil || !val.PubKey.VerifyBytes(gtypes.SignBytes(sim.ChainID, pc), pc.Signature) {
			continue
		}
		sum += val.VotingPower
	}
	return sum*3 > vals.TotalVotingPower()*2
}

// ---- what a peer can serve ---------------------------------------------------------------

// block kinds; "genuine" first. The altered ones are either self-consistent (the header matches
// the altered content) or inconsistent (content changed under the genuine header hash).
var rsKinds = []string{
	"genuine",
	"txs",                // other transactions, DataHash/NumTxs recomputed (self-consistent; keeps LastBlockID, LastCommit, AppHash)
	"txs-raw",            // other transactions under the genuine header (header hash unchanged)
	"extra",              // bytes in Header.Extra (not covered by the header hash)
	"commit-blockid",     // LastCommit.BlockID changed (not covered by LastCommitHash)
	"apphash",            // header field altered
	"time",               // header field altered
	"valhash",            // header field altered
	"height-field",       // the block of the next height with the height field rewritten
	"other-height",       // the genuine block of a neighbouring height
	"lastcommit-other",   // LastCommit of another height, hash recomputed
	"lastcommit-thin",    // genuine precommits removed until no more than 2/3 of the power is left
	"lastcommit-nil",     // no LastCommit
	"data-nil",           // no Data
	"unsigned-fields",    // precommits with altered validator index/address (fields no signature covers)
	"on-forged",          // block built on the forged ("txs") predecessor, LastCommit signed by the attackers in their slots
	"on-forged-repeat",   // the same with ONE attacker precommit repeated in every slot
	"on-genuine-repeat",  // genuine predecessor, LastCommit is one genuine precommit repeated in every slot
	"on-forged-prevotes", // forged predecessor, "LastCommit" = the validly signed PREVOTES of all validators for it (a block that had a polka in some round and was not committed)
	"on-forged-relabel",  // forged predecessor, LastCommit = the genuine precommits (for the genuine predecessor) under a Commit.BlockID rewritten to the forged block (that field is covered by no signature and no hash)
}

func rsGenuineKind(kind string) bool { return kind == "genuine" || kind == "other-height" }

// attackers trimmed to at most two thirds of the power of vals (they can never justify a block)
func rsAttackersIn(vals *gtypes.ValidatorSet, attackers []int) []int {
	out := []int{}
	sum := int64(0)
	total := vals.TotalVotingPower()
	seen := map[int]bool{}
	for _, a := range attackers {
		idx, p := rsPowerOf(vals, a)
		if idx < 0 || seen[a] {
			continue
		}
		if (sum+p)*3 > total*2 {
			continue
		}
		seen[a] = true
		sum += p
		out = append(out, a)
	}
	return out
}

func (c *rsChain) forgedTxs(g int64) *gtypes.Block {
	b := rsCopyBlock(c.blocks[g])
	b.Data = &gtypes.Data{Txs: []gtypes.Tx{gtypes.Tx(fmt.Sprintf("forged-tx-%d", g))}, ExTxs: b.Data.ExTxs}
	b.NumTxs = int64(1 + len(b.Data.ExTxs))
	b.DataHash = nil
	b.FillHeader()
	return b
}

// variant returns the block a peer sends for source height g under the given kind (nil: the kind
// is not applicable at that height; the caller sends nothing).
func (c *rsChain) variant(kind string, g int64, arg int, attackers []int) *gtypes.Block {
	src := c.blocks[g]
	if src == nil {
		return nil
	}
	b := rsCopyBlock(src)
	rehashCommit := func() { b.LastCommitHash = nil; b.FillHeader() }
	switch kind {
	case "genuine":
	case "txs":
		return c.forgedTxs(g)
	case "txs-raw":
		b.Data.Txs = append([]gtypes.Tx{gtypes.Tx("slipped-in")}, b.Data.Txs...)
	case "extra":
		b.Header.Extra = []byte(fmt.Sprintf("extra-%d", arg))
	case "commit-blockid":
		if g < 2 {
			return nil
		}
		b.LastCommit.BlockID.Hash = flip(b.LastCommit.BlockID.Hash, arg)
	case "apphash":
		b.AppHash = flip(append([]byte{}, b.AppHash...), arg)
		if len(b.AppHash) == 0 {
			b.AppHash = []byte{1}
		}
	case "time":
		b.Time = b.Time.Add(time.Duration(1+arg%7) * time.Second)
	case "valhash":
		b.ValidatorsHash = flip(append([]byte{}, b.ValidatorsHash...), arg)
	case "height-field":
		nb := c.blocks[g+1]
		if nb == nil {
			return nil
		}
		b = rsCopyBlock(nb)
		b.Height = g
	case "other-height":
		o := g + 1
		if arg%2 == 1 {
			o = g - 1
		}
		if c.blocks[o] == nil {
			return nil
		}
		return rsCopyBlock(c.blocks[o])
	case "lastcommit-other":
		if g < 3 {
			return nil
		}
		b.LastCommit = rsCopyBlock(c.blocks[g-1]).LastCommit
		rehashCommit()
	case "lastcommit-thin":
		if g < 2 {
			return nil
		}
		vals := c.valsAt[g-1]
		total := vals.TotalVotingPower()
		have := int64(0)
		for idx, pc := range b.LastCommit.Precommits {
			if pc != nil {
				_, v := vals.GetByIndex(idx)
				have += v.VotingPower
			}
		}
		for i := 0; i < len(b.LastCommit.Precommits) && have*3 > total*2; i++ {
			idx := (i + arg) % len(b.LastCommit.Precommits)
			if b.LastCommit.Precommits[idx] != nil {
				_, v := vals.GetByIndex(idx)
				have -= v.VotingPower
				b.LastCommit.Precommits[idx] = nil
			}
		}
		rehashCommit()
	case "lastcommit-nil":
		b.LastCommit = nil
	case "data-nil":
		b.Data = nil
	case "unsigned-fields":
		if g < 2 {
			return nil
		}
		for i, pc := range b.LastCommit.Precommits {
			if pc != nil {
				pc.ValidatorIndex = (pc.ValidatorIndex + 1 + arg) % (len(b.LastCommit.Precommits) + 1)
				if (i+arg)%2 == 0 {
					pc.ValidatorAddress = flip(append([]byte{}, pc.ValidatorAddress...), arg)
				}
			}
		}
		rehashCommit()
	case "on-forged-relabel":
		if g < 2 || src.LastCommit == nil {
			return nil
		}
		prevID := rsBlockID(c.forgedTxs(g - 1))
		lc := &gtypes.Commit{BlockID: prevID, Precommits: make([]*gtypes.Vote, len(src.LastCommit.Precommits))}
		for i, pc := range src.LastCommit.Precommits {
			if pc != nil {
				cp := *pc
				lc.Precommits[i] = &cp
			}
		}
		b.LastBlockID = prevID
		b.LastCommit = lc
		rehashCommit()
	case "on-forged", "on-forged-repeat", "on-genuine-repeat", "on-forged-prevotes":
		if g < 2 {
			return nil
		}
		vals := c.valsAt[g-1]
		var prevID gtypes.BlockID
		if kind == "on-genuine-repeat" {
			prevID = c.ids[g-1]
		} else {
			prevID = rsBlockID(c.forgedTxs(g - 1))
		}
		att := rsAttackersIn(vals, attackers)
		var lc *gtypes.Commit
		var one *gtypes.Vote
		if kind == "on-genuine-repeat" {
			// no key needed: a genuine precommit is public
			n := len(src.LastCommit.Precommits)
			for i := 0; i < n && one == nil; i++ {
				one = src.LastCommit.Precommits[(i+arg%n+n)%n]
			}
		} else if len(att) > 0 {
			one = sim.SignVote(att[(arg%len(att)+len(att))%len(att)], vals, g-1, 0, gtypes.VoteTypePrecommit, prevID)
		}
		switch {
		case kind == "on-forged-prevotes":
			// honest validators do prevote a block that is then not committed (the polka came too
			// late, another block is decided in a later round): such votes are public and correctly
			// signed by everybody - but they are no commit
			lc = &gtypes.Commit{BlockID: prevID, Precommits: make([]*gtypes.Vote, vals.Size())}
			for i, v := range vals.Validators {
				for id := 0; id < 16; id++ {
					if string(sim.Key(id).PubKey().Address()) == string(v.Address) {
						lc.Precommits[i] = sim.SignVote(id, vals, g-1, 0, gtypes.VoteTypePrevote, prevID)
					}
				}
			}
		case kind == "on-forged":
			lc = rsCommit(vals, g-1, prevID, att)
		case one == nil:
			lc = rsCommit(vals, g-1, prevID, nil)
		default:
			lc = &gtypes.Commit{BlockID: prevID, Precommits: make([]*gtypes.Vote, vals.Size())}
			for i := range lc.Precommits {
				cp := *one
				lc.Precommits[i] = &cp
			}
		}
		b.LastBlockID = prevID
		b.LastCommit = lc
		rehashCommit()
	default:
		return nil
	}
	return b
}
