package c13

import (
	"encoding/hex"
	"encoding/json"
	"fmt"
	"os"
	"path/filepath"
	"sort"
	"strconv"
	"strings"
	"testing"
	"time"

	"pgregory.net/rapid"

	"github.com/dappledger/AnnChain/gemmill/blockchain"
	dbm "github.com/dappledger/AnnChain/gemmill/modules/go-db"

	"verif/internal/h"
)

// Case = source scenario + peer scripts. It is the replay file.
type Case struct {
	Blocks  int          `json:"blocks"`            // the source stops at this height (4..10)
	Kind    string       `json:"kind"`              // evm | kv | mixed | empty: transactions of the source chain
	Changes []Change     `json:"changes,omitempty"` // validator-set changes of the source chain
	Peers   []PeerScript `json:"peers"`
	// Repeat > 1: the sync phase is run up to that many times (a fresh syncing node each time,
	// the same source chain and scripts) until a violation shows. Generated cases have 1; replay
	// files of violations that depend on goroutine scheduling inside the node use more.
	Repeat int `json:"repeat,omitempty"`
	// BudgetMs overrides the time a syncing node is given (replay files).
	BudgetMs int `json:"budget_ms,omitempty"`
}

// ---- known findings: signatures and the tamperings that trigger them -------------------------

const (
	// poolRoutine hands second.LastCommit of a peer-supplied block to the verifier, which
	// dereferences it: a block without LastCommit kills the node
	sigNilCommit = "pool-routine-dies-on-block-without-lastcommit"
	// the LastCommit of the newest block is stored as "seen commit" after a check of its
	// signatures only; fields of a precommit that the signature does not cover (validator index,
	// address) make reconstructLastCommit panic when the node switches to consensus
	sigSeenCommit = "switch-to-consensus-dies-on-seen-commit-with-altered-unsigned-fields"
)

// RedoRequest panics when the block it is to redo has disappeared in the meantime
const sigRedo = "pool-routine-dies-in-redorequest-after-failed-verification"

// deathSig names the root cause of a death of the syncing node.
func deathSig(msg, site string) string {
	switch {
	case site == "types.(*ValidatorSet).VerifyCommit" && strings.Contains(msg, "nil pointer"):
		return sigNilCommit
	case site == "pbft.(*ConsensusState).reconstructLastCommit" && strings.Contains(msg, "Failed to reconstruct LastCommit"):
		return sigSeenCommit
	case site == "blockchain.(*BlockPool).RedoRequest" && strings.Contains(msg, "Expected block to be non-nil"):
		return sigRedo
	}
	return "sync-node-dies@" + site
}

// triggers tells which open known finding a tampering is certain (or very likely) to hit, so
// that the case can leave it out while the finding is open (counted under excluded:).
func triggers(a Act) string {
	switch {
	case a.Kind == "commit-nil" && a.H != 1:
		return sigNilCommit
	case a.Kind == "commit-unsigned-fields" && a.H == 0 && a.Arg%6 < 4:
		return sigSeenCommit
	}
	return ""
}

// ---- generator -------------------------------------------------------------------------------

// picker turns rapid draws into uniform choices. rapid's integer generators prefer small
// values by design, which would make "honest" / "no action" / the first tampering of the list
// dominate the few (expensive) cases of a run; every choice is therefore a drawn 64-bit value
// passed through a fixed mixing function. All randomness still comes from rapid draws.
type picker struct {
	t *rapid.T
	n uint64
}

func mix64(z uint64) uint64 {
	z += 0x9e3779b97f4a7c15
	z = (z ^ (z >> 30)) * 0xbf58476d1ce4e5b9
	z = (z ^ (z >> 27)) * 0x94d049bb133111eb
	return z ^ (z >> 31)
}

func (p *picker) pick(label string, n int) int {
	p.n++
	v := rapid.Uint64().Draw(p.t, label)
	return int(mix64(v^mix64(p.n)) % uint64(n))
}

func (p *picker) among(label string, vals ...int) int { return vals[p.pick(label, len(vals))] }

func genCase(t *rapid.T) Case {
	g := &picker{t: t}
	c := Case{
		Blocks: 4 + g.pick("blocks", 7),
		Kind:   []string{"evm", "mixed", "kv", "evm", "empty", "mixed"}[g.pick("kind", 6)],
	}
	// validator-set changes: add the second validator, then change its power / remove it / add it again
	nch := g.among("nchanges", 0, 0, 1, 1, 1, 2, 2, 3)
	present := false
	at := int64(1)
	for i := 0; i < nch; i++ {
		at += int64(1 + g.pick("gap", 3))
		if at > int64(c.Blocks)-2 {
			break
		}
		ch := Change{At: at}
		if !present {
			ch.Op, ch.Power = "add_peer", int64(g.among("power", 1, 10, 30, 49))
			present = true
		} else if g.pick("remove", 2) == 0 {
			ch.Op = "remove_node"
			present = false
		} else {
			ch.Op, ch.Power = "update_node", int64(g.among("power", 2, 20, 45))
		}
		c.Changes = append(c.Changes, ch)
	}
	np := 1 + g.pick("npeers", 4)
	attack := g.pick("attack", 10) >= 3 // 30% of the cases have honest peers only (delays, order and connection times still vary)
	for p := 0; p < np; p++ {
		ps := PeerScript{
			Seed:           g.pick("seed", 1000),
			MaxDelayMs:     g.among("maxdelay", 0, 0, 20, 60, 120),
			ConnectDelayMs: g.among("connect", 0, 0, 50, 200),
			StatusEveryMs:  g.among("status", 200, 300, 500),
			Redial:         true,
		}
		if attack {
			if g.pick("statusdelta", 12) == 0 {
				ps.StatusDelta = g.among("delta", -2, -1, 1, 3)
			}
			if g.pick("drop", 6) == 0 {
				ps.DropAtMs = 100 + g.pick("dropat", 1400)
				ps.Redial = g.pick("redial", 4) > 0
			}
			nacts := g.pick("nacts", 6)
			if p == 0 && nacts == 0 {
				nacts = 1
			}
			used := map[int64]bool{}
			if g.pick("forger", 10) < 3 {
				// a forger: its own block at some height and a next block that names it as
				// predecessor and carries precommits for it (made with keys it has)
				fh := int64(g.among("fh", -1, -1, -2, 1, 2, 3, 4, 5, 6, 7))
				if fh < int64(c.Blocks) {
					arg, times, delay := g.pick("arg", 12), g.among("times", 1, 1, 2), g.among("delay", 0, 0, 10, 40)
					used[fh], used[fh+1] = true, true
					ps.Acts = append(ps.Acts, Act{H: fh, Kind: "forged-block", Arg: arg, Times: times, DelayMs: delay},
						Act{H: fh + 1, Kind: "forged-commit", Arg: arg, Times: times, DelayMs: delay})
				}
			}
			for a := 0; a < nacts; a++ {
				act := Act{
					// 1..: that height; 0, -1, -2: the source chain's last block, the one before, ...
					H:       int64(g.among("h", 0, 0, 0, -1, -1, -2, 1, 2, 3, 4, 5, 6, 7, 8, 9)),
					Kind:    tamperKinds[g.pick("kind", len(tamperKinds))],
					Arg:     g.pick("arg", 12),
					Times:   g.among("times", 1, 1, 1, 2),
					DelayMs: g.among("delay", 0, 0, 10, 40, 120),
				}
				if used[act.H] || act.H > int64(c.Blocks) {
					continue
				}
				used[act.H] = true
				if leavesOpen(act.Kind) {
					// the node finds out after 15 s only that a request stays open; most such peers
					// send the block later or hang up
					switch g.pick("open", 8) {
					case 0:
					case 1, 2:
						if ps.DropAtMs == 0 {
							ps.DropAtMs = 300 + g.pick("dropat", 1200)
						}
					default:
						act.FollowMs = g.among("follow", 150, 400, 800)
					}
				}
				ps.Acts = append(ps.Acts, act)
				if act.Kind == "forged-block" && act.H != 0 && !used[act.H+1] && g.pick("pair", 3) > 0 {
					// the companion block that names the forged one as its predecessor
					used[act.H+1] = true
					ps.Acts = append(ps.Acts, Act{H: act.H + 1, Kind: "forged-commit", Arg: act.Arg, Times: act.Times, DelayMs: act.DelayMs})
				}
			}
		}
		c.Peers = append(c.Peers, ps)
	}
	if attack && np >= 2 && g.pick("transientliar", 6) == 0 {
		// the only misbehaviour of the case: one peer claims a height far above the chain's and
		// then hangs up for good, or corrects itself; everybody else is honest. Once the claim is
		// gone the node has honest peers only and must finish like in an honest-only case.
		for p := range c.Peers {
			c.Peers[p].Acts, c.Peers[p].StatusDelta, c.Peers[p].DropAtMs, c.Peers[p].Redial = nil, 0, 0, true
		}
		liar := &c.Peers[1+g.pick("liar", np-1)]
		liar.StatusDelta = g.among("liardelta", 1, 3, 1000, 1<<40)
		liar.ConnectDelayMs = 0
		if g.pick("liarleaves", 2) == 0 {
			liar.DropAtMs, liar.Redial = 200+g.pick("liardrop", 600), false
		} else {
			liar.StatusDeltaUntilMs = 200 + g.pick("liaruntil", 600)
		}
	}
	// peer 0 always reconnects and keeps telling the true height, so that the chain stays obtainable
	c.Peers[0].Redial = true
	c.Peers[0].StatusDelta = 0
	return c
}

// transientLiarOnly: the case's only misbehaviour is a height claim above the chain that goes
// away within a second (the peer hangs up for good or corrects itself).
func (c Case) transientLiarOnly() bool {
	liars := 0
	for _, p := range c.Peers {
		if len(p.Acts) > 0 || p.StatusDelta < 0 {
			return false
		}
		if p.StatusDelta == 0 {
			if p.DropAtMs != 0 {
				return false
			}
			continue
		}
		leaves := p.DropAtMs > 0 && p.DropAtMs <= 1000 && !p.Redial
		corrects := p.StatusDeltaUntilMs > 0 && p.StatusDeltaUntilMs <= 1000 && p.DropAtMs == 0
		if !leaves && !corrects {
			return false
		}
		liars++
	}
	return liars > 0
}

// applyExclusions removes the tamperings that are certain to hit an open known finding.
func applyExclusions(c *Case, x *h.Ctx) {
	c.Peers = append([]PeerScript{}, c.Peers...) // the caller's case stays as generated
	for p := range c.Peers {
		var keep []Act
		for _, a := range c.Peers[p].Acts {
			if sig := triggers(a); sig != "" && x.IsKnown(sig) && !x.Replaying && os.Getenv("C13_NO_EXCLUDE") == "" {
				x.Label("excluded:" + sig)
				continue
			}
			keep = append(keep, a)
		}
		c.Peers[p].Acts = keep
	}
}

// ---- one case --------------------------------------------------------------------------------

func (c Case) silentForever() bool {
	for _, p := range c.Peers {
		for _, a := range p.Acts {
			if leavesOpen(a.Kind) && a.FollowMs == 0 && p.DropAtMs == 0 {
				return true
			}
		}
	}
	return false
}

func (c Case) tampers() bool {
	for _, p := range c.Peers {
		if len(p.Acts) > 0 || p.StatusDelta != 0 || p.DropAtMs != 0 {
			return true
		}
	}
	return false
}

func runCase(c Case, x *h.Ctx) {
	t0 := time.Now()
	if os.Getenv("C13_VERBOSE") != "" {
		cb, _ := json.Marshal(c)
		fmt.Printf("CASE %s\n", cb)
		defer func() { fmt.Printf("case took %d ms\n", time.Since(t0).Milliseconds()) }()
	}
	applyExclusions(&c, x)
	// node directories on tmpfs when there is one: a node opens ten LevelDBs and syncs them,
	// which is not this property's subject and costs seconds on a busy disk
	base, err := os.MkdirTemp("/dev/shm", "c13-")
	if err != nil {
		base, err = os.MkdirTemp("", "c13-")
	}
	if err != nil {
		panic("harness: " + err.Error())
	}
	if os.Getenv("C13_KEEP") == "" {
		defer os.RemoveAll(base)
	} else {
		fmt.Println("C13_KEEP", base)
	}

	// 1. the source chain
	srcDir := filepath.Join(base, "src")
	os.MkdirAll(srcDir, 0o700)
	chJSON, _ := json.Marshal(c.Changes)
	var srcProc *childProc
	for try := 0; try < 2; try++ {
		srcProc, err = startChild("C13_SOURCE="+srcDir, "C13_PORT="+strconv.Itoa(freePort()), "C13_BLOCKS="+strconv.Itoa(c.Blocks), "C13_KIND="+c.Kind, "C13_CHANGES="+string(chJSON))
		if err != nil {
			panic("harness: " + err.Error())
		}
		srcProc.wait(90 * time.Second)
		if srcProc.exitCode() == 0 {
			break
		}
		if msg, site := deathOf(srcProc.output()); msg != "" {
			// a live validator that dies is not this property's subject; it is reported as an
			// observation so that it does not go unnoticed
			x.Labelf("source-node-died@%s", site)
			h.Note("C13", "fastsync", "source node died: %s at %s", msg, site)
			return
		}
		os.RemoveAll(srcDir)
		os.MkdirAll(srcDir, 0o700)
	}
	if srcProc.exitCode() != 0 {
		x.Labelf("harness:source-exit-%d", srcProc.exitCode())
		h.Note("C13", "fastsync", "source failed: %s", tailLines(srcProc.output(), 5))
		return
	}
	if os.Getenv("C13_VERBOSE") != "" {
		fmt.Println(strings.Join(srcProc.output(), "\n"))
	}
	if os.Getenv("C13_VERBOSE") != "" {
		fmt.Printf("source done at %d ms\n", time.Since(t0).Milliseconds())
	}
	src, err := openSource(srcDir)
	if err != nil {
		x.Label("harness:source-unreadable")
		h.Note("C13", "fastsync", "source store: %v", err)
		return
	}
	defer src.close()
	// the validator set after each block, as the source node reported it while it ran
	valsAfter := map[int64]string{}
	for _, l := range srcProc.output() {
		if strings.HasPrefix(l, "C13 VALS ") {
			f := strings.Fields(l)
			if len(f) == 4 {
				if hgt, err := strconv.ParseInt(f[2], 10, 64); err == nil {
					valsAfter[hgt] = f[3]
				}
			}
		}
	}
	for hgt := int64(1); hgt < src.H; hgt++ {
		a, oka := valsAfter[hgt-1]
		b, okb := valsAfter[hgt]
		if (oka && okb && a != b) || (!(oka && okb) && hgt+1 < src.H && src.setSize[hgt] != src.setSize[hgt+1]) {
			src.changes = append(src.changes, hgt)
		}
	}
	if src.H < 3 {
		x.Label("harness:source-too-short")
		return
	}
	rep := c.Repeat
	if rep < 1 {
		rep = 1
	}
	for attempt := 0; attempt < rep; attempt++ {
		last := attempt == rep-1
		if syncOnce(c, src, srcDir, filepath.Join(base, fmt.Sprintf("sync%d", attempt)), last, x) {
			return
		}
	}
}

// syncOnce runs one syncing node against the scripted peers and judges it. It returns true when
// the case is decided (a violation or known finding was reported, or this was the last attempt).
func syncOnce(c Case, src *srcChain, srcDir, syncDir string, last bool, x *h.Ctx) (decided bool) {
	t0 := time.Now()
	target := src.H - 1 // block h can only be applied once block h+1 is known
	// labels of an attempt count only if the attempt decides the case
	var labs []string
	label := func(f string, a ...any) { labs = append(labs, fmt.Sprintf(f, a...)) }
	knownHit, nontrivial := false, false
	fail := func(sig, f string, a ...any) bool {
		stop := x.Fail(sig, f, a...)
		if !stop {
			knownHit = true
		}
		return stop
	}
	defer func() {
		decided = x.Failed() || knownHit || last
		if decided {
			for _, l := range labs {
				x.Label(l)
			}
			if nontrivial {
				x.NonTrivial()
			}
		}
	}()

	// 2. the syncing node
	os.MkdirAll(syncDir, 0o700)
	defer func() {
		if os.Getenv("C13_KEEP") == "" {
			os.RemoveAll(syncDir)
		}
	}()
	// with honest peers only (possibly after a height claim above the chain has gone away) a node
	// that has caught up must also leave fast sync: the child then waits for that announcement
	waitSwitch := 0
	if !c.tampers() || c.transientLiarOnly() {
		waitSwitch = 12000
	}
	budget := 14000
	if c.silentForever() {
		budget = 32000
	}
	if c.BudgetMs > 0 {
		budget = c.BudgetMs
	}
	port := freePort()
	sy, err := startChild("C13_SYNC="+syncDir, "C13_PORT="+strconv.Itoa(port), "C13_GENESIS="+filepath.Join(srcDir, "genesis.json"),
		"C13_TARGET="+strconv.FormatInt(target, 10), "C13_BUDGET_MS="+strconv.Itoa(budget), "C13_LINGER_MS=1400", "C13_WAIT_SWITCH_MS="+strconv.Itoa(waitSwitch))
	if err != nil {
		panic("harness: " + err.Error())
	}
	select {
	case <-sy.ready:
	case <-sy.done:
	case <-time.After(60 * time.Second):
	}
	select {
	case <-sy.ready:
	default:
		sy.wait(time.Second)
		if msg, site := deathOf(sy.output()); msg != "" {
			fail("sync-node-dies-at-start@"+site, "the syncing node died before any peer connected: %s\n%s", msg, tailLines(sy.output(), 30))
			return
		}
		label("harness:sync-node-did-not-start")
		h.Note("C13", "fastsync", "sync node did not start: %s", tailLines(sy.output(), 5))
		return
	}

	// 3. the scripted peers
	var peers []*scriptedPeer
	for i, ps := range c.Peers {
		sp, err := newScriptedPeer(i, ps, src, port)
		if err != nil {
			panic("harness: " + err.Error())
		}
		peers = append(peers, sp)
		go sp.run()
	}
	finished := sy.wait(time.Duration(budget+20000) * time.Millisecond)
	exitedAt := time.Now()
	for _, sp := range peers {
		sp.stop()
	}
	out := sy.output()
	if os.Getenv("C13_VERBOSE") != "" {
		fmt.Printf("sync done at %d ms\n", time.Since(t0).Milliseconds())
	}
	if os.Getenv("C13_VERBOSE") != "" {
		fmt.Println(strings.Join(out, "\n"))
	}

	// what the peers actually served
	tamperedAt := map[int64][]string{}
	servedKinds := map[string]int{}
	nServed := 0
	for _, sp := range peers {
		sp.mu.Lock()
		for _, s := range sp.served {
			nServed++
			servedKinds[s.Kind]++
			if s.Tampered {
				tamperedAt[s.Height] = append(tamperedAt[s.Height], fmt.Sprintf("peer%d:%s", sp.idx, s.Kind))
			}
		}
		sp.mu.Unlock()
	}
	var servedDesc []string
	for hgt, ks := range tamperedAt {
		servedDesc = append(servedDesc, fmt.Sprintf("%d:%s", hgt, strings.Join(ks, "+")))
	}
	sort.Strings(servedDesc)
	ctx := fmt.Sprintf("source height %d (validator changes after blocks %v, set sizes %v); tampered answers served: %v", src.H, src.changes, sizesOf(src), servedDesc)

	// (a) the process never dies
	var rep *syncReport
	seen := map[int64]syncBlock{}
	for _, l := range out {
		switch {
		case strings.HasPrefix(l, "C13 BLOCK "):
			var b syncBlock
			fmt.Sscanf(l, "C13 BLOCK %d %s %s %d", &b.Height, &b.Hash, &b.PartsHash, &b.Parts)
			seen[b.Height] = b
		case strings.HasPrefix(l, "C13 REPORT "):
			rep = &syncReport{}
			if json.Unmarshal([]byte(l[len("C13 REPORT "):]), rep) != nil {
				rep = nil
			}
		}
	}
	died := false
	if msg, _ := deathOf(out); msg == "" && finished && sy.exitCode() != 0 && sy.exitCode() != 1 && sy.exitCode() != 2 {
		// neither a panic nor an exit of the node's own making (the child's FATAL paths, a kill from outside)
		label("harness:sync-node-exit-%d", sy.exitCode())
		h.Note("C13", "fastsync", "sync node ended with exit %d: %s", sy.exitCode(), tailLines(out, 5))
		return
	}
	if msg, site := deathOf(out); msg != "" || (finished && sy.exitCode() != 0) {
		died = true
		if site == "" {
			site = "exit-" + strconv.Itoa(sy.exitCode())
		}
		if fail(deathSig(msg, site), "the syncing node process died (exit %d): %s\n%s\n--- output tail ---\n%s", sy.exitCode(), msg, ctx, tailLines(out, 40)) {
			return
		}
	} else if !finished {
		label("harness:sync-node-hung")
		h.Note("C13", "fastsync", "sync node had to be killed: %s", tailLines(out, 5))
		return
	}

	// (b) everything it ever stored is the source's block of that height: what the child saw
	// while it ran, and what is in its store now
	check := func(where string, hgt int64, hash, parts string, total int) bool {
		m := src.metas[hgt]
		if m == nil {
			return fail("stored-block-beyond-source-chain", "%s: the syncing node stored a block at height %d (%s), the source chain ends at %d\n%s", where, hgt, hash, src.H, ctx)
		}
		if !strings.EqualFold(hash, hex.EncodeToString(m.Hash)) || !strings.EqualFold(parts, hex.EncodeToString(m.PartsHeader.Hash)) || total != m.PartsHeader.Total {
			return fail("stored-block-differs-from-source", "%s: block %d stored by the syncing node is %s parts %s/%d, the source chain's is %X parts %X/%d\n%s",
				where, hgt, hash, parts, total, m.Hash, m.PartsHeader.Hash, m.PartsHeader.Total, ctx)
		}
		return false
	}
	var seenHeights []int64
	for hgt := range seen {
		seenHeights = append(seenHeights, hgt)
	}
	sort.Slice(seenHeights, func(i, j int) bool { return seenHeights[i] < seenHeights[j] })
	for _, hgt := range seenHeights {
		b := seen[hgt]
		if check("seen while running", hgt, b.Hash, b.PartsHash, b.Parts) {
			return
		}
	}
	storeHeight := int64(-1)
	func() {
		defer func() {
			if p := recover(); p != nil {
				fail("sync-store-unreadable", "reading the syncing node's block store after it exited panicked: %v\n%s", p, ctx)
			}
		}()
		bdb := dbm.NewDB("blockstore", "leveldb", filepath.Join(syncDir, "data"))
		adb := dbm.NewDB("blockstore", "leveldb", filepath.Join(syncDir, "data_archive_unused"))
		defer bdb.Close()
		defer adb.Close()
		st := blockchain.NewBlockStore(bdb, adb)
		storeHeight = st.Height()
		for hgt := int64(1); hgt <= storeHeight+1; hgt++ {
			m := st.LoadBlockMeta(hgt)
			if m == nil {
				if hgt <= storeHeight {
					fail("stored-block-missing", "block %d is below the syncing node's store height %d and is not readable\n%s", hgt, storeHeight, ctx)
					return
				}
				continue
			}
			if check("in the store after exit", hgt, hex.EncodeToString(m.Hash), hex.EncodeToString(m.PartsHeader.Hash), m.PartsHeader.Total) {
				return
			}
			if hgt > storeHeight {
				continue // a block whose parts were still being written when the process ended
			}
			// the stored parts really are the block
			if b := st.LoadBlock(hgt); b == nil || !strings.EqualFold(hex.EncodeToString(b.Hash()), hex.EncodeToString(src.metas[hgt].Hash)) {
				fail("stored-block-differs-from-source", "block %d in the syncing node's store does not decode to the source's block\n%s", hgt, ctx)
				return
			}
		}
	}()
	if x.Failed() {
		return
	}
	if died {
		label("died(known)")
		labelServed(label, servedKinds, c)
		return
	}
	if rep == nil {
		label("harness:no-report")
		return
	}

	// (c) caught up: same store, validator set and application state as the source at that height
	synced := rep.StoreHeight
	label("peers:%d", len(c.Peers))
	labelServed(label, servedKinds, c)
	if c.transientLiarOnly() {
		label("transient-overstated-height-claim")
	}
	if synced >= target && waitSwitch > 0 {
		if rep.Switched {
			label("switched-to-consensus-after-sync")
		} else if fail("caught-up-node-never-leaves-fast-sync", "every peer is honest (a height claim above the chain, if any, has gone away), the syncing node holds block %d of %d, yet %d ms after that its pool routine has not announced the switch to consensus\n%s\n--- output tail ---\n%s", synced, src.H, rep.SwitchWait, ctx, tailLines(out, 15)) {
			return
		}
	}
	if synced >= target {
		label("synced")
		label("sync-ms:<%d", ((rep.ElapsedMs-1400)/500+1)*500)
	} else {
		label("not-synced-in-budget")
		// is the pool routine still alive? it logs "IsCaughtUp" once a second until it switches
		if lb, _ := os.ReadFile(filepath.Join(syncDir, "log")); strings.Contains(string(lb), "Time to switch to consensus") {
			// every peer that claimed more was gone or evicted when the pool asked itself
			label("not-synced:switched-to-consensus-early")
		} else if gap, ok := poolSilence(syncDir, exitedAt); ok && gap > 4*time.Second {
			label("not-synced:pool-routine-silent")
			cb, _ := json.Marshal(c)
			h.Note("C13", "fastsync", "pool routine silent for %v before the node was stopped at height %d of %d; case %s", gap, synced, target, cb)
		}
		if c.transientLiarOnly() {
			if fail("sync-stalls-after-overstated-height-claim-is-gone", "a peer claimed a height above the chain's and then hung up for good or corrected itself; all other peers are honest, yet the syncing node reached height %d of %d within %d ms\n%s\n--- output tail ---\n%s", synced, target, budget, ctx, tailLines(out, 15)) {
				return
			}
		}
		if !c.tampers() {
			if fail("honest-sync-stalls", "with honest peers only the syncing node reached height %d of %d within %d ms\n%s\n--- output tail ---\n%s", synced, target, budget, ctx, tailLines(out, 15)) {
				return
			}
		}
	}
	if rep.ValHeight == synced && rep.AppHeight == synced && synced >= 1 && synced < src.H {
		next := src.metas[synced+1].Header
		if !strings.EqualFold(rep.ValHash, hex.EncodeToString(next.ValidatorsHash)) {
			if fail("validator-set-differs-after-sync", "after block %d the syncing node's validator set hashes to %s (%d validators), the source chain's block %d names %X\n%s",
				synced, rep.ValHash, rep.ValSize, synced+1, next.ValidatorsHash, ctx) {
				return
			}
		}
		if !strings.EqualFold(rep.AppHash, hex.EncodeToString(next.AppHash)) {
			if fail("app-hash-differs-after-sync", "after block %d the syncing node's application hash is %s, the source chain's block %d records %X\n%s",
				synced, rep.AppHash, synced+1, next.AppHash, ctx) {
				return
			}
		}
		label("state-compared")
	} else if synced >= target {
		if fail("state-behind-store-after-sync", "the syncing node's store is at %d, its validator set at %d, its application at %d\n%s", synced, rep.ValHeight, rep.AppHeight, ctx) {
			return
		}
	}

	// non-trivial: a tampered answer was received for a height that was applied later, or the
	// synced part of the chain crosses a validator-set change
	nt := false
	for hgt := range tamperedAt {
		if hgt <= synced {
			nt = true
			label("nt:tampered-height-applied-later")
			break
		}
	}
	for _, ch := range src.changes {
		if ch+1 <= synced {
			nt = true
			label("nt:crosses-validator-change")
			break
		}
	}
	if len(src.changes) > 1 {
		label("source:several-validator-changes")
	}
	nontrivial = nt
	return
}

// poolSilence returns the time between the last "IsCaughtUp" line of the node's log (the pool
// routine writes one per second while it is syncing) and the end of the process.
func poolSilence(syncDir string, end time.Time) (time.Duration, bool) {
	b, err := os.ReadFile(filepath.Join(syncDir, "log"))
	if err != nil {
		return 0, false
	}
	var lastTick time.Time
	for _, l := range strings.Split(string(b), "\n") {
		var e struct {
			Time string `json:"time"`
			Msg  string `json:"msg"`
		}
		if json.Unmarshal([]byte(l), &e) != nil {
			continue
		}
		t, err := time.Parse(time.RFC3339Nano, e.Time)
		if err != nil {
			continue
		}
		if strings.HasPrefix(e.Msg, "IsCaughtUp") || strings.Contains(e.Msg, "Blockpool has no peers") {
			lastTick = t
		}
	}
	if lastTick.IsZero() {
		return 0, false
	}
	return end.Sub(lastTick), true
}

func sizesOf(s *srcChain) []int {
	var out []int
	for hgt := int64(1); hgt < s.H; hgt++ {
		out = append(out, s.setSize[hgt])
	}
	return out
}

func labelServed(label func(string, ...any), servedKinds map[string]int, c Case) {
	for k, n := range servedKinds {
		if n > 0 {
			label("served:" + k)
		}
	}
	if !c.tampers() {
		label("all-honest")
	}
}

func TestFastSync(t *testing.T) {
	h.Check(t, h.Spec[Case]{Prop: "C13", Leg: "fastsync", Gen: genCase, Run: runCase})
}
