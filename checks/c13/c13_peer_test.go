// Scripted peers of the syncing node: plain p2p.Switch objects living in the test process,
// with a harness reactor on the blockchain channel. The reactor's message structs are
// wire-compatible copies of the unexported ones of gemmill/blockchain/reactor.go.
package c13

import (
	"bytes"
	"fmt"
	"os"
	"path/filepath"
	"sync"
	"time"

	"github.com/spf13/viper"

	"github.com/dappledger/AnnChain/gemmill/blockchain"
	crypto "github.com/dappledger/AnnChain/gemmill/go-crypto"
	wire "github.com/dappledger/AnnChain/gemmill/go-wire"
	dbm "github.com/dappledger/AnnChain/gemmill/modules/go-db"
	"github.com/dappledger/AnnChain/gemmill/p2p"
	gtypes "github.com/dappledger/AnnChain/gemmill/types"
)

// ---- wire-compatible messages of the blockchain channel ------------------------------------

const (
	bcChannel         = byte(0x40)
	msgBlockRequest   = byte(0x10)
	msgBlockResponse  = byte(0x11)
	msgStatusResponse = byte(0x20)
	msgStatusRequest  = byte(0x21)
	blockPartSize     = 65536 // config default block_part_size, which the syncing node uses
)

type C13Message interface{}

type blockRequestMsg struct{ Height int64 }
type blockResponseMsg struct{ Block *gtypes.Block }
type statusResponseMsg struct{ Height int64 }
type statusRequestMsg struct{ Height int64 }

var _ = wire.RegisterInterface(
	struct{ C13Message }{},
	wire.ConcreteType{O: &blockRequestMsg{}, Byte: msgBlockRequest},
	wire.ConcreteType{O: &blockResponseMsg{}, Byte: msgBlockResponse},
	wire.ConcreteType{O: &statusResponseMsg{}, Byte: msgStatusResponse},
	wire.ConcreteType{O: &statusRequestMsg{}, Byte: msgStatusRequest},
)

func decodeMsg(bz []byte) (msg C13Message, err error) {
	if len(bz) == 0 {
		return nil, fmt.Errorf("empty")
	}
	n := 0
	msg = wire.ReadBinary(struct{ C13Message }{}, bytes.NewReader(bz), 22020096+2, &n, &err).(struct{ C13Message }).C13Message
	return
}

// ---- the source chain as the peers see it ---------------------------------------------------

type srcChain struct {
	store *blockchain.BlockStore
	dbs   []dbm.DB
	H     int64
	metas map[int64]*gtypes.BlockMeta
	// setSize[h] = number of validators in force at height h (size of the commit for h)
	setSize map[int64]int
	// changes = heights h whose block changed the set (members or powers), from the source
	// child's VALS lines
	changes []int64
}

func openSource(dir string) (*srcChain, error) {
	bdb := dbm.NewDB("blockstore", "leveldb", filepath.Join(dir, "data"))
	adb := dbm.NewDB("blockstore", "leveldb", filepath.Join(dir, "data_archive_unused"))
	s := &srcChain{store: blockchain.NewBlockStore(bdb, adb), dbs: []dbm.DB{bdb, adb}, metas: map[int64]*gtypes.BlockMeta{}, setSize: map[int64]int{}}
	s.H = s.store.Height()
	for hgt := int64(1); hgt <= s.H; hgt++ {
		m := s.store.LoadBlockMeta(hgt)
		if m == nil || m.Header == nil {
			s.close()
			return nil, fmt.Errorf("source block meta %d unreadable", hgt)
		}
		s.metas[hgt] = m
		if hgt > 1 {
			b := s.store.LoadBlock(hgt)
			if b == nil || b.LastCommit == nil {
				s.close()
				return nil, fmt.Errorf("source block %d unreadable", hgt)
			}
			s.setSize[hgt-1] = len(b.LastCommit.Precommits)
		}
	}
	return s, nil
}

func (s *srcChain) close() {
	for _, d := range s.dbs {
		d.Close()
	}
}

func (s *srcChain) load(hgt int64) *gtypes.Block {
	if hgt < 1 || hgt > s.H {
		return nil
	}
	return s.store.LoadBlock(hgt)
}

// ---- scripts ---------------------------------------------------------------------------------

// Act is what a peer does with the first Times requests for height H (later requests for that
// height are answered honestly, so that the chain stays obtainable). H <= 0 counts from the
// source chain's last block (0), whose exact height the case does not fix.
type Act struct {
	H       int64  `json:"h"`
	Kind    string `json:"kind"`
	Arg     int    `json:"arg"`
	Times   int    `json:"times"`
	DelayMs int    `json:"delay_ms"`
	// FollowMs > 0: the genuine block follows that long after an answer that leaves the request
	// open (silence, undecodable bytes, a block under another height). 0: it never does; the node
	// finds out by its 15 s peer timeout unless the peer hangs up before.
	FollowMs int `json:"follow_ms,omitempty"`
}

// leavesOpen: answers after which the node is still waiting for the block it asked for.
func leavesOpen(kind string) bool {
	switch kind {
	case "silent", "garbage", "hdr-height", "other-height":
		return true
	}
	return false
}

type PeerScript struct {
	Acts           []Act `json:"acts,omitempty"`
	Seed           int   `json:"seed"`         // delays of the honest answers derive from it
	MaxDelayMs     int   `json:"max_delay_ms"` // honest answers are delayed 0..MaxDelayMs
	ConnectDelayMs int   `json:"connect_delay_ms"`
	StatusDelta    int   `json:"status_delta,omitempty"` // claimed height = source height + delta
	// StatusDeltaUntilMs > 0: that long after its first connection the peer tells the true height
	StatusDeltaUntilMs int  `json:"status_delta_until_ms,omitempty"`
	StatusEveryMs      int  `json:"status_every_ms"`      // unsolicited status every so often (0: only on request)
	DropAtMs           int  `json:"drop_at_ms,omitempty"` // the peer hangs up that long after its first connection
	Redial             bool `json:"redial"`               // the peer dials again when the connection is gone
}

// tamperKinds lists every tampering; the generator draws from it.
var tamperKinds = []string{
	"tx-flip", "hdr-apphash", "hdr-valhash", "hdr-lastblockid", "hdr-height", "hdr-time", "hdr-numtxs",
	"commit-allnil", "commit-truncate", "commit-other", "commit-nil", "commit-foreign", "commit-unsigned-fields",
	"commit-vote-field", "nil-block", "nil-header", "nil-data", "other-height", "forged-block", "forged-commit",
	"garbage", "dup", "silent",
}

func flip(b []byte, arg int) []byte {
	out := append([]byte{}, b...)
	if len(out) == 0 {
		return []byte{1}
	}
	out[((arg%len(out))+len(out))%len(out)] ^= 0x01
	return out
}

func blockIDOf(b *gtypes.Block) gtypes.BlockID {
	return gtypes.BlockID{Hash: b.Hash(), PartsHeader: b.MakePartSet(blockPartSize).Header()}
}

func forgedBlock(s *srcChain, hgt int64) *gtypes.Block {
	b := s.load(hgt)
	if b == nil {
		return nil
	}
	b.Data = &gtypes.Data{Txs: gtypes.Txs{gtypes.Tx(fmt.Sprintf("c13-forged-%d", hgt))}}
	b.NumTxs = 1
	b.DataHash = b.Data.Hash()
	return b
}

func signedVote(key crypto.PrivKeyEd25519, addr []byte, idx int, hgt, round int64, id gtypes.BlockID) *gtypes.Vote {
	v := &gtypes.Vote{ValidatorAddress: addr, ValidatorIndex: idx, Height: hgt, Round: round, Type: gtypes.VoteTypePrecommit, BlockID: id}
	v.Signature = key.Sign(gtypes.SignBytes(chainID, v))
	return v
}

// tampered builds the answer of kind `kind` to a request for height hgt. send=false: nothing is
// sent. raw != nil: these bytes are sent instead of a message. effective=false: the tampering
// does not apply to this height (the honest block is returned).
func tampered(s *srcChain, hgt int64, kind string, arg int) (blk *gtypes.Block, raw []byte, send, effective bool) {
	b := s.load(hgt)
	if b == nil {
		return nil, nil, false, false // beyond the source chain: an honest peer has nothing
	}
	if arg < 0 {
		arg = -arg
	}
	firstVote := func(c *gtypes.Commit) (int, *gtypes.Vote) {
		if c == nil {
			return -1, nil
		}
		for i, v := range c.Precommits {
			if v != nil {
				return i, v
			}
		}
		return -1, nil
	}
	switch kind {
	case "honest":
		return b, nil, true, false
	case "silent":
		return nil, nil, false, true
	case "dup":
		return b, nil, true, true // the caller sends it twice
	case "garbage":
		switch arg % 3 {
		case 0:
			return nil, []byte{msgBlockResponse, 0x01, 0xff, 0xff, 0xff, 0xff}, true, true
		case 1:
			return nil, []byte{0x7e, 0x00}, true, true
		default:
			full := wire.BinaryBytes(struct{ C13Message }{&blockResponseMsg{Block: b}})
			return nil, full[:len(full)/2], true, true
		}
	case "nil-block":
		return nil, nil, true, true
	case "nil-header":
		b.Header = nil
		return b, nil, true, true
	case "nil-data":
		b.Data = nil
		return b, nil, true, true
	case "tx-flip":
		if len(b.Data.Txs) > 0 {
			i := arg % len(b.Data.Txs)
			b.Data.Txs[i] = gtypes.Tx(flip(b.Data.Txs[i], arg))
		} else {
			b.Data.Txs = append(b.Data.Txs, gtypes.Tx("c13-injected"))
		}
		return b, nil, true, true
	case "hdr-apphash":
		b.AppHash = flip(b.AppHash, arg)
		return b, nil, true, true
	case "hdr-valhash":
		b.ValidatorsHash = flip(b.ValidatorsHash, arg)
		return b, nil, true, true
	case "hdr-lastblockid":
		b.LastBlockID.Hash = flip(b.LastBlockID.Hash, arg)
		return b, nil, true, true
	case "hdr-time":
		b.Time = b.Time.Add(time.Second)
		return b, nil, true, true
	case "hdr-numtxs":
		b.NumTxs++
		return b, nil, true, true
	case "hdr-height":
		// the content of block hgt under another height number
		d := []int64{1, -1, 2}[arg%3]
		if hgt+d < 1 {
			d = 1
		}
		b.Height = hgt + d
		return b, nil, true, true
	case "other-height":
		d := []int64{1, -1, 2, 3}[arg%4]
		o := s.load(hgt + d)
		if o == nil {
			o = s.load(hgt - 1)
		}
		if o == nil {
			return b, nil, true, false
		}
		return o, nil, true, true
	case "commit-nil":
		b.LastCommit = nil
		return b, nil, true, true
	case "commit-allnil":
		if len(b.LastCommit.Precommits) == 0 {
			return b, nil, true, false
		}
		for i := range b.LastCommit.Precommits {
			b.LastCommit.Precommits[i] = nil
		}
		return b, nil, true, true
	case "commit-truncate":
		n := len(b.LastCommit.Precommits)
		if n == 0 {
			return b, nil, true, false
		}
		if arg%2 == 0 {
			b.LastCommit.Precommits = b.LastCommit.Precommits[:n-1]
		} else {
			b.LastCommit.Precommits = []*gtypes.Vote{}
		}
		return b, nil, true, true
	case "commit-other":
		d := []int64{1, -1}[arg%2]
		o := s.load(hgt + d)
		if o == nil || hgt+d < 2 {
			o = s.load(hgt - d)
		}
		if o == nil || o.Height < 2 || hgt < 2 {
			return b, nil, true, false
		}
		b.LastCommit = o.LastCommit
		return b, nil, true, true
	case "commit-unsigned-fields":
		// fields of a precommit (and of the commit) that the signature does not cover
		i, v := firstVote(b.LastCommit)
		if v == nil {
			return b, nil, true, false
		}
		switch arg % 6 {
		case 0:
			v.ValidatorIndex = -1
		case 1:
			v.ValidatorIndex = i + 1
		case 2:
			v.ValidatorAddress = flip(v.ValidatorAddress, arg)
		case 3:
			v.ValidatorAddress = nil
		case 4:
			b.LastCommit.BlockID = gtypes.BlockID{}
		default:
			b.LastCommit.BlockID.Hash = flip(b.LastCommit.BlockID.Hash, arg)
		}
		return b, nil, true, true
	case "commit-vote-field":
		_, v := firstVote(b.LastCommit)
		if v == nil {
			return b, nil, true, false
		}
		switch arg % 5 {
		case 0:
			v.Round++
		case 1:
			v.Height++
		case 2:
			v.Type = gtypes.VoteTypePrevote
		case 3:
			v.BlockID.Hash = flip(v.BlockID.Hash, arg)
		default:
			v.Signature = nil
		}
		return b, nil, true, true
	case "commit-foreign":
		// precommits for the right block id made with a key that is no validator at that height
		// (the second validator's key before it was added / after it was removed / next to the
		// running validator with less than a third of the power; or a key that never was one)
		i, v := firstVote(b.LastCommit)
		if v == nil {
			return b, nil, true, false
		}
		key := val2Key
		if arg%4 == 3 {
			key = outsiderKey
		}
		addr := key.PubKey().Address()
		n := len(b.LastCommit.Precommits)
		switch arg % 4 {
		case 0, 3: // in the running validator's place, under its address
			b.LastCommit.Precommits[i] = signedVote(key, v.ValidatorAddress, i, v.Height, v.Round, v.BlockID)
		case 1: // alone, in its own place
			j := 0
			if n == 2 {
				j = 1 - i
			}
			ps := make([]*gtypes.Vote, n)
			ps[j] = signedVote(key, addr, j, v.Height, v.Round, v.BlockID)
			b.LastCommit.Precommits = ps
		default: // one more entry than the set has members
			b.LastCommit.Precommits = append(b.LastCommit.Precommits, signedVote(key, addr, n, v.Height, v.Round, v.BlockID))
		}
		return b, nil, true, true
	case "forged-block":
		return forgedBlock(s, hgt), nil, true, true
	case "forged-commit":
		// the companion of forged-block at hgt-1: names the forged block as predecessor and
		// carries precommits for it made with keys that are not (or not enough of) the validators
		prev := forgedBlock(s, hgt-1)
		if prev == nil || hgt < 2 {
			return b, nil, true, false
		}
		id := blockIDOf(prev)
		_, v := firstVote(b.LastCommit)
		if v == nil {
			return b, nil, true, false
		}
		n := len(b.LastCommit.Precommits)
		ps := make([]*gtypes.Vote, n)
		for j := range ps {
			key := val2Key
			if arg%3 == 1 {
				key = outsiderKey
			}
			addr := key.PubKey().Address()
			if b.LastCommit.Precommits[j] != nil {
				if arg%3 == 2 && n > 1 {
					// only the forger's own precommit, in its own place: a genuine signature of a
					// validator (when the second validator is one at that height) with less than a
					// third of the power
					continue
				}
				addr = b.LastCommit.Precommits[j].ValidatorAddress
			}
			ps[j] = signedVote(key, addr, j, hgt-1, v.Round, id)
		}
		b.LastBlockID = id
		b.LastCommit = &gtypes.Commit{BlockID: id, Precommits: ps}
		b.LastCommitHash = nil // recomputed by the receiver's FillHeader: a consistent header
		return b, nil, true, true
	}
	return b, nil, true, false
}

// ---- reactors --------------------------------------------------------------------------------

type served struct {
	Height   int64
	Kind     string
	Tampered bool
}

type scriptedPeer struct {
	idx    int
	script PeerScript
	src    *srcChain
	addr   *p2p.NetAddress
	sw     *p2p.Switch

	mu        sync.Mutex
	asked     map[int64]int
	served    []served
	removed   int // times the connection went away
	dials     int
	connected bool
	stopped   bool
	firstConn time.Time
	stopCh    chan struct{}
}

type bcReactor struct {
	p2p.BaseReactor
	sp *scriptedPeer
}

func (r *bcReactor) GetChannels() []*p2p.ChannelDescriptor {
	return []*p2p.ChannelDescriptor{{ID: bcChannel, Priority: 5, SendQueueCapacity: 100}}
}

var verbose = os.Getenv("C13_VERBOSE") != ""

func (r *bcReactor) AddPeer(peer *p2p.Peer) {
	sp := r.sp
	if verbose {
		fmt.Printf("%s peer%d connected\n", time.Now().Format("15:04:05.000"), sp.idx)
	}
	sp.mu.Lock()
	sp.connected = true
	if sp.firstConn.IsZero() {
		sp.firstConn = time.Now()
	}
	sp.mu.Unlock()
	sp.sendStatus(peer)
}

func (r *bcReactor) RemovePeer(peer *p2p.Peer, reason interface{}) {
	sp := r.sp
	if verbose {
		fmt.Printf("%s peer%d disconnected: %v\n", time.Now().Format("15:04:05.000"), sp.idx, reason)
	}
	sp.mu.Lock()
	sp.connected = false
	sp.removed++
	stopped := sp.stopped
	sp.mu.Unlock()
	if !stopped && sp.script.Redial {
		go sp.dialLoop(150 * time.Millisecond)
	}
}

func (r *bcReactor) Receive(chID byte, peer *p2p.Peer, msgBytes []byte) {
	msg, err := decodeMsg(msgBytes)
	if err != nil {
		return
	}
	switch m := msg.(type) {
	case *blockRequestMsg:
		go r.sp.answer(peer, m.Height)
	case *statusRequestMsg:
		r.sp.sendStatus(peer)
	}
}

// sinkReactor swallows what the node's other reactors send (an unknown channel would make the
// connection fail on our side).
type sinkReactor struct {
	p2p.BaseReactor
}

func (r *sinkReactor) GetChannels() []*p2p.ChannelDescriptor {
	var out []*p2p.ChannelDescriptor
	for _, id := range []byte{0x00, 0x20, 0x21, 0x22, 0x23, 0x30, 0x50} {
		out = append(out, &p2p.ChannelDescriptor{ID: id, Priority: 1, SendQueueCapacity: 10})
	}
	return out
}

func (sp *scriptedPeer) sendStatus(peer *p2p.Peer) {
	delta := int64(sp.script.StatusDelta)
	if sp.script.StatusDeltaUntilMs > 0 {
		sp.mu.Lock()
		first := sp.firstConn
		sp.mu.Unlock()
		if !first.IsZero() && time.Since(first) >= time.Duration(sp.script.StatusDeltaUntilMs)*time.Millisecond {
			delta = 0
		}
	}
	hgt := sp.src.H + delta
	if hgt < 0 {
		hgt = 0
	}
	peer.TrySend(bcChannel, struct{ C13Message }{&statusResponseMsg{Height: hgt}})
}

func (sp *scriptedPeer) actFor(hgt int64) *Act {
	for i := range sp.script.Acts {
		if a := sp.script.Acts[i].H; a == hgt || (a <= 0 && sp.src.H+a == hgt) {
			return &sp.script.Acts[i]
		}
	}
	return nil
}

func (sp *scriptedPeer) answer(peer *p2p.Peer, hgt int64) {
	sp.mu.Lock()
	sp.asked[hgt]++
	nth := sp.asked[hgt]
	sp.mu.Unlock()
	kind, arg := "honest", 0
	delay, follow := 0, 0
	if sp.script.MaxDelayMs > 0 {
		delay = (sp.script.Seed*7 + int(hgt)*13) % (sp.script.MaxDelayMs + 1)
	}
	if a := sp.actFor(hgt); a != nil && nth <= a.Times {
		kind, arg, delay, follow = a.Kind, a.Arg, a.DelayMs, a.FollowMs
	}
	if delay > 0 {
		select {
		case <-time.After(time.Duration(delay) * time.Millisecond):
		case <-sp.stopCh:
			return
		}
	}
	blk, raw, send, effective := tampered(sp.src, hgt, kind, arg)
	if !effective {
		kind = "honest"
	}
	sp.mu.Lock()
	sp.served = append(sp.served, served{Height: hgt, Kind: kind, Tampered: effective && kind != "dup"})
	sp.mu.Unlock()
	if verbose {
		fmt.Printf("%s peer%d answers request #%d for %d: %s (send=%v, peer running=%v)\n", time.Now().Format("15:04:05.000"), sp.idx, nth, hgt, kind, send, peer.IsRunning())
	}
	switch {
	case !send:
	case raw != nil:
		// a message object whose wire form is exactly these bytes
		peer.TrySend(bcChannel, rawBytes(raw))
	default:
		peer.TrySend(bcChannel, struct{ C13Message }{&blockResponseMsg{Block: blk}})
		if kind == "dup" {
			peer.TrySend(bcChannel, struct{ C13Message }{&blockResponseMsg{Block: blk}})
		}
	}
	if effective && leavesOpen(kind) && follow > 0 {
		select {
		case <-time.After(time.Duration(follow) * time.Millisecond):
		case <-sp.stopCh:
			return
		}
		if b := sp.src.load(hgt); b != nil {
			sp.mu.Lock()
			sp.served = append(sp.served, served{Height: hgt, Kind: "honest"})
			sp.mu.Unlock()
			peer.TrySend(bcChannel, struct{ C13Message }{&blockResponseMsg{Block: b}})
		}
	}
}

// rawBytes: go-wire writes a fixed-size byte array without a length prefix, so an array of the
// payload's length goes out as the payload itself.
func rawBytes(bz []byte) interface{} {
	switch len(bz) {
	case 2:
		var a [2]byte
		copy(a[:], bz)
		return a
	case 6:
		var a [6]byte
		copy(a[:], bz)
		return a
	}
	// other lengths: pad/cut to 64 bytes (a truncated block response stays undecodable)
	var a [64]byte
	copy(a[:], bz)
	return a
}

func newScriptedPeer(idx int, script PeerScript, src *srcChain, port int) (*scriptedPeer, error) {
	addr, err := p2p.NewNetAddressString(fmt.Sprintf("127.0.0.1:%d", port))
	if err != nil {
		return nil, err
	}
	sp := &scriptedPeer{idx: idx, script: script, src: src, addr: addr, asked: map[int64]int{}, stopCh: make(chan struct{})}
	sw := p2p.NewSwitch(viper.New())
	key := crypto.GenPrivKeyEd25519FromSecret([]byte(fmt.Sprintf("c13-peer-%d", idx)))
	sw.SetNodeInfo(&p2p.NodeInfo{
		PubKey:     key.PubKey(),
		Moniker:    fmt.Sprintf("c13-peer-%d", idx),
		Network:    chainID,
		Version:    "0.9.0",
		ListenAddr: fmt.Sprintf("127.0.0.1:%d", 20000+idx),
	})
	sw.SetNodePrivKey(key)
	r := &bcReactor{sp: sp}
	r.BaseReactor = *p2p.NewBaseReactor("c13-bc", r)
	sw.AddReactor("BLOCKCHAIN", r)
	sink := &sinkReactor{}
	sink.BaseReactor = *p2p.NewBaseReactor("c13-sink", sink)
	sw.AddReactor("SINK", sink)
	if _, err := sw.Start(); err != nil {
		return nil, err
	}
	sp.sw = sw
	return sp, nil
}

// dialLoop tries to (re)connect a few times.
func (sp *scriptedPeer) dialLoop(first time.Duration) {
	select {
	case <-time.After(first):
	case <-sp.stopCh:
		return
	}
	for try := 0; try < 8; try++ {
		sp.mu.Lock()
		stop := sp.stopped || sp.connected || sp.dials >= 12
		sp.dials++
		sp.mu.Unlock()
		if stop {
			return
		}
		if _, err := sp.sw.DialPeerWithAddress(sp.addr); err == nil {
			return
		}
		select {
		case <-time.After(200 * time.Millisecond):
		case <-sp.stopCh:
			return
		}
	}
}

// run is the peer's life: connect, send unsolicited status now and then, hang up when told.
func (sp *scriptedPeer) run() {
	go sp.dialLoop(time.Duration(sp.script.ConnectDelayMs) * time.Millisecond)
	tick := time.NewTicker(25 * time.Millisecond)
	defer tick.Stop()
	var lastStatus time.Time
	dropped := false
	for {
		select {
		case <-sp.stopCh:
			return
		case now := <-tick.C:
			sp.mu.Lock()
			first := sp.firstConn
			sp.mu.Unlock()
			if first.IsZero() {
				continue
			}
			if sp.script.DropAtMs > 0 && !dropped && now.Sub(first) >= time.Duration(sp.script.DropAtMs)*time.Millisecond {
				dropped = true
				for _, p := range sp.sw.Peers().List() {
					sp.sw.StopPeerGracefully(p) // our reactor's RemovePeer redials if the script says so
				}
				continue
			}
			if sp.script.StatusEveryMs > 0 && now.Sub(lastStatus) >= time.Duration(sp.script.StatusEveryMs)*time.Millisecond {
				lastStatus = now
				for _, p := range sp.sw.Peers().List() {
					sp.sendStatus(p)
				}
			}
		}
	}
}

func (sp *scriptedPeer) stop() {
	sp.mu.Lock()
	if sp.stopped {
		sp.mu.Unlock()
		return
	}
	sp.stopped = true
	sp.mu.Unlock()
	close(sp.stopCh)
	sp.sw.Stop()
}
