// C01: agreement — honest validators never commit different blocks at a height; chains are linear.
package c01

import (
	"bytes"
	"fmt"
	"testing"

	"pgregory.net/rapid"

	"verif/internal/h"
	"verif/internal/sim"
)

func TestMain(m *testing.M) { h.Main(m) }

type Case struct {
	Powers []int64  `json:"powers"`
	Byz    []int    `json:"byz"` // ids of Byzantine validators (constructed so that 3*power(Byz) < total)
	Ops    []sim.Op `json:"ops"`
	// ViaSwitch: nodes enter consensus (at start and after restarts) through
	// ConsensusReactor.SwitchToConsensus, as nodes with fast_sync enabled do
	ViaSwitch bool `json:"viaSwitch,omitempty"`
}

func GenPowers(t *rapid.T, maxN int) []int64 {
	n := rapid.IntRange(1, maxN).Draw(t, "n")
	kind := rapid.IntRange(0, 4).Draw(t, "powerKind")
	ps := make([]int64, n)
	for i := range ps {
		switch kind {
		case 0, 1:
			ps[i] = 1
		case 2:
			ps[i] = int64(1) << uint(i) // geometric
		case 3:
			ps[i] = rapid.Int64Range(1, 10).Draw(t, "p")
		default:
			ps[i] = rapid.Int64Range(1, 1<<40).Draw(t, "p")
		}
	}
	return ps
}

// GenByz picks a Byzantine subset with strictly less than one third of the power, by construction.
func GenByz(t *rapid.T, ps []int64) []int {
	var total int64
	for _, p := range ps {
		total += p
	}
	var byz []int
	var bp int64
	order := rapid.Permutation(seq(len(ps))).Draw(t, "byzOrder")
	want := rapid.IntRange(0, len(ps)).Draw(t, "byzWant")
	for _, i := range order {
		if len(byz) >= want {
			break
		}
		if 3*(bp+ps[i]) < total && len(byz)+1 < len(ps) {
			byz = append(byz, i)
			bp += ps[i]
		}
	}
	return byz
}

func seq(n int) []int {
	s := make([]int, n)
	for i := range s {
		s[i] = i
	}
	return s
}

var opKinds = []string{
	"deliver", "deliver", "deliver", "deliver", "deliver", "deliver", "deliver", "deliver",
	"own", "own", "own", "own",
	"timeout", "timeout",
	"fair", "fair", "fair",
	"byzvote", "byzvote", "byzprop", "split",
	"dup", "drop", "crashrestart", "crash", "restart", "sync", "amnesia",
}

// attackKinds adds the scripted multi-round attacks and the +2/3 claims of a Byzantine peer;
// half of the cases draw from this list, the other half from the plain one (a scripted attack
// consumes most of a case's budget of heights, so mixing them into every case would thin out the
// schedules that rely on many small adversarial steps)
var attackKinds = append(append([]string{}, opKinds...), "stalepolka", "lateproposal", "byzclaim", "byzclaim")

func genOpFrom(kinds []string) func(t *rapid.T) sim.Op {
	return func(t *rapid.T) sim.Op {
		return sim.Op{
			K: rapid.SampledFrom(kinds).Draw(t, "k"),
			N: rapid.IntRange(0, 63).Draw(t, "n"),
			A: rapid.IntRange(0, 1023).Draw(t, "a"),
			B: rapid.IntRange(0, 1023).Draw(t, "b"),
			C: rapid.IntRange(0, 1023).Draw(t, "c"),
		}
	}
}

func GenOp(t *rapid.T) sim.Op { return genOpFrom(attackKinds)(t) }

func genCase(t *rapid.T) Case {
	ps := GenPowers(t, 7)
	c := Case{Powers: ps, Byz: GenByz(t, ps)}
	kinds := opKinds
	if rapid.Bool().Draw(t, "withScriptedAttacks") {
		kinds = attackKinds
	}
	c.Ops = rapid.SliceOfN(rapid.Custom(genOpFrom(kinds)), 10, 260).Draw(t, "ops")
	c.ViaSwitch = rapid.IntRange(0, 3).Draw(t, "viaSwitch") == 0
	return c
}

func runCase(c Case, x *h.Ctx) {
	dir, doneDir := sim.TempDir("c01-")
	defer doneDir()
	byz := make([]bool, len(c.Powers))
	for _, i := range c.Byz {
		byz[i] = true
	}
	net := sim.New(sim.Config{Powers: c.Powers, Byz: byz, Dir: dir, ViaSwitch: c.ViaSwitch})
	defer net.Close()
	d := sim.NewDriver(net)
	d.LogOn = x.Replaying

	agreed := map[int64][]byte{}
	commits := 0
	var fail func() bool
	pending := []string{}
	net.OnCommit = func(n *sim.Node, cm sim.Committed) {
		commits++
		if prev, ok := agreed[cm.Height]; ok {
			if !bytes.Equal(prev, cm.Hash) {
				pending = append(pending, fmt.Sprintf("fork|node %d committed %x at height %d, another honest node committed %x", n.ID, cm.Hash, cm.Height, prev))
			}
		} else {
			agreed[cm.Height] = cm.Hash
		}
		// linearity of this node's own chain
		blk := n.Store.LoadBlock(cm.Height)
		if blk == nil {
			pending = append(pending, fmt.Sprintf("committed-block-unreadable|node %d height %d", n.ID, cm.Height))
			return
		}
		if !bytes.Equal(blk.Hash(), cm.Hash) {
			pending = append(pending, fmt.Sprintf("stored-block-hash-mismatch|node %d height %d", n.ID, cm.Height))
		}
		if cm.Height > 1 {
			pm := n.Store.LoadBlockMeta(cm.Height - 1)
			if pm == nil || !bytes.Equal(blk.LastBlockID.Hash, pm.Hash) {
				pending = append(pending, fmt.Sprintf("chain-not-linear|node %d: block %d names predecessor %x, committed predecessor is %x", n.ID, cm.Height, blk.LastBlockID.Hash, pm.Hash))
			}
		} else if len(blk.LastBlockID.Hash) != 0 {
			pending = append(pending, fmt.Sprintf("chain-not-linear|node %d: block 1 names a predecessor", n.ID))
		}
	}
	fail = func() bool {
		for _, p := range pending {
			i := bytes.IndexByte([]byte(p), '|')
			if x.Fail(p[:i], "%s\nschedule tail: %v", p[i+1:], tailOf(d.Log, 30)) {
				return true
			}
		}
		pending = pending[:0]
		return false
	}
	for _, op := range c.Ops {
		d.Apply(op)
		if fail() {
			return
		}
	}
	// a short fair suffix lets pending decisions complete so that late forks surface
	d.Sync()
	for i := 0; i < 150; i++ {
		if !d.FairStep() {
			break
		}
		if fail() {
			return
		}
	}
	st := d.Stats
	x.Labelf("validators:%d", len(c.Powers))
	if c.ViaSwitch {
		x.Label("entered-via-switch-to-consensus")
	}
	x.Labelf("byz:%d", len(c.Byz))
	x.Labelf("maxround:%s", bucket(int(st.MaxRound)))
	x.Labelf("heights:%s", bucket(len(agreed)))
	if st.Equivocations > 0 {
		x.Label("equivocation")
	}
	if st.Crashes > 0 {
		x.Label("crash")
	}
	if st.Locked {
		x.Label("locked-seen")
	}
	if st.StalePolkas > 0 {
		x.Label("stale-polka-attack-completed")
	}
	if st.LateProposals > 0 {
		x.Label("late-proposal-attack-completed")
	}
	if st.Starved > 0 {
		x.Label("amnesia-attack-with-a-round-without-proposal-completed")
	}
	if st.Splits > 0 {
		x.Label("split-attack")
	}
	if st.Stuffed > 0 {
		x.Label("byzantine-votes-presented-for-other-validators-slots")
	}
	if st.ByzProposals > 0 {
		x.Label("byz-proposal")
	}
	if commits > 0 && (st.Equivocations > 0 || st.MaxRound > 0 || st.Crashes > 0 || (st.Reordered && st.Dropped > 0)) {
		x.NonTrivial()
	}
}

func tailOf(s []string, n int) []string {
	if len(s) > n {
		return s[len(s)-n:]
	}
	return s
}

func bucket(n int) string {
	switch {
	case n <= 2:
		return fmt.Sprint(n)
	case n <= 4:
		return "3-4"
	}
	return ">4"
}

func TestAgreement(t *testing.T) {
	h.Check(t, h.Spec[Case]{Prop: "C01", Leg: "schedules", Gen: genCase, Run: runCase})
}
