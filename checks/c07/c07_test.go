// C07: WAL replay restores the in-progress height after a crash.
package c07

import (
	"bytes"
	"fmt"
	"os"
	"strings"
	"testing"

	"pgregory.net/rapid"

	"github.com/dappledger/AnnChain/gemmill/consensus/pbft"
	"github.com/dappledger/AnnChain/gemmill/types"

	"verif/internal/h"
	"verif/internal/sim"
)

func TestMain(m *testing.M) { h.Main(m) }

type Case struct {
	Powers  []int64  `json:"powers"`
	Ops     []sim.Op `json:"ops"`           // prefix schedule (no crashes)
	Subject int      `json:"subject"`       // selector among validators
	Repair  bool     `json:"repair"`        // neutralise known finding "proposer cache lost on reload" (hook H3)
	Cut     int      `json:"cut"`           // -1: log intact; else byte offset (mod line length) at which the last WAL line is cut
	Rotate  int      `json:"rotate"`        // -1: never; else the WAL head is rotated after that many ops
	Second  int      `json:"second"`        // -1: one crash; else crash again after that many fair steps and compare again
	PartSz  int      `json:"part_size"`     // block part size (0 = 512)
	TxBytes int      `json:"tx_bytes"`      // size of a transaction queued at every proposer (0 = none): makes WAL records large
	Byz     []int    `json:"byz,omitempty"` // Byzantine validators (< 1/3 of the power, never the subject): their votes, proposals and +2/3 claims are part of what the subject processes before the crash
	EndOn   string   `json:"end_on"`        // "": crash where the schedule ends; "part"/"vote": first deliver one more in-flight block part / vote to the subject, so that record is the last one in its log
}

var opKinds = []string{
	"deliver", "deliver", "deliver", "deliver", "deliver", "deliver",
	"own", "own", "own", "own",
	"timeout", "timeout", "timeout",
	"fair", "fair", "drop", "drop", "dup", "sync", "nilrounds", "nilrounds",
}

func genCase(t *rapid.T) Case {
	n := rapid.IntRange(1, 5).Draw(t, "n")
	ps := make([]int64, n)
	kind := rapid.IntRange(0, 2).Draw(t, "powerKind")
	for i := range ps {
		switch kind {
		case 0:
			ps[i] = 1
		case 1:
			ps[i] = rapid.Int64Range(1, 5).Draw(t, "p")
		default:
			ps[i] = rapid.Int64Range(1, 1<<40).Draw(t, "p")
		}
	}
	c := Case{Powers: ps, Subject: rapid.IntRange(0, n-1).Draw(t, "subject")}
	kinds := opKinds
	if n >= 4 && rapid.IntRange(0, 1).Draw(t, "withByzantine") == 0 {
		if rapid.Bool().Draw(t, "byzEqualPowers") {
			for i := range ps {
				ps[i] = 1
			}
			kind = 0
		}
		b := (c.Subject + 1 + rapid.IntRange(0, n-2).Draw(t, "byz")) % n
		var total int64
		for _, p := range ps {
			total += p
		}
		if 3*ps[b] < total {
			c.Byz = []int{b}
			kinds = append(append([]string{}, opKinds...), "byzvote", "byzvote", "byzvote", "byzclaim", "byzclaim", "byzprop", "split")
			if kind == 0 {
				// equal powers: the scripted lock attacks apply; they leave honest nodes locked in a
				// later round than the one they locked in, with further votes signed since
				kinds = append(kinds, "stalepolka", "stalepolka", "amnesia")
			}
		}
	}
	c.Ops = rapid.SliceOfN(rapid.Custom(func(t *rapid.T) sim.Op {
		return sim.Op{K: rapid.SampledFrom(kinds).Draw(t, "k"), N: rapid.IntRange(0, 31).Draw(t, "n"), A: rapid.IntRange(0, 255).Draw(t, "a"), B: rapid.IntRange(0, 255).Draw(t, "b"), C: rapid.IntRange(0, 255).Draw(t, "c")}
	}), 1, 120).Draw(t, "ops")
	c.Repair = rapid.IntRange(0, 4).Draw(t, "repair") > 0
	c.Cut = -1
	if rapid.IntRange(0, 2).Draw(t, "cutp") == 0 {
		c.Cut = rapid.IntRange(0, 4000).Draw(t, "cut")
	}
	c.Rotate = -1
	if rapid.IntRange(0, 3).Draw(t, "rotp") == 0 {
		c.Rotate = rapid.IntRange(0, len(c.Ops)).Draw(t, "rotate")
	}
	c.Second = -1
	if rapid.IntRange(0, 2).Draw(t, "secondp") == 0 {
		c.Second = rapid.IntRange(0, 40).Draw(t, "second")
	}
	c.PartSz = rapid.SampledFrom([]int{512, 512, 4096, 65536}).Draw(t, "partSize")
	c.TxBytes = rapid.SampledFrom([]int{0, 0, 300, 3000, 9000}).Draw(t, "txBytes")
	c.EndOn = rapid.SampledFrom([]string{"", "", "part", "part", "vote"}).Draw(t, "endOn")
	if c.Cut >= 0 && c.TxBytes > 0 {
		c.Cut = rapid.IntRange(0, 40000).Draw(t, "cutBig") // offsets deep inside a large record
	}
	if rapid.IntRange(0, 7).Draw(t, "tornBigProfile") == 0 {
		// a block part of several KB is the last record, it is torn far from its start, and the
		// node crashes once more after it has gone on for a while
		c.TxBytes = rapid.SampledFrom([]int{5000, 9000, 20000}).Draw(t, "tornTx")
		c.PartSz = 65536
		c.EndOn = "part"
		c.Cut = rapid.IntRange(4000, 2*c.TxBytes+2000).Draw(t, "tornCut")
		c.Second = rapid.IntRange(0, 30).Draw(t, "tornSecond")
	}
	if rapid.IntRange(0, 7).Draw(t, "fullPartProfile") == 0 {
		// blocks of the size the default configuration is made for: parts of up to 64 KiB
		// (block_part_size default), whose WAL records are longer than 64 KiB
		c.TxBytes = rapid.SampledFrom([]int{40000, 70000, 150000}).Draw(t, "fullPartTx")
		c.PartSz = 65536
		if c.Cut >= 0 {
			c.Cut = rapid.IntRange(0, 140000).Draw(t, "fullPartCut")
		}
	}
	return c
}

const sigClaimedVote = "lock-built-on-claimed-conflicting-vote-lost-after-replay"

type voteKey struct {
	h, r int64
	t    byte
}

// cutLastLine truncates the WAL head so that its last line keeps only j bytes (no newline).
// It returns the complete line that was cut.
func cutLastLine(path string, j int) (string, bool) {
	b, err := os.ReadFile(path)
	if err != nil || len(b) == 0 {
		return "", false
	}
	end := len(b)
	if b[end-1] == '\n' {
		end--
	}
	start := bytes.LastIndexByte(b[:end], '\n') + 1
	line := string(b[start:end])
	if len(line) == 0 {
		return "", false
	}
	keep := j % len(line)
	if err := os.Truncate(path, int64(start+keep)); err != nil {
		return "", false
	}
	return line, true
}

func runCase(c Case, x *h.Ctx) {
	dir, doneDir := sim.TempDir("c07-")
	defer doneDir()
	byzMask := make([]bool, len(c.Powers))
	for _, b := range c.Byz {
		if b >= 0 && b < len(byzMask) && b != c.Subject%len(c.Powers) {
			byzMask[b] = true
		}
	}
	net := sim.New(sim.Config{Powers: c.Powers, Byz: byzMask, Dir: dir, RepairProposer: c.Repair, PartSize: c.PartSz})
	defer net.Close()
	if c.TxBytes > 0 {
		for _, n := range net.Honest() {
			tx := make([]byte, c.TxBytes)
			for i := range tx {
				tx[i] = byte(i*7 + n.ID)
			}
			n.Pool.Push(tx)
		}
		x.Label("large-wal-records")
		if c.TxBytes >= 33000 && (c.PartSz == 0 || c.PartSz >= 65536) {
			x.Label("wal-records-longer-than-64KiB")
		}
	}
	d := sim.NewDriver(net)
	d.LogOn = x.Replaying
	sub := net.Nodes[c.Subject%len(net.Nodes)]

	// votes the subject has signed so far (signed = left the signer), by height/round/type
	signed := map[voteKey]string{}
	var contradiction string
	net.OnQueued = func(n *sim.Node, ms []pbft.ConsensusMessage) {
		if n != sub {
			return
		}
		for _, m := range ms {
			if vm, ok := m.(*pbft.VoteMessage); ok {
				k := voteKey{vm.Vote.Height, vm.Vote.Round, vm.Vote.Type}
				if prev, ok := signed[k]; ok && prev != vm.Vote.BlockID.Key() && contradiction == "" {
					contradiction = fmt.Sprintf("subject signed %s for %x although it had signed for %x at the same height/round/type before (restarts so far: %d)", sim.Describe(m), vm.Vote.BlockID.Hash, []byte(prev), sub.Restarts)
				}
				signed[k] = vm.Vote.BlockID.Key()
			}
		}
	}
	dPrev, dCur := "", sim.Digest(sub.RS())
	lockedAtCrash, maxRound := false, int64(0)
	net.OnStep = func(n *sim.Node) {
		if n == sub {
			dPrev, dCur = dCur, sim.Digest(n.RS())
		}
	}
	agreed := map[int64][]byte{}
	fork := ""
	net.OnCommit = func(n *sim.Node, cm sim.Committed) {
		if prev, ok := agreed[cm.Height]; ok && !bytes.Equal(prev, cm.Hash) && fork == "" {
			fork = fmt.Sprintf("node %d committed %x at height %d, another node %x", n.ID, cm.Hash, cm.Height, prev)
		}
		agreed[cm.Height] = cm.Hash
	}
	claimsInPrefix := false
	for _, op := range c.Ops {
		if len(c.Byz) > 0 && (op.K == "byzclaim" || op.K == "sync") {
			claimsInPrefix = true
		}
	}
	rotated := false
	for i, op := range c.Ops {
		if c.Rotate == i && sub.Alive {
			sub.Ctl.WALRotate()
			rotated = true
		}
		d.Apply(op)
	}
	if fork != "" {
		x.Fail("fork", "%s", fork)
		return
	}
	if c.EndOn != "" && sub.Alive {
		// run on (fairly) until a message of the wanted kind is in flight to the subject, deliver it
		// and crash right there: that record is then the last one in the subject's log
	SEARCH:
		for tries := 0; tries < 80; tries++ {
			for i, f := range net.InFlight {
				if f.To != sub.ID {
					continue
				}
				_, isPart := f.Msg.(*pbft.BlockPartMessage)
				_, isVote := f.Msg.(*pbft.VoteMessage)
				if (c.EndOn == "part" && isPart) || (c.EndOn == "vote" && isVote) {
					net.Deliver(i, false)
					x.Labelf("ended-on:%s", c.EndOn)
					break SEARCH
				}
			}
			if !d.FairStep() {
				break
			}
		}
	}
	rs := sub.RS()
	lockedAtCrash = rs.LockedBlock != nil
	maxRound = rs.Round
	heightAtCrash := rs.Height

	s20Seen := false
	restartAndCompare := func(tag string, cut int) bool {
		walHead := sub.Ctl.WALHeadPath()
		want := dCur
		state0Proposer := sub.CS.GetState().Validators.Proposer().Address
		proposerBefore := sub.RS().Validators.Proposer().Address
		// votes of the current height that the subject has signed (the signer file has them) but not
		// yet processed: they die with the process, before their WAL line
		// Only the LAST thing signed can come back: the signer file keeps one signature and refuses
		// anything older (an earlier prevote of the same round is gone for good, by design).
		var custody []*types.Vote
		for _, m := range sub.Own {
			if vm, ok := m.(*pbft.VoteMessage); ok && vm.Vote.Height == sub.RS().Height && sub.PV != nil &&
				sub.PV.LastHeight == vm.Vote.Height && sub.PV.LastRound == vm.Vote.Round && int(sub.PV.LastStep) == int(vm.Vote.Type)+1 {
				custody = append(custody, vm.Vote)
			}
		}
		net.Crash(sub)
		cutKind := ""
		if cut >= 0 {
			line, ok := cutLastLine(walHead, cut)
			if ok {
				switch {
				case strings.HasPrefix(line, "#"):
					cutKind = "marker"
				case strings.Contains(line, `"msg":[2,`) || strings.Contains(line, `"msg":[3,`):
					cutKind = "input"
					want = dPrev // the last input never reached the log intact
				default:
					cutKind = "roundstate"
				}
				x.Labelf("cut:%s", cutKind)
			}
		}
		var pv any
		func() {
			defer func() { pv = recover() }()
			net.Restart(sub)
		}()
		if pv != nil {
			x.Fail("restart-panics", "%s: restart (OnStart/catchupReplay) panicked: %v (cut=%s)", tag, pv, cutKind)
			return false
		}
		got := sim.Digest(sub.RS())
		if !c.Repair && !bytes.Equal(sub.CS.GetState().Validators.Proposer().Address, state0Proposer) {
			s20Seen = true // the reloaded node names another round-0 proposer than before the crash
		}
		if cutKind == "marker" {
			// a cut "#HEIGHT" marker belongs to the step that committed the previous height; the state
			// database is already at the new height, so the node starts it afresh
			return true
		}
		if got != want && !(cutKind == "input" && got == dCur) {
			sig := "digest-differs-after-replay"
			if claimsInPrefix && d.Stats.Equivocations > 0 {
				// listed finding (leg claimedvote): +2/3 claims of peers are not logged, so a conflicting
				// vote of an equivocating validator that was counted because of a claim is rejected by the
				// replay; histories with an equivocation AND a claim are attributed to it
				sig = sigClaimedVote
			}
			after := sub.CS.GetState().Validators.Proposer().Address
			if !c.Repair && !bytes.Equal(after, state0Proposer) {
				sig = "proposer-cache-lost-on-reload"
				s20Seen = true
			}
			if cutKind != "" && sig != "proposer-cache-lost-on-reload" && sig != sigClaimedVote {
				sig += ":cut-" + cutKind
			}
			if x.Fail(sig, "%s: round state after restart differs from the state when the last logged input was processed\n before: %s\n after:  %s\n (round-0 proposer before %x, after reload %x; proposer of the round before %x)", tag, want, got, state0Proposer, after, proposerBefore) {
				return false
			}
		}
		dCur = got
		// the step that produced the last signed vote is restored, so that vote has to be there again
		// (the signer hands out the recorded signature for identical sign-bytes): queued for
		// processing, or already counted
		if cutKind == "" && !s20Seen {
			for _, v := range custody {
				found := false
				for _, m := range sub.Own {
					if vm, ok := m.(*pbft.VoteMessage); ok && vm.Vote.Height == v.Height && vm.Vote.Round == v.Round && vm.Vote.Type == v.Type && vm.Vote.BlockID.Equals(v.BlockID) {
						found = true
					}
				}
				if rs := sub.RS(); !found && rs.Votes != nil && rs.Height == v.Height {
					vs := rs.Votes.Prevotes(v.Round)
					if v.Type == types.VoteTypePrecommit {
						vs = rs.Votes.Precommits(v.Round)
					}
					if vs != nil {
						if have := vs.GetByAddress(sub.Addr); have != nil && have.BlockID.Equals(v.BlockID) {
							found = true
						}
					}
				}
				if found {
					x.Label("signed-unprocessed-vote-reissued-after-replay")
				} else if x.Fail("own-signed-vote-not-reissued-after-replay", "%s: before the crash the subject had signed %s (it is in the signer file) but not yet processed it; after the restart the step is restored (%s) and the vote is neither queued again nor counted: nobody will ever send it", tag, sim.Describe(&pbft.VoteMessage{Vote: v}), got) {
					return false
				}
			}
		}
		return true
	}

	if !restartAndCompare("first crash", c.Cut) {
		return
	}
	if contradiction != "" {
		x.Fail("vote-contradicts-pre-crash-vote", "%s", contradiction)
		return
	}
	if c.Second >= 0 {
		for i := 0; i < c.Second; i++ {
			if !d.FairStep() {
				break
			}
		}
		if sub.Alive && sub.RS().Height == heightAtCrash || true {
			if !restartAndCompare("second crash", -1) {
				return
			}
		}
	}
	// continue fairly: the subject must decide the same block as its peers
	d.Sync()
	target := heightAtCrash
	ok := d.RunFair(target, 3000)
	if contradiction != "" {
		x.Fail("vote-contradicts-pre-crash-vote", "%s", contradiction)
		return
	}
	if fork != "" {
		x.Fail("fork", "%s", fork)
		return
	}
	if !ok {
		// peers decided but the subject did not: a convergence failure of the restarted node
		others := true
		for _, n := range net.Honest() {
			if n != sub && n.Store.Height() < target {
				others = false
			}
		}
		if others && sub.Store.Height() < target {
			sig := "restarted-node-does-not-decide"
			if s20Seen {
				// the reloaded node disagreed with its peers about the proposer (recorded finding): it may
				// have rejected the real proposal or proposed itself
				sig = "proposer-cache-lost-on-reload"
			}
			if x.Fail(sig, "peers committed height %d, the restarted subject is stuck at %s\nlog: %s", target, sim.Digest(sub.RS()), strings.Join(d.Log, "\n  ")) {
				return
			}
		}
		x.Label("suffix-stalled")
	}
	x.Labelf("validators:%d", len(c.Powers))
	if d.Stats.NilRounds > 0 {
		x.Labelf("undecided-rounds-before-crash:%d", min64(int64(d.Stats.NilRounds), 12))
	}
	if len(c.Byz) > 0 {
		x.Label("byzantine-validator-present")
		if d.Stats.ByzClaims > 0 {
			x.Label("byzantine-claim-before-crash")
		}
		if d.Stats.Equivocations > 0 {
			x.Label("byzantine-equivocation-before-crash")
		}
	}
	x.Labelf("round-at-crash:%d", min64(maxRound, 3))
	if lockedAtCrash {
		x.Label("locked-at-crash")
	}
	if rotated {
		x.Label("wal-rotated")
	}
	if d.Stats.StalePolkas > 0 || d.Stats.Starved > 0 {
		x.Label("scripted-lock-attack-before-crash")
	}
	if c.Cut >= 4000 && c.TxBytes >= 5000 && c.Second >= 0 {
		x.Label("torn-large-record-then-second-crash")
	}
	if c.Repair {
		x.Label("excluded:proposer-cache-lost-on-reload")
	}
	if c.Second >= 0 {
		x.Label("second-crash")
	}
	if maxRound >= 1 || lockedAtCrash || rotated || c.Cut >= 0 {
		x.NonTrivial()
	}
	_ = types.VoteTypePrevote
}

func min64(a, b int64) int64 {
	if a < b {
		return a
	}
	return b
}

func TestReplay(t *testing.T) {
	h.Check(t, h.Spec[Case]{Prop: "C07", Leg: "replay", Gen: genCase, Run: runCase})
}
