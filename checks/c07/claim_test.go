package c07

import (
	"fmt"
	"testing"

	"github.com/dappledger/AnnChain/gemmill/consensus/pbft"
	"github.com/dappledger/AnnChain/gemmill/types"

	"verif/internal/h"
	"verif/internal/sim"
)

// Leg "claimedvote": a vote that the validator counted only because a peer had claimed a +2/3
// majority for that block (VoteSetMaj23: the reactor hands the claim to the height vote set
// directly, it is not an input of the receive routine and therefore not in the WAL).
//
// 4 equal validators, Z Byzantine. The subject S prevotes block B, receives Z's prevote for nil,
// then a claim "+2/3 prevoted B" from a peer, then Z's conflicting prevote for B (kept and counted
// because of the claim), then one honest prevote for B: polka for B with Z's vote, S locks B and
// precommits it. S is killed and restarted. The property asks that it resumes with the votes it
// had received and the lock it held.
type ClaimCase struct {
	Subject int  `json:"subject"` // index into the honest validators
	Claim   bool `json:"claim"`   // false: control run without the claim (Z's second vote is then a plain conflict and nothing is locked)
}

func runClaimCase(c ClaimCase, x *h.Ctx) {
	dir, doneDir := sim.TempDir("c07c-")
	defer doneDir()
	for byzID := 0; byzID < 4; byzID++ {
		byz := make([]bool, 4)
		byz[byzID] = true
		net := sim.New(sim.Config{Powers: []int64{1, 1, 1, 1}, Byz: byz, Dir: fmt.Sprintf("%s/b%d", dir, byzID), RepairProposer: true})
		done := playClaim(net, byzID, c, x)
		net.Close()
		if done || x.Failed() {
			return
		}
	}
	x.Label("script-not-applicable")
}

func playClaim(net *sim.Net, byzID int, c ClaimCase, x *h.Ctx) bool {
	hs := net.Honest()
	vals := hs[0].RS().Validators
	p0 := -1
	for _, n := range net.Nodes {
		if string(n.Addr) == string(vals.Proposer().Address) {
			p0 = n.ID
		}
	}
	if p0 < 0 || p0 == byzID {
		return false // the script wants an honest round-0 proposer
	}
	S := hs[c.Subject%len(hs)]
	var H1 *sim.Node
	for _, n := range hs {
		if n != S {
			H1 = n
			break
		}
	}
	own := func(n *sim.Node) {
		for len(n.Own) > 0 {
			net.OwnStep(n, 0)
		}
	}
	fire := func(n *sim.Node) {
		rs := n.RS()
		n.Ctl.Ticker.DropStale(rs.Height, rs.Round, rs.Step)
		if p := n.Ctl.Ticker.Pending(); len(p) > 0 {
			net.Timeout(n, len(p)-1)
		}
	}
	for _, n := range hs {
		fire(n) // NewHeight -> Propose
	}
	own(net.Nodes[p0]) // the proposal and its parts
	prs := net.Nodes[p0].RS()
	if prs.ProposalBlock == nil {
		return false
	}
	B := types.BlockID{Hash: prs.ProposalBlock.Hash(), PartsHeader: prs.ProposalBlockParts.Header()}
	deliver := func(keep func(f sim.Flight) bool) {
		for {
			found := -1
			for i, f := range net.InFlight {
				if keep(f) {
					found = i
					break
				}
			}
			if found < 0 {
				return
			}
			net.Deliver(found, false)
		}
	}
	isData := func(f sim.Flight) bool {
		switch f.Msg.(type) {
		case *pbft.ProposalMessage, *pbft.BlockPartMessage:
			return true
		}
		return false
	}
	deliver(func(f sim.Flight) bool { return isData(f) && (f.To == S.ID || f.To == H1.ID) })
	own(S)
	own(H1)
	if rs := S.RS(); rs.Step != pbft.RoundStepPrevote || rs.ProposalBlock == nil {
		return false
	}
	// Z: prevote nil, then (after the claim) a prevote for B
	net.Inject(S.ID, byzID, &pbft.VoteMessage{Vote: sim.SignVote(byzID, vals, 1, 0, types.VoteTypePrevote, types.BlockID{})})
	if c.Claim {
		S.RS().Votes.SetPeerMaj23(0, types.VoteTypePrevote, fmt.Sprintf("peer-%d", byzID), B)
	}
	net.Inject(S.ID, byzID, &pbft.VoteMessage{Vote: sim.SignVote(byzID, vals, 1, 0, types.VoteTypePrevote, B)})
	// one honest prevote for B
	deliver(func(f sim.Flight) bool {
		vm, ok := f.Msg.(*pbft.VoteMessage)
		return ok && f.To == S.ID && f.From == H1.ID && vm.Vote.Type == types.VoteTypePrevote
	})
	own(S)
	before := S.RS()
	lockedBefore := before.LockedBlock != nil
	if c.Claim && !lockedBefore {
		x.Label("claimed-conflicting-vote-not-counted")
		return true // the node did not count the claimed vote: nothing to lose
	}
	if c.Claim {
		x.Label("locked-on-a-polka-that-includes-a-claimed-conflicting-vote")
		x.NonTrivial()
	} else {
		x.Label("control:no-claim")
	}
	want := sim.Digest(before)
	net.Crash(S)
	var pv any
	func() {
		defer func() { pv = recover() }()
		net.Restart(S)
	}()
	if pv != nil {
		x.Fail("restart-panics", "restart panicked: %v", pv)
		return true
	}
	after := S.RS()
	got := sim.Digest(after)
	if lockedBefore && after.LockedBlock == nil {
		x.Fail(sigClaimedVote, "before the crash the validator was locked on %x: the polka consisted of its own prevote, one honest prevote and the conflicting prevote of a Byzantine validator that it had kept because a peer claimed +2/3 for that block. The claim is not in the WAL; the replay rejects that vote as a plain conflict, sees no polka and restores neither the lock nor the step\n before: %s\n after:  %s", B.Hash, want, got)
		return true
	}
	if got != want {
		x.Fail("digest-differs-after-replay:claimed-vote", "round state after restart differs\n before: %s\n after:  %s", want, got)
	}
	return true
}

func TestClaimedVote(t *testing.T) {
	pl := h.NewPlain(t, "C07", "claimedvote")
	var rc ClaimCase
	if h.ReplayCase("C07", "claimedvote", &rc) {
		pl.Case(rc, func(x *h.Ctx) { runClaimCase(rc, x) })
		return
	}
	if h.Replaying() {
		t.Skip()
	}
	for s := 0; s < 3; s++ {
		for _, claim := range []bool{true, false} {
			c := ClaimCase{Subject: s, Claim: claim}
			pl.Case(c, func(x *h.Ctx) { runClaimCase(c, x) })
		}
	}
	h.SetExhaustive("C07", "claimedvote")
}
