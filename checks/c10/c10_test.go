// C10: EVM semantics conform to reference go-ethereum v1.8.27 under Constantinople rules.
//
// Differential check: one generated (pre-state, message, contracts) case is executed by the
// in-tree vm.EVM over the in-tree state.StateDB and by the reference vm.EVM over the reference
// state.StateDB (own mem DB each, hand-built vm.Context) and every observable named by the
// property is compared: outcome class, return data, created address, logs, self-destructs and
// the full post-transaction state dump.
//
// Documented deviations are handled by construction, never by loosening the comparison:
//   - the in-tree EVM meters against the production per-transaction budget (EVMGasLimit); the
//     reference gets a supply that does not bind (and the tracer verifies that it did not);
//     a program in which any in-tree frame ran out of budget is classed `budget`, not compared;
//   - opcode GAS is never generated; if mutated bytecode executes it anyway (or a CALL with a
//     non-maximal gas operand, whose effect is the caller-supplied-gas deviation) the case is
//     classed out of domain and not compared;
//   - the governance precompile 0xfe is compared for existence only; programs that call it are
//     not compared (a panic is still a finding).
//
// Generator classes beyond the plain grammar (gen_accounts_test.go, gen_jumps_test.go) are
// measured on what the in-tree run really executed, not on what the generator meant:
//
//	inspect:<op>:<existence state of the account looked at>[-after-<touching mechanism>]
//	jump:<init|fresh|prestate>:<valid|not-a-jumpdest|into-push-data-at-5b|out-of-range>
//	shape:different-initcodes-that-jump:<n>, shape:creates-in-one-tx, shape:call-into-code-deployed-in-this-tx
//	txs:<n> for cases that send their message more than once (separate transactions).
package c10

import (
	"bytes"
	"fmt"
	"math/big"
	"runtime"
	"sort"
	"strings"
	"testing"

	"verif/internal/h"
)

func TestMain(m *testing.M) {
	// A case is ~0.3 MB of short-lived garbage over a tiny live heap and the search itself is
	// single-threaded: 16 GC workers in each of the 16 shard processes cost 2-3x in lock/futex
	// and madvise time (measured), one P does not.
	runtime.GOMAXPROCS(1)
	runtime.MemProfileRate = 0
	h.Main(m)
}

const prop = "C10"

// Signatures of the defects already confirmed by probes (DESIGN.md §2.4) and found again by
// this check. Each names one root cause / failing shape.
const (
	// S15: baseGas* never set callGasTemp -> callee contract.Gas == 0 -> code deposit fails.
	sigS15 = "create-in-called-frame-loses-code"
	// S16: MainnetChainConfig at low heights -> Constantinople opcodes under Frontier rules.
	sigS16Static = "as-deployed-staticcall-allows-state-write"
	sigS16Nonce  = "as-deployed-created-contract-nonce-0"
	sigS16Size   = "as-deployed-no-code-size-limit"
	// governance precompile slices its input without a length check
	sigGovPanic = "governance-precompile-panics-on-short-input"
)

// gas handed to the top-level frame on both sides ("caller-supplied gas" that never binds)
const topGas uint64 = 1 << 62

// ---------------------------------------------------------------------------------------
// case

type KV struct {
	K h.Hex `json:"k"`
	V h.Hex `json:"v"`
}

type Acct struct {
	Addr    h.Hex  `json:"addr"`
	Balance h.Hex  `json:"balance,omitempty"` // big-endian
	Nonce   uint64 `json:"nonce,omitempty"`
	Code    h.Hex  `json:"code,omitempty"`
	Storage []KV   `json:"storage,omitempty"`
	Asm     string `json:"asm,omitempty"` // disassembly, informational only
}

type EVMCase struct {
	Accounts []Acct `json:"accounts"`
	Sender   h.Hex  `json:"sender"`
	To       h.Hex  `json:"to,omitempty"` // empty: contract creation, Data is the init code
	Data     h.Hex  `json:"data,omitempty"`
	Value    h.Hex  `json:"value,omitempty"`
	Number   uint64 `json:"number"`
	Time     uint64 `json:"time"`
	// Again: the same message is sent this many more times, each as a transaction of its own
	// (new EVM, Finalise(true) in between) over the state the previous one left
	Again    int      `json:"again,omitempty"`
	Excluded []string `json:"excluded,omitempty"` // shapes the generator avoided (open known findings)
	Mutated  bool     `json:"mutated,omitempty"`
}

// ---------------------------------------------------------------------------------------
// side-independent result

type logRec struct {
	Addr   string
	Topics []string
	Data   string
}

type acctDump struct {
	Balance string
	Nonce   uint64
	Code    string
	Storage map[string]string
}

type result struct {
	class    string // success | revert | failure
	errText  string
	ret      []byte
	created  string // address returned by a top-level creation
	logs     []logRec
	suicided []string
	accounts map[string]acctDump
	tr       *tcore
	panicked any
	stack    string
}

// tcore is the side-independent part of the tracer.
type tcore struct {
	steps    int
	ops      [256]uint32
	maxDepth int
	trace    []uint32 // depth<<24 | op<<16 | pc&0xffff, first maxTrace steps
	limit    int      // abort after this many steps (0: none)
	cancel   func()
	aborted  bool

	why        string
	budget     bool // a frame ran out of the in-tree budget / the reference supply did bind
	sawGas     bool
	lowCallGas bool
	gov        bool

	staticFrom   int // depth of the frame that executed the outermost STATICCALL, 0 = not static
	staticWrite  bool
	writeBlocked bool // a frame was stopped by the STATICCALL write protection
	createLowGas bool // CREATE/CREATE2 executed in a frame whose contract.Gas is tiny (S15 shape)
	// a contract created in this transaction created again / an address was created twice: both
	// depend on the nonce a fresh contract starts with (S16 shape)
	createByCreated, recreate, hashOfCreated bool
	writes                                   bool
	nested                                   bool
	creates                                  bool
	sdAddrs                                  map[string]bool
	createdAddrs                             []string

	// measurement of the account-inspection and jump classes (in-tree side only)
	preEmpty                 map[string]bool  // accounts that are empty in the pre-state
	touched                  map[string]uint8 // address -> mechanisms that reached it in this transaction
	inspects                 map[string]bool  // "<op>:<existence state>"
	jumps                    map[string]bool  // "<code kind>:<destination kind>"
	initJumped               map[uint64]bool  // distinct hash-less init codes (CREATE / creation tx) that took a jump
	callFresh, callFreshCode bool
	txs                      int             // transactions started
	createdBefore            int             // createdAddrs[:createdBefore] were created by earlier transactions of the case
	destroyed                map[string]bool // self-destructed in an earlier transaction of the case
}

const (
	tCall0 uint8 = 1 << iota
	tCallV
	tStatic
	tBenef
)

// acctView is what the state says about an account at the moment an instruction looks at it.
type acctView struct{ exist, empty, code, suicided bool }

const maxTrace = 3000

var addrMask = new(big.Int).Sub(new(big.Int).Lsh(big.NewInt(1), 160), big.NewInt(1))

func join(a, b string) string {
	if a == "" {
		return b
	}
	return a + "+" + b
}

func txTag(i int) string {
	if i == 0 {
		return ""
	}
	return fmt.Sprintf("tx%d:", i+1)
}

// newTx: a transaction boundary (the case may send its message more than once).
func (c *tcore) newTx() {
	c.txs++
	c.createdBefore = len(c.createdAddrs)
	c.touched = map[string]uint8{}
	c.staticFrom = 0
}

func newCore() *tcore {
	return &tcore{destroyed: map[string]bool{}, sdAddrs: map[string]bool{}, touched: map[string]uint8{}, inspects: map[string]bool{}, jumps: map[string]bool{}, initJumped: map[uint64]bool{}}
}

type stepInfo struct {
	depth   int
	pc      uint64
	op      byte
	gas     uint64 // contract.Gas before the instruction
	cost    uint64
	floor   uint64
	back    func(n int) *big.Int
	mem     func(off, size int64) []byte
	self    func() string
	reqGas  func(addr byte, in []byte) uint64 // precompile price
	gasLeft uint64                            // what a precompile may cost at most on this side
	acct    func(addr string) acctView        // nil: no measurement on this side
}

func isWriteOp(op byte) bool {
	return op == 0x55 || (op >= 0xa0 && op <= 0xa4) || op == 0xf0 || op == 0xf5 || op == 0xff
}

// interesting tells whether step needs the operands of the instruction (everything else goes
// through the allocation-free count).
func interesting(op byte) bool {
	return op == 0x5a || op == 0x3f || op == 0x3b || op == 0x3c || op == 0x31 || isWriteOp(op) || op == 0xf1 || op == 0xf2 || op == 0xf4 || op == 0xfa
}

func addrHex(v *big.Int) string { return fmt.Sprintf("%040x", new(big.Int).And(v, addrMask)) }

func touchNames(m uint8) string {
	var p []string
	for i, n := range []string{"call0", "callvalue", "staticcall", "selfdestruct-beneficiary"} {
		if m&(1<<uint(i)) != 0 {
			p = append(p, n)
		}
	}
	if len(p) > 1 {
		return "several-touches"
	}
	return strings.Join(p, "+")
}

// inspect records in which existence state the account was that an account-inspecting
// instruction looked at.
func (c *tcore) inspect(s stepInfo) {
	a := addrHex(s.back(0))
	v := s.acct(a)
	created := isCreatedIn(a, c)
	earlier := ""
	for _, prev := range c.createdAddrs[:c.createdBefore] {
		if prev == a {
			earlier = "-in-earlier-tx"
		}
	}
	pre := strings.HasPrefix(a, "00000000000000000000000000000000000000")
	var st string
	switch {
	case a == s.self() && created && !v.code:
		st = "self-being-created"
	case a == s.self():
		st = "self"
	case c.destroyed[a] && !v.code:
		st = "selfdestructed-in-earlier-tx"
	case created && v.suicided:
		st = "created" + earlier + "-selfdestructed"
	case created && v.code:
		st = "created" + earlier + "-with-code"
	case created && v.exist:
		st = "created" + earlier + "-no-code"
	case created:
		st = "creation-undone-or-pending"
	case v.suicided:
		st = "selfdestructed"
	case a == govAddrHex:
		st = "governance-precompile"
	case pre && a[38:] >= "01" && a[38:] <= "08":
		switch {
		case !v.exist:
			st = "precompile-absent"
		case v.empty:
			st = "precompile-empty"
		default:
			st = "precompile-funded"
		}
	case !v.exist:
		st = "absent"
	case v.empty && c.preEmpty[a]:
		st = "empty-in-prestate"
	case v.empty:
		st = "empty"
	case v.code:
		st = "contract"
	default:
		st = "nonempty-no-code"
	}
	if m := c.touched[a]; m != 0 && (!v.exist || v.empty) {
		st += "-after-" + touchNames(m)
	}
	c.inspects[opName(s.op)+":"+st] = true
}

// jump records where a taken JUMP / JUMPI went. kind: init (hash-less init code: CREATE or the
// creation transaction), fresh (code of an address created in this transaction), prestate.
func (c *tcore) jump(kind string, code []byte, dest *big.Int) {
	var cls string
	switch {
	case dest.BitLen() > 32 || int(dest.Uint64()) >= len(code):
		cls = "out-of-range"
	case code[dest.Uint64()] != 0x5b:
		cls = "not-a-jumpdest"
	default:
		d, pc := int(dest.Uint64()), 0
		for pc < d {
			if o := code[pc]; o >= 0x60 && o <= 0x7f {
				pc += int(o-0x5f) + 1
			} else {
				pc++
			}
		}
		if pc == d {
			cls = "valid"
		} else {
			cls = "into-push-data-at-5b"
		}
	}
	c.jumps[kind+":"+cls] = true
	if kind == "init" {
		hh := uint64(14695981039346656037)
		for _, b := range code {
			hh = (hh ^ uint64(b)) * 1099511628211
		}
		c.initJumped[hh] = true
	}
}

func (c *tcore) count(depth int, pc uint64, op byte, gas, cost, floor uint64) {
	if floor > 0 && gas-cost < floor {
		// reference only: a frame is close to running dry (code deposit, the only charge the
		// tracer does not see, is at most 24576*200 gas)
		c.budget = true
		if c.why == "" {
			c.why = fmt.Sprintf("frame gas %d below the floor at depth %d pc %d", gas-cost, depth, pc)
		}
	}
	c.steps++
	c.ops[op]++
	if depth > c.maxDepth {
		c.maxDepth = depth
	}
	if len(c.trace) < maxTrace {
		c.trace = append(c.trace, uint32(depth&0xff)<<24|uint32(op)<<16|uint32(pc&0xffff))
	}
	if c.limit > 0 && c.steps > c.limit && !c.aborted {
		c.aborted = true
		if c.cancel != nil {
			c.cancel()
		}
	}
	if c.staticFrom != 0 && depth <= c.staticFrom {
		c.staticFrom = 0
	}
}

func (c *tcore) step(s stepInfo) {
	c.count(s.depth, s.pc, s.op, s.gas, s.cost, s.floor)
	inStatic := c.staticFrom != 0
	switch {
	case s.op == 0x5a:
		c.sawGas = true
	case s.op == 0x3f || s.op == 0x3b || s.op == 0x3c || s.op == 0x31:
		if s.op == 0x3f && len(c.createdAddrs) > 0 {
			a := addrHex(s.back(0))
			for _, prev := range c.createdAddrs {
				if prev == a {
					c.hashOfCreated = true
				}
			}
		}
		if s.acct != nil {
			c.inspect(s)
		}
	case isWriteOp(s.op):
		c.writes = true
		if inStatic {
			c.staticWrite = true
		}
		if s.op == 0xf0 || s.op == 0xf5 {
			c.creates = true
			if s.gas < 1<<30 {
				c.createLowGas = true
			}
		}
		if s.op == 0xff {
			c.sdAddrs[s.self()] = true
			if s.acct != nil {
				c.touched[addrHex(s.back(0))] |= tBenef
			}
		}
	case s.op == 0xf1 || s.op == 0xf2 || s.op == 0xf4 || s.op == 0xfa:
		c.nested = true
		if s.back(0).BitLen() < 29 {
			// a gas operand that small is the caller-supplied-gas deviation itself
			c.lowCallGas = true
		}
		to := s.back(1)
		if s.acct != nil {
			a := addrHex(to)
			switch {
			case s.op == 0xfa:
				c.touched[a] |= tStatic
			case s.op == 0xf1 && s.back(2).Sign() == 0:
				c.touched[a] |= tCall0
			case s.op == 0xf1:
				c.touched[a] |= tCallV
			}
			if isCreatedIn(a, c) {
				c.callFresh = true
				if s.acct(a).code {
					c.callFreshCode = true
				}
			}
		}
		inAt := 3
		if s.op == 0xf4 || s.op == 0xfa {
			inAt = 2
		} else if s.back(2).Sign() != 0 && inStatic && s.op == 0xf1 {
			c.staticWrite = true
		}
		if to.BitLen() <= 8 {
			a := byte(to.Uint64())
			if a == 0xfe {
				c.gov = true
			}
			if a >= 1 && a <= 8 {
				off, size := s.back(inAt), s.back(inAt+1)
				var in []byte
				if size.Sign() > 0 && off.IsInt64() && size.IsInt64() {
					in = s.mem(off.Int64(), size.Int64())
				}
				if s.reqGas(a, in) > s.gasLeft {
					c.why = fmt.Sprintf("precompile %d needs %d > %d", a, s.reqGas(a, in), s.gasLeft)
					c.budget = true
				}
			}
		}
		if s.op == 0xfa && c.staticFrom == 0 {
			c.staticFrom = s.depth
		}
	}
}

// ---------------------------------------------------------------------------------------
// comparison

type diff struct {
	kind string // class | return | created | logs | selfdestruct | account | balance | nonce | code | storage
	addr string
	msg  string
}

func short(s string) string {
	if len(s) > 80 {
		return fmt.Sprintf("%s…(%d hex chars)", s[:80], len(s))
	}
	return s
}

func compareResults(a, b *result) []diff {
	var ds []diff
	if a.class != b.class {
		ds = append(ds, diff{"class", "", fmt.Sprintf("outcome class: in-tree %s (%s), reference %s (%s)", a.class, a.errText, b.class, b.errText)})
	}
	if !bytes.Equal(a.ret, b.ret) {
		ds = append(ds, diff{"return", "", fmt.Sprintf("return data: in-tree %s, reference %s", short(fmt.Sprintf("%x", a.ret)), short(fmt.Sprintf("%x", b.ret)))})
	}
	if a.created != b.created {
		ds = append(ds, diff{"created", "", fmt.Sprintf("created address: in-tree %s, reference %s", a.created, b.created)})
	}
	if len(a.logs) != len(b.logs) {
		ds = append(ds, diff{"logs", "", fmt.Sprintf("logs: in-tree %d, reference %d", len(a.logs), len(b.logs))})
	} else {
		for i := range a.logs {
			la, lb := a.logs[i], b.logs[i]
			if la.Addr != lb.Addr || la.Data != lb.Data || strings.Join(la.Topics, ",") != strings.Join(lb.Topics, ",") {
				ds = append(ds, diff{"logs", la.Addr, fmt.Sprintf("log %d: in-tree %v, reference %v", i, la, lb)})
				break
			}
		}
	}
	if strings.Join(a.suicided, ",") != strings.Join(b.suicided, ",") {
		ds = append(ds, diff{"selfdestruct", "", fmt.Sprintf("self-destructed: in-tree %v, reference %v", a.suicided, b.suicided)})
	}
	addrs := map[string]bool{}
	for k := range a.accounts {
		addrs[k] = true
	}
	for k := range b.accounts {
		addrs[k] = true
	}
	keys := make([]string, 0, len(addrs))
	for k := range addrs {
		keys = append(keys, k)
	}
	sort.Strings(keys)
	for _, k := range keys {
		x, okx := a.accounts[k]
		y, oky := b.accounts[k]
		if okx != oky {
			ds = append(ds, diff{"account", k, fmt.Sprintf("account %s: exists in-tree %v (%+v), reference %v (%+v)", k, okx, trimAcct(x), oky, trimAcct(y))})
			continue
		}
		if k == govAddrHex {
			continue // governance precompile: existence only
		}
		if x.Balance != y.Balance {
			ds = append(ds, diff{"balance", k, fmt.Sprintf("balance of %s: in-tree %s, reference %s", k, x.Balance, y.Balance)})
		}
		if x.Nonce != y.Nonce {
			ds = append(ds, diff{"nonce", k, fmt.Sprintf("nonce of %s: in-tree %d, reference %d", k, x.Nonce, y.Nonce)})
		}
		if x.Code != y.Code {
			ds = append(ds, diff{"code", k, fmt.Sprintf("code of %s: in-tree %d bytes %s, reference %d bytes %s", k, len(x.Code)/2, short(x.Code), len(y.Code)/2, short(y.Code))})
		}
		if !sameStorage(x.Storage, y.Storage) {
			ds = append(ds, diff{"storage", k, fmt.Sprintf("storage of %s: in-tree %v, reference %v", k, x.Storage, y.Storage)})
		}
	}
	return ds
}

func trimAcct(a acctDump) acctDump { a.Code = short(a.Code); return a }

func sameStorage(a, b map[string]string) bool {
	if len(a) != len(b) {
		return false
	}
	for k, v := range a {
		if b[k] != v {
			return false
		}
	}
	return true
}

// firstTraceDivergence describes where the two executions first took a different step.
func firstTraceDivergence(a, b *tcore) string {
	n := len(a.trace)
	if len(b.trace) < n {
		n = len(b.trace)
	}
	f := func(v uint32) string {
		return fmt.Sprintf("depth %d pc %d op %s", v>>24, v&0xffff, opName(byte(v>>16)))
	}
	for i := 0; i < n; i++ {
		if a.trace[i] != b.trace[i] {
			prev := ""
			if i > 0 {
				prev = " (last common step: " + f(a.trace[i-1]) + ")"
			}
			return fmt.Sprintf("step %d: in-tree %s, reference %s%s", i, f(a.trace[i]), f(b.trace[i]), prev)
		}
	}
	if a.steps != b.steps {
		last := ""
		if n > 0 {
			last = " (last common step: " + f(a.trace[n-1]) + ")"
		}
		return fmt.Sprintf("same first %d steps, then in-tree ran %d steps in total, reference %d%s", n, a.steps, b.steps, last)
	}
	return fmt.Sprintf("identical step sequence (%d steps)", a.steps)
}

// ---------------------------------------------------------------------------------------
// property

func isCreatedIn(k string, tr *tcore) bool {
	for _, c := range tr.createdAddrs {
		if c == k {
			return true
		}
	}
	return false
}

func runCase(leg string) func(c EVMCase, x *h.Ctx) {
	return func(c EVMCase, x *h.Ctx) {
		for _, e := range c.Excluded {
			x.Label("excluded:" + e)
		}
		if c.Mutated {
			x.Label("gen:mutated-bytecode")
		} else {
			x.Label("gen:grammar")
		}
		it := runInTree(c, leg == "deployed")
		if it.panicked != nil {
			if it.tr.gov {
				x.Fail(sigGovPanic, "in-tree EVM panicked while a contract called the governance precompile 0xfe: %v\n%s", it.panicked, it.stack)
				x.Label("class:governance-precompile")
				return
			}
			x.Fail("panic-in-tree:"+panicFn(it.stack), "in-tree EVM panicked: %v\n%s", it.panicked, it.stack)
			return
		}
		switch {
		case it.tr.budget:
			x.Label("class:budget")
			return
		case it.tr.sawGas:
			x.Label("class:out-of-domain:GAS-executed")
			return
		case it.tr.lowCallGas:
			x.Label("class:out-of-domain:call-gas-operand")
			return
		case it.tr.gov:
			x.Label("class:governance-precompile")
			return
		}
		rf := runRef(c, it.tr.steps*2+2000)
		if rf.panicked != nil {
			x.Fail("panic-reference", "reference EVM panicked (harness defect or input outside the reference's domain): %v\n%s", rf.panicked, rf.stack)
			return
		}
		if rf.tr.budget || rf.tr.sawGas || rf.tr.lowCallGas {
			// the reference left the comparable domain although the in-tree run did not: its gas
			// supply did bind or it read gas. Not comparable; must stay ~0.
			x.Label("class:reference-gas-bound")
			return
		}
		ds := compareResults(it, rf)
		if rf.tr.aborted {
			ds = append([]diff{{"steps", "", fmt.Sprintf("reference still running after %d steps, in-tree finished after %d", rf.tr.steps, it.tr.steps)}}, ds...)
		}
		// classification, most specific root cause first
		if len(ds) > 0 && leg == "deployed" {
			// created contracts start with nonce 0 instead of 1 (no EIP-161 as deployed)
			var rest []diff
			nonceHit := ""
			for _, d := range ds {
				if d.kind == "nonce" && isCreatedIn(d.addr, it.tr) && it.accounts[d.addr].Nonce+1 == rf.accounts[d.addr].Nonce {
					nonceHit = d.msg
					continue
				}
				// a created contract with nonce 0, no balance and no code (even with storage) is "empty" and swept by
				// Finalise(true); with nonce 1 it stays
				if ra, ok := rf.accounts[d.addr]; d.kind == "account" && ok && isCreatedIn(d.addr, it.tr) && ra.Nonce == 1 && ra.Balance == "0" && ra.Code == "" {
					if _, in := it.accounts[d.addr]; !in {
						nonceHit = d.msg
						continue
					}
				}
				rest = append(rest, d)
			}
			if nonceHit != "" {
				if x.Fail(sigS16Nonce, "as deployed (MainnetChainConfig, block %d) a contract created by CREATE/CREATE2 gets nonce 0, reference (Constantinople, EIP-161) gives nonce 1: %s", c.Number, nonceHit) {
					return
				}
				ds = rest
			}
		}
		if len(ds) > 0 {
			all := make([]string, 0, len(ds))
			for i, d := range ds {
				if i < 6 {
					all = append(all, d.msg)
				}
			}
			detail := fmt.Sprintf("%s\nfirst divergence of the executions: %s", strings.Join(all, "\n"), firstTraceDivergence(it.tr, rf.tr))
			sig := "evm-differs:" + ds[0].kind
			switch {
			case leg == "deployed" && (it.tr.createByCreated || it.tr.recreate || it.tr.hashOfCreated):
				sig = sigS16Nonce
				detail = fmt.Sprintf("as deployed (MainnetChainConfig, block %d: pre-EIP-158 rules) a contract created in this transaction starts with nonce 0 and then created again / its address was created a second time / its EXTCODEHASH was taken: ", c.Number) + detail
			case it.tr.createLowGas:
				sig = sigS15
				detail = "a CREATE/CREATE2 executed in a frame whose contract.Gas is (next to) nothing, while the code-deposit charge is the one cost still taken from contract.Gas: the frame was reached by a CALL-family instruction (baseGas* never set callGasTemp) or an earlier failed creation burnt the gas handed to it (all of it as deployed, where the 63/64 rule is off): " + detail
			case leg == "deployed" && it.tr.staticWrite:
				sig = sigS16Static
				detail = fmt.Sprintf("as deployed (MainnetChainConfig, block %d: pre-Byzantium rules) a state-modifying instruction executed inside a STATICCALL: ", c.Number) + detail
			case leg == "deployed" && hasBigCode(it):
				sig = sigS16Size
				detail = fmt.Sprintf("as deployed (MainnetChainConfig, block %d: pre-EIP-158 rules) code larger than 24576 bytes was deployed: ", c.Number) + detail
			}
			if x.Fail(sig, "%s", detail) {
				return
			}
		}
		// labels and non-triviality
		x.Label("class:" + it.class)
		if c.Again > 0 {
			x.Labelf("txs:%d", it.tr.txs)
		}
		x.Labelf("depth:%s", bucket(it.tr.maxDepth))
		x.Labelf("steps:%s", bucket(it.tr.steps))
		labelOps(x, it.tr)
		if it.tr.steps >= 8 && rf.tr.steps >= 8 && (it.tr.writes || it.tr.nested || it.tr.creates) {
			x.NonTrivial(fingerprint(it))
		}
	}
}

func hasBigCode(r *result) bool {
	for _, a := range r.accounts {
		if len(a.Code)/2 > 24576 {
			return true
		}
	}
	return false
}

func panicFn(stack string) string {
	lines := strings.Split(stack, "\n")
	seen := false
	for _, l := range lines {
		if strings.HasPrefix(l, "panic(") {
			seen = true
			continue
		}
		if !seen || strings.HasPrefix(l, "\t") || l == "" || strings.HasPrefix(l, "runtime.") {
			continue
		}
		if i := strings.LastIndex(l, "("); i > 0 {
			l = l[:i]
		}
		if i := strings.LastIndex(l, "/"); i >= 0 {
			l = l[i+1:]
		}
		return l
	}
	return "unknown"
}

func bucket(n int) string {
	switch {
	case n <= 1:
		return fmt.Sprint(n)
	case n <= 3:
		return "2-3"
	case n <= 7:
		return "4-7"
	case n <= 31:
		return "8-31"
	case n <= 255:
		return "32-255"
	case n <= 1023:
		return "256-1023"
	}
	return ">=1024"
}

var opFamilies = []struct {
	name string
	ops  []byte
}{
	{"SSTORE", []byte{0x55}}, {"SLOAD", []byte{0x54}}, {"LOG", []byte{0xa0, 0xa1, 0xa2, 0xa3, 0xa4}},
	{"CALL", []byte{0xf1}}, {"CALLCODE", []byte{0xf2}}, {"DELEGATECALL", []byte{0xf4}}, {"STATICCALL", []byte{0xfa}},
	{"CREATE", []byte{0xf0}}, {"CREATE2", []byte{0xf5}}, {"SELFDESTRUCT", []byte{0xff}}, {"REVERT", []byte{0xfd}},
	{"RETURNDATACOPY", []byte{0x3e}}, {"EXTCODEHASH", []byte{0x3f}}, {"SHIFT", []byte{0x1b, 0x1c, 0x1d}},
	{"SHA3", []byte{0x20}}, {"JUMPI", []byte{0x57}}, {"EXP", []byte{0x0a}}, {"SIGNED", []byte{0x05, 0x07, 0x0b, 0x12, 0x13}},
	{"MODARITH", []byte{0x08, 0x09}}, {"COPY", []byte{0x37, 0x39, 0x3c}}, {"BLOCKHASH", []byte{0x40}},
}

func labelOps(x *h.Ctx, tr *tcore) {
	for _, f := range opFamilies {
		for _, o := range f.ops {
			if tr.ops[o] > 0 {
				x.Label("op:" + f.name)
				break
			}
		}
	}
	if tr.staticWrite {
		x.Label("shape:write-executed-inside-STATICCALL")
	}
	if tr.writeBlocked {
		x.Label("shape:write-blocked-inside-STATICCALL")
	}
	if tr.createLowGas {
		x.Label("shape:create-in-called-frame")
	}
	for _, k := range sortedKeys(tr.inspects) {
		x.Label("inspect:" + k)
	}
	for _, k := range sortedKeys(tr.jumps) {
		x.Label("jump:" + k)
	}
	switch n := len(tr.initJumped); {
	case n >= 3:
		x.Label("shape:different-initcodes-that-jump:>=3")
	case n > 0:
		x.Labelf("shape:different-initcodes-that-jump:%d", n)
	}
	nc := 0
	for _, o := range []byte{0xf0, 0xf5} {
		nc += int(tr.ops[o])
	}
	if nc >= 2 {
		x.Labelf("shape:creates-in-one-tx:%s", bucket(nc))
	}
	if tr.callFresh {
		x.Label("shape:call-into-address-created-in-this-tx")
	}
	if tr.callFreshCode {
		x.Label("shape:call-into-code-deployed-in-this-tx")
	}
}

func sortedKeys(m map[string]bool) []string {
	keys := make([]string, 0, len(m))
	for k := range m {
		keys = append(keys, k)
	}
	sort.Strings(keys)
	return keys
}

func fingerprint(r *result) string {
	var sb strings.Builder
	for i, n := range r.tr.ops {
		if n > 0 {
			fmt.Fprintf(&sb, "%x:%d,", i, n)
		}
	}
	fmt.Fprintf(&sb, "|%d|%s|%d", r.tr.maxDepth, r.class, len(r.logs))
	return sb.String()
}

func TestDeployed(t *testing.T) {
	h.Check(t, h.Spec[EVMCase]{Prop: prop, Leg: "deployed", Gen: genCase("deployed"), Run: runCase("deployed")})
}

func TestEqualised(t *testing.T) {
	h.Check(t, h.Spec[EVMCase]{Prop: prop, Leg: "equalised", Gen: genCase("equalised"), Run: runCase("equalised")})
}
