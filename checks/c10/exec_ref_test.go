package c10

import (
	"fmt"
	"math/big"
	"runtime"
	"sort"
	"time"

	rcommon "github.com/ethereum/go-ethereum/common"
	rstate "github.com/ethereum/go-ethereum/core/state"
	rvm "github.com/ethereum/go-ethereum/core/vm"
	rcrypto "github.com/ethereum/go-ethereum/crypto"
	rethdb "github.com/ethereum/go-ethereum/ethdb"
	rparams "github.com/ethereum/go-ethereum/params"
)

// reference tracer adapter
type rTracer struct {
	c *tcore
}

func (t *rTracer) CaptureStart(from, to rcommon.Address, create bool, input []byte, gas uint64, value *big.Int) error {
	return nil
}
func (t *rTracer) CaptureEnd(output []byte, gasUsed uint64, d time.Duration, err error) error {
	return nil
}
func (t *rTracer) CaptureFault(env *rvm.EVM, pc uint64, op rvm.OpCode, gas, cost uint64, memory *rvm.Memory, stack *rvm.Stack, contract *rvm.Contract, depth int, err error) error {
	if err == rvm.ErrOutOfGas && cost > 0 {
		t.c.budget = true
	}
	return nil
}
func (t *rTracer) CaptureState(env *rvm.EVM, pc uint64, op rvm.OpCode, gas, cost uint64, memory *rvm.Memory, stack *rvm.Stack, contract *rvm.Contract, depth int, err error) error {
	if err != nil {
		// the instruction was not executed
		t.c.why = fmt.Sprintf("%v at depth %d pc %d op %s gas %d cost %d", err, depth, pc, opName(byte(op)), gas, cost)
		if err.Error() == "evm: write protection" {
			t.c.writeBlocked = true
		}
		if err == rvm.ErrOutOfGas && cost > 0 {
			t.c.budget = true
		}
		return nil
	}
	o := byte(op)
	if !interesting(o) {
		t.c.count(depth, pc, o, gas, cost, 1<<23)
		return nil
	}
	if o == 0xf0 || o == 0xf5 {
		var a rcommon.Address
		if o == 0xf0 {
			a = rcrypto.CreateAddress(contract.Address(), env.StateDB.GetNonce(contract.Address()))
		} else {
			off, size := stack.Back(1), stack.Back(2)
			var code []byte
			if size.Sign() > 0 && off.IsInt64() && size.IsInt64() {
				code = memory.Get(off.Int64(), size.Int64())
			}
			a = rcrypto.CreateAddress2(contract.Address(), rcommon.BigToHash(stack.Back(3)), rcrypto.Keccak256(code))
		}
		as, self := fmt.Sprintf("%x", a[:]), fmt.Sprintf("%x", contract.Address().Bytes())
		for _, prev := range t.c.createdAddrs {
			if prev == as {
				t.c.recreate = true
			}
			if prev == self {
				t.c.createByCreated = true
			}
		}
		t.c.createdAddrs = append(t.c.createdAddrs, as)
	}
	t.c.step(stepInfo{
		depth: depth, pc: pc, op: o, gas: gas, cost: cost, floor: 1 << 23,
		back:    stack.Back,
		mem:     memory.Get,
		self:    func() string { return fmt.Sprintf("%x", contract.Address().Bytes()) },
		gasLeft: cost / 2, // cost includes the forwarded gas (63/64 of the remainder)
		reqGas: func(a byte, in []byte) uint64 {
			return rvm.PrecompiledContractsByzantium[rcommon.BytesToAddress([]byte{a})].RequiredGas(in)
		},
	})
	return nil
}

func rHash(n uint64) rcommon.Hash {
	return rcommon.BytesToHash(rcrypto.Keccak256([]byte(fmt.Sprintf("block-%d", n))))
}

func runRef(c EVMCase, stepLimit int) (res *result) {
	res = &result{tr: newCore(), accounts: map[string]acctDump{}}
	res.tr.limit = stepLimit
	defer func() {
		if p := recover(); p != nil {
			buf := make([]byte, 16<<10)
			buf = buf[:runtime.Stack(buf, false)]
			res.panicked = p
			res.stack = string(buf)
		}
	}()
	db := rstate.NewDatabase(rethdb.NewMemDatabase())
	st, err := rstate.New(rcommon.Hash{}, db)
	if err != nil {
		panic(err)
	}
	for _, a := range c.Accounts {
		ad := rcommon.BytesToAddress(a.Addr)
		st.SetBalance(ad, new(big.Int).SetBytes(a.Balance))
		st.SetNonce(ad, a.Nonce)
		if len(a.Code) > 0 {
			st.SetCode(ad, a.Code)
		}
		for _, kv := range a.Storage {
			st.SetState(ad, rcommon.BytesToHash(kv.K), rcommon.BytesToHash(kv.V))
		}
	}
	if _, err := st.Commit(false); err != nil {
		panic(err)
	}
	sender := rcommon.BytesToAddress(c.Sender)
	// same block context as the in-tree side
	ctx := rvm.Context{
		CanTransfer: func(db rvm.StateDB, a rcommon.Address, v *big.Int) bool { return db.GetBalance(a).Cmp(v) >= 0 },
		Transfer: func(db rvm.StateDB, s, r rcommon.Address, v *big.Int) {
			db.SubBalance(s, v)
			db.AddBalance(r, v)
		},
		GetHash:     rHash,
		Origin:      sender,
		GasPrice:    big.NewInt(0),
		Coinbase:    rcommon.Address{},
		GasLimit:    ^uint64(0),
		BlockNumber: new(big.Int).SetUint64(c.Number),
		Time:        new(big.Int).SetUint64(c.Time),
		Difficulty:  big.NewInt(0),
	}
	cfg := rparams.AllEthashProtocolChanges // every fork incl. Constantinople/Petersburg at block 0
	tr := &rTracer{c: res.tr}
	value := new(big.Int).SetBytes(c.Value)
	for txi := 0; txi <= c.Again; txi++ {
		var ret []byte
		var verr error
		res.tr.newTx()
		evm := rvm.NewEVM(ctx, st, cfg, rvm.Config{Debug: true, Tracer: tr})
		res.tr.cancel = evm.Cancel
		thash := rcommon.Hash{1, byte(txi)}
		st.Prepare(thash, rcommon.Hash{2}, txi)
		if len(c.To) == 0 {
			var addr rcommon.Address
			expect := rcrypto.CreateAddress(sender, st.GetNonce(sender))
			res.tr.createdAddrs = append(res.tr.createdAddrs, fmt.Sprintf("%x", expect[:]))
			ret, addr, _, verr = evm.Create(rvm.AccountRef(sender), c.Data, topGas, value)
			res.created = join(res.created, fmt.Sprintf("%x", addr[:]))
		} else {
			st.SetNonce(sender, st.GetNonce(sender)+1)
			ret, _, verr = evm.Call(rvm.AccountRef(sender), rcommon.BytesToAddress(c.To), c.Data, topGas, value)
		}
		if txi > 0 {
			res.ret = append(res.ret, 0xff, byte(txi), 0xff)
		}
		res.ret = append(res.ret, ret...)
		switch {
		case verr == nil:
			res.class = join(res.class, "success")
		case verr.Error() == "evm: execution reverted":
			res.class, res.errText = join(res.class, "revert"), join(res.errText, verr.Error())
		default:
			res.class, res.errText = join(res.class, "failure"), join(res.errText, verr.Error())
		}
		for _, l := range st.GetLogs(thash) {
			lr := logRec{Addr: fmt.Sprintf("%x", l.Address[:]), Data: fmt.Sprintf("%x", l.Data)}
			for _, tp := range l.Topics {
				lr.Topics = append(lr.Topics, fmt.Sprintf("%x", tp[:]))
			}
			res.logs = append(res.logs, lr)
		}
		for a := range res.tr.sdAddrs {
			if st.HasSuicided(rcommon.HexToAddress(a)) {
				res.suicided = append(res.suicided, txTag(txi)+a)
				res.tr.destroyed[a] = true
			}
		}
		// core.ApplyTransaction under Byzantium+: statedb.Finalise(true)
		st.Finalise(true)
		if res.tr.aborted {
			break
		}
	}
	sort.Strings(res.suicided)
	if _, err := st.Commit(true); err != nil {
		panic(err)
	}
	d := st.RawDump()
	for k, a := range d.Accounts {
		res.accounts[k] = acctDump{Balance: a.Balance, Nonce: a.Nonce, Code: a.Code, Storage: a.Storage}
	}
	return res
}
