package c10

import (
	"os"
	"reflect"
	"sync"
	"unsafe"

	appevm "github.com/dappledger/AnnChain/chain/app/evm"
	iparams "github.com/dappledger/AnnChain/eth/params"
	glog "github.com/dappledger/AnnChain/gemmill/modules/go-log"
	"github.com/spf13/viper"
	"go.uber.org/zap"

	"verif/internal/h"
)

// production value of the per-transaction budget
const evmGasLimit uint64 = appevm.EVMGasLimit

var (
	appOnce sync.Once
	appCfg  *iparams.ChainConfig
)

// deployedChainConfig returns the chain configuration the application really hands to
// core.ApplyTransaction / vm.NewEVM: it is read from a constructed EVMApp (unexported field
// chainConfig), so that leg "deployed" follows the application when that is repaired.
func deployedChainConfig() *iparams.ChainConfig {
	appOnce.Do(func() {
		appCfg = iparams.MainnetChainConfig // what chain/app/evm.NewEVMApp assigns at the base commit
		glog.SetLog(zap.NewNop())
		dir, err := os.MkdirTemp("", "c10-app-")
		if err != nil {
			h.Note(prop, "deployed", "cannot create a temp dir for EVMApp (%v); using params.MainnetChainConfig", err)
			return
		}
		defer os.RemoveAll(dir)
		conf := viper.New()
		conf.Set("db_dir", dir)
		app, err := appevm.NewEVMApp(conf)
		if err != nil {
			h.Note(prop, "deployed", "NewEVMApp failed (%v); using params.MainnetChainConfig", err)
			return
		}
		f := reflect.ValueOf(app).Elem().FieldByName("chainConfig")
		if !f.IsValid() || f.Type() != reflect.TypeOf((*iparams.ChainConfig)(nil)) {
			h.Note(prop, "deployed", "EVMApp has no field chainConfig *params.ChainConfig any more; using params.MainnetChainConfig")
			return
		}
		if c := *(**iparams.ChainConfig)(unsafe.Pointer(f.UnsafeAddr())); c != nil {
			appCfg = c
		}
	})
	return appCfg
}
