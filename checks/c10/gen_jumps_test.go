package c10

// ---------------------------------------------------------------------------------------
// Jumps and jump-destination analysis: JUMP / JUMPI to valid JUMPDESTs (over dead regions full of
// PUSH data containing 0x5b), to positions that are not JUMPDESTs, INTO the immediate operand
// of a PUSH (at a 0x5b byte), beyond the code and to destinations whose low bits are valid; in
// pre-state code, in init code and in the runtime code of contracts created in the transaction.
// Factories: several DIFFERENT init codes of very different lengths run by CREATE (and CREATE2)
// in one transaction, every one of them jumping, constructors that create helpers, and calls
// into the freshly created contracts.

// filler expands a drawn seed to about n bytes of well-formed dead code: complete PUSHk
// instructions whose data is rich in 0x5b, real JUMPDESTs and other one-byte instructions.
// (pure function of its arguments)
func filler(seed uint64, n int) []byte {
	x := seed*2862933555777941757 + 3037000493
	next := func() uint64 {
		x ^= x << 13
		x ^= x >> 7
		x ^= x << 17
		return x
	}
	out := make([]byte, 0, n+33)
	for len(out) < n {
		r := next()
		switch r % 4 {
		case 0, 1:
			k := int(r>>8)%32 + 1
			out = append(out, byte(0x60+k-1))
			for j := 0; j < k; j++ {
				b := byte(next() >> 11)
				if b%3 == 0 {
					b = 0x5b
				}
				out = append(out, b)
			}
		case 2:
			out = append(out, 0x5b)
		default:
			out = append(out, []byte{0x01, 0x50, 0x80, 0x56, 0x57, 0x00, 0x5b, 0xfd}[(r>>8)%8])
		}
	}
	return out
}

var fillSizes = []int{0, 3, 1, 9, 33, 40, 70, 150, 300, 700, 1500}

// jumpOver: an always-taken forward jump over n bytes of filler to a JUMPDEST.
func (g *gen) jumpOver(f *frame, n int) {
	l := f.a.newLabel()
	if g.i(0, 2, "jcond") == 0 {
		f.a.pushBig(boundary[g.i(1, len(boundary)-1, "jc")]) // non-zero
		f.a.pushLabel(l)
		g.o(f, 0x57, 2, 0)
	} else {
		f.a.pushLabel(l)
		g.o(f, 0x56, 1, 0)
	}
	if n > 0 {
		f.a.raw(filler(uint64(g.i(0, 1<<30, "fseed")), n))
	}
	f.a.place(l)
}

// cond pushes the condition of a JUMPI whose destination is invalid: when it is non-zero the
// frame fails on both sides.
func (g *gen) badCond(f *frame) {
	switch g.i(0, 5, "bc") {
	case 0, 1, 2:
		f.a.pushInt(0)
	case 3:
		g.expr(f, 1)
	default:
		f.a.pushBig(boundary[g.i(1, len(boundary)-1, "bcv")])
	}
}

// badJump: JUMPI (sometimes JUMP) to a destination that is not a valid JUMPDEST.
func (g *gen) badJump(f *frame) {
	k := g.i(0, 11, "bj")
	switch {
	case k < 5:
		// into the immediate operand of a PUSH, at a byte that is 0x5b
		n := g.i(1, 32, "pdn")
		at := g.i(0, n-1, "pdat")
		data := filler(uint64(g.i(0, 1<<20, "pdseed")), 40)[:n]
		data[at] = 0x5b
		l := f.a.newLabel()
		before := g.i(0, 1, "pdorder") == 0
		if before {
			f.a.pushDataLabel(l, data, at)
			g.o(f, 0x50, 1, 0)
		}
		g.badCond(f)
		f.a.pushLabel(l)
		g.o(f, 0x57, 2, 0)
		if !before {
			f.a.pushDataLabel(l, data, at)
			g.o(f, 0x50, 1, 0)
		}
	case k < 7:
		// a JUMPDEST swallowed by the PUSH1 in front of it
		l := f.a.newLabel()
		g.badCond(f)
		f.a.pushLabel(l)
		g.o(f, 0x57, 2, 0)
		f.a.op(0x60)
		f.a.place(l)
		f.a.h++
		g.o(f, 0x50, 1, 0)
	case k < 9:
		// a position that holds another instruction
		l := f.a.newLabel()
		g.badCond(f)
		f.a.pushLabel(l)
		g.o(f, 0x57, 2, 0)
		f.a.mark(l)
		f.a.pushInt(uint64(g.i(0, 255, "nj")))
		g.o(f, 0x50, 1, 0)
	case k < 10:
		// beyond the code: an unplaced label links to 0xffff; or a word-sized destination
		g.badCond(f)
		if g.i(0, 1, "oob") == 0 {
			f.a.pushLabel(f.a.newLabel())
		} else {
			f.a.pushBig(hugeOffsets[g.i(0, len(hugeOffsets)-1, "ooh")])
		}
		g.o(f, 0x57, 2, 0)
	default:
		// 2^32 / 2^64 + a valid JUMPDEST position
		l := f.a.newLabel()
		g.badCond(f)
		f.a.pushLabelHigh(l, []int{3, 7, 15}[g.i(0, 2, "hj")])
		g.o(f, 0x57, 2, 0)
		f.a.place(l)
	}
}

func (g *gen) jumpStmt(f *frame) {
	if g.i(0, 2, "jk") < 2 {
		n := fillSizes[g.i(0, 6, "fill")]
		if g.i(0, 7, "bigfill") == 0 {
			n = fillSizes[g.i(0, len(fillSizes)-1, "fillb")]
		}
		g.jumpOver(f, n)
		return
	}
	g.badJump(f)
}

// callStackAddr calls the address on top of the stack (consumes it) with empty input.
func (g *gen) callStackAddr(f *frame) {
	f.a.pushInt(32)    // outSize
	g.o(f, 0x90, 0, 0) // addr on top
	f.a.pushInt(0)     // outOff
	g.o(f, 0x90, 0, 0)
	f.a.pushInt(0) // inSize
	g.o(f, 0x90, 0, 0)
	f.a.pushInt(0) // inOff
	g.o(f, 0x90, 0, 0)
	op := callOps[g.i(0, 3, "ccop")]
	if op == 0xfa && g.avoidStatic {
		g.excl[sigS16Static] = true
		op = 0xf1
	}
	if op == 0xf1 || op == 0xf2 {
		f.a.pushInt(0)
		g.o(f, 0x90, 0, 0)
	}
	g.pushGas(f, false)
	if op == 0xf1 || op == 0xf2 {
		g.o(f, op, 7, 1)
	} else {
		g.o(f, op, 6, 1)
	}
	g.afterCall(f, false)
}

// inspectStackAddr applies an inspecting instruction to a copy of the address on top of the stack.
func (g *gen) inspectStackAddr(f *frame) {
	g.o(f, 0x80, 0, 1)
	q := []byte{0x3b, 0x3f, 0x31, 0x3f}[g.i(0, 3, "cq")]
	if q == 0x3f && g.avoidNonce {
		// S16 (nonce 0) open: EXTCODEHASH of a fresh contract without code is 0 (account "empty")
		g.excl[sigS16Nonce] = true
		q = 0x3b
	}
	g.o(f, q, 1, 1)
	g.observe(f)
}

// factoryStmt: two or three creations in a row, different init codes of different lengths that
// all jump, then the new contracts are inspected and called.
func (g *gen) factoryStmt(f *frame) {
	n := g.i(2, 3, "nfac")
	if g.budget < 16 {
		g.budget = 16
	}
	for j := 0; j < n; j++ {
		g.emitCreate(f, g.i(0, 4, "fc2") == 0, true)
	}
	for j := 0; j < n; j++ {
		switch g.i(0, 5, "fpost") {
		case 0:
			g.observe(f)
		case 1:
			g.inspectStackAddr(f)
			g.observe(f)
		default:
			if g.i(0, 1, "finsp") == 0 {
				g.inspectStackAddr(f)
			}
			g.callStackAddr(f)
		}
	}
}
