package c10

import (
	"math/big"
	"sort"

	"pgregory.net/rapid"

	"verif/internal/h"
)

// ---------------------------------------------------------------------------------------
// fixed cast of addresses

func mkAddr(b0, b1, last byte) []byte {
	a := make([]byte, 20)
	a[0], a[1], a[19] = b0, b1, last
	return a
}

func contractAddr(i int) []byte { return mkAddr(0xc0, 0xde, byte(0x10+i)) }

var (
	senderAddr  = mkAddr(0xaa, 0xaa, 0xaa)
	eoaAddr     = mkAddr(0xbb, 0xbb, 0xbb)
	missingAddr = mkAddr(0xde, 0xad, 0x01)
	govAddrHex  = "00000000000000000000000000000000000000fe"
)

func pow2(n uint) *big.Int { return new(big.Int).Lsh(big.NewInt(1), n) }
func sub1(x *big.Int) *big.Int {
	return new(big.Int).Sub(x, big.NewInt(1))
}

// boundary operands of the property's quantifier
var boundary = []*big.Int{
	big.NewInt(0), big.NewInt(1), big.NewInt(2), big.NewInt(31), big.NewInt(32), big.NewInt(33),
	big.NewInt(255), big.NewInt(256), big.NewInt(257), big.NewInt(3), big.NewInt(7), big.NewInt(8),
	sub1(pow2(255)), pow2(255), new(big.Int).Add(pow2(255), big.NewInt(1)), sub1(pow2(256)), sub1(sub1(pow2(256))),
	sub1(pow2(32)), pow2(32), sub1(pow2(64)), pow2(64), sub1(pow2(63)), pow2(63), sub1(pow2(160)), pow2(160), pow2(128), pow2(248),
}

var hugeOffsets = []*big.Int{
	sub1(pow2(32)), pow2(32), new(big.Int).Add(pow2(32), big.NewInt(1)), new(big.Int).Sub(pow2(32), big.NewInt(32)),
	sub1(pow2(64)), pow2(64), sub1(pow2(256)), pow2(255), sub1(pow2(63)), new(big.Int).Sub(pow2(64), big.NewInt(32)),
}

// hugeMemOffsets are the far-out values used as MEMORY offsets. Memory between about 2^28 and
// 0xffffffffe0 bytes is affordable to the reference (its gas supply never binds: 4 GiB cost 2^45
// gas) but never to the in-tree budget, so such a program is never compared; if the two
// executions part ways before it (a known finding, a defect) the reference alone would
// allocate gigabytes. Beyond 0xffffffffe0 both sides fail the instruction without allocating.
var hugeMemOffsets = []*big.Int{
	sub1(pow2(64)), pow2(64), sub1(pow2(256)), pow2(255), sub1(pow2(63)), new(big.Int).Sub(pow2(64), big.NewInt(32)),
	big.NewInt(0xffffffffe1), pow2(41), pow2(160),
}

var smallOffsets = []uint64{0, 32, 64, 96, 128, 1, 31, 33, 63, 65, 160, 255, 256, 1000}
var growOffsets = []uint64{2048, 4096, 10000, 32768, 100000}
var sizes = []uint64{32, 0, 1, 31, 33, 64, 2, 96, 100}

// ---------------------------------------------------------------------------------------

type gen struct {
	t    *rapid.T
	leg  string
	n    int
	pure []bool
	// open known findings whose triggering shape is excluded by construction
	avoidS15, avoidStatic, avoidNonce, avoidSize bool
	excl                                         map[string]bool
	budget                                       int
	// extra cast referred to by the program (gen_accounts_test.go)
	used      map[string]bool
	benef     [2][]byte
	victimBal [2]int64
	nobs      int
}

type frame struct {
	a        *asm
	self     int  // contract index; -1 for code created during the transaction
	entry    bool // runs with the caller-supplied top-level gas (entry contract, creation tx, their init codes)
	pure     bool // no state modification, calls only pure code
	created  bool // init or runtime code of a contract created in this transaction
	nest     int
	level    int // distance from the entry code in the forward call graph (sets the gas operand)
	minT     int // lowest contract index a call statement may address (forward edges only)
	inLoop   bool
	recursed bool
	// a creation that is likely to fail was emitted in this frame: as deployed (no 63/64 rule) it
	// takes the frame's whole contract.Gas with it and later creations run into S15
	gasBurnt bool
}

func (g *gen) i(lo, hi int, l string) int { return rapid.IntRange(lo, hi).Draw(g.t, l) }

func (g *gen) o(f *frame, op byte, pops, pushes int) {
	f.a.op(op)
	f.a.h += pushes - pops
}

func (g *gen) constant(f *frame) {
	k := g.i(0, 9, "ck")
	switch {
	case k < 6:
		v := boundary[g.i(0, len(boundary)-1, "cb")]
		if g.i(0, 15, "wide") == 15 {
			f.a.pushWide(v.Bytes(), 32)
		} else {
			f.a.pushBig(v)
		}
	case k < 8:
		f.a.pushBytes(rapid.SliceOfN(rapid.Byte(), 1, 4).Draw(g.t, "cr"))
	default:
		g.pushAddr(f, false)
	}
}

// pushAddr pushes the address of one of the cast; returns nothing, purely an operand.
func (g *gen) pushAddr(f *frame, _ bool) {
	k := g.i(0, 9, "ak")
	switch k {
	case 0, 1, 2:
		f.a.pushBytes(contractAddr(g.i(0, g.n-1, "ac")))
	case 3:
		f.a.pushBytes(eoaAddr)
	case 4:
		f.a.pushBytes(missingAddr)
	case 5:
		f.a.pushInt(uint64(g.i(0, 9, "ap")))
	case 6:
		f.a.pushBytes(senderAddr)
	case 7:
		g.o(f, 0x30, 0, 1) // ADDRESS
	default:
		// the pool of the account-inspection statements (absent / empty / precompile / victim ...)
		t := g.pickTarget(f)
		if t.kind == "self" && f.created && g.avoidNonce {
			t = target{kind: "absent", addr: missingAddr}
		}
		g.pushTarget(f, t)
	}
}

func (g *gen) smallOff(f *frame) {
	k := g.i(0, 39, "ok")
	switch {
	case k < 35 && k != 20:
		f.a.pushInt(smallOffsets[g.i(0, len(smallOffsets)-1, "os")])
	case k != 20:
		f.a.pushInt(growOffsets[g.i(0, len(growOffsets)-1, "og")])
	default:
		f.a.pushBig(hugeMemOffsets[g.i(0, len(hugeMemOffsets)-1, "oh")])
	}
}

func (g *gen) size(f *frame) { f.a.pushInt(sizes[g.i(0, len(sizes)-1, "sz")]) }

// dataOff: source offset of a copy: boundary values including far beyond the data
func (g *gen) dataOff(f *frame) {
	k := g.i(0, 9, "dk")
	switch {
	case k < 6:
		f.a.pushInt(smallOffsets[g.i(0, len(smallOffsets)-1, "ds")])
	case k < 9:
		f.a.pushBig(hugeOffsets[g.i(0, len(hugeOffsets)-1, "dh")])
	default:
		g.constant(f)
	}
}

var envOps = []byte{0x30, 0x32, 0x33, 0x34, 0x36, 0x38, 0x3a, 0x3d, 0x41, 0x42, 0x43, 0x44, 0x45, 0x58, 0x59}
var unaryOps = []byte{0x15, 0x19, 0x35, 0x51, 0x54, 0x31, 0x3b, 0x3f, 0x40}
var binaryOps = []byte{0x01, 0x02, 0x03, 0x04, 0x05, 0x06, 0x07, 0x0a, 0x0b, 0x10, 0x11, 0x12, 0x13, 0x14, 0x16, 0x17, 0x18, 0x1a, 0x1b, 0x1c, 0x1d}

// expr emits code that leaves exactly one more word on the stack.
func (g *gen) expr(f *frame, d int) {
	k := g.i(0, 99, "e")
	if d <= 0 || g.budget <= 0 {
		k %= 40
	}
	g.budget--
	switch {
	case k < 20:
		g.constant(f)
	case k < 28:
		g.o(f, envOps[g.i(0, len(envOps)-1, "env")], 0, 1)
	case k < 33:
		if f.a.h >= 1 {
			n := g.i(1, min(f.a.h, 16), "dup")
			g.o(f, byte(0x80+n-1), 0, 1)
		} else {
			g.constant(f)
		}
	case k < 40:
		// load with a constant operand
		switch g.i(0, 2, "ld") {
		case 0:
			g.dataOff(f)
			g.o(f, 0x35, 1, 1)
		case 1:
			f.a.pushInt(smallOffsets[g.i(0, len(smallOffsets)-1, "mo")])
			g.o(f, 0x51, 1, 1)
		default:
			f.a.pushInt(uint64(g.i(0, 4, "sk")))
			g.o(f, 0x54, 1, 1)
		}
	case k < 50:
		op := unaryOps[g.i(0, len(unaryOps)-1, "un")]
		switch op {
		case 0x51:
			g.smallOff(f)
		case 0x31, 0x3b, 0x3f:
			if g.i(0, 3, "ua") == 0 {
				g.expr(f, d-1)
			} else {
				g.pushAddr(f, false)
			}
		case 0x40:
			// BLOCKHASH(NUMBER - small) and boundary arguments
			if g.i(0, 2, "bh") > 0 {
				f.a.pushInt(uint64([]int{1, 0, 2, 255, 256, 257}[g.i(0, 5, "bhd")]))
				g.o(f, 0x43, 0, 1)
				g.o(f, 0x03, 2, 1)
			} else {
				g.expr(f, d-1)
			}
		default:
			g.expr(f, d-1)
		}
		g.o(f, op, 1, 1)
	case k < 85:
		op := binaryOps[g.i(0, len(binaryOps)-1, "bin")]
		g.expr(f, d-1)
		g.expr(f, d-1)
		g.o(f, op, 2, 1)
	case k < 91:
		g.expr(f, d-1)
		g.expr(f, d-1)
		g.expr(f, d-1)
		g.o(f, byte(0x08+g.i(0, 1, "tern")), 3, 1)
	default:
		g.size(f)
		g.smallOff(f)
		g.o(f, 0x20, 2, 1)
	}
}

// store consumes the word on top of the stack in an observable way.
func (g *gen) store(f *frame) {
	k := g.i(0, 9, "st")
	if f.pure && k < 6 {
		k = 6
	}
	switch {
	case k < 6:
		f.a.pushInt(uint64(g.i(0, 5, "slot")))
		g.o(f, 0x55, 2, 0)
	case k < 9:
		f.a.pushInt(uint64(32 * g.i(0, 4, "mslot")))
		g.o(f, 0x52, 2, 0)
	default:
		g.o(f, 0x50, 1, 0)
	}
}

func (g *gen) block(f *frame, n, d int) {
	for j := 0; j < n; j++ {
		g.stmt(f, d)
	}
}

func (g *gen) stmt(f *frame, d int) {
	k := g.i(0, 113, "s")
	if g.budget <= 0 {
		k %= 20
	}
	g.budget -= 2
	switch {
	case k >= 100 && k < 109:
		g.inspectStmt(f)
	case k >= 109:
		g.jumpStmt(f)
	case k < 20:
		g.expr(f, 2)
		g.store(f)
	case k < 28:
		// MSTORE / MSTORE8 with generated offsets (memory growth)
		g.expr(f, 1)
		g.smallOff(f)
		g.o(f, byte(0x52+g.i(0, 1, "m8")), 2, 0)
	case k < 38:
		if f.pure {
			g.expr(f, 2)
			g.store(f)
			return
		}
		// SSTORE with generated key (set, overwrite, clear)
		g.expr(f, 1)
		if g.i(0, 2, "kk") == 0 {
			g.expr(f, 1)
		} else {
			f.a.pushInt(uint64(g.i(0, 5, "slot")))
		}
		g.o(f, 0x55, 2, 0)
	case k < 45:
		if f.pure {
			g.copyStmt(f)
			return
		}
		nt := g.i(0, 4, "logn")
		for j := 0; j < nt; j++ {
			g.expr(f, 0)
		}
		g.size(f)
		g.smallOff(f)
		g.o(f, byte(0xa0+nt), 2+nt, 0)
	case k < 53:
		g.copyStmt(f)
	case k < 70:
		g.callStmt(f)
	case k < 76:
		g.precompileStmt(f)
	case k < 83:
		if f.pure || f.nest >= 2 {
			g.callStmt(f)
			return
		}
		if g.avoidNonce && f.created {
			// S16 (nonce 0) open: a contract created in this transaction does not create again
			// (the child's address is derived from the creator's nonce)
			g.excl[sigS16Nonce] = true
			g.callStmt(f)
			return
		}
		g.createStmt(f)
	case k < 88:
		if d <= 0 {
			g.expr(f, 1)
			g.store(f)
			return
		}
		// do { body } while (--counter != 0)
		n := g.i(1, 4, "loop")
		if g.i(0, 19, "longloop") == 11 {
			n = g.i(5, 60, "loopn")
		}
		f.a.pushInt(uint64(n))
		l := f.a.newLabel()
		f.a.place(l)
		was := f.inLoop
		f.inLoop = true
		g.block(f, g.i(1, 2, "lb"), d-1)
		f.inLoop = was
		f.a.pushInt(1)
		g.o(f, 0x90, 0, 0) // SWAP1
		g.o(f, 0x03, 2, 1) // SUB
		g.o(f, 0x80, 0, 1) // DUP1
		f.a.pushLabel(l)
		g.o(f, 0x57, 2, 0) // JUMPI
		g.o(f, 0x50, 1, 0) // POP
	case k < 94:
		if d <= 0 {
			g.expr(f, 1)
			g.store(f)
			return
		}
		g.expr(f, 1)
		l := f.a.newLabel()
		f.a.pushLabel(l)
		g.o(f, 0x57, 2, 0)
		g.block(f, g.i(1, 2, "ib"), d-1)
		if g.i(0, 3, "iterm") == 0 {
			hh := f.a.h
			g.terminator(f)
			f.a.h = hh
		}
		f.a.place(l)
	default:
		// DUPn / SWAPn over n fresh operands
		n := g.i(1, 16, "sw")
		for j := 0; j < n+1; j++ {
			f.a.pushInt(uint64(j + 1))
		}
		if g.i(0, 1, "dupswap") == 0 {
			g.o(f, byte(0x90+n-1), 0, 0)
		} else {
			g.o(f, byte(0x80+n-1), 0, 1)
			g.store(f)
		}
		g.store(f)
		for j := 0; j < n; j++ {
			g.o(f, 0x50, 1, 0)
		}
	}
}

func (g *gen) copyStmt(f *frame) {
	k := g.i(0, 19, "cp")
	g.size(f)
	switch {
	case k < 7: // CALLDATACOPY(mem, data, size)
		g.dataOff(f)
		g.smallOff(f)
		g.o(f, 0x37, 3, 0)
	case k < 13:
		g.dataOff(f)
		g.smallOff(f)
		g.o(f, 0x39, 3, 0)
	case k < 17:
		g.dataOff(f)
		g.smallOff(f)
		g.pushAddr(f, false)
		g.o(f, 0x3c, 4, 0)
	default:
		// RETURNDATACOPY: out-of-range source fails the frame on both sides
		if g.i(0, 1, "rdz") == 0 {
			f.a.pushInt(0)
		} else {
			g.dataOff(f)
		}
		g.smallOff(f)
		g.o(f, 0x3e, 3, 0)
	}
}

// pushGas pushes the gas operand of a CALL-family instruction. In-tree it is ignored (execution
// is metered against the per-transaction budget: the documented deviation); in the reference a
// failing callee burns what it was given, so a caller must keep enough for the rest of its own
// work: every level of the (forward-only) call graph hands down 1/32 of what it got itself.
// Back edges (recursionStmt) pass everything (63/64 rule) to be able to reach the depth limit.
// The tracer verifies on every case that the reference supply did not bind.
func (g *gen) pushGas(f *frame, all bool) {
	if all {
		f.a.pushBig(sub1(pow2(256)))
		return
	}
	e := 57 - 5*f.level
	if e < 29 {
		e = 29
	}
	if g.i(0, 3, "gasm1") == 0 {
		f.a.pushBig(sub1(pow2(uint(e))))
	} else {
		f.a.pushBig(pow2(uint(e)))
	}
}

var callOps = []byte{0xf1, 0xfa, 0xf4, 0xf2}

func (g *gen) pushValue(f *frame) {
	if f.pure {
		f.a.pushInt(0)
		return
	}
	switch g.i(0, 9, "val") {
	case 0, 1, 2, 3, 4, 5:
		f.a.pushInt(0)
	case 6, 7:
		f.a.pushInt(1)
	case 8:
		g.o(f, 0x34, 0, 1)
	default:
		f.a.pushBig([]*big.Int{pow2(200), sub1(pow2(256)), big.NewInt(1001)}[g.i(0, 2, "bigval")])
	}
}

// afterCall consumes the success flag and optionally inspects the return data.
func (g *gen) afterCall(f *frame, outKnown bool) {
	g.store(f)
	switch g.i(0, 5, "ac") {
	case 0:
		g.o(f, 0x3d, 0, 1)
		g.store(f)
	case 1:
		// copy all return data to memory and hash it
		g.o(f, 0x3d, 0, 1)
		f.a.pushInt(0)
		f.a.pushInt(0x200)
		g.o(f, 0x3e, 3, 0)
		g.o(f, 0x3d, 0, 1)
		f.a.pushInt(0x200)
		g.o(f, 0x20, 2, 1)
		g.store(f)
	case 2:
		// hash the first 64 bytes of memory (common output region)
		f.a.pushInt(64)
		f.a.pushInt(0)
		g.o(f, 0x20, 2, 1)
		g.store(f)
	}
}

// callTarget picks what a call statement addresses. Contract targets are forward only (index
// above the calling code's own contract) so that the generated call graph is acyclic; cycles come
// from recursionStmt (guarded by a storage counter) and from mutated bytecode.
func (g *gen) callTarget(f *frame) (contract int, other []byte, selfRef bool) {
	tk := g.i(0, 11, "tk")
	if tk < 8 {
		var cands []int
		for j := f.minT; j < g.n; j++ {
			if !f.pure || g.pure[j] {
				cands = append(cands, j)
			}
		}
		if len(cands) > 0 {
			return cands[g.i(0, len(cands)-1, "tc")], nil, false
		}
	}
	switch tk {
	case 8, 0, 1:
		return -1, eoaAddr, false
	case 9, 2, 3:
		return -1, missingAddr, false
	default:
		return -1, []byte{byte(g.i(0, 10, "pc"))}, false
	}
}

func (g *gen) emitCall(f *frame, op byte, contract int, other []byte, allGas bool) {
	if contract >= 0 && op == 0xfa && g.avoidStatic && !g.pure[contract] {
		// S16 open: a STATICCALL only reaches code that does not write
		g.excl[sigS16Static] = true
		op = 0xf1
	}
	g.size(f)
	g.smallOff(f)
	g.size(f)
	g.smallOff(f)
	if op == 0xf1 || op == 0xf2 {
		g.pushValue(f)
	}
	if contract >= 0 {
		f.a.pushBytes(contractAddr(contract))
	} else {
		f.a.pushBytes(other)
	}
	g.pushGas(f, allGas)
	if op == 0xf1 || op == 0xf2 {
		g.o(f, op, 7, 1)
	} else {
		g.o(f, op, 6, 1)
	}
	g.afterCall(f, false)
}

func (g *gen) callStmt(f *frame) {
	op := callOps[g.i(0, 3, "callop")]
	if !f.pure && !f.inLoop && !f.recursed && f.self >= 0 && g.i(0, 11, "rec") == 0 {
		g.recursionStmt(f, op)
		return
	}
	contract, other, _ := g.callTarget(f)
	g.emitCall(f, op, contract, other, false)
}

// recursionStmt: a back edge of the call graph (self or an earlier contract), taken at most K
// times per storage context: if (SLOAD(0x77) < K) { SSTORE(0x77, SLOAD(0x77)+1); call }
func (g *gen) recursionStmt(f *frame, op byte) {
	lo := 0
	if g.avoidS15 {
		// S15 open: the entry contract is never re-entered (its CREATEs would run with contract.Gas 0)
		lo = 1
		if f.self == 0 {
			g.excl[sigS15] = true
			contract, other, _ := g.callTarget(f)
			g.emitCall(f, op, contract, other, false)
			return
		}
	}
	f.recursed = true
	target := g.i(lo, f.self, "back")
	k := []uint64{2, 1, 3, 5, 40}[g.i(0, 19, "reck")/4%5]
	if g.i(0, 149, "deep") == 77 {
		k = 1100 // reaches the call depth limit (1024); ~50-100 ms per case, kept rare
	}
	skip := f.a.newLabel()
	f.a.pushInt(k)
	f.a.pushInt(0x77)
	g.o(f, 0x54, 1, 1) // SLOAD
	g.o(f, 0x10, 2, 1) // LT: counter < K
	g.o(f, 0x15, 1, 1) // ISZERO
	f.a.pushLabel(skip)
	g.o(f, 0x57, 2, 0)
	f.a.pushInt(1)
	f.a.pushInt(0x77)
	g.o(f, 0x54, 1, 1)
	g.o(f, 0x01, 2, 1)
	f.a.pushInt(0x77)
	g.o(f, 0x55, 2, 0)
	g.emitCall(f, op, target, nil, true)
	f.a.place(skip)
}

// mstoreWords lays words out in memory from offset base.
func (g *gen) mstoreWords(f *frame, base uint64, words [][]byte) {
	for j, w := range words {
		allZero := true
		for _, b := range w {
			if b != 0 {
				allZero = false
			}
		}
		if allZero {
			continue // fresh memory is zero; an explicit store is made where it matters (memory is scratch)
		}
		f.a.pushBytes(w)
		f.a.pushInt(base + uint64(32*j))
		g.o(f, 0x52, 2, 0)
	}
}

func word(v *big.Int) []byte {
	b := v.Bytes()
	out := make([]byte, 32)
	copy(out[32-len(b):], b)
	return out
}

func (g *gen) precompileStmt(f *frame) {
	const base = 0x100
	p := g.i(1, 8, "pre")
	var words [][]byte
	insize := uint64(0)
	outsize := uint64(32)
	mal := g.i(0, 3, "mal") == 0
	switch p {
	case 1:
		words = [][]byte{ecHash, word(big.NewInt(int64(ecV))), ecR, ecS}
		insize = 128
		if mal {
			switch g.i(0, 4, "ecm") {
			case 0:
				words[1] = word(big.NewInt(29))
			case 1:
				words[2] = word(big.NewInt(0))
			case 2:
				insize = 127
			case 3:
				words[3] = word(sub1(pow2(256)))
			default:
				words[1] = word(new(big.Int).Add(pow2(8), big.NewInt(27)))
			}
		}
	case 2, 3, 4:
		words = [][]byte{word(boundary[g.i(0, len(boundary)-1, "hw")]), word(big.NewInt(0x616263))}
		insize = sizes[g.i(0, len(sizes)-1, "hs")]
		if p == 4 {
			outsize = insize
		}
	case 5:
		lens := []int64{1, 0, 2, 32, 33}
		bl, el, ml := lens[g.i(0, 4, "bl")], lens[g.i(0, 4, "el")], lens[g.i(0, 4, "ml")]
		words = [][]byte{word(big.NewInt(bl)), word(big.NewInt(el)), word(big.NewInt(ml)),
			word(boundary[g.i(0, len(boundary)-1, "mb")]), word(boundary[g.i(0, len(boundary)-1, "me")]), word(boundary[g.i(0, len(boundary)-1, "mm")])}
		insize = uint64(96 + bl + el + ml)
		outsize = uint64(ml)
		if mal {
			switch g.i(0, 3, "mm") {
			case 0:
				words[g.i(0, 2, "mw")] = word(sub1(pow2(256))) // price overflows: fails on both sides
			case 1:
				insize = uint64(g.i(0, 96, "trunc"))
			case 2:
				words[1] = word(pow2(64))
			default:
				words[2] = word(big.NewInt(0))
			}
		}
	case 6:
		words = [][]byte{word(big.NewInt(1)), word(big.NewInt(2)), word(big.NewInt(1)), word(big.NewInt(2))}
		insize, outsize = 128, 64
		if mal {
			switch g.i(0, 3, "am") {
			case 0:
				words[1] = word(big.NewInt(3)) // not on the curve
			case 1:
				insize = 64 // second point = infinity
			case 2:
				words[0] = word(bnP) // coordinate not below the field modulus
			default:
				insize = 200
			}
		}
	case 7:
		words = [][]byte{word(big.NewInt(1)), word(big.NewInt(2)), word(boundary[g.i(0, len(boundary)-1, "sc")])}
		insize, outsize = 96, 64
		if mal {
			switch g.i(0, 2, "sm") {
			case 0:
				words[1] = word(big.NewInt(3))
			case 1:
				insize = 40
			default:
				words[0], words[1] = word(big.NewInt(0)), word(big.NewInt(0))
			}
		}
	default:
		switch g.i(0, 9, "pk") {
		case 0:
			// e(G1,G2) * e(-G1,G2) == 1
			words = [][]byte{word(big.NewInt(1)), word(big.NewInt(2)), g2[0], g2[1], g2[2], g2[3],
				word(big.NewInt(1)), word(new(big.Int).Sub(bnP, big.NewInt(2))), g2[0], g2[1], g2[2], g2[3]}
			insize = 384
		case 1:
			words = [][]byte{word(big.NewInt(1)), word(big.NewInt(2)), g2[0], g2[1], g2[2], g2[3]}
			insize = 192
		case 2, 3:
			insize = 191 // not a multiple of 192
		case 4:
			words = [][]byte{word(big.NewInt(1)), word(big.NewInt(3))}
			insize = 192
		case 5, 6:
			insize = 192 // two points at infinity
		default:
			insize = 0
		}
	}
	g.mstoreWords(f, base, words)
	f.a.pushInt(outsize)
	f.a.pushInt(0)
	f.a.pushInt(insize)
	f.a.pushInt(base)
	op := byte(0xfa)
	if g.i(0, 2, "pcall") == 0 {
		op = 0xf1
		f.a.pushInt(0)
	}
	addr := uint64(p)
	if g.i(0, 99, "gov") == 57 {
		addr = 0xfe
	}
	f.a.pushInt(addr)
	g.pushGas(f, false)
	if op == 0xf1 {
		g.o(f, op, 7, 1)
	} else {
		g.o(f, op, 6, 1)
	}
	g.store(f)
	// make the output observable
	f.a.pushInt(64)
	f.a.pushInt(0)
	g.o(f, 0x20, 2, 1)
	g.store(f)
	g.o(f, 0x3d, 0, 1)
	g.store(f)
}

// initCode builds constructor code. Kinds: runtime | empty | revert | invalid | big | selfdestruct
func (g *gen) initCode(parent *frame, noEmpty, jumpy bool) []byte {
	f := &frame{a: newAsm(), self: -1, entry: parent.entry, created: true, nest: parent.nest + 1, minT: parent.minT, inLoop: true, level: parent.level + 1}
	kind := g.i(0, 9, "ik")
	// S15 open: a CREATE in a frame reached by a call must not deploy code
	if (!parent.entry || parent.gasBurnt) && g.avoidS15 && (kind < 6 || kind == 9) {
		g.excl[sigS15] = true
		kind = 6 + g.i(0, 2, "ik2")
	}
	burns := false
	defer func() {
		if burns && g.avoidS15 && g.avoidStatic {
			parent.gasBurnt = true
		}
	}()
	if (kind == 6 || kind == 8) && noEmpty {
		// S16 (nonce 0) open: a CREATE2 that leaves an account without code could be repeated at
		// the same address (collision check looks at nonce and code)
		g.excl[sigS16Nonce] = true
		kind = 7
	}
	if kind == 9 && g.avoidSize {
		g.excl[sigS16Size] = true
		kind = 0
	}
	if g.i(0, 3, "cself") == 3 {
		// the account under construction looks at itself
		g.inspectOnce(f, target{kind: "self", op: 0x30, vict: -1})
	}
	if jumpy {
		// the constructor jumps (the lengths of the dead regions make init codes differ a lot in size
		// and in where their code / data bytes lie), may create a helper whose constructor jumps,
		// and may try an invalid destination
		g.jumpOver(f, fillSizes[g.i(0, len(fillSizes)-1, "cfill")])
		if g.i(0, 2, "ctor") == 0 {
			g.block(f, 1, 1)
		}
		if g.i(0, 3, "chelper") == 3 && f.nest < 2 {
			if g.avoidNonce {
				g.excl[sigS16Nonce] = true
			} else {
				g.emitCreate(f, g.i(0, 4, "hc2") == 0, true)
				if g.i(0, 1, "hcall") == 0 {
					g.callStackAddr(f)
				} else {
					g.observe(f)
				}
			}
		}
		switch g.i(0, 5, "cj2") {
		case 0:
			burns = true
			g.badJump(f)
		case 1, 2:
			g.jumpOver(f, fillSizes[g.i(0, 6, "cfill2")])
		}
	} else if g.i(0, 2, "ctor") == 0 {
		g.block(f, g.i(1, 2, "cb"), 1)
	}
	switch {
	case kind < 6:
		rf := &frame{a: newAsm(), self: -1, entry: false, created: true, nest: parent.nest + 1, minT: parent.minT, inLoop: true, level: parent.level + 1}
		if jumpy {
			g.jumpOver(rf, fillSizes[g.i(0, 7, "rfill")])
			g.block(rf, g.i(0, 2, "rb"), 1)
			if g.i(0, 3, "rbad") == 0 {
				g.badJump(rf)
			}
		} else {
			g.block(rf, g.i(1, 3, "rb"), 1)
		}
		g.terminator(rf)
		rt := rf.a.link()
		if len(rt) == 0 {
			rt = []byte{0x00}
		}
		id := f.a.addData(rt)
		f.a.pushInt(uint64(len(rt)))
		f.a.pushDataOff(id)
		f.a.pushInt(0)
		g.o(f, 0x39, 3, 0)
		f.a.pushInt(uint64(len(rt)))
		f.a.pushInt(0)
		g.o(f, 0xf3, 2, 0)
	case kind == 6:
		g.o(f, 0x00, 0, 0) // deploys empty code
	case kind == 7:
		g.size(f)
		f.a.pushInt(0)
		g.o(f, 0xfd, 2, 0)
	case kind == 8:
		if g.i(0, 1, "isd") == 0 {
			burns = true
			g.o(f, 0xfe, 0, 0)
		} else {
			g.pushAddr(f, false)
			g.o(f, 0xff, 1, 0)
		}
	default:
		// code size boundary around 24576 (memory is zero: code of STOPs)
		f.a.pushInt(uint64([]int{24577, 24576, 24575, 30000}[g.i(0, 3, "big")]))
		f.a.pushInt(0)
		g.o(f, 0xf3, 2, 0)
	}
	return f.a.link()
}

// emitCreate emits CREATE / CREATE2 of a generated init code; the address (or 0) stays on the stack.
func (g *gen) emitCreate(f *frame, c2, jumpy bool) {
	init := g.initCode(f, c2 && g.avoidNonce, jumpy)
	id := f.a.addData(init)
	const at = 0x300
	f.a.pushInt(uint64(len(init)))
	f.a.pushDataOff(id)
	f.a.pushInt(at)
	g.o(f, 0x39, 3, 0)
	if c2 {
		f.a.pushInt(uint64(g.i(0, 3, "salt")))
	}
	ln := uint64(len(init))
	if g.i(0, 9, "clen") == 0 && !(c2 && g.avoidNonce) {
		ln = uint64(g.i(0, len(init), "cl"))
		if g.avoidS15 && g.avoidStatic {
			f.gasBurnt = true
		}
	}
	f.a.pushInt(ln)
	f.a.pushInt(at)
	g.pushValue(f)
	if c2 {
		g.o(f, 0xf5, 4, 1)
	} else {
		g.o(f, 0xf0, 3, 1)
	}
}

func (g *gen) createStmt(f *frame) {
	g.emitCreate(f, g.i(0, 2, "c2") == 0, g.i(0, 2, "cjumpy") == 2)
	switch g.i(0, 3, "cc") {
	case 0:
		g.store(f)
	case 1:
		// keep the address: EXTCODESIZE / EXTCODEHASH / BALANCE of the new contract
		g.inspectStackAddr(f)
		g.store(f)
	default:
		// call the new contract
		g.o(f, 0x80, 0, 1)
		g.store(f)
		g.callStackAddr(f)
	}
}

func (g *gen) terminator(f *frame) {
	k := g.i(0, 29, "term")
	switch {
	case k < 9:
		// RETURN memory
		f.a.pushInt([]uint64{64, 32, 0, 96, 128, 1, 33}[g.i(0, 6, "rs")])
		f.a.pushInt([]uint64{0, 0, 32, 1, 0x200}[g.i(0, 4, "ro")])
		g.o(f, 0xf3, 2, 0)
	case k < 14:
		g.o(f, 0x00, 0, 0)
	case k < 16:
		// run off the end of the code (implicit STOP)
	case k < 20:
		g.size(f)
		g.smallOff(f)
		g.o(f, 0xfd, 2, 0)
	case k < 22:
		g.o(f, 0xfe, 0, 0)
	case k < 25:
		if f.pure {
			g.o(f, 0x00, 0, 0)
			return
		}
		g.pushAddr(f, false)
		g.o(f, 0xff, 1, 0)
	case k < 26:
		f.a.pushInt(uint64(g.i(0, 40, "badjump")))
		g.o(f, 0x56, 1, 0)
	case k < 27:
		for j := 0; j <= f.a.h; j++ {
			f.a.op(0x50) // stack underflow
		}
	case k < 28:
		f.a.op([]byte{0x0c, 0x1e, 0x21, 0x46, 0x5c, 0xa5, 0xb0, 0xef, 0xf6, 0xfb, 0xfc}[g.i(0, 10, "undef")])
	case k < 29:
		// RETURN with huge offset / size
		g.size(f)
		f.a.pushBig(hugeMemOffsets[g.i(0, len(hugeMemOffsets)-1, "rho")])
		g.o(f, 0xf3, 2, 0)
	default:
		// truncated PUSH at the end of the code
		f.a.op(byte(0x60 + g.i(1, 31, "tp")))
		f.a.op(0x01)
	}
}

func (g *gen) contractCode(idx int) []byte {
	f := &frame{a: newAsm(), self: idx, entry: idx == 0, pure: g.pure[idx], minT: idx + 1, level: idx}
	n := g.i(1, 6, "nstmt")
	pre := g.i(0, n, "callat")
	g.block(f, pre, 2)
	if idx < g.n-1 && g.i(0, 2, "forcecall") > 0 {
		g.callStmt(f) // most contracts that can call forward do
	}
	if fm := []int{4, 11}[min(idx, 1)]; !f.pure && g.i(0, fm, "factory") == fm {
		g.factoryStmt(f)
	}
	g.block(f, n-pre, 2)
	g.terminator(f)
	return f.a.link()
}

func (g *gen) mutate(code []byte) []byte {
	code = append([]byte{}, code...)
	n := g.i(1, 3, "nmut")
	for j := 0; j < n && len(code) > 0; j++ {
		at := g.i(0, len(code)-1, "mat")
		switch g.i(0, 5, "mk") {
		case 0:
			code[at] ^= 1 << uint(g.i(0, 7, "bit"))
		case 1:
			code[at] = byte(g.i(0, 255, "byte"))
		case 2:
			code = code[:at] // truncate (possibly inside PUSH data)
		case 3:
			code = append(code[:at], append([]byte{byte(g.i(0, 255, "ins"))}, code[at:]...)...)
		case 4:
			code[at] = []byte{0x56, 0x57, 0x5b, 0x00, 0xfd, 0xf3}[g.i(0, 5, "ctl")]
		default:
			code = append(code[:at], code[at+1:]...)
		}
	}
	return code
}

func genCase(leg string) func(t *rapid.T) EVMCase {
	return func(t *rapid.T) EVMCase {
		g := &gen{t: t, leg: leg, excl: map[string]bool{}, budget: 60}
		if leg == "equalised" {
			// the driver seeds both legs alike: shift the stream so that they explore different programs
			g.i(0, 1<<30, "legsalt")
		}
		g.avoidS15 = h.IsKnownFor(prop, sigS15)
		if leg == "deployed" {
			g.avoidStatic = h.IsKnownFor(prop, sigS16Static)
			g.avoidNonce = h.IsKnownFor(prop, sigS16Nonce)
			g.avoidSize = h.IsKnownFor(prop, sigS16Size)
		}
		g.n = g.i(2, 4, "ncontracts")
		g.pure = make([]bool, g.n)
		for j := 1; j < g.n; j++ {
			g.pure[j] = g.i(0, 3, "pure") == 0
		}
		var c EVMCase
		c.Sender = senderAddr
		codes := make([][]byte, g.n)
		for j := g.n - 1; j >= 0; j-- {
			codes[j] = g.contractCode(j)
		}
		mk := g.i(0, 19, "msgkind")
		switch {
		case mk < 16:
			c.To = contractAddr(0)
		case mk < 18:
			f := &frame{entry: true, minT: 1} // a creation transaction never calls contract 0 (generated as entry code)
			c.Data = g.initCode(f, false, g.i(0, 1, "txjumpy") == 1)
		case mk == 18:
			c.To = [][]byte{eoaAddr, missingAddr, {0, 0, 0, 0, 0, 0, 0, 0, 0, 0, 0, 0, 0, 0, 0, 0, 0, 0, 0, 2}, {0, 0, 0, 0, 0, 0, 0, 0, 0, 0, 0, 0, 0, 0, 0, 0, 0, 0, 0, 4}}[g.i(0, 3, "to")]
		default:
			c.To = contractAddr(g.n - 1)
		}
		if g.i(0, 7, "mutate") == 0 {
			j := g.i(0, g.n-1, "mutwhich")
			if len(c.To) == 0 && j == 0 {
				c.Data = g.mutate(c.Data)
			} else {
				codes[j] = g.mutate(codes[j])
			}
			c.Mutated = true
		}
		balances := []*big.Int{big.NewInt(0), big.NewInt(1000), big.NewInt(1), pow2(255)}
		for j := 0; j < g.n; j++ {
			a := Acct{Addr: contractAddr(j), Code: codes[j], Asm: disasm(codes[j])}
			a.Balance = balances[g.i(0, len(balances)-1, "bal")].Bytes()
			a.Nonce = []uint64{1, 0, 5, ^uint64(0)}[g.i(0, 3, "nonce")%(3+g.i(0, 1, "maxnonce"))]
			ns := g.i(0, 3, "nstorage")
			seen := map[int]bool{}
			for s := 0; s < ns; s++ {
				k := g.i(0, 5, "skey")
				if seen[k] {
					continue
				}
				seen[k] = true
				v := boundary[g.i(1, len(boundary)-1, "sval")]
				a.Storage = append(a.Storage, KV{K: word(big.NewInt(int64(k))), V: word(v)})
			}
			c.Accounts = append(c.Accounts, a)
		}
		sb := []*big.Int{new(big.Int).Exp(big.NewInt(10), big.NewInt(18), nil), pow2(130), big.NewInt(0)}[[]int{0, 0, 0, 0, 0, 0, 0, 0, 1, 1, 1, 2}[g.i(0, 11, "sbal")]]
		c.Accounts = append(c.Accounts, Acct{Addr: senderAddr, Balance: sb.Bytes(), Nonce: uint64(g.i(0, 2, "snonce"))})
		c.Accounts = append(c.Accounts, Acct{Addr: eoaAddr, Balance: big.NewInt(1000).Bytes(), Nonce: 3})
		c.Accounts = append(c.Accounts, g.extraAccounts()...)
		if len(c.To) > 0 {
			nd := []int{0, 4, 32, 36, 68, 100}[g.i(0, 5, "ndata")]
			for len(c.Data) < nd {
				w := word(boundary[g.i(0, len(boundary)-1, "dw")])
				c.Data = append(c.Data, w...)
			}
			if len(c.Data) > nd {
				c.Data = c.Data[len(c.Data)-nd:]
			}
		}
		c.Value = big.NewInt([]int64{0, 0, 0, 1, 1000}[g.i(0, 4, "value")]).Bytes()
		c.Number = []uint64{5, 1, 2, 255, 256, 257, 300, 1000, 65536, 1000000}[g.i(0, 9, "number")]
		c.Time = uint64(1500000000 + g.i(0, 1000, "time"))
		if g.i(0, 5, "again") == 5 {
			// the same message once more, as a second transaction over the state the first one left
			// (contracts it created or destroyed, accounts it touched, counters it advanced)
			c.Again = 1 + g.i(0, 4, "again2")/4
		}
		for k := range g.excl {
			c.Excluded = append(c.Excluded, k)
		}
		sort.Strings(c.Excluded)
		return c
	}
}
