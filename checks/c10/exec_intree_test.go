package c10

import (
	"fmt"
	"math/big"
	"runtime"
	"sort"
	"time"

	icommon "github.com/dappledger/AnnChain/eth/common"
	istate "github.com/dappledger/AnnChain/eth/core/state"
	ivm "github.com/dappledger/AnnChain/eth/core/vm"
	icrypto "github.com/dappledger/AnnChain/eth/crypto"
	iethdb "github.com/dappledger/AnnChain/eth/ethdb"
	iparams "github.com/dappledger/AnnChain/eth/params"
)

// in-tree tracer adapter
type iTracer struct {
	c *tcore
}

func (t *iTracer) CaptureStart(from, to icommon.Address, create bool, input []byte, gas uint64, value *big.Int) error {
	return nil
}
func (t *iTracer) CaptureEnd(output []byte, gasUsed uint64, d time.Duration, err error) error {
	return nil
}
func (t *iTracer) CaptureFault(env *ivm.EVM, pc uint64, op ivm.OpCode, gas, cost uint64, memory *ivm.Memory, stack *ivm.Stack, contract *ivm.Contract, depth int, err error) error {
	if err == ivm.ErrOutOfGas && cost > 0 {
		t.c.budget = true
	}
	return nil
}
func (t *iTracer) CaptureState(env *ivm.EVM, pc uint64, op ivm.OpCode, gas, cost uint64, memory *ivm.Memory, stack *ivm.Stack, contract *ivm.Contract, depth int, err error) error {
	if err != nil {
		// the instruction was not executed
		t.c.why = fmt.Sprintf("%v at depth %d pc %d op %s gas %d cost %d", err, depth, pc, opName(byte(op)), gas, cost)
		if err.Error() == "evm: write protection" {
			t.c.writeBlocked = true
		}
		if err == ivm.ErrOutOfGas && cost > 0 {
			t.c.budget = true
		}
		return nil
	}
	o := byte(op)
	if (o == 0x56 || (o == 0x57 && stack.Back(1).Sign() != 0)) && len(t.c.trace) < maxTrace {
		kind := "prestate"
		if contract.CodeHash == (icommon.Hash{}) {
			kind = "init"
		} else if len(t.c.createdAddrs) > 0 && isCreatedIn(fmt.Sprintf("%x", contract.Address().Bytes()), t.c) {
			kind = "fresh"
		}
		t.c.jump(kind, contract.Code, stack.Back(0))
	}
	if !interesting(o) {
		t.c.count(depth, pc, o, contract.Gas, 0, 0)
		return nil
	}
	if o == 0xf0 || o == 0xf5 {
		var a icommon.Address
		if o == 0xf0 {
			a = icrypto.CreateAddress(contract.Address(), env.StateDB.GetNonce(contract.Address()))
		} else {
			off, size := stack.Back(1), stack.Back(2)
			var code []byte
			if size.Sign() > 0 && off.IsInt64() && size.IsInt64() {
				code = memory.Get(off.Int64(), size.Int64())
			}
			a = icrypto.CreateAddress2(contract.Address(), icommon.BigToHash(stack.Back(3)), icrypto.Keccak256(code))
		}
		as, self := fmt.Sprintf("%x", a[:]), fmt.Sprintf("%x", contract.Address().Bytes())
		for _, prev := range t.c.createdAddrs {
			if prev == as {
				t.c.recreate = true
			}
			if prev == self {
				t.c.createByCreated = true
			}
		}
		t.c.createdAddrs = append(t.c.createdAddrs, as)
	}
	t.c.step(stepInfo{
		depth: depth, pc: pc, op: o, gas: contract.Gas,
		back:    stack.Back,
		mem:     memory.Get,
		self:    func() string { return fmt.Sprintf("%x", contract.Address().Bytes()) },
		gasLeft: env.GasLeft(),
		acct: func(a string) acctView {
			ad := icommon.HexToAddress(a)
			return acctView{exist: env.StateDB.Exist(ad), empty: env.StateDB.Empty(ad), code: env.StateDB.GetCodeSize(ad) > 0, suicided: env.StateDB.HasSuicided(ad)}
		},
		reqGas: func(a byte, in []byte) uint64 {
			return ivm.PrecompiledContractsByzantium[icommon.BytesToAddress([]byte{a})].RequiredGas(in)
		},
	})
	return nil
}

func iHash(n uint64) icommon.Hash {
	return icommon.BytesToHash(icrypto.Keccak256([]byte(fmt.Sprintf("block-%d", n))))
}

func runInTree(c EVMCase, deployed bool) (res *result) {
	res = &result{tr: newCore(), accounts: map[string]acctDump{}}
	defer func() {
		if p := recover(); p != nil {
			buf := make([]byte, 16<<10)
			buf = buf[:runtime.Stack(buf, false)]
			res.panicked = p
			res.stack = string(buf)
		}
	}()
	db := istate.NewDatabase(iethdb.NewMemDatabase())
	st, err := istate.New(icommon.Hash{}, db)
	if err != nil {
		panic(err)
	}
	res.tr.preEmpty = map[string]bool{}
	for _, a := range c.Accounts {
		ad := icommon.BytesToAddress(a.Addr)
		if a.Nonce == 0 && len(a.Code) == 0 && new(big.Int).SetBytes(a.Balance).Sign() == 0 {
			res.tr.preEmpty[fmt.Sprintf("%x", ad[:])] = true
		}
		st.SetBalance(ad, new(big.Int).SetBytes(a.Balance))
		st.SetNonce(ad, a.Nonce)
		if len(a.Code) > 0 {
			st.SetCode(ad, a.Code)
		}
		for _, kv := range a.Storage {
			st.SetState(ad, icommon.BytesToHash(kv.K), icommon.BytesToHash(kv.V))
		}
	}
	if _, err := st.Commit(false); err != nil {
		panic(err)
	}
	sender := icommon.BytesToAddress(c.Sender)
	// what chain/app/evm (makeCurrentHeader, core.NewEVMContext) hands to the EVM
	ctx := ivm.Context{
		CanTransfer: func(db ivm.StateDB, a icommon.Address, v *big.Int) bool { return db.GetBalance(a).Cmp(v) >= 0 },
		Transfer: func(db ivm.StateDB, s, r icommon.Address, v *big.Int) {
			db.SubBalance(s, v)
			db.AddBalance(r, v)
		},
		GetHash:     iHash,
		Origin:      sender,
		GasPrice:    big.NewInt(0),
		Coinbase:    icommon.Address{},
		GasLimit:    ^uint64(0),
		BlockNumber: new(big.Int).SetUint64(c.Number),
		Time:        new(big.Int).SetUint64(c.Time),
		Difficulty:  big.NewInt(0),
	}
	cfg := iparams.AllEthashProtocolChanges
	if deployed {
		cfg = deployedChainConfig()
	}
	tr := &iTracer{c: res.tr}
	value := new(big.Int).SetBytes(c.Value)
	for txi := 0; txi <= c.Again; txi++ {
		var ret []byte
		var verr error
		res.tr.newTx()
		evm := ivm.NewEVM(ctx, st, cfg, ivm.Config{EVMGasLimit: evmGasLimit, Debug: true, Tracer: tr})
		thash := icommon.Hash{1, byte(txi)}
		st.Prepare(thash, icommon.Hash{2}, txi)
		if len(c.To) == 20 {
			if p := ivm.PrecompiledContractsByzantium[icommon.BytesToAddress(c.To)]; p != nil {
				if c.To[19] == 0xfe {
					res.tr.gov = true
				} else if p.RequiredGas(c.Data) > evmGasLimit {
					res.tr.budget = true
				}
			}
		}
		if len(c.To) == 0 {
			var addr icommon.Address
			expect := icrypto.CreateAddress(sender, st.GetNonce(sender))
			res.tr.createdAddrs = append(res.tr.createdAddrs, fmt.Sprintf("%x", expect[:]))
			ret, addr, _, verr = evm.Create(ivm.AccountRef(sender), c.Data, topGas, value)
			res.created = join(res.created, fmt.Sprintf("%x", addr[:]))
		} else {
			st.SetNonce(sender, st.GetNonce(sender)+1)
			ret, _, verr = evm.Call(ivm.AccountRef(sender), icommon.BytesToAddress(c.To), c.Data, topGas, value)
		}
		if txi > 0 {
			res.ret = append(res.ret, 0xff, byte(txi), 0xff)
		}
		res.ret = append(res.ret, ret...)
		switch {
		case verr == nil:
			res.class = join(res.class, "success")
		case verr.Error() == "evm: execution reverted":
			res.class, res.errText = join(res.class, "revert"), join(res.errText, verr.Error())
		default:
			res.class, res.errText = join(res.class, "failure"), join(res.errText, verr.Error())
		}
		for _, l := range st.GetLogs(thash) {
			lr := logRec{Addr: fmt.Sprintf("%x", l.Address[:]), Data: fmt.Sprintf("%x", l.Data)}
			for _, tp := range l.Topics {
				lr.Topics = append(lr.Topics, fmt.Sprintf("%x", tp[:]))
			}
			res.logs = append(res.logs, lr)
		}
		for a := range res.tr.sdAddrs {
			if st.HasSuicided(icommon.HexToAddress(a)) {
				res.suicided = append(res.suicided, txTag(txi)+a)
				res.tr.destroyed[a] = true
			}
		}
		// core.ApplyTransaction: statedb.Finalise(true) after every transaction ("Edit by zhongan")
		st.Finalise(true)
		if res.tr.aborted {
			break
		}
	}
	sort.Strings(res.suicided)
	if _, err := st.Commit(true); err != nil {
		panic(err)
	}
	d := st.RawDump()
	for k, a := range d.Accounts {
		res.accounts[k] = acctDump{Balance: a.Balance, Nonce: a.Nonce, Code: a.Code, Storage: a.Storage}
	}
	return res
}
