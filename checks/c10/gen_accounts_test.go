package c10

import (
	"math/big"
)

// ---------------------------------------------------------------------------------------
// Account inspection: every account-inspecting instruction (EXTCODEHASH, EXTCODESIZE,
// EXTCODECOPY, BALANCE) over accounts in every existence state, before and after the account
// was touched by each mechanism that can bring a state object into being without making the
// account non-empty (zero-value CALL, STATICCALL, zero-balance SELFDESTRUCT beneficiary, a call
// to a precompile), including touches that are reverted afterwards.
//
// Extra cast (added to the pre-state only when a program refers to them):
//   absent pool      dead..01-03   never in the pre-state (small pool: a touch in one frame and an
//                                  inspection in another meet often)
//   empty pool       eeee..01-02   present in the pre-state with nonce 0, balance 0, no code
//   nonce-only       ee0e..01      nonce 1, balance 0, no code (not empty)
//   toucher          70c4..01      contract: touches the address in its call data on the caller's
//                                  behalf and then stops / reverts / fails
//   victims          51c7..01-02   contracts: SELFDESTRUCT to a fixed beneficiary

var (
	absentPool    = [][]byte{missingAddr, mkAddr(0xde, 0xad, 0x02), mkAddr(0xde, 0xad, 0x03)}
	emptyPool     = [][]byte{mkAddr(0xee, 0xee, 0x01), mkAddr(0xee, 0xee, 0x02)}
	nonceOnlyAddr = mkAddr(0xee, 0x0e, 0x01)
	toucherAddr   = mkAddr(0x70, 0xc4, 0x01)
	victimAddrs   = [][]byte{mkAddr(0x51, 0xc7, 0x01), mkAddr(0x51, 0xc7, 0x02)}
)

// toucherCode: call data is one word w; the low 160 bits are the address to touch,
// byte 9 the value to send, byte 10 the kind (0 CALL, else STATICCALL), byte 11 what to do
// afterwards (0 STOP, 1 REVERT, else INVALID).
func toucherCode() []byte {
	a := newAsm()
	static, after, stop, rev := a.newLabel(), a.newLabel(), a.newLabel(), a.newLabel()
	a.pushInt(0)
	a.op(0x35) // w
	a.op(0x80)
	a.pushInt(10)
	a.op(0x1a) // kind
	a.pushLabel(static)
	a.op(0x57)
	for j := 0; j < 4; j++ {
		a.pushInt(0)
	}
	a.op(0x84) // DUP5: w
	a.pushInt(9)
	a.op(0x1a) // value
	a.op(0x85) // DUP6: w (address = low 160 bits)
	a.pushBig(pow2(30))
	a.op(0xf1)
	a.op(0x50)
	a.pushLabel(after)
	a.op(0x56)
	a.place(static)
	for j := 0; j < 4; j++ {
		a.pushInt(0)
	}
	a.op(0x84)
	a.pushBig(pow2(30))
	a.op(0xfa)
	a.op(0x50)
	a.place(after)
	a.pushInt(11)
	a.op(0x1a) // mode
	a.op(0x80)
	a.op(0x15)
	a.pushLabel(stop)
	a.op(0x57)
	a.pushInt(1)
	a.op(0x14)
	a.pushLabel(rev)
	a.op(0x57)
	a.op(0xfe)
	a.place(stop)
	a.op(0x00)
	a.place(rev)
	a.pushInt(0)
	a.pushInt(0)
	a.op(0xfd)
	return a.link()
}

type target struct {
	kind  string
	addr  []byte // nil: pushed by an instruction
	op    byte   // ADDRESS / CALLER / ORIGIN / COINBASE
	plain bool   // no code runs when it is called (may be touched by a call of any kind)
	vict  int    // victim index for kinds victim / beneficiary, else -1
}

// use records that the program refers to one of the extra cast (it is then put in the pre-state).
func (g *gen) use(a []byte) []byte {
	if g.used == nil {
		g.used = map[string]bool{}
	}
	g.used[string(a)] = true
	return a
}

// victim i self-destructs to its beneficiary; both are fixed when first referred to.
func (g *gen) victim(i int) []byte {
	if g.benef[i] == nil {
		var b []byte
		switch k := g.i(0, 9, "benef"); {
		case k < 4:
			b = absentPool[g.i(0, len(absentPool)-1, "bna")]
		case k < 6:
			b = g.use(emptyPool[g.i(0, len(emptyPool)-1, "bne")])
		case k < 8:
			b = make([]byte, 20)
			b[19] = byte(g.i(1, 8, "bnp"))
		case k == 8:
			b = eoaAddr
		default:
			b = victimAddrs[i] // to itself: the balance is burnt
		}
		g.benef[i] = b
		g.victimBal[i] = []int64{0, 0, 0, 1000, 1}[g.i(0, 4, "vbal")]
	}
	return g.use(victimAddrs[i])
}

func (g *gen) pickTarget(f *frame) target {
	k := g.i(0, 23, "tgt")
	switch {
	case k < 4:
		return target{kind: "absent", addr: absentPool[g.i(0, len(absentPool)-1, "ta")], plain: true, vict: -1}
	case k < 7:
		return target{kind: "empty", addr: g.use(emptyPool[g.i(0, len(emptyPool)-1, "te")]), plain: true, vict: -1}
	case k < 11:
		a := make([]byte, 20)
		a[19] = byte(g.i(1, 8, "tp"))
		return target{kind: "precompile", addr: a, plain: true, vict: -1}
	case k < 13:
		i := g.i(0, 1, "tv")
		return target{kind: "victim", addr: g.victim(i), vict: i}
	case k < 15:
		i := g.i(0, 1, "tb")
		g.victim(i)
		b := g.benef[i]
		return target{kind: "beneficiary", addr: b, plain: string(b) != string(victimAddrs[i]), vict: i}
	case k < 17:
		return target{kind: "contract", addr: contractAddr(g.i(0, g.n-1, "tc")), vict: -1}
	case k == 17:
		return target{kind: "eoa", addr: [][]byte{eoaAddr, senderAddr}[g.i(0, 1, "teoa")], plain: true, vict: -1}
	case k == 18:
		return target{kind: "nonce-only", addr: g.use(nonceOnlyAddr), plain: true, vict: -1}
	case k == 19:
		a := make([]byte, 20)
		a[19] = []byte{0, 9, 0xfe, 0xff}[g.i(0, 3, "tpe")]
		// 0xfe is the governance precompile: inspected, never called here
		return target{kind: "precompile-edge", addr: a, plain: a[19] != 0xfe, vict: -1}
	case k < 22:
		return target{kind: "self", op: 0x30, vict: -1}
	case k == 22:
		return target{kind: "caller", op: 0x33, vict: -1}
	default:
		return target{kind: "origin", op: []byte{0x32, 0x41}[g.i(0, 1, "toc")], vict: -1}
	}
}

func (g *gen) pushTarget(f *frame, t target) {
	if t.addr == nil {
		g.o(f, t.op, 0, 1)
		return
	}
	f.a.pushBytes(t.addr)
}

// observe consumes the word on top of the stack where the comparison is sure to see it.
func (g *gen) observe(f *frame) {
	k := g.i(0, 9, "obs")
	switch {
	case f.pure:
		if k < 7 {
			f.a.pushInt(uint64(32 * g.i(0, 1, "omem"))) // the region most RETURNs hand back
			g.o(f, 0x52, 2, 0)
		} else {
			g.store(f)
		}
	case k < 6:
		g.nobs++
		f.a.pushInt(uint64(0x40 + g.nobs%16))
		g.o(f, 0x55, 2, 0)
	case k < 8:
		f.a.pushInt(0)
		f.a.pushInt(0)
		g.o(f, 0xa1, 3, 0) // LOG1 with the word as topic
	default:
		g.store(f)
	}
}

var inspectOps = []byte{0x3f, 0x3f, 0x3f, 0x3b, 0x3b, 0x31, 0x31, 0x3c}

func (g *gen) inspectOnce(f *frame, t target) {
	op := inspectOps[g.i(0, len(inspectOps)-1, "iop")]
	if op == 0x3f && g.avoidNonce && f.created && t.kind == "self" {
		// S16 (nonce 0) open: the account being created is "empty" (nonce 0) as deployed
		g.excl[sigS16Nonce] = true
		op = 0x3b
	}
	if op == 0x3c {
		const at = 0x240
		f.a.pushInt(64)
		f.a.pushInt([]uint64{0, 1, 31, 1000}[g.i(0, 3, "ico")])
		f.a.pushInt(at)
		g.pushTarget(f, t)
		g.o(f, 0x3c, 4, 0)
		f.a.pushInt(64)
		f.a.pushInt(at)
		g.o(f, 0x20, 2, 1)
	} else {
		g.pushTarget(f, t)
		g.o(f, op, 1, 1)
	}
	g.observe(f)
}

// callToucher: CALL / STATICCALL the toucher with one word of call data.
func (g *gen) callToucher(f *frame, addr []byte, value, kind, mode byte, viaStatic bool) {
	const base = 0x100
	w := make([]byte, 32)
	copy(w[12:], addr)
	w[9], w[10], w[11] = value, kind, mode
	f.a.pushBytes(w)
	f.a.pushInt(base)
	g.o(f, 0x52, 2, 0)
	f.a.pushInt(0)
	f.a.pushInt(0)
	f.a.pushInt(32)
	f.a.pushInt(base)
	if !viaStatic {
		f.a.pushInt(0)
	}
	f.a.pushBytes(g.use(toucherAddr))
	g.pushGas(f, false)
	if viaStatic {
		g.o(f, 0xfa, 6, 1)
	} else {
		g.o(f, 0xf1, 7, 1)
	}
	g.store(f)
}

// plainCall: a call of the given kind to an address at which no code runs.
func (g *gen) plainCall(f *frame, op byte, addr []byte, value uint64, emptyInput bool) {
	g.size(f)
	g.smallOff(f)
	if emptyInput {
		f.a.pushInt(0)
		f.a.pushInt(0)
	} else {
		g.size(f)
		g.smallOff(f)
	}
	if op == 0xf1 || op == 0xf2 {
		f.a.pushInt(value)
	}
	f.a.pushBytes(addr)
	g.pushGas(f, false)
	if op == 0xf1 || op == 0xf2 {
		g.o(f, op, 7, 1)
	} else {
		g.o(f, op, 6, 1)
	}
	g.store(f)
}

// touch emits one of the mechanisms that reach the target without running code at it.
func (g *gen) touch(f *frame, t target) {
	if t.vict >= 0 && !f.pure && (t.kind == "victim" || g.i(0, 2, "viav") > 0) {
		// the victim self-destructs to its beneficiary (only by CALL: under a STATICCALL that is a
		// state write, a shape of its own)
		g.plainCall(f, 0xf1, g.victim(t.vict), uint64(g.i(0, 3, "vval")/3), true)
		return
	}
	if !t.plain {
		return
	}
	k := g.i(0, 15, "tch")
	empty := g.i(0, 2, "tin") > 0
	switch {
	case k < 1:
	case k < 4:
		g.plainCall(f, 0xf1, t.addr, 0, empty)
	case k < 7:
		g.plainCall(f, 0xfa, t.addr, 0, empty)
	case k < 8:
		if f.pure {
			g.plainCall(f, 0xfa, t.addr, 0, empty)
		} else {
			g.plainCall(f, 0xf1, t.addr, 1, empty) // funds it (when the caller can pay)
		}
	case k < 9:
		g.plainCall(f, []byte{0xf2, 0xf4}[g.i(0, 1, "tcc")], t.addr, 0, empty)
	default:
		// through the toucher: the touch happens one frame down and that frame may be undone
		mode := []byte{0, 1, 1, 1, 2}[g.i(0, 4, "tmode")]
		kind := byte(g.i(0, 1, "tkind"))
		via := g.i(0, 3, "tvia") == 0
		var value byte
		if !f.pure && !via && kind == 0 && g.i(0, 3, "tval") == 0 {
			value = 1
		}
		g.callToucher(f, t.addr, value, kind, mode, via)
	}
}

func (g *gen) inspectStmt(f *frame) {
	t := g.pickTarget(f)
	if g.i(0, 2, "ibefore") == 0 {
		g.inspectOnce(f, t)
	}
	g.touch(f, t)
	g.inspectOnce(f, t)
	if g.i(0, 2, "iagain") == 0 {
		if g.i(0, 1, "itouch2") == 0 {
			g.touch(f, t)
		}
		g.inspectOnce(f, t)
	}
}

// extraAccounts: the part of the extra cast the program refers to.
func (g *gen) extraAccounts() []Acct {
	var out []Acct
	for _, a := range emptyPool {
		if g.used[string(a)] {
			out = append(out, Acct{Addr: a})
		}
	}
	if g.used[string(nonceOnlyAddr)] {
		out = append(out, Acct{Addr: nonceOnlyAddr, Nonce: 1})
	}
	if g.used[string(toucherAddr)] {
		code := toucherCode()
		out = append(out, Acct{Addr: toucherAddr, Nonce: 1, Balance: big.NewInt(10).Bytes(), Code: code, Asm: disasm(code)})
	}
	for i, a := range victimAddrs {
		if g.used[string(a)] {
			va := newAsm()
			va.pushBytes(g.benef[i])
			va.op(0xff)
			code := va.link()
			out = append(out, Acct{Addr: a, Nonce: 1, Balance: big.NewInt(g.victimBal[i]).Bytes(), Code: code, Asm: disasm(code)})
		}
	}
	return out
}
