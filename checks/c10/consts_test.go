package c10

import (
	"encoding/hex"
	"math/big"

	rcrypto "github.com/ethereum/go-ethereum/crypto"
)

// valid inputs for the precompiles (computed once, deterministically)
var (
	ecHash, ecR, ecS []byte
	ecV              int
	bnP, _           = new(big.Int).SetString("21888242871839275222246405745257275088696311157297823662689037894645226208583", 10)
	g2               [4][]byte // bn256 G2 generator: x imaginary, x real, y imaginary, y real
)

func mustHex(s string) []byte {
	b, err := hex.DecodeString(s)
	if err != nil {
		panic(err)
	}
	return b
}

func init() {
	key, err := rcrypto.ToECDSA(rcrypto.Keccak256([]byte("c10 ecrecover key")))
	if err != nil {
		panic(err)
	}
	ecHash = rcrypto.Keccak256([]byte("c10 message"))
	sig, err := rcrypto.Sign(ecHash, key) // RFC 6979: deterministic
	if err != nil {
		panic(err)
	}
	ecR, ecS, ecV = sig[:32], sig[32:64], int(sig[64])+27
	g2 = [4][]byte{
		mustHex("198e9393920d483a7260bfb731fb5d25f1aa493335a9e71297e485b7aef312c2"),
		mustHex("1800deef121f1e76426a00665e5c4479674322d4f75edadd46debd5cd992f6ed"),
		mustHex("090689d0585ff075ec9e99ad690c3395bc4b313370b38ef355acdadcd122975b"),
		mustHex("12c85ea5db8c6deb4aab71808dcb408fe3d1e7690c43d37b4ce6cc0166fa7daa"),
	}
}
