package c10

import (
	"fmt"
	"math/big"
	"strings"
)

// minimal assembler with forward labels (PUSH2) and trailing data blobs (init code etc.)

type fixup struct{ pos, id int }

type asm struct {
	b      []byte
	labels []int // position of label id, -1 while unplaced
	lfix   []fixup
	datas  [][]byte
	dfix   []fixup
	h      int // stack items the generator knows to be on the stack (relative to frame start)
}

func newAsm() *asm { return &asm{} }

func (a *asm) op(o byte) { a.b = append(a.b, o) }

func (a *asm) pushBytes(v []byte) {
	for len(v) > 1 && v[0] == 0 {
		v = v[1:]
	}
	if len(v) == 0 {
		v = []byte{0}
	}
	if len(v) > 32 {
		v = v[len(v)-32:]
	}
	a.b = append(a.b, byte(0x60+len(v)-1))
	a.b = append(a.b, v...)
	a.h++
}

// pushWide pushes v left-padded to n bytes (non-minimal encodings are part of the domain)
func (a *asm) pushWide(v []byte, n int) {
	if n < len(v) {
		n = len(v)
	}
	if n > 32 {
		n = 32
	}
	buf := make([]byte, n)
	copy(buf[n-len(v):], v)
	a.b = append(a.b, byte(0x60+n-1))
	a.b = append(a.b, buf...)
	a.h++
}

func (a *asm) pushInt(v uint64) { a.pushBytes(new(big.Int).SetUint64(v).Bytes()) }

func (a *asm) pushBig(v *big.Int) { a.pushBytes(v.Bytes()) }

func (a *asm) newLabel() int {
	a.labels = append(a.labels, -1)
	return len(a.labels) - 1
}

func (a *asm) pushLabel(id int) {
	a.b = append(a.b, 0x61, 0, 0)
	a.lfix = append(a.lfix, fixup{len(a.b) - 2, id})
	a.h++
}

func (a *asm) place(id int) {
	a.labels[id] = len(a.b)
	a.b = append(a.b, 0x5b)
}

// mark gives label id the current position without emitting a JUMPDEST (a jump to it is invalid
// unless the next byte emitted happens to be one).
func (a *asm) mark(id int) { a.labels[id] = len(a.b) }

// pushDataLabel emits PUSHn data and gives label id the position of data[at]: a label INSIDE the
// immediate operand of a PUSH (never a valid jump destination, whatever the byte is).
func (a *asm) pushDataLabel(id int, data []byte, at int) {
	if len(data) > 32 {
		data = data[:32]
	}
	a.b = append(a.b, byte(0x60+len(data)-1))
	a.labels[id] = len(a.b) + at
	a.b = append(a.b, data...)
	a.h++
}

// pushLabelHigh pushes 2^(8*(n+1)) + position of label id (n >= 2): a destination whose low bits
// are a valid position but which lies far outside the code.
func (a *asm) pushLabelHigh(id int, n int) {
	a.b = append(a.b, byte(0x60+n+2-1), 1)
	for j := 1; j < n; j++ {
		a.b = append(a.b, 0)
	}
	a.b = append(a.b, 0, 0)
	a.lfix = append(a.lfix, fixup{len(a.b) - 2, id})
	a.h++
}

// raw appends bytes that the generator knows not to be executed (dead code / filler).
func (a *asm) raw(b []byte) { a.b = append(a.b, b...) }

func (a *asm) addData(d []byte) int {
	a.datas = append(a.datas, d)
	return len(a.datas) - 1
}

func (a *asm) pushDataOff(id int) {
	a.b = append(a.b, 0x61, 0, 0)
	a.dfix = append(a.dfix, fixup{len(a.b) - 2, id})
	a.h++
}

func (a *asm) link() []byte {
	out := append([]byte{}, a.b...)
	for _, f := range a.lfix {
		p := a.labels[f.id]
		if p < 0 {
			p = 0xffff // unplaced label: invalid jump destination
		}
		out[f.pos], out[f.pos+1] = byte(p>>8), byte(p)
	}
	offs := make([]int, len(a.datas))
	for i, d := range a.datas {
		offs[i] = len(out)
		out = append(out, d...)
	}
	for _, f := range a.dfix {
		p := offs[f.id]
		out[f.pos], out[f.pos+1] = byte(p>>8), byte(p)
	}
	return out
}

var opNames = map[byte]string{
	0x00: "STOP", 0x01: "ADD", 0x02: "MUL", 0x03: "SUB", 0x04: "DIV", 0x05: "SDIV", 0x06: "MOD", 0x07: "SMOD",
	0x08: "ADDMOD", 0x09: "MULMOD", 0x0a: "EXP", 0x0b: "SIGNEXTEND",
	0x10: "LT", 0x11: "GT", 0x12: "SLT", 0x13: "SGT", 0x14: "EQ", 0x15: "ISZERO", 0x16: "AND", 0x17: "OR", 0x18: "XOR",
	0x19: "NOT", 0x1a: "BYTE", 0x1b: "SHL", 0x1c: "SHR", 0x1d: "SAR", 0x20: "SHA3",
	0x30: "ADDRESS", 0x31: "BALANCE", 0x32: "ORIGIN", 0x33: "CALLER", 0x34: "CALLVALUE", 0x35: "CALLDATALOAD",
	0x36: "CALLDATASIZE", 0x37: "CALLDATACOPY", 0x38: "CODESIZE", 0x39: "CODECOPY", 0x3a: "GASPRICE",
	0x3b: "EXTCODESIZE", 0x3c: "EXTCODECOPY", 0x3d: "RETURNDATASIZE", 0x3e: "RETURNDATACOPY", 0x3f: "EXTCODEHASH",
	0x40: "BLOCKHASH", 0x41: "COINBASE", 0x42: "TIMESTAMP", 0x43: "NUMBER", 0x44: "DIFFICULTY", 0x45: "GASLIMIT",
	0x50: "POP", 0x51: "MLOAD", 0x52: "MSTORE", 0x53: "MSTORE8", 0x54: "SLOAD", 0x55: "SSTORE", 0x56: "JUMP",
	0x57: "JUMPI", 0x58: "PC", 0x59: "MSIZE", 0x5a: "GAS", 0x5b: "JUMPDEST",
	0xa0: "LOG0", 0xa1: "LOG1", 0xa2: "LOG2", 0xa3: "LOG3", 0xa4: "LOG4",
	0xf0: "CREATE", 0xf1: "CALL", 0xf2: "CALLCODE", 0xf3: "RETURN", 0xf4: "DELEGATECALL", 0xf5: "CREATE2",
	0xfa: "STATICCALL", 0xfd: "REVERT", 0xfe: "INVALID", 0xff: "SELFDESTRUCT",
}

func opName(o byte) string {
	switch {
	case o >= 0x60 && o <= 0x7f:
		return fmt.Sprintf("PUSH%d", o-0x5f)
	case o >= 0x80 && o <= 0x8f:
		return fmt.Sprintf("DUP%d", o-0x7f)
	case o >= 0x90 && o <= 0x9f:
		return fmt.Sprintf("SWAP%d", o-0x8f)
	}
	if n, ok := opNames[o]; ok {
		return n
	}
	return fmt.Sprintf("UNDEFINED(0x%02x)", o)
}

// disasm renders code for replay files and messages (informational).
func disasm(code []byte) string {
	var sb strings.Builder
	for pc := 0; pc < len(code); pc++ {
		o := code[pc]
		if pc > 0 {
			sb.WriteByte(' ')
		}
		if o >= 0x60 && o <= 0x7f {
			n := int(o - 0x5f)
			end := pc + 1 + n
			if end > len(code) {
				end = len(code)
			}
			fmt.Fprintf(&sb, "PUSH%d 0x%x", n, code[pc+1:end])
			pc += n
			continue
		}
		sb.WriteString(opName(o))
		if sb.Len() > 1500 {
			fmt.Fprintf(&sb, " …(%d bytes in total)", len(code))
			break
		}
	}
	return sb.String()
}
