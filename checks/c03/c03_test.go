// C03: no equivocation — at most one signature per height/round/step, across restarts.
//
// Stateful test on a real file-backed gemmill/types PrivValidator. A case is a history of
// operations: sign a vote / a proposal at some (height, round, step) with some block id,
// optionally with a failpoint armed inside WriteFileAtomic (crash = the process dies before
// the k-th file operation of the durable write; fail = that file operation returns an error),
// and reload (a new object from whatever is on disk = process restart).
//
// The oracle is a ledger of every signature that LEFT the signer (the call returned a nil
// error). It is written from the property text only; the signer's own fields are never
// consulted except through a fresh load of the file (what a restarted process would see).
package c03

import (
	"math"
	"bytes"
	"encoding/json"
	"fmt"
	"os"
	"path/filepath"
	"runtime/debug"
	"sort"
	"strconv"
	"testing"

	"go.uber.org/zap"
	"pgregory.net/rapid"

	crypto "github.com/dappledger/AnnChain/gemmill/go-crypto"
	glog "github.com/dappledger/AnnChain/gemmill/modules/go-log"
	"github.com/dappledger/AnnChain/gemmill/types"
	"github.com/dappledger/AnnChain/gemmill/utils/verifhook"

	"verif/internal/h"
)

func TestMain(m *testing.M) {
	glog.SetLog(zap.NewNop())
	crypto.NodeInit(crypto.CryptoTypeZhongAn)
	h.Main(m)
}

const chainID = "c03-chain"

// root-cause signature of suspected defect S12: signBytesHRS drops the error of save().
const sigFailedSave = "signature-released-after-failed-save"

// ---- case ------------------------------------------------------------------------------

type Op struct {
	Op    string `json:"op"`              // vote | proposal | reload
	H     int64  `json:"h,omitempty"`     // height (>= 1)
	R     int64  `json:"r,omitempty"`     // round (>= 0)
	Type  int    `json:"type,omitempty"`  // vote: 1 prevote, 2 precommit
	Block int    `json:"block,omitempty"` // block-id variant; 0 = nil vote
	POL   int    `json:"pol,omitempty"`   // proposal: 0 = no POL (-1); n>0 = POLRound n-1 with POLBlockID variant n
	Fault string `json:"fault,omitempty"` // "" | crash | fail   (failpoint inside the durable write of this request)
	K     int    `json:"k,omitempty"`     // 1 = before the .bak copy, 2 = before the .new write, 3 = before the rename
	Via   string `json:"via,omitempty"`   // reload: "" = LoadPrivValidator, "loadorgen" = LoadOrGenPrivValidator
}

type Case struct {
	Ops []Op `json:"ops"`
}

// step numbers are the harness's own (from the property: proposal, prevote, precommit are the
// three signed steps of a round, in that order).
const (
	stepPropose   = 1
	stepPrevote   = 2
	stepPrecommit = 3
)

type hrs struct {
	h, r int64
	s    int
}

func (a hrs) cmp(b hrs) int {
	switch {
	case a.h != b.h:
		if a.h < b.h {
			return -1
		}
		return 1
	case a.r != b.r:
		if a.r < b.r {
			return -1
		}
		return 1
	case a.s != b.s:
		if a.s < b.s {
			return -1
		}
		return 1
	}
	return 0
}

func (a hrs) String() string { return fmt.Sprintf("%d/%d/%d", a.h, a.r, a.s) }

func (o Op) hrs() hrs {
	if o.Op == "proposal" {
		return hrs{o.H, o.R, stepPropose}
	}
	return hrs{o.H, o.R, stepPrevote + o.Type - 1}
}

func blockID(v int) types.BlockID {
	if v == 0 {
		return types.BlockID{}
	}
	return types.BlockID{
		Hash:        bytes.Repeat([]byte{byte(v)}, 20),
		PartsHeader: types.PartSetHeader{Total: v, Hash: bytes.Repeat([]byte{byte(0x80 + v)}, 20)},
	}
}

// ---- generator -------------------------------------------------------------------------

func genSign(t *rapid.T, cur hrs) Op {
	where := rapid.SampledFrom([]string{"same", "same", "same", "same", "next-step", "next-step", "next-round", "next-height", "regress", "regress", "jump", "free"}).Draw(t, "where")
	anyStep := func() int { return rapid.IntRange(1, 3).Draw(t, "step") }
	tg := cur
	if tg.s == 0 {
		tg.s = stepPrevote
	}
	switch where {
	case "same":
	case "next-step":
		if tg.s < stepPrecommit {
			tg.s++
		} else {
			tg.r, tg.s = tg.r+1, anyStep()
		}
	case "next-round":
		tg.r, tg.s = tg.r+1, anyStep()
	case "next-height":
		tg.h, tg.r, tg.s = tg.h+1, int64(rapid.IntRange(0, 1).Draw(t, "round")), anyStep()
	case "regress":
		switch rapid.IntRange(0, 2).Draw(t, "regressWhat") {
		case 0:
			if tg.h > 1 {
				tg.h, tg.r, tg.s = tg.h-1, int64(rapid.IntRange(0, int(tg.r)+1).Draw(t, "round")), anyStep()
			}
		case 1:
			if tg.r > 0 {
				tg.r, tg.s = tg.r-1, anyStep()
			}
		default:
			if tg.s > 1 {
				tg.s--
			}
		}
	case "jump":
		if rapid.Bool().Draw(t, "jumpHeight") {
			tg.h, tg.r, tg.s = tg.h+int64(rapid.IntRange(2, 3).Draw(t, "dh")), int64(rapid.IntRange(0, 2).Draw(t, "round")), anyStep()
		} else {
			tg.r, tg.s = tg.r+int64(rapid.IntRange(2, 4).Draw(t, "dr")), anyStep()
		}
	case "free":
		lo := tg.h - 1
		if lo < 1 {
			lo = 1
		}
		tg.h = int64(rapid.IntRange(int(lo), int(tg.h)+1).Draw(t, "height"))
		tg.r = int64(rapid.IntRange(0, int(tg.r)+1).Draw(t, "round"))
		tg.s = anyStep()
	}
	op := Op{H: tg.h, R: tg.r}
	if tg.s == stepPropose {
		op.Op = "proposal"
		op.Block = rapid.IntRange(1, 2).Draw(t, "block")
		op.POL = rapid.SampledFrom([]int{0, 0, 0, 1, 2}).Draw(t, "pol")
	} else {
		op.Op = "vote"
		op.Type = tg.s - 1
		op.Block = rapid.IntRange(0, 2).Draw(t, "block")
	}
	switch rapid.SampledFrom([]string{"", "", "", "", "", "", "fail", "fail", "crash", "crash"}).Draw(t, "fault") {
	case "fail":
		op.Fault, op.K = "fail", rapid.IntRange(1, 3).Draw(t, "k")
	case "crash":
		op.Fault, op.K = "crash", rapid.IntRange(1, 3).Draw(t, "k")
	}
	return op
}

func genCase(t *rapid.T) Case {
	n := rapid.IntRange(1, 14).Draw(t, "n")
	cur := hrs{1, 0, 0}
	var c Case
	for i := 0; i < n; i++ {
		if i > 0 && rapid.IntRange(0, 4).Draw(t, "reload") == 0 {
			op := Op{Op: "reload"}
			if rapid.IntRange(0, 3).Draw(t, "via") == 0 {
				op.Via = "loadorgen"
			}
			c.Ops = append(c.Ops, op)
			continue
		}
		op := genSign(t, cur)
		if op.hrs().cmp(cur) > 0 {
			cur = op.hrs()
		}
		c.Ops = append(c.Ops, op)
	}
	// "any heights, rounds": most histories live near height 1, some far out, where a watermark
	// that passes through a float64 (JSON) no longer distinguishes neighbouring values
	hbase := rapid.SampledFrom([]int64{0, 0, 0, 0, 0, 0, 1 << 31, 1<<53 - 2, 1 << 53, 1<<60 + 1, math.MaxInt64 - 100}).Draw(t, "heightBase")
	rbase := rapid.SampledFrom([]int64{0, 0, 0, 0, 0, 0, 0, 0, 1<<53 - 1, math.MaxInt64 - 100}).Draw(t, "roundBase")
	for i := range c.Ops {
		if c.Ops[i].Op != "reload" {
			c.Ops[i].H += hbase
			c.Ops[i].R += rbase
		}
	}
	return c
}

// ---- the run: real signer + ledger oracle ----------------------------------------------

type entry struct {
	at        int // op index
	pos       hrs
	signBytes []byte
	sig       []byte
	undurable bool // released while the file on disk did not forbid contradicting it (after a failed save)
}

type sim struct {
	x      *h.Ctx
	dir    string
	path   string
	pv     *types.PrivValidator
	pub    crypto.PubKey
	ledger []entry
	labels map[string]bool

	restartsAfterSig int  // reloads / crashes that happened after >= 1 released signature
	lateAtOrBelow    bool // a request at or below the ledger maximum arrived after such a restart
}

func newSim(x *h.Ctx) (*sim, error) {
	base := ""
	if st, err := os.Stat("/dev/shm"); err == nil && st.IsDir() {
		base = "/dev/shm"
	}
	dir, err := os.MkdirTemp(base, "c03-")
	if err != nil {
		return nil, err
	}
	s := &sim{x: x, dir: dir, path: filepath.Join(dir, "priv_validator.json"), labels: map[string]bool{}}
	key := crypto.GenPrivKeyEd25519FromSecret([]byte("verif-c03-signer"))
	pv, err := types.GenPrivValidator(crypto.CryptoTypeZhongAn, key)
	if err != nil {
		return s, err
	}
	pv.SetFile(s.path)
	if err := pv.Save(); err != nil {
		return s, err
	}
	s.pub = key.PubKey()
	// the process under test starts the way a node does: from the file
	s.pv, err = types.LoadPrivValidator(s.path)
	return s, err
}

func (s *sim) cleanup() { os.RemoveAll(s.dir) }

func (s *sim) label(l string) { s.labels[l] = true }

func (s *sim) max() (hrs, bool) {
	var m hrs
	if len(s.ledger) == 0 {
		return m, false
	}
	m = s.ledger[0].pos
	for _, e := range s.ledger[1:] {
		if e.pos.cmp(m) > 0 {
			m = e.pos
		}
	}
	return m, true
}

// diskWatermark reads the signer file independently of the code under test (plain
// encoding/json over the documented field names): this is the durable record.
func (s *sim) diskWatermark() (hrs, error) {
	b, err := os.ReadFile(s.path)
	if err != nil {
		return hrs{}, err
	}
	var f struct {
		H *int64 `json:"last_height"`
		R *int64 `json:"last_round"`
		S *int   `json:"last_step"`
	}
	if err := json.Unmarshal(b, &f); err != nil {
		return hrs{}, fmt.Errorf("signer file is not JSON: %v", err)
	}
	// a field that is not in the file is a field a restarted process cannot know: zero
	var w hrs
	if f.H != nil {
		w.h = *f.H
	}
	if f.R != nil {
		w.r = *f.R
	}
	if f.S != nil {
		w.s = *f.S
	}
	return w, nil
}

// reload = process restart: a new object from whatever is on disk. Returns true to stop.
func (s *sim) reload(at int, via, why string) bool {
	x := s.x
	if len(s.ledger) > 0 {
		s.restartsAfterSig++
	}
	var pv *types.PrivValidator
	var err error
	if via == "loadorgen" {
		pv = types.LoadOrGenPrivValidator(s.path)
		if pv == nil {
			err = fmt.Errorf("LoadOrGenPrivValidator returned nil")
		}
	} else {
		pv, err = types.LoadPrivValidator(s.path)
	}
	if err != nil || pv == nil {
		return x.Fail("signer-file-unloadable", "op %d (%s): the signer file cannot be loaded: %v", at, why, err)
	}
	s.pv = pv
	if !pv.PubKey.Equals(s.pub) {
		return x.Fail("reload-changes-key", "op %d (%s): the reloaded signer has public key %v, want %v", at, why, pv.PubKey, s.pub)
	}
	loaded := hrs{pv.LastHeight, pv.LastRound, int(pv.LastStep)}
	for _, e := range s.ledger {
		if loaded.cmp(e.pos) < 0 {
			sig := "watermark-lost-on-reload"
			if e.undurable {
				sig = sigFailedSave
			}
			if x.Fail(sig, "op %d (%s): after restart the signer's watermark is %v but the signature of op %d for %v had been released: nothing forbids contradicting it any more", at, why, loaded, e.at, e.pos) {
				return true
			}
		}
	}
	return false
}

func (s *sim) sign(at int, op Op) bool {
	x := s.x
	pos := op.hrs()
	var vote *types.Vote
	var prop *types.Proposal
	var signBytes []byte
	if op.Op == "proposal" {
		polRound, polID := int64(-1), types.BlockID{}
		if op.POL > 0 {
			polRound, polID = int64(op.POL-1), blockID(op.POL)
		}
		prop = types.NewProposal(op.H, op.R, blockID(op.Block).PartsHeader, polRound, polID)
		signBytes = types.SignBytes(chainID, prop)
	} else {
		vt := types.VoteTypePrevote
		if op.Type == 2 {
			vt = types.VoteTypePrecommit
		}
		vote = &types.Vote{ValidatorAddress: s.pub.Address(), ValidatorIndex: 0, Height: op.H, Round: op.R, Type: vt, BlockID: blockID(op.Block)}
		signBytes = types.SignBytes(chainID, vote)
	}
	signBytes = append([]byte{}, signBytes...)

	// classify the request against the ledger (the model watermark = highest released signature)
	mx, any := s.max()
	rel := "first"
	if any {
		switch c := pos.cmp(mx); {
		case c > 0:
			rel = "above"
		case c < 0:
			rel = "below"
		default:
			rel = "same-hrs"
			for _, e := range s.ledger {
				if e.pos == pos {
					if bytes.Equal(e.signBytes, signBytes) {
						rel = "same-hrs-same-bytes"
					} else {
						rel = "same-hrs-other-bytes"
					}
				}
			}
		}
		if rel != "above" && s.restartsAfterSig > 0 {
			s.lateAtOrBelow = true
		}
	}

	if op.Fault != "" {
		mode := verifhook.ModePanic
		if op.Fault == "fail" {
			mode = verifhook.ModeError
		}
		verifhook.Arm(verifhook.Config{Mode: mode, K: int64(op.K), Sites: []string{"wfa."}})
	}
	var err error
	crashed := false
	var otherPanic interface{}
	var stack []byte
	func() {
		defer func() {
			if p := recover(); p != nil {
				if _, ok := p.(verifhook.Crash); ok {
					crashed = true
				} else {
					otherPanic, stack = p, debug.Stack()
				}
			}
		}()
		if prop != nil {
			err = s.pv.SignProposal(chainID, prop)
		} else {
			err = s.pv.SignVote(chainID, vote)
		}
	}()
	fired, site := false, ""
	if op.Fault != "" {
		fired, site = verifhook.Fired()
		verifhook.Disarm()
	}
	if otherPanic != nil {
		return x.Fail("sign-panics", "op %d %+v: SignVote/SignProposal panicked: %v\n%s", at, op, otherPanic, stack)
	}
	if op.Fault != "" {
		if fired {
			s.label(op.Fault + "-fired:" + site)
		} else {
			s.label(op.Fault + "-not-reached")
		}
	}
	if crashed {
		// the process died inside the durable write: nothing was returned to the caller, the
		// object is gone; restart from whatever is on disk (.bak/.new leftovers included)
		s.label("request:" + rel + "->crashed")
		return s.reload(at, "", "restart after crash before "+site)
	}
	var released crypto.Signature
	if prop != nil {
		released = prop.Signature
	} else {
		released = vote.Signature
	}
	if err != nil {
		s.label("request:" + rel + "->refused")
		if released != nil {
			return x.Fail("signature-filled-despite-error", "op %d %+v: the call returned %v but filled Signature", at, op, err)
		}
		return false
	}
	s.label("request:" + rel + "->released")
	if released == nil {
		return x.Fail("nil-signature-released", "op %d %+v: nil error but no signature", at, op)
	}
	e := entry{at: at, pos: pos, signBytes: signBytes, sig: append([]byte{}, released.Bytes()...)}
	if !s.pub.VerifyBytes(signBytes, released) {
		if x.Fail("released-signature-does-not-verify", "op %d %+v: the released signature does not verify against the validator key over SignBytes", at, op) {
			return true
		}
	}
	// (1) one signature per height/round/step
	for _, o := range s.ledger {
		if o.pos != pos {
			continue
		}
		if !bytes.Equal(o.signBytes, signBytes) {
			sig := "equivocation-same-hrs"
			if o.undurable {
				sig = sigFailedSave
			}
			if x.Fail(sig, "op %d %+v: EQUIVOCATION: a second, different signature for %v was released (first by op %d over %s, now over %s)", at, op, pos, o.at, o.signBytes, signBytes) {
				return true
			}
		} else if !bytes.Equal(o.sig, e.sig) {
			if x.Fail("rerelease-different-signature", "op %d %+v: same sign-bytes at %v re-released with a different signature than op %d", at, op, pos, o.at) {
				return true
			}
		} else {
			s.label("identical-rerelease")
		}
	}
	// (2) never sign for an earlier height/round/step than one already signed
	var above *entry
	for i := range s.ledger {
		o := &s.ledger[i]
		if o.pos.cmp(pos) <= 0 {
			continue
		}
		if above == nil || (above.undurable && !o.undurable) {
			above = o // prefer a durable entry: then the failed save is not the cause
		}
	}
	if above != nil {
		sig := "signed-below-watermark"
		if above.undurable {
			sig = sigFailedSave
		}
		if x.Fail(sig, "op %d %+v: REGRESSION: signed for %v after the signature of op %d for %v had been released", at, op, pos, above.at, above.pos) {
			return true
		}
	}
	// (3) durable before release: what a process restarted right now would load must already
	// forbid contradicting this signature
	disk, derr := s.diskWatermark()
	if derr != nil {
		if x.Fail("signer-file-unreadable", "op %d %+v: %v", at, op, derr) {
			return true
		}
	} else if disk.cmp(pos) < 0 {
		e.undurable = true
		sig := "signature-released-before-durable"
		if op.Fault == "fail" && fired {
			sig = sigFailedSave
		}
		for _, o := range s.ledger {
			// the identical signature already left the signer undurably: same root cause, nothing new
			if o.pos == pos && o.undurable && bytes.Equal(o.signBytes, signBytes) {
				sig = sigFailedSave
			}
		}
		if x.Fail(sig, "op %d %+v: a signature for %v left the signer while the file on disk still says %v (write fault: %q fired=%v at %q): a restart now allows signing a contradicting message", at, op, pos, disk, op.Fault, fired, site) {
			return true
		}
	}
	s.ledger = append(s.ledger, e)
	return false
}

func runCase(c Case, x *h.Ctx) {
	s, err := newSim(x)
	if s != nil {
		defer s.cleanup()
	}
	if err != nil {
		x.Fail("harness-setup", "cannot create the signer file: %v", err)
		return
	}
	defer verifhook.Disarm()
	for i, op := range c.Ops {
		stop := false
		switch op.Op {
		case "reload":
			s.label("reload:" + map[bool]string{true: "after-signature", false: "before-any-signature"}[len(s.ledger) > 0])
			stop = s.reload(i, op.Via, "reload")
		case "vote", "proposal":
			if op.H < 1 || op.R < 0 || (op.Op == "vote" && op.Type != 1 && op.Type != 2) {
				x.Label("skipped:outside-domain")
				return
			}
			stop = s.sign(i, op)
		}
		if stop {
			return
		}
	}
	// the history always ends with a restart
	if s.reload(len(c.Ops), "", "final restart") {
		return
	}
	ls := make([]string, 0, len(s.labels))
	for l := range s.labels {
		ls = append(ls, l)
	}
	sort.Strings(ls)
	for _, l := range ls {
		x.Label(l)
	}
	x.Label("released:" + bucket(len(s.ledger)))
	if len(s.ledger) > 0 && s.lateAtOrBelow { // lateAtOrBelow implies a restart after a signature before that request
		x.NonTrivial()
	}
}

func bucket(n int) string {
	switch {
	case n <= 2:
		return strconv.Itoa(n)
	case n <= 5:
		return "3-5"
	}
	return ">5"
}

func TestSigner(t *testing.T) {
	h.Check(t, h.Spec[Case]{Prop: "C03", Leg: "signer", Gen: genCase, Run: runCase})
}

// ---- enumeration leg -------------------------------------------------------------------

// template: 12 requests around the preamble (prevote for block 1 at height 2, round 1).
var template = []Op{
	{Op: "vote", H: 2, R: 1, Type: 1, Block: 1},     // identical to the preamble
	{Op: "vote", H: 2, R: 1, Type: 1, Block: 2},     // conflicting prevote
	{Op: "vote", H: 2, R: 1, Type: 1, Block: 0},     // conflicting nil prevote
	{Op: "proposal", H: 2, R: 1, Block: 1},          // step regression
	{Op: "vote", H: 2, R: 1, Type: 2, Block: 1},     // next step
	{Op: "vote", H: 2, R: 1, Type: 2, Block: 2},     // next step, other block
	{Op: "vote", H: 2, R: 0, Type: 2, Block: 1},     // round regression
	{Op: "vote", H: 2, R: 2, Type: 1, Block: 1},     // next round
	{Op: "proposal", H: 2, R: 2, Block: 2, POL: 2},  // next round proposal with POL
	{Op: "vote", H: 1, R: 5, Type: 2, Block: 1},     // height regression
	{Op: "proposal", H: 3, R: 0, Block: 1},          // next height
	{Op: "proposal", H: 3, R: 0, Block: 2},          // next height, other block
}

type fault struct {
	f string
	k int
}

var faults = []fault{{"", 0}, {"crash", 1}, {"crash", 2}, {"crash", 3}, {"fail", 1}, {"fail", 2}, {"fail", 3}}

// enumCases: preamble, request A under every fault, optional restart, request B under every
// fault, optional retry of A (what replay mode does after a restart), final restart.
func enumCases() []Case {
	pre := Op{Op: "vote", H: 2, R: 1, Type: 1, Block: 1}
	var out []Case
	for _, a := range template {
		for _, fa := range faults {
			for _, mid := range []string{"", "reload", "loadorgen"} {
				for _, b := range template {
					for _, fb := range faults {
						a1, b1 := a, b
						a1.Fault, a1.K = fa.f, fa.k
						b1.Fault, b1.K = fb.f, fb.k
						ops := []Op{pre, a1}
						switch mid {
						case "reload":
							ops = append(ops, Op{Op: "reload"})
						case "loadorgen":
							ops = append(ops, Op{Op: "reload", Via: "loadorgen"})
						}
						ops = append(ops, b1, Op{Op: "reload"}, a)
						out = append(out, Case{Ops: ops})
					}
				}
			}
		}
	}
	return out
}

func TestEnum(t *testing.T) {
	p := h.NewPlain(t, "C03", "enum")
	var rc Case
	if h.ReplayCase("C03", "enum", &rc) {
		p.Case(rc, func(x *h.Ctx) { runCase(rc, x) })
		return
	}
	if h.Replaying() {
		t.Skip("replay file is for another leg")
	}
	shard, _ := strconv.Atoi(os.Getenv("VERIF_SHARD"))
	shards, _ := strconv.Atoi(os.Getenv("VERIF_SHARDS"))
	if shards <= 0 {
		shards = 1
	}
	all := enumCases()
	for i, c := range all {
		if i%shards != shard {
			continue
		}
		c := c
		if !p.Case(c, func(x *h.Ctx) { runCase(c, x) }) {
			h.Note("C03", "enum", "stopped at case %d of %d after a new violation", i, len(all))
			return
		}
	}
	h.SetExhaustive("C03", "enum")
	h.Note("C03", "enum", "enumerated all %d histories: preamble; request A (12 templates) x 7 write faults; {no restart, LoadPrivValidator, LoadOrGenPrivValidator}; request B (12) x 7 write faults; restart; retry of A; restart", len(all))
}
