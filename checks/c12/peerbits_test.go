package c12

import (
	"testing"

	"pgregory.net/rapid"

	"github.com/dappledger/AnnChain/gemmill/consensus/pbft"
	gcmn "github.com/dappledger/AnnChain/gemmill/modules/go-common"
	"github.com/dappledger/AnnChain/gemmill/p2p"
	"github.com/dappledger/AnnChain/gemmill/types"

	"verif/internal/h"
)

// Leg "peerbits": the only way a vote that was marked as sent and then lost on the way is ever
// sent again on an existing connection is the VoteSetMaj23 / VoteSetBits exchange: the peer
// answers with the votes for a block id that it really has, and the node corrects its picture
// of the peer for exactly the votes it holds itself for that block id (ourVotes): a bit the peer
// does not confirm is cleared (so gossipVotesRoutine picks the vote again), a confirmed one is
// set, and nothing is changed for votes the node does not have. "Every message sent is eventually
// delivered" depends on it.
type BitsCase struct {
	N     int    `json:"n"`
	Prior []bool `json:"prior"` // what the node believed the peer has (HasVote announcements)
	Ours  []bool `json:"ours"`  // votes the node itself holds for the block id (nil slice: unknown, e.g. other height)
	Msg   []bool `json:"msg"`   // the peer's answer
	Type  int    `json:"type"`  // 1 prevote, 2 precommit
	NoOur bool   `json:"no_our"`
}

func genBitsCase(t *rapid.T) BitsCase {
	n := rapid.IntRange(1, 20).Draw(t, "n")
	bits := func(label string) []bool {
		b := make([]bool, n)
		mode := rapid.IntRange(0, 3).Draw(t, label+"Mode")
		for i := range b {
			switch mode {
			case 0:
				b[i] = rapid.Bool().Draw(t, label)
			case 1:
				b[i] = true
			case 2:
				b[i] = false
			default:
				b[i] = rapid.IntRange(0, 3).Draw(t, label) > 0
			}
		}
		return b
	}
	return BitsCase{N: n, Prior: bits("prior"), Ours: bits("ours"), Msg: bits("msg"), Type: rapid.IntRange(1, 2).Draw(t, "type"), NoOur: rapid.IntRange(0, 7).Draw(t, "noOur") == 0}
}

func toBA(b []bool) *gcmn.BitArray {
	ba := gcmn.NewBitArray(len(b))
	for i, v := range b {
		ba.SetIndex(i, v)
	}
	return ba
}

func runBitsCase(c BitsCase, x *h.Ctx) {
	if c.N < 1 || len(c.Prior) != c.N || len(c.Ours) != c.N || len(c.Msg) != c.N || (c.Type != 1 && c.Type != 2) {
		return
	}
	peer := &p2p.Peer{Key: "peer", Data: gcmn.NewCMap()}
	ps := pbft.NewPeerState(peer)
	ps.ApplyNewRoundStepMessage(&pbft.NewRoundStepMessage{Height: 3, Round: 1, Step: pbft.RoundStepPrevote, LastCommitRound: 0})
	ps.EnsureVoteBitArrays(3, c.N)
	typ := byte(c.Type)
	for i, v := range c.Prior {
		if v {
			ps.ApplyHasVoteMessage(&pbft.HasVoteMessage{Height: 3, Round: 1, Type: typ, Index: i})
		}
	}
	read := func() *gcmn.BitArray {
		prs := ps.GetRoundState()
		if typ == types.VoteTypePrevote {
			return prs.Prevotes
		}
		return prs.Precommits
	}
	if got := read(); got == nil || got.Size() != c.N {
		x.Label("harness:no-bit-array")
		return
	}
	for i, v := range c.Prior {
		if read().GetIndex(i) != v {
			x.Label("harness:prior-not-set")
			return
		}
	}
	var ours *gcmn.BitArray
	if !c.NoOur {
		ours = toBA(c.Ours)
	}
	ps.ApplyVoteSetBitsMessage(&pbft.VoteSetBitsMessage{Height: 3, Round: 1, Type: typ, BlockID: types.BlockID{Hash: []byte("block-id-of-the-query")}, Votes: toBA(c.Msg)}, ours)
	got := read()
	cleared, confirmed, kept := 0, 0, 0
	for i := 0; i < c.N; i++ {
		// what the peer says it has, it has; what it does not confirm stays believed only where the
		// node cannot know better (votes it does not hold itself for that block id)
		want := c.Prior[i] || c.Msg[i]
		switch {
		case c.NoOur:
			want = c.Msg[i] // documented: overwrite conservatively
		case c.Ours[i]:
			want = c.Msg[i]
		}
		if got.GetIndex(i) != want {
			if x.Fail("peer-vote-bits-not-corrected-by-votesetbits", "validator %d of %d: the node believed has=%v, holds the vote itself=%v (ourVotes given: %v), the peer answered has=%v; afterwards the node believes has=%v, expected %v (a vote the peer says it lacks must become sendable again)", i, c.N, c.Prior[i], c.Ours[i], !c.NoOur, c.Msg[i], got.GetIndex(i), want) {
				return
			}
		}
		if !c.NoOur && c.Ours[i] {
			if c.Prior[i] && !c.Msg[i] {
				cleared++
			} else if c.Msg[i] {
				confirmed++
			}
		} else {
			kept++
		}
	}
	if cleared > 0 {
		x.Label("lost-vote-becomes-sendable-again")
		x.NonTrivial()
	}
	if confirmed > 0 {
		x.Label("vote-confirmed")
	}
	if c.NoOur {
		x.Label("ourvotes-unknown")
	}
}

func TestPeerBits(t *testing.T) {
	h.Check(t, h.Spec[BitsCase]{Prop: "C12", Leg: "peerbits", Gen: genBitsCase, Run: runBitsCase})
}
