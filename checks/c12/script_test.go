package c12

import (
	"bytes"
	"fmt"
	"testing"

	"github.com/dappledger/AnnChain/gemmill/consensus/pbft"
	"github.com/dappledger/AnnChain/gemmill/types"

	"verif/internal/h"
	"verif/internal/sim"
)

// Scripted schedule family "late own proposal": a node P that lags behind (it does not receive
// the round-0 proposal) moves to round 1 where it is the proposer, signs its own proposal and
// block parts, and — before it gets to process them — learns of the +2/3 precommits for the
// round-0 block C. The remaining messages are then delivered fairly. Every honest node must
// commit. The case varies the validator count and how many of P's own messages are processed
// before the deciding precommit arrives.
type ScriptCase struct {
	N        int `json:"n"`
	OwnFirst int `json:"own_first"` // how many of P's own round-1 messages are processed before the last precommit for C
}

func idOf(net *sim.Net, addr []byte) int {
	for _, n := range net.Nodes {
		if bytes.Equal(n.Addr, addr) {
			return n.ID
		}
	}
	return -1
}

// deliverMatching delivers every in-flight message for which keep() is true, in order.
func deliverMatching(net *sim.Net, keep func(f sim.Flight) bool) int {
	n := 0
	for {
		found := -1
		for i, f := range net.InFlight {
			if keep(f) {
				found = i
				break
			}
		}
		if found < 0 {
			return n
		}
		net.Deliver(found, false)
		n++
	}
}

func ownAll(net *sim.Net, n *sim.Node) {
	for len(n.Own) > 0 {
		net.OwnStep(n, 0)
	}
}

func fireNewest(net *sim.Net, n *sim.Node) bool {
	rs := n.RS()
	n.Ctl.Ticker.DropStale(rs.Height, rs.Round, rs.Step)
	p := n.Ctl.Ticker.Pending()
	if len(p) == 0 {
		return false
	}
	return net.Timeout(n, len(p)-1)
}

func runScript(c ScriptCase, x *h.Ctx) {
	dir, doneDir := sim.TempDir("c12s-")
	defer doneDir()
	ps := make([]int64, c.N)
	for i := range ps {
		ps[i] = 1
	}
	net := sim.New(sim.Config{Powers: ps, Dir: dir})
	defer net.Close()
	d := sim.NewDriver(net)
	vals := net.Nodes[0].RS().Validators
	a := idOf(net, vals.Proposer().Address)
	v1 := vals.Copy()
	v1.IncrementAccum(1)
	p := idOf(net, v1.Proposer().Address)
	if a < 0 || p < 0 || a == p {
		x.Label("script-not-applicable")
		return
	}
	P := net.Nodes[p]
	// everybody starts round 0
	for _, n := range net.Honest() {
		fireNewest(net, n)
	}
	// A proposes C; nobody delivers anything to P for now
	ownAll(net, net.Nodes[a])
	notToP := func(f sim.Flight) bool { return f.To != p }
	for i := 0; i < 50; i++ {
		moved := deliverMatching(net, notToP)
		for _, n := range net.Honest() {
			if n != P && len(n.Own) > 0 {
				ownAll(net, n)
				moved++
			}
		}
		if moved == 0 {
			break
		}
	}
	// the others wait for P's vote only if they need it: with N >= 4 equal powers N-1 votes are +2/3
	// P times out of propose, prevotes nil
	fireNewest(net, P)
	ownAll(net, P)
	isVote := func(f sim.Flight, typ byte) bool {
		vm, ok := f.Msg.(*pbft.VoteMessage)
		return ok && vm.Vote.Type == typ
	}
	// P receives prevotes (no proposal, no parts) until it has +2/3 any, waits, precommits nil
	deliverMatching(net, func(f sim.Flight) bool { return f.To == p && isVote(f, types.VoteTypePrevote) })
	if P.RS().Step == pbft.RoundStepPrevoteWait {
		fireNewest(net, P)
	}
	ownAll(net, P)
	// P receives all but the last precommit for C: +2/3 any without a majority -> precommit wait -> round 1
	var pcs []int
	for i, f := range net.InFlight {
		if f.To == p && isVote(f, types.VoteTypePrecommit) {
			pcs = append(pcs, i)
		}
	}
	if len(pcs) < 2 {
		x.Label("script-derailed:no-precommits")
		return
	}
	total := int64(c.N)
	got := int64(1) // P's own nil precommit
	lastHeld := -1
	for {
		idx := -1
		for i, f := range net.InFlight {
			if f.To == p && isVote(f, types.VoteTypePrecommit) {
				idx = i
				break
			}
		}
		if idx < 0 {
			break
		}
		// stop before the vote that would complete +2/3 for C
		if 3*(got) > 2*total {
			lastHeld = idx
			break
		}
		if 3*(got+1) > 2*total && 3*got <= 2*total {
			// this one gives +2/3 any (with P's nil) but C itself has got-1+1 votes: still no majority for C
		}
		net.Deliver(idx, false)
		got++
	}
	if P.RS().Step != pbft.RoundStepPrecommitWait || lastHeld < 0 {
		x.Labelf("script-derailed:step-%v", P.RS().Step)
		return
	}
	fireNewest(net, P) // precommit-wait timeout: round 1, P proposes B (own messages stay in custody)
	if P.RS().Round != 1 || len(P.Own) == 0 {
		x.Labelf("script-derailed:round-%d-own-%d", P.RS().Round, len(P.Own))
		return
	}
	for i := 0; i < c.OwnFirst && len(P.Own) > 0; i++ {
		net.OwnStep(P, 0)
	}
	// now the deciding precommits for C reach P
	deliverMatching(net, func(f sim.Flight) bool { return f.To == p && isVote(f, types.VoteTypePrecommit) })
	if P.RS().Step != pbft.RoundStepCommit {
		x.Labelf("script-derailed:not-in-commit-%v", P.RS().Step)
		return
	}
	// P's own (late) proposal and parts are processed now; then everything is delivered fairly
	ownAll(net, P)
	ok := d.RunFair(1, 4000)
	x.Labelf("n:%d", c.N)
	x.NonTrivial()
	if !ok {
		rs := P.RS()
		sig := "height-does-not-terminate"
		if rs.ProposalBlock != nil && rs.ProposalBlockParts.IsComplete() {
			if id, has := rs.Votes.Precommits(rs.CommitRound).TwoThirdsMajority(); has && !rs.ProposalBlock.HashesTo(id.Hash) {
				sig = "commit-step-holds-wrong-complete-block"
			}
		}
		x.Fail(sig, "node %d entered the commit step for the round-0 block, then processed its own late round-1 block part; under fair delivery it never commits: %s", p, sim.Digest(rs))
	}
}

func TestLateOwnProposal(t *testing.T) {
	pl := h.NewPlain(t, "C12", "lateown")
	var rc ScriptCase
	if h.ReplayCase("C12", "lateown", &rc) {
		pl.Case(rc, func(x *h.Ctx) { runScript(rc, x) })
		return
	}
	if h.Replaying() {
		t.Skip()
	}
	for n := 4; n <= 7; n++ {
		for own := 0; own <= 1; own++ {
			c := ScriptCase{N: n, OwnFirst: own}
			pl.Case(c, func(x *h.Ctx) { runScript(c, x) })
		}
	}
	h.SetExhaustive("C12", "lateown")
	_ = fmt.Sprint
}

// Scripted schedule family "late polka": node X locks block B in round 0 (only X sees the
// polka); in round 1 a different block B2 gathers a polka with the Byzantine prevote, which
// reaches X only after X has timed out of prevote-wait and precommitted nil. X must then unlock
// (a polka for something else in a later round than its lock); the Byzantine validator goes
// silent and the other honest nodes, locked on B2, need X's vote to finish the height.
type LatePolkaCase struct {
	X int `json:"x"` // which honest node (index into the honest list) plays X
}

func runLatePolka(c LatePolkaCase, x *h.Ctx) {
	dir, doneDir := sim.TempDir("c12p-")
	defer doneDir()
	N := 4
	ps := []int64{1, 1, 1, 1}
	// try each validator as the Byzantine one until the script's preconditions hold
	for byzID := 0; byzID < N; byzID++ {
		byz := make([]bool, N)
		byz[byzID] = true
		net := sim.New(sim.Config{Powers: ps, Byz: byz, Dir: dir + fmt.Sprintf("/b%d", byzID)})
		ok := playLatePolka(net, byzID, c, x)
		net.Close()
		if ok || x.Failed() {
			return
		}
	}
	x.Label("script-not-applicable")
}

func playLatePolka(net *sim.Net, byzID int, c LatePolkaCase, x *h.Ctx) bool {
	d := sim.NewDriver(net)
	hs := net.Honest()
	vals := hs[0].RS().Validators
	v1 := vals.Copy()
	v1.IncrementAccum(1)
	p0 := idOf(net, vals.Proposer().Address)
	p1 := idOf(net, v1.Proposer().Address)
	X := hs[c.X%len(hs)]
	if p0 == byzID || p1 == X.ID || p0 < 0 || p1 < 0 {
		return false // needs an honest round-0 proposer and a round-1 proposer other than X
	}
	var others []*sim.Node
	for _, n := range hs {
		if n != X {
			others = append(others, n)
		}
	}
	isVote := func(f sim.Flight, typ byte) bool {
		vm, ok := f.Msg.(*pbft.VoteMessage)
		return ok && vm.Vote.Type == typ
	}
	isData := func(f sim.Flight) bool {
		switch f.Msg.(type) {
		case *pbft.ProposalMessage, *pbft.BlockPartMessage:
			return true
		}
		return false
	}
	// ---- round 0: everybody gets the proposal and prevotes B; only X sees the polka
	for _, n := range hs {
		fireNewest(net, n)
	}
	ownAll(net, net.Nodes[p0])
	deliverMatching(net, isData)
	for _, n := range hs {
		ownAll(net, n)
	}
	deliverMatching(net, func(f sim.Flight) bool { return f.To == X.ID && isVote(f, types.VoteTypePrevote) })
	if X.RS().LockedBlock == nil {
		ownAll(net, X)
	}
	ownAll(net, X) // precommit B
	if X.RS().LockedBlock == nil {
		return false
	}
	B := types.BlockID{Hash: X.RS().LockedBlock.Hash(), PartsHeader: X.RS().LockedBlockParts.Header()}
	for _, n := range others {
		// one more prevote for B (2 of 4) and the Byzantine nil prevote: +2/3 any, no polka
		cnt := 0
		for {
			idx := -1
			for i, f := range net.InFlight {
				if f.To == n.ID && isVote(f, types.VoteTypePrevote) {
					idx = i
					break
				}
			}
			if idx < 0 || cnt >= 1 {
				break
			}
			net.Deliver(idx, false)
			cnt++
		}
		net.Inject(n.ID, byzID, &pbft.VoteMessage{Vote: sim.SignVote(byzID, vals, 1, 0, types.VoteTypePrevote, types.BlockID{})})
		if n.RS().Step == pbft.RoundStepPrevoteWait {
			fireNewest(net, n)
		}
		ownAll(net, n) // precommit nil
	}
	// forget the round-0 prevotes still in flight; deliver all precommits; everybody moves to round 1
	for i := 0; i < len(net.InFlight); {
		if isVote(net.InFlight[i], types.VoteTypePrevote) {
			net.Drop(i)
			continue
		}
		i++
	}
	net.Dropped = nil // these votes are of a finished round of this script; they stay lost
	deliverMatching(net, func(f sim.Flight) bool { return isVote(f, types.VoteTypePrecommit) })
	for _, n := range hs {
		if n.RS().Step == pbft.RoundStepPrecommitWait {
			fireNewest(net, n)
		}
	}
	for _, n := range hs {
		if n.RS().Round != 1 {
			return false
		}
	}
	// ---- round 1: B2 proposed (by an unlocked honest node or by the Byzantine validator)
	var B2 types.BlockID
	if p1 == byzID {
		st := others[0].CS.GetState()
		blk, parts := sim.MakeBlock(st, nil, byzID, []types.Tx{types.Tx("late-polka-b2")}, 512)
		B2 = types.BlockID{Hash: blk.Hash(), PartsHeader: parts.Header()}
		for _, m := range sim.ProposalMsgs(byzID, 1, 1, parts, -1, types.BlockID{}) {
			net.Broadcast(byzID, m)
		}
	} else {
		ownAll(net, net.Nodes[p1])
		rs := net.Nodes[p1].RS()
		if rs.ProposalBlock == nil {
			return false
		}
		B2 = types.BlockID{Hash: rs.ProposalBlock.Hash(), PartsHeader: rs.ProposalBlockParts.Header()}
	}
	if B2.Equals(B) {
		return false
	}
	deliverMatching(net, isData)
	for _, n := range hs {
		ownAll(net, n) // prevotes: X for B (locked), the others for B2
	}
	vr1 := others[0].RS().Validators
	byzPrevote := &pbft.VoteMessage{Vote: sim.SignVote(byzID, vr1, 1, 1, types.VoteTypePrevote, B2)}
	for _, n := range others {
		deliverMatching(net, func(f sim.Flight) bool { return f.To == n.ID && isVote(f, types.VoteTypePrevote) })
		net.Inject(n.ID, byzID, byzPrevote) // polka B2 for the others
		ownAll(net, n)                      // lock B2, precommit B2
	}
	// X: the two honest prevotes for B2 only -> +2/3 any, no polka -> wait -> precommit nil
	deliverMatching(net, func(f sim.Flight) bool { return f.To == X.ID && isVote(f, types.VoteTypePrevote) })
	if X.RS().Step == pbft.RoundStepPrevoteWait {
		fireNewest(net, X)
	}
	ownAll(net, X)
	if X.RS().Step != pbft.RoundStepPrecommit || X.RS().LockedBlock == nil {
		return false
	}
	// now the late prevote completes the polka for B2 at X (round 1 = X's current round)
	net.Inject(X.ID, byzID, byzPrevote)
	x.Label("late-polka-delivered")
	x.NonTrivial()
	// ---- the Byzantine validator is silent from here on; everything else is fair
	if !d.RunFair(1, 6000) {
		x.Fail("height-does-not-terminate", "after a polka for another block reached node %d late in its current round (it was locked on an earlier block and had precommitted nil), fair delivery no longer finishes the height: %s", X.ID, sim.Digest(X.RS()))
	}
	return true
}

func TestLatePolka(t *testing.T) {
	pl := h.NewPlain(t, "C12", "latepolka")
	var rc LatePolkaCase
	if h.ReplayCase("C12", "latepolka", &rc) {
		pl.Case(rc, func(x *h.Ctx) { runLatePolka(rc, x) })
		return
	}
	if h.Replaying() {
		t.Skip()
	}
	for i := 0; i < 3; i++ {
		c := LatePolkaCase{X: i}
		pl.Case(c, func(x *h.Ctx) { runLatePolka(c, x) })
	}
	h.SetExhaustive("C12", "latepolka")
}
