// C12, leg "live": liveness of REAL nodes. Every validator is its own OS process (the test
// binary re-executes itself) running core.NewNode: the real timeoutTicker, the real
// receiveRoutine, the real ConsensusReactor with its gossipData / gossipVotes / queryMaj23
// goroutines per peer, the mempool and blockchain reactors and real p2p (secret connections)
// over localhost TCP. The harness only decides which validators run at all (a validator that
// never starts is a silent proposer each time the rotation reaches it), when one of them is
// killed with SIGKILL and started again, and whether transactions are fed. It then watches the
// block stores: every running node must reach the target height, no two nodes may hold
// different blocks at one height, and no node process may die.
//
// A liveness verdict on real goroutines needs a clock. The clock used here is as forgiving as
// possible: a node counts as stalled only when it has not stored a new block for the stall
// window AND has itself been scheduled for two thirds of its own 250 ms heartbeats in that
// window AND its peers' heartbeats say the same (a starved machine slows the heartbeats down
// with the node). The window is 30 s, or - when this very network has already needed longer
// pauses between two blocks (start-up included) and recovered from them - six times the longest
// such pause, up to 120 s. Everything slower than the budget but still advancing is labelled
// "inconclusive-slow", never reported.
package c12

import (
	"bufio"
	"crypto/ecdsa"
	"encoding/json"
	"fmt"
	"io"
	"math/big"
	"net"
	"os"
	"os/exec"
	"path/filepath"
	"regexp"
	"sort"
	"strconv"
	"strings"
	"sync"
	"syscall"
	"testing"
	"time"

	"github.com/spf13/viper"

	"github.com/dappledger/AnnChain/chain/app/evm"
	"github.com/dappledger/AnnChain/chain/core"
	rtypes "github.com/dappledger/AnnChain/chain/types"
	"github.com/dappledger/AnnChain/eth/common"
	etypes "github.com/dappledger/AnnChain/eth/core/types"
	ecrypto "github.com/dappledger/AnnChain/eth/crypto"
	"github.com/dappledger/AnnChain/eth/rlp"
	gconfig "github.com/dappledger/AnnChain/gemmill/config"
	gcrypto "github.com/dappledger/AnnChain/gemmill/go-crypto"
	gtypes "github.com/dappledger/AnnChain/gemmill/types"

	"verif/internal/h"
)

// init runs before TestMain: a process started with one of the C12LIVE_* child variables is a
// node (or the network initialiser), not a test run. The other legs never set these variables.
func init() {
	if liveChildMain() {
		os.Exit(0)
	}
}

func liveChildMain() bool {
	if base := os.Getenv("C12LIVE_INIT"); base != "" {
		liveInit(base)
		return true
	}
	if dir := os.Getenv("C12LIVE_NODE"); dir != "" {
		liveRunNode(dir)
		return true
	}
	return false
}

const (
	liveChainID = "c12-live-chain"
	liveTick    = 250 * time.Millisecond // heartbeat period of a node process
)

func liveSay(f string, a ...any) {
	fmt.Fprintf(os.Stdout, "C12L "+f+"\n", a...)
}

// liveNodeConf is the configuration of one validator process. Timeouts are a few gossip periods
// long (the reactors poll every 100 ms): short enough for ~2 heights per second, long enough
// that an honest proposal normally arrives in time.
func liveNodeConf(dir string, port int, seeds string) *viper.Viper {
	conf := gconfig.DefaultConfig()
	conf.Set("p2p_laddr", fmt.Sprintf("tcp://127.0.0.1:%d", port))
	conf.Set("rpc_laddr", "")
	conf.Set("seeds", seeds)
	conf.Set("log_path", filepath.Join(dir, "log"))
	conf.Set("audit_log_path", filepath.Join(dir, "audit.log"))
	conf.Set("environment", "production")
	conf.Set("pex_reactor", false)
	conf.Set("auth_by_ca", false)
	conf.Set("fast_sync", false)
	conf.Set("skip_upnp", true)
	conf.Set("timeout_propose", 400)
	conf.Set("timeout_propose_delta", 100)
	conf.Set("timeout_prevote", 150)
	conf.Set("timeout_prevote_delta", 50)
	conf.Set("timeout_precommit", 150)
	conf.Set("timeout_precommit_delta", 50)
	conf.Set("timeout_commit", 100)
	conf.Set("block_size", 50)
	return conf
}

// ---------------------------------------------------------------------------------------
// child: network initialiser

// liveInit creates one runtime directory per validator (base/n<i>) with the repository's own
// InitRuntime (config.toml, priv_validator.json, a single-validator genesis) and then replaces
// every genesis.json by ONE common document that lists all validators with equal power.
// Keys are derived from fixed secrets; node i is the i-th validator in validator-set order
// (sorted by address), so "validator 2 is silent" names the same slot of the rotation in
// every run.
func liveInit(base string) {
	n, _ := strconv.Atoi(os.Getenv("C12LIVE_N"))
	ports := strings.Split(os.Getenv("C12LIVE_PORTS"), ",")
	if n < 1 || len(ports) != n {
		liveSay("FATAL init bad arguments")
		os.Exit(3)
	}
	type key struct {
		priv gcrypto.PrivKeyEd25519
		addr []byte
	}
	keys := make([]key, n)
	for i := range keys {
		p := gcrypto.GenPrivKeyEd25519FromSecret([]byte(fmt.Sprintf("c12-live-validator-%d-of-%d", i, n)))
		keys[i] = key{p, p.PubKey().Address()}
	}
	sort.Slice(keys, func(i, j int) bool { return string(keys[i].addr) < string(keys[j].addr) })
	doc := &gtypes.GenesisDoc{GenesisTime: time.Unix(1600000000, 0).UTC(), ChainID: liveChainID, Plugins: "adminOp,querycache"}
	for i, k := range keys {
		dir := filepath.Join(base, fmt.Sprintf("n%d", i))
		port, _ := strconv.Atoi(ports[i])
		conf := liveNodeConf(dir, port, "")
		var pk gcrypto.PrivKey = k.priv
		conf.Set("gen_privkey", pk)
		if err := gconfig.InitRuntime(dir, liveChainID, conf); err != nil {
			liveSay("FATAL init %v", err)
			os.Exit(3)
		}
		pv, err := gtypes.LoadPrivValidator(filepath.Join(dir, "priv_validator.json"))
		if err != nil || !pv.GetPubKey().Equals(k.priv.PubKey()) {
			liveSay("FATAL init: priv_validator.json of node %d does not carry the requested key (%v)", i, err)
			os.Exit(3)
		}
		doc.Validators = append(doc.Validators, gtypes.GenesisValidator{PubKey: k.priv.PubKey(), Amount: 100, Name: fmt.Sprintf("v%d", i), IsCA: true})
	}
	for i := range keys {
		if err := doc.SaveAs(filepath.Join(base, fmt.Sprintf("n%d", i), "genesis.json")); err != nil {
			liveSay("FATAL init genesis %v", err)
			os.Exit(3)
		}
	}
	liveSay("INITDONE %d", n)
}

// ---------------------------------------------------------------------------------------
// child: one validator

var liveHRS = regexp.MustCompile(`H:(\d+) R:(\d+) S:(\w+)`)

func liveAccountKey(i int) *ecdsa.PrivateKey {
	k, err := ecrypto.ToECDSA(ecrypto.Keccak256([]byte(fmt.Sprintf("c12-live-account-%d", i))))
	if err != nil {
		panic(err)
	}
	return k
}

// liveDetail condenses the consensus state dump: the validator lists are dropped, everything
// that tells where a height is stuck (step, proposal, lock, the vote bit arrays) is kept.
func liveDetail(rs string, peers []string) string {
	var keep []string
	for _, l := range strings.Split(rs, "\n") {
		t := strings.TrimSpace(l)
		switch {
		case strings.HasPrefix(t, "H:"), strings.HasPrefix(t, "StartTime"), strings.HasPrefix(t, "CommitTime"),
			strings.HasPrefix(t, "Proposal"), strings.HasPrefix(t, "Locked"), strings.HasPrefix(t, "LastCommit"),
			strings.HasPrefix(t, "VoteSet{"), strings.HasPrefix(t, "HeightVoteSet{"):
			if len(t) > 220 {
				t = t[:220] + "…"
			}
			keep = append(keep, t)
		}
	}
	for _, p := range peers {
		i := strings.Index(p, ":{")
		if i < 0 {
			continue
		}
		var prs struct {
			Height, Round      int64
			Step               int
			Proposal           bool
			CatchupCommitRound int64
		}
		json.Unmarshal([]byte(p[i+1:]), &prs)
		k := p[:i]
		if len(k) > 8 {
			k = k[:8]
		}
		keep = append(keep, fmt.Sprintf("peer %s seen at %d/%d/%d proposal=%v catchup-commit-round=%d", k, prs.Height, prs.Round, prs.Step, prs.Proposal, prs.CatchupCommitRound))
	}
	return strings.Join(keep, " ; ")
}

// liveRunNode is the main of a validator process. It builds the node (which binds the p2p
// listener), prints LISTENING, waits for the harness's go file, starts the node and then
// reports: one TICK per 250 ms from a goroutine that touches nothing of the node, one STATUS
// per 250 ms (store height, consensus height/round/step, peers), one BLOCK line per stored
// block and one ROUND line per height whose commit is recorded in the next block. It never
// exits on its own; the harness kills it.
func liveRunNode(dir string) {
	evm.VerifSetValidateRoutineCount(1)
	idx, _ := strconv.Atoi(os.Getenv("C12LIVE_IDX"))
	port, _ := strconv.Atoi(os.Getenv("C12LIVE_PORT"))
	goFile := os.Getenv("C12LIVE_GO")
	upDir := os.Getenv("C12LIVE_UP")
	feedTxs := os.Getenv("C12LIVE_TXS") != "0"
	// "same-nonce": a client that submits again with the nonce the state reports, although its
	// earlier transaction with that nonce is still pending (a replacement with another payload)
	sameNonce := os.Getenv("C12LIVE_TXS") == "same-nonce"
	// lower-numbered validators this node is responsible for being connected to: "idx@host:port,..."
	type keepPeer struct {
		idx  int
		addr string
		port int
		next time.Time
	}
	var keep []*keepPeer
	var seeds []string
	for _, s := range strings.Split(os.Getenv("C12LIVE_KEEP"), ",") {
		f := strings.SplitN(s, "@", 2)
		if len(f) != 2 {
			continue
		}
		ki, _ := strconv.Atoi(f[0])
		_, ps, _ := net.SplitHostPort(f[1])
		kp, _ := strconv.Atoi(ps)
		keep = append(keep, &keepPeer{idx: ki, addr: f[1], port: kp})
		seeds = append(seeds, f[1])
	}
	parent := os.Getppid()
	go func() {
		// never outlive the harness (it may be killed without a chance to clean up)
		for {
			time.Sleep(500 * time.Millisecond)
			if os.Getppid() != parent {
				os.Exit(9)
			}
		}
	}()
	conf := liveNodeConf(dir, port, strings.Join(seeds, ","))
	gconfig.SetDefaults(dir, conf)
	node, err := core.NewNode(conf, dir, "evm")
	if err != nil {
		liveSay("FATAL newnode %v", err)
		os.Exit(3)
	}
	liveSay("LISTENING store=%d", node.Angine.Height())
	for {
		if _, err := os.Stat(goFile); err == nil {
			break
		}
		time.Sleep(5 * time.Millisecond)
	}
	if err := node.Start(); err != nil {
		liveSay("FATAL start %v", err)
		os.Exit(3)
	}
	started := time.Now()
	liveSay("STARTED")
	var outMu sync.Mutex
	say := func(f string, a ...any) {
		outMu.Lock()
		liveSay(f, a...)
		outMu.Unlock()
	}
	// heartbeat: nothing but the scheduler is involved
	go func() {
		for n := 1; ; n++ {
			time.Sleep(liveTick)
			say("TICK %d", n)
		}
	}()
	// consensus status (takes the consensus mutex: it stops when that mutex is never released)
	go func() {
		lastStore, lastChange, lastDetail := int64(-1), time.Now(), time.Time{}
		lastHR := ""
		for {
			time.Sleep(liveTick)
			// GetConsensusStateInfo (the RPC's consensus dump) panics on a peer that the switch has
			// already listed but whose PeerState the consensus reactor has not attached yet; that is
			// a flaw of the diagnostic call, not of consensus: skip the beat
			rs, peers, ok := func() (rs string, peers []string, ok bool) {
				defer func() { recover() }()
				rs, peers = node.Angine.GetConsensusStateInfo()
				return rs, peers, true
			}()
			if !ok {
				continue
			}
			m := liveHRS.FindStringSubmatch(rs)
			if m == nil {
				m = []string{"", "0", "0", "?"}
			}
			store := node.Angine.Height()
			say("STATUS store=%d H=%s R=%s S=%s peers=%d", store, m[1], m[2], m[3], len(peers))
			// whom this node expects to propose in its current height/round (first "Proposer:" of the
			// dump = the round's validator set): printed once per height/round
			if i := strings.Index(rs, "Proposer:"); i >= 0 {
				line := rs[i:]
				if j := strings.IndexByte(line, '\n'); j >= 0 {
					line = line[:j]
				}
				if hr := m[1] + "/" + m[2]; hr != lastHR {
					lastHR = hr
					pf := strings.Fields(strings.TrimPrefix(line, "Proposer:"))
					if len(pf) > 0 {
						pa := strings.TrimPrefix(pf[0], "Validator{")
						if len(pa) > 16 {
							pa = pa[:16]
						}
						say("PROPOSER %s %s %s", m[1], m[2], pa)
					}
				}
			}
			if store != lastStore {
				lastStore, lastChange = store, time.Now()
			}
			if time.Since(lastChange) > 3*time.Second && time.Since(lastDetail) > 3*time.Second {
				lastDetail = time.Now()
				say("DETAIL %s", liveDetail(rs, peers))
			}
		}
	}()
	app := node.Application.(*evm.EVMApp)
	// one account per node and per run of the node: a restarted node does not know which of its
	// earlier transactions are still pending elsewhere, and must not reuse their nonces
	run, _ := strconv.Atoi(os.Getenv("C12LIVE_RUN"))
	acct := liveAccountKey(idx*100 + run)
	signer := etypes.HomesteadSigner{}
	lastFed := int64(-1)
	nextNonce := uint64(0)
	feed := func(height int64) {
		if !feedTxs || height <= lastFed {
			return
		}
		lastFed = height
		addr := ecrypto.PubkeyToAddress(acct.PublicKey)
		res := app.Query(append([]byte{byte(rtypes.QueryType_Nonce)}, addr[:]...))
		var nonce uint64
		if err := rlp.DecodeBytes(res.Data, &nonce); err != nil {
			return
		}
		if !sameNonce && nonce < nextNonce {
			nonce = nextNonce // earlier transactions are still pending: continue after them
		}
		for j := uint64(0); j < 2; j++ {
			tx := etypes.NewTransaction(nonce+j, common.BytesToAddress([]byte{0xaa, byte(idx)}), big.NewInt(0), 100000, big.NewInt(0), []byte{byte(height)})
			signed, err := etypes.SignTx(tx, signer, acct)
			if err != nil {
				continue
			}
			raw, _ := rlp.EncodeToBytes(signed)
			node.Angine.BroadcastTx(raw)
		}
		nextNonce = nonce + 2
	}
	printed := int64(0)
	roundsPrinted := int64(0)
	for {
		hgt := node.Angine.Height()
		for printed < hgt {
			blk, meta, err := node.Angine.GetBlock(printed + 1)
			if err != nil || meta == nil || blk == nil {
				break
			}
			printed++
			say("BLOCK %d %x ntx=%d", printed, meta.Hash, len(blk.Data.Txs))
			if printed >= 2 && blk.LastCommit != nil && roundsPrinted < printed-1 {
				roundsPrinted = printed - 1
				say("ROUND %d %d", printed-1, blk.LastCommit.Round())
			}
		}
		feed(hgt)
		// keep the mesh connected: the switch dials its seeds exactly once and never re-dials a
		// lost peer when the PEX reactor is off; "connected" is a premise of the property, so the
		// harness plays the operator. Only the higher-numbered side of a pair dials (two crossing
		// dials make both sides drop the other's connection as a duplicate), and never while an
		// earlier dial to that peer may still be in flight (DialSeeds sleeps up to 3 s first).
		if time.Since(started) > 6*time.Second {
			_, _, peers := node.Angine.GetP2PNetInfo()
			have := map[int]bool{}
			for _, p := range peers {
				have[p.NodeInfo.ListenPort()] = true
			}
			for _, k := range keep {
				if have[k.port] || time.Now().Before(k.next) {
					continue
				}
				if _, err := os.Stat(filepath.Join(upDir, strconv.Itoa(k.idx))); err != nil {
					continue
				}
				k.next = time.Now().Add(8 * time.Second)
				var seen []string
				for _, p := range peers {
					seen = append(seen, fmt.Sprintf("%s/out=%v", p.NodeInfo.ListenAddr, p.IsOutbound))
				}
				say("REDIAL %d (port %d; peers: %s)", k.idx, k.port, strings.Join(seen, " "))
				node.Angine.DialSeeds([]string{k.addr})
			}
		}
		time.Sleep(10 * time.Millisecond)
	}
}

// ---------------------------------------------------------------------------------------
// parent

// LiveCase is one scenario (and the replay file).
type LiveCase struct {
	N           int   `json:"n"`            // validators, equal power; node i = i-th validator in set order
	Silent      []int `json:"silent"`       // validators that are never started
	Crash       int   `json:"crash"`        // running validator that is killed (SIGKILL) and restarted; -1: none
	CrashAt     int64 `json:"crash_at"`     // kill once its own store has reached this height ...
	CrashDelay  int   `json:"crash_delay"`  // ... plus this many milliseconds (moves the kill point within the height)
	DownHeights int64 `json:"down_heights"` // restart after the others stored this many further blocks (when they can progress without it)
	DownMs      int   `json:"down_ms"`      // otherwise restart after this time
	Txs         bool  `json:"txs"`          // every running node submits two transactions per height
	SameNonce   bool  `json:"same_nonce"`   // ... and re-uses the nonce of its still pending transactions (replacement attempts)
	Target      int64 `json:"target"`       // every running node must store this height (raised to 2 past the others' height at restart)
	// CrashFP (optional, for replays that need an exact crash point): instead of the SIGKILL at
	// CrashAt the victim's first run is armed with this durable-write failpoint (hook H1, e.g.
	// "mode=exit;k=11;startsite=godb.Set;startkey=H:1") and exits there by itself.
	CrashFP string `json:"crash_fp,omitempty"`
}

type liveProc struct {
	idx  int
	dir  string
	port int
	cmd  *exec.Cmd
	done chan struct{}

	mu        sync.Mutex
	lines     []string
	listening bool
	started   bool
	height    int64
	heightAt  time.Time
	ticks     int         // heartbeats seen in this run
	ticksAtH  int         // ... at the last height change
	tickTimes []time.Time // arrival times of the latest heartbeats
	maxGap    time.Duration
	status    string
	statusAt  time.Time
	detail    string
	redials   int
	blocks    map[int64]string
	rounds    map[int64]int64
	proposers map[string]string // "height/round" -> whom this node expected to propose
	ntx       map[int64]int
	runs      int
}

func (p *liveProc) snapshot() (height int64, heightAt time.Time, ticksSince int, status string, statusAt time.Time, detail string) {
	p.mu.Lock()
	defer p.mu.Unlock()
	return p.height, p.heightAt, p.ticks - p.ticksAtH, p.status, p.statusAt, p.detail
}

// ticksWithin counts the heartbeats that arrived during the last d.
func (p *liveProc) ticksWithin(d time.Duration) int {
	p.mu.Lock()
	defer p.mu.Unlock()
	n, since := 0, time.Now().Add(-d)
	for i := len(p.tickTimes) - 1; i >= 0 && p.tickTimes[i].After(since); i-- {
		n++
	}
	return n
}

func (p *liveProc) storeHeight() int64 {
	p.mu.Lock()
	defer p.mu.Unlock()
	return p.height
}

func liveFreePort() int {
	l, err := net.Listen("tcp", "127.0.0.1:0")
	if err != nil {
		return 0
	}
	defer l.Close()
	return l.Addr().(*net.TCPAddr).Port
}

func liveTempBase() (string, error) {
	if st, err := os.Stat("/dev/shm"); err == nil && st.IsDir() {
		if d, err := os.MkdirTemp("/dev/shm", "c12live-"); err == nil {
			return d, nil
		}
	}
	return os.MkdirTemp("", "c12live-")
}

func liveChildCmd(env ...string) *exec.Cmd {
	cmd := exec.Command(os.Args[0], "-test.run", "^$")
	cmd.Env = append(os.Environ(), env...)
	// a node has dozens of mostly sleeping goroutines; shards x nodes must not fight over the cores
	cmd.Env = append(cmd.Env, "VERIF_EV_OUT=", "VERIF_REPLAY=", "GOMAXPROCS=2")
	return cmd
}

// start launches (or re-launches) the validator process and the reader of its output.
func (p *liveProc) start(base string, c LiveCase, keep string) error {
	txs := "0"
	if c.Txs {
		txs = "1"
		if c.SameNonce {
			txs = "same-nonce"
		}
	}
	p.mu.Lock()
	run := p.runs
	p.mu.Unlock()
	cmd := liveChildCmd("C12LIVE_NODE="+p.dir, "C12LIVE_RUN="+strconv.Itoa(run), "C12LIVE_IDX="+strconv.Itoa(p.idx), "C12LIVE_PORT="+strconv.Itoa(p.port),
		"C12LIVE_GO="+filepath.Join(base, "go"), "C12LIVE_UP="+filepath.Join(base, "up"), "C12LIVE_KEEP="+keep, "C12LIVE_TXS="+txs)
	if c.CrashFP != "" && p.idx == c.Crash && run == 0 {
		cmd.Env = append(cmd.Env, "VERIF_FP="+c.CrashFP)
	} else {
		cmd.Env = append(cmd.Env, "VERIF_FP=")
	}
	pr, pw := io.Pipe()
	cmd.Stdout = pw
	cmd.Stderr = pw
	if err := cmd.Start(); err != nil {
		return err
	}
	p.mu.Lock()
	p.cmd, p.done = cmd, make(chan struct{})
	p.listening, p.started = false, false
	p.ticks, p.ticksAtH = 0, 0
	p.heightAt = time.Now()
	p.status, p.detail = "", ""
	p.runs++
	p.lines = append(p.lines, fmt.Sprintf("---- run %d ----", p.runs))
	done := p.done
	p.mu.Unlock()
	go func() {
		sc := bufio.NewScanner(pr)
		sc.Buffer(make([]byte, 1<<20), 1<<24)
		for sc.Scan() {
			p.line(sc.Text())
		}
	}()
	go func() {
		cmd.Wait()
		pw.Close()
		close(done)
	}()
	return nil
}

func (p *liveProc) line(l string) {
	p.mu.Lock()
	defer p.mu.Unlock()
	if !strings.HasPrefix(l, "C12L ") {
		if len(p.lines) < 6000 {
			p.lines = append(p.lines, l)
		}
		return
	}
	f := strings.Fields(l)
	if len(f) < 2 {
		return
	}
	switch f[1] {
	case "TICK":
		p.ticks++
		p.tickTimes = append(p.tickTimes, time.Now())
		if len(p.tickTimes) > 1600 {
			p.tickTimes = append([]time.Time{}, p.tickTimes[800:]...)
		}
	case "STATUS":
		p.status, p.statusAt = strings.TrimPrefix(l, "C12L STATUS "), time.Now()
	case "DETAIL":
		p.detail = strings.TrimPrefix(l, "C12L DETAIL ")
	case "LISTENING":
		p.listening = true
		p.lines = append(p.lines, l)
	case "STARTED":
		p.started = true
		p.lines = append(p.lines, l)
	case "REDIAL":
		p.redials++
		p.lines = append(p.lines, l)
	case "BLOCK":
		if os.Getenv("C12LIVE_TRACE") != "" {
			p.lines = append(p.lines, fmt.Sprintf("%s  [t=%s %s]", l, time.Now().Format("05.000"), p.status))
		}
		if len(f) >= 5 {
			hgt, _ := strconv.ParseInt(f[2], 10, 64)
			ntx, _ := strconv.Atoi(strings.TrimPrefix(f[4], "ntx="))
			if old, ok := p.blocks[hgt]; ok && old != f[3] {
				p.blocks[-hgt] = old // a node that changed its own block: kept for the fork oracle
			}
			p.blocks[hgt] = f[3]
			p.ntx[hgt] = ntx
			if hgt > p.height {
				if g := time.Since(p.heightAt); g > p.maxGap && p.started {
					p.maxGap = g // the longest pause that did end with a new block
				}
				p.height, p.heightAt, p.ticksAtH = hgt, time.Now(), p.ticks
			}
		}
	case "PROPOSER":
		if len(f) >= 5 {
			if p.proposers == nil {
				p.proposers = map[string]string{}
			}
			p.proposers[f[2]+"/"+f[3]] = f[4]
		}
	case "ROUND":
		if len(f) >= 4 {
			hgt, _ := strconv.ParseInt(f[2], 10, 64)
			r, _ := strconv.ParseInt(f[3], 10, 64)
			p.rounds[hgt] = r
		}
	default:
		p.lines = append(p.lines, l)
	}
}

func (p *liveProc) alive() bool {
	p.mu.Lock()
	done := p.done
	p.mu.Unlock()
	if done == nil {
		return false
	}
	select {
	case <-done:
		return false
	default:
		return true
	}
}

func (p *liveProc) kill() {
	p.mu.Lock()
	cmd, done := p.cmd, p.done
	p.mu.Unlock()
	if cmd == nil || cmd.Process == nil {
		return
	}
	cmd.Process.Kill()
	<-done
}

func (p *liveProc) output() []string {
	p.mu.Lock()
	defer p.mu.Unlock()
	return append([]string{}, p.lines...)
}

// liveDeath extracts the panic line and the innermost non-runtime frame of the panicking
// goroutine from a dead node's output.
func liveDeath(lines []string) (msg, site string) {
	for i, l := range lines {
		if strings.HasPrefix(l, "panic:") || strings.HasPrefix(l, "fatal error:") || strings.Contains(l, "Paniced on") {
			msg = strings.TrimSpace(l)
			for j := i + 1; j < len(lines); j++ {
				if strings.HasPrefix(lines[j], "goroutine ") && strings.Contains(lines[j], "[running]") {
					for k := j + 1; k < len(lines); k++ {
						f := lines[k]
						if f == "" {
							break
						}
						if strings.HasPrefix(f, "\t") || strings.HasPrefix(f, "panic(") || strings.HasPrefix(f, "runtime.") || strings.HasPrefix(f, "runtime/") ||
							strings.Contains(f, "go-common.Panic") || strings.Contains(f, "created by") {
							continue
						}
						if q := strings.LastIndex(f, "("); q > 0 {
							f = f[:q]
						}
						if q := strings.LastIndex(f, "/"); q >= 0 {
							f = f[q+1:]
						}
						return msg, f
					}
					break
				}
			}
			return msg, "unknown"
		}
	}
	return "", ""
}

func liveTail(lines []string, n int) string {
	var keep []string
	for _, l := range lines {
		if strings.TrimSpace(l) != "" {
			keep = append(keep, l)
		}
	}
	if len(keep) > n {
		keep = keep[len(keep)-n:]
	}
	return strings.Join(keep, "\n")
}

// liveGoroutines asks a stalled node for its goroutine dump (SIGQUIT) and returns the stacks
// of the consensus goroutines: where the receive routine and the timeout routine are parked.
func liveGoroutines(p *liveProc) (stacks string, mempoolFlood bool) {
	p.mu.Lock()
	cmd, done := p.cmd, p.done
	before := len(p.lines)
	p.mu.Unlock()
	if cmd == nil || cmd.Process == nil || !p.alive() {
		return "", false
	}
	cmd.Process.Signal(syscall.SIGQUIT)
	select {
	case <-done:
	case <-time.After(20 * time.Second):
		cmd.Process.Kill()
		<-done
	}
	time.Sleep(50 * time.Millisecond)
	lines := p.output()
	if before < len(lines) {
		lines = lines[before:]
	}
	if os.Getenv("C12LIVE_KEEPDIR") != "" {
		os.WriteFile(filepath.Join(p.dir, "goroutines.txt"), []byte(strings.Join(lines, "\n")), 0o644)
	}
	var out []string
	var cur []string
	recvInMempool, sendBlocked := 0, 0
	flush := func() {
		if len(cur) == 0 {
			return
		}
		blk := strings.Join(cur, "\n")
		if strings.Contains(blk, "MConnection).recvRoutine") && strings.Contains(blk, "MempoolReactor).Receive") {
			recvInMempool++
		}
		if strings.Contains(blk, "MConnection).sendRoutine") && strings.Contains(blk, "waitWrite") {
			sendBlocked++
		}
		for _, want := range []string{"ConsensusState).receiveRoutine", "timeoutTicker).timeoutRoutine"} {
			if strings.Contains(blk, want) {
				var fr []string
				for _, l := range cur {
					if strings.HasPrefix(l, "\t") || strings.HasPrefix(l, "created by") || strings.HasPrefix(l, "runtime.goexit") {
						continue // file:line rows
					}
					if q := strings.LastIndex(l, "("); q > 0 && !strings.HasPrefix(l, "goroutine ") {
						l = l[:q]
					}
					if q := strings.LastIndex(l, "/"); q >= 0 && !strings.HasPrefix(l, "goroutine ") {
						l = l[q+1:]
					}
					fr = append(fr, l)
					if len(fr) >= 9 {
						break
					}
				}
				out = append(out, strings.Join(fr, " < "))
				break
			}
		}
		cur = nil
	}
	for _, l := range lines {
		if strings.HasPrefix(l, "goroutine ") {
			flush()
		}
		if l == "" {
			flush()
			continue
		}
		if len(cur) > 0 || strings.HasPrefix(l, "goroutine ") {
			cur = append(cur, l)
		}
	}
	flush()
	return strings.Join(out, "\n      "), recvInMempool > 0 && sendBlocked > 0
}

// liveStormSig: a transaction that re-uses the nonce of a pending one is accepted, announced to
// every peer and dropped from the pool's index; each peer does the same, so the transaction
// bounces between the nodes for ever and the consensus messages starve behind it. Scenarios
// with such transactions are generated only while this signature is a listed open finding.
const liveStormSig = "live-tx-rebroadcast-storm-starves-consensus"

// liveC06Key is the open finding of property C06 that a restart scenario of this leg can run into.
const liveC06Key = "recovery-panics@App-block-height--is-higher-than-core-"

const (
	// a node below the target is stalled when it stored no block for the stall window while it and
	// its peers emitted at least two thirds of the 250 ms heartbeats of that window. The window is
	// 30 s, or 6 times the longest pause between two blocks (start-up included) that this very
	// network has already shown it can recover from, whichever is longer, up to 120 s.
	liveStallMin   = 30 * time.Second
	liveStallMax   = 120 * time.Second
	liveStallScale = 6
	liveHopeless   = 200 * time.Second // no block and not enough heartbeats either: the machine is starved
	liveCaseBudget = 330 * time.Second
)

func liveWindow(maxGap time.Duration) (time.Duration, int) {
	w := time.Duration(liveStallScale) * maxGap
	if w < liveStallMin {
		w = liveStallMin
	}
	if w > liveStallMax {
		w = liveStallMax
	}
	return w, int(w/liveTick) * 2 / 3
}

// runLive runs the scenario; a listen port that another process on the machine grabbed between
// its reservation and the node's start is no verdict about anything: the scenario starts over.
func runLive(c LiveCase, x *h.Ctx) {
	for attempt := 0; attempt < 3; attempt++ {
		if !runLiveOnce(c, x) {
			return
		}
	}
	x.Label("inconclusive-port-taken")
}

// runLiveOnce returns true when the scenario has to be started over (listen port taken).
func runLiveOnce(c LiveCase, x *h.Ctx) (again bool) {
	if c.N < 1 || c.N > 9 {
		x.Label("bad-case")
		return
	}
	silent := map[int]bool{}
	for _, s := range c.Silent {
		if s >= 0 && s < c.N {
			silent[s] = true
		}
	}
	running := c.N - len(silent)
	if 3*running <= 2*c.N || (c.Crash >= 0 && (c.Crash >= c.N || silent[c.Crash])) {
		x.Label("bad-case") // more than two thirds of the power must run
		return
	}
	base, err := liveTempBase()
	if err != nil {
		x.Label("inconclusive-no-tempdir")
		return
	}
	if os.Getenv("C12LIVE_KEEPDIR") == "" {
		defer os.RemoveAll(base)
	} else {
		fmt.Println("C12LIVE directory kept:", base)
	}
	os.MkdirAll(filepath.Join(base, "up"), 0o700)
	ports := make([]string, c.N)
	procs := make([]*liveProc, c.N)
	for i := range procs {
		p := liveFreePort()
		if p == 0 {
			x.Label("inconclusive-no-port")
			return
		}
		ports[i] = strconv.Itoa(p)
		procs[i] = &liveProc{idx: i, dir: filepath.Join(base, fmt.Sprintf("n%d", i)), port: p, blocks: map[int64]string{}, rounds: map[int64]int64{}, ntx: map[int64]int{}}
	}
	defer func() {
		for _, p := range procs {
			p.kill()
		}
	}()
	begin := time.Now()
	// 1. directories, keys, common genesis
	{
		cmd := liveChildCmd("C12LIVE_INIT="+base, "C12LIVE_N="+strconv.Itoa(c.N), "C12LIVE_PORTS="+strings.Join(ports, ","))
		type res struct {
			out []byte
			err error
		}
		ch := make(chan res, 1)
		go func() { o, e := cmd.CombinedOutput(); ch <- res{o, e} }()
		select {
		case r := <-ch:
			if r.err != nil || !strings.Contains(string(r.out), "C12L INITDONE") {
				x.Labelf("inconclusive-init-failed")
				h.Note("C12", "live", "network initialisation failed: %v %s", r.err, liveTail(strings.Split(string(r.out), "\n"), 6))
				return
			}
		case <-time.After(120 * time.Second):
			if cmd.Process != nil {
				cmd.Process.Kill()
			}
			<-ch
			x.Label("inconclusive-slow")
			return
		}
	}
	// 2. start the running validators; node i keeps itself connected to the running j < i
	keepOf := func(i int) string {
		var ks []string
		for j := 0; j < i; j++ {
			if !silent[j] {
				ks = append(ks, fmt.Sprintf("%d@127.0.0.1:%s", j, ports[j]))
			}
		}
		return strings.Join(ks, ",")
	}
	var live []*liveProc
	for i, p := range procs {
		if silent[i] {
			continue
		}
		if err := p.start(base, c, keepOf(i)); err != nil {
			x.Label("inconclusive-cannot-start-child")
			return
		}
		live = append(live, p)
	}
	var othersAtKill, victimAtKill int64
	// judgeDeath reports a node process that ended on its own. It returns true when the case is over.
	judgeDeath := func(p *liveProc, when string) bool {
		lines := p.output()
		for _, l := range lines {
			if strings.HasPrefix(l, "C12L FATAL") && (strings.Contains(l, "address already in use") || strings.Contains(l, "bind:")) {
				again = true
				return true
			}
		}
		msg, site := liveDeath(lines)
		if p.runs > 1 && strings.Contains(msg, "App block height") && strings.Contains(msg, "is higher than core") && h.IsKnownFor("C06", liveC06Key) {
			// the SIGKILL fell between the application's commit and State.Save of a height: the listed
			// open finding of C06 (crash-atomic commit), which this leg cannot steer around because the
			// kill point within a commit is a matter of timing. Counted, not judged again here.
			x.Label("excluded:C06:" + liveC06Key)
			return true
		}
		if p.runs > 1 && victimAtKill == 1 && strings.Contains(msg, "+2/3 committed an invalid block: Wrong Block.Header.") && h.IsKnownFor("C06", liveC06Key) {
			// the same finding at the very first height: the state is still the genesis state, the
			// store-height adjustment in NewBlockchainReactor lowers the store to height 0 and
			// RecoverFromCrash returns at once ("no blocks to replay") although the application has
			// already committed block 1. The node then obtains block 1 from its peers, executes it a
			// second time, ends with other application / receipts hashes than the network and stops
			// with a consensus failure at block 2.
			x.Label("excluded:C06:" + liveC06Key + ":first-height-variant")
			h.Note("C12", "live", "restart after a SIGKILL during the commit of height 1 (case %+v): %s", c, msg)
			return true
		}
		code := -1
		if p.cmd != nil && p.cmd.ProcessState != nil {
			code = p.cmd.ProcessState.ExitCode()
		}
		if msg == "" {
			for _, l := range lines {
				if strings.HasPrefix(l, "C12L FATAL") {
					msg, site = l, "start-up"
				}
			}
		}
		if msg == "" {
			msg, site = fmt.Sprintf("exit code %d without a panic line", code), "unknown"
		}
		x.Fail("live-node-dies@"+site, "validator %d of %d (process, run %d) died %s: %s\nlast output:\n%s", p.idx, c.N, p.runs, when, msg, liveTail(lines, 25))
		return true
	}
	waitListening := func(ps []*liveProc) (ok bool) {
		dl := time.Now().Add(120 * time.Second)
		for {
			all := true
			for _, p := range ps {
				p.mu.Lock()
				l := p.listening
				p.mu.Unlock()
				if !p.alive() {
					judgeDeath(p, "while starting")
					return false
				}
				all = all && l
			}
			if all {
				return true
			}
			if time.Now().After(dl) {
				x.Label("inconclusive-slow")
				return false
			}
			time.Sleep(10 * time.Millisecond)
		}
	}
	if !waitListening(live) {
		return
	}
	for _, p := range live {
		os.WriteFile(filepath.Join(base, "up", strconv.Itoa(p.idx)), nil, 0o600)
	}
	os.WriteFile(filepath.Join(base, "go"), nil, 0o600)
	for _, p := range live {
		p.mu.Lock()
		p.heightAt = time.Now()
		p.mu.Unlock()
	}

	// 3. watch
	target := c.Target
	crashState := 0 // 0 not yet, 1 height reached (waiting for the delay), 2 down, 3 restarted
	if c.Crash < 0 {
		crashState = 3
	}
	var victim *liveProc
	if c.Crash >= 0 {
		victim = procs[c.Crash]
	}
	var crashReached, downSince time.Time
	othersCanProgress := 3*(running-1) > 2*c.N
	maxGap := time.Duration(0)
	slow := false
	for {
		time.Sleep(25 * time.Millisecond)
		now := time.Now()
		// a node process must never end on its own
		for _, p := range live {
			if p == victim && crashState == 2 {
				continue
			}
			if !p.alive() {
				if p == victim && crashState < 2 && c.CrashFP != "" && p.cmd.ProcessState != nil && p.cmd.ProcessState.ExitCode() == 137 {
					// the armed failpoint was the crash
					os.Remove(filepath.Join(base, "up", strconv.Itoa(victim.idx)))
					crashState, downSince = 2, now
					victimAtKill = victim.storeHeight()
					for _, q := range live {
						if hh := q.storeHeight(); q != victim && hh > othersAtKill {
							othersAtKill = hh
						}
					}
					continue
				}
				judgeDeath(p, fmt.Sprintf("at store height %d", p.storeHeight()))
				return
			}
		}
		// the crash / restart plan
		if victim != nil {
			vh, _, _, _, _, _ := victim.snapshot()
			switch crashState {
			case 0:
				if vh >= c.CrashAt && c.CrashFP == "" {
					crashState, crashReached = 1, now
				}
			case 1:
				if now.Sub(crashReached) >= time.Duration(c.CrashDelay)*time.Millisecond {
					os.Remove(filepath.Join(base, "up", strconv.Itoa(victim.idx)))
					victim.kill()
					crashState, downSince = 2, now
					victimAtKill = victim.storeHeight()
					for _, p := range live {
						if hh := p.storeHeight(); p != victim && hh > othersAtKill {
							othersAtKill = hh
						}
					}
				}
			case 2:
				var most int64
				for _, p := range live {
					if hh, _, _, _, _, _ := p.snapshot(); p != victim && hh > most {
						most = hh
					}
				}
				due := false
				if othersCanProgress && c.DownHeights > 0 {
					due = most >= othersAtKill+c.DownHeights || now.Sub(downSince) > 40*time.Second
				} else {
					due = now.Sub(downSince) >= time.Duration(c.DownMs)*time.Millisecond
				}
				if due {
					if err := victim.start(base, c, keepOf(victim.idx)); err != nil {
						x.Label("inconclusive-cannot-start-child")
						return
					}
					if !waitListening([]*liveProc{victim}) {
						return
					}
					os.WriteFile(filepath.Join(base, "up", strconv.Itoa(victim.idx)), nil, 0o600)
					crashState = 3
					if most+2 > target {
						target = most + 2
					}
					// the planned outage is not a stall: every node's clock starts again
					t0 := time.Now()
					for _, p := range live {
						p.mu.Lock()
						p.heightAt, p.ticksAtH = t0, p.ticks
						p.mu.Unlock()
					}
					x.Labelf("restart:victim-behind-by:%d", minI64(most-victimAtKill, 5))
				}
			}
		}
		// done?
		if crashState == 3 {
			all := true
			for _, p := range live {
				if hh, _, _, _, _, _ := p.snapshot(); hh < target {
					all = false
				}
			}
			if all {
				break
			}
		}
		// stalled?
		if crashState != 2 && crashState != 1 {
			for _, p := range live {
				p.mu.Lock()
				if p.maxGap > maxGap {
					maxGap = p.maxGap
				}
				p.mu.Unlock()
			}
			window, needTicks := liveWindow(maxGap)
			var stuck *liveProc
			for _, p := range live {
				hh, at, ticksSince, _, _, _ := p.snapshot()
				if hh >= target && crashState == 3 {
					continue
				}
				gap := now.Sub(at)
				if gap >= window && ticksSince >= needTicks {
					stuck = p
				} else if gap >= liveHopeless {
					slow = true
				}
			}
			if stuck != nil {
				// the peers of a stuck node must have had their share of the machine as well
				for _, p := range live {
					if p.ticksWithin(window) < needTicks {
						stuck = nil
						break
					}
				}
			}
			if stuck != nil {
				liveReportStall(c, x, live, victim, stuck, target, window, crashState == 3 && victim != nil)
				return
			}
		}
		if slow || now.Sub(begin) > liveCaseBudget {
			x.Label("inconclusive-slow")
			var hs []string
			for _, p := range live {
				hs = append(hs, fmt.Sprintf("%d:%d", p.idx, p.storeHeight()))
			}
			h.Note("C12", "live", "case %+v ran out of its wall budget while still advancing (heights %s, target %d)", c, strings.Join(hs, " "), target)
			return
		}
	}
	elapsed := time.Since(begin)
	os.RemoveAll(filepath.Join(base, "up")) // nobody re-dials the nodes that are stopped now
	if os.Getenv("C12LIVE_TRACE") != "" {
		defer func() {
			for _, p := range live {
				fmt.Printf("==== validator %d (runs %d, redials %d) rounds %v\n%s\n", p.idx, p.runs, p.redials, p.rounds, strings.Join(p.output(), "\n"))
			}
			fmt.Printf("==== case %+v took %.1fs\n", c, elapsed.Seconds())
		}()
	}
	// stop the nodes before reading their maps
	for _, p := range procs {
		p.kill()
	}
	time.Sleep(30 * time.Millisecond)

	// 4. agreement: one block per height across all nodes and all runs of a node
	agreed := map[int64]string{}
	who := map[int64]int{}
	for _, p := range live {
		p.mu.Lock()
		for hgt, hash := range p.blocks {
			at := hgt
			if at < 0 {
				at = -at
			}
			if prev, ok := agreed[at]; ok && prev != hash {
				p.mu.Unlock()
				x.Fail("live-fork", "validators %d and %d of %d stored different blocks at height %d: %s vs %s", who[at], p.idx, c.N, at, prev, hash)
				return
			}
			agreed[at], who[at] = hash, p.idx
		}
		p.mu.Unlock()
	}
	// 5. labels
	rounds := map[int64]int64{}
	ntx := 0
	for _, p := range live {
		p.mu.Lock()
		for hgt, r := range p.rounds {
			rounds[hgt] = r
		}
		p.mu.Unlock()
	}
	for hgt := range agreed {
		for _, p := range live {
			p.mu.Lock()
			if n, ok := p.ntx[hgt]; ok && n > 0 {
				ntx += n
				p.mu.Unlock()
				break
			}
			p.mu.Unlock()
		}
	}
	x.Labelf("validators:%d", c.N)
	if len(c.Silent) == 0 {
		x.Label("silent:none")
	}
	for _, s := range c.Silent {
		x.Labelf("silent:validator-%d", s)
	}
	later, roundHeights, maxRound := false, 0, int64(0)
	var hs []int64
	for hgt := range rounds {
		hs = append(hs, hgt)
	}
	sort.Slice(hs, func(i, j int) bool { return hs[i] < hs[j] })
	var sawRound bool
	for _, hgt := range hs {
		if sawRound {
			later = true
		}
		if rounds[hgt] >= 1 {
			roundHeights++
			sawRound = true
			if rounds[hgt] > maxRound {
				maxRound = rounds[hgt]
			}
		}
	}
	if sawRound && int64(len(agreed)) > hs[len(hs)-1] {
		later = true // the block after the last recorded commit round exists
	}
	x.Labelf("heights-decided-in-round>=1:%d", minI64(int64(roundHeights), 6))
	afterFirst := 0
	for _, hgt := range hs {
		if hgt >= 2 && rounds[hgt] >= 1 {
			afterFirst++ // not the start-up height, during which the nodes are still dialling each other
		}
	}
	x.Labelf("heights>=2-decided-in-round>=1:%d", minI64(int64(afterFirst), 6))
	x.Labelf("max-commit-round:%d", minI64(maxRound, 4))
	if victim != nil {
		x.Label("restart:performed")
		if othersCanProgress && c.DownHeights > 0 {
			x.Label("restart:network-progressed-while-down")
		} else {
			x.Label("restart:network-halted-while-down")
		}
	} else {
		x.Label("restart:none")
	}
	if c.Txs && c.SameNonce {
		x.Label("txs:with-replacement-attempts")
	}
	if c.Txs {
		if ntx > 0 {
			x.Label("txs:committed")
		} else {
			x.Label("txs:fed-none-committed")
		}
	} else {
		x.Label("txs:none")
	}
	redials := 0
	for _, p := range live {
		redials += p.redials
	}
	if redials > 0 {
		if victim != nil {
			x.Label("harness-redialled:peer-after-its-restart")
		} else {
			x.Label("harness-redialled:peer-lost-without-restart")
		}
	}
	switch {
	case elapsed < 10*time.Second:
		x.Label("wall:<10s")
	case elapsed < 20*time.Second:
		x.Label("wall:10-20s")
	case elapsed < 40*time.Second:
		x.Label("wall:20-40s")
	default:
		x.Label("wall:>40s")
	}
	if maxGap > 10*time.Second {
		x.Label("longest-pause-between-blocks:>10s")
	}
	if sawRound && later {
		x.NonTrivial()
	}
	return false
}

func minI64(a, b int64) int64 {
	if a < b {
		return a
	}
	return b
}

// liveReportStall builds the evidence of a stall: each node's store height, consensus
// height/round/step, what it believes of its peers, and where its consensus goroutines are
// parked.
func liveReportStall(c LiveCase, x *h.Ctx, live []*liveProc, victim, stuck *liveProc, target int64, window time.Duration, restarted bool) {
	var sb strings.Builder
	now := time.Now()
	othersDone := true
	for _, p := range live {
		hh, at, ticksSince, status, sAt, detail := p.snapshot()
		if p != victim && hh < target {
			othersDone = false
		}
		role := ""
		if p == victim {
			role = " (to be killed and restarted later)"
			if p.runs > 1 {
				role = " (killed and restarted)"
			}
		}
		fmt.Fprintf(&sb, "\n validator %d%s: store height %d for %.0fs (%d heartbeats); %s", p.idx, role, hh, now.Sub(at).Seconds(), ticksSince, status)
		if age := now.Sub(sAt); age > 5*time.Second {
			fmt.Fprintf(&sb, " [no consensus status for %.0fs: the consensus mutex is not released]", age.Seconds())
		}
		if detail != "" {
			fmt.Fprintf(&sb, "\n    %s", detail)
		}
	}
	flooded := 0
	for _, p := range live {
		g, mem := liveGoroutines(p)
		if g != "" {
			fmt.Fprintf(&sb, "\n    validator %d goroutines:\n      %s", p.idx, g)
		}
		if mem {
			flooded++
			fmt.Fprintf(&sb, "\n      (its connections' receive routines are inside MempoolReactor.Receive and its send routines are blocked writing to the sockets: transaction gossip saturates the links)")
		}
	}
	sig := "live-network-stalls"
	// listed finding: a validator that reloads its state from the database names other proposers
	// than its peers (the cached proposer is not persisted); when every running validator is needed
	// for +2/3 that ends the height. Evidence: for one height/round two nodes expected different
	// proposers, and a validator was restarted.
	disagree := ""
	if victim != nil && victim.runs > 1 {
		views := map[int]map[string]string{}
		for _, a := range live {
			a.mu.Lock()
			cp := map[string]string{}
			for k, v := range a.proposers {
				cp[k] = v
			}
			a.mu.Unlock()
			views[a.idx] = cp
		}
		for _, a := range live {
			for _, b := range live {
				if a.idx >= b.idx {
					continue
				}
				for hr, pa := range views[a.idx] {
					if pb, ok := views[b.idx][hr]; ok && pb != pa && disagree == "" {
						disagree = fmt.Sprintf("at height/round %s validator %d expects proposer %s and validator %d expects %s", hr, a.idx, pa, b.idx, pb)
					}
				}
			}
		}
	}
	if victim != nil && victim.runs > 1 && !(stuck == victim && othersDone) && h.IsKnownFor("C12", "proposer-cache-lost-on-reload") {
		// while that finding is open every stall that follows a restart is counted under it: with
		// the evidence when two nodes were seen to expect different proposers for one height/round,
		// by plausibility otherwise (a restarted validator whose vote is needed and who rejects the
		// real proposals ends the height; the other checks of C06/C07/C12 judge restarts precisely)
		if disagree == "" {
			disagree = "(no height/round was observed on two nodes with different expected proposers; attributed by plausibility)"
			x.Label("restart-stall-attributed-without-direct-evidence")
		}
		x.Fail("proposer-cache-lost-on-reload", "live network of %d validators (%d running) stalls after validator %d was killed and restarted: %s%s", c.N, len(live), victim.idx, disagree, sb.String())
		return
	}
	if c.Txs && c.SameNonce && flooded > 0 {
		sig = liveStormSig
	}
	if restarted && stuck == victim && othersDone {
		sig = "live-restarted-node-stalls"
	}
	x.Fail(sig, "%d validators of equal power, %d running and connected over TCP (silent %v, crash plan: validator %d): validator %d stored no block for %.0f s although it was scheduled (heartbeats) and the target height %d is not reached:%s",
		c.N, len(live), c.Silent, c.Crash, stuck.idx, window.Seconds(), target, sb.String())
}

// ---------------------------------------------------------------------------------------
// case family

type liveRng uint64

func (r *liveRng) next() uint64 {
	*r += 0x9e3779b97f4a7c15
	z := uint64(*r)
	z = (z ^ (z >> 30)) * 0xbf58476d1ce4e5b9
	z = (z ^ (z >> 27)) * 0x94d049bb133111eb
	return z ^ (z >> 31)
}
func (r *liveRng) intn(n int) int { return int(r.next() % uint64(n)) }

// liveCases: a fixed core (one case per scenario class, the members chosen by the seed) followed
// by seeded random scenarios.
func liveCases(seed int64, n int) []LiveCase {
	r := liveRng(uint64(seed)*0x51ed27 + 12)
	pick := func(nv int, not ...int) int {
		for {
			v := r.intn(nv)
			ok := true
			for _, x := range not {
				ok = ok && v != x
			}
			if ok {
				return v
			}
		}
	}
	var cs []LiveCase
	// silent proposer, 4 validators: its turn comes twice in 8 heights
	s := pick(4)
	cs = append(cs, LiveCase{N: 4, Silent: []int{s}, Crash: -1, Target: 8})
	// crash while the other three go on; the victim comes back 3 heights behind
	cs = append(cs, LiveCase{N: 4, Silent: []int{}, Crash: pick(4), CrashAt: 2, CrashDelay: r.intn(4) * 60, DownHeights: 3, Txs: true, Target: 7})
	// silent proposer AND a crash: the network halts while the victim is down and must resume
	s = pick(4)
	cs = append(cs, LiveCase{N: 4, Silent: []int{s}, Crash: pick(4, s), CrashAt: 2, CrashDelay: r.intn(4) * 60, DownMs: 1500, Target: 7})
	// 7 validators, one silent, one crashing while the other five go on
	s = pick(7)
	cs = append(cs, LiveCase{N: 7, Silent: []int{s}, Crash: pick(7, s), CrashAt: 2, CrashDelay: r.intn(4) * 60, DownHeights: 3, Txs: true, Target: 9})
	// 5 validators, one silent, transactions
	cs = append(cs, LiveCase{N: 5, Silent: []int{pick(5)}, Crash: -1, Txs: true, Target: 7})
	// 7 validators, two silent
	s = pick(7)
	cs = append(cs, LiveCase{N: 7, Silent: []int{s, pick(7, s)}, Crash: -1, Target: 8})
	// another silent slot of 4, with transactions
	cs = append(cs, LiveCase{N: 4, Silent: []int{pick(4, cs[0].Silent[0])}, Crash: -1, Txs: true, Target: 8})
	// everybody runs
	cs = append(cs, LiveCase{N: 4, Silent: []int{}, Crash: -1, Txs: true, Target: 6})
	for len(cs) < n {
		nv := []int{4, 4, 4, 5, 7}[r.intn(5)]
		c := LiveCase{N: nv, Silent: []int{}, Crash: -1, Txs: r.intn(2) == 0}
		maxSilent := (nv - 1) / 3
		ns := r.intn(maxSilent + 1)
		if r.intn(3) > 0 && ns == 0 {
			ns = 1
		}
		for len(c.Silent) < ns {
			c.Silent = append(c.Silent, pick(nv, c.Silent...))
		}
		if r.intn(2) == 0 {
			c.Crash = pick(nv, c.Silent...)
			c.CrashAt = int64(1 + r.intn(4))
			c.CrashDelay = r.intn(6) * 50
			c.DownHeights = int64(1 + r.intn(4))
			c.DownMs = 500 + r.intn(4)*700
		}
		c.Target = int64(nv + 2 + r.intn(3))
		if c.Crash >= 0 && c.Target < c.CrashAt+4 {
			c.Target = c.CrashAt + 4
		}
		cs = append(cs, c)
	}
	cs = cs[:n]
	// every other transaction scenario also re-uses the nonces of still pending transactions
	// (replacement attempts): a transaction that a pool takes, drops and announces anyway is
	// bounced between the nodes for ever (recorded, repaired finding: known_findings.json C19/C12)
	k := 0
	for i := range cs {
		if cs[i].Txs {
			if k%2 == 1 {
				cs[i].SameNonce = true
			}
			k++
		}
	}
	return cs
}

func TestLive(t *testing.T) {
	pl := h.NewPlain(t, "C12", "live")
	var rc LiveCase
	if h.ReplayCase("C12", "live", &rc) {
		pl.Case(rc, func(x *h.Ctx) { runLive(rc, x) })
		return
	}
	if h.Replaying() {
		t.Skip()
	}
	shard, _ := strconv.Atoi(os.Getenv("VERIF_SHARD"))
	shards, _ := strconv.Atoi(os.Getenv("VERIF_SHARDS"))
	if shards <= 0 {
		shards = 1
	}
	seed, _ := strconv.ParseInt(os.Getenv("VERIF_SEED"), 10, 64)
	n, _ := strconv.Atoi(os.Getenv("VERIF_CASES"))
	if n <= 0 {
		n = 8
	}
	deadline, hasDeadline := t.Deadline()
	for i, c := range liveCases(seed, n) {
		if i%shards != shard {
			continue
		}
		if hasDeadline && time.Until(deadline) < liveCaseBudget+60*time.Second {
			h.Note("C12", "live", "shard %d stopped before case %d: the wall budget of the shard is used up", shard, i)
			pl.Case(c, func(x *h.Ctx) { x.Label("inconclusive-slow") })
			continue
		}
		c := c
		if !pl.Case(c, func(x *h.Ctx) { runLive(c, x) }) {
			return
		}
	}
}
