package c12

import (
	"fmt"
	"testing"

	"github.com/dappledger/AnnChain/gemmill/consensus/pbft"
	"github.com/dappledger/AnnChain/gemmill/types"

	"verif/internal/h"
	"verif/internal/sim"
)

// Scripted schedule family "round skip": N equal validators, the Byzantine ones (< 1/3) are
// silent except for nil votes. One honest node V is cut off while the other honest nodes go
// through K rounds without a decision (their prevotes plus the Byzantine nil prevotes are +2/3 of
// anything but no polka; everybody precommits nil). Then V receives the round-K prevotes at once
// and jumps from round 0 to round K in one step. From there on delivery is fair, the Byzantine
// validators are silent, and every honest node - V included - is needed for +2/3: the height must
// still terminate, which requires V to name the same proposers as the others in every later round.
type SkipCase struct {
	N int `json:"n"` // 4 or 7
	V int `json:"v"` // which honest node (index into the honest list) is cut off
	K int `json:"k"` // rounds the others go through before V hears from them (2..4)
	B int `json:"b"` // which validators are Byzantine: rotation of the first f ids
}

func runSkip(c SkipCase, x *h.Ctx) {
	dir, doneDir := sim.TempDir("c12s-")
	defer doneDir()
	N := c.N
	f := (N - 1) / 3
	ps := make([]int64, N)
	byz := make([]bool, N)
	for i := range ps {
		ps[i] = 1
	}
	for i := 0; i < f; i++ {
		byz[(c.B+i)%N] = true
	}
	net := sim.New(sim.Config{Powers: ps, Byz: byz, Dir: dir})
	defer net.Close()
	d := sim.NewDriver(net)
	hs := net.Honest()
	V := hs[c.V%len(hs)]
	var others []*sim.Node
	for _, n := range hs {
		if n != V {
			others = append(others, n)
		}
	}
	var bs []*sim.Node
	for _, n := range net.Nodes {
		if !n.Honest {
			bs = append(bs, n)
		}
	}
	vals := hs[0].RS().Validators
	isVote := func(fl sim.Flight, typ byte, round int64) bool {
		vm, ok := fl.Msg.(*pbft.VoteMessage)
		return ok && vm.Vote.Type == typ && vm.Vote.Round == round
	}
	toOthers := func(fl sim.Flight) bool {
		for _, n := range others {
			if fl.To == n.ID {
				return true
			}
		}
		return false
	}
	dropToV := func() {
		for i := 0; i < len(net.InFlight); {
			if net.InFlight[i].To == V.ID {
				net.Drop(i)
				continue
			}
			i++
		}
	}
	for _, n := range hs {
		fireNewest(net, n) // NewHeight -> round 0
	}
	for r := int64(0); r < int64(c.K); r++ {
		for _, n := range others {
			if rs := n.RS(); rs.Height != 1 || rs.Round != r {
				x.Label("script-derailed")
				return
			}
		}
		// the round's proposer, if it is one of the others, proposes; everybody else times out
		for _, n := range others {
			ownAll(net, n)
		}
		dropToV()
		deliverMatching(net, func(fl sim.Flight) bool {
			switch fl.Msg.(type) {
			case *pbft.ProposalMessage, *pbft.BlockPartMessage:
				return toOthers(fl)
			}
			return false
		})
		for _, n := range others {
			if n.RS().Step == pbft.RoundStepPropose {
				fireNewest(net, n)
			}
			ownAll(net, n) // prevotes
		}
		dropToV()
		for _, b := range bs {
			v := sim.SignVote(b.ID, vals, 1, r, types.VoteTypePrevote, types.BlockID{})
			for _, n := range others {
				net.Send(b.ID, n.ID, &pbft.VoteMessage{Vote: v})
			}
		}
		deliverMatching(net, func(fl sim.Flight) bool { return toOthers(fl) && isVote(fl, types.VoteTypePrevote, r) })
		for _, n := range others {
			if n.RS().Step == pbft.RoundStepPrevoteWait {
				fireNewest(net, n)
			}
			ownAll(net, n) // precommits (nil: no polka)
		}
		dropToV()
		for _, b := range bs {
			v := sim.SignVote(b.ID, vals, 1, r, types.VoteTypePrecommit, types.BlockID{})
			for _, n := range others {
				net.Send(b.ID, n.ID, &pbft.VoteMessage{Vote: v})
			}
		}
		deliverMatching(net, func(fl sim.Flight) bool { return toOthers(fl) && isVote(fl, types.VoteTypePrecommit, r) })
		for _, n := range others {
			if n.RS().Step == pbft.RoundStepPrecommitWait {
				fireNewest(net, n)
			}
		}
	}
	K := int64(c.K)
	for _, n := range others {
		if rs := n.RS(); rs.Height != 1 || rs.Round != K {
			x.Label("script-derailed")
			return
		}
	}
	// round K: the others prevote (whatever they have); V hears of round K for the first time
	for _, n := range others {
		ownAll(net, n)
	}
	deliverMatching(net, func(fl sim.Flight) bool {
		switch fl.Msg.(type) {
		case *pbft.ProposalMessage, *pbft.BlockPartMessage:
			return toOthers(fl)
		}
		return false
	})
	for _, n := range others {
		if n.RS().Step == pbft.RoundStepPropose {
			fireNewest(net, n)
		}
		ownAll(net, n)
	}
	if V.RS().Round != 0 {
		x.Label("script-derailed")
		return
	}
	for _, b := range bs {
		net.Send(b.ID, V.ID, &pbft.VoteMessage{Vote: sim.SignVote(b.ID, vals, 1, K, types.VoteTypePrevote, types.BlockID{})})
	}
	deliverMatching(net, func(fl sim.Flight) bool { return fl.To == V.ID && isVote(fl, types.VoteTypePrevote, K) })
	if rs := V.RS(); rs.Round != K {
		x.Labelf("victim-did-not-skip:round-%d", rs.Round)
		return
	}
	x.Labelf("skipped-rounds:%d", K)
	x.Labelf("validators:%d", N)
	x.NonTrivial()
	// ---- fair from here on, the Byzantine validators stay silent: all honest nodes are needed
	if !d.RunFair(1, 3000) {
		x.Fail("height-does-not-terminate", "node %d jumped from round 0 to round %d in one step (the other honest nodes had gone through %d rounds without a decision); with the Byzantine validators silent every honest vote is needed, and fair delivery no longer finishes the height: victim %s; another node %s",
			V.ID, K, K, sim.Digest(V.RS()), sim.Digest(others[0].RS()))
	}
}

func TestRoundSkip(t *testing.T) {
	pl := h.NewPlain(t, "C12", "roundskip")
	var rc SkipCase
	if h.ReplayCase("C12", "roundskip", &rc) {
		pl.Case(rc, func(x *h.Ctx) { runSkip(rc, x) })
		return
	}
	if h.Replaying() {
		t.Skip()
	}
	for _, n := range []int{4, 7} {
		for v := 0; v < 3; v++ {
			for k := 2; k <= 4; k++ {
				for b := 0; b < 2; b++ {
					c := SkipCase{N: n, V: v, K: k, B: b * 2}
					pl.Case(c, func(x *h.Ctx) { runSkip(c, x) })
				}
			}
		}
	}
	h.SetExhaustive("C12", "roundskip")
	_ = fmt.Sprint
}
