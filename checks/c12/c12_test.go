// C12: liveness — with +2/3 honest and fair delivery every height terminates (bounded surrogate).
package c12

import (
	"bytes"
	"fmt"
	"strings"
	"testing"

	"pgregory.net/rapid"

	"verif/internal/h"
	"verif/internal/sim"
)

func TestMain(m *testing.M) { h.Main(m) }

type Case struct {
	Powers []int64  `json:"powers"`
	Byz    []int    `json:"byz"`
	Repair bool     `json:"repair"` // neutralise known finding proposer-cache-lost-on-reload after restarts
	Ops    []sim.Op `json:"ops"`    // adversarial prefix
	// ViaSwitch: nodes enter consensus (at start and after restarts) through
	// ConsensusReactor.SwitchToConsensus, as nodes with fast_sync enabled do
	ViaSwitch bool `json:"viaSwitch,omitempty"`
}

func seq(n int) []int {
	s := make([]int, n)
	for i := range s {
		s[i] = i
	}
	return s
}

var opKinds = []string{
	"deliver", "deliver", "deliver", "deliver", "deliver", "deliver",
	"own", "own", "own",
	"timeout", "timeout", "timeout",
	"fair", "fair",
	"byzvote", "byzvote", "byzclaim", "byzprop", "split",
	"dup", "drop", "drop", "crashrestart", "crash", "restart", "sync", "stalepolka", "lateproposal", "nilrounds",
}

func genCase(t *rapid.T) Case {
	n := rapid.IntRange(1, 7).Draw(t, "n")
	kind := rapid.IntRange(0, 3).Draw(t, "powerKind")
	ps := make([]int64, n)
	for i := range ps {
		switch kind {
		case 0, 1:
			ps[i] = 1
		case 2:
			ps[i] = rapid.Int64Range(1, 10).Draw(t, "p")
		default:
			ps[i] = rapid.Int64Range(1, 1<<40).Draw(t, "p")
		}
	}
	var total, bp int64
	for _, p := range ps {
		total += p
	}
	var byz []int
	order := rapid.Permutation(seq(n)).Draw(t, "byzOrder")
	want := rapid.IntRange(0, 2).Draw(t, "byzWant")
	for _, i := range order {
		if len(byz) >= want {
			break
		}
		if 3*(bp+ps[i]) < total && len(byz)+1 < n {
			byz = append(byz, i)
			bp += ps[i]
		}
	}
	c := Case{Powers: ps, Byz: byz, Repair: rapid.IntRange(0, 3).Draw(t, "repair") > 0}
	c.Ops = rapid.SliceOfN(rapid.Custom(func(t *rapid.T) sim.Op {
		return sim.Op{K: rapid.SampledFrom(opKinds).Draw(t, "k"), N: rapid.IntRange(0, 63).Draw(t, "n"), A: rapid.IntRange(0, 1023).Draw(t, "a"), B: rapid.IntRange(0, 1023).Draw(t, "b"), C: rapid.IntRange(0, 1023).Draw(t, "c")}
	}), 0, 200).Draw(t, "ops")
	c.ViaSwitch = rapid.IntRange(0, 3).Draw(t, "viaSwitch") == 0
	return c
}

func runCase(c Case, x *h.Ctx) {
	dir, doneDir := sim.TempDir("c12-")
	defer doneDir()
	byz := make([]bool, len(c.Powers))
	for _, i := range c.Byz {
		byz[i] = true
	}
	net := sim.New(sim.Config{Powers: c.Powers, Byz: byz, Dir: dir, RepairProposer: c.Repair, ViaSwitch: c.ViaSwitch})
	defer net.Close()
	d := sim.NewDriver(net)
	fork := ""
	agreed := map[int64][]byte{}
	net.OnCommit = func(n *sim.Node, cm sim.Committed) {
		if prev, ok := agreed[cm.Height]; ok && !bytes.Equal(prev, cm.Hash) && fork == "" {
			fork = fmt.Sprintf("node %d committed %x at height %d, another %x", n.ID, cm.Hash, cm.Height, prev)
		}
		agreed[cm.Height] = cm.Hash
	}
	// did a reloaded node ever disagree with its pre-crash self about the round-0 proposer?
	s20Seen := false
	for _, op := range c.Ops {
		var before map[int][]byte
		if !c.Repair && (op.K == "crashrestart" || op.K == "restart") {
			before = map[int][]byte{}
			for _, n := range net.Honest() {
				if n.Alive {
					before[n.ID] = n.CS.GetState().Validators.Proposer().Address
				}
			}
		}
		restartsBefore := d.Stats.Restarts
		d.Apply(op)
		if before != nil && d.Stats.Restarts > restartsBefore {
			for _, n := range net.Honest() {
				if b, ok := before[n.ID]; ok && n.Alive && n.Restarts > 0 {
					if !bytes.Equal(b, n.CS.GetState().Validators.Proposer().Address) {
						s20Seen = true
					}
				}
			}
		}
	}
	if fork != "" {
		x.Fail("fork", "%s", fork)
		return
	}
	// ---- fair suffix ----
	for _, n := range net.Honest() {
		if !n.Alive {
			net.Restart(n)
			if !c.Repair {
				s20Seen = true // conservatively: a restart happened without the repair
			}
		}
	}
	// previously dropped honest messages are eventually delivered (retransmission by gossip)
	net.InFlight = append(net.InFlight, net.Dropped...)
	net.Dropped = nil
	var target int64
	for _, n := range net.Honest() {
		if hh := n.RS().Height; hh > target {
			target = hh
		}
	}
	nn := len(c.Powers)
	rounds := 2*nn + 8 + 2*d.Stats.Restarts
	bound := rounds * (3*nn*nn + 12*nn + 20)
	reached := d.RunFair(target, bound)
	slow := false
	if !reached {
		// a miss may also come from an incomplete gossip emulation: retry with a 10x bound and gossip
		// after every few steps; only a repeated miss is judged
		for i := 0; i < 10 && !reached; i++ {
			d.Sync()
			net.InFlight = append(net.InFlight, net.Dropped...)
			net.Dropped = nil
			reached = d.RunFair(target, bound)
		}
		slow = reached
	}
	if fork != "" {
		x.Fail("fork", "%s", fork)
		return
	}
	if !reached {
		var sb strings.Builder
		for _, n := range net.Honest() {
			fmt.Fprintf(&sb, "\n node %d (restarts %d, store height %d, own queue %d, pending timeouts %d): %s", n.ID, n.Restarts, n.Store.Height(), len(n.Own), len(n.Ctl.Ticker.Pending()), sim.Digest(n.RS()))
		}
		sig := "height-does-not-terminate"
		// classify the wedge shape from the stuck nodes
		for _, n := range net.Honest() {
			rs := n.RS()
			if n.Store.Height() < target && rs.Step >= 8 && rs.ProposalBlockParts != nil && rs.ProposalBlockParts.IsComplete() && rs.ProposalBlock != nil {
				if id, ok := rs.Votes.Precommits(rs.CommitRound).TwoThirdsMajority(); ok && !rs.ProposalBlock.HashesTo(id.Hash) {
					sig = "commit-step-holds-wrong-complete-block"
				}
			}
		}
		if s20Seen {
			sig = "proposer-cache-lost-on-reload"
		}
		x.Fail(sig, "under fair delivery (bound %d steps, then 10x with continuous gossip) not every honest node committed height %d:%s", bound, target, sb.String())
		return
	}
	st := d.Stats
	x.Labelf("validators:%d", nn)
	if c.ViaSwitch {
		x.Label("entered-via-switch-to-consensus")
	}
	x.Labelf("byz:%d", len(c.Byz))
	x.Labelf("maxround:%d", min64(st.MaxRound, 4))
	if st.NilRounds > 0 {
		x.Label("undecided-rounds-in-prefix")
	}
	if st.StalePolkas > 0 {
		x.Label("stale-polka-attack-in-prefix")
	}
	if st.LateProposals > 0 {
		x.Label("late-proposal-attack-in-prefix")
	}
	if st.Crashes > 0 {
		x.Label("crash")
	}
	if slow {
		x.Label("needed-extended-bound")
	}
	if st.Equivocations > 0 {
		x.Label("equivocation")
	}
	if c.Repair && st.Restarts > 0 {
		x.Label("excluded:proposer-cache-lost-on-reload")
	}
	if st.MaxRound >= 1 || st.Crashes > 0 {
		x.NonTrivial()
	}
}

func min64(a, b int64) int64 {
	if a < b {
		return a
	}
	return b
}

func TestLiveness(t *testing.T) {
	h.Check(t, h.Spec[Case]{Prop: "C12", Leg: "fairsuffix", Gen: genCase, Run: runCase})
}
