// C14 leg "evm": the same administrative requests as real signed EVM transactions.
//
// Two replicas, each = chain/app/evm.EVMApp (own LevelDB, genesis with the admin contract at
// 0x02000000) + plugin.AdminOp + validator set. The precompile callback is wired as
// chain/core/node.go does (vm.DefaultAdminContract.SetCallback(node.ExecAdminTx), which is
// Angine.ExecAdminTx -> AdminOp.ExecTX); because the precompile is a process-wide singleton the
// callback dispatches to the replica that is executing at the moment (replicas run one after
// the other). Per block the harness does what gemmill/state.(*State).ApplyBlock does:
// OnExecute(block) -> AdminOp.EndBlock(copy of the set) -> IncrementAccum(1) -> OnCommit(block).
//
// A request reaches the chain in one of three ways:
//
//	contract  a transaction to the admin contract (what cmd/client does); the contract puts
//	          msg.sender in front of the payload and calls precompile 0xfe;
//	direct    a transaction straight to 0xfe whose input carries 20 "from" bytes chosen by
//	          the submitter;
//	query     the signed transaction is handed to the read-only contract query (RPC "query",
//	          QueryType_Contract) of replica A only; it is never part of a block.
//
// Model: as in leg 1, with "submitting account" = the account that signed the transaction and
// "its nonce" = that account's nonce when the transaction executes. A query changes nothing.
package c14

import (
	"bytes"
	"crypto/sha256"
	"fmt"
	"math/big"
	"os"
	"strings"
	"testing"
	"time"

	"github.com/spf13/viper"
	"pgregory.net/rapid"

	"github.com/dappledger/AnnChain/chain/app/evm"
	rtypes "github.com/dappledger/AnnChain/chain/types"
	"github.com/dappledger/AnnChain/eth/accounts/abi"
	"github.com/dappledger/AnnChain/eth/common"
	"github.com/dappledger/AnnChain/eth/core"
	etypes "github.com/dappledger/AnnChain/eth/core/types"
	"github.com/dappledger/AnnChain/eth/core/vm"
	ecrypto "github.com/dappledger/AnnChain/eth/crypto"
	"github.com/dappledger/AnnChain/eth/rlp"
	crypto "github.com/dappledger/AnnChain/gemmill/go-crypto"
	"github.com/dappledger/AnnChain/gemmill/plugin"
	gtypes "github.com/dappledger/AnnChain/gemmill/types"

	"verif/internal/h"
)

type TxSpec struct {
	Req          ReqSpec `json:"req"`
	Via          string  `json:"via"`                    // contract | direct | query
	Claim        int     `json:"claim"`                  // direct: account named in the "from" bytes
	TxNonceDelta int64   `json:"txnoncedelta,omitempty"` // nonce of the carrying transaction relative to the signer's
	Replay       bool    `json:"replay,omitempty"`       // carry the byte-identical payload of an earlier request instead of Req's
	ReplayOf     int     `json:"replayof,omitempty"`
}

type EvmCase struct {
	Vals   []ValSpec  `json:"vals"`
	Blocks [][]TxSpec `json:"blocks"`
}

func genEvmCase(t *rapid.T) EvmCase {
	c := EvmCase{Vals: genVals(t)}
	nb := rapid.IntRange(1, 4).Draw(t, "nblocks")
	var prev *ReqSpec
	reqs := 0
	for b := 0; b < nb; b++ {
		ntx := rapid.IntRange(0, 4).Draw(t, "ntx")
		var blk []TxSpec
		for i := 0; i < ntx; i++ {
			prev = genReq(t, prev)
			tx := TxSpec{Req: *prev, Via: "contract", Claim: prev.Sender}
			tx.Via = rapid.SampledFrom([]string{"contract", "direct", "contract", "direct", "contract", "query"}).Draw(t, "via")
			if tx.Via == "direct" {
				tx.Claim = rapid.SampledFrom([]int{prev.Sender, prev.Addr, prev.Sender, 0, 1, 2}).Draw(t, "claim")
				if tx.Claim < 0 {
					tx.Claim = prev.Sender
				}
			}
			if rare(t, "txnonce", 12) {
				tx.TxNonceDelta = rapid.SampledFrom([]int64{1, -1, 5}).Draw(t, "txnoncedelta")
			}
			kind := rapid.SampledFrom([]string{"fresh", "fresh", "replay-naming-original", "fresh", "replay", "fresh"}).Draw(t, "kind")
			if reqs > 0 && kind != "fresh" {
				tx.Replay = true
				tx.ReplayOf = rapid.IntRange(0, reqs-1).Draw(t, "replayof")
				tx.Req.Sender = rapid.IntRange(0, nAccts-1).Draw(t, "replaysender")
				if kind == "replay-naming-original" {
					// S18 shape: somebody sends an old payload straight to 0xfe and names the
					// account that submitted it first
					tx.Via = "direct"
					tx.Claim = -1
				}
			} else {
				reqs++
			}
			blk = append(blk, tx)
		}
		c.Blocks = append(c.Blocks, blk)
	}
	return c
}

// ---- replica ---------------------------------------------------------------------------------

type evmReplica struct {
	*replica
	app   *sharedApp
	calls []adminCall // one per invocation of the precompile callback since the last reset
}

// sharedApp is one EVMApp with its databases. Opening one costs ~350 ms, so the two replicas'
// applications live as long as the test process and every case works with accounts that were
// never used before (freshAccounts): the only application state a case can see is the nonce
// of its own accounts, which starts at 0 exactly as in a new application.
type sharedApp struct {
	app    *evm.EVMApp
	dir    string
	height int64 // last block applied
}

var sharedApps [2]*sharedApp

func openSharedApps() error {
	// one signature-checking goroutine per block instead of one per CPU (they poll): the
	// degree of parallelism of the transaction verifier is C05's subject, not this check's
	evm.VerifSetValidateRoutineCount(1)
	for i := range sharedApps {
		if sharedApps[i] != nil {
			continue
		}
		dir, err := os.MkdirTemp("", "c14-evm-")
		if err != nil {
			return err
		}
		conf := viper.New()
		conf.Set("db_dir", dir)
		conf.Set("block_size", 5000)
		app, err := evm.NewEVMApp(conf)
		if err != nil {
			os.RemoveAll(dir)
			return err
		}
		if err := app.Start(); err != nil {
			os.RemoveAll(dir)
			return err
		}
		sharedApps[i] = &sharedApp{app: app, dir: dir}
	}
	return nil
}

func closeSharedApps() {
	for i, sa := range sharedApps {
		if sa != nil {
			sa.app.Stop()
			os.RemoveAll(sa.dir)
			sharedApps[i] = nil
		}
	}
}

var caseCounter int

// freshAccounts replaces the submitting accounts by ones no earlier case of this process used.
func freshAccounts() {
	caseCounter++
	for i := range accts {
		d := sha256.Sum256([]byte(fmt.Sprintf("c14-account-%d-of-case-%d", i, caseCounter)))
		k, err := ecrypto.ToECDSA(d[:])
		if err != nil {
			panic(err)
		}
		accts[i] = account{key: k, addr: ecrypto.PubkeyToAddress(k.PublicKey)}
	}
}

// adminCall records what one invocation of the callback did (instrumentation only).
type adminCall struct {
	from []byte
	data []byte
	obs  *change
	n    int // entries added to the collected list
	err  error
}

// executing is the replica whose EVM runs right now (see file comment).
var executing *evmReplica

func adminCallback(app *vm.AdminDBApp, data []byte) error {
	// chain/core/node.go: Node.ExecAdminTx -> Angine.ExecAdminTx -> (*plugin.AdminOp).ExecTX
	if executing == nil {
		return fmt.Errorf("there is no plugin.AdminOp")
	}
	var a plugin.AdminApp = app
	r := executing
	before := len(r.op.ChangedValidators)
	err := r.op.ExecTX(a, data)
	c := adminCall{from: append([]byte{}, app.From()...), data: append([]byte{}, data...), err: err, n: len(r.op.ChangedValidators) - before}
	if c.n > 0 {
		c.obs = observed(r.op.ChangedValidators[before])
	}
	r.calls = append(r.calls, c)
	return err
}

func newEvmReplica(vals []ValSpec, i int) *evmReplica {
	return &evmReplica{replica: newReplica(initialSet(vals), i), app: sharedApps[i]}
}

func (r *evmReplica) close() { r.rl.Stop() }

var (
	adminABI     abi.ABI
	precompileFE = common.BytesToAddress([]byte{254})
	ethSigner    = etypes.HomesteadSigner{}
)

func init() {
	var err error
	if adminABI, err = abi.JSON(strings.NewReader(core.AdminABI)); err != nil {
		panic(err)
	}
}

// carry wraps an admin payload into a signed transaction of account `sender`.
func carry(via string, sender, claim int, txNonce uint64, payload []byte) []byte {
	var to common.Address
	var data []byte
	switch via {
	case "direct":
		to = precompileFE
		body := append(append([]byte{}, accts[claim].addr.Bytes()...), payload...)
		data = append(common.LeftPadBytes(big.NewInt(int64(len(body))).Bytes(), 32), body...)
	default: // contract, query: exactly what cmd/client adminContractCall builds
		to = core.AdminTo
		var err error
		if data, err = adminABI.Pack(core.AdminMethod, payload); err != nil {
			panic(err)
		}
	}
	tx := etypes.NewTransaction(txNonce, to, big.NewInt(0), 50000000, big.NewInt(0), data)
	signed, err := etypes.SignTx(tx, ethSigner, accts[sender].key)
	if err != nil {
		panic(err)
	}
	raw, err := rlp.EncodeToBytes(signed)
	if err != nil {
		panic(err)
	}
	return raw
}

func makeBlock(height int64, txs [][]byte) *gtypes.Block {
	b := &gtypes.Block{
		Header: &gtypes.Header{
			ChainID:        "c14",
			Height:         height,
			Time:           time.Unix(1500000000+height, 0).UTC(),
			NumTxs:         int64(len(txs)),
			ValidatorsHash: []byte{1},
		},
		Data:       &gtypes.Data{},
		LastCommit: &gtypes.Commit{},
	}
	for _, t := range txs {
		b.Data.Txs = append(b.Data.Txs, gtypes.Tx(t))
	}
	return b
}

// applyBlock = state.ApplyBlock for this replica (the next height of its application).
func (r *evmReplica) applyBlock(txs [][]byte) (res gtypes.ExecuteResult, err error, pv interface{}) {
	height := r.app.height + 1
	blk := makeBlock(height, txs)
	executing = r
	defer func() { executing = nil }()
	func() {
		defer func() { pv = recover() }()
		var out interface{}
		out, err = r.app.app.OnExecute(height, 0, blk)
		if err == nil {
			res = out.(gtypes.ExecuteResult)
		}
	}()
	if err != nil || pv != nil {
		return
	}
	if err, pv = r.endBlock(height); err != nil || pv != nil {
		return
	}
	func() {
		defer func() { pv = recover() }()
		_, err = r.app.app.OnCommit(height, 0, blk)
	}()
	if err == nil && pv == nil {
		r.app.height = height
	}
	return
}

func (r *evmReplica) nonceOf(a int) uint64 {
	res := r.app.app.Query(append([]byte{byte(rtypes.QueryType_Nonce)}, accts[a].addr.Bytes()...))
	var n uint64
	rlp.DecodeBytes(res.Data, &n)
	return n
}

func setString(vs *gtypes.ValidatorSet) string {
	out := "{"
	for _, v := range vs.Validators {
		pk, _ := v.PubKey.(crypto.PubKeyEd25519)
		out += fmt.Sprintf(" K%d:%d", keyIndexOf(pk[:]), v.VotingPower)
	}
	return out + " }"
}

// ---- leg 2 -----------------------------------------------------------------------------------

func runEvmCase(c EvmCase, x *h.Ctx) {
	if len(c.Vals) == 0 {
		return
	}
	if err := openSharedApps(); err != nil {
		panic("harness: " + err.Error())
	}
	freshAccounts()
	A, B := newEvmReplica(c.Vals, 0), newEvmReplica(c.Vals, 1)
	defer A.close()
	defer B.close()
	vm.DefaultAdminContract.SetCallback(adminCallback)
	m := newModel(c.Vals)
	// a node answers contract queries only once it has executed a block
	for _, r := range []*evmReplica{A, B} {
		if r.app.height == 0 {
			if _, err, pv := r.applyBlock(nil); err != nil || pv != nil {
				panic(fmt.Sprintf("harness: empty block failed: %v %v", err, pv))
			}
		}
	}
	height := 1 // number of the case's block, for messages only
	var builts []*built
	nontrivial := false
	nReplay, nDirectOther, nQuery, nCollected, nChanged := 0, 0, 0, 0, 0
	nonceOf := func(a int) uint64 { return m.nonce[a] }

	pick := func(t TxSpec) (*built, int, bool) {
		spec := t.Req
		if !domainOK(&spec) || t.Claim >= nAccts {
			return nil, 0, false
		}
		if t.Replay {
			if len(builts) == 0 {
				return nil, 0, false
			}
			nReplay++
			nontrivial = true
			return builts[((t.ReplayOf%len(builts))+len(builts))%len(builts)], spec.Sender, true
		}
		b := buildReq(spec, m, nonceOf)
		builts = append(builts, b)
		return b, spec.Sender, true
	}

	earlierMsgs = nil
	for _, blk := range c.Blocks {
		// 1. queries: answered by replica A from its committed state, between two blocks
		for ti, t := range blk {
			if t.Via != "query" {
				continue
			}
			b, sender, ok := pick(t)
			if !ok {
				continue
			}
			nQuery++
			what := fmt.Sprintf("before block %d, query %d (signed by acct%d, replay=%v)", height, ti, sender, t.Replay)
			raw := carry("query", sender, sender, m.nonce[sender], b.tx)
			A.calls = nil
			var pv interface{}
			func() {
				defer func() { pv = recover() }()
				executing = A
				defer func() { executing = nil }()
				A.app.app.Query(append([]byte{byte(rtypes.QueryType_Contract)}, raw...))
			}()
			if pv != nil {
				if x.Fail("query-panics", "%s: contract query panicked: %v", what, pv) {
					return
				}
			}
			if n := len(A.op.ChangedValidators); n != 0 {
				// The query left something in replica A's plugin. Show the consequence end to
				// end: the next block (empty, the same on both replicas) is applied by both.
				left := observed(A.op.ChangedValidators[n-1])
				_, errA, pvA := A.applyBlock(nil)
				_, errB, pvB := B.applyBlock(nil)
				height++
				if errA != nil || pvA != nil || errB != nil || pvB != nil || !bytes.Equal(A.vals.Hash(), B.vals.Hash()) {
					x.Fail(sigQuery, "%s: a read-only contract query answered by replica A alone left %v in that replica's collected validator changes; after the next (empty) block replica A holds %s and replica B %s (errors: %v %v %v %v): the validator set changed without any transaction, on one node only",
						what, left, setString(A.vals), setString(B.vals), errA, pvA, errB, pvB)
					return // the replicas are out of step from here on
				}
				x.Label("query-left-a-change-without-effect")
			}
			x.Label("via:query")
		}
		// 2. the block's transactions
		type sent struct {
			desc    string
			v       verdict
			valid   bool // the carrying transaction is executed
			direct  bool
			from    []byte // what the callback must be told
			payload []byte
		}
		var txs [][]byte
		var sents []sent
		for ti, t := range blk {
			if t.Via == "query" {
				continue
			}
			b, sender, ok := pick(t)
			if !ok {
				continue
			}
			claim := sender
			if t.Via == "direct" {
				claim = t.Claim
				if claim < 0 {
					claim = b.sender // the account that submitted this payload first
				}
			}
			what := fmt.Sprintf("block %d tx %d (%s, signed by acct%d, from-bytes acct%d, replay=%v)", height, ti, t.Via, sender, claim, t.Replay)
			txs = append(txs, carry(t.Via, sender, claim, m.nonce[sender]+uint64(t.TxNonceDelta), b.tx))
			if t.TxNonceDelta != 0 {
				x.Label("tx:bad-nonce")
				sents = append(sents, sent{desc: what + " [transaction nonce wrong: not executed]"})
				continue
			}
			pre := m.nonce[sender]
			m.nonce[sender]++
			v := m.judge(b, sender, pre)
			if v.hasDup || v.hasForeign || v.boundary {
				nontrivial = true
			}
			if claim != sender {
				// the submission names another account: whatever the payload says, it is not
				// the submitting account's request
				v.strict, v.lenient, v.why = nil, nil, "from-bytes"
				nDirectOther++
				nontrivial = true
			} else if t.Via == "direct" {
				// No client talks to 0xfe directly; a node that serves the precompile to the
				// admin contract only is as right as one that serves an honest direct call.
				v.strict = nil
			}
			sents = append(sents, sent{valid: true, v: v, direct: t.Via == "direct", from: accts[claim].addr.Bytes(), payload: b.tx, desc: fmt.Sprintf("%s cmd=%q target=K%d(len %d) power=%d signed-addr=%d signed-nonce=%d account-nonce=%d raw=%q entries=%d model=%v/%v(%s)",
				what, b.spec.Cmd, b.spec.Target, b.spec.TargetLen, b.spec.Power, b.addr, b.nonce, pre, b.spec.Raw, len(b.entries), v.strict, v.lenient, v.why)})
			x.Label("via:" + t.Via)
		}
		all := func() string {
			var ds []string
			for _, s := range sents {
				ds = append(ds, s.desc)
			}
			return strings.Join(ds, "\n")
		}
		before := fmt.Sprintf("%v total %d", m.cur, m.total())
		A.calls = nil
		res, errA, pvA := A.applyBlock(txs)
		if pvA != nil {
			x.Fail("block-execution-panics", "block %d: %v\n%s", height, pvA, all())
			return
		}
		// Every executed transaction to the admin contract reaches the callback exactly once,
		// in order. A transaction straight to 0xfe may be turned away before the callback (a
		// node may serve the precompile to the admin contract only).
		var valid []sent
		nContract := 0
		for _, s := range sents {
			if s.valid {
				valid = append(valid, s)
				if !s.direct {
					nContract++
				}
			}
		}
		callOf := make([]*adminCall, len(valid))
		cur := 0
		for i, s := range valid {
			takes := false
			switch {
			case len(A.calls) == len(valid):
				takes = true
			case len(A.calls) == nContract:
				takes = !s.direct
			default:
				takes = cur < len(A.calls) && bytes.Equal(A.calls[cur].from, s.from) && bytes.Equal(A.calls[cur].data, s.payload)
			}
			if takes && cur < len(A.calls) {
				callOf[i] = &A.calls[cur]
				cur++
			}
			if c := callOf[i]; (c == nil && !s.direct) || (c != nil && (!bytes.Equal(c.from, s.from) || !bytes.Equal(c.data, s.payload))) {
				cur = -1
				break
			}
		}
		if cur != len(A.calls) || len(res.InvalidTxs) != len(sents)-len(valid) {
			x.Fail("transactions-executed-differ-from-model", "block %d: %d callback invocations and %d invalid transactions for %d transactions of which the model executes %d (%d through the admin contract); or the callback was handed other from-bytes/payload than were sent\n%s", height, len(A.calls), len(res.InvalidTxs), len(sents), len(valid), nContract, all())
			return
		}
		m.pending = nil
		for i, s := range valid {
			call := adminCall{err: fmt.Errorf("turned away before the callback")}
			if callOf[i] != nil {
				call = *callOf[i]
			}
			obs := call.obs
			detail := fmt.Sprintf("%s; set %s; implementation collected %v (err: %v)", s.desc, before, obs, call.err)
			if call.n > 1 || call.n < 0 {
				x.Fail("request-collected-several-changes", "%s", detail)
				return
			}
			if obs != nil && obs.key < 0 {
				x.Fail("collected-change-for-unknown-key", "%s", detail)
				return
			}
			switch {
			case sameChange(obs, s.v.lenient) || sameChange(obs, s.v.strict):
			case obs != nil && s.v.lenient == nil && s.v.strict == nil:
				sig := unauthorisedSig(s.v)
				if s.v.why == "from-bytes" {
					sig = sigCallerFrom
				}
				if x.Fail(sig, "unauthorised request collected a change. %s", detail) {
					return
				}
			case obs == nil:
				if x.Fail("authorised-request-rejected", "authorised request was not collected. %s", detail) {
					return
				}
			default:
				if x.Fail("collected-change-differs-from-request", "%s", detail) {
					return
				}
			}
			if obs != nil {
				m.pending = append(m.pending, *obs) // (known findings: follow the implementation)
				nCollected++
				x.Label("collected:" + obs.cmd)
			} else {
				x.Label("nothing:" + s.v.why)
			}
		}
		pend := fmt.Sprintf("%v", m.pending)
		removedAbsent := m.endBlock()
		if errA != nil {
			sig := "block-fails"
			if removedAbsent {
				sig = sigRepeatedRemove
			}
			x.Fail(sig, "block %d cannot be applied: %v (collected %s on %s)\n%s", height, errA, pend, before, all())
			return
		}
		_, errB, pvB := B.applyBlock(txs)
		if errB != nil || pvB != nil {
			x.Fail("replicas-diverge", "block %d: replica A applied the block, replica B failed: %v %v", height, errB, pvB)
			return
		}
		if compareSet(x, fmt.Sprintf("replica A after block %d (collected %s on %s)\n%s", height, pend, before, all()), A.vals, m) {
			return
		}
		if compareSet(x, fmt.Sprintf("replica B after block %d (collected %s on %s)\n%s", height, pend, before, all()), B.vals, m) {
			return
		}
		for a := 0; a < nAccts; a++ {
			if na, nb := A.nonceOf(a), B.nonceOf(a); na != m.nonce[a] || nb != m.nonce[a] {
				x.Fail("account-nonce-differs-from-model", "after block %d acct%d has nonce %d / %d on the replicas, model %d\n%s", height, a, na, nb, m.nonce[a], all())
				return
			}
		}
		if fmt.Sprintf("%v total %d", m.cur, m.total()) != before {
			nChanged++
		}
		height++
	}
	x.Labelf("vals:%d", len(c.Vals))
	if nReplay > 0 {
		x.Label("seq:replay")
	}
	if nDirectOther > 0 {
		x.Label("seq:direct-call-naming-another-account")
	}
	if nQuery > 0 {
		x.Label("seq:query")
	}
	if nCollected > 0 {
		x.Label("seq:some-change-collected")
	}
	if nChanged > 0 {
		x.Label("seq:set-changed")
	}
	if nChanged > 1 {
		x.Label("seq:set-changed-twice")
	}
	if nontrivial {
		x.NonTrivial()
	}
}

func TestEvm(t *testing.T) {
	defer closeSharedApps()
	// opened here, not inside the first case: rapid stops a run early when the time left is less
	// than five average iterations, and opening the databases dominates a first iteration
	if err := openSharedApps(); err != nil {
		t.Fatalf("harness: %v", err)
	}
	h.Check(t, h.Spec[EvmCase]{Prop: "C14", Leg: "evm", Gen: genEvmCase, Run: runEvmCase})
}
