// C14: validator-set changes need +2/3 of DISTINCT current validators and apply uniformly.
//
// Model-based property test of the administrative path that changes the validator set:
//
//	client tx -> admin contract 0x02000000 -> precompile 0xfe -> callback (chain/core/node.go)
//	   -> Angine.ExecAdminTx -> plugin.AdminOp.ExecTX (CheckMajor23 + ProcessAdminOP)
//	   -> ... end of block: Angine.EndBlock -> plugin.AdminOp.EndBlock -> updateValidators
//
// Leg "adminop" (this file) drives plugin.AdminOp exactly the way gemmill/angine.go and
// gemmill/state/execution.go do (Init with a **ValidatorSet, ExecTX per request, EndBlock with
// a copy of the current set, IncrementAccum(1)), on two replicas, one of which is re-created
// ("restarted") at some block boundaries. Leg "evm" (c14_evm_test.go) sends the same requests
// as real signed EVM transactions through two EVMApp replicas.
//
// The oracle is a reference model written from the property text:
//   - a request is authorised iff the sum of the powers of the DISTINCT current validators
//     (power > 0) that contributed a valid signature over exactly the command message is
//     strictly more than 2/3 of the total power, the address signed into the command is the
//     submitting account, and the nonce signed into the command is that account's nonce;
//   - requests are evaluated against the validator set at the start of the block (the documented
//     design: changes are collected while the block executes and applied at its end), the
//     collected changes are applied in order at the end of the block;
//   - anything else (under-signed, replayed, wrong sender, wrong nonce, malformed) changes nothing.
//
// Byte strings of the wrong length (public keys, signatures) are not covered by the property
// text. The model therefore accepts both readings whenever they differ: "strict" (a malformed
// entry counts for nothing / a malformed target is rejected) and "lenient" (bytes beyond the
// key/signature size are ignored, which is what the node's fixed-size key types do). In both
// readings every validator is counted once.
package c14

import (
	"bytes"
	"crypto/ecdsa"
	"crypto/sha256"
	"encoding/json"
	"fmt"
	"sort"
	"testing"
	"time"

	"github.com/spf13/viper"
	"go.uber.org/zap"
	"pgregory.net/rapid"

	"github.com/dappledger/AnnChain/eth/common"
	ecrypto "github.com/dappledger/AnnChain/eth/crypto"
	crypto "github.com/dappledger/AnnChain/gemmill/go-crypto"
	glog "github.com/dappledger/AnnChain/gemmill/modules/go-log"
	"github.com/dappledger/AnnChain/gemmill/p2p"
	"github.com/dappledger/AnnChain/gemmill/plugin"
	"github.com/dappledger/AnnChain/gemmill/refuse_list"
	"github.com/dappledger/AnnChain/gemmill/types"

	"verif/internal/h"
)

func TestMain(m *testing.M) {
	glog.SetLog(zap.NewNop())
	crypto.NodeInit(crypto.CryptoTypeZhongAn)
	initUniverse()
	h.Main(m)
}

// ---- root-cause signatures ---------------------------------------------------------------

const (
	// S2: CheckMajor23 adds the signer's power once per list entry.
	sigRepeatedSigner = "tally-counts-repeated-signer"
	// two accepted removals of one validator in one block make EndBlock (and the block) fail.
	sigRepeatedRemove = "endblock-fails-on-second-remove-of-a-validator-in-one-block"
	// S18: the precompile believes the 20 "from" bytes of its input.
	sigCallerFrom = "precompile-trusts-caller-supplied-from"
	// a read-only contract query on one node runs the admin callback of that node.
	sigQuery = "readonly-query-queues-validator-change-on-one-replica"
)

// ---- fixed universe: node keys and accounts ----------------------------------------------

const (
	nKeys  = 10 // ed25519 node keys K0..K9 (validators, candidates, outsiders)
	nAccts = 3  // submitting accounts
)

type nodeKey struct {
	priv crypto.PrivKeyEd25519
	pub  []byte // 32 bytes
	addr []byte // validator address as the node derives it
}

type account struct {
	key  *ecdsa.PrivateKey
	addr common.Address
}

var (
	keys  [nKeys]nodeKey
	accts [nAccts]account
)

func initUniverse() {
	for i := range keys {
		p := crypto.GenPrivKeyEd25519FromSecret([]byte(fmt.Sprintf("c14-node-%d", i)))
		pub := p.PubKey().(crypto.PubKeyEd25519)
		keys[i] = nodeKey{priv: p, pub: append([]byte{}, pub[:]...), addr: pub.Address()}
	}
	for i := range accts {
		d := sha256.Sum256([]byte(fmt.Sprintf("c14-account-%d", i)))
		k, err := ecrypto.ToECDSA(d[:])
		if err != nil {
			panic(err)
		}
		accts[i] = account{key: k, addr: ecrypto.PubkeyToAddress(k.PublicKey)}
	}
}

func keyIndexOf(pub32 []byte) int {
	for i := range keys {
		if bytes.Equal(keys[i].pub, pub32) {
			return i
		}
	}
	return -1
}

// norm32 is what a fixed 32-byte key type makes of arbitrary bytes (lenient reading).
func norm32(b []byte) []byte { return norm(b, 32) }

func norm(b []byte, n int) []byte {
	out := make([]byte, n)
	copy(out, b)
	return out
}

// ---- case ---------------------------------------------------------------------------------

type ValSpec struct {
	Key   int   `json:"key"`
	Power int64 `json:"power"`
	CA    bool  `json:"ca,omitempty"`
}

// SigSpec describes one entry of the signature list.
type SigSpec struct {
	Key    int    `json:"key"`           // whose key signs (any of K0..K9: validator, zero-power validator, outsider)
	Msg    string `json:"msg,omitempty"` // "" = exactly the command message | "power" = the same command with another power | "empty"
	PubLen int    `json:"publen"`        // bytes of public key sent (32 = well formed; shorter = truncated; longer = padded with 0xAA)
	SigLen int    `json:"siglen"`        // bytes of signature sent (64 = well formed)
	Flip   bool   `json:"flip,omitempty"`
}

type ReqSpec struct {
	Cmd        string    `json:"cmd"`               // add_peer | update_node | remove_node | bogus
	CmdType    string    `json:"cmdtype,omitempty"` // "" = changeValidator
	Target     int       `json:"target"`
	TargetLen  int       `json:"targetlen"` // 32 = well formed
	Power      int64     `json:"power"`
	Sender     int       `json:"sender"`     // submitting account
	Addr       int       `json:"addr"`       // account signed into the command; -1 = bytes that are no account
	NonceDelta int64     `json:"noncedelta"` // nonce signed into the command = current nonce of account Addr (Sender if Addr<0) + delta
	Self       string    `json:"self,omitempty"`
	Quorum     string    `json:"quorum,omitempty"` // "" | all | allbutone | heaviest-repeated   (expanded against the current set)
	Repeat     int       `json:"repeat,omitempty"`
	Sigs       []SigSpec `json:"sigs,omitempty"`
	Raw        string    `json:"raw,omitempty"` // "" | trunc | empty | null | garbage | notag
}

type Op struct {
	Kind    string   `json:"kind"` // req | replay | end
	Req     *ReqSpec `json:"req,omitempty"`
	Of      int      `json:"of,omitempty"`      // replay: which earlier request (modulo the number built so far)
	Sender  int      `json:"sender,omitempty"`  // replay: submitting account, -1 = the original one
	Restart bool     `json:"restart,omitempty"` // end: replica B is re-created from its validator set afterwards
	Env     bool     `json:"env,omitempty"`     // replay: the fields of the envelope that no signature covers are rewritten (nonce := the submitter's current nonce, time moved)
}

type AdminCase struct {
	Vals []ValSpec `json:"vals"`
	Ops  []Op      `json:"ops"`
}

// ---- generators ---------------------------------------------------------------------------

func genPower(t *rapid.T, label string) int64 {
	return rapid.OneOf(
		rapid.Int64Range(0, 3),
		rapid.Int64Range(1, 10),
		rapid.Int64Range(0, 100),
		rapid.SampledFrom([]int64{0, 1, 2, 3, 10, 33, 34, 66, 67, 100, 1000, 1 << 20, 1 << 40}),
	).Draw(t, label)
}

func genVals(t *rapid.T) []ValSpec {
	n := rapid.IntRange(1, 7).Draw(t, "nvals")
	perm := rapid.Permutation([]int{0, 1, 2, 3, 4, 5, 6, 7}).Draw(t, "valkeys")[:n]
	mode := rapid.SampledFrom([]string{"equal", "random", "random", "skewed", "withzero"}).Draw(t, "powermode")
	eq := rapid.SampledFrom([]int64{1, 1, 10, 100}).Draw(t, "equalpower")
	var out []ValSpec
	for i, k := range perm {
		v := ValSpec{Key: k, CA: rapid.Bool().Draw(t, "ca")}
		switch mode {
		case "equal":
			v.Power = eq
		case "random":
			v.Power = genPower(t, "power")
		case "skewed":
			if i == 0 {
				v.Power = rapid.SampledFrom([]int64{50, 67, 100, 1000, 1 << 20, 1 << 40}).Draw(t, "bigpower")
			} else {
				v.Power = rapid.Int64Range(0, 40).Draw(t, "smallpower")
			}
		case "withzero":
			if rapid.IntRange(0, 2).Draw(t, "zero") == 0 {
				v.Power = 0
			} else {
				v.Power = rapid.Int64Range(1, 10).Draw(t, "power")
			}
		}
		out = append(out, v)
	}
	return out
}

// NOTE on weights: rapid draws small values / early list positions more often than late
// ones, so the ordinary choice always comes first and the special shapes last.
func genSig(t *rapid.T) SigSpec {
	s := SigSpec{Key: rapid.IntRange(0, nKeys-1).Draw(t, "sigkey"), PubLen: 32, SigLen: 64}
	switch rapid.SampledFrom([]string{"ok", "ok", "ok", "ok", "ok", "ok", "ok", "ok", "othermsg", "earliermsg", "emptymsg", "pubshort", "publong", "sigshort", "siglong", "flip"}).Draw(t, "sigshape") {
	case "othermsg":
		s.Msg = "power"
	case "emptymsg":
		s.Msg = "empty"
	case "earliermsg":
		s.Msg = "earlier"
	case "pubshort":
		s.PubLen = rapid.SampledFrom([]int{31, 0, 1}).Draw(t, "publen")
	case "publong":
		s.PubLen = rapid.SampledFrom([]int{33, 40, 64}).Draw(t, "publen")
	case "sigshort":
		s.SigLen = rapid.SampledFrom([]int{63, 32, 0}).Draw(t, "siglen")
	case "siglong":
		s.SigLen = rapid.SampledFrom([]int{65, 96, 128}).Draw(t, "siglen")
	case "flip":
		s.Flip = true
	}
	return s
}

func rare(t *rapid.T, label string, oneIn int) bool {
	return rapid.IntRange(0, oneIn-1).Draw(t, label) == oneIn-1
}

func genReq(t *rapid.T, prev *ReqSpec) *ReqSpec {
	if prev != nil && rare(t, "again", 7) {
		// the same command issued again as a NEW request (fresh nonce, fresh signatures)
		cp := *prev
		cp.Sigs = append([]SigSpec{}, prev.Sigs...)
		cp.NonceDelta = 0
		cp.Raw = ""
		cp.Sender = rapid.IntRange(0, nAccts-1).Draw(t, "sender")
		cp.Addr = cp.Sender
		return &cp
	}
	r := &ReqSpec{TargetLen: 32}
	r.Cmd = rapid.SampledFrom([]string{"update_node", "remove_node", "add_peer", "update_node", "add_peer", "remove_node", "update_node", "add_peer", "bogus", ""}).Draw(t, "cmd")
	if rare(t, "cmdtype", 40) {
		r.CmdType = "somethingElse"
	}
	r.Target = rapid.IntRange(0, nKeys-1).Draw(t, "target")
	if rare(t, "targetshape", 20) {
		r.TargetLen = rapid.SampledFrom([]int{33, 48, 31, 0}).Draw(t, "targetlen")
		if r.Cmd == "add_peer" && r.TargetLen < 32 {
			r.TargetLen = 33 // see domainOK
		}
	}
	r.Power = genPower(t, "newpower")
	r.Sender = rapid.IntRange(0, nAccts-1).Draw(t, "sender")
	r.Addr = r.Sender
	switch rapid.SampledFrom([]string{"own", "own", "own", "own", "own", "own", "own", "own", "own", "own", "own", "own", "other", "none"}).Draw(t, "addrshape") {
	case "other":
		r.Addr = rapid.IntRange(0, nAccts-1).Draw(t, "addr")
	case "none":
		r.Addr = -1
	}
	r.NonceDelta = rapid.SampledFrom([]int64{0, 0, 0, 0, 0, 0, 0, 0, 0, -1, 1, 2, -2, 1 << 32}).Draw(t, "noncedelta")
	if r.Cmd == "add_peer" {
		r.Self = rapid.SampledFrom([]string{"", "", "", "", "", "", "", "", "none", "wrongmsg", "otherkey"}).Draw(t, "self")
	}
	r.Quorum = rapid.SampledFrom([]string{"all", "", "all", "allbutone", "", "heaviest-repeated", "all", "all-earlier"}).Draw(t, "quorum")
	if r.Quorum == "heaviest-repeated" {
		r.Repeat = rapid.IntRange(2, 6).Draw(t, "repeat")
	}
	maxNoise := 9
	if r.Quorum != "" {
		maxNoise = 3
	}
	n := rapid.IntRange(0, maxNoise).Draw(t, "nsigs")
	for i := 0; i < n; i++ {
		if len(r.Sigs) > 0 && rare(t, "dup", 4) {
			r.Sigs = append(r.Sigs, r.Sigs[rapid.IntRange(0, len(r.Sigs)-1).Draw(t, "dupof")]) // the same entry repeated
			continue
		}
		r.Sigs = append(r.Sigs, genSig(t))
	}
	if rare(t, "rawshape", 30) {
		r.Raw = rapid.SampledFrom([]string{"trunc", "empty", "null", "garbage", "notag"}).Draw(t, "raw")
	}
	return r
}

func genAdminCase(t *rapid.T) AdminCase {
	c := AdminCase{Vals: genVals(t)}
	n := rapid.IntRange(1, 12).Draw(t, "nops")
	var prev *ReqSpec
	reqs := 0
	for i := 0; i < n; i++ {
		k := rapid.SampledFrom([]string{"req", "end", "req", "replay", "req", "end", "req", "replay"}).Draw(t, "opkind")
		if reqs == 0 {
			k = "req"
		}
		switch k {
		case "req":
			prev = genReq(t, prev)
			c.Ops = append(c.Ops, Op{Kind: "req", Req: prev})
			reqs++
		case "replay":
			c.Ops = append(c.Ops, Op{Kind: "replay", Of: rapid.IntRange(0, reqs-1).Draw(t, "of"), Sender: rapid.IntRange(-1, nAccts-1).Draw(t, "replaysender"), Env: rapid.IntRange(0, 2).Draw(t, "env") == 0})
		default:
			c.Ops = append(c.Ops, Op{Kind: "end", Restart: rapid.IntRange(0, 2).Draw(t, "restart") == 0})
		}
	}
	return c
}

// ---- reference model ----------------------------------------------------------------------

type mval struct {
	power int64
	ca    bool
}

// change is one collected validator-set change.
type change struct {
	cmd   string // add_peer | update_node | remove_node
	key   int
	power int64
}

func (c *change) String() string {
	if c == nil {
		return "nothing"
	}
	return fmt.Sprintf("%s(K%d,power=%d)", c.cmd, c.key, c.power)
}

func sameChange(a, b *change) bool {
	if a == nil || b == nil {
		return a == nil && b == nil
	}
	return *a == *b
}

type model struct {
	cur     map[int]mval // validator set at the start of the current block
	pending []change
	nonce   [nAccts]uint64
}

func newModel(vals []ValSpec) *model {
	m := &model{cur: map[int]mval{}}
	for _, v := range vals {
		m.cur[v.Key] = mval{v.Power, v.CA}
	}
	return m
}

func (m *model) total() int64 {
	var s int64
	for _, v := range m.cur {
		s += v.power
	}
	return s
}

// positive returns the keys of the current validators with power > 0, heaviest first
// (ties by key index).
func (m *model) positive() []int {
	var ks []int
	for k, v := range m.cur {
		if v.power > 0 {
			ks = append(ks, k)
		}
	}
	sort.Slice(ks, func(i, j int) bool {
		if m.cur[ks[i]].power != m.cur[ks[j]].power {
			return m.cur[ks[i]].power > m.cur[ks[j]].power
		}
		return ks[i] < ks[j]
	})
	return ks
}

// more23 is "strictly more than two thirds" without rounding (powers are < 2^41).
func more23(sum, total int64) bool { return 3*sum > 2*total }

// endBlock applies the collected changes in order. remove of an absent validator is a no-op,
// add/update set the power (inserting the validator when absent).
func (m *model) endBlock() (removedAbsent bool) {
	for _, ch := range m.pending {
		switch ch.cmd {
		case "remove_node":
			if _, ok := m.cur[ch.key]; !ok {
				removedAbsent = true
			}
			delete(m.cur, ch.key)
		default:
			if old, ok := m.cur[ch.key]; !ok || old.power != ch.power {
				m.cur[ch.key] = mval{ch.power, ch.power > 0}
			}
		}
	}
	m.pending = nil
	return
}

// ---- building a request -------------------------------------------------------------------

type builtEntry struct {
	key             int
	strict, lenient bool // valid signature of keys[key] over exactly the message, under the two readings
}

type built struct {
	spec     ReqSpec
	tx       []byte // what the client hands to the admin contract: "zaop" + JSON
	entries  []builtEntry
	addr     int    // account signed into the command (-1 none)
	nonce    uint64 // nonce signed into the command
	sender   int    // account that submitted it first
	selfOK      bool
	targetKnown bool
	nEntries    int
	cmd         types.AdminOPCmd // the envelope as sent (for resubmissions with rewritten unsigned fields)
}

var fixedTime = time.Unix(1500000000, 0).UTC()

func fit(b []byte, n int, pad byte) []byte {
	if n <= len(b) {
		return append([]byte{}, b[:n]...)
	}
	out := append([]byte{}, b...)
	for len(out) < n {
		out = append(out, pad)
	}
	return out
}

func signBytes(k int, msg []byte) []byte {
	s := keys[k].priv.Sign(msg).(crypto.SignatureEd25519)
	return append([]byte{}, s[:]...)
}

// earlierMsgs holds the command messages of the requests built so far in the running case (reset
// by the legs at the start of a case): a signature entry of shape "earlier" is a genuine
// signature of its key over the message of an EARLIER request - what anybody can copy out of a
// request that was on the chain.
var earlierMsgs [][]byte

// buildReq turns a spec into client bytes. curNonce(acct) is the account's nonce now.
func buildReq(spec ReqSpec, m *model, nonceOf func(int) uint64) *built {
	b := &built{spec: spec, addr: spec.Addr, sender: spec.Sender}
	base := spec.Addr
	if base < 0 {
		base = spec.Sender
	}
	b.nonce = nonceOf(base) + uint64(spec.NonceDelta)
	attr := types.ValidatorAttr{
		PubKey: fit(keys[spec.Target].pub, spec.TargetLen, 0xBB),
		Power:  spec.Power,
		Cmd:    types.ValidatorCmd(spec.Cmd),
		Nonce:  b.nonce,
	}
	if spec.Addr >= 0 {
		attr.Addr = accts[spec.Addr].addr.Bytes()
	} else {
		attr.Addr = bytes.Repeat([]byte{0x77}, 20)
	}
	b.targetKnown = bytes.Equal(norm32(attr.PubKey), keys[spec.Target].pub)
	msg, _ := json.Marshal(&attr)
	other := attr
	other.Power = spec.Power + 1
	msgOther, _ := json.Marshal(&other)

	var specs []SigSpec
	pos := m.positive()
	switch spec.Quorum {
	case "all":
		for _, k := range pos {
			specs = append(specs, SigSpec{Key: k, PubLen: 32, SigLen: 64})
		}
	case "allbutone":
		for i, k := range pos {
			if i == len(pos)-1 {
				break // the lightest one does not sign
			}
			specs = append(specs, SigSpec{Key: k, PubLen: 32, SigLen: 64})
		}
	case "all-earlier":
		for _, k := range pos {
			specs = append(specs, SigSpec{Key: k, Msg: "earlier", PubLen: 32, SigLen: 64})
		}
	case "heaviest-repeated":
		if len(pos) > 0 {
			for i := 0; i < spec.Repeat; i++ {
				specs = append(specs, SigSpec{Key: pos[0], PubLen: 32, SigLen: 64})
			}
		}
	}
	specs = append(specs, spec.Sigs...)

	cmd := types.AdminOPCmd{CmdType: types.AdminOpChangeValidator, Msg: msg, Time: fixedTime}
	if spec.CmdType != "" {
		cmd.CmdType = spec.CmdType
	}
	for _, s := range specs {
		signed := msg
		switch s.Msg {
		case "power":
			signed = msgOther
		case "empty":
			signed = []byte{}
		case "earlier":
			signed = msgOther
			if len(earlierMsgs) > 0 {
				signed = earlierMsgs[len(earlierMsgs)-1]
			}
		}
		sig := signBytes(s.Key, signed)
		if s.Flip {
			sig[5] ^= 1
		}
		sentPub, sentSig := fit(keys[s.Key].pub, s.PubLen, 0xAA), fit(sig, s.SigLen, 0xEE)
		// Valid by construction: the bytes sent are (strict) / normalise to (lenient: cut or
		// zero-filled to the fixed size, e.g. a 63-byte signature whose dropped byte was 0)
		// the signer's key and its genuine signature over exactly the command message.
		// Anything else is taken to be invalid (unforgeability of ed25519 for honest keys).
		genuine := signBytes(s.Key, msg)
		e := builtEntry{key: s.Key}
		e.lenient = bytes.Equal(norm(sentPub, 32), keys[s.Key].pub) && bytes.Equal(norm(sentSig, 64), genuine)
		e.strict = e.lenient && len(sentPub) == 32 && len(sentSig) == 64
		b.entries = append(b.entries, e)
		cmd.SInfos = append(cmd.SInfos, types.SigInfo{PubKey: sentPub, Signature: sentSig})
	}
	b.nEntries = len(specs)
	earlierMsgs = append(earlierMsgs, msg)
	if spec.Cmd == "add_peer" {
		switch spec.Self {
		case "":
			cmd.SelfSign = signBytes(spec.Target, msg)
			b.selfOK = b.targetKnown // otherwise the target is not the key that signed
		case "wrongmsg":
			cmd.SelfSign = signBytes(spec.Target, msgOther)
		case "otherkey":
			cmd.SelfSign = signBytes((spec.Target+1)%nKeys, msg)
		}
	}
	b.cmd = cmd
	js, _ := json.Marshal(&cmd)
	switch spec.Raw {
	case "trunc":
		js = js[:len(js)/2]
	case "empty":
		js = nil
	case "null":
		js = []byte("null")
	case "garbage":
		js = []byte{0xff, 0x00, '{', '"', 0x80}
	}
	if spec.Raw == "notag" {
		b.tx = js
	} else {
		b.tx = types.TagAdminOPTx(js)
	}
	return b
}

// ---- the model's verdict on one submission --------------------------------------------------

type verdict struct {
	strict, lenient *change // what must be collected under the two readings (nil = nothing)
	why             string  // first reason for "nothing" under the lenient reading (labels / signatures)
	naiveTally      bool    // an entry-by-entry tally WITHOUT de-duplication would pass (root cause S2)
	distinctTally   bool    // lenient distinct tally passes
	hasDup          bool
	hasForeign      bool
	hasZeroPower    bool
	hasWrongMsg     bool
	hasMalformed    bool
	boundary        bool // one validator more or less flips the tally
}

// judge evaluates a built request submitted by account `sender` whose nonce before the
// submission is `pre`.
func (m *model) judge(b *built, sender int, pre uint64) verdict {
	var v verdict
	total := m.total()
	tally := func(lenient bool) (sum int64, signers map[int]bool) {
		signers = map[int]bool{}
		for _, e := range b.entries {
			ok := e.strict
			if lenient {
				ok = e.lenient
			}
			if !ok {
				continue
			}
			if mv, in := m.cur[e.key]; in && mv.power > 0 && !signers[e.key] {
				signers[e.key] = true
				sum += mv.power
			}
		}
		return
	}
	sumS, _ := tally(false)
	sumL, signersL := tally(true)
	var naive int64
	seen := map[int]int{}
	for i, e := range b.entries {
		s := b.specOf(i)
		if mv, in := m.cur[e.key]; !in {
			v.hasForeign = true
		} else if mv.power == 0 {
			v.hasZeroPower = true
		}
		if s.Msg != "" || s.Flip {
			v.hasWrongMsg = true
		}
		if s.PubLen != 32 || s.SigLen != 64 {
			v.hasMalformed = true
		}
		if e.lenient {
			if mv, in := m.cur[e.key]; in && mv.power > 0 {
				naive += mv.power
				seen[e.key]++
				if seen[e.key] > 1 {
					v.hasDup = true
				}
			}
		}
	}
	v.naiveTally = more23(naive, total)
	v.distinctTally = more23(sumL, total)
	for k, mv := range m.cur {
		if mv.power <= 0 {
			continue
		}
		alt := sumL + mv.power
		if signersL[k] {
			alt = sumL - mv.power
		}
		if more23(alt, total) != v.distinctTally {
			v.boundary = true
		}
	}
	spec := b.spec
	effect := func(sigOK, lenientTarget bool) (*change, string) {
		switch {
		case spec.Raw != "":
			return nil, "malformed"
		case !sigOK:
			return nil, "signatures"
		case spec.CmdType != "":
			return nil, "cmdtype"
		case b.addr != sender:
			return nil, "sender"
		case b.nonce != pre:
			return nil, "nonce"
		}
		// identity of the target
		target := spec.Target
		if spec.TargetLen != 32 && !lenientTarget {
			return nil, "target-malformed"
		}
		known := b.targetKnown // the bytes sent normalise to the key of K<target>
		cur, in := m.cur[target]
		if !known {
			in = false // bytes that are nobody's key
		}
		switch spec.Cmd {
		case "add_peer":
			if !known || !b.selfOK {
				return nil, "selfsign"
			}
			if in {
				return nil, "noop"
			}
			return &change{"add_peer", target, spec.Power}, ""
		case "update_node":
			if !in {
				return nil, "not-a-member"
			}
			if cur.power == spec.Power {
				return nil, "noop"
			}
			return &change{"update_node", target, spec.Power}, ""
		case "remove_node":
			if !in {
				return nil, "noop"
			}
			return &change{"remove_node", target, spec.Power}, ""
		}
		return nil, "unknown-command"
	}
	v.strict, _ = effect(more23(sumS, total), false)
	v.lenient, v.why = effect(v.distinctTally, true)
	return v
}

// specOf returns the SigSpec that produced entry i (quorum expansion entries are well formed).
func (b *built) specOf(i int) SigSpec {
	q := b.nEntries - len(b.spec.Sigs)
	if i < q {
		sp := SigSpec{Key: b.entries[i].key, PubLen: 32, SigLen: 64}
		if b.spec.Quorum == "all-earlier" {
			sp.Msg = "earlier"
		}
		return sp
	}
	return b.spec.Sigs[i-q]
}

// unauthorisedSig names the root cause when the implementation collected a change that the
// model forbids under both readings.
func unauthorisedSig(v verdict) string {
	switch v.why {
	case "signatures":
		if v.naiveTally {
			return sigRepeatedSigner
		}
		return "under-signed-request-accepted"
	case "sender":
		return "request-of-another-account-accepted"
	case "nonce":
		return "wrong-nonce-request-accepted"
	case "malformed":
		return "malformed-request-accepted"
	case "noop":
		return "no-op-request-collected-a-change"
	}
	return "invalid-request-accepted:" + v.why
}

// ---- one replica of the code under test ----------------------------------------------------

type simApp struct {
	from  []byte
	nonce uint64
}

func (a *simApp) GetNonce() uint64 { return a.nonce }
func (a *simApp) From() []byte     { return a.from }

type replica struct {
	vals *types.ValidatorSet // what gemmill/state.State.Validators is; the plugin holds &vals
	op   *plugin.AdminOp
	own  int
	sw   *p2p.Switch
	rl   *refuse_list.RefuseList
}

// newReplica makes the node that owns node key K<own> (replicas are different nodes).
func newReplica(vs *types.ValidatorSet, own int) *replica {
	r := &replica{vals: vs, own: own}
	r.sw = p2p.NewSwitch(viper.New())
	r.rl = refuse_list.NewRefuseList("memdb", "")
	r.boot()
	return r
}

// boot is what Angine.InitPlugins does for "adminOp".
func (r *replica) boot() {
	r.op = &plugin.AdminOp{}
	r.op.Init(&plugin.InitParams{Switch: r.sw, PrivKey: keys[r.own].priv, RefuseList: r.rl, Validators: &r.vals})
}

func initialSet(vals []ValSpec) *types.ValidatorSet {
	var vs []*types.Validator
	for _, v := range vals {
		vs = append(vs, types.NewValidator(crypto.PubKeyEd25519(*(*[32]byte)(keys[v.Key].pub)), v.Power, v.CA))
	}
	return types.NewValidatorSet(vs)
}

// exec submits one request the way Angine.ExecAdminTx does and reports what was collected.
func (r *replica) exec(app plugin.AdminApp, tx []byte) (collected *types.ValidatorAttr, extra int, err error, pv interface{}) {
	before := len(r.op.ChangedValidators)
	func() {
		defer func() { pv = recover() }()
		err = r.op.ExecTX(app, tx)
	}()
	after := len(r.op.ChangedValidators)
	if after > before {
		collected = r.op.ChangedValidators[before]
		extra = after - before - 1
	}
	if after < before {
		extra = after - before
	}
	return
}

// endBlock is gemmill/state.(*State).ExecBlock around Angine.EndBlock.
func (r *replica) endBlock(height int64) (err error, pv interface{}) {
	next := r.vals.Copy()
	func() {
		defer func() { pv = recover() }()
		_, err = r.op.EndBlock(&plugin.EndBlockParams{
			Block:             &types.Block{Header: &types.Header{Height: height}, Data: &types.Data{}, LastCommit: &types.Commit{}},
			ChangedValidators: make([]*types.ValidatorAttr, 0),
			NextValidatorSet:  next,
		})
	}()
	if err != nil || pv != nil {
		return
	}
	if next.Size() > 0 {
		func() {
			defer func() { pv = recover() }()
			next.IncrementAccum(1)
		}()
	}
	r.vals = next // SetBlockAndValidators
	return
}

func observed(a *types.ValidatorAttr) *change {
	if a == nil {
		return nil
	}
	return &change{string(a.Cmd), keyIndexOf(norm32(a.PubKey)), a.Power}
}

// compareSet checks membership, powers, CA flag, order, total and hash against the model.
func compareSet(x *h.Ctx, where string, vs *types.ValidatorSet, m *model) bool {
	type row struct {
		key int
		mv  mval
	}
	var want []row
	for k, mv := range m.cur {
		want = append(want, row{k, mv})
	}
	sort.Slice(want, func(i, j int) bool { return bytes.Compare(keys[want[i].key].addr, keys[want[j].key].addr) < 0 })
	desc := func() string {
		s := "model{"
		for _, w := range want {
			s += fmt.Sprintf(" K%d:%d", w.key, w.mv.power)
		}
		s += " } implementation{"
		for _, v := range vs.Validators {
			pk, _ := v.PubKey.(crypto.PubKeyEd25519)
			s += fmt.Sprintf(" K%d:%d", keyIndexOf(pk[:]), v.VotingPower)
		}
		return s + " }"
	}
	if len(vs.Validators) != len(want) {
		return x.Fail("validator-set-differs-from-model", "%s: %s", where, desc())
	}
	ref := make([]*types.Validator, len(want))
	for i, w := range want {
		v := vs.Validators[i]
		pk, ok := v.PubKey.(crypto.PubKeyEd25519)
		if !ok || !bytes.Equal(pk[:], keys[w.key].pub) || !bytes.Equal(v.Address, keys[w.key].addr) || v.VotingPower != w.mv.power {
			return x.Fail("validator-set-differs-from-model", "%s: position %d: %s", where, i, desc())
		}
		if v.IsCA != w.mv.ca {
			return x.Fail("validator-ca-flag-differs-from-model", "%s: K%d IsCA=%v, model %v", where, w.key, v.IsCA, w.mv.ca)
		}
		ref[i] = &types.Validator{Address: keys[w.key].addr, PubKey: pk, VotingPower: w.mv.power, Accum: v.Accum, IsCA: w.mv.ca}
	}
	if got, wantT := vs.TotalVotingPower(), m.total(); got != wantT {
		return x.Fail("total-voting-power-stale", "%s: TotalVotingPower()=%d, members sum to %d", where, got, wantT)
	}
	if !bytes.Equal(vs.Hash(), (&types.ValidatorSet{Validators: ref}).Hash()) {
		return x.Fail("validator-set-hash-differs-from-model", "%s: hash differs though members agree", where)
	}
	return false
}

// domainOK excludes one shape: add_peer of a TRUNCATED target key. The node zero-pads it to a
// key nobody owns; whether the mandatory self-signature "verifies" for such bytes is a matter of
// ed25519 small-order points (the all-zero key accepts the all-zero signature for one message
// in four), not of this property, and the model cannot know the answer by construction.
func domainOK(r *ReqSpec) bool {
	if r == nil || r.Target < 0 || r.Target >= nKeys || r.Sender < 0 || r.Sender >= nAccts || r.Addr >= nAccts {
		return false
	}
	return !(r.Cmd == "add_peer" && r.TargetLen < 32)
}

// ---- leg 1 ---------------------------------------------------------------------------------

func runAdminCase(c AdminCase, x *h.Ctx) {
	if len(c.Vals) == 0 {
		return
	}
	m := newModel(c.Vals)
	A := newReplica(initialSet(c.Vals), 0)
	B := newReplica(initialSet(c.Vals), 1)
	defer A.rl.Stop()
	defer B.rl.Stop()
	if compareSet(x, "genesis", A.vals, m) {
		return
	}
	var builts []*built
	height := int64(1)
	nReplay, nAccepted, nChanged, nBlocks, nRestart := 0, 0, 0, 0, 0
	nontrivial := false
	startHash := A.vals.Hash()

	submit := func(b *built, sender int, what string) bool {
		pre := m.nonce[sender]
		m.nonce[sender]++ // the carrying transaction consumes the sender's nonce whatever the outcome
		v := m.judge(b, sender, pre)
		if v.hasDup || v.hasForeign || v.boundary {
			nontrivial = true
		}
		// mempool filter of the plugin (never decides anything here, must not panic)
		func() {
			defer func() {
				if pv := recover(); pv != nil {
					x.Fail("checktx-panics", "%s: AdminOp.CheckTx panicked: %v", what, pv)
				}
			}()
			A.op.CheckTx(b.tx)
		}()
		if x.Failed() {
			return true
		}
		app := &simApp{from: accts[sender].addr.Bytes(), nonce: pre + 1}
		gotA, extraA, errA, pvA := A.exec(app, b.tx)
		gotB, extraB, errB, pvB := B.exec(&simApp{from: app.from, nonce: app.nonce}, b.tx)
		if pvA != nil || pvB != nil {
			return x.Fail("exectx-panics:"+b.spec.Raw+":"+b.spec.Cmd, "%s: AdminOp.ExecTX panicked: %v %v", what, pvA, pvB)
		}
		obs := observed(gotA)
		if obs != nil && obs.key < 0 {
			return x.Fail("collected-change-for-unknown-key", "%s: a change for public key %x, which is none of the keys in play, was collected", what, gotA.PubKey)
		}
		if !sameChange(obs, observed(gotB)) || (errA == nil) != (errB == nil) {
			return x.Fail("replicas-disagree-on-request", "%s: replica A collected %v (err %v), replica B %v (err %v)", what, obs, errA, observed(gotB), errB)
		}
		if extraA != 0 || extraB != 0 {
			return x.Fail("request-collected-several-changes", "%s: one request changed the collected list by %d entries", what, extraA+1)
		}
		if !bytes.Equal(A.vals.Hash(), startHash) {
			return x.Fail("validator-set-changed-before-end-of-block", "%s: the current validator set changed while the block executes", what)
		}
		detail := fmt.Sprintf("%s: cmd=%q target=K%d(len %d) power=%d sender=acct%d signed-addr=%d signed-nonce=%d account-nonce=%d raw=%q entries=%d; set %v total %d; implementation collected %v (err: %v); model strict=%v lenient=%v (%s)",
			what, b.spec.Cmd, b.spec.Target, b.spec.TargetLen, b.spec.Power, sender, b.addr, b.nonce, pre, b.spec.Raw, len(b.entries), m.cur, m.total(), obs, errA, v.strict, v.lenient, v.why)
		switch {
		case sameChange(obs, v.lenient) || sameChange(obs, v.strict):
			if !sameChange(v.lenient, v.strict) {
				x.Label("readings-differ")
			}
		case obs != nil && v.lenient == nil && v.strict == nil:
			if x.Fail(unauthorisedSig(v), "unauthorised request collected a change. %s", detail) {
				return true
			}
			// known finding: follow the implementation so that the search continues behind it
		case obs == nil:
			if x.Fail("authorised-request-rejected", "authorised request was not collected. %s", detail) {
				return true
			}
		default:
			if x.Fail("collected-change-differs-from-request", "%s", detail) {
				return true
			}
		}
		if obs != nil {
			m.pending = append(m.pending, *obs)
			nAccepted++
			x.Label("collected:" + obs.cmd)
		} else {
			x.Label("nothing:" + v.why)
		}
		if v.hasDup {
			x.Label("list:duplicate-signer")
		}
		if v.hasForeign {
			x.Label("list:non-validator")
		}
		if v.hasZeroPower {
			x.Label("list:zero-power-validator")
		}
		if v.hasWrongMsg {
			x.Label("list:wrong-message")
		}
		if v.hasMalformed {
			x.Label("list:malformed-length")
		}
		if v.boundary {
			x.Label("list:at-boundary")
		}
		if v.hasDup && v.naiveTally && !v.distinctTally {
			x.Label("list:duplicates-decide")
		}
		return false
	}

	end := func(restart bool) bool {
		hadRemoveTwice := false
		{
			// would the ordered application meet a remove of an absent validator?
			tmp := &model{cur: map[int]mval{}}
			for k, v := range m.cur {
				tmp.cur[k] = v
			}
			tmp.pending = append([]change{}, m.pending...)
			hadRemoveTwice = tmp.endBlock()
		}
		before := fmt.Sprintf("%v", m.cur)
		pend := fmt.Sprintf("%v", m.pending)
		m.endBlock()
		errA, pvA := A.endBlock(height)
		errB, pvB := B.endBlock(height)
		height++
		nBlocks++
		if pvA != nil || pvB != nil {
			return x.Fail("endblock-panics", "EndBlock/IncrementAccum panicked with collected %s on set %s: %v %v", pend, before, pvA, pvB)
		}
		if errA != nil || errB != nil {
			sig := "endblock-error"
			if hadRemoveTwice {
				sig = sigRepeatedRemove
			}
			x.Fail(sig, "AdminOp.EndBlock failed (%v), so the block cannot be applied and none of the accepted changes %s takes effect on set %s (gemmill/state ExecBlock returns the error; pbft finalizeCommit then panics in updateToState)", errA, pend, before)
			return true // a real node is dead here; nothing to continue with
		}
		if len(A.op.ChangedValidators) != 0 {
			return x.Fail("collected-changes-survive-end-of-block", "%d collected changes left after EndBlock", len(A.op.ChangedValidators))
		}
		if compareSet(x, fmt.Sprintf("after block %d (collected %s on %s)", height-1, pend, before), A.vals, m) {
			return true
		}
		if !bytes.Equal(A.vals.Hash(), B.vals.Hash()) {
			return x.Fail("replicas-diverge", "after block %d the replicas hold different validator sets", height-1)
		}
		startHash = A.vals.Hash()
		if fmt.Sprintf("%v", m.cur) != before {
			nChanged++
		}
		if restart {
			B.vals = B.vals.Copy()
			B.boot()
			nRestart++
		}
		return false
	}

	nonceOf := func(a int) uint64 { return m.nonce[a] }
	earlierMsgs = nil
	for i, op := range c.Ops {
		switch op.Kind {
		case "req":
			if !domainOK(op.Req) {
				continue
			}
			b := buildReq(*op.Req, m, nonceOf)
			builts = append(builts, b)
			if submit(b, op.Req.Sender, fmt.Sprintf("op %d (request %d)", i, len(builts)-1)) {
				return
			}
		case "replay":
			if len(builts) == 0 {
				continue
			}
			j := ((op.Of % len(builts)) + len(builts)) % len(builts)
			b := builts[j]
			s := op.Sender
			if s < 0 || s >= nAccts {
				s = b.sender
			}
			nReplay++
			nontrivial = true
			what := "byte-identical resubmission"
			if op.Env && b.spec.Raw == "" {
				// the same signed message and signatures; the envelope fields that nothing signs carry
				// what a replayer would like the node to believe
				cp := *b
				env := b.cmd
				env.Nonce = m.nonce[s]
				env.Time = env.Time.Add(time.Hour)
				js, _ := json.Marshal(&env)
				cp.tx = types.TagAdminOPTx(js)
				b = &cp
				what = "resubmission with rewritten unsigned envelope fields"
				x.Label("seq:replay-with-rewritten-envelope")
			}
			if submit(b, s, fmt.Sprintf("op %d (%s of request %d by acct%d)", i, what, j, s)) {
				return
			}
		case "end":
			if end(op.Restart) {
				return
			}
		}
	}
	if end(false) {
		return
	}
	x.Labelf("vals:%d", len(c.Vals))
	if nReplay > 0 {
		x.Label("seq:replay")
	}
	if nAccepted > 0 {
		x.Label("seq:some-change-collected")
	}
	if nChanged > 0 {
		x.Label("seq:set-changed")
	}
	if nChanged > 1 {
		x.Label("seq:set-changed-twice")
	}
	if nRestart > 0 {
		x.Label("seq:replica-restarted")
	}
	if nontrivial {
		x.NonTrivial()
	}
}

func TestAdminOp(t *testing.T) {
	h.Check(t, h.Spec[AdminCase]{Prop: "C14", Leg: "adminop", Gen: genAdminCase, Run: runAdminCase})
}
