// C06: crash-atomic commit — a node process killed between any two durable writes of a block
// commit recovers without operator action and converges to a consistent, exactly-once chain.
//
// The check re-executes its own test binary as a real single-validator node (core.NewNode:
// Angine + EVMApp + pbft consensus + LevelDB), arms the durable-write failpoint (hook H1) to
// os.Exit(137) before the k-th durable write counted from the first write of the commit of a
// target height, restarts the node unarmed (or armed again), and inspects the result.
package c06

import (
	"bufio"
	"bytes"
	"crypto/ecdsa"
	"encoding/hex"
	"encoding/json"
	"fmt"
	"math/big"
	"net"
	"os"
	"os/exec"
	"path/filepath"
	"strconv"
	"strings"
	"sync"
	"testing"
	"time"

	"github.com/spf13/viper"

	"github.com/dappledger/AnnChain/chain/app/evm"
	"github.com/dappledger/AnnChain/chain/core"
	rtypes "github.com/dappledger/AnnChain/chain/types"
	"github.com/dappledger/AnnChain/eth/accounts/abi"
	"github.com/dappledger/AnnChain/eth/common"
	ecore "github.com/dappledger/AnnChain/eth/core"
	etypes "github.com/dappledger/AnnChain/eth/core/types"
	"github.com/dappledger/AnnChain/eth/core/vm"
	ecrypto "github.com/dappledger/AnnChain/eth/crypto"
	"github.com/dappledger/AnnChain/eth/rlp"
	"github.com/dappledger/AnnChain/gemmill/blockchain"
	gconfig "github.com/dappledger/AnnChain/gemmill/config"
	dbm "github.com/dappledger/AnnChain/gemmill/modules/go-db"
	gtypes "github.com/dappledger/AnnChain/gemmill/types"

	"verif/internal/h"
)

func TestMain(m *testing.M) {
	if dir := os.Getenv("C06_NODE"); dir != "" {
		runNode(dir)
		return
	}
	if dir := os.Getenv("C06_REEXEC"); dir != "" {
		reexecChain(dir)
		return
	}
	if dir := os.Getenv("C06_INSPECT"); dir != "" {
		inspect(dir)
		return
	}
	h.Main(m)
}

// ---------------------------------------------------------------------------------------
// child: a real node

var keys [3]*ecdsa.PrivateKey

func init() {
	for i := range keys {
		k, err := ecrypto.ToECDSA(ecrypto.Keccak256([]byte(fmt.Sprintf("c06-account-%d", i))))
		if err != nil {
			panic(err)
		}
		keys[i] = k
	}
}

func nodeConf(dir string, port int) *viper.Viper {
	conf := gconfig.DefaultConfig()
	conf.Set("p2p_laddr", fmt.Sprintf("tcp://127.0.0.1:%d", port))
	conf.Set("rpc_laddr", "")
	conf.Set("log_path", filepath.Join(dir, "log"))
	conf.Set("audit_log_path", filepath.Join(dir, "audit.log"))
	conf.Set("environment", "production")
	conf.Set("pex_reactor", false)
	conf.Set("auth_by_ca", false)
	conf.Set("fast_sync", false)
	conf.Set("skip_upnp", true)
	conf.Set("timeout_propose", 60)
	conf.Set("timeout_propose_delta", 10)
	conf.Set("timeout_prevote", 30)
	conf.Set("timeout_prevote_delta", 10)
	conf.Set("timeout_precommit", 30)
	conf.Set("timeout_precommit_delta", 10)
	conf.Set("timeout_commit", 40)
	conf.Set("block_size", 50)
	return conf
}

// valchange scenario: requests are submitted while the committed height is <= valchangeUntil
// (the last one lands in the block of the target height or the one after it)
const valchangeUntil = 3

func valchangePower(nonce uint64) int64 { return 100 + int64(nonce) }

var adminABI = func() abi.ABI {
	a, err := abi.JSON(strings.NewReader(ecore.AdminABI))
	if err != nil {
		panic(err)
	}
	return a
}()

// adminTx builds what cmd/client builds for "update_node": a transaction of account k to the
// admin contract carrying the request signed by the validator.
func adminTx(pv *gtypes.PrivValidator, k *ecdsa.PrivateKey, nonce uint64, power int64) []byte {
	pub := pv.GetPubKey().Bytes()
	if len(pub) > 32 {
		pub = pub[len(pub)-32:]
	}
	attr := gtypes.ValidatorAttr{PubKey: pub, Power: power, Cmd: gtypes.ValidatorCmdUpdateNode, Nonce: nonce, Addr: ecrypto.PubkeyToAddress(k.PublicKey).Bytes()}
	msg, _ := json.Marshal(&attr)
	sig := pv.PrivKey.Sign(msg).Bytes()
	if len(sig) > 64 {
		sig = sig[len(sig)-64:]
	}
	cmd := gtypes.AdminOPCmd{CmdType: gtypes.AdminOpChangeValidator, Msg: msg, Time: time.Unix(1600000000, 0).UTC(), SInfos: []gtypes.SigInfo{{PubKey: pub, Signature: sig}}}
	js, _ := json.Marshal(&cmd)
	data, err := adminABI.Pack(ecore.AdminMethod, gtypes.TagAdminOPTx(js))
	if err != nil {
		panic(err)
	}
	tx := etypes.NewTransaction(nonce, ecore.AdminTo, big.NewInt(0), 50000000, big.NewInt(0), data)
	signed, err := etypes.SignTx(tx, etypes.HomesteadSigner{}, k)
	if err != nil {
		panic(err)
	}
	raw, _ := rlp.EncodeToBytes(signed)
	return raw
}

// adminRequests lists the powers requested by the administrative transactions of a block.
func adminRequests(blk *gtypes.Block) []int64 {
	var out []int64
	for _, raw := range blk.Data.Txs {
		t := new(etypes.Transaction)
		if rlp.DecodeBytes(raw, t) != nil || t.To() == nil || *t.To() != ecore.AdminTo || len(t.Data()) < 4 {
			continue
		}
		var payload []byte
		if err := adminABI.Methods[ecore.AdminMethod].Inputs.Unpack(&payload, t.Data()[4:]); err != nil {
			continue
		}
		var cmd gtypes.AdminOPCmd
		if json.Unmarshal(gtypes.UnwrapTx(payload), &cmd) != nil {
			continue
		}
		var attr gtypes.ValidatorAttr
		if json.Unmarshal(cmd.Msg, &attr) != nil {
			continue
		}
		out = append(out, attr.Power)
	}
	return out
}

func say(f string, a ...any) {
	fmt.Fprintf(os.Stdout, "C06 "+f+"\n", a...)
}

// runNode is the child's main: start (or restart) the node in dir, feed transactions of the
// scenario's kind at every new height, print one line per committed block, and at height
// C06_STOP print a report and exit 0.
func runNode(dir string) {
	kind := os.Getenv("C06_KIND")
	stop, _ := strconv.ParseInt(os.Getenv("C06_STOP"), 10, 64)
	port, _ := strconv.Atoi(os.Getenv("C06_PORT"))
	conf := nodeConf(dir, port)
	if _, err := os.Stat(filepath.Join(dir, "config.toml")); err != nil {
		if err := gconfig.InitRuntime(dir, "c06-chain", conf); err != nil {
			say("FATAL init %v", err)
			os.Exit(3)
		}
	} else {
		gconfig.SetDefaults(dir, conf)
	}
	node, err := core.NewNode(conf, dir, "evm")
	if err != nil {
		say("FATAL newnode %v", err)
		os.Exit(3)
	}
	say("RECOVERED store=%d", node.Angine.Height())
	if err := node.Start(); err != nil {
		say("FATAL start %v", err)
		os.Exit(3)
	}
	app := node.Application.(*evm.EVMApp)
	signer := etypes.HomesteadSigner{}
	var mu sync.Mutex
	lastFed := int64(-1)
	feed := func(height int64) {
		mu.Lock()
		defer mu.Unlock()
		if height <= lastFed || kind == "empty" {
			return
		}
		lastFed = height
		for ai, k := range keys {
			addr := ecrypto.PubkeyToAddress(k.PublicKey)
			res := app.Query(append([]byte{byte(rtypes.QueryType_Nonce)}, addr[:]...))
			var nonce uint64
			if err := rlp.DecodeBytes(res.Data, &nonce); err != nil {
				continue
			}
			if kind == "valchange" && ai == 0 {
				// one administrative request per height up to the target height: the node's only
				// validator (which signs the request: +2/3) changes its own voting power; every
				// request names another power, so the power in force tells which request it was
				if height <= valchangeUntil {
					raw := adminTx(node.PrivValidator(), k, nonce, valchangePower(nonce))
					node.Angine.BroadcastTx(raw)
				}
				continue
			}
			for j := uint64(0); j < 2; j++ {
				var tx *etypes.Transaction
				switch {
				case kind == "kv":
					kvKey := fmt.Sprintf("k-%d-%d", ai, nonce+j)
					if (nonce+j)%2 == 1 {
						kvKey = fmt.Sprintf("shared-%d", ai) // updated again and again: a growing history
					}
					enc, _ := rlp.EncodeToBytes(&rtypes.KV{Key: []byte(kvKey), Value: []byte(fmt.Sprintf("v-%d-%d", height, nonce+j))})
					tx = etypes.NewTransaction(nonce+j, common.Address{}, big.NewInt(0), 100000, big.NewInt(0), append(append([]byte{}, rtypes.KVTxType...), enc...))
				case (nonce+j)%3 == 0:
					// a contract whose constructor stores its creation nonce and returns tiny code
					// PUSH1 n PUSH1 0 SSTORE PUSH1 1 PUSH1 0 RETURN
					code := []byte{0x60, byte(nonce + j), 0x60, 0x00, 0x55, 0x60, 0x01, 0x60, 0x00, 0xf3}
					tx = etypes.NewContractCreation(nonce+j, big.NewInt(0), 3000000, big.NewInt(0), code)
				default:
					tx = etypes.NewTransaction(nonce+j, common.BytesToAddress([]byte{0xaa, byte(ai)}), big.NewInt(0), 100000, big.NewInt(0), []byte{byte(height)})
				}
				signed, err := etypes.SignTx(tx, signer, k)
				if err != nil {
					continue
				}
				raw, _ := rlp.EncodeToBytes(signed)
				node.Angine.BroadcastTx(raw)
			}
		}
	}
	report := func() {
		rep := map[string]any{}
		hgt := node.Angine.Height()
		rep["store_height"] = hgt
		info := app.Info()
		rep["app_height"] = info.LastBlockHeight
		rep["app_hash"] = hex.EncodeToString(info.LastBlockAppHash)
		blocks := []map[string]any{}
		for i := int64(1); i <= hgt; i++ {
			b, meta, err := node.Angine.GetBlock(i)
			if err != nil || b == nil || meta == nil {
				blocks = append(blocks, map[string]any{"height": i, "error": fmt.Sprint(err)})
				continue
			}
			blocks = append(blocks, map[string]any{"height": i, "hash": hex.EncodeToString(meta.Hash), "app_hash": hex.EncodeToString(b.AppHash), "receipts_hash": hex.EncodeToString(b.ReceiptsHash), "ntx": len(b.Data.Txs), "last_block": hex.EncodeToString(b.LastBlockID.Hash)})
		}
		rep["blocks"] = blocks
		nonces := []uint64{}
		for _, k := range keys {
			addr := ecrypto.PubkeyToAddress(k.PublicKey)
			res := app.Query(append([]byte{byte(rtypes.QueryType_Nonce)}, addr[:]...))
			var nonce uint64
			rlp.DecodeBytes(res.Data, &nonce)
			nonces = append(nonces, nonce)
		}
		rep["nonces"] = nonces
		bz, _ := json.Marshal(rep)
		say("REPORT %s", bz)
	}
	printed := int64(0)
	printBlocks := func(hgt int64) {
		for printed < hgt {
			meta, err := node.Angine.GetBlockMeta(printed + 1)
			if err != nil || meta == nil {
				return
			}
			printed++
			say("BLOCK %d %x", printed, meta.Hash)
		}
	}
	_ = gtypes.EventStringNewBlock
	feed(node.Angine.Height())
	deadline := time.Now().Add(50 * time.Second)
	for time.Now().Before(deadline) {
		hgt := node.Angine.Height()
		printBlocks(hgt)
		if hgt >= stop {
			os.Exit(0) // ends wherever the node happens to be: one more (uninstrumented) crash
		}
		feed(hgt)
		time.Sleep(10 * time.Millisecond)
	}
	say("STALLED at %d", node.Angine.Height())
	report()
	os.Exit(4)
}

// inspect (child mode C06_INSPECT) builds the node objects on the directory without starting
// consensus - NewNode runs the start-up reconciliation (RecoverFromCrash) - and reports what
// block store and application hold.
func inspect(dir string) {
	port, _ := strconv.Atoi(os.Getenv("C06_PORT"))
	conf := nodeConf(dir, port)
	gconfig.SetDefaults(dir, conf)
	node, err := core.NewNode(conf, dir, "evm")
	if err != nil {
		say("FATAL inspect newnode %v", err)
		os.Exit(3)
	}
	start := node.Angine.Height()
	if err := node.Start(); err != nil {
		say("FATAL inspect start %v", err)
		os.Exit(3)
	}
	deadline := time.Now().Add(40 * time.Second)
	for node.Angine.Height() < start+2 {
		if time.Now().After(deadline) {
			say("STALLED at %d", node.Angine.Height())
			os.Exit(4)
		}
		time.Sleep(5 * time.Millisecond)
	}
	rep := map[string]any{}
	hgt := node.Angine.Height()
	rep["store_height"] = hgt
	blocks := []map[string]any{}
	for i := int64(1); i <= hgt; i++ {
		b, meta, err := node.Angine.GetBlock(i)
		if err != nil || b == nil || meta == nil {
			blocks = append(blocks, map[string]any{"height": i, "error": fmt.Sprint(err)})
			continue
		}
		blocks = append(blocks, map[string]any{"height": i, "hash": hex.EncodeToString(meta.Hash), "app_hash": hex.EncodeToString(b.AppHash), "receipts_hash": hex.EncodeToString(b.ReceiptsHash), "ntx": len(b.Data.Txs), "last_block": hex.EncodeToString(b.LastBlockID.Hash), "admin": adminRequests(b), "validators_hash": hex.EncodeToString(b.ValidatorsHash)})
	}
	rep["blocks"] = blocks
	vh, vs := node.Angine.GetValidators()
	powers := []int64{}
	for _, v := range vs.Validators {
		powers = append(powers, v.VotingPower)
	}
	rep["validators_height"] = vh
	rep["validator_powers"] = powers
	bz, _ := json.Marshal(rep)
	say("REPORT %s", bz)
	os.Exit(0)
}

// reexecChain replays the recovered chain on a fresh application (child mode C06_REEXEC): it
// opens the node's stores read-only through a fresh node object in a COPY of the directory
// whose application databases were removed, and lets RecoverFromCrash re-execute every block.
func reexecChain(dir string) {
	bdb := dbm.NewDB("blockstore", "leveldb", filepath.Join(dir, "data"))
	adb := dbm.NewDB("blockstore", "leveldb", filepath.Join(dir, "data_archive_unused"))
	store := blockchain.NewBlockStore(bdb, adb)
	conf := viper.New()
	fresh := filepath.Join(dir, "fresh-app")
	os.MkdirAll(fresh, 0o700)
	conf.Set("db_dir", fresh)
	conf.Set("block_size", 50)
	app, err := evm.NewEVMApp(conf)
	if err != nil {
		say("FATAL reexec app %v", err)
		os.Exit(3)
	}
	if err := app.Start(); err != nil {
		say("FATAL reexec start %v", err)
		os.Exit(3)
	}
	// administrative requests of the valchange scenario are valid by construction (signed by the
	// only validator, right nonce): the node's plugin accepts them, so the precompile succeeds
	vm.DefaultAdminContract.SetCallback(func(*vm.AdminDBApp, []byte) error { return nil })
	// the recovered node's own application, opened on the copied databases
	rconf := viper.New()
	rconf.Set("db_dir", filepath.Join(dir, "data"))
	rconf.Set("block_size", 50)
	recovered, err := evm.NewEVMApp(rconf)
	if err != nil {
		say("FATAL reexec recovered app %v", err)
		os.Exit(3)
	}
	recovered.Start()
	appHeight := recovered.Info().LastBlockHeight
	out := []map[string]any{}
	var txHashes [][]byte
	for hgt := int64(1); hgt <= store.Height(); hgt++ {
		if hgt == appHeight+1 {
			// both applications have now executed exactly blocks 1..appHeight: everything a client
			// can ask must be answered identically (exactly-once application also of the data that
			// is not covered by the hashes: receipts, key-value records and their update history)
			if diff := compareQueries(app, recovered, txHashes); diff != "" {
				say("QUERYDIFF %s", diff)
			} else {
				say("QUERYSAME height=%d", appHeight)
			}
		}
		blk := store.LoadBlock(hgt)
		if blk == nil {
			say("FATAL reexec block %d unreadable", hgt)
			os.Exit(3)
		}
		if _, err := app.OnExecute(hgt, 0, blk); err != nil {
			say("FATAL reexec execute %d %v", hgt, err)
			os.Exit(3)
		}
		cres, err := app.OnCommit(hgt, 0, blk)
		if err != nil {
			say("FATAL reexec commit %d %v", hgt, err)
			os.Exit(3)
		}
		for _, tx := range blk.Data.Txs {
			t := new(etypes.Transaction)
			if rlp.DecodeBytes(tx, t) == nil {
				hh := t.Hash()
				txHashes = append(txHashes, hh[:])
			}
		}
		cr := cres.(gtypes.CommitResult)
		out = append(out, map[string]any{"height": hgt, "app_hash": hex.EncodeToString(cr.AppHash), "receipts_hash": hex.EncodeToString(cr.ReceiptsHash)})
	}
	if appHeight >= store.Height() {
		if diff := compareQueries(app, recovered, txHashes); diff != "" {
			say("QUERYDIFF %s", diff)
		} else {
			say("QUERYSAME height=%d", appHeight)
		}
	}
	bz, _ := json.Marshal(map[string]any{"results": out})
	say("REPORT %s", bz)
	os.Exit(0)
}

// compareQueries asks both applications the same questions and returns the first difference.
func compareQueries(a, b *evm.EVMApp, txHashes [][]byte) string {
	ask := func(app *evm.EVMApp, q []byte) string {
		r := app.Query(q)
		return fmt.Sprintf("%v|%x", r.Code, r.Data)
	}
	history := func(key []byte) string {
		for _, page := range []byte{0, 1} {
			hq := []byte{byte(rtypes.QueryType_Key_Update_History), 0, 0, 0, page, 0, 0, 0, 50}
			hq = append(hq, key...)
			if ra, rb := ask(a, hq), ask(b, hq); ra != rb {
				return fmt.Sprintf("update history of key %s (page %d): fresh %.80s recovered %.80s", key, page, ra, rb)
			}
		}
		return ""
	}
	for i, k := range keys {
		addr := ecrypto.PubkeyToAddress(k.PublicKey)
		q := append([]byte{byte(rtypes.QueryType_Nonce)}, addr[:]...)
		ra, rb := ask(a, q), ask(b, q)
		if ra != rb {
			return fmt.Sprintf("nonce of account %d: fresh %s recovered %s", i, ra, rb)
		}
		var nonce uint64
		rlp.DecodeBytes(a.Query(q).Data, &nonce)
		ks := [][]byte{[]byte(fmt.Sprintf("shared-%d", i))}
		for n := uint64(0); n < nonce+2; n++ {
			ks = append(ks, []byte(fmt.Sprintf("k-%d-%d", i, n)))
		}
		for _, key := range ks {
			q := append([]byte{byte(rtypes.QueryType_Key)}, key...)
			if ra, rb := ask(a, q), ask(b, q); ra != rb {
				return fmt.Sprintf("value of key %s: fresh %s recovered %s", key, ra, rb)
			}
			if d := history(key); d != "" {
				return d
			}
		}
	}
	for _, hh := range txHashes {
		q := append([]byte{byte(rtypes.QueryType_Receipt)}, hh...)
		if ra, rb := ask(a, q), ask(b, q); ra != rb {
			return fmt.Sprintf("receipt of tx %x: fresh %.80s recovered %.80s", hh, ra, rb)
		}
	}
	return ""
}

// ---------------------------------------------------------------------------------------
// parent

type Case struct {
	Kind   string `json:"kind"`   // empty | evm | kv
	Target int64  `json:"target"` // height whose commit is interrupted
	K      int    `json:"k"`      // crash before the K-th durable write counted from the first write of that commit
	K2     int    `json:"k2"`     // >0: crash again before the K2-th durable write of the recovery run
}

type run struct {
	exit    int
	blocks  map[int64]string
	report  map[string]any
	out     string
	fatal   string
	stalled bool
}

func freePort() int {
	l, err := net.Listen("tcp", "127.0.0.1:0")
	if err != nil {
		return 46999
	}
	defer l.Close()
	return l.Addr().(*net.TCPAddr).Port
}

func child(dir string, c Case, stop int64, fp string, mode string) run {
	cmd := exec.Command(os.Args[0], "-test.run", "^$")
	cmd.Env = append(os.Environ(), mode+"="+dir, "C06_KIND="+c.Kind, "C06_STOP="+strconv.FormatInt(stop, 10), "C06_PORT="+strconv.Itoa(freePort()), "VERIF_FP="+fp, "VERIF_EV_OUT=")
	var buf bytes.Buffer
	cmd.Stdout = &buf
	cmd.Stderr = &buf
	done := make(chan error, 1)
	cmd.Start()
	go func() { done <- cmd.Wait() }()
	r := run{blocks: map[int64]string{}}
	select {
	case <-done:
	case <-time.After(90 * time.Second):
		cmd.Process.Kill()
		<-done
		r.stalled = true
	}
	r.exit = cmd.ProcessState.ExitCode()
	r.out = buf.String()
	sc := bufio.NewScanner(strings.NewReader(r.out))
	sc.Buffer(make([]byte, 1<<20), 1<<24)
	for sc.Scan() {
		l := sc.Text()
		switch {
		case strings.HasPrefix(l, "C06 BLOCK "):
			var hgt int64
			var hash string
			fmt.Sscanf(l, "C06 BLOCK %d %s", &hgt, &hash)
			r.blocks[hgt] = hash
		case strings.HasPrefix(l, "C06 REPORT "):
			json.Unmarshal([]byte(l[len("C06 REPORT "):]), &r.report)
		case strings.HasPrefix(l, "C06 FATAL "):
			r.fatal = l
		case strings.HasPrefix(l, "C06 STALLED"):
			r.stalled = true
		}
	}
	return r
}

func tailStr(s string, n int) string {
	if len(s) > n {
		return s[len(s)-n:]
	}
	return s
}

// panicLine extracts the first panic / fatal line of a child's output.
func panicLine(out string) string {
	for _, l := range strings.Split(out, "\n") {
		if strings.HasPrefix(l, "panic:") || strings.HasPrefix(l, "fatal error:") || strings.Contains(l, "Paniced on") {
			return strings.TrimSpace(l)
		}
	}
	return ""
}

func startFP(c Case) string {
	// the first durable write of finalizeCommit(target) is the block meta of the block store
	return fmt.Sprintf("startsite=godb.Set;startkey=H:%d", c.Target)
}

// countWrites runs the scenario unarmed with a write log and returns the number of durable
// writes from the first write of the target commit up to the save of the consensus state of the
// target height, with the list of sites.
func countWrites(base string, c Case) (int, []string, string) {
	dir := filepath.Join(base, "count")
	os.MkdirAll(dir, 0o700)
	logf := filepath.Join(base, "writes.log")
	r := child(dir, c, c.Target+1, "mode=count;"+startFP(c)+";log="+logf, "C06_NODE")
	if r.exit != 0 {
		return 0, nil, "counting run failed: exit " + strconv.Itoa(r.exit) + " " + tailStr(r.out, 400)
	}
	b, _ := os.ReadFile(logf)
	lines := strings.Split(strings.TrimSpace(string(b)), "\n")
	n := 0
	var sites []string
	for _, l := range lines {
		f := strings.Fields(l)
		if len(f) < 2 {
			continue
		}
		n++
		sites = append(sites, f[1])
		// the commit of the target height ends with State.Save (key "stateKey") followed by the WAL
		// records of the new height; stop counting at the first write that belongs to height+1's commit
		if strings.Contains(l, fmt.Sprintf("H:%d", c.Target+1)) {
			n--
			sites = sites[:len(sites)-1]
			break
		}
	}
	return n, sites, ""
}

func runCase(base string, c Case, x *h.Ctx) {
	dir := filepath.Join(base, "run")
	os.MkdirAll(dir, 0o700)
	// 1. armed run: dies before the K-th write of the target commit
	r1 := child(dir, c, c.Target+3, "mode=exit;k="+strconv.Itoa(c.K)+";"+startFP(c), "C06_NODE")
	if r1.exit != 137 {
		if r1.exit == 0 {
			x.Label("failpoint-not-reached")
			return
		}
		if pl := panicLine(r1.out); pl != "" {
			x.Fail("node-dies-without-injected-crash", "armed run ended with exit %d before the failpoint: %s", r1.exit, pl)
		} else {
			x.Label("armed-run-other-exit")
		}
		return
	}
	site := ""
	for _, l := range strings.Split(r1.out, "\n") {
		if strings.HasPrefix(l, "VERIFHOOK-EXIT") {
			f := strings.Fields(l)
			for i, w := range f {
				if w == "at" && i+1 < len(f) {
					site = f[i+1]
				}
			}
		}
	}
	x.Labelf("crash-site:%s", site)
	before := r1.blocks
	// 2. recovery run(s)
	fp := ""
	if c.K2 > 0 {
		fp = "mode=exit;k=" + strconv.Itoa(c.K2)
		r := child(dir, c, c.Target+3, fp, "C06_NODE")
		if r.exit != 137 && r.exit != 0 {
			judgeRecoveryFailure(x, c, r, site, "second (armed) start")
			return
		}
		x.Label("second-crash-during-recovery")
		for k, v := range r.blocks {
			before[k] = v
		}
	}
	r2 := child(dir, c, c.Target+3, "", "C06_NODE")
	if r2.exit != 0 && r2.stalled && panicLine(r2.out) == "" && r2.fatal == "" {
		// "no progress within 50 s" is a wall-clock verdict: a node that is merely slow (loaded
		// machine) gets there when started again, a node that is stuck stays stuck
		for k, v := range r2.blocks {
			if _, ok := before[k]; !ok {
				before[k] = v
			}
		}
		x.Label("recovery-run-repeated-after-a-slow-start")
		r2 = child(dir, c, c.Target+3, "", "C06_NODE")
	}
	if r2.exit != 0 {
		judgeRecoveryFailure(x, c, r2, site, "restart")
		return
	}
	for k, v := range r2.blocks {
		if _, ok := before[k]; !ok {
			before[k] = v
		}
	}
	ri := child(dir, c, 0, "", "C06_INSPECT")
	if ri.exit != 0 || ri.report == nil {
		judgeRecoveryFailure(x, c, ri, site, "start-up reconciliation after the run that followed the recovery")
		return
	}
	rep := ri.report
	store := int64(rep["store_height"].(float64))
	if store < c.Target+2 {
		if x.Fail("node-does-not-continue-after-recovery", "recovered node reached only height %d (target %d)", store, c.Target) {
			return
		}
	}
	// blocks readable in any earlier run are unchanged; the chain is linear
	blocks := rep["blocks"].([]any)
	byH := map[int64]map[string]any{}
	for _, b := range blocks {
		m := b.(map[string]any)
		byH[int64(m["height"].(float64))] = m
	}
	for hgt, hash := range before {
		m := byH[hgt]
		if m == nil || m["hash"] == nil {
			if x.Fail("committed-block-lost", "block %d (%s) was readable in an earlier run and is not readable after the node has restarted and gone on to height %d (crash site %s k=%d)", hgt, hash, store, site, c.K) {
				return
			}
			continue
		}
		if !strings.EqualFold(m["hash"].(string), hash) {
			if x.Fail("committed-block-changed", "block %d was %s in an earlier run and is %s after recovery (crash site %s k=%d)", hgt, hash, m["hash"], site, c.K) {
				return
			}
		}
	}
	for i := int64(2); i <= store; i++ {
		if byH[i] == nil || byH[i-1] == nil || byH[i]["hash"] == nil || byH[i-1]["hash"] == nil {
			if x.Fail("block-unreadable-after-recovery", "block %d or %d is unreadable after recovery", i-1, i) {
				return
			}
			continue
		}
		if byH[i]["last_block"] != byH[i-1]["hash"] {
			if x.Fail("chain-not-linear-after-recovery", "block %d names %v as predecessor, block %d is %v", i, byH[i]["last_block"], i-1, byH[i-1]["hash"]) {
				return
			}
		}
	}
	// exactly-once application: execute blocks 1..S on a fresh application and compare every hash
	// with what the chain itself recorded (header h+1 carries the application and receipts hash
	// after block h)
	fresh := filepath.Join(base, "fresh")
	if err := copyDir(dir, fresh); err != nil {
		x.Label("copy-failed")
		return
	}
	r3 := child(fresh, c, 0, "", "C06_REEXEC")
	if r3.exit != 0 || r3.report == nil {
		if pl := panicLine(r3.out); pl != "" {
			x.Fail("reexecution-from-genesis-fails", "executing the recovered chain on a fresh application died: %s", pl)
			return
		}
		x.Labelf("reexec-unavailable:%d %s", r3.exit, r3.fatal)
	} else {
		x.Label("reexecuted-from-genesis")
		for _, l := range strings.Split(r3.out, "\n") {
			if i := strings.Index(l, "C06 QUERYDIFF "); i >= 0 {
				if x.Fail("recovered-application-answers-differ-from-fresh-reexecution", "after recovery the node's application and a fresh application that executed the same blocks answer a query differently: %s (crash site %s, k=%d): some transaction was not applied exactly once", l[i+len("C06 QUERYDIFF "):], site, c.K) {
					return
				}
			}
			if strings.Contains(l, "C06 QUERYSAME") {
				x.Label("queries-compared")
			}
		}
		for _, e := range r3.report["results"].([]any) {
			m := e.(map[string]any)
			hgt := int64(m["height"].(float64))
			next := byH[hgt+1]
			if next == nil {
				continue
			}
			if !strings.EqualFold(m["app_hash"].(string), next["app_hash"].(string)) || !strings.EqualFold(m["receipts_hash"].(string), next["receipts_hash"].(string)) {
				if x.Fail("reexecution-from-genesis-differs", "executing blocks 1..%d on a fresh application gives app hash %s / receipts hash %s; block %d of the recovered chain records %s / %s (crash site %s, k=%d): some block was not applied exactly once", hgt, m["app_hash"], m["receipts_hash"], hgt+1, next["app_hash"], next["receipts_hash"], site, c.K) {
					return
				}
			}
		}
	}
	if c.Kind == "valchange" {
		// the validator set in force must be the one the last administrative request of the chain
		// asked for: a change that was lost in the crash, or applied from a stale copy, shows here
		var lastH, lastP int64 = 0, -1
		requests := 0
		for hgt := int64(1); hgt <= store; hgt++ {
			if m := byH[hgt]; m != nil && m["admin"] != nil {
				for _, p := range m["admin"].([]any) {
					lastH, lastP = hgt, int64(p.(float64))
					requests++
				}
			}
		}
		vh := int64(rep["validators_height"].(float64))
		var power int64 = -1
		if ps, ok := rep["validator_powers"].([]any); ok && len(ps) == 1 {
			power = int64(ps[0].(float64))
		}
		x.Labelf("valchange:requests-in-chain:%d", requests)
		if requests > 0 {
			if m := byH[c.Target]; m != nil {
				if a, ok := m["admin"].([]any); ok && len(a) > 0 {
					x.Label("valchange:target-block-carries-a-validator-change")
				}
			}
			x.Labelf("valchange:state-height-minus-last-request-block:%d", vh-lastH)
			if vh >= lastH && power != lastP {
				if x.Fail("validator-change-not-in-force-after-recovery", "block %d carries the last administrative request (validator power %d); after recovery the node's state at height %d has validator power %d (crash site %s, k=%d)", lastH, lastP, vh, power, site, c.K) {
					return
				}
			}
		}
	}
	x.Labelf("kind:%s", c.Kind)
	if before[c.Target] != "" {
		x.Label("target-block-event-seen-before-crash")
	}
	if strings.HasPrefix(site, "godb") || strings.HasPrefix(site, "ethdb") || strings.HasPrefix(site, "wfa") {
		x.NonTrivial(fmt.Sprintf("%s|%d|%d|%d", c.Kind, c.Target, c.K, c.K2))
	}
}

func judgeRecoveryFailure(x *h.Ctx, c Case, r run, site, what string) {
	pl := panicLine(r.out)
	switch {
	case pl != "":
		x.Fail("recovery-panics@"+sigOf(pl), "%s after a crash before write #%d (%s) of the commit of height %d died: %s", what, c.K, site, c.Target, pl)
	case r.fatal != "":
		x.Fail("recovery-refuses-to-start", "%s after a crash before write #%d (%s) of the commit of height %d: %s", what, c.K, site, c.Target, r.fatal)
	case r.stalled:
		st := int64(-1)
		if r.report != nil {
			st = int64(r.report["store_height"].(float64))
		}
		x.Fail("node-does-not-continue-after-recovery", "%s after a crash before write #%d (%s) of the commit of height %d makes no progress (store height %d)", what, c.K, site, c.Target, st)
	default:
		x.Labelf("recovery-run-exit-%d", r.exit)
	}
}

func sigOf(panicLine string) string {
	s := panicLine
	if i := strings.Index(s, "err:"); i >= 0 {
		s = s[i+4:] // the cause reported by the start-up reconciliation
	}
	for _, cut := range []string{"Paniced on a Sanity Check: ", "Paniced on a Consensus Failure: ", "panic: "} {
		if i := strings.Index(s, cut); i >= 0 {
			s = s[i+len(cut):]
		}
	}
	f := strings.Fields(s)
	if len(f) > 9 {
		f = f[:9]
	}
	out := strings.Join(f, "-")
	out = strings.Map(func(r rune) rune {
		if (r >= 'a' && r <= 'z') || (r >= 'A' && r <= 'Z') || r == '-' || r == '.' {
			return r
		}
		return -1
	}, out)
	return out
}

func removeAppDBs(dir string) {
	// everything under data/ except the block store, the consensus state and the WAL belongs to
	// the application
	ents, _ := os.ReadDir(filepath.Join(dir, "data"))
	for _, e := range ents {
		n := e.Name()
		if strings.HasPrefix(n, "blockstore") || strings.HasPrefix(n, "state") || n == "cs.wal" || strings.HasPrefix(n, "archive") || strings.HasPrefix(n, "refuse") {
			continue
		}
		os.RemoveAll(filepath.Join(dir, "data", n))
	}
}

func copyDir(src, dst string) error {
	return filepath.Walk(src, func(p string, info os.FileInfo, err error) error {
		if err != nil {
			return err
		}
		rel, _ := filepath.Rel(src, p)
		t := filepath.Join(dst, rel)
		if info.IsDir() {
			return os.MkdirAll(t, 0o700)
		}
		b, err := os.ReadFile(p)
		if err != nil {
			return err
		}
		return os.WriteFile(t, b, 0o600)
	})
}

func TestCrashPoints(t *testing.T) {
	pl := h.NewPlain(t, "C06", "crashpoints")
	var rc Case
	if h.ReplayCase("C06", "crashpoints", &rc) {
		base, _ := os.MkdirTemp("", "c06-")
		defer os.RemoveAll(base)
		pl.Case(rc, func(x *h.Ctx) { runCase(base, rc, x) })
		return
	}
	if h.Replaying() {
		t.Skip()
	}
	shard, _ := strconv.Atoi(os.Getenv("VERIF_SHARD"))
	shards, _ := strconv.Atoi(os.Getenv("VERIF_SHARDS"))
	if shards <= 0 {
		shards = 1
	}
	seed, _ := strconv.Atoi(os.Getenv("VERIF_SEED"))
	thorough := h.Tier() == "thorough"
	kinds := []string{"evm", "kv", "empty", "valchange"}
	idx := 0
	for ki, kind := range kinds {
		c0 := Case{Kind: kind, Target: 3}
		// the write count of a scenario is measured by one of the shards' counting runs; every
		// shard measures it itself (cheap, keeps shards independent)
		if (ki%shards) != shard%len(kinds) && !thorough && shards >= len(kinds) {
			// in the quick tier shards split the kinds among themselves
		}
		base, _ := os.MkdirTemp("", "c06-")
		w, sites, msg := countWrites(base, c0)
		os.RemoveAll(base)
		if msg != "" || w == 0 {
			h.Note("C06", "crashpoints", "counting run for kind %s failed: %s", kind, msg)
			t.Logf("counting run failed for %s: %s", kind, msg)
			continue
		}
		h.Note("C06", "crashpoints", "kind %s: %d durable writes in the commit of height 3: %s", kind, w, compress(sites))
		var ks []int
		if thorough {
			for k := 1; k <= w; k++ {
				ks = append(ks, k)
			}
		} else {
			// quick: every database write of the commit (block store, consensus state, application
			// stores: that is where the order of writes matters) and a seeded stride through the WAL /
			// signer-file writes of the next height that follow them
			var rest []int
			for k := 1; k <= w; k++ {
				if strings.HasPrefix(sites[k-1], "autofile.") || strings.HasPrefix(sites[k-1], "wfa.") {
					rest = append(rest, k)
				} else {
					ks = append(ks, k)
				}
			}
			step := len(rest)/4 + 1
			for i := (seed + ki) % step; i < len(rest); i += step {
				ks = append(ks, rest[i])
			}
		}
		var cases []Case
		for _, k := range ks {
			walOrSigner := strings.HasPrefix(sites[k-1], "autofile.") || strings.HasPrefix(sites[k-1], "wfa.")
			switch {
			case thorough:
				// every crash index alone, and once more with a second crash while the node recovers
				// and goes on (the second index moves through the writes of the restart and of the
				// next height: WAL lines, signer file, databases)
				cases = append(cases, Case{Kind: kind, Target: 3, K: k}, Case{Kind: kind, Target: 3, K: k, K2: 2 + (k*7+seed)%19})
			case walOrSigner:
				// the strided WAL / signer-file indices of the quick tier always come with a second crash
				cases = append(cases, Case{Kind: kind, Target: 3, K: k, K2: 3 + (k*5+seed)%17})
			default:
				c := Case{Kind: kind, Target: 3, K: k}
				if (k+seed)%4 == 0 {
					c.K2 = 3 + (k*5)%17
				}
				cases = append(cases, c)
			}
		}
		for _, c := range cases {
			c := c
			idx++
			if idx%shards != shard {
				continue
			}
			base, _ := os.MkdirTemp("", "c06-")
			ok := pl.Case(c, func(x *h.Ctx) { runCase(base, c, x) })
			os.RemoveAll(base)
			if !ok {
				return
			}
		}
	}
	if thorough {
		h.SetExhaustive("C06", "crashpoints")
	}
}

func compress(sites []string) string {
	var out []string
	prev, n := "", 0
	flush := func() {
		if n > 0 {
			if n > 1 {
				out = append(out, fmt.Sprintf("%s x%d", prev, n))
			} else {
				out = append(out, prev)
			}
		}
	}
	for _, s := range sites {
		if s == prev {
			n++
			continue
		}
		flush()
		prev, n = s, 1
	}
	flush()
	return strings.Join(out, ", ")
}
