// C11 leg "state": histories on eth/core/state StateDB with nested snapshots/reverts against
// (a) the dump recorded at Snapshot(), (b) per-operation postconditions and frame conditions,
// (c) the reference go-ethereum v1.8.27 StateDB fed the same operations, (d) a naive world
// state root computed from the observable content, (e) commit + reopen.
package c11

import (
	"bytes"
	"encoding/hex"
	"fmt"
	"math/big"
	"strconv"
	"strings"
	"testing"

	"github.com/dappledger/AnnChain/eth/common"
	"github.com/dappledger/AnnChain/eth/core/state"
	"github.com/dappledger/AnnChain/eth/core/types"
	"github.com/dappledger/AnnChain/eth/ethdb"
	rcommon "github.com/ethereum/go-ethereum/common"
	rstate "github.com/ethereum/go-ethereum/core/state"
	rtypes "github.com/ethereum/go-ethereum/core/types"
	rethdb "github.com/ethereum/go-ethereum/ethdb"
	"pgregory.net/rapid"

	"verif/internal/h"
)

type StOp struct {
	Op   string `json:"op"` // create addbal subbal setbal setnonce setcode setstate suicide refund log snapshot revert iroot commit reopen
	A    int    `json:"a"`
	K    int    `json:"k,omitempty"`
	V    int    `json:"v,omitempty"` // index into the value table of the op (modulo)
	Del  bool   `json:"del,omitempty"`
	Disk bool   `json:"disk,omitempty"`
}

type StateCase struct {
	Ops      []StOp `json:"ops"`
	FinalDel bool   `json:"final_del"`
}

// ---- fixed alphabets (address 0x..03, the ripemd precompile with its consensus quirk, is avoided) ----

type addr = [20]byte
type word = [32]byte

func mkAddr(i int) addr {
	var a addr
	a[0] = byte(0xa0 + i)
	a[19] = byte(0x10 + i)
	return a
}

var stAddrs = []addr{mkAddr(0), mkAddr(1), mkAddr(2), mkAddr(3), mkAddr(4)}

func mkWord(hexs string) word {
	var w word
	b := rcommon.FromHex(hexs)
	copy(w[32-len(b):], b)
	return w
}

var stKeys = []word{mkWord("0x00"), mkWord("0x01"), mkWord("0xffffffffffffffffffffffffffffffffffffffffffffffffffffffffffffffff"), mkWord("0x290decd9548b62a8d60345a988386fc84ba6bc95484008f6362f93160ef3e563")}
var stVals = []word{mkWord("0x00"), mkWord("0x01"), mkWord("0x7f"), mkWord("0x80"), mkWord("0x0100"), mkWord("0x8000000000000000000000000000000000000000000000000000000000000000"), mkWord("0xffffffffffffffffffffffffffffffffffffffffffffffffffffffffffffffff")}
var stAmounts = []*big.Int{big.NewInt(0), big.NewInt(1), big.NewInt(255), big.NewInt(256), new(big.Int).Exp(big.NewInt(10), big.NewInt(18), nil), new(big.Int).Lsh(big.NewInt(1), 128)}
var stNonces = []uint64{0, 1, 2, 127, 128, 255, 256, 1 << 32, 1<<64 - 1}
var stCodes = [][]byte{{}, {0x00}, {0x60, 0x00, 0x60, 0x00, 0xf3}, bytes.Repeat([]byte{0x5b}, 40)}

// ---- the two implementations behind one interface ----

type sdb interface {
	Exist(a addr) bool
	Empty(a addr) bool
	Balance(a addr) *big.Int
	Nonce(a addr) uint64
	Code(a addr) []byte
	CodeHash(a addr) word
	CodeSize(a addr) int
	State(a addr, k word) word
	Committed(a addr, k word) word
	Suicided(a addr) bool
	Refund() uint64
	LogCount() int
	Create(a addr)
	AddBal(a addr, v *big.Int)
	SubBal(a addr, v *big.Int)
	SetBal(a addr, v *big.Int)
	SetNonce(a addr, n uint64)
	SetCode(a addr, c []byte)
	SetState(a addr, k, v word)
	Suicide(a addr) bool
	AddRefund(n uint64)
	AddLog(a addr)
	Snapshot() int
	Revert(id int)
	IRoot(del bool) word
	Commit(del bool) (word, error)
	CopyCommit(del bool) (word, error)
	Reopen(root word, disk bool) error
	DBError() error
}

type utState struct {
	disk *ethdb.MemDatabase
	db   state.Database
	s    *state.StateDB
}

func newUT() *utState {
	u := &utState{disk: ethdb.NewMemDatabase()}
	u.db = state.NewDatabase(u.disk)
	u.s, _ = state.New(common.Hash{}, u.db)
	return u
}
func (u *utState) Exist(a addr) bool       { return u.s.Exist(common.Address(a)) }
func (u *utState) Empty(a addr) bool       { return u.s.Empty(common.Address(a)) }
func (u *utState) Balance(a addr) *big.Int { return u.s.GetBalance(common.Address(a)) }
func (u *utState) Nonce(a addr) uint64     { return u.s.GetNonce(common.Address(a)) }
func (u *utState) Code(a addr) []byte      { return u.s.GetCode(common.Address(a)) }
func (u *utState) CodeHash(a addr) word    { return word(u.s.GetCodeHash(common.Address(a))) }
func (u *utState) CodeSize(a addr) int     { return u.s.GetCodeSize(common.Address(a)) }
func (u *utState) State(a addr, k word) word {
	return word(u.s.GetState(common.Address(a), common.Hash(k)))
}
func (u *utState) Committed(a addr, k word) word {
	return word(u.s.GetCommittedState(common.Address(a), common.Hash(k)))
}
func (u *utState) Suicided(a addr) bool      { return u.s.HasSuicided(common.Address(a)) }
func (u *utState) Refund() uint64            { return u.s.GetRefund() }
func (u *utState) LogCount() int             { return len(u.s.Logs()) }
func (u *utState) Create(a addr)             { u.s.CreateAccount(common.Address(a)) }
func (u *utState) AddBal(a addr, v *big.Int) { u.s.AddBalance(common.Address(a), new(big.Int).Set(v)) }
func (u *utState) SubBal(a addr, v *big.Int) { u.s.SubBalance(common.Address(a), new(big.Int).Set(v)) }
func (u *utState) SetBal(a addr, v *big.Int) { u.s.SetBalance(common.Address(a), new(big.Int).Set(v)) }
func (u *utState) SetNonce(a addr, n uint64) { u.s.SetNonce(common.Address(a), n) }
func (u *utState) SetCode(a addr, c []byte)  { u.s.SetCode(common.Address(a), append([]byte{}, c...)) }
func (u *utState) SetState(a addr, k, v word) {
	u.s.SetState(common.Address(a), common.Hash(k), common.Hash(v))
}
func (u *utState) Suicide(a addr) bool { return u.s.Suicide(common.Address(a)) }
func (u *utState) AddRefund(n uint64)  { u.s.AddRefund(n) }
func (u *utState) AddLog(a addr)       { u.s.AddLog(&types.Log{Address: common.Address(a)}) }
func (u *utState) Snapshot() int       { return u.s.Snapshot() }
func (u *utState) Revert(id int)       { u.s.RevertToSnapshot(id) }
func (u *utState) IRoot(del bool) word { return word(u.s.IntermediateRoot(del)) }
func (u *utState) Commit(del bool) (word, error) {
	r, err := u.s.Commit(del)
	return word(r), err
}
func (u *utState) CopyCommit(del bool) (word, error) {
	r, err := u.s.Copy().Commit(del)
	return word(r), err
}
func (u *utState) DBError() error { return u.s.Error() }
func (u *utState) Reopen(root word, disk bool) error {
	if disk {
		// what chain/app/evm does after every block
		if err := u.db.TrieDB().Commit(common.Hash(root), false); err != nil {
			return err
		}
		u.db = state.NewDatabase(u.disk)
	}
	s, err := state.New(common.Hash(root), u.db)
	if err != nil {
		return err
	}
	u.s = s
	return nil
}

type refState struct {
	disk *rethdb.MemDatabase
	db   rstate.Database
	s    *rstate.StateDB
}

func newRef() *refState {
	u := &refState{disk: rethdb.NewMemDatabase()}
	u.db = rstate.NewDatabase(u.disk)
	u.s, _ = rstate.New(rcommon.Hash{}, u.db)
	return u
}
func (u *refState) Exist(a addr) bool       { return u.s.Exist(rcommon.Address(a)) }
func (u *refState) Empty(a addr) bool       { return u.s.Empty(rcommon.Address(a)) }
func (u *refState) Balance(a addr) *big.Int { return u.s.GetBalance(rcommon.Address(a)) }
func (u *refState) Nonce(a addr) uint64     { return u.s.GetNonce(rcommon.Address(a)) }
func (u *refState) Code(a addr) []byte      { return u.s.GetCode(rcommon.Address(a)) }
func (u *refState) CodeHash(a addr) word    { return word(u.s.GetCodeHash(rcommon.Address(a))) }
func (u *refState) CodeSize(a addr) int     { return u.s.GetCodeSize(rcommon.Address(a)) }
func (u *refState) State(a addr, k word) word {
	return word(u.s.GetState(rcommon.Address(a), rcommon.Hash(k)))
}
func (u *refState) Committed(a addr, k word) word {
	return word(u.s.GetCommittedState(rcommon.Address(a), rcommon.Hash(k)))
}
func (u *refState) Suicided(a addr) bool { return u.s.HasSuicided(rcommon.Address(a)) }
func (u *refState) Refund() uint64       { return u.s.GetRefund() }
func (u *refState) LogCount() int        { return len(u.s.Logs()) }
func (u *refState) Create(a addr)        { u.s.CreateAccount(rcommon.Address(a)) }
func (u *refState) AddBal(a addr, v *big.Int) {
	u.s.AddBalance(rcommon.Address(a), new(big.Int).Set(v))
}
func (u *refState) SubBal(a addr, v *big.Int) {
	u.s.SubBalance(rcommon.Address(a), new(big.Int).Set(v))
}
func (u *refState) SetBal(a addr, v *big.Int) {
	u.s.SetBalance(rcommon.Address(a), new(big.Int).Set(v))
}
func (u *refState) SetNonce(a addr, n uint64) { u.s.SetNonce(rcommon.Address(a), n) }
func (u *refState) SetCode(a addr, c []byte)  { u.s.SetCode(rcommon.Address(a), append([]byte{}, c...)) }
func (u *refState) SetState(a addr, k, v word) {
	u.s.SetState(rcommon.Address(a), rcommon.Hash(k), rcommon.Hash(v))
}
func (u *refState) Suicide(a addr) bool { return u.s.Suicide(rcommon.Address(a)) }
func (u *refState) AddRefund(n uint64)  { u.s.AddRefund(n) }
func (u *refState) AddLog(a addr)       { u.s.AddLog(&rtypes.Log{Address: rcommon.Address(a)}) }
func (u *refState) Snapshot() int       { return u.s.Snapshot() }
func (u *refState) Revert(id int)       { u.s.RevertToSnapshot(id) }
func (u *refState) IRoot(del bool) word { return word(u.s.IntermediateRoot(del)) }
func (u *refState) Commit(del bool) (word, error) {
	r, err := u.s.Commit(del)
	return word(r), err
}
func (u *refState) CopyCommit(del bool) (word, error) {
	r, err := u.s.Copy().Commit(del)
	return word(r), err
}
func (u *refState) DBError() error { return u.s.Error() }
func (u *refState) Reopen(root word, disk bool) error {
	if disk {
		if err := u.db.TrieDB().Commit(rcommon.Hash(root), false); err != nil {
			return err
		}
		u.db = rstate.NewDatabase(u.disk)
	}
	s, err := rstate.New(rcommon.Hash(root), u.db)
	if err != nil {
		return err
	}
	u.s = s
	return nil
}

// ---- dumps ----

// acctDump is everything observable about one address through the getters.
func acctDump(s sdb, a addr) string {
	if !s.Exist(a) {
		// every getter of an absent account takes the same "no object" branch; Empty is the
		// only one with a non-zero answer
		if !s.Empty(a) {
			return "absent but not empty"
		}
		return "absent"
	}
	b := make([]byte, 0, 256)
	b = append(b, "exist empty="...)
	b = strconv.AppendBool(b, s.Empty(a))
	b = append(b, " bal="...)
	b = s.Balance(a).Append(b, 10)
	b = append(b, " nonce="...)
	b = strconv.AppendUint(b, s.Nonce(a), 10)
	b = append(b, " code="...)
	b = hex.AppendEncode(b, s.Code(a))
	ch := s.CodeHash(a)
	b = append(b, " codehash="...)
	b = hex.AppendEncode(b, ch[:])
	b = append(b, " size="...)
	b = strconv.AppendInt(b, int64(s.CodeSize(a)), 10)
	b = append(b, " suicided="...)
	b = strconv.AppendBool(b, s.Suicided(a))
	for i, k := range stKeys {
		b = append(b, " s"...)
		b = strconv.AppendInt(b, int64(i), 10)
		b = append(b, '=')
		b = hex.AppendEncode(b, trimWord(s.State(a, k)))
		b = append(b, " c"...)
		b = strconv.AppendInt(b, int64(i), 10)
		b = append(b, '=')
		b = hex.AppendEncode(b, trimWord(s.Committed(a, k)))
	}
	return string(b)
}

func trimWord(w word) []byte { return bytes.TrimLeft(w[:], "\x00") }

func fullDump(s sdb) []string {
	out := make([]string, len(stAddrs))
	for i, a := range stAddrs {
		out[i] = acctDump(s, a)
	}
	return out
}

// content extracts the persistent content (what the root must be a function of).
func content(s sdb) map[string]*naiveAccount {
	m := map[string]*naiveAccount{}
	for _, a := range stAddrs {
		if !s.Exist(a) {
			continue
		}
		na := &naiveAccount{nonce: s.Nonce(a), balance: s.Balance(a).Bytes(), code: s.Code(a), storage: map[string][]byte{}}
		for _, k := range stKeys {
			v := s.State(a, k)
			if v != (word{}) {
				na.storage[string(k[:])] = append([]byte{}, v[:]...)
			}
		}
		m[string(a[:])] = na
	}
	return m
}

func contentString(m map[string]*naiveAccount) string {
	var b strings.Builder
	for _, a := range stAddrs {
		na := m[string(a[:])]
		if na == nil {
			continue
		}
		fmt.Fprintf(&b, "%x: nonce=%d bal=%x code=%x", a[:2], na.nonce, na.balance, na.code)
		for i, k := range stKeys {
			if v, ok := na.storage[string(k[:])]; ok {
				fmt.Fprintf(&b, " s%d=%x", i, bytes.TrimLeft(v, "\x00"))
			}
		}
		b.WriteString("; ")
	}
	return b.String()
}

func diffDump(a, b []string) string {
	for i := range a {
		if a[i] != b[i] {
			return fmt.Sprintf("address #%d: {%s} vs {%s}", i, a[i], b[i])
		}
	}
	return ""
}

// ---- generator ----

func genStateCase(t *rapid.T) StateCase {
	kinds := []string{
		"setstate", "setstate", "setstate", "setstate", "setstate", "setstate", "setstate", "setstate",
		"addbal", "addbal", "addbal", "addbal", "subbal", "subbal", "subbal", "setbal", "setbal",
		"setnonce", "setnonce", "setnonce", "setcode", "setcode", "setcode", "create", "create", "create",
		"suicide", "suicide", "suicide", "refund", "log",
		"snapshot", "snapshot", "snapshot", "snapshot", "snapshot", "snapshot", "snapshot", "revert", "revert", "revert", "revert", "revert", "revert",
		"iroot", "iroot", "commit", "reopen", "reopen", "copycommit", "copycommit",
	}
	var c StateCase
	n := rapid.IntRange(1, 60).Draw(t, "nOps")
	for i := 0; i < n; i++ {
		op := StOp{Op: rapid.SampledFrom(kinds).Draw(t, "op")}
		switch op.Op {
		case "snapshot":
		case "revert":
			op.V = rapid.IntRange(0, 5).Draw(t, "depth")
		case "iroot":
		case "commit", "copycommit":
			op.Del = rapid.Bool().Draw(t, "del")
		case "reopen":
			op.Del = rapid.Bool().Draw(t, "del")
			op.Disk = rapid.Bool().Draw(t, "disk")
		case "refund":
			op.V = rapid.IntRange(0, 5).Draw(t, "v")
		default:
			op.A = rapid.IntRange(0, len(stAddrs)-1).Draw(t, "a")
			if op.Op == "setstate" {
				op.K = rapid.IntRange(0, len(stKeys)-1).Draw(t, "k")
			}
			op.V = rapid.IntRange(0, 8).Draw(t, "v")
		}
		c.Ops = append(c.Ops, op)
	}
	c.FinalDel = rapid.Bool().Draw(t, "finalDel")
	return c
}

// ---- run ----

type snap struct {
	idU, idR int
	dump     []string
	refund   uint64
	logs     int
	at       int // index into the mutation log
}

// mut is one executed mutating operation: its kind, address, whether it journals an entry
// that marks the address dirty, and whether it replaced an existing account object.
type mut struct {
	kind         string
	a            addr
	dirty, reset bool
}

type stRun struct {
	x     *h.Ctx
	u, r  sdb
	snaps []snap
	cur   []string // dump of the state under test after the previous operation
	muts  []mut    // the journaled operations of the current transaction that were not reverted
	stats struct{ reverts, richReverts, nested, reopenDisk, reopenCache, suicides, resets, rootChecks, deletedEmpty int }
}

// compare checks that the implementation under test and the reference agree on every getter.
func (r *stRun) compare(where string) bool {
	r.cur = fullDump(r.u)
	return r.compareRef(where)
}

func (r *stRun) compareRef(where string) bool {
	if d := diffDump(r.cur, fullDump(r.r)); d != "" {
		return r.x.Fail("statedb-differs-from-reference", "%s: getters differ from reference go-ethereum StateDB fed the same operations: %s", where, d)
	}
	return false
}

// roots checks a freshly computed root against the reference and the naive world-state root of
// the observable content.
func (r *stRun) roots(ru, rr word, where string) bool {
	if ru != rr {
		return r.x.Fail("state-root-differs-from-reference", "%s: root %x, reference go-ethereum StateDB %x", where, ru, rr)
	}
	ct := content(r.u)
	if nr := naiveStateRoot(ct); !bytes.Equal(nr, ru[:]) {
		return r.x.Fail("state-root-differs-from-yellow-paper-root", "%s: root %x, naive world-state root of the observable content %x; content: %s", where, ru, nr, contentString(ct))
	}
	// StateDB.Error() memoises the first database error. go-ethereum 1.8 records a spurious
	// "not found" when GetCodeSize is asked about an account without code, so only a
	// disagreement with the reference counts.
	if eu, er := r.u.DBError(), r.r.DBError(); (eu == nil) != (er == nil) {
		return r.x.Fail("statedb-database-error", "%s: StateDB.Error() = %v, reference %v", where, eu, er)
	}
	r.stats.rootChecks++
	return false
}

func (r *stRun) endTx() { r.snaps, r.muts = nil, nil }

// bareReset finds an address whose account object was replaced by CreateAccount in the current
// transaction while no operation of the transaction marks that address dirty. No real caller
// produces this (the EVM follows CreateAccount with SetNonce/Transfer and ends a successful
// create with SetCode), and StateDB is known to mishandle it, see bareResetCheck.
func (r *stRun) bareReset() (addr, bool) {
	for i, m := range r.muts {
		if !m.reset {
			continue
		}
		dirty := false
		for _, o := range r.muts {
			if o.a == m.a && o.dirty {
				dirty = true
			}
		}
		if !dirty {
			return r.muts[i].a, true
		}
	}
	return addr{}, false
}

// bareResetCheck ends a case whose transaction contains a bare reset: the root must still be the
// naive root of the observable content. The reference (go-ethereum 1.8.27) has the same defect,
// so it is not consulted, and the case stops here because reference and tree under test may
// legitimately diverge from now on.
func (r *stRun) bareResetCheck(a addr, del bool, where string) {
	ru := r.u.IRoot(del)
	ct := content(r.u)
	r.x.Label("ended-at-bare-reset")
	if nr := naiveStateRoot(ct); !bytes.Equal(nr, ru[:]) {
		r.x.Fail("create-over-existing-account-not-written-to-trie", "%s: CreateAccount(%x) replaced an existing account and nothing else touched it in this transaction; IntermediateRoot(%v) = %x still commits to the old account, the root of the observable content is %x; content: %s", where, a[:2], del, ru, nr, contentString(ct))
	}
}

func (r *stRun) commit(del bool, where string) (word, bool) {
	ru, eu := r.u.Commit(del)
	rr, er := r.r.Commit(del)
	if eu != nil || er != nil {
		return ru, r.x.Fail("statedb-commit-error", "%s: Commit(%v) errors: %v / reference %v", where, del, eu, er)
	}
	r.endTx()
	return ru, r.roots(ru, rr, where+fmt.Sprintf(" Commit(%v)", del)) || r.compare(where+" after Commit")
}

func (r *stRun) reopen(root word, disk bool, where string) bool {
	before := content(r.u)
	if err := r.u.Reopen(root, disk); err != nil {
		return r.x.Fail("statedb-reopen-error", "%s: state.New(%x) after Commit (disk=%v): %v", where, root, disk, err)
	}
	if err := r.r.Reopen(root, disk); err != nil {
		return r.x.Fail("harness-reference-reopen", "%s: reference reopen failed: %v", where, err)
	}
	after := content(r.u)
	if a, b := contentString(before), contentString(after); a != b {
		return r.x.Fail("reopened-state-differs-from-committed-content", "%s: content before reopen {%s}, after reopening root %x (disk=%v) {%s}", where, a, root, disk, b)
	}
	if r.compare(where + " after reopen") {
		return true
	}
	for _, a := range stAddrs {
		for _, k := range stKeys {
			if r.u.State(a, k) != r.u.Committed(a, k) {
				return r.x.Fail("reopened-committed-state-differs", "%s: after reopen GetState != GetCommittedState for %x/%x", where, a[:2], k[30:])
			}
		}
	}
	ru, rr := r.u.IRoot(false), r.r.IRoot(false)
	if ru != root {
		return r.x.Fail("reopened-state-has-other-root", "%s: state reopened at %x reports root %x", where, root, ru)
	}
	return r.roots(ru, rr, where+" reopened IntermediateRoot(false)")
}

func runStateCase(c StateCase, x *h.Ctx) {
	r := &stRun{x: x, u: newUT(), r: newRef()}
	u := r.u
	r.cur = fullDump(u)
	// deleteEmptyObjects is a per-block constant for every real caller (Finalise/IntermediateRoot
	// after each transaction and Commit at the end of the block get the same chain-config flag):
	// an IntermediateRoot uses the flag of the Commit that ends its commit period.
	periodDel := make([]bool, len(c.Ops))
	cur := c.FinalDel
	for i := len(c.Ops) - 1; i >= 0; i-- {
		if c.Ops[i].Op == "commit" || c.Ops[i].Op == "reopen" {
			cur = c.Ops[i].Del
		}
		periodDel[i] = cur
	}
	for idx, op := range c.Ops {
		op.Del = periodDel[idx]
		a := stAddrs[op.A%len(stAddrs)]
		where := fmt.Sprintf("op %d %s", idx, op.Op)
		var before []string
		single := false // operation that may only change address a
		switch op.Op {
		case "create", "addbal", "subbal", "setbal", "setnonce", "setcode", "setstate", "suicide":
			single = true
			before = r.cur
		}
		oldBal := new(big.Int).Set(u.Balance(a))
		existed := u.Exist(a)
		wasEmpty := u.Empty(a)
		dirty, reset := !existed, false // operations on an absent address create it (journaled, dirty)
		switch op.Op {
		case "iroot", "commit", "reopen", "copycommit":
			if ba, ok := r.bareReset(); ok {
				r.bareResetCheck(ba, op.Del, where)
				return
			}
		}
		post := func(ok bool, f string, args ...any) bool {
			if ok {
				return false
			}
			return x.Fail("statedb-postcondition:"+op.Op, where+": "+f, args...)
		}
		switch op.Op {
		case "create":
			u.Create(a)
			r.r.Create(a)
			if existed {
				r.stats.resets++
				reset = true
			}
			bad := post(u.Exist(a) && u.Nonce(a) == 0 && len(u.Code(a)) == 0 && u.Balance(a).Cmp(oldBal) == 0 && !u.Suicided(a),
				"CreateAccount(%x): exist=%v nonce=%d code=%x balance=%s (carried over: %s) suicided=%v", a[:2], u.Exist(a), u.Nonce(a), u.Code(a), u.Balance(a), oldBal, u.Suicided(a))
			for _, k := range stKeys {
				bad = bad || post(u.State(a, k) == (word{}), "CreateAccount(%x): storage %x = %x, want zero in a new account", a[:2], k[30:], trimWord(u.State(a, k)))
			}
			if bad {
				return
			}
		case "addbal":
			v := stAmounts[op.V%len(stAmounts)]
			u.AddBal(a, v)
			r.r.AddBal(a, v)
			dirty = dirty || v.Sign() != 0 || wasEmpty // a zero-value transfer touches an empty account
			if post(u.Exist(a) && u.Balance(a).Cmp(new(big.Int).Add(oldBal, v)) == 0, "AddBalance(%x, %s): balance %s -> %s, exist=%v", a[:2], v, oldBal, u.Balance(a), u.Exist(a)) {
				return
			}
		case "subbal":
			// real callers check CanTransfer first: never more than the balance
			v := new(big.Int).Set(stAmounts[op.V%len(stAmounts)])
			if v.Cmp(oldBal) > 0 {
				v.Set(oldBal)
			}
			u.SubBal(a, v)
			r.r.SubBal(a, v)
			dirty = dirty || v.Sign() != 0
			if post(u.Exist(a) && u.Balance(a).Cmp(new(big.Int).Sub(oldBal, v)) == 0, "SubBalance(%x, %s): balance %s -> %s, exist=%v", a[:2], v, oldBal, u.Balance(a), u.Exist(a)) {
				return
			}
		case "setbal":
			v := stAmounts[op.V%len(stAmounts)]
			u.SetBal(a, v)
			r.r.SetBal(a, v)
			dirty = true
			if post(u.Exist(a) && u.Balance(a).Cmp(v) == 0, "SetBalance(%x, %s): balance %s", a[:2], v, u.Balance(a)) {
				return
			}
		case "setnonce":
			n := stNonces[op.V%len(stNonces)]
			u.SetNonce(a, n)
			r.r.SetNonce(a, n)
			dirty = true
			if post(u.Exist(a) && u.Nonce(a) == n, "SetNonce(%x, %d): nonce %d", a[:2], n, u.Nonce(a)) {
				return
			}
		case "setcode":
			code := stCodes[op.V%len(stCodes)]
			u.SetCode(a, code)
			r.r.SetCode(a, code)
			dirty = true
			if post(u.Exist(a) && bytes.Equal(u.Code(a), code) && u.CodeSize(a) == len(code) && bytes.Equal(kec(code), wbytes(u.CodeHash(a))),
				"SetCode(%x, %x): code %x size %d hash %x", a[:2], code, u.Code(a), u.CodeSize(a), u.CodeHash(a)) {
				return
			}
		case "setstate":
			k, v := stKeys[op.K%len(stKeys)], stVals[op.V%len(stVals)]
			dirty = dirty || u.State(a, k) != v // writing the current value journals nothing
			u.SetState(a, k, v)
			r.r.SetState(a, k, v)
			if post(u.Exist(a) && u.State(a, k) == v, "SetState(%x, %x, %x): reads back %x", a[:2], k[30:], trimWord(v), trimWord(u.State(a, k))) {
				return
			}
		case "suicide":
			got := u.Suicide(a)
			r.r.Suicide(a)
			dirty = existed
			if existed {
				r.stats.suicides++
			}
			if post(got == existed && (!existed || (u.Suicided(a) && u.Balance(a).Sign() == 0)), "Suicide(%x) = %v (existed %v): suicided=%v balance=%s", a[:2], got, existed, u.Suicided(a), u.Balance(a)) {
				return
			}
		case "refund":
			u.AddRefund(uint64(op.V) * 100)
			r.r.AddRefund(uint64(op.V) * 100)
		case "log":
			u.AddLog(a)
			r.r.AddLog(a)
		case "snapshot":
			r.snaps = append(r.snaps, snap{idU: u.Snapshot(), idR: r.r.Snapshot(), dump: r.cur, refund: u.Refund(), logs: u.LogCount(), at: len(r.muts)})
			if len(r.snaps) >= 2 {
				r.stats.nested++
			}
			continue
		case "revert":
			if len(r.snaps) == 0 {
				continue
			}
			i := len(r.snaps) - 1 - op.V%len(r.snaps)
			s := r.snaps[i]
			u.Revert(s.idU)
			r.r.Revert(s.idR)
			now := fullDump(u)
			r.cur = now
			kinds := map[string]bool{}
			var undone []string
			for _, m := range r.muts[s.at:] {
				kinds[m.kind] = true
				undone = append(undone, m.kind)
			}
			if d := diffDump(s.dump, now); d != "" {
				x.Fail("revert-does-not-restore-snapshot", "%s: after RevertToSnapshot(%d) over %v the state differs from the dump taken at Snapshot(): %s", where, s.idU, undone, d)
				return
			}
			if u.Refund() != s.refund || u.LogCount() != s.logs {
				x.Fail("revert-does-not-restore-refund-or-logs", "%s: after RevertToSnapshot(%d) refund=%d logs=%d, at Snapshot() refund=%d logs=%d", where, s.idU, u.Refund(), u.LogCount(), s.refund, s.logs)
				return
			}
			r.snaps = r.snaps[:i]
			r.muts = r.muts[:s.at]
			r.stats.reverts++
			if len(kinds) >= 2 {
				r.stats.richReverts++
			}
			if r.compareRef(where) {
				return
			}
			continue
		case "iroot":
			nExist := len(content(u))
			ru, rr := u.IRoot(op.Del), r.r.IRoot(op.Del)
			r.endTx()
			if r.roots(ru, rr, fmt.Sprintf("%s IntermediateRoot(%v)", where, op.Del)) {
				return
			}
			if len(content(u)) < nExist {
				r.stats.deletedEmpty++
			}
		case "commit":
			if _, bad := r.commit(op.Del, where); bad {
				return
			}
		case "copycommit":
			// a copy of the state (what RPC calls, pending-state queries and storage proofs work on) is
			// taken while changes are pending and committed first; the original goes on
			ru, eu := r.u.CopyCommit(op.Del)
			rr, er := r.r.CopyCommit(op.Del)
			x.Label("copy-committed-while-changes-pending")
			if (eu != nil) != (er != nil) || ru != rr {
				if x.Fail("statedb-copy-commit-differs-from-reference", "%s: Copy().Commit(%v) gives root %x (err %v), the reference %x (err %v)", where, op.Del, ru[:4], eu, rr[:4], er) {
					return
				}
			}
			if r.compare(where + " (after a copy was committed)") {
				return
			}
		case "reopen":
			root, bad := r.commit(op.Del, where)
			if bad || r.reopen(root, op.Disk, where) {
				return
			}
			if op.Disk {
				r.stats.reopenDisk++
			} else {
				r.stats.reopenCache++
			}
			u = r.u
		}
		if single || op.Op == "refund" || op.Op == "log" {
			r.muts = append(r.muts, mut{kind: op.Op, a: a, dirty: dirty && single, reset: reset})
		}
		if single {
			// the operation may change address a only, and there it agrees with the reference
			after := fullDump(u)
			r.cur = after
			if du, dr := after[op.A%len(stAddrs)], acctDump(r.r, a); du != dr {
				x.Fail("statedb-differs-from-reference", "%s: getters of %x differ from reference go-ethereum StateDB fed the same operations: {%s} vs {%s}", where, a[:2], du, dr)
				return
			}
			for i := range stAddrs {
				if stAddrs[i] != a && before[i] != after[i] {
					x.Fail("statedb-operation-changes-other-account", "%s on %x changed address #%d: {%s} -> {%s}", where, a[:2], i, before[i], after[i])
					return
				}
			}
		}
		if !single && r.compare(where) {
			return
		}
	}

	// ---- final: root, history independence, commit + reopen from disk ----
	if ba, ok := r.bareReset(); ok {
		r.bareResetCheck(ba, c.FinalDel, "final")
		return
	}
	ru, rr := r.u.IRoot(c.FinalDel), r.r.IRoot(c.FinalDel)
	r.endTx()
	if r.roots(ru, rr, fmt.Sprintf("final IntermediateRoot(%v)", c.FinalDel)) {
		return
	}
	ct := content(r.u)
	fresh := newUT()
	for _, a := range stAddrs {
		na := ct[string(a[:])]
		if na == nil {
			continue
		}
		fresh.Create(a)
		fresh.SetBal(a, new(big.Int).SetBytes(na.balance))
		fresh.SetNonce(a, na.nonce)
		if len(na.code) > 0 {
			fresh.SetCode(a, na.code)
		}
		for _, k := range stKeys {
			if v, ok := na.storage[string(k[:])]; ok {
				var w word
				copy(w[:], v)
				fresh.SetState(a, k, w)
			}
		}
	}
	if fr := fresh.IRoot(false); fr != ru {
		x.Fail("state-root-depends-on-history", "final: root after the history %x, root of a fresh StateDB given the same content %x; content: %s", ru, fr, contentString(ct))
		return
	}
	root, bad := r.commit(c.FinalDel, "final")
	if bad {
		return
	}
	if root != ru {
		x.Fail("commit-root-differs-from-intermediate-root", "final: IntermediateRoot %x, Commit right after %x", ru, root)
		return
	}
	if r.reopen(root, true, "final") {
		return
	}

	// ---- labels ----
	x.Labelf("final-accounts:%s", sizeBucket(len(ct)))
	nStore := 0
	for _, na := range ct {
		nStore += len(na.storage)
	}
	if nStore > 0 {
		x.Label("final-has-storage")
	}
	if r.stats.reverts > 0 {
		x.Label("revert")
	}
	if r.stats.richReverts > 0 {
		x.Label("revert-over->=2-kinds")
	}
	if r.stats.nested > 0 {
		x.Label("nested-snapshots")
	}
	if r.stats.suicides > 0 {
		x.Label("suicide-of-existing")
	}
	if r.stats.resets > 0 {
		x.Label("create-over-existing")
	}
	if r.stats.deletedEmpty > 0 {
		x.Label("intermediate-root-deleted-accounts")
	}
	if r.stats.reopenDisk > 0 {
		x.Label("reopen-disk")
	}
	if r.stats.reopenCache > 0 {
		x.Label("reopen-cache")
	}
	if r.stats.richReverts > 0 {
		x.NonTrivial()
	}
}

func wbytes(w word) []byte { return w[:] }

func TestState(t *testing.T) {
	h.Check(t, h.Spec[StateCase]{Prop: "C11", Leg: "state", Gen: genStateCase, Run: runStateCase})
}
