// C11 leg "trie": histories on eth/trie Trie and SecureTrie against a Go map model, a naive
// yellow-paper MPT root, the reference go-ethereum v1.8.27 trie, history independence,
// reopen from the node database and Merkle proofs.
package c11

import (
	"bytes"
	"fmt"
	"sort"
	"testing"

	"github.com/dappledger/AnnChain/eth/common"
	"github.com/dappledger/AnnChain/eth/ethdb"
	"github.com/dappledger/AnnChain/eth/trie"
	rcommon "github.com/ethereum/go-ethereum/common"
	rethdb "github.com/ethereum/go-ethereum/ethdb"
	rtrie "github.com/ethereum/go-ethereum/trie"
	"pgregory.net/rapid"

	"verif/internal/h"
)

func TestMain(m *testing.M) { h.Main(m) }

type TrieOp struct {
	Op    string `json:"op"` // put del get hash commit flush cap reopen reopendisk gc prove iter seek copy
	K     int    `json:"k"`  // index into Keys (modulo)
	VLen  int    `json:"vlen,omitempty"`
	VFill int    `json:"vfill,omitempty"`
	P     int    `json:"p,omitempty"` // proof mutation selector
}

type TrieCase struct {
	Secure     bool     `json:"secure"`
	CacheLimit int      `json:"cache_limit"`
	Keys       []h.Hex  `json:"keys"`
	Ops        []TrieOp `json:"ops"`
}

func mkValue(n, fill int) []byte {
	v := make([]byte, n)
	for i := range v {
		v[i] = byte(fill + i*7)
	}
	return v
}

var keyAlphabet = []byte{0x00, 0x01, 0x10, 0x11, 0x0f, 0xf0, 0xff, 0x80}
var nibAlphabet = []byte{0, 1, 8, 15}

func genKeys(t *rapid.T) []h.Hex {
	mode := rapid.SampledFrom([]string{"fixed32", "fixed32", "var", "short"}).Draw(t, "keyMode")
	maxLen := 32
	if mode == "short" {
		maxLen = 3
	}
	n := rapid.IntRange(1, 12).Draw(t, "nKeys")
	var keys []h.Hex
	for len(keys) < n {
		if len(keys) == 0 {
			l := maxLen
			if mode != "fixed32" {
				l = rapid.IntRange(0, maxLen).Draw(t, "len0")
			}
			k := make([]byte, l)
			for i := range k {
				k[i] = rapid.SampledFrom(keyAlphabet).Draw(t, "kb")
			}
			keys = append(keys, k)
			continue
		}
		base := nibbles(keys[rapid.IntRange(0, len(keys)-1).Draw(t, "base")])
		p := rapid.IntRange(0, len(base)).Draw(t, "sharedNibbles")
		l := maxLen
		if mode != "fixed32" {
			l = rapid.IntRange((p+1)/2, maxLen).Draw(t, "len")
		}
		nb := make([]byte, 2*l)
		copy(nb, base[:p])
		for i := p; i < len(nb); i++ {
			if i == p && p < len(base) {
				nb[i] = (base[p] + byte(rapid.IntRange(1, 15).Draw(t, "diff"))) % 16
			} else {
				nb[i] = rapid.SampledFrom(nibAlphabet).Draw(t, "nib")
			}
		}
		k := make([]byte, l)
		for i := range k {
			k[i] = nb[2*i]<<4 | nb[2*i+1]
		}
		keys = append(keys, k)
	}
	return keys
}

func genTrieCase(t *rapid.T) TrieCase {
	var c TrieCase
	c.Secure = rapid.IntRange(0, 2).Draw(t, "secure") == 0
	c.CacheLimit = rapid.SampledFrom([]int{0, 0, 1, 2, 3, 120}).Draw(t, "cacheLimit")
	c.Keys = genKeys(t)
	kinds := []string{
		"put", "put", "put", "put", "put", "put", "put", "put", "put", "put",
		"del", "del", "del", "del", "del",
		"get", "get", "hash", "hash", "commit", "commit", "flush", "cap", "reopen", "reopendisk", "gc",
		"prove", "prove", "prove", "iter", "seek", "copy",
	}
	n := rapid.IntRange(1, 48).Draw(t, "nOps")
	for i := 0; i < n; i++ {
		op := TrieOp{Op: rapid.SampledFrom(kinds).Draw(t, "op"), K: rapid.IntRange(0, len(c.Keys)-1).Draw(t, "k")}
		switch op.Op {
		case "put":
			op.VLen = rapid.OneOf(rapid.IntRange(0, 70), rapid.IntRange(1, 34), rapid.SampledFrom([]int{0, 1, 31, 32, 33, 55, 56})).Draw(t, "vlen")
			op.VFill = rapid.OneOf(rapid.IntRange(0, 255), rapid.SampledFrom([]int{0, 1, 0x7f, 0x80, 0xff})).Draw(t, "vfill")
		case "prove":
			op.P = rapid.IntRange(0, 1<<20).Draw(t, "p")
		}
		c.Ops = append(c.Ops, op)
	}
	return c
}

// uTrie is what Trie and SecureTrie have in common.
type uTrie interface {
	TryGet(key []byte) ([]byte, error)
	TryUpdate(key, value []byte) error
	TryDelete(key []byte) error
	Hash() common.Hash
	Commit(onleaf trie.LeafCallback) (common.Hash, error)
	NodeIterator(start []byte) trie.NodeIterator
	Prove(key []byte, fromLevel uint, proofDb ethdb.Putter) error
}

type rTrie interface {
	TryUpdate(key, value []byte) error
	TryDelete(key []byte) error
	Hash() rcommon.Hash
	Commit(onleaf rtrie.LeafCallback) (rcommon.Hash, error)
}

func openTrie(secure bool, root common.Hash, db *trie.Database, limit int) (uTrie, error) {
	if secure {
		return trie.NewSecure(root, db, uint16(limit))
	}
	t, err := trie.New(root, db)
	if err == nil {
		t.SetCacheLimit(uint16(limit))
	}
	return t, err
}

func openRef(secure bool, db *rtrie.Database) rTrie {
	if secure {
		t, _ := rtrie.NewSecure(rcommon.Hash{}, db, 0)
		return t
	}
	t, _ := rtrie.New(rcommon.Hash{}, db)
	return t
}

// proofList records proof nodes in the order Prove emits them.
type proofList struct{ keys, vals [][]byte }

func (p *proofList) Put(k, v []byte) error {
	p.keys = append(p.keys, append([]byte{}, k...))
	p.vals = append(p.vals, append([]byte{}, v...))
	return nil
}

// nodeSet is a content-addressed proof database: what a verifier builds from the node list it
// received (every blob filed under its own keccak).
type nodeSet map[string][]byte

func newNodeSet(blobs [][]byte) nodeSet {
	s := nodeSet{}
	for _, b := range blobs {
		s[string(kec(b))] = b
	}
	return s
}
func (s nodeSet) Get(k []byte) ([]byte, error) {
	if v, ok := s[string(k)]; ok {
		return v, nil
	}
	return nil, fmt.Errorf("not found")
}
func (s nodeSet) Has(k []byte) (bool, error) { _, ok := s[string(k)]; return ok, nil }

func sortedKeys(m map[string][]byte) []string {
	ks := make([]string, 0, len(m))
	for k := range m {
		ks = append(ks, k)
	}
	sort.Strings(ks)
	return ks
}

func cloneModel(m map[string][]byte) map[string][]byte {
	o := make(map[string][]byte, len(m))
	for k, v := range m {
		o[k] = v
	}
	return o
}

// collapses reports whether deleting key k from the content removes a branch (a prefix at which
// the keys had >= 2 distinct continuations is left with exactly one).
func (r *trieRun) collapses(k []byte) bool {
	if _, ok := r.model[string(k)]; !ok {
		return false
	}
	model := map[string]bool{}
	for o := range r.model {
		model[string(r.tkey([]byte(o)))] = true
	}
	return collapses(model, string(r.tkey(k)))
}

func collapses(model map[string]bool, k string) bool {
	fan := func(prefix []byte, doSkip bool) int {
		seen := map[int]bool{}
		for o := range model {
			if doSkip && o == k {
				continue
			}
			on := nibbles([]byte(o))
			if len(on) < len(prefix) || !bytes.Equal(on[:len(prefix)], prefix) {
				continue
			}
			if len(on) == len(prefix) {
				seen[16] = true
			} else {
				seen[int(on[len(prefix)])] = true
			}
		}
		return len(seen)
	}
	kn := nibbles([]byte(k))
	for i := 0; i <= len(kn); i++ {
		if fan(kn[:i], false) >= 2 && fan(kn[:i], true) == 1 {
			return true
		}
	}
	return false
}

type trieRun struct {
	c     TrieCase
	x     *h.Ctx
	disk  *ethdb.MemDatabase
	tdb   *trie.Database
	t     uTrie
	model map[string][]byte
	pins  []common.Hash
	dirty bool // changes since the last commit
	last  common.Hash
	ref   rTrie
	fork  uTrie
	forkM map[string][]byte
	stats struct{ collapse, embedded, big, small, node32, prefixKey, unloadCommits, commits int }
}

// tkey maps a user key to the key of the underlying trie (hashed for SecureTrie), computed
// with the harness' own keccak.
func (r *trieRun) tkey(k []byte) []byte {
	if r.c.Secure {
		return kec(k)
	}
	return k
}

func (r *trieRun) naive(model map[string][]byte) ([]byte, naiveStats) {
	if r.c.Secure {
		return naiveSecureRoot(model)
	}
	return naiveRoot(model)
}

func eqVal(got, want []byte) bool { return len(got) == len(want) && bytes.Equal(got, want) }

func (r *trieRun) checkGets(t uTrie, model map[string][]byte, where string) bool {
	for i, k := range r.c.Keys {
		got, err := t.TryGet(k)
		if err != nil {
			return r.x.Fail("trie-get-error", "%s: TryGet(key %d = %x): %v", where, i, []byte(k), err)
		}
		if !eqVal(got, model[string(k)]) {
			return r.x.Fail("trie-get-differs-from-model", "%s: TryGet(key %d = %x) = %x, model %x", where, i, []byte(k), got, model[string(k)])
		}
	}
	return false
}

func (r *trieRun) checkRoot(got common.Hash, model map[string][]byte, where string) bool {
	want, st := r.naive(model)
	if !bytes.Equal(got[:], want) {
		return r.x.Fail("trie-root-differs-from-yellow-paper-root", "%s: root %x, naive yellow-paper root %x for content of %d keys (secure=%v)", where, got, want, len(model), r.c.Secure)
	}
	if st.embedded > 0 {
		r.stats.embedded++
	}
	if st.exact32 > 0 {
		r.stats.node32++
	}
	return false
}

// pathOf is the iteration position of a key: its nibbles followed by the terminator symbol 16
// (NodeIterator.Path; a key that is a prefix of other keys sits in slot 16 of a branch and is
// therefore visited after them).
func pathOf(k []byte) []byte { return append(nibbles(k), 16) }

func (r *trieRun) checkIter(t uTrie, model map[string][]byte, start []byte, where string) bool {
	want := map[string][]byte{}
	for k, v := range model {
		tk := r.tkey([]byte(k))
		// iteration starts at the first position that is not before the start key
		if start == nil || bytes.Compare(pathOf(tk), nibbles(start)) >= 0 {
			want[string(tk)] = v
		}
	}
	wk := sortedKeys(want)
	sort.SliceStable(wk, func(i, j int) bool { return bytes.Compare(pathOf([]byte(wk[i])), pathOf([]byte(wk[j]))) < 0 })
	root := t.Hash()
	it := trie.NewIterator(t.NodeIterator(start))
	i := 0
	for it.Next() {
		if i >= len(wk) {
			return r.x.Fail("trie-iterator-extra-entry", "%s: iterator yields extra key %x", where, it.Key)
		}
		if !bytes.Equal(it.Key, []byte(wk[i])) || !bytes.Equal(it.Value, want[wk[i]]) {
			return r.x.Fail("trie-iterator-differs-from-model", "%s: iterator entry %d = (%x,%x), model (%x,%x)", where, i, it.Key, it.Value, wk[i], want[wk[i]])
		}
		if st, ok := t.(*trie.SecureTrie); ok {
			var raw []byte
			for k := range model {
				if string(kec([]byte(k))) == wk[i] {
					raw = []byte(k)
				}
			}
			if got := st.GetKey(it.Key); !bytes.Equal(got, raw) {
				return r.x.Fail("securetrie-getkey-differs", "%s: GetKey(%x) = %x, preimage is %x", where, it.Key, got, raw)
			}
		}
		// leaf proof from the iterator verifies against the root
		if i == 0 || i == len(wk)-1 {
			val, _, err := trie.VerifyProof(root, it.Key, newNodeSet(it.Prove()))
			if err != nil || !bytes.Equal(val, it.Value) {
				return r.x.Fail("iterator-leaf-proof-does-not-verify", "%s: Iterator.Prove() for key %x verifies to (%x, %v), want %x", where, it.Key, val, err, it.Value)
			}
		}
		i++
	}
	if it.Err != nil {
		return r.x.Fail("trie-iterator-error", "%s: iterator error %v", where, it.Err)
	}
	if i != len(wk) {
		return r.x.Fail("trie-iterator-misses-entry", "%s: iterator yields %d entries, model has %d (first missing %x)", where, i, len(wk), wk[i])
	}
	return false
}

func (r *trieRun) checkFork(where string) bool {
	if r.fork == nil {
		return false
	}
	f, m := r.fork, r.forkM
	r.fork, r.forkM = nil, nil
	if r.checkRoot(f.Hash(), m, where+": copy taken earlier") {
		return true
	}
	return r.checkGets(f, m, where+": copy taken earlier")
}

func (r *trieRun) commit(where string) bool {
	root, err := r.t.Commit(nil)
	if err != nil {
		return r.x.Fail("trie-commit-error", "%s: Commit: %v", where, err)
	}
	if r.checkRoot(root, r.model, where+": Commit") {
		return true
	}
	r.tdb.Reference(root, common.Hash{})
	r.pins = append(r.pins, root)
	r.last = root
	r.dirty = false
	r.stats.commits++
	if rr, err := r.ref.Commit(nil); err != nil || !bytes.Equal(rr[:], root[:]) {
		return r.x.Fail("trie-root-differs-from-reference", "%s: committed root %x, reference go-ethereum %x (%v)", where, root, rr, err)
	}
	return false
}

func (r *trieRun) reopen(where string) bool {
	t, err := openTrie(r.c.Secure, r.last, r.tdb, r.c.CacheLimit)
	if err != nil {
		return r.x.Fail("trie-reopen-error", "%s: opening committed root %x: %v", where, r.last, err)
	}
	r.t = t
	if got := t.Hash(); got != r.last {
		return r.x.Fail("trie-reopen-root-differs", "%s: reopened trie has root %x, committed %x", where, got, r.last)
	}
	if r.checkGets(t, r.model, where) {
		return true
	}
	return r.checkIter(t, r.model, nil, where)
}

func (r *trieRun) prove(op TrieOp, idx int) bool {
	x := r.x
	k := []byte(r.c.Keys[op.K%len(r.c.Keys)])
	pk := r.tkey(k)
	where := fmt.Sprintf("op %d prove(%x)", idx, k)
	root := r.t.Hash()
	pl := &proofList{}
	if err := r.t.Prove(pk, 0, pl); err != nil {
		return x.Fail("trie-prove-error", "%s: %v", where, err)
	}
	for i := range pl.keys {
		if !bytes.Equal(pl.keys[i], kec(pl.vals[i])) {
			return x.Fail("proof-node-filed-under-wrong-hash", "%s: node %d stored under %x, its keccak is %x", where, i, pl.keys[i], kec(pl.vals[i]))
		}
	}
	want := r.model[string(k)]
	if len(r.model) == 0 {
		// An empty trie has no node at all, not even a root node: Prove emits nothing and
		// VerifyProof has nothing to walk (verifiers know the empty root hash). Only a
		// fabricated value would be a violation here.
		val, _, _ := trie.VerifyProof(root, pk, newNodeSet(pl.vals))
		if len(pl.vals) != 0 || val != nil {
			return x.Fail("proof-on-empty-trie", "%s: empty trie: Prove emitted %d nodes, VerifyProof value %x", where, len(pl.vals), val)
		}
		x.Label("proof-on-empty-trie")
		return false
	}
	val, _, err := trie.VerifyProof(root, pk, newNodeSet(pl.vals))
	if err != nil {
		return x.Fail("genuine-proof-rejected", "%s: VerifyProof of the generated proof (%d nodes, key present=%v): %v", where, len(pl.vals), want != nil, err)
	}
	if !eqVal(val, want) {
		return x.Fail("proof-yields-wrong-value", "%s: proof verifies to %x, model %x", where, val, want)
	}
	if want != nil {
		x.Label("proof-present")
	} else {
		x.Label("proof-absent")
	}
	// the same node set queried for any other key never yields a wrong value
	for _, o := range r.c.Keys {
		v2, _, err2 := trie.VerifyProof(root, r.tkey(o), newNodeSet(pl.vals))
		if err2 == nil && !eqVal(v2, r.model[string(o)]) {
			return x.Fail("proof-yields-wrong-value-for-other-key", "%s: node set for %x answers key %x with %x, model %x", where, k, []byte(o), v2, r.model[string(o)])
		}
	}
	// wrong root
	bad := root
	bad[op.P%32] ^= 1 << uint(op.P%8)
	if _, _, err := trie.VerifyProof(bad, pk, newNodeSet(pl.vals)); err == nil {
		return x.Fail("proof-verifies-against-other-root", "%s: proof verifies against a root with one flipped bit", where)
	}
	// one mutated node
	if n := len(pl.vals); n > 0 {
		mut := make([][]byte, n)
		for i := range mut {
			mut[i] = append([]byte{}, pl.vals[i]...)
		}
		ni := (op.P / 3) % n
		kind := []string{"flip", "drop", "truncate"}[op.P%3]
		switch kind {
		case "flip":
			mut[ni][(op.P/48)%len(mut[ni])] ^= 1 << uint((op.P/16)%8)
		case "drop":
			mut = append(mut[:ni], mut[ni+1:]...)
		case "truncate":
			mut[ni] = mut[ni][:len(mut[ni])-1]
		}
		var v3 []byte
		var err3 error
		func() {
			defer func() {
				if pv := recover(); pv != nil {
					err3 = fmt.Errorf("panic: %v", pv)
					x.Fail("verifyproof-panics-on-mutated-proof", "%s: VerifyProof panicked on a proof with node %d mutated (%s): %v", where, ni, kind, pv)
				}
			}()
			v3, _, err3 = trie.VerifyProof(root, pk, newNodeSet(mut))
		}()
		if x.Failed() {
			return true
		}
		if err3 == nil {
			return x.Fail("mutated-proof-accepted:"+kind, "%s: proof with node %d of %d mutated (%s) still verifies (value %x)", where, ni, n, kind, v3)
		}
		x.Label("proof-mutated:" + kind)
	}
	return false
}

func runTrieCase(c TrieCase, x *h.Ctx) {
	if len(c.Keys) == 0 {
		return
	}
	r := &trieRun{c: c, x: x, model: map[string][]byte{}}
	r.disk = ethdb.NewMemDatabase()
	r.tdb = trie.NewDatabase(r.disk)
	t, err := openTrie(c.Secure, common.Hash{}, r.tdb, c.CacheLimit)
	if err != nil {
		x.Fail("trie-open-empty-error", "opening the empty trie: %v", err)
		return
	}
	r.t = t
	r.ref = openRef(c.Secure, rtrie.NewDatabase(rethdb.NewMemDatabase()))
	r.last = common.BytesToHash(kec([]byte{0x80}))
	for _, a := range c.Keys {
		for _, b := range c.Keys {
			if len(a) < len(b) && bytes.Equal(a, b[:len(a)]) {
				r.stats.prefixKey++
			}
		}
	}

	for idx, op := range c.Ops {
		k := []byte(c.Keys[op.K%len(c.Keys)])
		where := fmt.Sprintf("op %d %s", idx, op.Op)
		switch op.Op {
		case "put":
			v := mkValue(op.VLen, op.VFill)
			if len(v) == 0 && r.collapses(k) {
				r.stats.collapse++
			}
			if err := r.t.TryUpdate(k, append([]byte{}, v...)); err != nil {
				x.Fail("trie-update-error", "%s: TryUpdate(%x, %d bytes): %v", where, k, len(v), err)
				return
			}
			r.ref.TryUpdate(k, append([]byte{}, v...))
			if len(v) == 0 {
				delete(r.model, string(k))
			} else {
				r.model[string(k)] = v
				if len(v) >= 32 {
					r.stats.big++
				} else {
					r.stats.small++
				}
			}
			r.dirty = true
		case "del":
			if r.collapses(k) {
				r.stats.collapse++
			}
			if err := r.t.TryDelete(k); err != nil {
				x.Fail("trie-delete-error", "%s: TryDelete(%x): %v", where, k, err)
				return
			}
			r.ref.TryDelete(k)
			delete(r.model, string(k))
			r.dirty = true
		case "get":
			if r.checkGets(r.t, r.model, where) {
				return
			}
		case "hash":
			root := r.t.Hash()
			if r.checkRoot(root, r.model, where) {
				return
			}
			if rr := r.ref.Hash(); !bytes.Equal(rr[:], root[:]) {
				x.Fail("trie-root-differs-from-reference", "%s: root %x, reference go-ethereum trie fed the same history %x", where, root, rr)
				return
			}
			if r.checkGets(r.t, r.model, where) || r.checkFork(where) {
				return
			}
		case "commit":
			if r.commit(where) || r.checkFork(where) {
				return
			}
		case "flush":
			if r.commit(where) {
				return
			}
			if err := r.tdb.Commit(r.last, false); err != nil {
				x.Fail("triedb-commit-error", "%s: Database.Commit(%x): %v", where, r.last, err)
				return
			}
			x.Label("flush")
		case "cap":
			if err := r.tdb.Cap(0); err != nil {
				x.Fail("triedb-cap-error", "%s: Database.Cap(0): %v", where, err)
				return
			}
			x.Label("cap")
		case "reopen":
			if r.commit(where) || r.reopen(where+" (same node database)") {
				return
			}
			x.Label("reopen-cache")
		case "reopendisk":
			if r.commit(where) || r.checkFork(where) {
				return
			}
			if err := r.tdb.Commit(r.last, false); err != nil {
				x.Fail("triedb-commit-error", "%s: Database.Commit(%x): %v", where, r.last, err)
				return
			}
			r.tdb = trie.NewDatabase(r.disk)
			r.pins = nil
			if r.reopen(where + " (fresh node database over the disk db)") {
				return
			}
			x.Label("reopen-disk")
		case "gc":
			// the newest committed root (the base of the live trie) stays referenced; older
			// references are released oldest first, as a chain does with old block states.
			if len(r.pins) >= 2 {
				if r.checkFork(where) {
					return
				}
				r.tdb.Dereference(r.pins[0])
				r.pins = r.pins[1:]
				x.Label("gc")
				if !r.dirty {
					// the committed root must still be complete
					keep := r.t
					if r.reopen(where + " (after dereferencing an older root)") {
						return
					}
					r.t = keep
				}
			}
		case "prove":
			if r.prove(op, idx) {
				return
			}
		case "iter":
			if r.checkIter(r.t, r.model, nil, where) {
				return
			}
			x.Label("iter")
		case "seek":
			if r.checkIter(r.t, r.model, r.tkey(k), where) {
				return
			}
			x.Label("seek")
		case "copy":
			if st, ok := r.t.(*trie.SecureTrie); ok {
				if r.checkFork(where) {
					return
				}
				r.fork, r.forkM = st.Copy(), cloneModel(r.model)
				x.Label("copy")
			}
		}
	}

	// ---- final oracles ----
	root := r.t.Hash()
	if r.checkRoot(root, r.model, "final") || r.checkGets(r.t, r.model, "final") || r.checkIter(r.t, r.model, nil, "final") || r.checkFork("final") {
		return
	}
	if rr := r.ref.Hash(); !bytes.Equal(rr[:], root[:]) {
		x.Fail("trie-root-differs-from-reference", "final: root %x, reference go-ethereum trie fed the same history %x", root, rr)
		return
	}
	// history independence: the same content inserted in sorted order into a fresh trie (and
	// into a fresh reference trie).
	fresh, _ := openTrie(c.Secure, common.Hash{}, trie.NewDatabase(ethdb.NewMemDatabase()), 0)
	rfresh := openRef(c.Secure, rtrie.NewDatabase(rethdb.NewMemDatabase()))
	for _, k := range sortedKeys(r.model) {
		fresh.TryUpdate([]byte(k), append([]byte{}, r.model[k]...))
		rfresh.TryUpdate([]byte(k), append([]byte{}, r.model[k]...))
	}
	if fr := fresh.Hash(); fr != root {
		x.Fail("trie-root-depends-on-history", "final: root after the history %x, root of the same content inserted in sorted order %x (%d keys)", root, fr, len(r.model))
		return
	}
	if rr := rfresh.Hash(); !bytes.Equal(rr[:], root[:]) {
		x.Fail("trie-root-differs-from-reference", "final: root %x, reference go-ethereum trie built from the same content %x", root, rr)
		return
	}
	// commit + reopen from disk reproduces the model
	if r.commit("final") {
		return
	}
	if err := r.tdb.Commit(r.last, false); err != nil {
		x.Fail("triedb-commit-error", "final: Database.Commit(%x): %v", r.last, err)
		return
	}
	r.tdb = trie.NewDatabase(r.disk)
	if r.reopen("final reopen from disk") {
		return
	}

	// ---- labels ----
	_, st := r.naive(r.model)
	if c.Secure {
		x.Label("secure")
	} else {
		x.Label("plain")
	}
	x.Labelf("final-keys:%s", sizeBucket(len(r.model)))
	if r.stats.collapse > 0 {
		x.Label("collapsing-delete")
	}
	if r.stats.embedded > 0 {
		x.Label("embedded-node-in-hashed-state")
	}
	if r.stats.big > 0 && r.stats.small > 0 {
		x.Label("values-cross-32")
	}
	if r.stats.node32 > 0 {
		x.Label("node-of-exactly-32-bytes")
	}
	if st.branchValues > 0 {
		x.Label("final-branch-with-value")
	}
	if st.exts > 0 {
		x.Label("final-extension")
	}
	if r.stats.prefixKey > 0 {
		x.Label("prefix-keys-in-table")
	}
	if c.CacheLimit > 0 && r.stats.commits > c.CacheLimit {
		x.Label("cache-unload")
	}
	if r.stats.collapse > 0 || (r.stats.big > 0 && r.stats.small > 0) {
		x.NonTrivial()
	}
}

func sizeBucket(n int) string {
	switch {
	case n == 0:
		return "0"
	case n == 1:
		return "1"
	case n <= 3:
		return "2-3"
	}
	return ">=4"
}

func TestTrie(t *testing.T) {
	h.Check(t, h.Spec[TrieCase]{Prop: "C11", Leg: "trie", Gen: genTrieCase, Run: runTrieCase})
}
